import Tulz.Model.Pool
namespace TPool

def Worker.task? : Worker → Option Task
  | .running t => some t
  | .ran t => some t
  | _ => none

def hands (ws : List Worker) : List Task := ws.filterMap Worker.task?

def Owner.todo : Owner → List OwnerOp
  | .idle l | .spawn l | .notifyOne l | .stopNotify l | .join _ l | .clearQ l => l

def tasksOf : List OwnerOp → List Task
  | [] => []
  | .start t :: l => t :: tasksOf l
  | _ :: l => tasksOf l

/-- ownership: every submitted task is in exactly one place (queue / a worker's hands / destroyed) -/
structure Own (s : State) : Prop where
  owned : (s.queue ++ hands s.ws ++ s.destroyed).Perm s.submitted
  fresh : (s.submitted ++ tasksOf s.owner.todo).Nodup

theorem awake_task_none {wk : Worker} (h : wk.awake = true) : wk.task? = none := by
  cases wk with
  | parked n => rfl
  | check => rfl
  | _ => simp [Worker.awake] at h

theorem hands_set_none {ws : List Worker} {w : Nat} {a x : Worker} (h : ws[w]? = some a)
    (ha : a.task? = none) (hx : x.task? = none) : hands (ws.set w x) = hands ws := by
  unfold hands
  induction ws generalizing w with
  | nil => simp at h
  | cons b l ih =>
    cases w with
    | zero => simp at h; subst h; simp [ha, hx]
    | succ w => simp at h; simp [List.filterMap_cons, ih h]

theorem hands_set_same {ws : List Worker} {w : Nat} {a x : Worker} (h : ws[w]? = some a)
    (hx : x.task? = a.task?) : hands (ws.set w x) = hands ws := by
  unfold hands
  induction ws generalizing w with
  | nil => simp at h
  | cons b l ih =>
    cases w with
    | zero => simp at h; subst h; simp [List.filterMap_cons, hx]
    | succ w => simp at h; simp [List.filterMap_cons, ih h]

theorem hands_set_take {ws : List Worker} {w : Nat} {a x : Worker} {t : Task} (h : ws[w]? = some a)
    (ha : a.task? = none) (hx : x.task? = some t) : (hands (ws.set w x)).Perm (t :: hands ws) := by
  unfold hands
  induction ws generalizing w with
  | nil => simp at h
  | cons b l ih =>
    cases w with
    | zero => simp at h; subst h; simp [ha, hx]
    | succ w =>
      simp at h
      simp only [List.set_cons_succ, List.filterMap_cons]
      cases hb : b.task? with
      | none => exact ih h
      | some u => exact ((ih h).cons u).trans (List.Perm.swap t u _)

theorem hands_set_drop {ws : List Worker} {w : Nat} {a x : Worker} {t : Task} (h : ws[w]? = some a)
    (ha : a.task? = some t) (hx : x.task? = none) : (hands ws).Perm (t :: hands (ws.set w x)) := by
  unfold hands
  induction ws generalizing w with
  | nil => simp at h
  | cons b l ih =>
    cases w with
    | zero => simp at h; subst h; simp [ha, hx]
    | succ w =>
      simp at h
      simp only [List.set_cons_succ, List.filterMap_cons]
      cases hb : b.task? with
      | none => exact ih h
      | some u => exact ((ih h).cons u).trans (List.Perm.swap t u _)

theorem hands_map_wakeAll (ws : List Worker) : hands (ws.map wakeAll) = hands ws := by
  unfold hands
  rw [List.filterMap_map]
  congr 1; funext w; cases w <;> rfl

theorem hands_append_check (ws : List Worker) : hands (ws ++ [.check]) = hands ws := by
  simp [hands, List.filterMap_append, Worker.task?]

theorem perm_clear (q h d : List Task) : ([] ++ h ++ (d ++ q)).Perm (q ++ h ++ d) := by
  simp only [List.nil_append, List.append_assoc]
  have h1 : (h ++ (d ++ q)).Perm (q ++ (h ++ d)) := by
    rw [← List.append_assoc]; exact List.perm_append_comm
  exact h1

theorem own_init (max prog) (hp : (tasksOf prog).Nodup) : Own (init max prog) := by
  refine ⟨by simp [init, hands], ?_⟩
  simpa [init, Owner.todo] using hp

theorem own_step {s t : State} (O : Own s) (h : Step s t) : Own t := by
  cases h with
  | start tk todo ho =>
    have hf := O.fresh; rw [ho] at hf
    simp only [Owner.todo, tasksOf] at hf
    refine ⟨?_, ?_⟩
    · show ((s.queue ++ [tk]) ++ hands s.ws ++ s.destroyed).Perm (s.submitted ++ [tk])
      have := O.owned.append_right [tk]
      refine List.Perm.trans ?_ this
      simp only [List.append_assoc]
      refine List.Perm.append_left _ ?_
      exact (List.perm_append_comm (l₁ := [tk])).trans (by simp [List.append_assoc])
    · show (s.submitted ++ [tk] ++ tasksOf todo).Nodup
      simpa [List.append_assoc] using hf
  | spawnYes todo ho hlt =>
    exact ⟨by show (s.queue ++ hands (s.ws ++ [.check]) ++ s.destroyed).Perm s.submitted
              rw [hands_append_check]; exact O.owned,
           by have := O.fresh; rw [ho] at this; exact this⟩
  | spawnNo todo ho hlt => exact ⟨O.owned, by have := O.fresh; rw [ho] at this; exact this⟩
  | notifyHit todo w ho hw =>
    exact ⟨by show (s.queue ++ hands (s.ws.set w (.parked true)) ++ s.destroyed).Perm s.submitted
              rw [hands_set_none hw rfl rfl]; exact O.owned,
           by have := O.fresh; rw [ho] at this; exact this⟩
  | notifyMiss todo ho hn => exact ⟨O.owned, by have := O.fresh; rw [ho] at this; exact this⟩
  | clear todo ho =>
    refine ⟨?_, by have := O.fresh; rw [ho] at this; simp only [Owner.todo, tasksOf] at this; exact this⟩
    show ([] ++ hands s.ws ++ (s.destroyed ++ s.queue)).Perm s.submitted
    exact (perm_clear _ _ _).trans O.owned
  | stop todo ho =>
    exact ⟨O.owned, by have := O.fresh; rw [ho] at this; simpa [Owner.todo, tasksOf] using this⟩
  | stopNotify todo ho =>
    exact ⟨by show (s.queue ++ hands (s.ws.map wakeAll) ++ s.destroyed).Perm s.submitted
              rw [hands_map_wakeAll]; exact O.owned,
           by have := O.fresh; rw [ho] at this; exact this⟩
  | joinOne w rem todo ho hw => exact ⟨O.owned, by have := O.fresh; rw [ho] at this; exact this⟩
  | joinDone todo ho => exact ⟨O.owned, by have := O.fresh; rw [ho] at this; exact this⟩
  | stopClear todo ho =>
    refine ⟨?_, by have := O.fresh; rw [ho] at this; exact this⟩
    show ([] ++ hands s.ws ++ (s.destroyed ++ s.queue)).Perm s.submitted
    exact (perm_clear _ _ _).trans O.owned
  | workerExit w wk hw ha hr =>
    exact ⟨by show (s.queue ++ hands (s.ws.set w .exited) ++ s.destroyed).Perm s.submitted
              rw [hands_set_none hw (awake_task_none ha) rfl]; exact O.owned, O.fresh⟩
  | workerPark w wk hw ha hr hq =>
    exact ⟨by show (s.queue ++ hands (s.ws.set w (.parked false)) ++ s.destroyed).Perm s.submitted
              rw [hands_set_none hw (awake_task_none ha) rfl]; exact O.owned, O.fresh⟩
  | workerTake w wk tk q hw ha hr hq =>
    refine ⟨?_, O.fresh⟩
    show (q ++ hands (s.ws.set w (.running tk)) ++ s.destroyed).Perm s.submitted
    have hh := hands_set_take (t := tk) hw (awake_task_none ha) (x := .running tk) rfl
    have := O.owned; rw [hq] at this
    refine List.Perm.trans ?_ this
    refine List.Perm.append_right _ ?_
    exact (hh.append_left q).trans (by simp)
  | workerRunEnd w tk hw =>
    exact ⟨by show (s.queue ++ hands (s.ws.set w (.ran tk)) ++ s.destroyed).Perm s.submitted
              rw [hands_set_same (x := .ran tk) hw rfl]; exact O.owned, O.fresh⟩
  | workerDelete w tk hw =>
    refine ⟨?_, O.fresh⟩
    show (s.queue ++ hands (s.ws.set w .check) ++ (s.destroyed ++ [tk])).Perm s.submitted
    have hh := hands_set_drop (t := tk) hw rfl (x := .check) rfl
    refine List.Perm.trans ?_ O.owned
    -- move tk from the end back into the hands
    have e1 : (s.queue ++ hands (s.ws.set w .check) ++ (s.destroyed ++ [tk])).Perm
        (s.queue ++ (tk :: hands (s.ws.set w .check)) ++ s.destroyed) := by
      simp only [List.append_assoc]
      refine List.Perm.append_left _ ?_
      have : (hands (s.ws.set w .check) ++ (s.destroyed ++ [tk])).Perm (tk :: (hands (s.ws.set w .check) ++ s.destroyed)) := by
        rw [← List.append_assoc]; exact List.perm_append_singleton _ _
      simpa using this
    exact e1.trans ((hh.symm.append_left s.queue).append_right s.destroyed)

theorem own_sstep {s t : State} (O : Own s) (h : SStep s t) : Own t := by
  cases h with
  | code hs => exact own_step O hs
  | spurious w hw =>
    exact ⟨by show (s.queue ++ hands (s.ws.set w (.parked true)) ++ s.destroyed).Perm s.submitted
              rw [hands_set_none hw rfl rfl]; exact O.owned, O.fresh⟩

end TPool

