import Tulz.Model.Observable
import Tulz.Proofs.SubjectRound
/- Lemmas about the Observable model: what `notifyVal` logs, and the recorder invariant of C16. -/
namespace Tulz.Observable
open Tulz.Subject
variable {T : Type}

/-- the subscribers that are called by a notification: subscribed, valid, unmuted — in subscription order -/
def subscribers (w : World T) : List Nat := (w.order.filter (fun o => o.valid && !o.muted)).map (·.id)

theorem evsSince_self (w : World T) : evsSince w w = [] := by simp [evsSince]

theorem notifyVal_spec (lib : Nat → List Action) (o : Obsv T) (hw : WF o.w) (hd : o.w.depth = 0) (hp : Plain o.w) :
    (o.notifyVal lib).val = o.val ∧
    calls (evsSince o.w (o.notifyVal lib).w) = (subscribers o.w).map (fun i => (i, o.val)) := by
  refine ⟨rfl, ?_⟩
  show calls (evsSince o.w (notify lib 0 o.w o.val)) = _
  rw [(notify_plain lib 0 hw hd hp o.val).1]
  unfold subscribers
  rw [List.map_map]
  rfl

/-! ### recorders -/

theorem store1_eq (cells : Cells T) (c : Nat × T) :
    store1 cells c = cells.map (fun p => if p.1 = c.1 then (p.1, c.2) else p) := rfl

/-- after a notification with value `v` to the ids `L`: exactly the cells of `L` hold `v`, the others are untouched -/
theorem storeAll_map (v : T) (L : List Nat) : ∀ cells : Cells T,
    storeAll cells (L.map (fun i => (i, v))) = cells.map (fun p => if p.1 ∈ L then (p.1, v) else p) := by
  induction L with
  | nil => intro cells; simp [storeAll]
  | cons i L ih =>
    intro cells
    show storeAll (store1 cells (i, v)) (L.map (fun i => (i, v))) = _
    rw [ih, store1_eq, List.map_map]
    apply List.map_congr_left
    intro p _
    by_cases h1 : p.1 = i
    · simp [h1]
    · by_cases h2 : p.1 ∈ L <;> simp [h1, h2]

/-- every subscriber is valid, unmuted and a plain recorder -/
def PlainLive (w : World T) : Prop := ∀ o ∈ w.obs, o.valid = true ∧ o.muted = false ∧ o.script = []

theorem PlainLive.plain {w : World T} (h : PlainLive w) : Plain w := fun o ho => (h o ho).2.2

theorem subscribers_all {w : World T} (hw : WF w) (h : PlainLive w) (i : Nat) : i ∈ subscribers w ↔ i ∈ w.active := by
  unfold subscribers World.order
  rw [hw.act, mem_ids]
  simp only [List.mem_map, List.mem_filter, List.mem_reverse]
  constructor
  · rintro ⟨o, ⟨ho, _⟩, hi⟩; exact ⟨o, ho, hi⟩
  · rintro ⟨o, ho, hi⟩
    obtain ⟨hv, hm, _⟩ := h o ho
    exact ⟨o, ⟨ho, by simp [hv, hm]⟩, hi⟩

theorem unsubById_sub (w : World T) (i : Nat) :
    (∀ o ∈ (w.unsubscribeById i).obs, o ∈ w.obs) ∧ (∀ j ∈ (w.unsubscribeById i).active, j ∈ w.active) := by
  have hsub : ∀ o ∈ w.obs.eraseP (fun o => o.id == i), o ∈ w.obs := fun o ho => (List.eraseP_sublist).subset ho
  have hact : ∀ j ∈ eraseSet i w.active, j ∈ w.active := fun j hj => (mem_eraseSet.1 hj).1
  unfold World.unsubscribeById
  cases w.obs.find? (fun o => o.id == i) with
  | none => exact ⟨fun _ h => h, hact⟩
  | some o =>
    simp only []
    by_cases hd : 0 < w.depth
    · rw [if_pos hd]; exact ⟨hsub, hact⟩
    · rw [if_neg hd]; exact ⟨hsub, hact⟩

theorem unsubSlot_sub (w : World T) (hi : Nat) :
    (∀ o ∈ (w.unsubSlot hi).1.obs, o ∈ w.obs) ∧ (∀ j ∈ (w.unsubSlot hi).1.active, j ∈ w.active) ∧
    (∃ evs, (w.unsubSlot hi).1.trace = w.trace ++ evs ∧ calls evs = []) := by
  unfold World.unsubSlot
  cases w.handles[hi]? with
  | none => exact ⟨fun _ h => h, fun _ h => h, [], by simp, rfl⟩
  | some h =>
    simp only []
    unfold World.unsubscribe
    cases w.validId? h with
    | none => exact ⟨fun _ h => h, fun _ h => h, [], by simp, rfl⟩
    | some i =>
      obtain ⟨a, b⟩ := unsubById_sub w i
      exact ⟨a, b, unsubById_trace w i⟩

/-- the invariant behind C16_recorder -/
structure RInv (s : Obsv T × Cells T) : Prop where
  wf : WF s.1.w
  depth : s.1.w.depth = 0
  pl : PlainLive s.1.w
  cover : ∀ i ∈ s.1.w.active, ∃ p ∈ s.2, p.1 = i
  old : ∀ p ∈ s.2, p.1 < s.1.w.counter
  holds : ∀ p ∈ s.2, p.1 ∈ s.1.w.active → p.2 = s.1.val

/-- a notification with the (new) value `v` re-establishes the invariant -/
theorem RInv.notified {o : Obsv T} {cells : Cells T} (hw : WF o.w) (hd : o.w.depth = 0) (hpl : PlainLive o.w)
    (hc : ∀ i ∈ o.w.active, ∃ p ∈ cells, p.1 = i) (ho : ∀ p ∈ cells, p.1 < o.w.counter) :
    RInv (o.notifyVal (fun _ => []), storeAll cells (calls (evsSince o.w (o.notifyVal (fun _ => [])).w))) := by
  obtain ⟨_, hlog⟩ := notifyVal_spec (fun _ => []) o hw hd hpl.plain
  obtain ⟨_, hsub, hsame⟩ := notify_plain (fun _ => []) 0 hw hd hpl.plain o.val
  obtain ⟨hobs, hact⟩ := hsame (fun x hx => (hpl x hx).1)
  obtain ⟨w', d', t'⟩ := notify_top (fun _ => []) 0 hw hd o.val
  rw [hlog, storeAll_map]
  refine ⟨w', d', ?_, ?_, ?_, ?_⟩
  · intro x hx; exact hpl x (hsub x hx)
  · intro i hi
    have hi' : i ∈ o.w.active := by
      have : i ∈ (notify (fun _ => []) 0 o.w o.val).active := hi
      rwa [hact] at this
    obtain ⟨p, hp, hpi⟩ := hc i hi'
    refine ⟨_, List.mem_map.2 ⟨p, hp, rfl⟩, ?_⟩
    by_cases h : p.1 ∈ subscribers o.w
    · rw [if_pos h]; exact hpi
    · rw [if_neg h]; exact hpi
  · intro p hp
    obtain ⟨q, hq, rfl⟩ := List.mem_map.1 hp
    have : q.1 < (notify (fun _ => []) 0 o.w o.val).counter := Nat.lt_of_lt_of_le (ho q hq) t'.counter
    by_cases h : q.1 ∈ subscribers o.w
    · rw [if_pos h]; exact this
    · rw [if_neg h]; exact this
  · intro p hp hpa
    obtain ⟨q, hq, rfl⟩ := List.mem_map.1 hp
    have hpa' : (if q.1 ∈ subscribers o.w then (q.1, o.val) else q).1 ∈ o.w.active := by
      have : _ ∈ (notify (fun _ => []) 0 o.w o.val).active := hpa
      rwa [hact] at this
    by_cases h : q.1 ∈ subscribers o.w
    · simp only [h, if_true]; rfl
    · simp only [h, if_false] at hpa'
      exact absurd ((subscribers_all hw hpl _).2 hpa') h

theorem rstep_inv [BEq T] [LawfulBEq T] {s : Obsv T × Cells T} (h : RInv s) (op : OOp T) :
    RInv (rstep (· == ·) s op) := by
  obtain ⟨o, cells⟩ := s
  obtain ⟨hw, hd, hpl, hc, hold, hh⟩ := h
  have keep : ∀ v, v = o.val → RInv (({ o with val := v } : Obsv T), storeAll cells (calls (evsSince o.w o.w))) := by
    intro v hv
    rw [evsSince_self]
    exact ⟨hw, hd, hpl, hc, hold, fun p hp ha => (hh p hp ha).trans hv.symm⟩
  have notif : ∀ v, RInv ((({ o with val := v } : Obsv T)).notifyVal (fun _ => []),
      storeAll cells (calls (evsSince o.w ((({ o with val := v } : Obsv T)).notifyVal (fun _ => [])).w))) :=
    fun v => RInv.notified (o := { o with val := v }) hw hd hpl hc hold
  cases op with
  | assign v =>
    show RInv (o.assign (fun _ => []) (· == ·) v, storeAll cells (calls (evsSince o.w (o.assign (fun _ => []) (· == ·) v).w)))
    unfold Obsv.assign
    by_cases he : (o.val == v) = true
    · simp only [he, Bool.not_true, Bool.false_eq_true, if_false]
      exact keep o.val rfl
    · simp only [he, Bool.not_false, if_true]
      exact notif v
  | apply f =>
    show RInv (o.apply (fun _ => []) (· == ·) f, storeAll cells (calls (evsSince o.w (o.apply (fun _ => []) (· == ·) f).w)))
    unfold Obsv.apply
    by_cases he : (o.val == f o.val) = true
    · simp only [he, Bool.not_true, Bool.false_eq_true, if_false]
      exact keep (f o.val) (eq_of_beq he).symm
    · simp only [he, Bool.not_false, if_true]
      exact notif (f o.val)
  | pre f => exact notif (f o.val)
  | post f => exact notif (f o.val)
  | sub =>
    show RInv (o.subscribe [], (o.w.counter, o.val) :: storeAll cells (calls (evsSince o.w (o.subscribe []).w)))
    have ht : evsSince o.w (o.subscribe []).w = [] := evsSince_self o.w
    rw [ht]
    obtain ⟨w', d', _⟩ := subscribeSlot_spec hw [] false
    refine ⟨w', d'.trans hd, ?_, ?_, ?_, ?_⟩
    · intro x hx
      have hx' : x ∈ (⟨o.w.counter, true, false, []⟩ : Obs) :: o.w.obs := hx
      rcases List.mem_cons.1 hx' with rfl | hx''
      · exact ⟨rfl, rfl, rfl⟩
      · exact hpl x hx''
    · intro i hi
      have hi' : i ∈ insertSet o.w.counter o.w.active := hi
      rcases mem_insertSet.1 hi' with rfl | hi''
      · exact ⟨_, List.mem_cons_self, rfl⟩
      · obtain ⟨p, hp, hpi⟩ := hc i hi''
        exact ⟨p, List.mem_cons_of_mem _ hp, hpi⟩
    · intro p hp
      show p.1 < o.w.counter + 1
      rcases List.mem_cons.1 hp with rfl | hp'
      · exact Nat.lt_succ_self _
      · exact Nat.lt_succ_of_lt (hold p hp')
    · intro p hp ha
      rcases List.mem_cons.1 hp with rfl | hp'
      · rfl
      · have ha' : p.1 ∈ insertSet o.w.counter o.w.active := ha
        rcases mem_insertSet.1 ha' with e | ha''
        · exact absurd (hold p hp') (e ▸ Nat.lt_irrefl _)
        · exact hh p hp' ha''
  | unsub hi =>
    show RInv (o.unsubscribe hi, storeAll cells (calls (evsSince o.w (o.unsubscribe hi).w)))
    obtain ⟨hsub, hact, evs, t, c⟩ := unsubSlot_sub o.w hi
    obtain ⟨w', d', t'⟩ := unsubSlot_top hw hd hi
    have : evsSince o.w (o.unsubscribe hi).w = evs := evsSince_of_trace t
    rw [this, c]
    exact ⟨w', d', fun x hx => hpl x (hsub x hx), fun i hi' => hc i (hact i hi'),
           fun p hp => Nat.lt_of_lt_of_le (hold p hp) t'.counter, fun p hp ha => hh p hp (hact _ ha)⟩

theorem rrun_inv [BEq T] [LawfulBEq T] (ops : List (OOp T)) : ∀ {s : Obsv T × Cells T}, RInv s → RInv (rrun (· == ·) s ops) := by
  induction ops with
  | nil => intro s h; exact h
  | cons op ops ih => intro s h; exact ih (rstep_inv h op)

end Tulz.Observable
