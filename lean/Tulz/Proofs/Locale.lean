import Tulz.Model.Locale
/-! Lemmas for C19 (LocaleInfo::get).  Everything here is generic in the two tables; the table facts are
    hypotheses (`LangFacts`, `CountryFacts`) that Props/C19.lean discharges by `decide +kernel` over the
    regenerated tables. -/
namespace Tulz.Locale

/-! ## strstr with a one-byte needle -/

theorem takeWhile_ne_of_not_mem (c : Nat) (s : Bytes) (h : c ∉ s) : s.takeWhile (· != c) = s := by
  induction s with
  | nil => rfl
  | cons b bs ih =>
    have hb : b ≠ c := fun e => h (e ▸ List.mem_cons_self)
    have hbs : c ∉ bs := fun m => h (List.mem_cons_of_mem _ m)
    simp [hb, ih hbs]

theorem idxOf?_eq (c : Nat) (s : Bytes) :
    idxOf? c s = if c ∈ s then some (s.takeWhile (· != c)).length else none := by
  induction s with
  | nil => simp [idxOf?]
  | cons b bs ih =>
    by_cases hb : b = c
    · subst hb; simp [idxOf?]
    · have hc : ¬ c = b := fun e => hb e.symm
      by_cases hm : c ∈ bs
      · simp [idxOf?, hb, ih, hm]
      · simp [idxOf?, hb, ih, hm, hc]

theorem dotOffset_eq (s : Bytes) : dotOffset s = (s.takeWhile (· != dot)).length := by
  unfold dotOffset
  rw [idxOf?_eq]
  by_cases h : dot ∈ s
  · simp [h]
  · simp [h, takeWhile_ne_of_not_mem dot s h]

theorem takeWhile_append_stop (c : Nat) (q r : Bytes) : (q ++ c :: r).takeWhile (· != c) = q.takeWhile (· != c) := by
  induction q with
  | nil => simp
  | cons b bs ih =>
    by_cases hb : b = c
    · simp [hb]
    · simp [hb, ih]

theorem takeWhile_append_of_mem (c : Nat) (q r : Bytes) (h : c ∈ q) : (q ++ r).takeWhile (· != c) = q.takeWhile (· != c) := by
  obtain ⟨a, b, rfl⟩ := List.append_of_mem h
  rw [List.append_assoc, List.cons_append, takeWhile_append_stop, takeWhile_append_stop]

theorem takeWhile_append_of_not_mem (c : Nat) (q r : Bytes) (h : c ∉ q) :
    (q ++ r).takeWhile (· != c) = q ++ r.takeWhile (· != c) := by
  induction q with
  | nil => rfl
  | cons b bs ih =>
    have hb : b ≠ c := fun e => h (e ▸ List.mem_cons_self)
    have hbs : c ∉ bs := fun m => h (List.mem_cons_of_mem _ m)
    simp [hb, ih hbs]

theorem length_takeWhile_lt_of_mem (c : Nat) (q : Bytes) (h : c ∈ q) : (q.takeWhile (· != c)).length < q.length := by
  induction q with
  | nil => cases h
  | cons b bs ih =>
    by_cases hb : b = c
    · simp [hb]
    · have : c ∈ bs := by
        cases h with
        | head => exact absurd rfl hb
        | tail _ m => exact m
      simp [hb]
      exact ih this

theorem not_mem_takeWhile_ne (c : Nat) (s : Bytes) : c ∉ s.takeWhile (· != c) := by
  induction s with
  | nil => simp
  | cons b bs ih =>
    by_cases hb : b = c
    · simp [hb]
    · have hc : ¬ c = b := fun e => hb e.symm
      simp [hb, hc, ih]

/-- splitting at the first `_` -/
theorem split_underscore (s : Bytes) (h : underscore ∈ s) : s = langPart s ++ underscore :: afterUnderscore s := by
  unfold langPart afterUnderscore
  induction s with
  | nil => cases h
  | cons b bs ih =>
    by_cases hb : b = underscore
    · simp [hb]
    · have : underscore ∈ bs := by
        cases h with
        | head => exact absurd rfl hb
        | tail _ m => exact m
      have hb' : (b != underscore) = true := by simp [hb]
      rw [List.takeWhile_cons, List.dropWhile_cons, if_pos hb', if_pos hb', List.cons_append]
      exact congrArg (b :: ·) (ih this)

theorem langPart_append (L R : Bytes) (hL : underscore ∉ L) : langPart (L ++ underscore :: R) = L := by
  unfold langPart
  rw [takeWhile_append_stop, takeWhile_ne_of_not_mem _ _ hL]

theorem afterUnderscore_append (L R : Bytes) (hL : underscore ∉ L) : afterUnderscore (L ++ underscore :: R) = R := by
  unfold afterUnderscore
  induction L with
  | nil => simp
  | cons b bs ih =>
    have hb : b ≠ underscore := fun e => hL (e ▸ List.mem_cons_self)
    have hbs : underscore ∉ bs := fun m => hL (List.mem_cons_of_mem _ m)
    simp only [List.cons_append, List.dropWhile_cons, bne_iff_ne, ne_eq, hb, not_false_eq_true, ↓reduceIte]
    exact ih hbs

/-! ## memcpy / cstr on the 64-byte buffer -/

/-- what `strcmp` sees of a copied part: the part up to its first NUL (the whole part for a C string argument) -/
def keyOf (q : Bytes) : Bytes := q.takeWhile (· != 0)

theorem keyOf_of_not_mem (q : Bytes) (h : 0 ∉ q) : keyOf q = q := takeWhile_ne_of_not_mem 0 q h

theorem keyOf_length_le (q : Bytes) : (keyOf q).length ≤ q.length := by
  unfold keyOf
  exact (List.takeWhile_sublist _).length_le

theorem memcpy_nat (buf src : Bytes) (n : Nat) (h1 : n ≤ buf.length) (h2 : n ≤ src.length) :
    memcpy buf src (n : Int) = .ok (src.take n ++ buf.drop n) := by
  unfold memcpy
  have a : ¬ ((n : Int) < 0) := by omega
  have b : ¬ (n > buf.length) := by omega
  have c : ¬ (n > src.length) := by omega
  simp only [a, Int.toNat_natCast, b, c, ↓reduceIte]

theorem cstr_padded (q : Bytes) (k : Nat) : cstr (q ++ List.replicate (k + 1) 0) = .ok (keyOf q) := by
  unfold cstr keyOf
  have : (0 : Nat) ∈ q ++ List.replicate (k + 1) 0 := by simp
  rw [if_pos this, List.replicate_succ, takeWhile_append_stop]


theorem memset_full (buf : Bytes) (h : buf.length = bufSize) : memset buf 0 bufSize = List.replicate bufSize 0 := by
  unfold memset
  simp [h]

theorem take_length_append (L X : Bytes) : (L ++ X).take L.length = L := by simp
theorem drop_length_succ_append (L X : Bytes) (c : Nat) : (L ++ c :: X).drop (L.length + 1) = X := by
  induction L with
  | nil => simp
  | cons b bs ih => simp

/-- first copy: the buffer holds the language part followed by zeros -/
theorem memcpy_first (L X : Bytes) (hL : L.length ≤ 63) :
    memcpy (List.replicate bufSize 0) (L ++ X) (L.length : Int) = .ok (L ++ List.replicate (63 - L.length + 1) 0) := by
  rw [memcpy_nat _ _ _ (by simp [bufSize]; omega) (by simp)]
  rw [take_length_append, List.drop_replicate]
  have : bufSize - L.length = 63 - L.length + 1 := by simp [bufSize]; omega
  rw [this]

theorem memcpy_second (R : Bytes) (n : Nat) (hn : n ≤ 63) (hR : n ≤ R.length) :
    memcpy (List.replicate bufSize 0) (R ++ [0]) (n : Int) = .ok (R.take n ++ List.replicate (63 - n + 1) 0) := by
  rw [memcpy_nat _ _ _ (by simp [bufSize]; omega) (by simp; omega)]
  rw [List.take_append_of_le_length hR, List.drop_replicate]
  have : bufSize - n = 63 - n + 1 := by simp [bufSize]; omega
  rw [this]

/-- the tail of `get` once both parts have been compared -/
def finish (acc : LangAcc) (c : Option (Bytes × Bytes)) : Except Err Info :=
  if acc.names.isEmpty then .ok fallback else
  match c with
  | none => .ok fallback
  | some e =>
    match acc.code with
    | none => .error .uninitialised
    | some lc => .ok { languages := acc.names, languageCode := lc, country := e.2, countryCode := e.1, error := false }

/-- byte level → list level: with both parts at most 63 bytes long the repaired code compares exactly the two parts -/
theorem copyAndScan_nf (langT ctryT : Table) (L R : Bytes) (n : Nat) (hL : L.length ≤ 63) (hn : n ≤ 63) (hR : n ≤ R.length) :
    copyAndScan true langT ctryT (L ++ underscore :: (R ++ [0])) L.length (L.length + 1 + n)
      = finish (scanLang (keyOf L) langT {}) (scanCountry (keyOf (R.take n)) ctryT) := by
  unfold copyAndScan
  have g1 : (L.length + 1 + n > L.length) = True := by simp; omega
  have g2 : ((L.length : Int) ≤ 63) = True := by simp; omega
  have e3 : ((L.length + 1 + n : Nat) : Int) - (L.length : Int) - 1 = (n : Int) := by omega
  have g3 : ((n : Int) ≤ 63) = True := by simp; omega
  simp only [e3, g1, g2, g3, decide_true, Bool.and_true, Bool.not_true]
  rw [memcpy_first L _ hL]
  simp only [Except.bind]
  rw [cstr_padded, memset_full _ (by simp [bufSize]; omega), drop_length_succ_append, memcpy_second R n hn hR]
  simp only
  rw [cstr_padded]
  simp only [Bool.true_and, finish, Bool.false_eq_true, ↓reduceIte]
  generalize scanCountry (keyOf (List.take n R)) ctryT = c
  generalize scanLang (keyOf L) langT {} = acc
  cases c <;> cases acc with | mk code names => cases code <;> rfl


/-- the F9 guards: a `.` before the `_` or a part longer than 63 bytes goes to the fallback before anything is copied -/
theorem copyAndScan_guard (langT ctryT : Table) (mem : Bytes) (delim D : Nat)
    (h : D ≤ delim ∨ 63 < delim ∨ 63 + delim + 1 < D) : copyAndScan true langT ctryT mem delim D = .ok fallback := by
  unfold copyAndScan
  have : (decide (D > delim) && decide ((delim : Int) ≤ 63) && decide ((D : Int) - (delim : Int) - 1 ≤ 63)) = false := by
    rcases h with h | h | h
    · have : ¬ (D > delim) := by omega
      simp [this]
    · have : ¬ ((delim : Int) ≤ 63) := by omega
      simp [this]
    · have : ¬ ((D : Int) - (delim : Int) - 1 ≤ 63) := by omega
      simp [this]
  simp only [this, Bool.not_false, Bool.and_true, ↓reduceIte]

theorem take_length_takeWhile (p : Nat → Bool) (R : Bytes) : R.take (R.takeWhile p).length = R.takeWhile p := by
  induction R with
  | nil => rfl
  | cons b bs ih =>
    by_cases hb : p b = true
    · simp [hb, ih]
    · simp [hb]

theorem exists_split (s : Bytes) (h : underscore ∈ s) : ∃ L R, underscore ∉ L ∧ s = L ++ underscore :: R :=
  ⟨langPart s, afterUnderscore s, not_mem_takeWhile_ne _ _, split_underscore s h⟩

/-- **Normal form of the repaired `get`.**  For every byte list: no error branch of the byte-level model is reachable
except through `finish`, and the keys compared with the tables are the two parts (cut at a NUL, if any). -/
theorem getT_nf (langT ctryT : Table) (s : Bytes) :
    getT langT ctryT s =
      if underscore ∈ s ∧ dot ∉ langPart s ∧ (langPart s).length ≤ 63 ∧ (countryPart s).length ≤ 63 then
        finish (scanLang (keyOf (langPart s)) langT {}) (scanCountry (keyOf (countryPart s)) ctryT)
      else .ok fallback := by
  by_cases hu : underscore ∈ s
  · obtain ⟨L, R, hL, rfl⟩ := exists_split s hu
    have h1 : idxOf? underscore (L ++ underscore :: R) = some L.length := by
      rw [idxOf?_eq, if_pos hu, takeWhile_append_stop, takeWhile_ne_of_not_mem _ _ hL]
    have hmem : L ++ underscore :: R ++ [0] = L ++ underscore :: (R ++ [0]) := by simp
    unfold getT getGen countryPart
    rw [h1, langPart_append L R hL, afterUnderscore_append L R hL, dotOffset_eq, hmem]
    simp only
    by_cases hd : dot ∈ L
    · rw [takeWhile_append_of_mem dot L _ hd, copyAndScan_guard _ _ _ _ _ (Or.inl (Nat.le_of_lt (length_takeWhile_lt_of_mem dot L hd)))]
      rw [if_neg (fun h => h.2.1 hd)]
    · have hD : ((L ++ underscore :: R).takeWhile (· != dot)).length = L.length + 1 + (R.takeWhile (· != dot)).length := by
        rw [takeWhile_append_of_not_mem dot L _ hd, List.takeWhile_cons]
        simp [underscore, dot]; omega
      rw [hD]
      by_cases hl : L.length ≤ 63
      · by_cases hc : (R.takeWhile (· != dot)).length ≤ 63
        · rw [copyAndScan_nf langT ctryT L R _ hl hc (List.takeWhile_sublist _).length_le, take_length_takeWhile,
            if_pos ⟨hu, hd, hl, hc⟩]
        · rw [copyAndScan_guard _ _ _ _ _ (Or.inr (Or.inr (by omega))), if_neg (fun h => hc h.2.2.2)]
      · rw [copyAndScan_guard _ _ _ _ _ (Or.inr (Or.inl (by omega))), if_neg (fun h => hl h.2.2.1)]
  · have h1 : idxOf? underscore s = none := by rw [idxOf?_eq, if_neg hu]
    unfold getT getGen
    rw [h1, if_neg (fun h => hu h.1)]


/-! ## memory safety for every byte list and every pair of tables -/

theorem scanLang_code (key : Bytes) (T : Table) (acc : LangAcc) (h : acc.names ≠ [] → acc.code ≠ none) :
    (scanLang key T acc).names ≠ [] → (scanLang key T acc).code ≠ none := by
  induction T generalizing acc with
  | nil => exact h
  | cons e rest ih =>
    unfold scanLang
    split
    · exact ih _ (fun _ => by simp)
    · split
      · intro _; simp
      · exact ih _ h

theorem finish_ok (acc : LangAcc) (c : Option (Bytes × Bytes)) (h : acc.names ≠ [] → acc.code ≠ none) :
    ∃ i, finish acc c = .ok i := by
  unfold finish
  by_cases he : acc.names.isEmpty = true
  · exact ⟨fallback, by rw [if_pos he]⟩
  · rw [if_neg he]
    cases c with
    | none => exact ⟨fallback, rfl⟩
    | some e =>
      have hn : acc.names ≠ [] := by simpa [List.isEmpty_iff] using he
      cases hc : acc.code with
      | none => exact absurd hc (h hn)
      | some lc => exact ⟨_, rfl⟩

/-- no out-of-bounds read or write, no uninitialised field: for ANY byte list (even one containing NUL bytes) and ANY tables -/
theorem getT_safe (langT ctryT : Table) (s : Bytes) : ∃ i, getT langT ctryT s = .ok i := by
  rw [getT_nf]
  split
  · exact finish_ok _ _ (scanLang_code _ _ _ (fun h => absurd rfl h))
  · exact ⟨fallback, rfl⟩

/-! ## the scans are the table look-ups of the specification -/

theorem namesOf_eq_nil_iff (T : Table) (key : Bytes) : namesOf T key = [] ↔ ∀ e ∈ T, e.1 ≠ key := by
  simp [namesOf, List.filter_eq_nil_iff]

theorem namesOf_cons (e : Bytes × Bytes) (T : Table) (key : Bytes) :
    namesOf (e :: T) key = if e.1 = key then e.2 :: namesOf T key else namesOf T key := by
  unfold namesOf
  by_cases h : e.1 = key <;> simp [h]

/-- the key is no NAME in the table: the loop never breaks and collects every name carrying the code -/
theorem scanLang_notName (key : Bytes) (T : Table) (acc : LangAcc) (h : ∀ e ∈ T, e.2 ≠ key) :
    scanLang key T acc = { code := if namesOf T key = [] then acc.code else some key, names := acc.names ++ namesOf T key } := by
  induction T generalizing acc with
  | nil => simp [scanLang, namesOf]
  | cons e rest ih =>
    have hr : ∀ e ∈ rest, e.2 ≠ key := fun x hx => h x (List.mem_cons_of_mem _ hx)
    have he : e.2 ≠ key := h e List.mem_cons_self
    unfold scanLang
    rw [namesOf_cons]
    by_cases hc : e.1 = key
    · rw [if_pos hc, if_pos hc, ih _ hr]
      by_cases hn : namesOf rest key = [] <;> simp [hn, hc]
    · rw [if_neg hc, if_neg he, if_neg hc, ih _ hr]

/-- the key is no CODE in the table: the loop stops at the first entry with that name -/
theorem scanLang_notCode (key : Bytes) (T : Table) (acc : LangAcc) (h : ∀ e ∈ T, e.1 ≠ key) :
    scanLang key T acc = match T.find? (fun e => e.2 == key) with
      | some e => { code := some e.1, names := acc.names ++ [key] }
      | none => acc := by
  induction T generalizing acc with
  | nil => simp [scanLang]
  | cons e rest ih =>
    have hr : ∀ e ∈ rest, e.1 ≠ key := fun x hx => h x (List.mem_cons_of_mem _ hx)
    have he : e.1 ≠ key := h e List.mem_cons_self
    unfold scanLang
    rw [if_neg he]
    by_cases hn : e.2 = key
    · simp [hn]
    · rw [if_neg hn, ih _ hr]
      simp [hn]

def accOf : Option (Bytes × List Bytes) → LangAcc
  | some l => { code := some l.1, names := l.2 }
  | none => {}

/-- with codes and names disjoint, the language loop computes `lookupLang` -/
theorem scanLang_eq_lookup (T : Table) (hd : ∀ e ∈ T, ∀ e' ∈ T, e.1 ≠ e'.2) (key : Bytes) :
    scanLang key T {} = accOf (lookupLang T key) := by
  unfold lookupLang
  by_cases hn : namesOf T key = []
  · have hc := (namesOf_eq_nil_iff T key).1 hn
    rw [scanLang_notCode key T _ hc]
    simp only [hn, ne_eq, not_true_eq_false, ↓reduceIte]
    cases T.find? (fun e => e.2 == key) <;> simp [accOf]
  · have : ∃ e ∈ T, e.1 = key := by
      apply Classical.byContradiction
      intro h
      exact hn ((namesOf_eq_nil_iff T key).2 (fun e he hk => h ⟨e, he, hk⟩))
    obtain ⟨e, he, hk⟩ := this
    have hname : ∀ e' ∈ T, e'.2 ≠ key := fun e' he' h' => hd e he e' he' (hk.trans h'.symm)
    rw [scanLang_notName key T _ hname]
    simp [hn, accOf]

theorem lookupLang_names_ne_nil (T : Table) (key : Bytes) (l : Bytes × List Bytes) (h : lookupLang T key = some l) : l.2 ≠ [] := by
  unfold lookupLang at h
  by_cases hn : namesOf T key = []
  · simp only [hn, ne_eq, not_true_eq_false, ↓reduceIte] at h
    cases hf : T.find? (fun e => e.2 == key) with
    | none => simp [hf] at h
    | some e => simp [hf] at h; subst h; simp
  · simp only [ne_eq, hn, not_false_eq_true, ↓reduceIte, Option.some.injEq] at h
    subst h; exact hn

theorem scanCountry_eq_lookup (T : Table) (key : Bytes) : scanCountry key T = lookupCountry T key := by
  unfold lookupCountry
  induction T with
  | nil => rfl
  | cons e rest ih =>
    unfold scanCountry
    by_cases h : e.1 = key ∨ e.2 = key
    · rw [if_pos h]
      have : (e.1 == key || e.2 == key) = true := by simpa using h
      simp [this]
    · rw [if_neg h, ih]
      have : (e.1 == key || e.2 == key) = false := by simpa using h
      simp [this]

def found (l : Bytes × List Bytes) (c : Bytes × Bytes) : Info :=
  { languages := l.2, languageCode := l.1, country := c.2, countryCode := c.1, error := false }

theorem finish_accOf (l : Option (Bytes × List Bytes)) (hl : ∀ x, l = some x → x.2 ≠ []) (c : Option (Bytes × Bytes)) :
    finish (accOf l) c = .ok (combine l c) := by
  unfold finish combine
  cases l with
  | none => simp [accOf]
  | some x =>
    have : x.2.isEmpty = false := by
      cases h : x.2 with
      | nil => exact absurd h (hl x rfl)
      | cons _ _ => rfl
    cases c <;> simp [accOf, this]


/-! ## table facts (hypotheses of the generic theorems; discharged over the regenerated tables in Props/C19.lean) -/

structure LangFacts (T : Table) : Prop where
  /-- every key fits the buffer together with its NUL -/
  short : ∀ e ∈ T, e.1.length < bufSize ∧ e.2.length < bufSize
  /-- no code is also a name -/
  disjoint : ∀ e ∈ T, ∀ e' ∈ T, e.1 ≠ e'.2
  noUnderscore : ∀ e ∈ T, underscore ∉ e.1 ∧ underscore ∉ e.2
  noDot : ∀ e ∈ T, dot ∉ e.1 ∧ dot ∉ e.2
  noNul : ∀ e ∈ T, 0 ∉ e.1 ∧ 0 ∉ e.2
  hasFallback : fallbackLang ∈ T

structure CountryFacts (T : Table) : Prop where
  short : ∀ e ∈ T, e.1.length < bufSize ∧ e.2.length < bufSize
  noUnderscore : ∀ e ∈ T, underscore ∉ e.1 ∧ underscore ∉ e.2
  noNul : ∀ e ∈ T, 0 ∉ e.1 ∧ 0 ∉ e.2
  codesUnique : ∀ e ∈ T, ∀ e' ∈ T, e.1 = e'.1 → e = e'
  namesUnique : ∀ e ∈ T, ∀ e' ∈ T, e.2 = e'.2 → e = e'
  disjoint : ∀ e ∈ T, ∀ e' ∈ T, e.1 ≠ e'.2
  hasFallback : fallbackCountry ∈ T

/-! ## `get = spec` -/

theorem lookupLang_none_of_long (T : Table) (hs : ∀ e ∈ T, e.1.length < bufSize ∧ e.2.length < bufSize) (key : Bytes)
    (h : 63 < key.length) : lookupLang T key = none := by
  unfold lookupLang
  have hn : namesOf T key = [] := (namesOf_eq_nil_iff T key).2 (fun e he hk => by
    have := (hs e he).1; rw [hk] at this; simp [bufSize] at this; omega)
  have hf : T.find? (fun e => e.2 == key) = none := by
    rw [List.find?_eq_none]
    intro e he hk
    have := (hs e he).2
    simp at hk; rw [hk] at this; simp [bufSize] at this; omega
  simp [hn, hf]

theorem lookupCountry_none_of_long (T : Table) (hs : ∀ e ∈ T, e.1.length < bufSize ∧ e.2.length < bufSize) (key : Bytes)
    (h : 63 < key.length) : lookupCountry T key = none := by
  unfold lookupCountry
  rw [List.find?_eq_none]
  intro e he hk
  have h1 := (hs e he).1
  have h2 := (hs e he).2
  simp [bufSize] at hk h1 h2
  rcases hk with hk | hk <;> (have := congrArg List.length hk; omega)

theorem langPart_subset (s : Bytes) : ∀ b ∈ langPart s, b ∈ s := fun _ h => (List.takeWhile_sublist _).subset h
theorem countryPart_subset (s : Bytes) : ∀ b ∈ countryPart s, b ∈ s := fun _ h =>
  (List.dropWhile_sublist _).subset ((List.drop_sublist _ _).subset ((List.takeWhile_sublist _).subset h))

/-- **the repaired code computes the specification**, for every C string (byte list without NUL) and any two tables
whose keys fit the buffer and whose language codes and names are disjoint -/
theorem getT_eq_specT (langT ctryT : Table) (hLs : ∀ e ∈ langT, e.1.length < bufSize ∧ e.2.length < bufSize)
    (hLd : ∀ e ∈ langT, ∀ e' ∈ langT, e.1 ≠ e'.2) (hCs : ∀ e ∈ ctryT, e.1.length < bufSize ∧ e.2.length < bufSize)
    (s : Bytes) (h0 : 0 ∉ s) : getT langT ctryT s = .ok (specT langT ctryT s) := by
  rw [getT_nf]
  unfold specT
  have kL : keyOf (langPart s) = langPart s := keyOf_of_not_mem _ (fun h => h0 (langPart_subset s _ h))
  have kC : keyOf (countryPart s) = countryPart s := keyOf_of_not_mem _ (fun h => h0 (countryPart_subset s _ h))
  by_cases hu : underscore ∈ s ∧ dot ∉ langPart s
  · rw [if_pos hu]
    by_cases hl : (langPart s).length ≤ 63
    · by_cases hc : (countryPart s).length ≤ 63
      · rw [if_pos ⟨hu.1, hu.2, hl, hc⟩, kL, kC, scanLang_eq_lookup _ hLd, scanCountry_eq_lookup,
          finish_accOf _ (fun x hx => lookupLang_names_ne_nil _ _ _ hx)]
      · rw [if_neg (fun h => hc h.2.2.2), lookupCountry_none_of_long ctryT hCs _ (by omega)]
        cases lookupLang langT (langPart s) <;> rfl
    · rw [if_neg (fun h => hl h.2.2.1), lookupLang_none_of_long langT hLs _ (by omega)]
      rfl
  · rw [if_neg (fun h => hu ⟨h.1, h.2.1⟩), if_neg hu]

/-! ## what the specification says about well-shaped and other strings -/

def isLangKey (T : Table) (k : Bytes) : Prop := ∃ e ∈ T, e.1 = k ∨ e.2 = k
def isCountryKey (T : Table) (k : Bytes) : Prop := ∃ e ∈ T, e.1 = k ∨ e.2 = k

/-- `language_COUNTRY` optionally followed by `.charset`, both keys known, no `.` inside the country key -/
def wellShaped (langT ctryT : Table) (s : Bytes) : Prop :=
  ∃ L C suffix, s = L ++ underscore :: C ++ suffix ∧ isLangKey langT L ∧ isCountryKey ctryT C ∧ dot ∉ C ∧
    (suffix = [] ∨ ∃ cs, suffix = dot :: cs)

theorem countryPart_shape (L C suffix : Bytes) (hLu : underscore ∉ L) (hCd : dot ∉ C) (hs : suffix = [] ∨ ∃ cs, suffix = dot :: cs) :
    countryPart (L ++ underscore :: C ++ suffix) = C := by
  unfold countryPart
  have : L ++ underscore :: C ++ suffix = L ++ underscore :: (C ++ suffix) := by simp
  rw [this, afterUnderscore_append L _ hLu]
  rcases hs with rfl | ⟨cs, rfl⟩
  · rw [List.append_nil, takeWhile_ne_of_not_mem _ _ hCd]
  · rw [takeWhile_append_stop, takeWhile_ne_of_not_mem _ _ hCd]

theorem specT_shape (langT ctryT : Table) (L C suffix : Bytes) (hLu : underscore ∉ L) (hLd : dot ∉ L) (hCd : dot ∉ C)
    (hs : suffix = [] ∨ ∃ cs, suffix = dot :: cs) :
    specT langT ctryT (L ++ underscore :: C ++ suffix) = combine (lookupLang langT L) (lookupCountry ctryT C) := by
  unfold specT
  rw [countryPart_shape L C suffix hLu hCd hs]
  have : L ++ underscore :: C ++ suffix = L ++ underscore :: (C ++ suffix) := by simp
  rw [this, langPart_append L _ hLu, if_pos ⟨by simp, hLd⟩]

theorem lookupCountry_key (T : Table) (h : CountryFacts T) (c : Bytes × Bytes) (hc : c ∈ T) (k : Bytes) (hk : k = c.1 ∨ k = c.2) :
    lookupCountry T k = some c := by
  unfold lookupCountry
  cases hf : T.find? (fun e => e.1 == k || e.2 == k) with
  | none =>
    rw [List.find?_eq_none] at hf
    have := hf c hc
    rcases hk with rfl | rfl <;> simp at this
  | some c' =>
    have hm := List.mem_of_find?_eq_some hf
    have hp := List.find?_some hf
    simp only [Bool.or_eq_true, beq_iff_eq] at hp
    congr 1
    rcases hp with hp | hp <;> rcases hk with rfl | rfl
    · exact h.codesUnique _ hm _ hc hp
    · exact absurd hp (h.disjoint _ hm _ hc)
    · exact absurd hp.symm (h.disjoint _ hc _ hm)
    · exact h.namesUnique _ hm _ hc hp

theorem mem_namesOf (T : Table) (e : Bytes × Bytes) (he : e ∈ T) : e.2 ∈ namesOf T e.1 := by
  unfold namesOf
  simp only [List.mem_map, List.mem_filter, beq_iff_eq]
  exact ⟨e, ⟨he, rfl⟩, rfl⟩

theorem lookupLang_code (T : Table) (e : Bytes × Bytes) (he : e ∈ T) : lookupLang T e.1 = some (e.1, namesOf T e.1) := by
  unfold lookupLang
  have : namesOf T e.1 ≠ [] := List.ne_nil_of_mem (mem_namesOf T e he)
  rw [if_pos this]

theorem lookupLang_name (T : Table) (hd : ∀ e ∈ T, ∀ e' ∈ T, e.1 ≠ e'.2) (e : Bytes × Bytes) (he : e ∈ T) :
    ∃ e' ∈ T, e'.2 = e.2 ∧ T.find? (fun x => x.2 == e.2) = some e' ∧ lookupLang T e.2 = some (e'.1, [e.2]) := by
  unfold lookupLang
  have hn : namesOf T e.2 = [] := (namesOf_eq_nil_iff T e.2).2 (fun x hx => hd x hx e he)
  cases hf : T.find? (fun x => x.2 == e.2) with
  | none =>
    rw [List.find?_eq_none] at hf
    have := hf e he
    simp at this
  | some e' =>
    have hm := List.mem_of_find?_eq_some hf
    have hp := List.find?_some hf
    simp only [beq_iff_eq] at hp
    exact ⟨e', hm, hp, rfl, by simp [hn]⟩

theorem dropWhile_dot_shape (R : Bytes) : R.dropWhile (· != dot) = [] ∨ ∃ cs, R.dropWhile (· != dot) = dot :: cs := by
  induction R with
  | nil => exact Or.inl rfl
  | cons b bs ih =>
    by_cases hb : b = dot
    · right; exact ⟨bs, by simp [hb]⟩
    · have : (b != dot) = true := by simp [hb]
      rw [List.dropWhile_cons, if_pos this]; exact ih

theorem lookupLang_isKey (T : Table) (k : Bytes) (l : Bytes × List Bytes) (h : lookupLang T k = some l) : isLangKey T k := by
  unfold lookupLang at h
  by_cases hn : namesOf T k = []
  · simp only [hn, ne_eq, not_true_eq_false, ↓reduceIte] at h
    cases hf : T.find? (fun e => e.2 == k) with
    | none => simp [hf] at h
    | some e =>
      have hp := List.find?_some hf
      simp only [beq_iff_eq] at hp
      exact ⟨e, List.mem_of_find?_eq_some hf, Or.inr hp⟩
  · have : ∃ e ∈ T, e.1 = k := by
      apply Classical.byContradiction
      intro hx
      exact hn ((namesOf_eq_nil_iff T k).2 (fun e he hk => hx ⟨e, he, hk⟩))
    obtain ⟨e, he, hk⟩ := this
    exact ⟨e, he, Or.inl hk⟩

theorem lookupCountry_isKey (T : Table) (k : Bytes) (c : Bytes × Bytes) (h : lookupCountry T k = some c) :
    c ∈ T ∧ (c.1 = k ∨ c.2 = k) := by
  unfold lookupCountry at h
  have hp := List.find?_some h
  simp only [Bool.or_eq_true, beq_iff_eq] at hp
  exact ⟨List.mem_of_find?_eq_some h, hp⟩

/-- a string that is not `language_COUNTRY[.charset]` with known keys gets the fallback (any tables) -/
theorem specT_other (langT ctryT : Table) (s : Bytes) (h : ¬ wellShaped langT ctryT s) : specT langT ctryT s = fallback := by
  unfold specT
  by_cases hu : underscore ∈ s ∧ dot ∉ langPart s
  · rw [if_pos hu]
    cases hl : lookupLang langT (langPart s) with
    | none => rfl
    | some l =>
      cases hc : lookupCountry ctryT (countryPart s) with
      | none => rfl
      | some c =>
        exfalso
        apply h
        refine ⟨langPart s, countryPart s, (afterUnderscore s).dropWhile (· != dot), ?_, lookupLang_isKey _ _ _ hl,
          ⟨c, (lookupCountry_isKey _ _ _ hc).1, (lookupCountry_isKey _ _ _ hc).2⟩, not_mem_takeWhile_ne _ _, dropWhile_dot_shape _⟩
        have := split_underscore s hu.1
        unfold countryPart
        rw [List.append_assoc, List.cons_append, List.takeWhile_append_dropWhile]
        exact this
  · rw [if_neg hu]

/-! ## every returned string is a component of a table entry -/

/-- by content: every name is paired with the returned code in the language table, the country pair is an entry of the
country table (the `error` text is not a table pointer) -/
def inTables (langT ctryT : Table) (i : Info) : Prop :=
  i.languages ≠ [] ∧ (∀ n ∈ i.languages, (i.languageCode, n) ∈ langT) ∧ (i.countryCode, i.country) ∈ ctryT

theorem lookupLang_inTable (T : Table) (k : Bytes) (l : Bytes × List Bytes) (h : lookupLang T k = some l) :
    ∀ n ∈ l.2, (l.1, n) ∈ T := by
  unfold lookupLang at h
  by_cases hn : namesOf T k = []
  · simp only [hn, ne_eq, not_true_eq_false, ↓reduceIte] at h
    cases hf : T.find? (fun e => e.2 == k) with
    | none => simp [hf] at h
    | some e =>
      have hp := List.find?_some hf
      simp only [beq_iff_eq] at hp
      simp [hf] at h
      subst h
      intro n hn'
      simp at hn'
      subst hn'
      rw [← hp]
      exact List.mem_of_find?_eq_some hf
  · simp only [ne_eq, hn, not_false_eq_true, ↓reduceIte, Option.some.injEq] at h
    subst h
    intro n hn'
    unfold namesOf at hn'
    simp only [List.mem_map, List.mem_filter, beq_iff_eq] at hn'
    obtain ⟨e, ⟨he, hk⟩, rfl⟩ := hn'
    rw [← hk]
    exact he

theorem specT_inTables (langT ctryT : Table) (hfl : fallbackLang ∈ langT) (hfc : fallbackCountry ∈ ctryT) (s : Bytes) :
    inTables langT ctryT (specT langT ctryT s) := by
  have hfb : inTables langT ctryT fallback := by
    refine ⟨by simp [fallback], ?_, hfc⟩
    intro n hn
    simp [fallback] at hn
    subst hn
    exact hfl
  unfold specT
  split
  · cases hl : lookupLang langT (langPart s) with
    | none => exact hfb
    | some l =>
      cases hc : lookupCountry ctryT (countryPart s) with
      | none => exact hfb
      | some c =>
        exact ⟨lookupLang_names_ne_nil _ _ _ hl, lookupLang_inTable _ _ _ hl, (lookupCountry_isKey _ _ _ hc).1⟩
  · exact hfb


/-! ## known language × known country -/

/-- language given by CODE: that code, all table names carrying it (table order), that country -/
theorem specT_known_code (langT ctryT : Table) (hL : LangFacts langT) (hC : CountryFacts ctryT)
    (e : Bytes × Bytes) (he : e ∈ langT) (c : Bytes × Bytes) (hc : c ∈ ctryT) (k : Bytes) (hk : k = c.1 ∨ k = c.2)
    (hkd : dot ∉ k) (suffix : Bytes) (hs : suffix = [] ∨ ∃ cs, suffix = dot :: cs) :
    specT langT ctryT (e.1 ++ underscore :: k ++ suffix) =
      { languages := namesOf langT e.1, languageCode := e.1, country := c.2, countryCode := c.1, error := false } := by
  rw [specT_shape langT ctryT e.1 k suffix (hL.noUnderscore e he).1 (hL.noDot e he).1 hkd hs,
    lookupLang_code langT e he, lookupCountry_key ctryT hC c hc k hk]
  rfl

/-- language given by NAME: the code of the first entry with that name, just that name, that country -/
theorem specT_known_name (langT ctryT : Table) (hL : LangFacts langT) (hC : CountryFacts ctryT)
    (e : Bytes × Bytes) (he : e ∈ langT) (c : Bytes × Bytes) (hc : c ∈ ctryT) (k : Bytes) (hk : k = c.1 ∨ k = c.2)
    (hkd : dot ∉ k) (suffix : Bytes) (hs : suffix = [] ∨ ∃ cs, suffix = dot :: cs) :
    ∃ e' ∈ langT, e'.2 = e.2 ∧ langT.find? (fun x => x.2 == e.2) = some e' ∧
      specT langT ctryT (e.2 ++ underscore :: k ++ suffix) =
        { languages := [e.2], languageCode := e'.1, country := c.2, countryCode := c.1, error := false } := by
  obtain ⟨e', hm, hn, hf, hl⟩ := lookupLang_name langT hL.disjoint e he
  refine ⟨e', hm, hn, hf, ?_⟩
  rw [specT_shape langT ctryT e.2 k suffix (hL.noUnderscore e he).2 (hL.noDot e he).2 hkd hs, hl,
    lookupCountry_key ctryT hC c hc k hk]
  rfl

/-- the two cases together partition all strings: `error` is clear exactly for the well-shaped ones -/
theorem specT_error_iff (langT ctryT : Table) (hL : LangFacts langT) (hC : CountryFacts ctryT) (s : Bytes) :
    (specT langT ctryT s).error = false ↔ wellShaped langT ctryT s := by
  constructor
  · intro h
    apply Classical.byContradiction
    intro hw
    rw [specT_other langT ctryT s hw] at h
    simp [fallback] at h
  · rintro ⟨L, C, suffix, rfl, ⟨e, he, hek⟩, ⟨c, hc, hck⟩, hCd, hs⟩
    have hck' : C = c.1 ∨ C = c.2 := by rcases hck with h | h <;> simp [h]
    rcases hek with rfl | rfl
    · rw [specT_known_code langT ctryT hL hC e he c hc C hck' hCd suffix hs]
    · obtain ⟨e', _, _, _, h⟩ := specT_known_name langT ctryT hL hC e he c hc C hck' hCd suffix hs
      rw [h]


/-! ## executable checkers for the table facts (run by the kernel over the regenerated tables)

The per-key checks are linear and run on the byte lists.  The quadratic checks (disjointness, uniqueness) run on the
packed tables `E` (one `Nat` per string, emitted by the translator) after the kernel has checked `T.map encPair = E`;
they transfer to `T` by congruence (`a = b → enc a = enc b`), so no property of `enc` is needed. -/

def enc : Bytes → Nat
  | [] => 1
  | b :: bs => enc bs * 256 + b
def encPair (e : Bytes × Bytes) : Nat × Nat := (enc e.1, enc e.2)

def byteOk (b : Nat) : Bool := b != 0 && b != underscore
def keyOk (k : Bytes) : Bool := decide (k.length < bufSize) && k.all byteOk
def noDotB (k : Bytes) : Bool := k.all (· != dot)

/-- `r x y` for every `x` before `y` -/
def pairwiseB (r : Nat × Nat → Nat × Nat → Bool) : List (Nat × Nat) → Bool
  | [] => true
  | x :: xs => xs.all (r x) && pairwiseB r xs

/-- no code is a name: linear fast path (every code at most `n` bytes, every name longer; `n` is a hint emitted by the
translator), otherwise all pairs of the packed table -/
def disjointB (T : Table) (E : List (Nat × Nat)) (n : Nat) : Bool :=
  T.all (fun e => decide (e.1.length ≤ n) && decide (n < e.2.length)) || E.all (fun x => E.all (fun y => !Nat.beq x.1 y.2))

def langFactsB (T : Table) (E : List (Nat × Nat)) (n : Nat) : Bool :=
  T.all (fun e => keyOk e.1 && keyOk e.2 && noDotB e.1 && noDotB e.2)
    && (T.map encPair == E)
    && disjointB T E n
    && T.contains fallbackLang

def countryFactsB (T : Table) (E : List (Nat × Nat)) (n : Nat) : Bool :=
  T.all (fun e => keyOk e.1 && keyOk e.2)
    && (T.map encPair == E)
    && disjointB T E n
    && pairwiseB (fun x y => !Nat.beq x.1 y.1 && !Nat.beq x.2 y.2) E
    && T.contains fallbackCountry

theorem keyOk_iff (k : Bytes) : keyOk k = true ↔ k.length < bufSize ∧ underscore ∉ k ∧ 0 ∉ k := by
  unfold keyOk byteOk
  simp only [Bool.and_eq_true, decide_eq_true_eq, List.all_eq_true, bne_iff_ne, ne_eq]
  constructor
  · rintro ⟨h1, h2⟩
    exact ⟨h1, fun m => (h2 _ m).2 rfl, fun m => (h2 _ m).1 rfl⟩
  · rintro ⟨h1, h2, h3⟩
    exact ⟨h1, fun x m => ⟨fun e => h3 (e ▸ m), fun e => h2 (e ▸ m)⟩⟩

theorem noDotB_iff (k : Bytes) : noDotB k = true ↔ dot ∉ k := by
  unfold noDotB
  simp only [List.all_eq_true, bne_iff_ne, ne_eq]
  exact ⟨fun h m => h _ m rfl, fun h x m e => h (e ▸ m)⟩

theorem nat_beq_false {a b : Nat} : Nat.beq a b = false ↔ a ≠ b := by
  constructor
  · exact Nat.ne_of_beq_eq_false
  · intro h
    cases hb : Nat.beq a b
    · rfl
    · exact absurd (Nat.eq_of_beq_eq_true hb) h

theorem disjoint_of_enc (T : Table) (E : List (Nat × Nat)) (n : Nat) (hE : T.map encPair = E)
    (h : disjointB T E n = true) : ∀ e ∈ T, ∀ e' ∈ T, e.1 ≠ e'.2 := by
  intro e he e' he' heq
  unfold disjointB at h
  rcases Bool.or_eq_true_iff.1 h with h | h
  · simp only [List.all_eq_true, Bool.and_eq_true, decide_eq_true_eq] at h
    have h1 := (h e he).1
    have h2 := (h e' he').2
    rw [heq] at h1
    omega
  simp only [List.all_eq_true, Bool.not_eq_true', nat_beq_false] at h
  have m1 : encPair e ∈ E := hE ▸ List.mem_map_of_mem he
  have m2 : encPair e' ∈ E := hE ▸ List.mem_map_of_mem he'
  exact h _ m1 _ m2 (by simp [encPair, heq])

theorem pairwise_of_enc (T : Table) (h : pairwiseB (fun x y => !Nat.beq x.1 y.1 && !Nat.beq x.2 y.2) (T.map encPair) = true) :
    ∀ e ∈ T, ∀ e' ∈ T, (e.1 = e'.1 ∨ e.2 = e'.2) → e = e' := by
  induction T with
  | nil => intro e he; cases he
  | cons x xs ih =>
    simp only [List.map_cons, pairwiseB, Bool.and_eq_true, List.all_eq_true, List.mem_map, forall_exists_index, and_imp,
      forall_apply_eq_imp_iff₂, Bool.not_eq_true', nat_beq_false] at h
    obtain ⟨hx, hrest⟩ := h
    have key : ∀ y ∈ xs, ¬ (x.1 = y.1 ∨ x.2 = y.2) := by
      intro y hy hor
      have := hx y hy
      rcases hor with h1 | h1
      · exact this.1 (by simp [encPair, h1])
      · exact this.2 (by simp [encPair, h1])
    intro e he e' he' hor
    rcases List.mem_cons.1 he with rfl | m
    · rcases List.mem_cons.1 he' with rfl | m'
      · rfl
      · exact absurd hor (key _ m')
    · rcases List.mem_cons.1 he' with rfl | m'
      · exact absurd (hor.imp Eq.symm Eq.symm) (key _ m)
      · exact ih hrest e m e' m' hor

theorem langFacts_of_check (T : Table) (E : List (Nat × Nat)) (n : Nat) (h : langFactsB T E n = true) : LangFacts T := by
  unfold langFactsB at h
  simp only [Bool.and_eq_true, beq_iff_eq, List.contains_eq_mem, decide_eq_true_eq] at h
  obtain ⟨⟨⟨hk, hE⟩, hd⟩, hf⟩ := h
  simp only [List.all_eq_true, Bool.and_eq_true, keyOk_iff, noDotB_iff] at hk
  exact {
    short := fun e he => ⟨(hk e he).1.1.1.1, (hk e he).1.1.2.1⟩
    disjoint := disjoint_of_enc T E n hE hd
    noUnderscore := fun e he => ⟨(hk e he).1.1.1.2.1, (hk e he).1.1.2.2.1⟩
    noDot := fun e he => ⟨(hk e he).1.2, (hk e he).2⟩
    noNul := fun e he => ⟨(hk e he).1.1.1.2.2, (hk e he).1.1.2.2.2⟩
    hasFallback := hf }

theorem countryFacts_of_check (T : Table) (E : List (Nat × Nat)) (n : Nat) (h : countryFactsB T E n = true) : CountryFacts T := by
  unfold countryFactsB at h
  simp only [Bool.and_eq_true, beq_iff_eq, List.contains_eq_mem, decide_eq_true_eq] at h
  obtain ⟨⟨⟨⟨hk, hE⟩, hd⟩, hp⟩, hf⟩ := h
  simp only [List.all_eq_true, Bool.and_eq_true, keyOk_iff] at hk
  have hu := pairwise_of_enc T (hE ▸ hp)
  exact {
    short := fun e he => ⟨(hk e he).1.1, (hk e he).2.1⟩
    noUnderscore := fun e he => ⟨(hk e he).1.2.1, (hk e he).2.2.1⟩
    noNul := fun e he => ⟨(hk e he).1.2.2, (hk e he).2.2.2⟩
    codesUnique := fun e he e' he' hh => hu e he e' he' (Or.inl hh)
    namesUnique := fun e he e' he' hh => hu e he e' he' (Or.inr hh)
    disjoint := disjoint_of_enc T E n hE hd
    hasFallback := hf }

end Tulz.Locale
