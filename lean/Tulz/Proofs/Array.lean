import Tulz.Model.ArrayStore
/-
  Lemmas for C14 (tulz::Array).  Part 1: the loops of MemExtra on blocks of the shape
  `pre ++ (middle ++ post)`; part 2: every member of `Arr` computes the list-level function of
  `Spec`; part 3: the store (variables + heap) keeps its invariant and commutes with `Spec.step`.
-/
namespace Tulz
set_option linter.unusedSectionVars false
variable {α : Type}

/-! ### Part 1: loops -/

theorem getElem?_mid {β : Type} (pre : List β) (x : β) (rest : List β) :
    (pre ++ x :: rest)[pre.length]? = some x := by simp

theorem set_mid {β : Type} (pre : List β) (x y : β) (rest : List β) :
    (pre ++ x :: rest).set pre.length y = pre ++ y :: rest := by simp

@[simp] theorem ok_bind {ε β γ : Type} (x : β) (f : β → Except ε γ) : (Except.ok x >>= f) = f x := rfl
@[simp] theorem ok_map {ε β γ : Type} (f : β → γ) (x : β) : f <$> (Except.ok x : Except ε β) = Except.ok (f x) := rfl
@[simp] theorem pure_eq_ok {ε β : Type} (x : β) : (pure x : Except ε β) = Except.ok x := rfl
@[simp] theorem liftE_ok {β : Type} (x : β) : liftE (Except.ok x : M β) = Except.ok x := rfl
@[simp] theorem liftE_pure {β : Type} (x : β) : liftE (pure x : M β) = Except.ok x := rfl

namespace Mem

theorem construct_mid (pre rest : List (Slot α)) (v : α) :
    construct (pre ++ .raw :: rest) pre.length v = .ok (pre ++ .live v :: rest) := by
  simp only [construct, getElem?_mid, set_mid]; rfl

theorem destroy_mid (pre rest : List (Slot α)) (v : α) :
    destroy (pre ++ .live v :: rest) pre.length = .ok (pre ++ .raw :: rest) := by
  simp only [destroy, getElem?_mid, set_mid]; rfl

theorem read_mid (pre rest : List (Slot α)) (v : α) :
    read (pre ++ .live v :: rest) pre.length = .ok v := by
  simp only [read, getElem?_mid]; rfl

theorem constructN_fill (pre post : List (Slot α)) (k : Nat) (v : α) :
    constructN (pre ++ (List.replicate k .raw ++ post)) pre.length k v
      = .ok (pre ++ (List.replicate k (.live v) ++ post)) := by
  induction k generalizing pre with
  | zero => simp [constructN]
  | succ k ih =>
    have h := ih (pre ++ [.live v])
    simp only [List.length_append, List.length_singleton, List.append_assoc, List.singleton_append] at h
    simp only [constructN, List.replicate_succ, List.cons_append, construct_mid]
    exact h

theorem constructAll_fill (pre post : List (Slot α)) (vs : List α) :
    constructAll (pre ++ (List.replicate vs.length .raw ++ post)) pre.length vs
      = .ok (pre ++ (vs.map .live ++ post)) := by
  induction vs generalizing pre with
  | nil => simp [constructAll]
  | cons v vs ih =>
    have h := ih (pre ++ [.live v])
    simp only [List.length_append, List.length_singleton, List.append_assoc, List.singleton_append] at h
    simp only [constructAll, List.length_cons, List.replicate_succ, List.cons_append, construct_mid, List.map_cons]
    exact h

theorem destroyN_live (pre post : List (Slot α)) (vs : List α) :
    destroyN (pre ++ (vs.map .live ++ post)) pre.length vs.length
      = .ok (pre ++ (List.replicate vs.length .raw ++ post)) := by
  induction vs generalizing pre with
  | nil => simp [destroyN]
  | cons v vs ih =>
    have h := ih (pre ++ [.raw])
    simp only [List.length_append, List.length_singleton, List.append_assoc, List.singleton_append] at h
    simp only [destroyN, List.length_cons, List.replicate_succ, List.cons_append, destroy_mid, List.map_cons]
    exact h

theorem readN_live (pre post : List (Slot α)) (vs : List α) :
    readN (pre ++ (vs.map .live ++ post)) pre.length vs.length = .ok vs := by
  induction vs generalizing pre with
  | nil => simp [readN]
  | cons v vs ih =>
    have h := ih (pre ++ [.live v])
    simp only [List.length_append, List.length_singleton, List.append_assoc, List.singleton_append] at h
    simp only [readN, List.length_cons, List.cons_append, read_mid, List.map_cons]
    rw [h]; rfl

theorem copyN_live (ps qs pd qd : List (Slot α)) (vs : List α) (hlen : pd.length = ps.length) :
    copyN (ps ++ (vs.map .live ++ qs)) (pd ++ (List.replicate vs.length .raw ++ qd)) ps.length vs.length
      = .ok (pd ++ (vs.map .live ++ qd)) := by
  induction vs generalizing ps pd with
  | nil => simp [copyN]
  | cons v vs ih =>
    have h := ih (ps ++ [.live v]) (pd ++ [.live v]) (by simp [hlen])
    simp only [List.length_append, List.length_singleton, List.append_assoc, List.singleton_append] at h
    simp only [copyN, List.length_cons, List.replicate_succ, List.cons_append, read_mid, List.map_cons]
    rw [← hlen]
    simp only [bind, Except.bind, construct_mid]
    rw [hlen]
    exact h

/-! corollaries for whole blocks and tails -/

theorem copyN_all (vs : List α) (qs : List (Slot α)) :
    copyN (vs.map .live ++ qs) (alloc vs.length) 0 vs.length = .ok (vs.map .live) := by
  have h := copyN_live [] qs [] [] vs rfl
  simpa [alloc] using h

theorem constructN_all (n : Nat) (v : α) :
    constructN (alloc n) 0 n v = .ok (List.replicate n (.live v)) := by
  have h := constructN_fill ([] : List (Slot α)) [] n v
  simpa [alloc] using h

theorem constructAll_all (vs : List α) :
    constructAll (alloc vs.length) 0 vs = .ok (vs.map .live) := by
  have h := constructAll_fill ([] : List (Slot α)) [] vs
  simpa [alloc] using h

theorem readN_all (vs : List α) : readN (vs.map .live) 0 vs.length = .ok vs := by
  have h := readN_live ([] : List (Slot α)) [] vs
  simpa using h

theorem constructN_tail (d : List (Slot α)) (k : Nat) (v : α) :
    constructN (d ++ List.replicate k .raw) d.length k v = .ok (d ++ List.replicate k (.live v)) := by
  have h := constructN_fill d [] k v
  simpa using h

theorem destroyN_tail (vs : List α) (k : Nat) (hk : k ≤ vs.length) :
    destroyN (vs.map .live) k (vs.length - k)
      = .ok ((vs.take k).map .live ++ List.replicate (vs.length - k) .raw) := by
  have h := destroyN_live ((vs.take k).map .live) [] (vs.drop k)
  simp only [List.length_map, List.length_take, List.length_drop, Nat.min_eq_left hk, List.append_nil] at h
  rw [← List.map_append, List.take_append_drop] at h
  exact h

end Mem

/-! ### Part 2: the members of `Arr` compute the list-level specification -/

/-- the storage that represents a list of element values -/
def toSlot : Option α → Slot α
  | some v => .live v
  | none => .raw

def ofSpec (l : List (Option α)) : List (Slot α) := l.map toSlot

@[simp] theorem val?_toSlot (o : Option α) : Slot.val? (toSlot o) = o := by cases o <;> rfl

@[simp] theorem ofSpec_length (l : List (Option α)) : (ofSpec l).length = l.length := by simp [ofSpec]

@[simp] theorem ofSpec_some (vs : List α) : ofSpec (vs.map some) = vs.map .live := by
  simp [ofSpec, toSlot, List.map_map, Function.comp_def]

@[simp] theorem contents_ofSpec (l : List (Option α)) : (⟨ofSpec l⟩ : Arr α).contents = l := by
  simp [Arr.contents, ofSpec, List.map_map, Function.comp_def]

@[simp] theorem size_ofSpec (l : List (Option α)) : (⟨ofSpec l⟩ : Arr α).size = l.length := by
  simp [Arr.size]

theorem ofSpec_replicate (n : Nat) (o : Option α) : ofSpec (List.replicate n o) = List.replicate n (toSlot o) := by
  simp [ofSpec]

theorem ofSpec_append (a b : List (Option α)) : ofSpec (a ++ b) = ofSpec a ++ ofSpec b := by
  simp [ofSpec]

theorem ofSpec_take (l : List (Option α)) (n : Nat) : ofSpec (l.take n) = (ofSpec l).take n := by
  simp [ofSpec, List.map_take]

theorem ofSpec_take_some (src : List α) (n : Nat) :
    ofSpec ((src.take n).map some) = (src.map .live).take n := by
  simp only [ofSpec, List.map_map, ← List.map_take]; rfl

theorem full_exists (l : List (Option α)) (h : Spec.full l) : ∃ vs : List α, l = vs.map some := by
  induction l with
  | nil => exact ⟨[], rfl⟩
  | cons x xs ih =>
    have hx : x ≠ none := h x (by simp)
    obtain ⟨vs, hvs⟩ := ih (fun y hy => h y (by simp [hy]))
    cases x with
    | none => exact absurd rfl hx
    | some v => exact ⟨v :: vs, by simp [hvs]⟩

theorem full_map_some (vs : List α) : Spec.full (vs.map some) := by
  intro x hx; simp at hx; obtain ⟨v, _, rfl⟩ := hx; simp

@[simp] theorem plain_map_some (vs : List α) : Spec.plain (vs.map some) = vs := by
  simp [Spec.plain, List.filterMap_map]

namespace Arr
variable [Inhabited α]

theorem ofPtr_spec (cls : Bool) (src : List α) (n : Nat) (h : n ≤ src.length) :
    ofPtr cls src n = .ok ⟨ofSpec ((src.take n).map some)⟩ := by
  rw [ofSpec_take_some]
  cases cls with
  | false => simp [ofPtr, h]
  | true =>
    have hc := Mem.copyN_all (src.take n) ((src.drop n).map .live)
    rw [← List.map_append, List.take_append_drop, List.length_take, Nat.min_eq_left h] at hc
    simp [ofPtr, hc, List.map_take]

theorem ofInit_spec (vs : List α) : ofInit vs = .ok ⟨ofSpec (vs.map some)⟩ := by
  simp [ofInit, Mem.constructAll_all]

theorem ofSize_spec (cls : Bool) (n : Nat) :
    (ofSize cls n : AM (Arr α)) = .ok ⟨ofSpec (List.replicate n (Spec.dfl cls))⟩ := by
  show (ofSize cls n : AM (Arr α)) = .ok ⟨ofSpec (List.replicate n (if cls = true then some default else none))⟩
  cases cls with
  | false => simp [ofSize, initRange, ofSpec_replicate, toSlot, Mem.alloc]
  | true => simp [ofSize, initRange, ofSpec_replicate, toSlot, Mem.constructN_all]

theorem ofFill_spec (n : Nat) (v : α) : ofFill n v = .ok ⟨ofSpec (List.replicate n (some v))⟩ := by
  simp [ofFill, Mem.constructN_all, ofSpec_replicate, toSlot]

theorem copyOf_spec (cls : Bool) (l : List (Option α)) (hf : cls = true → Spec.full l) :
    copyOf cls ⟨ofSpec l⟩ = .ok ⟨ofSpec l⟩ := by
  cases cls with
  | false => simp [copyOf]
  | true =>
    obtain ⟨vs, rfl⟩ := full_exists l (hf rfl)
    have hc := Mem.copyN_all vs []
    simp only [List.append_nil] at hc
    simp [copyOf, size, hc]

theorem destroyAll_spec (cls : Bool) (l : List (Option α)) (hf : cls = true → Spec.full l) :
    ∃ d, destroyAll cls ⟨ofSpec l⟩ = .ok d ∧ (cls = true → Mem.anyLive d = false) := by
  cases cls with
  | false => exact ⟨ofSpec l, by simp [destroyAll, destroyRange], by simp⟩
  | true =>
    obtain ⟨vs, rfl⟩ := full_exists l (hf rfl)
    have hd := Mem.destroyN_tail vs 0 (Nat.zero_le _)
    refine ⟨List.replicate vs.length .raw, ?_, ?_⟩
    · simp [destroyAll, destroyRange, size] at hd ⊢; simp [hd]
    · intro _; simp [Mem.anyLive, Slot.isLive]

theorem get_spec (l : List (Option α)) (i : Nat) (v : α) (h : l[i]? = some (some v)) :
    get ⟨ofSpec l⟩ i = .ok v := by
  have : (ofSpec l)[i]? = some (.live v) := by simp [ofSpec, h, toSlot]
  simp [get, Mem.read, this]

theorem set_spec (cls : Bool) (l : List (Option α)) (i : Nat) (v : α) (hi : i < l.length)
    (hf : cls = true → Spec.full l) :
    set cls ⟨ofSpec l⟩ i v = .ok ⟨ofSpec (l.set i (some v))⟩ := by
  have hs : (ofSpec l).set i (.live v) = ofSpec (l.set i (some v)) := by simp [ofSpec, List.map_set, toSlot]
  have hg : (ofSpec l)[i]? = some (toSlot l[i]) := by simp [ofSpec, hi]
  cases cls with
  | false => simp [set, Mem.write, hg, hs]
  | true =>
    have hne : l[i] ≠ none := hf rfl _ (List.getElem_mem hi)
    cases hx : l[i] with
    | none => exact absurd hx hne
    | some w => simp [set, Mem.assign, hg, hx, toSlot, hs]

theorem toList_spec (l : List (Option α)) (hf : Spec.full l) :
    toList ⟨ofSpec l⟩ = .ok (Spec.plain l) := by
  obtain ⟨vs, rfl⟩ := full_exists l hf
  simp [toList, size, Mem.readN_all]

theorem realloc_grow (d : List (Slot α)) (n : Nat) (h : d.length ≤ n) :
    Mem.realloc d n = d ++ List.replicate (n - d.length) .raw := by
  simp [Mem.realloc, List.take_of_length_le h]

theorem realloc_cut (a b : List (Slot α)) : Mem.realloc (a ++ b) a.length = a := by
  simp [Mem.realloc]

theorem anyLive_replicate_raw (k : Nat) : Mem.anyLive (List.replicate k (Slot.raw : Slot α)) = false := by
  simp [Mem.anyLive, Slot.isLive]

theorem resized_le (l : List (Option α)) (n : Nat) (f : Option α) (h : n ≤ l.length) :
    Spec.resized l n f = l.take n := by
  simp [Spec.resized, Nat.sub_eq_zero_of_le h]

theorem resized_gt (l : List (Option α)) (n : Nat) (f : Option α) (h : l.length ≤ n) :
    Spec.resized l n f = l ++ List.replicate (n - l.length) f := by
  simp [Spec.resized, List.take_of_length_le h]

theorem resizeFill_spec (cls : Bool) (l : List (Option α)) (n : Nat) (v : α)
    (hf : cls = true → Spec.full l) :
    resizeFill cls ⟨ofSpec l⟩ n v = .ok ⟨ofSpec (Spec.resized l n (some v))⟩ := by
  by_cases hn : n ≤ l.length
  · -- shrink or same size: nothing is constructed
    have hgt : ¬ n > l.length := by omega
    rw [resized_le l n _ hn]
    cases cls with
    | false =>
      have hr : Mem.realloc (ofSpec l) n = ofSpec (l.take n) := by
        simp [Mem.realloc, ofSpec_take, Nat.sub_eq_zero_of_le hn]
      simp [resizeFill, destroyRange, reallocA, hgt, hr]
    | true =>
      obtain ⟨vs, rfl⟩ := full_exists l (hf rfl)
      have hn' : n ≤ vs.length := by simpa using hn
      have hd := Mem.destroyN_tail vs n hn'
      have hlen : ((vs.take n).map (Slot.live)).length = n := by simp [Nat.min_eq_left hn']
      have hdrop : (List.map Slot.live (List.take n vs) ++ List.replicate (vs.length - n) Slot.raw).drop n
          = List.replicate (vs.length - n) .raw := by
        have := List.drop_left' (l₂ := List.replicate (vs.length - n) (Slot.raw : Slot α)) hlen
        exact this
      have hcut := realloc_cut (List.map Slot.live (List.take n vs)) (List.replicate (vs.length - n) .raw)
      rw [hlen] at hcut
      have hgt' : ¬ n > vs.length := by omega
      simp [resizeFill, destroyRange, size, hd, reallocA, hdrop, anyLive_replicate_raw, hcut, hgt', ← List.map_take]
  · -- grow
    have hle : l.length ≤ n := by omega
    have hgt : n > l.length := by omega
    rw [resized_gt l n _ hle]
    have hz : l.length - n = 0 := by omega
    have hdn : (ofSpec l).drop n = [] := by simp [List.drop_eq_nil_iff, hle]
    have hr := realloc_grow (ofSpec l) n (by simpa using hle)
    have hc := Mem.constructN_tail (ofSpec l) (n - l.length) v
    simp only [ofSpec_length] at hr hc
    have hres : ofSpec (l ++ List.replicate (n - l.length) (some v))
        = ofSpec l ++ List.replicate (n - l.length) (.live v) := by
      simp [ofSpec_append, ofSpec_replicate, toSlot]
    cases cls with
    | false =>
      simp [resizeFill, destroyRange, reallocA, hgt, hr, hc, hres]
    | true =>
      simp [resizeFill, destroyRange, size, hz, Mem.destroyN, reallocA, hdn, Mem.anyLive, hgt, hr, hc, hres]

theorem resize_spec (cls : Bool) (l : List (Option α)) (n : Nat) (hf : cls = true → Spec.full l) :
    resize cls ⟨ofSpec l⟩ n = .ok ⟨ofSpec (Spec.resized l n (Spec.dfl cls))⟩ := by
  cases cls with
  | true => exact resizeFill_spec true l n default hf
  | false =>
    show resize false ⟨ofSpec l⟩ n = .ok ⟨ofSpec (Spec.resized l n none)⟩
    have hr : Mem.realloc (ofSpec l) n = ofSpec (Spec.resized l n none) := by
      simp [Mem.realloc, Spec.resized, ofSpec_append, ofSpec_take, ofSpec_replicate, toSlot]
    simp [resize, destroyRange, reallocA, initRange, hr]

theorem resizeSelf_spec (cls : Bool) (l : List (Option α)) (n i : Nat) (v : α)
    (h : l[i]? = some (some v)) (hf : cls = true → Spec.full l) :
    resizeSelf cls ⟨ofSpec l⟩ n i = .ok ⟨ofSpec (Spec.resized l n (some v))⟩ := by
  simp only [resizeSelf, get_spec l i v h]
  exact resizeFill_spec cls l n v hf

end Arr
end Tulz
