import Tulz.Proofs.RingBufferStore
/-
  C09 core: the values alive in a buffer's block are exactly its logical contents (as a multiset),
  hence the values alive anywhere in a store are exactly the contents of the deques it represents.
-/
namespace Tulz
namespace RB
variable {α : Type}

theorem liveVals_append (a b : List (Slot α)) : Mem.liveVals (a ++ b) = Mem.liveVals a ++ Mem.liveVals b := by
  simp [Mem.liveVals, List.filterMap_append]

theorem liveVals_map_live (xs : List α) : Mem.liveVals (xs.map Slot.live) = xs := by
  induction xs with
  | nil => rfl
  | cons x xs ih => simp [Mem.liveVals, Slot.val?] at ih ⊢; exact ih

theorem liveVals_dead (l : List (Slot α)) (h : ∀ s ∈ l, ∀ v, s ≠ .live v) : Mem.liveVals l = [] := by
  induction l with
  | nil => rfl
  | cons s l ih =>
    have hs := h s (List.mem_cons_self)
    have := ih (fun s' hs' => h s' (List.mem_cons_of_mem _ hs'))
    cases s with
    | live v => exact absurd rfl (hs v)
    | raw => simpa [Mem.liveVals, Slot.val?] using this
    | shell => simpa [Mem.liveVals, Slot.val?] using this

/-- the whole block read in logical order (`silentCopy` of everything) is a rotation of the block -/
theorem silentCopy_cap {b : RB α} {xs} (h : Rep b xs) (hc : 0 < b.cap) :
    b.silentCopy b.cap = b.data.drop b.pos ++ b.data.take b.pos := by
  have hp := h.pos_lt hc
  have hl := h.data_len
  unfold RB.silentCopy
  have hn1 : min b.cap (b.cap - b.pos) = b.cap - b.pos := by omega
  have hz : (b.pos + (b.cap - b.pos)) % b.cap = 0 := by
    have : b.pos + (b.cap - b.pos) = b.cap := by omega
    rw [this]; exact Nat.mod_self _
  simp only [hn1, hz, List.drop_zero]
  congr 1
  · apply List.take_of_length_le; simp [hl]
  · congr 1; omega

/-- **C09**: exactly the logical elements are alive in the block -/
theorem Rep.liveVals_perm {b : RB α} {xs} (h : Rep b xs) : (Mem.liveVals b.data).Perm xs := by
  by_cases hc : 0 < b.cap
  · have hsz := h.size_le
    have hrot := silentCopy_cap h hc
    have hlen := silentCopy_length h hc b.cap (Nat.le_refl _)
    -- the rotated block is `xs.map live ++ junk`
    have htake : (b.silentCopy b.cap).take b.size = xs.map .live := by
      apply List.ext_getElem?
      intro i
      by_cases hi : i < b.size
      · rw [List.getElem?_take_of_lt hi, silentCopy_get h hc b.cap (Nat.le_refl _) i (by omega),
          h.live i (by rw [h.len_eq]; exact hi)]
        simp [List.getElem?_map, List.getElem?_eq_getElem (show i < xs.length by rw [h.len_eq]; exact hi)]
      · rw [List.getElem?_eq_none (by simp [hlen]; omega), List.getElem?_eq_none (by simp [h.len_eq]; omega)]
    have hdrop : ∀ s ∈ (b.silentCopy b.cap).drop b.size, ∀ v, s ≠ Slot.live v := by
      intro s hs v e
      obtain ⟨k, hk, hget⟩ := List.mem_iff_getElem.mp hs
      simp only [List.length_drop, hlen] at hk
      rw [List.getElem_drop] at hget
      have h1 : (b.silentCopy b.cap)[b.size + k]? = some s := by
        rw [List.getElem?_eq_getElem (by rw [hlen]; omega)]; exact congrArg some hget
      rw [silentCopy_get h hc b.cap (Nat.le_refl _) (b.size + k) (by omega), e] at h1
      exact h.dead (b.size + k) (by omega) (by omega) v h1
    have hsplit : b.silentCopy b.cap = xs.map .live ++ (b.silentCopy b.cap).drop b.size := by
      rw [← htake, List.take_append_drop]
    have e1 : Mem.liveVals (b.silentCopy b.cap) = xs := by
      rw [hsplit, liveVals_append, liveVals_map_live, liveVals_dead _ hdrop, List.append_nil]
    have e2 : (Mem.liveVals b.data).Perm (Mem.liveVals (b.silentCopy b.cap)) := by
      rw [hrot, liveVals_append]
      have : b.data = b.data.take b.pos ++ b.data.drop b.pos := (List.take_append_drop _ _).symm
      rw [this, liveVals_append]
      simp only [List.take_append_drop]
      exact List.perm_append_comm
    rw [e1] at e2
    exact e2
  · have hcz : b.cap = 0 := by omega
    have hd : b.data = [] := List.eq_nil_of_length_eq_zero (by rw [h.data_len]; exact hcz)
    have hx : xs = [] := List.eq_nil_of_length_eq_zero (by rw [h.len_eq]; have := h.size_le; omega)
    rw [hd, hx]; exact List.Perm.refl _

end RB

/-- **C09**: the values alive anywhere in the store are exactly the contents of the deques -/
theorem StoreRep.liveVals_perm {α : Type} {s : RbStore α} {t : DqStore α} (h : StoreRep s t) :
    (RbStore.liveVals s).Perm (DqStore.allItems t) := by
  induction h with
  | nil => exact List.Perm.refl _
  | @cons a c s' t' hab _ ih =>
    obtain ⟨-, -, h3, -⟩ := hab
    simp only [RbStore.liveVals, DqStore.allItems, List.flatMap_cons] at ih ⊢
    exact List.Perm.append h3.liveVals_perm ih

end Tulz
