import Tulz.Model.Router
/- helper lemmas for the Router model (C06, C13).  Core Lean only. -/
namespace Tulz.Router

variable {ρ : Type}

/-! ### accessors -/

@[simp] theorem name_mk (a : String) (s : Option Subj) (c : List Node) : (Node.mk a s c).name = a := rfl
@[simp] theorem subj_mk (a : String) (s : Option Subj) (c : List Node) : (Node.mk a s c).subj = s := rfl
@[simp] theorem children_mk (a : String) (s : Option Subj) (c : List Node) : (Node.mk a s c).children = c := rfl
@[simp] theorem name_withChildren (n : Node) (c) : (n.withChildren c).name = n.name := by cases n; rfl
@[simp] theorem subj_withChildren (n : Node) (c) : (n.withChildren c).subj = n.subj := by cases n; rfl
@[simp] theorem children_withChildren (n : Node) (c) : (n.withChildren c).children = c := by cases n; rfl
@[simp] theorem name_withSubj (n : Node) (s) : (n.withSubj s).name = n.name := by cases n; rfl
@[simp] theorem subj_withSubj (n : Node) (s) : (n.withSubj s).subj = s := by cases n; rfl
@[simp] theorem children_withSubj (n : Node) (s) : (n.withSubj s).children = n.children := by cases n; rfl
theorem Node.eta (n : Node) : Node.mk n.name n.subj n.children = n := by cases n; rfl
theorem withChildren_eq (n : Node) (c) : n.withChildren c = .mk n.name n.subj c := by cases n; rfl
theorem withSubj_eq (n : Node) (s) : n.withSubj s = .mk n.name s n.children := by cases n; rfl
@[simp] theorem withChildren_self (n : Node) : n.withChildren n.children = n := by cases n; rfl

/-- induction over the tree with the hypothesis for every child -/
theorem Node.induct {P : Node → Prop}
    (h : ∀ name s cs, (∀ c ∈ cs, P c) → P (.mk name s cs)) (n : Node) : P n :=
  Node.rec (motive_1 := P) (motive_2 := fun cs => ∀ c ∈ cs, P c)
    (fun name s cs ih => h name s cs ih)
    (fun c hc => by cases hc)
    (fun hd tl ihh iht c hc => by
      cases List.mem_cons.mp hc with
      | inl e => exact e ▸ ihh
      | inr m => exact iht c m) n

/-! ### well-formedness -/

abbrev DistinctNames (l : List Node) : Prop := l.Pairwise (fun a b => a.name ≠ b.name)

theorem WF.children_pairwise {n : Node} (h : WF n) : DistinctNames n.children := by
  cases h; assumption
theorem WF.child {n : Node} (h : WF n) {c} (hc : c ∈ n.children) : WF c := by
  cases h with | mk _ _ _ _ hall => exact hall c hc

theorem wf_iff (n : Node) : WF n ↔ DistinctNames n.children ∧ ∀ c ∈ n.children, WF c := by
  constructor
  · intro h; exact ⟨h.children_pairwise, fun c hc => h.child hc⟩
  · intro ⟨h1, h2⟩; cases n; exact WF.mk _ _ _ h1 h2

theorem wf_withChildren (n : Node) (cs : List Node) :
    WF (n.withChildren cs) ↔ DistinctNames cs ∧ ∀ c ∈ cs, WF c := by
  rw [wf_iff]; simp

theorem wf_withSubj (n : Node) (s) : WF (n.withSubj s) ↔ WF n := by
  rw [wf_iff, wf_iff n]; simp

theorem wf_fresh (name : String) : WF (Node.fresh name) := WF.mk _ _ _ List.Pairwise.nil (fun _ h => by cases h)

theorem Sorted.children_pairwise {n : Node} (h : Sorted n) : n.children.Pairwise (fun a b => a.name < b.name) := by
  cases h; assumption
theorem Sorted.child {n : Node} (h : Sorted n) {c} (hc : c ∈ n.children) : Sorted c := by
  cases h with | mk _ _ _ _ hall => exact hall c hc
theorem sorted_iff (n : Node) :
    Sorted n ↔ n.children.Pairwise (fun a b => a.name < b.name) ∧ ∀ c ∈ n.children, Sorted c := by
  constructor
  · intro h; exact ⟨h.children_pairwise, fun c hc => h.child hc⟩
  · intro ⟨h1, h2⟩; cases n; exact Sorted.mk _ _ _ h1 h2

/-- strictly increasing names are distinct: `Sorted` implies `WF` -/
theorem Sorted.wf {n : Node} (h : Sorted n) : WF n := by
  induction n using Node.induct with
  | h name s cs ih =>
    refine WF.mk _ _ _ ?_ (fun c hc => ih c hc (h.child hc))
    refine h.children_pairwise.imp ?_
    intro a b hab e
    rw [e] at hab
    exact String.lt_irrefl _ hab

/-! ### children lookup -/

theorem findChild_none {s : String} {l : List Node} (h : findChild s l = none) : ∀ c ∈ l, c.name ≠ s := by
  intro c hc e
  have := List.find?_eq_none.mp h c hc
  simp [e] at this

theorem findChild_some {s : String} {l : List Node} {c : Node} (h : findChild s l = some c) : c ∈ l ∧ c.name = s := by
  refine ⟨List.mem_of_find?_eq_some h, ?_⟩
  have := List.find?_some h
  simpa using this

theorem unique_of_distinct {l : List Node} (hpw : DistinctNames l) {c d : Node} (hc : c ∈ l) (hd : d ∈ l)
    (e : c.name = d.name) : c = d := by
  unfold DistinctNames at hpw
  induction l with
  | nil => cases hc
  | cons a l ih =>
    rw [List.pairwise_cons] at hpw
    cases List.mem_cons.mp hc with
    | inl h1 =>
      cases List.mem_cons.mp hd with
      | inl h2 => rw [h1, h2]
      | inr h2 => exact absurd (h1 ▸ e) (hpw.1 d h2)
    | inr h1 =>
      cases List.mem_cons.mp hd with
      | inl h2 => exact absurd (h2 ▸ e).symm (hpw.1 c h1)
      | inr h2 => exact ih hpw.2 h1 h2

theorem findChild_of_mem {l : List Node} (hpw : DistinctNames l) {c : Node} (hc : c ∈ l) :
    findChild c.name l = some c := by
  cases h : findChild c.name l with
  | none => exact absurd rfl (findChild_none h c hc)
  | some d =>
    have ⟨hd, e⟩ := findChild_some h
    rw [unique_of_distinct hpw hd hc e]

/-- under distinct names the write-back through `find` is a map over all children -/
theorem updFirst_eq_map (s : String) (f : Node → Node) (l : List Node) (hpw : DistinctNames l) :
    updFirst s f l = l.map (fun (c : Node) => if c.name == s then f c else c) := by
  unfold DistinctNames at hpw
  induction l with
  | nil => rfl
  | cons a l ih =>
    rw [List.pairwise_cons] at hpw
    simp only [updFirst, List.map_cons]
    by_cases h : a.name = s
    · have hrest : ∀ c ∈ l, (if c.name == s then f c else c) = c := by
        intro c hc
        have : c.name ≠ s := fun e => hpw.1 c hc (h.trans e.symm)
        simp [this]
      have hmap : l.map (fun (c : Node) => if c.name == s then f c else c) = l := by
        conv => rhs; rw [← List.map_id l]
        exact List.map_congr_left hrest
      rw [hmap]; simp [h]
    · simp [h, ih hpw.2]

theorem distinct_map {l : List Node} (hpw : DistinctNames l) (f : Node → Node) (hf : ∀ c, (f c).name = c.name) :
    DistinctNames (l.map f) := by
  unfold DistinctNames at *
  rw [List.pairwise_map]
  exact hpw.imp (fun {a b} h => by rw [hf, hf]; exact h)

theorem distinct_updFirst {l : List Node} (hpw : DistinctNames l) (s : String) (f : Node → Node)
    (hf : ∀ c, (f c).name = c.name) : DistinctNames (updFirst s f l) := by
  rw [updFirst_eq_map s f l hpw]
  exact distinct_map hpw _ (fun c => by split <;> simp [hf])

theorem mem_updFirst {s : String} {f : Node → Node} {l : List Node} {d : Node} (h : d ∈ updFirst s f l) :
    d ∈ l ∨ ∃ c ∈ l, d = f c := by
  induction l with
  | nil => cases h
  | cons a l ih =>
    simp only [updFirst] at h
    split at h
    · cases List.mem_cons.mp h with
      | inl e => exact .inr ⟨a, List.mem_cons_self, e⟩
      | inr m => exact .inl (List.mem_cons_of_mem _ m)
    · cases List.mem_cons.mp h with
      | inl e => exact .inl (e ▸ List.mem_cons_self)
      | inr m =>
        cases ih m with
        | inl x => exact .inl (List.mem_cons_of_mem _ x)
        | inr x => obtain ⟨c, hc, e⟩ := x; exact .inr ⟨c, List.mem_cons_of_mem _ hc, e⟩

/-! ### the stored keys -/

theorem flatList_eq (cs : List Node) : flatList cs = cs.flatMap Node.flat := by
  induction cs with
  | nil => rfl
  | cons c cs ih => simp [flatList, ih]

theorem flat_eq (n : Node) :
    n.flat = ([n.name], n.subj) :: n.children.flatMap (fun c => c.flat.map (fun e => (n.name :: e.1, e.2))) := by
  cases n with
  | mk name s cs => simp [Node.flat, flatList_eq, List.map_flatMap]

theorem mem_flat_iff (n : Node) (e : List String × Option Subj) :
    e ∈ n.flat ↔ e = ([n.name], n.subj) ∨ ∃ c ∈ n.children, ∃ e' ∈ c.flat, e = (n.name :: e'.1, e'.2) := by
  rw [flat_eq]
  simp only [List.mem_cons, List.mem_flatMap, List.mem_map]
  constructor
  · rintro (h | ⟨c, hc, e', he', rfl⟩)
    · exact .inl h
    · exact .inr ⟨c, hc, e', he', rfl⟩
  · rintro (h | ⟨c, hc, e', he', rfl⟩)
    · exact .inl h
    · exact .inr ⟨c, hc, e', he', rfl⟩

theorem mem_paths_iff (n : Node) (k : List String) :
    k ∈ n.paths ↔ k = [n.name] ∨ ∃ c ∈ n.children, ∃ k' ∈ c.paths, k = n.name :: k' := by
  simp only [Node.paths, List.mem_map]
  constructor
  · rintro ⟨e, he, rfl⟩
    rcases (mem_flat_iff n e).mp he with rfl | ⟨c, hc, e', he', rfl⟩
    · exact .inl rfl
    · exact .inr ⟨c, hc, e'.1, ⟨e', he', rfl⟩, rfl⟩
  · rintro (rfl | ⟨c, hc, k', ⟨e', he', rfl⟩, rfl⟩)
    · exact ⟨([n.name], n.subj), (mem_flat_iff n _).mpr (.inl rfl), rfl⟩
    · exact ⟨(n.name :: e'.1, e'.2), (mem_flat_iff n _).mpr (.inr ⟨c, hc, e', he', rfl⟩), rfl⟩

theorem self_mem_paths (n : Node) : [n.name] ∈ n.paths := (mem_paths_iff n _).mpr (.inl rfl)

/-- every stored key starts with the node's own name -/
theorem paths_head {n : Node} {k : List String} (h : k ∈ n.paths) : ∃ k', k = n.name :: k' := by
  rcases (mem_paths_iff n k).mp h with rfl | ⟨c, _, k', _, rfl⟩
  · exact ⟨[], rfl⟩
  · exact ⟨k', rfl⟩

theorem flat_key_head {n : Node} {e : List String × Option Subj} (h : e ∈ n.flat) : ∃ k', e.1 = n.name :: k' :=
  paths_head (List.mem_map.mpr ⟨e, h, rfl⟩)

theorem flat_key_ne_nil {n : Node} {e : List String × Option Subj} (h : e ∈ n.flat) : e.1 ≠ [] := by
  obtain ⟨k', hk⟩ := flat_key_head h
  rw [hk]; exact List.cons_ne_nil _ _

/-! ### level-wise matching -/

@[simp] theorem matchKey_nil_nil (rm : ρ → String → Bool) : matchKey rm [] [] = true := rfl
@[simp] theorem matchKey_cons_cons (rm : ρ → String → Bool) (l ls k ks) :
    matchKey rm (l :: ls) (k :: ks) = (l.matches rm k && matchKey rm ls ks) := rfl
@[simp] theorem matchKey_nil_cons (rm : ρ → String → Bool) (k ks) : matchKey rm [] (k :: ks) = false := rfl
@[simp] theorem matchKey_cons_nil (rm : ρ → String → Bool) (l : Level ρ) (ls) : matchKey rm (l :: ls) [] = false := rfl

theorem matchKey_length {rm : ρ → String → Bool} {p : List (Level ρ)} {k : List String}
    (h : matchKey rm p k = true) : p.length = k.length := by
  induction p generalizing k with
  | nil => cases k <;> simp_all
  | cons l ls ih =>
    cases k with
    | nil => simp at h
    | cons a k => simp only [matchKey_cons_cons, Bool.and_eq_true] at h; simp [ih h.2]

@[simp] theorem prefixMatch_nil (rm : ρ → String → Bool) (p : List (Level ρ)) : prefixMatch rm p [] = true := by
  cases p <;> rfl
@[simp] theorem prefixMatch_cons_cons (rm : ρ → String → Bool) (l ls k ks) :
    prefixMatch rm (l :: ls) (k :: ks) = (l.matches rm k && prefixMatch rm ls ks) := rfl
@[simp] theorem prefixMatch_nil_cons (rm : ρ → String → Bool) (k ks) :
    prefixMatch rm ([] : List (Level ρ)) (k :: ks) = false := rfl

@[simp] theorem str_matches (rm : ρ → String → Bool) (s n : String) : (Level.str s).matches rm n = (n == s) := rfl

theorem rootLevel_matches (rm : ρ → String → Bool) : (rootLevel : Level ρ).matches rm "" = true := by
  simp [rootLevel]

theorem flatMap_congr' {α β : Type} {l : List α} {f g : α → List β} (h : ∀ x ∈ l, f x = g x) :
    l.flatMap f = l.flatMap g := by
  induction l with
  | nil => rfl
  | cons x l ih =>
    rw [List.flatMap_cons, List.flatMap_cons, h x List.mem_cons_self, ih (fun y hy => h y (List.mem_cons_of_mem _ hy))]

theorem sum_map_zero {α : Type} {l : List α} {g : α → Nat} (h : ∀ x ∈ l, g x = 0) : (l.map g).sum = 0 := by
  induction l with
  | nil => rfl
  | cons x l ih =>
    rw [List.map_cons, List.sum_cons, h x List.mem_cons_self, ih (fun y hy => h y (List.mem_cons_of_mem _ hy))]

/-! ### one child is responsible: sums over all children collapse to the child found by name -/

theorem flatMap_single {β : Type} {l : List Node} (hpw : DistinctNames l) {c : Node} (hc : c ∈ l) (g : Node → List β)
    (hg : ∀ d ∈ l, d.name ≠ c.name → g d = []) : l.flatMap g = g c := by
  unfold DistinctNames at hpw
  induction l with
  | nil => cases hc
  | cons x l ih =>
    rw [List.pairwise_cons] at hpw
    rw [List.flatMap_cons]
    by_cases hx : x.name = c.name
    · have hxc : c = x := by
        cases List.mem_cons.mp hc with
        | inl e => exact e
        | inr m => exact absurd hx (hpw.1 c m)
      subst hxc
      have : l.flatMap g = [] := by
        rw [List.flatMap_eq_nil_iff]
        intro d hd
        exact hg d (List.mem_cons_of_mem _ hd) (fun e => hpw.1 d hd e.symm)
      rw [this, List.append_nil]
    · have hcl : c ∈ l := by
        cases List.mem_cons.mp hc with
        | inl e => exact absurd (e ▸ rfl) hx
        | inr m => exact m
      rw [hg x List.mem_cons_self hx, List.nil_append]
      exact ih hpw.2 hcl (fun d hd => hg d (List.mem_cons_of_mem _ hd))

theorem sum_single {l : List Node} (hpw : DistinctNames l) {c : Node} (hc : c ∈ l) (g : Node → Nat)
    (hg : ∀ d ∈ l, d.name ≠ c.name → g d = 0) : (l.map g).sum = g c := by
  unfold DistinctNames at hpw
  induction l with
  | nil => cases hc
  | cons x l ih =>
    rw [List.pairwise_cons] at hpw
    rw [List.map_cons, List.sum_cons]
    by_cases hx : x.name = c.name
    · have hxc : c = x := by
        cases List.mem_cons.mp hc with
        | inl e => exact e
        | inr m => exact absurd hx (hpw.1 c m)
      subst hxc
      have : (l.map g).sum = 0 :=
        sum_map_zero (fun d hd => hg d (List.mem_cons_of_mem _ hd) (fun e => hpw.1 d hd e.symm))
      omega
    · have hcl : c ∈ l := by
        cases List.mem_cons.mp hc with
        | inl e => exact absurd (e ▸ rfl) hx
        | inr m => exact m
      rw [hg x List.mem_cons_self hx, Nat.zero_add]
      exact ih hpw.2 hcl (fun d hd => hg d (List.mem_cons_of_mem _ hd))

theorem any_single {l : List Node} (hpw : DistinctNames l) {c : Node} (hc : c ∈ l) (g : Node → Bool)
    (hg : ∀ d ∈ l, d.name ≠ c.name → g d = false) : l.any g = g c := by
  cases h : g c with
  | true => exact List.any_eq_true.mpr ⟨c, hc, h⟩
  | false =>
    rw [List.any_eq_false]
    intro d hd
    by_cases e : d.name = c.name
    · rw [unique_of_distinct hpw hd hc e, h]; simp
    · rw [hg d hd e]; simp

/-! ### notify: uniform description (every child is asked, a child that does not match answers nothing) -/

section Notify
variable {α : Type} (rm : ρ → String → Bool) (a : α)

def logU : List (Level ρ) → Level ρ → Node → List (Nat × α)
  | [], cur, n => if cur.matches rm n.name then subjLog n.subj a else []
  | nxt :: rest, cur, n => if cur.matches rm n.name then n.children.flatMap (logU rest nxt) else []

def countU : List (Level ρ) → Level ρ → Node → Nat
  | [], cur, n => if cur.matches rm n.name && n.subj.isSome then 1 else 0
  | nxt :: rest, cur, n => if cur.matches rm n.name then (n.children.map (countU rest nxt)).sum else 0

theorem notify_nomatch (p : List (Level ρ)) (cur : Level ρ) (n : Node) (h : cur.matches rm n.name = false) :
    notify rm a p cur n = ⟨n, [], 0⟩ := by
  cases p <;> simp [notify, h]

theorem logU_nomatch (p : List (Level ρ)) (cur : Level ρ) (n : Node) (h : cur.matches rm n.name = false) :
    logU rm a p cur n = [] := by
  cases p <;> simp [logU, h]

theorem countU_nomatch (p : List (Level ρ)) (cur : Level ρ) (n : Node) (h : cur.matches rm n.name = false) :
    countU rm p cur n = 0 := by
  cases p <;> simp [countU, h]

theorem str_nomatch {s : String} {d : Node} (h : d.name ≠ s) : (Level.str s : Level ρ).matches rm d.name = false := by
  simp [h]

theorem notify_log (p : List (Level ρ)) (cur : Level ρ) (n : Node) (hwf : WF n) :
    (notify rm a p cur n).log = logU rm a p cur n := by
  induction p generalizing cur n with
  | nil =>
    simp only [notify, logU]
    split
    · cases n.subj <;> simp [subjLog]
    · rfl
  | cons nxt rest ih =>
    cases hm : cur.matches rm n.name with
    | false => rw [notify_nomatch rm a _ _ _ hm, logU_nomatch rm a _ _ _ hm]
    | true =>
      cases nxt with
      | re r =>
        simp only [notify, logU, hm, if_true, List.flatMap_map]
        exact flatMap_congr' (fun c hc => ih _ c (hwf.child hc))
      | str s =>
        simp only [notify, logU, hm, if_true]
        cases hf : findChild s n.children with
        | none =>
          simp only []
          symm
          rw [List.flatMap_eq_nil_iff]
          intro d hd
          exact logU_nomatch rm a _ _ _ (str_nomatch rm (findChild_none hf d hd))
        | some c =>
          simp only []
          obtain ⟨hc, hcs⟩ := findChild_some hf
          rw [ih _ c (hwf.child hc)]
          symm
          refine flatMap_single hwf.children_pairwise hc _ (fun d _ hne => ?_)
          exact logU_nomatch rm a _ _ _ (str_nomatch rm (hcs ▸ hne))

theorem notify_count (p : List (Level ρ)) (cur : Level ρ) (n : Node) (hwf : WF n) :
    (notify rm a p cur n).count = countU rm p cur n := by
  induction p generalizing cur n with
  | nil =>
    simp only [notify, countU]
    split
    · cases n.subj <;> simp [*]
    · simp [*]
  | cons nxt rest ih =>
    cases hm : cur.matches rm n.name with
    | false => rw [notify_nomatch rm a _ _ _ hm, countU_nomatch rm _ _ _ hm]
    | true =>
      cases nxt with
      | re r =>
        simp only [notify, countU, hm, if_true, List.map_map]
        congr 1
        exact List.map_congr_left (fun c hc => ih _ c (hwf.child hc))
      | str s =>
        simp only [notify, countU, hm, if_true]
        cases hf : findChild s n.children with
        | none =>
          simp only []
          symm
          exact sum_map_zero (fun d hd => countU_nomatch rm _ _ _ (str_nomatch rm (findChild_none hf d hd)))
        | some c =>
          simp only []
          obtain ⟨hc, hcs⟩ := findChild_some hf
          rw [ih _ c (hwf.child hc)]
          symm
          refine sum_single hwf.children_pairwise hc _ (fun d _ hne => ?_)
          exact countU_nomatch rm _ _ _ (str_nomatch rm (hcs ▸ hne))

/-- the keys below the children never have length one -/
theorem filter_children_nil (n : Node) (cur : Level ρ) (q : List String × Option Subj → Bool) :
    (n.children.flatMap (fun c => c.flat.map (fun e => (n.name :: e.1, e.2)))).filter
      (fun e => matchKey rm [cur] e.1 && q e) = [] := by
  rw [List.filter_eq_nil_iff]
  intro e he
  simp only [List.mem_flatMap, List.mem_map] at he
  obtain ⟨c, _, e', he', rfl⟩ := he
  obtain ⟨k', hk⟩ := flat_key_head he'
  simp [hk]

theorem logU_eq_filter (p : List (Level ρ)) (cur : Level ρ) (n : Node) :
    logU rm a p cur n = (n.flat.filter (fun e => matchKey rm (cur :: p) e.1)).flatMap (fun e => subjLog e.2 a) := by
  induction p generalizing cur n with
  | nil =>
    have h0 := filter_children_nil rm n cur (fun _ => true)
    simp only [Bool.and_true] at h0
    rw [flat_eq, List.filter_cons, h0]
    simp only [logU, matchKey_cons_cons, matchKey_nil_nil, Bool.and_true]
    split <;> simp
  | cons nxt rest ih =>
    rw [flat_eq, List.filter_cons]
    simp only [logU, matchKey_cons_cons, matchKey_cons_nil, Bool.and_false, Bool.false_eq_true, if_false,
      List.filter_flatMap, List.flatMap_assoc, List.filter_map, List.flatMap_map, Function.comp_def]
    cases hm : cur.matches rm n.name with
    | false => simp
    | true =>
      simp only [Bool.true_and, if_true]
      exact flatMap_congr' (fun c _ => ih nxt c)

theorem countU_eq_filter (p : List (Level ρ)) (cur : Level ρ) (n : Node) :
    countU rm p cur n = (n.flat.filter (fun e => matchKey rm (cur :: p) e.1 && e.2.isSome)).length := by
  induction p generalizing cur n with
  | nil =>
    have h0 := filter_children_nil rm n cur (fun e => e.2.isSome)
    rw [flat_eq, List.filter_cons, h0]
    simp only [countU, matchKey_cons_cons, matchKey_nil_nil, Bool.and_true]
    split <;> simp
  | cons nxt rest ih =>
    rw [flat_eq, List.filter_cons]
    simp only [countU, matchKey_cons_cons, matchKey_cons_nil, Bool.and_false, Bool.false_and, Bool.false_eq_true, if_false,
      List.filter_flatMap, List.length_flatMap, List.filter_map, List.length_map, Function.comp_def]
    cases hm : cur.matches rm n.name with
    | false =>
      symm
      exact sum_map_zero (fun c _ => by simp)
    | true =>
      simp only [Bool.true_and, if_true]
      congr 1
      exact List.map_congr_left (fun c _ => ih nxt c)

end Notify

/-! ### names are never changed -/

@[simp] theorem shrink_name (rm : ρ → String → Bool) (p : List (Level ρ)) (cur) (n : Node) :
    (shrink rm p cur n).name = n.name := by
  cases p with
  | nil => simp only [shrink]; split <;> simp
  | cons nxt rest => simp only [shrink]; split <;> (try cases nxt) <;> simp

@[simp] theorem notify_name {α : Type} (rm : ρ → String → Bool) (a : α) (p : List (Level ρ)) (cur) (n : Node) :
    (notify rm a p cur n).node.name = n.name := by
  cases p with
  | nil =>
    simp only [notify]
    split
    · split <;> simp
    · rfl
  | cons nxt rest =>
    simp only [notify]
    split
    · cases nxt with
      | re r => simp
      | str s => simp only []; split <;> simp
    · rfl

theorem lookupModify_name (f : Node → Node) (hf : ∀ c, (f c).name = c.name) (key : List String) (n : Node) :
    (lookupModify f key n).name = n.name := by
  cases key <;> simp [lookupModify, hf]

@[simp] theorem modifySubjAt_name (f : Subj → Subj) (key : List String) (n : Node) :
    (modifySubjAt f key n).name = n.name := by
  cases key with
  | nil => simp only [modifySubjAt]; split <;> simp
  | cons k ks => simp [modifySubjAt]

@[simp] theorem subscribeHere_name (id : Nat) (n : Node) : (subscribeHere id n).name = n.name := by
  simp only [subscribeHere]; split <;> simp

/-! ### map order is an invariant of every operation -/

abbrev SortedNames (l : List Node) : Prop := l.Pairwise (fun a b => a.name < b.name)

theorem SortedNames.distinct {l : List Node} (h : SortedNames l) : DistinctNames l := by
  unfold SortedNames at h
  unfold DistinctNames
  refine h.imp ?_
  intro a b hab e
  rw [e] at hab
  exact String.lt_irrefl _ hab

theorem sorted_withChildren (n : Node) (cs : List Node) :
    Sorted (n.withChildren cs) ↔ SortedNames cs ∧ ∀ c ∈ cs, Sorted c := by
  rw [sorted_iff]; simp

theorem sorted_withSubj (n : Node) (s) : Sorted (n.withSubj s) ↔ Sorted n := by
  rw [sorted_iff, sorted_iff n]; simp

theorem sorted_fresh (name : String) : Sorted (Node.fresh name) :=
  Sorted.mk _ _ _ List.Pairwise.nil (fun _ h => by cases h)

theorem sortedNames_map {l : List Node} (h : SortedNames l) (f : Node → Node) (hf : ∀ c, (f c).name = c.name) :
    SortedNames (l.map f) := by
  unfold SortedNames at *
  rw [List.pairwise_map]
  exact h.imp (fun {a b} hab => by rw [hf, hf]; exact hab)

theorem sortedNames_updFirst {l : List Node} (h : SortedNames l) (s : String) (f : Node → Node)
    (hf : ∀ c, (f c).name = c.name) : SortedNames (updFirst s f l) := by
  rw [updFirst_eq_map s f l h.distinct]
  exact sortedNames_map h _ (fun c => by split <;> simp [hf])

theorem mem_insertSorted {name : String} {l : List Node} {d : Node} :
    d ∈ insertSorted name l ↔ d = Node.fresh name ∨ d ∈ l := by
  induction l with
  | nil => simp [insertSorted]
  | cons c cs ih =>
    simp only [insertSorted]
    split
    · simp
    · simp only [List.mem_cons, ih]
      constructor
      · rintro (h | h | h)
        · exact .inr (.inl h)
        · exact .inl h
        · exact .inr (.inr h)
      · rintro (h | h | h)
        · exact .inr (.inl h)
        · exact .inl h
        · exact .inr (.inr h)

theorem string_lt_of_not_lt_of_ne {a b : String} (h : ¬ a < b) (hne : b ≠ a) : b < a := by
  apply Classical.byContradiction
  intro h2
  exact hne (String.le_antisymm (String.not_lt.mp h) (String.not_lt.mp h2))

theorem sortedNames_insertSorted {name : String} {l : List Node} (h : SortedNames l) (hne : ∀ c ∈ l, c.name ≠ name) :
    SortedNames (insertSorted name l) := by
  unfold SortedNames at *
  induction l with
  | nil => simp [insertSorted]
  | cons c cs ih =>
    rw [List.pairwise_cons] at h
    simp only [insertSorted]
    split
    · rename_i hlt
      rw [List.pairwise_cons]
      refine ⟨?_, List.pairwise_cons.mpr h⟩
      intro d hd
      cases List.mem_cons.mp hd with
      | inl e => rw [e]; exact hlt
      | inr m => exact String.lt_trans hlt (h.1 d m)
    · rename_i hnlt
      rw [List.pairwise_cons]
      refine ⟨?_, ih h.2 (fun d hd => hne d (List.mem_cons_of_mem _ hd))⟩
      intro d hd
      rcases mem_insertSorted.mp hd with rfl | m
      · exact string_lt_of_not_lt_of_ne hnlt (hne c List.mem_cons_self)
      · exact h.1 d m

theorem mem_insertChild {name : String} {l : List Node} {d : Node} (h : d ∈ insertChild name l) :
    d = Node.fresh name ∨ d ∈ l := by
  unfold insertChild at h
  split at h
  · exact .inr h
  · exact mem_insertSorted.mp h

theorem sortedNames_insertChild {name : String} {l : List Node} (h : SortedNames l) : SortedNames (insertChild name l) := by
  unfold insertChild
  split
  · exact h
  · rename_i hf
    refine sortedNames_insertSorted h ?_
    cases hfc : findChild name l with
    | some c => simp [hfc] at hf
    | none => exact findChild_none hfc

theorem sorted_shrink (rm : ρ → String → Bool) (p : List (Level ρ)) (cur) (n : Node) (h : Sorted n) :
    Sorted (shrink rm p cur n) := by
  induction p generalizing cur n with
  | nil =>
    simp only [shrink]
    split
    · rw [sorted_withChildren]
      exact ⟨h.children_pairwise.filter _, fun c hc => h.child (List.mem_filter.mp hc).1⟩
    · exact h
  | cons nxt rest ih =>
    simp only [shrink]
    split
    · cases nxt with
      | re r =>
        simp only []
        rw [sorted_withChildren]
        refine ⟨(sortedNames_map h.children_pairwise _ (fun c => shrink_name rm rest _ c)).filter _, ?_⟩
        intro c hc
        obtain ⟨c0, hc0, rfl⟩ := List.mem_map.mp (List.mem_filter.mp hc).1
        exact ih _ c0 (h.child hc0)
      | str s =>
        simp only []
        rw [sorted_withChildren]
        refine ⟨(sortedNames_updFirst h.children_pairwise s _ (fun c => shrink_name rm rest _ c)).filter _, ?_⟩
        intro c hc
        rcases mem_updFirst (List.mem_filter.mp hc).1 with m | ⟨c0, hc0, rfl⟩
        · exact h.child m
        · exact ih _ c0 (h.child hc0)
    · exact h

theorem sorted_notify {α : Type} (rm : ρ → String → Bool) (a : α) (p : List (Level ρ)) (cur) (n : Node) (h : Sorted n) :
    Sorted (notify rm a p cur n).node := by
  induction p generalizing cur n with
  | nil =>
    simp only [notify]
    split
    · split
      · rw [sorted_withSubj]; exact h
      · exact h
    · exact h
  | cons nxt rest ih =>
    simp only [notify]
    split
    · cases nxt with
      | re r =>
        simp only [List.map_map]
        rw [sorted_withChildren]
        refine ⟨sortedNames_map h.children_pairwise _ (fun c => notify_name rm a rest _ c), ?_⟩
        intro c hc
        obtain ⟨c0, hc0, rfl⟩ := List.mem_map.mp hc
        exact ih _ c0 (h.child hc0)
      | str s =>
        simp only []
        split
        · simp only []
          rw [sorted_withChildren]
          refine ⟨sortedNames_updFirst h.children_pairwise s _ (fun c => notify_name rm a rest _ c), ?_⟩
          intro c hc
          rcases mem_updFirst hc with m | ⟨c0, hc0, rfl⟩
          · exact h.child m
          · exact ih _ c0 (h.child hc0)
        · exact h
    · exact h

theorem sorted_lookupModify (f : Node → Node) (hn : ∀ c, (f c).name = c.name) (hs : ∀ c, Sorted c → Sorted (f c))
    (key : List String) (n : Node) (h : Sorted n) : Sorted (lookupModify f key n) := by
  induction key generalizing n with
  | nil => exact hs n h
  | cons k ks ih =>
    simp only [lookupModify]
    rw [sorted_withChildren]
    have hins := sortedNames_insertChild (name := k) h.children_pairwise
    refine ⟨sortedNames_updFirst hins k _ (fun c => lookupModify_name f hn ks c), ?_⟩
    have hmem : ∀ d ∈ insertChild k n.children, Sorted d := by
      intro d hd
      rcases mem_insertChild hd with rfl | m
      · exact sorted_fresh k
      · exact h.child m
    intro c hc
    rcases mem_updFirst hc with m | ⟨c0, hc0, rfl⟩
    · exact hmem c m
    · exact ih c0 (hmem c0 hc0)

theorem sorted_subscribe (id : Nat) (key : List String) (n : Node) (h : Sorted n) : Sorted (subscribe id key n) := by
  refine sorted_lookupModify _ (subscribeHere_name id) ?_ key n h
  intro c hc
  simp only [subscribeHere]
  split <;> (rw [sorted_withSubj]; exact hc)

theorem sorted_modifySubjAt (f : Subj → Subj) (key : List String) (n : Node) (h : Sorted n) :
    Sorted (modifySubjAt f key n) := by
  induction key generalizing n with
  | nil =>
    simp only [modifySubjAt]
    split
    · rw [sorted_withSubj]; exact h
    · exact h
  | cons k ks ih =>
    simp only [modifySubjAt]
    rw [sorted_withChildren]
    refine ⟨sortedNames_updFirst h.children_pairwise k _ (fun c => modifySubjAt_name f ks c), ?_⟩
    intro c hc
    rcases mem_updFirst hc with m | ⟨c0, hc0, rfl⟩
    · exact h.child m
    · exact ih c0 (h.child hc0)

theorem sorted_applyOp (rm : ρ → String → Bool) (t t' : Node) (op : Op ρ) (h : Sorted t)
    (hop : applyOp rm t op = .ok t') : Sorted t' := by
  cases op with
  | subscribe key id =>
    simp only [applyOp, rSubscribe, Except.ok.injEq] at hop
    exact hop ▸ sorted_subscribe id key t h
  | unsubscribe key id =>
    simp only [applyOp] at hop
    split at hop
    · cases hop
    · split at hop
      · simp only [Except.ok.injEq] at hop
        exact hop ▸ sorted_modifySubjAt _ key t h
      · cases hop
  | invalidate key id =>
    simp only [applyOp] at hop
    split at hop
    · cases hop
    · split at hop
      · simp only [Except.ok.injEq] at hop
        exact hop ▸ sorted_modifySubjAt _ key t h
      · cases hop
  | shrink p =>
    simp only [applyOp, rShrink, Except.ok.injEq] at hop
    exact hop ▸ sorted_shrink rm p _ t h
  | notify p =>
    simp only [applyOp, rNotify, Except.ok.injEq] at hop
    exact hop ▸ sorted_notify rm () p _ t h

theorem name_applyOp (rm : ρ → String → Bool) (t t' : Node) (op : Op ρ)
    (hop : applyOp rm t op = .ok t') : t'.name = t.name := by
  cases op with
  | subscribe key id =>
    simp only [applyOp, rSubscribe, Except.ok.injEq] at hop
    rw [← hop]; exact lookupModify_name _ (subscribeHere_name id) key t
  | unsubscribe key id =>
    simp only [applyOp] at hop
    split at hop
    · cases hop
    · split at hop
      · simp only [Except.ok.injEq] at hop
        rw [← hop]; simp
      · cases hop
  | invalidate key id =>
    simp only [applyOp] at hop
    split at hop
    · cases hop
    · split at hop
      · simp only [Except.ok.injEq] at hop
        rw [← hop]; simp
      · cases hop
  | shrink p =>
    simp only [applyOp, rShrink, Except.ok.injEq] at hop
    rw [← hop]; simp
  | notify p =>
    simp only [applyOp, rNotify, Except.ok.injEq] at hop
    rw [← hop]; simp

theorem run_invariant (rm : ρ → String → Bool) (ops : List (Op ρ)) (t t' : Node) (h : Sorted t)
    (hr : run rm t ops = some t') : Sorted t' ∧ t'.name = t.name := by
  induction ops generalizing t with
  | nil => simp only [run, Option.some.injEq] at hr; exact hr ▸ ⟨h, rfl⟩
  | cons op ops ih =>
    simp only [run] at hr
    split at hr
    · rename_i t1 hop
      have := ih t1 (sorted_applyOp rm t t1 op h hop) hr
      exact ⟨this.1, this.2.trans (name_applyOp rm t t1 op hop)⟩
    · exact ih t h hr
    · cases hr

/-! ### stored keys: no duplicates, prefix closed, depth -/

theorem paths_eq (n : Node) :
    n.paths = [n.name] :: n.children.flatMap (fun c => c.paths.map (fun k => n.name :: k)) := by
  simp only [Node.paths]
  rw [flat_eq]
  simp [List.map_flatMap, Function.comp_def]

theorem paths_nodup (n : Node) (hwf : WF n) : n.paths.Nodup := by
  induction n using Node.induct with
  | h name s cs ih =>
    rw [paths_eq]
    simp only [name_mk, children_mk]
    rw [List.nodup_cons]
    constructor
    · intro hmem
      simp only [List.mem_flatMap, List.mem_map] at hmem
      obtain ⟨c, _, k', hk', e⟩ := hmem
      obtain ⟨k'', rfl⟩ := paths_head hk'
      simp at e
    · unfold List.Nodup
      rw [List.pairwise_flatMap]
      constructor
      · intro c hc
        have := ih c hc (hwf.child hc)
        unfold List.Nodup at this
        exact this.map _ (fun a b hab e => hab (List.cons.inj e).2)
      · have hpw := hwf.children_pairwise
        unfold DistinctNames at hpw
        simp only [children_mk] at hpw
        refine hpw.imp ?_
        intro c d hne x hx y hy e
        simp only [List.mem_map] at hx hy
        obtain ⟨k1, hk1, rfl⟩ := hx
        obtain ⟨k2, hk2, rfl⟩ := hy
        obtain ⟨_, rfl⟩ := paths_head hk1
        obtain ⟨_, rfl⟩ := paths_head hk2
        simp only [List.cons.injEq, true_and] at e
        exact hne e.1

theorem paths_prefix_closed (n : Node) (k : List String) (hk : k ∈ n.paths) (hne : k ≠ [n.name]) :
    k.dropLast ∈ n.paths := by
  induction n using Node.induct generalizing k with
  | h name s cs ih =>
    rcases (mem_paths_iff _ k).mp hk with rfl | ⟨c, hc, k', hk', rfl⟩
    · exact absurd rfl hne
    · simp only [name_mk, children_mk] at hc ⊢
      by_cases h1 : k' = [c.name]
      · subst h1
        simp only [List.dropLast_cons_cons, List.dropLast_singleton]
        exact self_mem_paths (Node.mk name s cs)
      · obtain ⟨k'', hk''⟩ := paths_head hk'
        have hnn : k' ≠ [] := by rw [hk'']; exact List.cons_ne_nil _ _
        rw [List.dropLast_cons_of_ne_nil hnn]
        exact (mem_paths_iff _ _).mpr (.inr ⟨c, hc, k'.dropLast, ih c hc k' hk' h1, rfl⟩)

theorem depthList_ge {cs : List Node} {c : Node} (hc : c ∈ cs) : c.depth ≤ depthList cs := by
  induction cs with
  | nil => cases hc
  | cons x cs ih =>
    simp only [depthList]
    cases List.mem_cons.mp hc with
    | inl e => rw [e]; exact Nat.le_max_left _ _
    | inr m => exact Nat.le_trans (ih m) (Nat.le_max_right _ _)

theorem depthList_attained {cs : List Node} (hne : cs ≠ []) : ∃ c ∈ cs, c.depth = depthList cs := by
  induction cs with
  | nil => exact absurd rfl hne
  | cons x cs ih =>
    simp only [depthList]
    by_cases hcs : cs = []
    · subst hcs
      exact ⟨x, List.mem_cons_self, by simp [depthList]⟩
    · obtain ⟨c, hc, e⟩ := ih hcs
      by_cases hle : depthList cs ≤ x.depth
      · exact ⟨x, List.mem_cons_self, by rw [Nat.max_eq_left hle]⟩
      · exact ⟨c, List.mem_cons_of_mem _ hc, by rw [e, Nat.max_eq_right (by omega)]⟩

theorem depth_eq (n : Node) : n.depth = 1 + depthList n.children := by
  cases n; simp [Node.depth]

theorem depth_bounds (n : Node) (k : List String) (hk : k ∈ n.paths) : k.length ≤ n.depth := by
  induction n using Node.induct generalizing k with
  | h name s cs ih =>
    rw [depth_eq]
    rcases (mem_paths_iff _ k).mp hk with rfl | ⟨c, hc, k', hk', rfl⟩
    · simp
    · simp only [children_mk] at hc ⊢
      have h1 := ih c hc k' hk'
      have h2 := depthList_ge hc
      simp only [List.length_cons]
      omega

theorem depth_attained (n : Node) : ∃ k ∈ n.paths, k.length = n.depth := by
  induction n using Node.induct with
  | h name s cs ih =>
    rw [depth_eq]
    simp only [children_mk]
    by_cases hcs : cs = []
    · subst hcs
      exact ⟨[name], self_mem_paths (Node.mk name s []), by simp [depthList]⟩
    · obtain ⟨c, hc, e⟩ := depthList_attained hcs
      obtain ⟨k', hk', e'⟩ := ih c hc
      refine ⟨name :: k', (mem_paths_iff _ _).mpr (.inr ⟨c, hc, k', hk', rfl⟩), ?_⟩
      simp only [List.length_cons]
      omega

/-! ### exists -/

theorem nodeExists_iff (rm : ρ → String → Bool) (p : List (Level ρ)) (cur : Level ρ) (n : Node) (hwf : WF n) :
    nodeExists rm p cur n = true ↔ ∃ k ∈ n.paths, matchKey rm (cur :: p) k = true := by
  induction p generalizing cur n with
  | nil =>
    simp only [nodeExists]
    constructor
    · intro h
      exact ⟨[n.name], self_mem_paths n, by simp [h]⟩
    · rintro ⟨k, hk, hm⟩
      obtain ⟨k', rfl⟩ := paths_head hk
      cases k' with
      | nil => simpa using hm
      | cons x xs => simp at hm
  | cons nxt rest ih =>
    simp only [nodeExists]
    cases hcur : cur.matches rm n.name with
    | false =>
      simp only [Bool.false_eq_true, if_false, false_iff]
      rintro ⟨k, hk, hm⟩
      obtain ⟨k', rfl⟩ := paths_head hk
      simp [hcur] at hm
    | true =>
      simp only [if_true]
      have key : (∃ k ∈ n.paths, matchKey rm (cur :: nxt :: rest) k = true) ↔
          ∃ c ∈ n.children, ∃ k' ∈ c.paths, matchKey rm (nxt :: rest) k' = true := by
        constructor
        · rintro ⟨k, hk, hm⟩
          rcases (mem_paths_iff n k).mp hk with rfl | ⟨c, hc, k', hk', rfl⟩
          · simp at hm
          · simp only [matchKey_cons_cons, hcur, Bool.true_and] at hm
            exact ⟨c, hc, k', hk', by simpa using hm⟩
        · rintro ⟨c, hc, k', hk', hm⟩
          refine ⟨n.name :: k', (mem_paths_iff n _).mpr (.inr ⟨c, hc, k', hk', rfl⟩), ?_⟩
          simp only [matchKey_cons_cons, hcur, Bool.true_and]
          exact hm
      rw [key]
      cases nxt with
      | re r =>
        simp only [List.any_eq_true]
        constructor
        · rintro ⟨c, hc, h⟩
          exact ⟨c, hc, (ih _ c (hwf.child hc)).mp h⟩
        · rintro ⟨c, hc, h⟩
          exact ⟨c, hc, (ih _ c (hwf.child hc)).mpr h⟩
      | str s =>
        simp only []
        cases hf : findChild s n.children with
        | none =>
          simp only [Bool.false_eq_true, false_iff]
          rintro ⟨c, hc, k', hk', hm⟩
          obtain ⟨k'', rfl⟩ := paths_head hk'
          simp only [matchKey_cons_cons, str_matches, Bool.and_eq_true, beq_iff_eq] at hm
          exact findChild_none hf c hc hm.1
        | some c =>
          simp only []
          obtain ⟨hc, hcs⟩ := findChild_some hf
          rw [ih _ c (hwf.child hc)]
          constructor
          · rintro ⟨k', hk', hm⟩
            exact ⟨c, hc, k', hk', hm⟩
          · rintro ⟨d, hd, k', hk', hm⟩
            obtain ⟨k'', rfl⟩ := paths_head hk'
            have hds : d.name = s := by
              simp only [matchKey_cons_cons, str_matches, Bool.and_eq_true, beq_iff_eq] at hm
              exact hm.1
            have : d = c := unique_of_distinct hwf.children_pairwise hd hc (hds.trans hcs.symm)
            subst this
            exact ⟨_, hk', hm⟩

/-! ### shrink -/

theorem isEmpty_iff (m : Node) : m.isEmpty = true ↔ hasSubs m.subj = false ∧ m.children = [] := by
  simp [Node.isEmpty, List.isEmpty_iff]

theorem shrink_nomatch (rm : ρ → String → Bool) (p : List (Level ρ)) (cur : Level ρ) (n : Node)
    (h : cur.matches rm n.name = false) : shrink rm p cur n = n := by
  cases p <;> simp [shrink, h]

@[simp] theorem shrink_subj (rm : ρ → String → Bool) (p : List (Level ρ)) (cur) (n : Node) :
    (shrink rm p cur n).subj = n.subj := by
  cases p with
  | nil => simp only [shrink]; split <;> simp
  | cons nxt rest => simp only [shrink]; split <;> (try cases nxt) <;> simp

/-- uniform description: every child is shrunk (a child that does not match is returned unchanged), then
the empty ones are erased -/
theorem shrink_cons (rm : ρ → String → Bool) (nxt : Level ρ) (rest : List (Level ρ)) (cur : Level ρ) (n : Node)
    (hwf : WF n) :
    shrink rm (nxt :: rest) cur n =
      if cur.matches rm n.name then n.withChildren (eraseEmpty (n.children.map (shrink rm rest nxt))) else n := by
  simp only [shrink]
  split
  · cases nxt with
    | re r => rfl
    | str s =>
      simp only []
      rw [updFirst_eq_map _ _ _ hwf.children_pairwise]
      congr 2
      refine List.map_congr_left (fun c _ => ?_)
      split
      · rfl
      · rename_i hne
        rw [shrink_nomatch]
        simpa using hne
  · rfl

theorem wf_shrink (rm : ρ → String → Bool) (p : List (Level ρ)) (cur) (n : Node) (h : WF n) :
    WF (shrink rm p cur n) := by
  induction p generalizing cur n with
  | nil =>
    simp only [shrink]
    split
    · rw [wf_withChildren]
      exact ⟨h.children_pairwise.filter _, fun c hc => h.child (List.mem_filter.mp hc).1⟩
    · exact h
  | cons nxt rest ih =>
    rw [shrink_cons rm nxt rest cur n h]
    split
    · rw [wf_withChildren]
      refine ⟨(distinct_map h.children_pairwise _ (fun c => shrink_name rm rest _ c)).filter _, ?_⟩
      intro c hc
      obtain ⟨c0, hc0, rfl⟩ := List.mem_map.mp (List.mem_filter.mp hc).1
      exact ih _ c0 (h.child hc0)
    · exact h

section ShrinkLog
variable {α : Type} (rm : ρ → String → Bool) (a : α)

theorem logU_empty (q : List (Level ρ)) (qc : Level ρ) (c : Node) (h : c.isEmpty = true) : logU rm a q qc c = [] := by
  obtain ⟨hs, hc⟩ := (isEmpty_iff c).mp h
  cases q with
  | nil =>
    simp only [logU]
    split
    · cases hsub : c.subj with
      | none => rfl
      | some l =>
        rw [hsub] at hs
        simp only [hasSubs, Subj.hasSubscriptions, Bool.not_eq_false', List.isEmpty_iff] at hs
        simp [subjLog, Subj.log, hs]
    · rfl
  | cons nxt rest => simp [logU, hc]

theorem flatMap_eraseEmpty_map {β : Type} (l : List Node) (f : Node → Node) (g : Node → List β)
    (hg : ∀ c ∈ l, g (f c) = g c) (he : ∀ c : Node, c.isEmpty = true → g c = []) :
    (eraseEmpty (l.map f)).flatMap g = l.flatMap g := by
  unfold eraseEmpty
  induction l with
  | nil => rfl
  | cons x l ih =>
    have iht := ih (fun c hc => hg c (List.mem_cons_of_mem _ hc))
    simp only [List.map_cons, List.filter_cons, List.flatMap_cons]
    cases hemp : (f x).isEmpty with
    | true =>
      simp only [Bool.not_true, Bool.false_eq_true, if_false]
      rw [iht, ← hg x List.mem_cons_self, he _ hemp]; simp
    | false =>
      simp only [Bool.not_false, if_true, List.flatMap_cons]
      rw [iht, hg x List.mem_cons_self]

/-- the uniform log of a node whose children were rewritten by a log-preserving map and then pruned -/
theorem logU_prune (n : Node) (f : Node → Node)
    (hf : ∀ c ∈ n.children, ∀ q qc, logU rm a q qc (f c) = logU rm a q qc c) (q : List (Level ρ)) (qc : Level ρ) :
    logU rm a q qc (n.withChildren (eraseEmpty (n.children.map f))) = logU rm a q qc n := by
  cases q with
  | nil => simp [logU]
  | cons nxt rest =>
    simp only [logU, name_withChildren, children_withChildren]
    split
    · exact flatMap_eraseEmpty_map _ f _ (fun c hc => hf c hc rest nxt) (fun c hc => logU_empty rm a rest nxt c hc)
    · rfl

theorem logU_shrink (p : List (Level ρ)) (pc : Level ρ) (n : Node) (hwf : WF n) (q : List (Level ρ)) (qc : Level ρ) :
    logU rm a q qc (shrink rm p pc n) = logU rm a q qc n := by
  induction p generalizing pc n q qc with
  | nil =>
    simp only [shrink]
    split
    · have := logU_prune rm a n id (fun _ _ _ _ => rfl) q qc
      simpa using this
    · rfl
  | cons nxt rest ih =>
    rw [shrink_cons rm nxt rest pc n hwf]
    split
    · exact logU_prune rm a n _ (fun c hc q' qc' => ih nxt c (hwf.child hc) q' qc') q qc
    · rfl

/-- **C13, first clause** for every node, level and matcher -/
theorem shrink_invisible (p : List (Level ρ)) (pc : Level ρ) (n : Node) (hwf : WF n) (q : List (Level ρ)) (qc : Level ρ) :
    (notify rm a q qc (shrink rm p pc n)).log = (notify rm a q qc n).log := by
  rw [notify_log rm a q qc _ (wf_shrink rm p pc n hwf), notify_log rm a q qc n hwf]
  exact logU_shrink rm a p pc n hwf q qc

end ShrinkLog

/-! ### what shrink removes, exactly -/

/-- nothing at or below `k` holds a subscription, and the pattern visits the parent of every stored key at or below `k` -/
def Dead (rm : ρ → String → Bool) (pat : List (Level ρ)) (n : Node) (k : List String) : Prop :=
  ∀ e ∈ n.flat, k <+: e.1 → hasSubs e.2 = false ∧ prefixMatch rm pat e.1.dropLast = true

/-- some stored key at or below `k` holds a subscription (the code's notion: `hasSubscriptions`) -/
def LiveAtOrBelow (n : Node) (k : List String) : Prop :=
  ∃ e ∈ n.flat, k <+: e.1 ∧ hasSubs e.2 = true

theorem Dead.mono {rm : ρ → String → Bool} {pat : List (Level ρ)} {n : Node} {k k2 : List String}
    (h : Dead rm pat n k) (hp : k <+: k2) : Dead rm pat n k2 :=
  fun e he hk => h e he (List.IsPrefix.trans hp hk)

theorem Dead.not_live {rm : ρ → String → Bool} {pat : List (Level ρ)} {n : Node} {k : List String}
    (h : Dead rm pat n k) : ¬ LiveAtOrBelow n k := by
  rintro ⟨e, he, hk, hl⟩
  rw [(h e he hk).1] at hl
  cases hl

theorem mem_flat_of_mem_paths {n : Node} {k : List String} (h : k ∈ n.paths) : ∃ s, (k, s) ∈ n.flat := by
  simp only [Node.paths, List.mem_map] at h
  obtain ⟨e, he, rfl⟩ := h
  exact ⟨e.2, he⟩

theorem mem_paths_of_mem_flat {n : Node} {e : List String × Option Subj} (h : e ∈ n.flat) : e.1 ∈ n.paths :=
  List.mem_map.mpr ⟨e, h, rfl⟩

theorem flat_singleton_key {n : Node} {e : List String × Option Subj} (he : e ∈ n.flat) (hk : e.1 = [n.name]) :
    e.2 = n.subj := by
  rcases (mem_flat_iff n e).mp he with rfl | ⟨c, _, e', he', rfl⟩
  · rfl
  · exfalso
    simp only [List.cons.injEq, true_and] at hk
    exact flat_key_ne_nil he' hk

theorem paths_of_no_children {n : Node} (h : n.children = []) {k : List String} (hk : k ∈ n.paths) : k = [n.name] := by
  rcases (mem_paths_iff n k).mp hk with rfl | ⟨c, hc, _, _, _⟩
  · rfl
  · rw [h] at hc; cases hc

theorem child_path_mem {n d : Node} (hd : d ∈ n.children) : [n.name, d.name] ∈ n.paths :=
  (mem_paths_iff n _).mpr (.inr ⟨d, hd, [d.name], self_mem_paths d, rfl⟩)

/-- a key that is not visited (the level does not match the node) is not dead -/
theorem not_dead_of_nomatch {rm : ρ → String → Bool} {cur : Level ρ} {p : List (Level ρ)} {n : Node} {k : List String}
    (hm : cur.matches rm n.name = false) (hk : k ∈ n.paths) (hne : k ≠ [n.name]) : ¬ Dead rm (cur :: p) n k := by
  intro hd
  obtain ⟨s, hs⟩ := mem_flat_of_mem_paths hk
  have := (hd _ hs (List.prefix_refl _)).2
  obtain ⟨k', rfl⟩ := paths_head hk
  cases k' with
  | nil => exact hne rfl
  | cons x xs =>
    rw [List.dropLast_cons_of_ne_nil (List.cons_ne_nil _ _)] at this
    simp [hm] at this

/-- below a visited node, deadness is deadness in the child with the rest of the pattern -/
theorem dead_child {rm : ρ → String → Bool} {cur : Level ρ} {p : List (Level ρ)} {n c : Node} {k' : List String}
    (hwf : WF n) (hm : cur.matches rm n.name = true) (hc : c ∈ n.children) (hk' : k' ∈ c.paths) :
    Dead rm (cur :: p) n (n.name :: k') ↔ Dead rm p c k' := by
  obtain ⟨k'', hk''⟩ := paths_head hk'
  constructor
  · intro hd e' he' hpre
    have hmem : (n.name :: e'.1, e'.2) ∈ n.flat := (mem_flat_iff n _).mpr (.inr ⟨c, hc, e', he', rfl⟩)
    have := hd _ hmem (by simpa using hpre)
    refine ⟨this.1, ?_⟩
    have h2 := this.2
    simp only [] at h2
    rw [List.dropLast_cons_of_ne_nil (flat_key_ne_nil he')] at h2
    simpa [hm] using h2
  · intro hd e he hpre
    rcases (mem_flat_iff n e).mp he with rfl | ⟨c2, hc2, e', he', rfl⟩
    · exfalso
      rw [hk''] at hpre
      have := hpre.length_le
      simp at this
    · simp only [List.cons_prefix_cons, true_and] at hpre
      obtain ⟨e'', he''⟩ := flat_key_head he'
      have hname : c2.name = c.name := by
        rw [hk'', he''] at hpre
        exact (List.cons_prefix_cons.mp hpre).1.symm
      have : c2 = c := unique_of_distinct hwf.children_pairwise hc2 hc hname
      subst this
      have := hd e' he' hpre
      refine ⟨this.1, ?_⟩
      simp only []
      rw [List.dropLast_cons_of_ne_nil (flat_key_ne_nil he')]
      simpa [hm] using this.2

/-- one level of shrink: children rewritten by `f` (which removes exactly the dead keys of each child), then the
empty ones erased -/
theorem shrink_step {rm : ρ → String → Bool} {cur : Level ρ} {p : List (Level ρ)} {n : Node} (hwf : WF n)
    (hm : cur.matches rm n.name = true) (f : Node → Node)
    (hfn : ∀ c, (f c).name = c.name) (hfs : ∀ c, (f c).subj = c.subj)
    (hf : ∀ c ∈ n.children, ∀ k', k' ∈ (f c).paths ↔ k' ∈ c.paths ∧ (k' = [c.name] ∨ ¬ Dead rm p c k'))
    (k : List String) :
    k ∈ (n.withChildren (eraseEmpty (n.children.map f))).paths ↔
      k ∈ n.paths ∧ (k = [n.name] ∨ ¬ Dead rm (cur :: p) n k) := by
  -- the per-child statement
  have child : ∀ c ∈ n.children, ∀ k', ((f c).isEmpty = false ∧ k' ∈ (f c).paths) ↔ (k' ∈ c.paths ∧ ¬ Dead rm p c k') := by
    intro c hc k'
    constructor
    · rintro ⟨hne, hk'⟩
      obtain ⟨hkc, hor⟩ := (hf c hc k').mp hk'
      refine ⟨hkc, ?_⟩
      rcases hor with rfl | hnd
      · intro hd
        -- dead at the child's own key: the rewritten child would be empty
        have hsub : hasSubs c.subj = false := (hd _ ((mem_flat_iff c _).mpr (.inl rfl)) (List.prefix_refl _)).1
        have hch : (f c).children = [] := by
          cases hfc : (f c).children with
          | nil => rfl
          | cons d ds =>
            exfalso
            have hdm : d ∈ (f c).children := by rw [hfc]; exact List.mem_cons_self
            have h2 := child_path_mem hdm
            rw [hfn] at h2
            obtain ⟨_, hor2⟩ := (hf c hc _).mp h2
            rcases hor2 with e | hnd2
            · simp at e
            · exact hnd2 (hd.mono (by simp))
        have : (f c).isEmpty = true := (isEmpty_iff _).mpr ⟨by rw [hfs]; exact hsub, hch⟩
        rw [this] at hne; cases hne
      · exact hnd
    · rintro ⟨hkc, hnd⟩
      refine ⟨?_, (hf c hc k').mpr ⟨hkc, .inr hnd⟩⟩
      cases hemp : (f c).isEmpty with
      | false => rfl
      | true =>
        exfalso
        obtain ⟨hsub, hch⟩ := (isEmpty_iff _).mp hemp
        rw [hfs] at hsub
        -- every other key of c is dead, so k' is dead
        apply hnd
        intro e he hpre
        by_cases h1 : e.1 = [c.name]
        · have := flat_singleton_key he h1
          refine ⟨by rw [this]; exact hsub, ?_⟩
          rw [h1]; simp
        · have hdead : Dead rm p c e.1 := by
            apply Classical.byContradiction
            intro hnd2
            have := (hf c hc e.1).mpr ⟨mem_paths_of_mem_flat he, .inr hnd2⟩
            have := paths_of_no_children hch this
            rw [hfn] at this
            exact h1 this
          exact hdead e he (List.prefix_refl _)
  constructor
  · intro hk
    rcases (mem_paths_iff _ k).mp hk with rfl | ⟨c', hc', k', hk', rfl⟩
    · have e : (n.withChildren (eraseEmpty (n.children.map f))).name = n.name := name_withChildren _ _
      rw [e]
      exact ⟨self_mem_paths n, .inl rfl⟩
    · simp only [name_withChildren, children_withChildren, eraseEmpty, List.mem_filter, List.mem_map,
        Bool.not_eq_eq_eq_not, Bool.not_true] at hc' ⊢
      obtain ⟨⟨c, hc, rfl⟩, hne⟩ := hc'
      obtain ⟨hkc, hnd⟩ := (child c hc k').mp ⟨hne, hk'⟩
      refine ⟨(mem_paths_iff n _).mpr (.inr ⟨c, hc, k', hkc, rfl⟩), .inr ?_⟩
      intro hd
      exact hnd ((dead_child hwf hm hc hkc).mp hd)
  · rintro ⟨hk, hor⟩
    rcases (mem_paths_iff n k).mp hk with rfl | ⟨c, hc, k', hk', rfl⟩
    · have := self_mem_paths (n.withChildren (eraseEmpty (n.children.map f)))
      simpa using this
    · have hnd : ¬ Dead rm (cur :: p) n (n.name :: k') := by
        rcases hor with e | h
        · exfalso
          simp only [List.cons.injEq, true_and] at e
          obtain ⟨_, hk''⟩ := paths_head hk'
          rw [hk''] at e; cases e
        · exact h
      have hndc : ¬ Dead rm p c k' := fun hd => hnd ((dead_child hwf hm hc hk').mpr hd)
      obtain ⟨hne, hkf⟩ := (child c hc k').mpr ⟨hk', hndc⟩
      refine (mem_paths_iff _ _).mpr (.inr ⟨f c, ?_, k', hkf, by simp⟩)
      simp only [children_withChildren, eraseEmpty, List.mem_filter, List.mem_map, Bool.not_eq_eq_eq_not, Bool.not_true]
      exact ⟨⟨c, hc, rfl⟩, hne⟩

/-- **what shrink removes, exactly**: a stored key other than the node's own survives iff it is not dead -/
theorem shrink_paths (rm : ρ → String → Bool) (p : List (Level ρ)) (cur : Level ρ) (n : Node) (hwf : WF n)
    (k : List String) :
    k ∈ (shrink rm p cur n).paths ↔ k ∈ n.paths ∧ (k = [n.name] ∨ ¬ Dead rm (cur :: p) n k) := by
  induction p generalizing cur n k with
  | nil =>
    cases hm : cur.matches rm n.name with
    | false =>
      rw [shrink_nomatch rm _ _ _ hm]
      constructor
      · intro hk
        refine ⟨hk, ?_⟩
        by_cases h1 : k = [n.name]
        · exact .inl h1
        · exact .inr (not_dead_of_nomatch hm hk h1)
      · exact fun h => h.1
    | true =>
      have hs : shrink rm [] cur n = n.withChildren (eraseEmpty (n.children.map id)) := by
        simp [shrink, hm]
      rw [hs]
      refine shrink_step hwf hm id (fun _ => rfl) (fun _ => rfl) ?_ k
      intro c _ k'
      simp only [id]
      constructor
      · intro hk'
        refine ⟨hk', ?_⟩
        by_cases h1 : k' = [c.name]
        · exact .inl h1
        · right
          intro hd
          obtain ⟨s, hs⟩ := mem_flat_of_mem_paths hk'
          have := (hd _ hs (List.prefix_refl _)).2
          obtain ⟨k'', rfl⟩ := paths_head hk'
          cases k'' with
          | nil => exact h1 rfl
          | cons x xs =>
            rw [List.dropLast_cons_of_ne_nil (List.cons_ne_nil _ _)] at this
            simp at this
      · exact fun h => h.1
  | cons nxt rest ih =>
    cases hm : cur.matches rm n.name with
    | false =>
      rw [shrink_nomatch rm _ _ _ hm]
      constructor
      · intro hk
        refine ⟨hk, ?_⟩
        by_cases h1 : k = [n.name]
        · exact .inl h1
        · exact .inr (not_dead_of_nomatch hm hk h1)
      · exact fun h => h.1
    | true =>
      rw [shrink_cons rm nxt rest cur n hwf]
      simp only [hm, if_true]
      exact shrink_step hwf hm _ (fun c => shrink_name rm rest nxt c) (fun c => shrink_subj rm rest nxt c)
        (fun c hc k' => ih nxt c (hwf.child hc) k') k

/-! ### the router: keys and patterns without the implicit root level -/

/-- router-level deadness: keys without the root level -/
def RDead (rm : ρ → String → Bool) (p : List (Level ρ)) (t : Node) (k : List String) : Prop :=
  ∀ e ∈ rFlat t, k <+: e.1 → hasSubs e.2 = false ∧ prefixMatch rm p e.1.dropLast = true

/-- some stored key at or below `k` has a subscription -/
def RLive (t : Node) (k : List String) : Prop :=
  ∃ e ∈ rFlat t, k <+: e.1 ∧ hasSubs e.2 = true

theorem mem_rFlat {t : Node} (k : List String) (s : Option Subj) :
    (k, s) ∈ rFlat t ↔ (t.name :: k, s) ∈ t.flat := by
  simp only [rFlat, List.mem_map]
  constructor
  · rintro ⟨e, he, heq⟩
    obtain ⟨k', hk'⟩ := flat_key_head he
    have : e = (t.name :: k, s) := by
      cases e with
      | mk e1 e2 =>
        simp only [Prod.mk.injEq] at heq
        simp only at hk'
        rw [hk'] at heq
        simp only [List.tail_cons] at heq
        rw [hk', heq.1, heq.2]
    rw [← this]; exact he
  · intro h
    exact ⟨_, h, rfl⟩

theorem mem_rKeys {t : Node} (k : List String) : k ∈ rKeys t ↔ (t.name :: k) ∈ t.paths := by
  simp only [rKeys, List.mem_map, Node.paths]
  constructor
  · rintro ⟨e, he, rfl⟩
    exact ⟨_, (mem_rFlat e.1 e.2).mp he, rfl⟩
  · rintro ⟨e, he, heq⟩
    refine ⟨(k, e.2), (mem_rFlat k e.2).mpr ?_, rfl⟩
    rw [← heq]; exact he

theorem paths_eq_map_rKeys (t : Node) : t.paths = (rKeys t).map (fun k => t.name :: k) := by
  simp only [rKeys, rFlat, Node.paths, List.map_map]
  refine List.map_congr_left (fun e he => ?_)
  obtain ⟨k', hk'⟩ := flat_key_head he
  simp [hk']

theorem rKeys_nodup (t : Node) (hwf : WF t) : (rKeys t).Nodup := by
  have := paths_nodup t hwf
  rw [paths_eq_map_rKeys] at this
  unfold List.Nodup at *
  exact List.Pairwise.of_map _ (fun a b hab e => hab (by rw [e])) this

theorem matchKey_root (rm : ρ → String → Bool) (p : List (Level ρ)) {t : Node} (hroot : t.name = "")
    {e : List String × Option Subj} (he : e ∈ t.flat) :
    matchKey rm (rootLevel :: p) e.1 = matchKey rm p e.1.tail := by
  obtain ⟨k', hk'⟩ := flat_key_head he
  rw [hk', hroot]
  simp [rootLevel]

theorem rNotify_spec {α : Type} (rm : ρ → String → Bool) (a : α) (p : List (Level ρ)) (t : Node) (hwf : WF t)
    (hroot : t.name = "") :
    (rNotify rm a p t).log = ((rFlat t).filter (fun e => matchKey rm p e.1)).flatMap (fun e => subjLog e.2 a)
    ∧ (rNotify rm a p t).count = ((rFlat t).filter (fun e => matchKey rm p e.1 && e.2.isSome)).length := by
  constructor
  · simp only [rNotify, rFlat]
    rw [notify_log rm a p _ t hwf, logU_eq_filter, List.filter_map, List.flatMap_map]
    congr 1
    exact List.filter_congr (fun e he => matchKey_root rm p hroot he)
  · simp only [rNotify, rFlat]
    rw [notify_count rm a p _ t hwf, countU_eq_filter, List.filter_map, List.length_map]
    congr 1
    refine List.filter_congr (fun e he => ?_)
    simp only [Function.comp]
    rw [matchKey_root rm p hroot he]

/-- the ids of all observers stored in the router -/
def allIds (t : Node) : List Nat := (rFlat t).flatMap (fun e => match e.2 with | none => [] | some s => s.map (·.id))

theorem sublist_flatMap_filter {α β : Type} (l : List α) (P : α → Bool) (g1 g2 : α → List β)
    (h : ∀ x, (g1 x).Sublist (g2 x)) : ((l.filter P).flatMap g1).Sublist (l.flatMap g2) := by
  induction l with
  | nil => exact List.Sublist.refl _
  | cons x l ih =>
    simp only [List.filter_cons, List.flatMap_cons]
    split
    · simp only [List.flatMap_cons]
      exact List.Sublist.append (h x) ih
    · exact List.Sublist.trans ih (List.sublist_append_right _ _)

theorem rNotify_ids_sublist {α : Type} (rm : ρ → String → Bool) (a : α) (p : List (Level ρ)) (t : Node) (hwf : WF t)
    (hroot : t.name = "") : ((rNotify rm a p t).log.map (·.1)).Sublist (allIds t) := by
  rw [(rNotify_spec rm a p t hwf hroot).1, List.map_flatMap]
  unfold allIds
  refine sublist_flatMap_filter _ _ _ _ (fun e => ?_)
  cases e.2 with
  | none => exact List.Sublist.refl _
  | some s =>
    simp only [subjLog, Subj.log, List.map_map, Function.comp_def]
    exact List.Sublist.map _ (List.filter_sublist)

theorem rDead_iff (rm : ρ → String → Bool) (p : List (Level ρ)) (t : Node) (hroot : t.name = "") (k : List String) :
    Dead rm (rootLevel :: p) t (t.name :: k) ↔ RDead rm p t k := by
  have hdl : ∀ x : List String, prefixMatch rm (rootLevel :: p) (t.name :: x).dropLast = prefixMatch rm p x.dropLast := by
    intro x
    cases x with
    | nil => simp
    | cons y ys =>
      rw [List.dropLast_cons_of_ne_nil (List.cons_ne_nil _ _), hroot]
      simp [rootLevel]
  constructor
  · intro hd e he hpre
    have hmem := (mem_rFlat e.1 e.2).mp he
    have := hd _ hmem (by simpa using hpre)
    exact ⟨this.1, by rw [← hdl]; exact this.2⟩
  · intro hd e he hpre
    obtain ⟨k', hk'⟩ := flat_key_head he
    have hmem : (k', e.2) ∈ rFlat t := (mem_rFlat k' e.2).mpr (by rw [← hk']; exact he)
    rw [hk'] at hpre
    have := hd _ hmem (by simpa using hpre)
    refine ⟨this.1, ?_⟩
    rw [hk', hdl]; exact this.2

theorem rShrink_keys (rm : ρ → String → Bool) (p : List (Level ρ)) (t : Node) (hwf : WF t) (hroot : t.name = "")
    (k : List String) :
    k ∈ rKeys (rShrink rm p t) ↔ k ∈ rKeys t ∧ (k = [] ∨ ¬ RDead rm p t k) := by
  rw [mem_rKeys, mem_rKeys]
  simp only [rShrink, shrink_name]
  rw [shrink_paths rm p rootLevel t hwf, rDead_iff rm p t hroot]
  simp

theorem RDead.not_live {rm : ρ → String → Bool} {p : List (Level ρ)} {t : Node} {k : List String}
    (h : RDead rm p t k) : ¬ RLive t k := by
  rintro ⟨e, he, hk, hl⟩
  rw [(h e he hk).1] at hl
  cases hl

theorem prefixMatch_wild (rm : ρ → String → Bool) (p : List (Level ρ)) (hw : ∀ l ∈ p, ∀ s, l.matches rm s = true)
    (k : List String) (hlen : k.length ≤ p.length) : prefixMatch rm p k = true := by
  induction p generalizing k with
  | nil => cases k with
    | nil => rfl
    | cons x xs => simp at hlen
  | cons l ls ih =>
    cases k with
    | nil => rfl
    | cons x xs =>
      simp only [prefixMatch_cons_cons, Bool.and_eq_true]
      exact ⟨hw l List.mem_cons_self x, ih (fun l' hl' => hw l' (List.mem_cons_of_mem _ hl')) xs (by simpa using hlen)⟩

theorem rKeys_length_lt_depth (t : Node) (k : List String) (hk : k ∈ rKeys t) : k.length + 1 ≤ rDepth t := by
  have := depth_bounds t _ ((mem_rKeys k).mp hk)
  simpa [rDepth] using this

theorem rDepth_attained (t : Node) : ∃ k ∈ rKeys t, rDepth t = k.length + 1 := by
  obtain ⟨k, hk, e⟩ := depth_attained t
  obtain ⟨k', rfl⟩ := paths_head hk
  exact ⟨k', (mem_rKeys k').mpr hk, by simp [rDepth, ← e]⟩

theorem rExists_iff (rm : ρ → String → Bool) (p : List (Level ρ)) (t : Node) (hwf : WF t) (hroot : t.name = "") :
    rExists rm p t = true ↔ ∃ k ∈ rKeys t, matchKey rm p k = true := by
  simp only [rExists]
  rw [nodeExists_iff rm p rootLevel t hwf]
  constructor
  · rintro ⟨k, hk, hm⟩
    obtain ⟨k', rfl⟩ := paths_head hk
    refine ⟨k', (mem_rKeys k').mpr hk, ?_⟩
    rw [hroot] at hm
    simpa [rootLevel] using hm
  · rintro ⟨k, hk, hm⟩
    refine ⟨t.name :: k, (mem_rKeys k).mp hk, ?_⟩
    rw [hroot]
    simpa [rootLevel] using hm

theorem rKeys_prefix_closed (t : Node) (k : List String) (hk : k ∈ rKeys t) : k.dropLast ∈ rKeys t := by
  cases k with
  | nil => simpa using hk
  | cons x xs =>
    rw [mem_rKeys] at hk ⊢
    have := paths_prefix_closed t _ hk (by simp)
    rwa [List.dropLast_cons_of_ne_nil (List.cons_ne_nil _ _)] at this

theorem wf_emptyRouter : WF emptyRouter := wf_fresh ""
theorem sorted_emptyRouter : Sorted emptyRouter := sorted_fresh ""

end Tulz.Router
