import Tulz.Proofs.PoolX
/-
  Termination of `ThreadPool::stop()` with expiring workers: a measure that strictly decreases with every step of the code (and
  with every spurious wake-up) while the owner is inside `stop()`, and that a clock tick leaves unchanged.  Together with
  `stop_progress` (some step is always enabled) this bounds the number of steps any execution can make before `stop()` returns.
-/
namespace TPoolX

/-- how many steps a worker can still make once the flag is cleared -/
def Pc.weight : Pc → Nat
  | .finished => 0
  | .exited => 1
  | .check => 2
  | .parked true => 2
  | .parked false => 3
  | .ran _ => 3
  | .running _ => 4

def wsWeight (ws : List Wk) : Nat := (ws.map (fun w => w.pc.weight)).sum

def ownerWeight (s : State) : Nat :=
  match s.owner with
  | .stopNotify _ => s.pool.length + 3
  | .join rem _ => rem.length + 2
  | .clearQ _ => 1
  | _ => 0

/-- the measure of `stop()` -/
def stopMeasure (s : State) : Nat := ownerWeight s + wsWeight s.ws

theorem wsWeight_set {ws : List Wk} {w : Nat} {a x : Wk} (h : ws[w]? = some a) :
    wsWeight (ws.set w x) + a.pc.weight = wsWeight ws + x.pc.weight := by
  unfold wsWeight
  induction ws generalizing w with
  | nil => simp at h
  | cons b l ih =>
    cases w with
    | zero =>
      simp at h; subst h
      simp only [List.set_cons_zero, List.map_cons, List.sum_cons]; omega
    | succ w =>
      simp at h
      have := ih h
      simp only [List.set_cons_succ, List.map_cons, List.sum_cons]; omega

theorem weight_wake_le (w : Wk) : (wakeAll w).pc.weight ≤ w.pc.weight := by
  cases w with | mk pc last =>
  cases pc with
  | parked n => cases n <;> simp [wakeAll, wakePc, Pc.weight]
  | _ => simp [wakeAll, wakePc]

theorem wsWeight_wake_le (ws : List Wk) : wsWeight (ws.map wakeAll) ≤ wsWeight ws := by
  unfold wsWeight
  induction ws with
  | nil => simp
  | cons b l ih =>
    have := weight_wake_le b
    simp only [List.map_cons, List.sum_cons]; omega

theorem awake_weight {p : Pc} (h : p.awake = true) : p.weight = 2 := by
  cases p with
  | check => rfl
  | parked n => cases n with
    | true => rfl
    | false => simp [Pc.awake] at h
  | _ => simp [Pc.awake] at h

/-- inside the final `clear()` of `stop()` every worker thread has completed -/
theorem all_finished_in_clear {s : State} (I : Inv s) {todo} (ho : s.owner = .clearQ todo) {w : Nat} {wk : Wk}
    (hw : s.ws[w]? = some wk) : wk.pc = .finished := by
  have hp := I.clearq todo ho
  have hlt : w < s.ws.length := by
    rcases Nat.lt_or_ge w s.ws.length with h | h
    · exact h
    · rw [List.getElem?_eq_none h] at hw; cases hw
  have := I.outside w hlt (by rw [hp]; simp)
  obtain ⟨wk', hw', hf⟩ := isFin_iff.1 this
  rw [hw] at hw'; cases hw'; exact hf

theorem not_awake_finished {p : Pc} (h : p = .finished) : p.awake = false := by subst h; rfl

/-- **every step of the code taken while the owner is inside `stop()` decreases the measure** -/
theorem stopMeasure_step {s t : State} (I : Inv s) (P : PInv s) (hs : inStop s.owner) (h : Step s t) :
    stopMeasure t < stopMeasure s := by
  have hrun : (∃ todo, s.owner = .stopNotify todo) ∨ (∃ rem todo, s.owner = .join rem todo) → s.running = false := P.flag
  unfold stopMeasure
  cases h with
  | start tk todo ho => rcases hs with ⟨x, h⟩ | ⟨x, y, h⟩ | ⟨x, h⟩ <;> (rw [ho] at h; cases h)
  | spawnYes todo ho hok => rcases hs with ⟨x, h⟩ | ⟨x, y, h⟩ | ⟨x, h⟩ <;> (rw [ho] at h; cases h)
  | spawnNo todo ho hok => rcases hs with ⟨x, h⟩ | ⟨x, y, h⟩ | ⟨x, h⟩ <;> (rw [ho] at h; cases h)
  | spawnFail todo ho hok => rcases hs with ⟨x, h⟩ | ⟨x, y, h⟩ | ⟨x, h⟩ <;> (rw [ho] at h; cases h)
  | notifyHit todo w wk ho hw hp => rcases hs with ⟨x, h⟩ | ⟨x, y, h⟩ | ⟨x, h⟩ <;> (rw [ho] at h; cases h)
  | notifyMiss todo ho hn => rcases hs with ⟨x, h⟩ | ⟨x, y, h⟩ | ⟨x, h⟩ <;> (rw [ho] at h; cases h)
  | clear todo ho => rcases hs with ⟨x, h⟩ | ⟨x, y, h⟩ | ⟨x, h⟩ <;> (rw [ho] at h; cases h)
  | stop todo ho => rcases hs with ⟨x, h⟩ | ⟨x, y, h⟩ | ⟨x, h⟩ <;> (rw [ho] at h; cases h)
  | updNoop todo ho ht => rcases hs with ⟨x, h⟩ | ⟨x, y, h⟩ | ⟨x, h⟩ <;> (rw [ho] at h; cases h)
  | updBegin todo T ho ht => rcases hs with ⟨x, h⟩ | ⟨x, y, h⟩ | ⟨x, h⟩ <;> (rw [ho] at h; cases h)
  | updNotify todo ho => rcases hs with ⟨x, h⟩ | ⟨x, y, h⟩ | ⟨x, h⟩ <;> (rw [ho] at h; cases h)
  | reapYes i rem todo ho hf => rcases hs with ⟨x, h⟩ | ⟨x, y, h⟩ | ⟨x, h⟩ <;> (rw [ho] at h; cases h)
  | reapNo i rem todo ho hf => rcases hs with ⟨x, h⟩ | ⟨x, y, h⟩ | ⟨x, h⟩ <;> (rw [ho] at h; cases h)
  | reapDone todo ho => rcases hs with ⟨x, h⟩ | ⟨x, y, h⟩ | ⟨x, h⟩ <;> (rw [ho] at h; cases h)
  | tick d todo ho => rcases hs with ⟨x, h⟩ | ⟨x, y, h⟩ | ⟨x, h⟩ <;> (rw [ho] at h; cases h)
  | stopNotify todo ho =>
    have := wsWeight_wake_le s.ws
    show ownerWeight { s with ws := s.ws.map wakeAll, owner := .join s.pool todo } + wsWeight (s.ws.map wakeAll) < _
    simp only [ownerWeight, ho]; omega
  | joinOne w rem todo ho hf =>
    show ownerWeight { s with owner := .join rem todo } + wsWeight s.ws < _
    simp only [ownerWeight, ho, List.length_cons]; omega
  | joinDone todo ho =>
    show ownerWeight { s with pool := [], owner := .clearQ todo } + wsWeight s.ws < _
    simp only [ownerWeight, ho, List.length_nil]; omega
  | stopClear todo ho =>
    show ownerWeight { destroyAll s with owner := .idle todo, stopped := true } + wsWeight s.ws < _
    simp only [ownerWeight, ho, destroyAll]; omega
  | workerExit w wk hw ha hr =>
    have e := wsWeight_set (x := { wk with pc := .exited }) hw
    have h2 := awake_weight ha
    have h1 : ({ wk with pc := Pc.exited } : Wk).pc.weight = 1 := rfl
    rw [h2, h1] at e
    show ownerWeight { s with ws := _ } + wsWeight (s.ws.set w { wk with pc := .exited }) < _
    have eo : ownerWeight { s with ws := s.ws.set w { wk with pc := .exited } } = ownerWeight s := rfl
    rw [eo]; omega
  | workerTake w wk tk q hw ha hr hq =>
    exfalso
    rcases hs with ⟨x, h⟩ | ⟨x, y, h⟩ | ⟨x, h⟩
    · have := hrun (Or.inl ⟨x, h⟩); rw [hr] at this; cases this
    · have := hrun (Or.inr ⟨x, y, h⟩); rw [hr] at this; cases this
    · have := not_awake_finished (all_finished_in_clear I h hw); rw [ha] at this; cases this
  | workerExpire w wk hw ha hr hq he =>
    have e := wsWeight_set (x := { wk with pc := .exited }) hw
    have h2 := awake_weight ha
    have h1 : ({ wk with pc := Pc.exited } : Wk).pc.weight = 1 := rfl
    rw [h2, h1] at e
    show ownerWeight { s with ws := _ } + wsWeight (s.ws.set w { wk with pc := .exited }) < _
    have eo : ownerWeight { s with ws := s.ws.set w { wk with pc := .exited } } = ownerWeight s := rfl
    rw [eo]; omega
  | workerPark w wk hw ha hr hq he =>
    exfalso
    rcases hs with ⟨x, h⟩ | ⟨x, y, h⟩ | ⟨x, h⟩
    · have := hrun (Or.inl ⟨x, h⟩); rw [hr] at this; cases this
    · have := hrun (Or.inr ⟨x, y, h⟩); rw [hr] at this; cases this
    · have := not_awake_finished (all_finished_in_clear I h hw); rw [ha] at this; cases this
  | workerRunEnd w wk tk hw hp =>
    have e := wsWeight_set (x := ⟨.ran tk, s.now⟩) hw
    show ownerWeight { s with ws := _, finished := _ } + wsWeight (s.ws.set w ⟨.ran tk, s.now⟩) < _
    have eo : ownerWeight { s with ws := s.ws.set w ⟨.ran tk, s.now⟩, finished := s.finished ++ [tk] } = ownerWeight s := rfl
    rw [eo]; rw [hp] at e; simp only [Pc.weight] at e; omega
  | workerDelete w wk tk hw hp =>
    have e := wsWeight_set (x := { wk with pc := .check }) hw
    show ownerWeight { s with ws := _, destroyed := _ } + wsWeight (s.ws.set w { wk with pc := .check }) < _
    have eo : ownerWeight { s with ws := s.ws.set w { wk with pc := .check }, destroyed := s.destroyed ++ [tk] } = ownerWeight s := rfl
    rw [eo]; rw [hp] at e; simp only [Pc.weight] at e; omega
  | workerFinish w wk hw hp =>
    have e := wsWeight_set (x := { wk with pc := .finished }) hw
    show ownerWeight { s with ws := _ } + wsWeight (s.ws.set w { wk with pc := .finished }) < _
    have eo : ownerWeight { s with ws := s.ws.set w { wk with pc := .finished } } = ownerWeight s := rfl
    rw [eo]; rw [hp] at e; simp only [Pc.weight] at e; omega

/-- a spurious wake-up decreases the measure as well; a clock tick leaves it unchanged -/
theorem stopMeasure_sstep {s t : State} (I : Inv s) (P : PInv s) (hs : inStop s.owner) (h : SStep s t) :
    stopMeasure t ≤ stopMeasure s ∧ ((∃ d, t = { s with now := s.now + d }) ∨ stopMeasure t < stopMeasure s) := by
  cases h with
  | code hc => have := stopMeasure_step I P hs hc; exact ⟨Nat.le_of_lt this, Or.inr this⟩
  | spurious w wk hw hp =>
    have e := wsWeight_set (x := { wk with pc := .parked true }) hw
    have : stopMeasure { s with ws := s.ws.set w { wk with pc := .parked true } } < stopMeasure s := by
      unfold stopMeasure
      have eo : ownerWeight { s with ws := s.ws.set w { wk with pc := .parked true } } = ownerWeight s := rfl
      rw [eo]; rw [hp] at e; simp only [Pc.weight] at e
      show ownerWeight s + wsWeight (s.ws.set w { wk with pc := .parked true }) < _
      omega
    exact ⟨Nat.le_of_lt this, Or.inr this⟩
  | envTick d => exact ⟨Nat.le_refl _, Or.inl ⟨d, rfl⟩⟩

/-- the owner stays inside `stop()` or has just returned from it -/
theorem inStop_step {s t : State} (hs : inStop s.owner) (h : Step s t) :
    inStop t.owner ∨ (∃ todo, t.owner = .idle todo ∧ t.stopped = true) := by
  cases h with
  | start tk todo ho => rcases hs with ⟨x, h⟩ | ⟨x, y, h⟩ | ⟨x, h⟩ <;> (rw [ho] at h; cases h)
  | spawnYes todo ho hok => rcases hs with ⟨x, h⟩ | ⟨x, y, h⟩ | ⟨x, h⟩ <;> (rw [ho] at h; cases h)
  | spawnNo todo ho hok => rcases hs with ⟨x, h⟩ | ⟨x, y, h⟩ | ⟨x, h⟩ <;> (rw [ho] at h; cases h)
  | spawnFail todo ho hok => rcases hs with ⟨x, h⟩ | ⟨x, y, h⟩ | ⟨x, h⟩ <;> (rw [ho] at h; cases h)
  | notifyHit todo w wk ho hw hp => rcases hs with ⟨x, h⟩ | ⟨x, y, h⟩ | ⟨x, h⟩ <;> (rw [ho] at h; cases h)
  | notifyMiss todo ho hn => rcases hs with ⟨x, h⟩ | ⟨x, y, h⟩ | ⟨x, h⟩ <;> (rw [ho] at h; cases h)
  | clear todo ho => rcases hs with ⟨x, h⟩ | ⟨x, y, h⟩ | ⟨x, h⟩ <;> (rw [ho] at h; cases h)
  | stop todo ho => rcases hs with ⟨x, h⟩ | ⟨x, y, h⟩ | ⟨x, h⟩ <;> (rw [ho] at h; cases h)
  | updNoop todo ho ht => rcases hs with ⟨x, h⟩ | ⟨x, y, h⟩ | ⟨x, h⟩ <;> (rw [ho] at h; cases h)
  | updBegin todo T ho ht => rcases hs with ⟨x, h⟩ | ⟨x, y, h⟩ | ⟨x, h⟩ <;> (rw [ho] at h; cases h)
  | updNotify todo ho => rcases hs with ⟨x, h⟩ | ⟨x, y, h⟩ | ⟨x, h⟩ <;> (rw [ho] at h; cases h)
  | reapYes i rem todo ho hf => rcases hs with ⟨x, h⟩ | ⟨x, y, h⟩ | ⟨x, h⟩ <;> (rw [ho] at h; cases h)
  | reapNo i rem todo ho hf => rcases hs with ⟨x, h⟩ | ⟨x, y, h⟩ | ⟨x, h⟩ <;> (rw [ho] at h; cases h)
  | reapDone todo ho => rcases hs with ⟨x, h⟩ | ⟨x, y, h⟩ | ⟨x, h⟩ <;> (rw [ho] at h; cases h)
  | tick d todo ho => rcases hs with ⟨x, h⟩ | ⟨x, y, h⟩ | ⟨x, h⟩ <;> (rw [ho] at h; cases h)
  | stopNotify todo ho => exact Or.inl (Or.inr (Or.inl ⟨_, _, rfl⟩))
  | joinOne w rem todo ho hf => exact Or.inl (Or.inr (Or.inl ⟨_, _, rfl⟩))
  | joinDone todo ho => exact Or.inl (Or.inr (Or.inr ⟨_, rfl⟩))
  | stopClear todo ho => exact Or.inr ⟨todo, rfl, rfl⟩
  | workerExit w wk hw ha hr => exact Or.inl hs
  | workerTake w wk tk q hw ha hr hq => exact Or.inl hs
  | workerExpire w wk hw ha hr hq he => exact Or.inl hs
  | workerPark w wk hw ha hr hq he => exact Or.inl hs
  | workerRunEnd w wk tk hw hp => exact Or.inl hs
  | workerDelete w wk tk hw hp => exact Or.inl hs
  | workerFinish w wk hw hp => exact Or.inl hs

/-- a run of `n` code steps during which the owner is inside `stop()` before every step -/
inductive StopRun : State → Nat → State → Prop
  | refl (s) : StopRun s 0 s
  | step {s t u n} : inStop s.owner → Step s t → StopRun t n u → StopRun s (n + 1) u

/-- **`stop()` returns**: from a reachable state in which the owner is inside `stop()`, no execution makes more than
    `stopMeasure s` steps of the code before `stop()` has returned — and by `stop_progress` a step is always possible until then.
    (Clock ticks do not count and do not change the measure; spurious wake-ups decrease it too: `stopMeasure_sstep`.) -/
theorem stop_bounded {max timeout prog} {s u : State} {n : Nat} (h : Reach max timeout prog s) (r : StopRun s n u) :
    n + stopMeasure u ≤ stopMeasure s := by
  induction r with
  | refl s => simp
  | step hs hst _ ih =>
    have hlt := stopMeasure_step (reach_inv h).1 (reach_pinv h) hs hst
    have := ih (h.code hst)
    omega

end TPoolX
