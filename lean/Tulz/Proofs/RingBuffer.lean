import Tulz.Model.RingBufferStore
/-
  Helper lemmas for C04 / C09: the representation invariant `Rep b xs` ("buffer `b` holds exactly
  the values `xs`, in order, and nothing else is alive in its block") is established by the
  constructors and preserved by every member, each member succeeds (no error) under the
  documented precondition and returns what the bounded deque returns.
-/
namespace Tulz
namespace RB
variable {α : Type}

/-! ### index arithmetic -/

theorem phys_cases' {pos cap : Nat} (hp : pos < cap) (i : Nat) (hi : i ≤ cap) :
    (pos + i) % cap = if pos + i < cap then pos + i else pos + i - cap := by
  split
  · rename_i hlt; exact Nat.mod_eq_of_lt hlt
  · rename_i hge
    rw [Nat.mod_eq_sub_mod (by omega)]
    exact Nat.mod_eq_of_lt (by omega)

/-- the representation invariant -/
structure Rep (b : RB α) (xs : List α) : Prop where
  len_eq : xs.length = b.size
  size_le : b.size ≤ b.cap
  data_len : b.data.length = b.cap
  pos_lt : 0 < b.cap → b.pos < b.cap
  pos_z : b.cap = 0 → b.pos = 0
  live : ∀ i (h : i < xs.length), b.data[b.phys i]? = some (.live xs[i])
  dead : ∀ i, b.size ≤ i → i < b.cap → ∀ v, b.data[b.phys i]? ≠ some (.live v)

theorem Rep.phys_eq {b : RB α} {xs} (h : Rep b xs) (i : Nat) (hi : i ≤ b.cap) (hc : 0 < b.cap) :
    b.phys i = if b.pos + i < b.cap then b.pos + i else b.pos + i - b.cap :=
  phys_cases' (h.pos_lt hc) i hi

theorem Rep.phys_lt {b : RB α} {xs} (_h : Rep b xs) (i : Nat) (hc : 0 < b.cap) : b.phys i < b.cap :=
  Nat.mod_lt _ hc

theorem Rep.phys_inj {b : RB α} {xs} (h : Rep b xs) {i j : Nat} (hi : i < b.cap) (hj : j < b.cap)
    (e : b.phys i = b.phys j) : i = j := by
  have hc : 0 < b.cap := by omega
  have hp := h.pos_lt hc
  rw [h.phys_eq i (by omega) hc, h.phys_eq j (by omega) hc] at e
  split at e <;> split at e <;> omega

/-- every physical slot is the image of a logical index -/
theorem Rep.phys_surj {b : RB α} {xs} (h : Rep b xs) {j : Nat} (hj : j < b.cap) :
    ∃ i, i < b.cap ∧ b.phys i = j := by
  have hc : 0 < b.cap := by omega
  have hp := h.pos_lt hc
  by_cases hge : b.pos ≤ j
  · refine ⟨j - b.pos, by omega, ?_⟩
    rw [h.phys_eq _ (by omega) hc]; split <;> omega
  · refine ⟨j + b.cap - b.pos, by omega, ?_⟩
    rw [h.phys_eq _ (by omega) hc]; split <;> omega

theorem Rep.slot_some {b : RB α} {xs} (h : Rep b xs) (i : Nat) (hc : 0 < b.cap) :
    ∃ s, b.data[b.phys i]? = some s := by
  have : b.phys i < b.data.length := by rw [h.data_len]; exact h.phys_lt i hc
  exact ⟨b.data[b.phys i], List.getElem?_eq_getElem this⟩

/-- a dead slot is raw or a shell -/
theorem Rep.dead_slot {b : RB α} {xs} (h : Rep b xs) (i : Nat) (hs : b.size ≤ i) (hi : i < b.cap) :
    b.data[b.phys i]? = some .raw ∨ b.data[b.phys i]? = some .shell := by
  obtain ⟨s, hs'⟩ := h.slot_some i (by omega)
  cases s with
  | raw => exact Or.inl hs'
  | shell => exact Or.inr hs'
  | live v => exact absurd hs' (h.dead i hs hi v)

/-! ### the memory primitives on known slots -/

theorem read_live {d : List (Slot α)} {i : Nat} {v : α} (h : d[i]? = some (.live v)) : Mem.read d i = .ok v := by
  simp [Mem.read, h]; rfl

theorem construct_dead {d : List (Slot α)} {i : Nat} (v : α)
    (h : d[i]? = some .raw ∨ d[i]? = some .shell) : Mem.construct d i v = .ok (d.set i (.live v)) := by
  rcases h with h | h <;> simp [Mem.construct, h] <;> rfl

theorem assign_live {d : List (Slot α)} {i : Nat} {w : α} (v : α)
    (h : d[i]? = some (.live w)) : Mem.assign d i v = .ok (d.set i (.live v)) := by
  simp [Mem.assign, h]; rfl

theorem moveOut_live {d : List (Slot α)} {i : Nat} {v : α}
    (h : d[i]? = some (.live v)) : Mem.moveOut d i = .ok (v, d.set i .shell) := by
  simp [Mem.moveOut, h]; rfl

theorem destroy_live {d : List (Slot α)} {i : Nat} {v : α}
    (h : d[i]? = some (.live v)) : Mem.destroy d i = .ok (d.set i .raw) := by
  simp [Mem.destroy, h]; rfl

/-! ### constructors -/

theorem rep_new (cap : Nat) : Rep (RB.new cap : RB α) [] where
  len_eq := rfl
  size_le := Nat.zero_le _
  data_len := by simp [RB.new, Mem.alloc]
  pos_lt := fun h => h
  pos_z := fun _ => rfl
  live := fun i h => absurd h (Nat.not_lt_zero _)
  dead := by
    intro i _ hi v
    have hi' : i < cap := hi
    have hlt : (0 + i) % cap < cap := Nat.mod_lt _ (by omega)
    simp only [RB.new, RB.phys, Mem.alloc, List.getElem?_replicate, hlt, if_true]
    intro e; cases e

theorem rep_zombie : Rep (RB.zombie : RB α) [] where
  len_eq := rfl
  size_le := Nat.le_refl _
  data_len := rfl
  pos_lt := fun h => h
  pos_z := fun _ => rfl
  live := fun _ h => absurd h (Nat.not_lt_zero _)
  dead := fun _ _ hi => absurd hi (Nat.not_lt_zero _)

/-- `constructAll` into a block whose tail is raw -/
theorem constructAll_raw (pre : List (Slot α)) (vs : List α) (n : Nat) (hn : vs.length ≤ n) :
    constructAll (pre ++ List.replicate n .raw) pre.length vs
      = .ok (pre ++ vs.map .live ++ List.replicate (n - vs.length) .raw) := by
  induction vs generalizing pre n with
  | nil => simp [constructAll]; rfl
  | cons v vs ih =>
    simp only [List.length_cons] at hn
    obtain ⟨m, rfl⟩ : ∃ m, n = m + 1 := ⟨n - 1, by omega⟩
    have hget : (pre ++ List.replicate (m + 1) Slot.raw)[pre.length]? = some (Slot.raw : Slot α) := by
      rw [List.getElem?_append_right (Nat.le_refl _)]; simp [List.replicate_succ]
    have hset : (pre ++ List.replicate (m + 1) (Slot.raw : Slot α)).set pre.length (.live v)
        = (pre ++ [Slot.live v]) ++ List.replicate m .raw := by
      rw [List.set_append_right _ _ (Nat.le_refl _)]; simp [List.replicate_succ]
    simp only [constructAll, construct_dead v (Or.inl hget), hset]
    have := ih (pre ++ [Slot.live v]) m (by omega)
    simp only [List.length_append, List.length_cons, List.length_nil] at this
    show (do let d' ← (Except.ok (pre ++ [Slot.live v] ++ List.replicate m Slot.raw) : M _); constructAll d' (pre.length + 1) vs) = _
    simp only [Except.bind, bind, this]
    simp [List.append_assoc]

/-- a freshly filled linear block represents its values -/
theorem rep_linear (vs : List α) (cap : Nat) (hn : vs.length ≤ cap) (junk : List (Slot α))
    (hj : junk.length = cap - vs.length) (hdead : ∀ s ∈ junk, ∀ v, s ≠ .live v) :
    Rep ⟨0, vs.length, cap, vs.map .live ++ junk⟩ vs where
  len_eq := rfl
  size_le := hn
  data_len := by simp [hj]; omega
  pos_lt := fun h => h
  pos_z := fun _ => rfl
  live := by
    intro i h
    have : (0 + i) % cap = i := by rw [Nat.zero_add]; exact Nat.mod_eq_of_lt (by omega)
    simp only [RB.phys, this]
    rw [List.getElem?_append_left (by simp; exact h)]
    simp [h]
  dead := by
    intro i hs hi v
    have : (0 + i) % cap = i := by rw [Nat.zero_add]; exact Nat.mod_eq_of_lt hi
    simp only [RB.phys, this]
    rw [List.getElem?_append_right (by simp; exact hs)]
    intro e
    have hm := List.mem_of_getElem? e
    exact hdead _ hm v rfl

theorem ofList_ok (vs : List α) (capacity : Option Nat) (hc : ∀ c, capacity = some c → vs.length ≤ c) :
    ∃ b, RB.ofList vs capacity = .ok b ∧ Rep b vs ∧ b.cap = capacity.getD vs.length := by
  cases capacity with
  | none =>
    have h := constructAll_raw ([] : List (Slot α)) vs vs.length (Nat.le_refl _)
    simp only [List.nil_append, List.length_nil, Nat.sub_self, List.replicate_zero, List.append_nil] at h
    refine ⟨⟨0, vs.length, vs.length, vs.map .live⟩, ?_, ?_, rfl⟩
    · simp only [RB.ofList, Mem.alloc]; rw [h]; rfl
    · have := rep_linear vs vs.length (Nat.le_refl _) [] (by simp) (by simp)
      simpa using this
  | some c =>
    have hle := hc c rfl
    have h := constructAll_raw ([] : List (Slot α)) vs c hle
    simp only [List.nil_append, List.length_nil] at h
    refine ⟨⟨0, vs.length, c, vs.map .live ++ List.replicate (c - vs.length) .raw⟩, ?_, ?_, rfl⟩
    · simp only [RB.ofList, Mem.alloc]; rw [h]; rfl
    · exact rep_linear vs c hle _ (by simp) (by intro s hs v; simp [List.mem_replicate] at hs; simp [hs.2])

/-! ### reads -/

theorem get_ok {b : RB α} {xs} (h : Rep b xs) (i : Nat) (hi : i < xs.length) : b.get i = .ok xs[i] :=
  read_live (h.live i hi)

theorem readRange_ok {b : RB α} {xs} (h : Rep b xs) (n frm : Nat) (hle : frm + n ≤ xs.length) :
    b.readRange frm n = .ok ((xs.drop frm).take n) := by
  induction n generalizing frm with
  | zero => simp [readRange]; rfl
  | succ n ih =>
    have hf : frm < xs.length := by omega
    simp only [readRange, get_ok h frm hf, ih (frm + 1) (by omega)]
    show Except.ok (xs[frm] :: (xs.drop (frm + 1)).take n) = _
    rw [List.drop_eq_getElem_cons hf, List.take_succ_cons]

theorem toList_ok {b : RB α} {xs} (h : Rep b xs) : b.toList = .ok xs := by
  have := readRange_ok h b.size 0 (by rw [h.len_eq]; omega)
  simp only [List.drop_zero, ← h.len_eq, List.take_length] at this
  simpa [RB.toList, ← h.len_eq] using this

theorem front_ok {b : RB α} {xs} (h : Rep b xs) (hne : xs ≠ []) : b.front = .ok (xs.head hne) := by
  have hl : 0 < xs.length := List.length_pos_iff.mpr hne
  have hs : b.size ≠ 0 := by rw [← h.len_eq]; omega
  simp only [RB.front, hs, if_false, get_ok h 0 hl]
  congr 1
  cases xs with
  | nil => exact absurd rfl hne
  | cons x xs => rfl

theorem back_ok {b : RB α} {xs} (h : Rep b xs) (hne : xs ≠ []) : b.back = .ok (xs.getLast hne) := by
  have hl : 0 < xs.length := List.length_pos_iff.mpr hne
  have hs : b.size ≠ 0 := by rw [← h.len_eq]; omega
  have hi : b.size - 1 < xs.length := by rw [h.len_eq]; omega
  simp only [RB.back, hs, if_false, get_ok h (b.size - 1) hi]
  congr 1
  rw [List.getLast_eq_getElem]
  congr 1
  rw [h.len_eq]

end RB
end Tulz
