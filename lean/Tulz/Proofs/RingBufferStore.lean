import Tulz.Proofs.RingBufferResize
/-
  The simulation between the slot-level store and the bounded-deque store: every valid operation
  succeeds on the model, returns the deque's answer and re-establishes the relation.
-/
namespace Tulz
variable {α : Type}

def EntRel (a : Nat × Bool × RB α) (c : Nat × Bool × Deque α) : Prop :=
  a.1 = c.1 ∧ a.2.1 = c.2.1 ∧ RB.Rep a.2.2 c.2.2.items ∧ a.2.2.cap = c.2.2.cap

/-- pointwise relation between two lists (core Lean has no `Forall₂`) -/
inductive Rel2 {β γ : Type} (R : β → γ → Prop) : List β → List γ → Prop where
  | nil : Rel2 R [] []
  | cons {a c as cs} : R a c → Rel2 R as cs → Rel2 R (a :: as) (c :: cs)

/-- the slot-level store represents the deque store, entry by entry -/
def StoreRep (s : RbStore α) (t : DqStore α) : Prop := Rel2 EntRel s t

namespace StoreRep

theorem find_none {s : RbStore α} {t : DqStore α} (h : StoreRep s t) (id : Nat) (hn : t.find id = none) :
    s.find id = none := by
  induction h with
  | nil => rfl
  | @cons a c s' t' hab _ ih =>
    obtain ⟨h1, -, -, -⟩ := hab
    simp only [Assoc.find, List.find?_cons] at hn ⊢
    rw [h1]
    cases he : (c.1 == id) with
    | true => simp [he] at hn
    | false =>
      simp only [he] at hn ⊢
      exact ih hn

theorem find_some {s : RbStore α} {t : DqStore α} (h : StoreRep s t) (id : Nat) (ow : Bool) (d : Deque α)
    (hf : t.find id = some (ow, d)) : ∃ b, s.find id = some (ow, b) ∧ RB.Rep b d.items ∧ b.cap = d.cap := by
  induction h with
  | nil => simp [Assoc.find] at hf
  | @cons a c s' t' hab _ ih =>
    obtain ⟨h1, h2, h3, h4⟩ := hab
    simp only [Assoc.find, List.find?_cons] at hf ⊢
    rw [h1]
    cases he : (c.1 == id) with
    | true =>
      simp only [he, Option.map_some, Option.some.injEq] at hf ⊢
      have e1 : c.2.1 = ow := by rw [hf]
      have e2 : c.2.2 = d := by rw [hf]
      refine ⟨a.2.2, ?_, ?_, ?_⟩
      · rw [← e1, ← h2]
      · rw [← e2]; exact h3
      · rw [← e2]; exact h4
    | false =>
      simp only [he] at hf ⊢
      exact ih hf

theorem put {s : RbStore α} {t : DqStore α} (h : StoreRep s t) (id : Nat) (ow : Bool) (b : RB α) (d : Deque α)
    (hr : RB.Rep b d.items) (hc : b.cap = d.cap) : StoreRep (s.put id (ow, b)) (t.put id (ow, d)) := by
  induction h with
  | nil => exact Rel2.cons ⟨rfl, rfl, hr, hc⟩ Rel2.nil
  | @cons a c s' t' hab hrest ih =>
    obtain ⟨h1, h2, h3, h4⟩ := hab
    simp only [Assoc.put]
    rw [h1]
    cases he : (c.1 == id) with
    | true =>
      simp only [if_true]
      exact Rel2.cons ⟨rfl, rfl, hr, hc⟩ hrest
    | false =>
      simp only [Bool.false_eq_true, if_false]
      exact Rel2.cons ⟨h1, h2, h3, h4⟩ ih

theorem del {s : RbStore α} {t : DqStore α} (h : StoreRep s t) (id : Nat) : StoreRep (s.del id) (t.del id) := by
  induction h with
  | nil => exact Rel2.nil
  | @cons a c s' t' hab hrest ih =>
    obtain ⟨h1, h2, h3, h4⟩ := hab
    simp only [Assoc.del, List.filter_cons]
    rw [h1]
    cases he : (c.1 == id) with
    | true =>
      simp only [Bool.not_true, Bool.false_eq_true, if_false]
      exact ih
    | false =>
      simp only [Bool.not_false, if_true]
      exact Rel2.cons ⟨h1, h2, h3, h4⟩ ih

end StoreRep

theorem need_of_find {s : RbStore α} {id : Nat} {e : Bool × RB α} (h : s.find id = some e) : RbStore.need s id = .ok e := by
  simp [RbStore.need, h]; rfl

theorem fresh_of_find {s : RbStore α} {id : Nat} (h : s.find id = none) : RbStore.fresh s id = .ok () := by
  simp [RbStore.fresh, h]; rfl

/-- **one-step refinement**: a valid operation never fails on the slot model, answers like the bounded deque,
    and the new stores are again related -/
theorem step_refines [DecidableEq α] {s : RbStore α} {t : DqStore α} (h : StoreRep s t) (op : RbOp α)
    (hv : DqStore.valid t op) :
    ∃ s', RbStore.step s op = .ok (s', (DqStore.step t op).2) ∧ StoreRep s' (DqStore.step t op).1 := by
  cases op with
  | new id cap ow =>
    obtain ⟨hn, _⟩ := hv
    refine ⟨s.put id (ow, RB.new cap), ?_, ?_⟩
    · simp [RbStore.step, fresh_of_find (h.find_none id hn), bind, Except.bind, pure, Except.pure, DqStore.step]
    · exact h.put id ow _ ⟨cap, []⟩ (RB.rep_new cap) rfl
  | init id ow cap vs =>
    obtain ⟨hn, _, hcap⟩ := hv
    obtain ⟨b, hb, hrep, hbc⟩ := RB.ofList_ok vs cap hcap
    refine ⟨s.put id (ow, b), ?_, ?_⟩
    · simp [RbStore.step, fresh_of_find (h.find_none id hn), hb, bind, Except.bind, pure, Except.pure, DqStore.step]
    · exact h.put id ow b ⟨cap.getD vs.length, vs⟩ hrep hbc
  | pushBack id x =>
    obtain ⟨ow, d, hf, hc1, hpre⟩ := hv
    obtain ⟨b, hbf, hrep, hcap⟩ := h.find_some id ow d hf
    obtain ⟨b', hb', hrep', hcap'⟩ := RB.emplaceBack_ok ow x hrep (by omega)
      (by rcases hpre with h1 | h1; exact Or.inl h1; right; rw [← hrep.len_eq, hcap]; exact h1)
    refine ⟨s.put id (ow, b'), ?_, ?_⟩
    · simp [RbStore.step, need_of_find hbf, hb', bind, Except.bind, pure, Except.pure, DqStore.step, hf]
    · simp only [DqStore.step, hf]
      refine h.put id ow b' _ ?_ ?_
      · rw [hcap] at hrep'; exact hrep'
      · rw [hcap', hcap]; simp only [Deque.pushBack]; split <;> rfl
  | pushFront id x =>
    obtain ⟨ow, d, hf, hc1, hpre⟩ := hv
    obtain ⟨b, hbf, hrep, hcap⟩ := h.find_some id ow d hf
    obtain ⟨b', hb', hrep', hcap'⟩ := RB.emplaceFront_ok ow x hrep (by omega)
      (by rcases hpre with h1 | h1; exact Or.inl h1; right; rw [← hrep.len_eq, hcap]; exact h1)
    refine ⟨s.put id (ow, b'), ?_, ?_⟩
    · simp [RbStore.step, need_of_find hbf, hb', bind, Except.bind, pure, Except.pure, DqStore.step, hf]
    · simp only [DqStore.step, hf]
      refine h.put id ow b' _ ?_ ?_
      · rw [hcap] at hrep'; exact hrep'
      · rw [hcap', hcap]; simp only [Deque.pushFront]; split <;> rfl
  | popBack id =>
    obtain ⟨ow, d, hf, hne⟩ := hv
    obtain ⟨b, hbf, hrep, hcap⟩ := h.find_some id ow d hf
    obtain ⟨b', hb', hrep', hcap'⟩ := RB.popBack_ok hrep hne
    have hl : d.items.getLast? = some (d.items.getLast hne) := List.getLast?_eq_some_getLast hne
    refine ⟨s.put id (ow, b'), ?_, ?_⟩
    · simp [RbStore.step, need_of_find hbf, hb', bind, Except.bind, pure, Except.pure, DqStore.step, hf, hl]
    · simp only [DqStore.step, hf, hl]
      exact h.put id ow b' _ hrep' (by rw [hcap', hcap]; rfl)
  | popFront id =>
    obtain ⟨ow, d, hf, hne⟩ := hv
    obtain ⟨b, hbf, hrep, hcap⟩ := h.find_some id ow d hf
    obtain ⟨b', hb', hrep', hcap'⟩ := RB.popFront_ok hrep hne
    have hl : d.items.head? = some (d.items.head hne) := List.head?_eq_some_head hne
    refine ⟨s.put id (ow, b'), ?_, ?_⟩
    · simp [RbStore.step, need_of_find hbf, hb', bind, Except.bind, pure, Except.pure, DqStore.step, hf, hl]
    · simp only [DqStore.step, hf, hl]
      exact h.put id ow b' _ hrep' (by rw [hcap', hcap]; rfl)
  | front id =>
    obtain ⟨ow, d, hf, hne⟩ := hv
    obtain ⟨b, hbf, hrep, hcap⟩ := h.find_some id ow d hf
    have hl : d.items.head? = some (d.items.head hne) := List.head?_eq_some_head hne
    refine ⟨s, ?_, ?_⟩
    · simp [RbStore.step, need_of_find hbf, RB.front_ok hrep hne, bind, Except.bind, pure, Except.pure, DqStore.step, hf, hl]
    · simp only [DqStore.step, hf]; exact h
  | back id =>
    obtain ⟨ow, d, hf, hne⟩ := hv
    obtain ⟨b, hbf, hrep, hcap⟩ := h.find_some id ow d hf
    have hl : d.items.getLast? = some (d.items.getLast hne) := List.getLast?_eq_some_getLast hne
    refine ⟨s, ?_, ?_⟩
    · simp [RbStore.step, need_of_find hbf, RB.back_ok hrep hne, bind, Except.bind, pure, Except.pure, DqStore.step, hf, hl]
    · simp only [DqStore.step, hf]; exact h
  | get id i =>
    obtain ⟨ow, d, hf, hi⟩ := hv
    obtain ⟨b, hbf, hrep, hcap⟩ := h.find_some id ow d hf
    refine ⟨s, ?_, ?_⟩
    · simp [RbStore.step, need_of_find hbf, RB.get_ok hrep i hi, bind, Except.bind, pure, Except.pure, DqStore.step, hf,
        List.getElem?_eq_getElem hi]
    · simp only [DqStore.step, hf]; exact h
  | iter id =>
    obtain ⟨⟨ow, d⟩, hf⟩ := hv
    obtain ⟨b, hbf, hrep, hcap⟩ := h.find_some id ow d hf
    refine ⟨s, ?_, ?_⟩
    · simp [RbStore.step, need_of_find hbf, RB.toList_ok hrep, bind, Except.bind, pure, Except.pure, DqStore.step, hf]
    · simp only [DqStore.step, hf]; exact h
  | size id =>
    obtain ⟨⟨ow, d⟩, hf⟩ := hv
    obtain ⟨b, hbf, hrep, hcap⟩ := h.find_some id ow d hf
    refine ⟨s, ?_, ?_⟩
    · simp [RbStore.step, need_of_find hbf, bind, Except.bind, pure, Except.pure, DqStore.step, hf, hrep.len_eq]
    · simp only [DqStore.step, hf]; exact h
  | capacity id =>
    obtain ⟨⟨ow, d⟩, hf⟩ := hv
    obtain ⟨b, hbf, hrep, hcap⟩ := h.find_some id ow d hf
    refine ⟨s, ?_, ?_⟩
    · simp [RbStore.step, need_of_find hbf, bind, Except.bind, pure, Except.pure, DqStore.step, hf, hcap]
    · simp only [DqStore.step, hf]; exact h
  | resize id nc =>
    obtain ⟨ow, d, hf, hc1, hnc⟩ := hv
    obtain ⟨b, hbf, hrep, hcap⟩ := h.find_some id ow d hf
    obtain ⟨b', k, hb', hrep', hcap'⟩ := RB.resize_ok hrep (by omega) nc (by omega)
    refine ⟨s.put id (ow, b'), ?_, ?_⟩
    · simp [RbStore.step, need_of_find hbf, hb', bind, Except.bind, pure, Except.pure, DqStore.step, hf]
    · simp only [DqStore.step, hf]
      exact h.put id ow b' (d.resize nc) hrep' hcap'
  | copy dst src =>
    obtain ⟨hn, ⟨ow, d⟩, hf⟩ := hv
    obtain ⟨b, hbf, hrep, hcap⟩ := h.find_some src ow d hf
    obtain ⟨c, hc, hrepc, hcapc⟩ := RB.copyFrom_ok hrep
    refine ⟨s.put dst (ow, c), ?_, ?_⟩
    · simp [RbStore.step, fresh_of_find (h.find_none dst hn), need_of_find hbf, hc, bind, Except.bind, pure, Except.pure,
        DqStore.step, hf]
    · simp only [DqStore.step, hf]
      exact h.put dst ow c d hrepc (by rw [hcapc, hcap])
  | cassign dst src =>
    obtain ⟨⟨⟨owd, dd⟩, hfd⟩, ⟨ows, ds⟩, hfs⟩ := hv
    obtain ⟨bd, hbd, hrepd, hcapd⟩ := h.find_some dst owd dd hfd
    obtain ⟨bs, hbs, hreps, hcaps⟩ := h.find_some src ows ds hfs
    by_cases he : dst = src
    · refine ⟨s, ?_, ?_⟩
      · simp [RbStore.step, need_of_find hbd, need_of_find hbs, he, bind, Except.bind, pure, Except.pure, DqStore.step, hfd, hfs]
      · simp only [DqStore.step, hfd, hfs, he, if_true]; exact h
    · obtain ⟨c, hc, hrepc, hcapc⟩ := RB.copyAssign_ok hrepd hreps
      refine ⟨s.put dst (owd, c), ?_, ?_⟩
      · simp [RbStore.step, need_of_find hbd, need_of_find hbs, he, hc, bind, Except.bind, pure, Except.pure, DqStore.step,
          hfd, hfs]
      · simp only [DqStore.step, hfd, hfs, he, if_false]
        exact h.put dst owd c ds hrepc (by rw [hcapc, hcaps])
  | mctor dst src =>
    obtain ⟨hn, ⟨ow, d⟩, hf⟩ := hv
    obtain ⟨b, hbf, hrep, hcap⟩ := h.find_some src ow d hf
    refine ⟨(s.put src (ow, RB.zombie)).put dst (ow, b), ?_, ?_⟩
    · simp [RbStore.step, fresh_of_find (h.find_none dst hn), need_of_find hbf, bind, Except.bind, pure, Except.pure,
        DqStore.step, hf]
    · simp only [DqStore.step, hf]
      exact (h.put src ow RB.zombie ⟨0, []⟩ RB.rep_zombie rfl).put dst ow b d hrep hcap
  | massign dst src =>
    obtain ⟨⟨⟨owd, dd⟩, hfd⟩, ⟨ows, ds⟩, hfs⟩ := hv
    obtain ⟨bd, hbd, hrepd, hcapd⟩ := h.find_some dst owd dd hfd
    obtain ⟨bs, hbs, hreps, hcaps⟩ := h.find_some src ows ds hfs
    by_cases he : dst = src
    · refine ⟨s, ?_, ?_⟩
      · simp [RbStore.step, need_of_find hbd, need_of_find hbs, he, bind, Except.bind, pure, Except.pure, DqStore.step, hfd, hfs]
      · simp only [DqStore.step, hfd, hfs, he, if_true]; exact h
    · refine ⟨(s.put dst (owd, bs)).put src (ows, bd), ?_, ?_⟩
      · simp [RbStore.step, need_of_find hbd, need_of_find hbs, he, bind, Except.bind, pure, Except.pure, DqStore.step,
          hfd, hfs]
      · simp only [DqStore.step, hfd, hfs, he, if_false]
        exact (h.put dst owd bs ds hreps hcaps).put src ows bd dd hrepd hcapd
  | eq a b =>
    obtain ⟨⟨⟨owa, da⟩, hfa⟩, ⟨owb, db⟩, hfb⟩ := hv
    obtain ⟨ba, hba, hrepa, -⟩ := h.find_some a owa da hfa
    obtain ⟨bb, hbb, hrepb, -⟩ := h.find_some b owb db hfb
    refine ⟨s, ?_, ?_⟩
    · simp [RbStore.step, need_of_find hba, need_of_find hbb, RB.eq_ok hrepa hrepb, bind, Except.bind, pure, Except.pure,
        DqStore.step, hfa, hfb]
    · simp only [DqStore.step, hfa, hfb]; exact h
  | drop id =>
    obtain ⟨⟨ow, d⟩, hf⟩ := hv
    obtain ⟨b, hbf, hrep, hcap⟩ := h.find_some id ow d hf
    obtain ⟨d', hd', -⟩ := RB.destroyAll_ok hrep
    refine ⟨s.del id, ?_, ?_⟩
    · simp [RbStore.step, need_of_find hbf, hd', bind, Except.bind, pure, Except.pure, DqStore.step]
    · simp only [DqStore.step]; exact h.del id

end Tulz
