import Tulz.Proofs.Subject
/-
  The shape of one notification round:
  * `turn_*`         who is called at its turn, for arbitrary callbacks (C10)
  * `round_plain`    the whole call log when callbacks only log (C05, C16)
-/
namespace Tulz.Subject
variable {α : Type}

theorem calls_append (a b : List (Ev α)) : calls (a ++ b) = calls a ++ calls b := by
  induction a with
  | nil => rfl
  | cons e a ih => cases e <;> simp [calls, ih]

theorem calls_frees (g : List Nat) : calls (g.map (Ev.free : Nat → Ev α)) = [] := by
  induction g with
  | nil => rfl
  | cons x g ih => simp [calls, ih]

/-- called at its turn: subscribed, valid and not muted in the state the round has reached -/
def Eligible (w : World α) (i : Nat) : Prop :=
  i ∈ w.active ∧ ∃ o ∈ w.obs, o.id = i ∧ o.valid = true ∧ o.muted = false

theorem unsubById_trace (w : World α) (i : Nat) :
    ∃ evs, (w.unsubscribeById i).trace = w.trace ++ evs ∧ calls evs = [] := by
  unfold World.unsubscribeById
  cases w.obs.find? (fun o => o.id == i) with
  | none => exact ⟨[], by simp, rfl⟩
  | some o =>
    simp only []
    by_cases hd : 0 < w.depth
    · rw [if_pos hd]; exact ⟨[], by simp, rfl⟩
    · rw [if_neg hd]; exact ⟨[.free o.id], rfl, rfl⟩

theorem reap_trace (w : World α) (i : Nat) : ∃ evs, (reap w i).trace = w.trace ++ evs ∧ calls evs = [] := by
  unfold reap
  by_cases hi : i ∈ w.active
  · rw [if_pos hi]
    simp only []
    cases (w.emit (.touch i)).lookup i with
    | none => exact ⟨[.touch i], rfl, rfl⟩
    | some o =>
      simp only []
      by_cases hv : (!o.valid) = true
      · rw [if_pos hv]
        obtain ⟨evs, t, c⟩ := unsubById_trace (w.emit (.touch i)) i
        refine ⟨.touch i :: evs, ?_, by simpa [calls] using c⟩
        rw [t]; show (w.trace ++ [.touch i]) ++ evs = _; simp
      · rw [if_neg hv]; exact ⟨[.touch i], rfl, rfl⟩
  · rw [if_neg hi]; exact ⟨[], by simp, rfl⟩

section
variable (lib : Nat → List Action)

/-- removed (or never subscribed): skipped, nothing happens at all -/
theorem turn_skipped (inner : World α → α → World α) (w : World α) (i : Nat) (a : α) (hi : i ∉ w.active) :
    turn lib inner w i a = w := by
  unfold turn; rw [if_neg hi]

/-- subscribed, valid and unmuted at its turn: called, and the call is the first thing that happens -/
theorem turn_called {inner : World α → α → World α} (hin : ∀ a, Good (fun w => inner w a))
    {w : World α} (hw : WF w) (hd : 0 < w.depth) {i : Nat} (he : Eligible w i) (a : α) :
    ∃ rest, evsSince w (turn lib inner w i a) = .touch i :: .enter i a :: rest := by
  obtain ⟨hi, o, ho, hid, hv, hm⟩ := he
  have hl : (w.emit (.touch i)).lookup i = some o := hid ▸ hw.lookup_obs ho
  have hal : Alive w i := Or.inl ((hw.act i).1 hi)
  unfold turn
  rw [if_pos hi]
  unfold callOne
  obtain ⟨evs2, t2, _⟩ := reap_trace (invoke lib inner w i a) i
  have hinv : ∃ evs, (invoke lib inner w i a).trace = w.trace ++ .touch i :: .enter i a :: evs := by
    unfold invoke
    simp only [hl, hv, hm, Bool.not_false, Bool.and_self, if_true]
    obtain ⟨_, _, e3⟩ := runScript_round lib hin a o.script (self := i)
      (w := (w.emit (.touch i)).emit (.enter i a)) ((hw.emit _).emit _) hd hal
    obtain ⟨evs, t, _⟩ := e3.tr
    refine ⟨evs ++ [.exit i], ?_⟩
    show (runScript lib inner i a ((w.emit (.touch i)).emit (.enter i a)) o.script).trace ++ [.exit i] = _
    rw [t]
    show ((w.trace ++ [.touch i]) ++ [.enter i a]) ++ evs ++ [.exit i] = _
    simp
  obtain ⟨evs1, t1⟩ := hinv
  refine ⟨evs1 ++ evs2, evsSince_of_trace ?_⟩
  rw [t2, t1]; simp

/-- subscribed but muted or invalid at its turn: not called -/
theorem turn_not_called (inner : World α → α → World α)
    {w : World α} (hw : WF w) {i : Nat} (hi : i ∈ w.active) (hne : ¬ Eligible w i) (a : α) :
    calls (evsSince w (turn lib inner w i a)) = [] := by
  obtain ⟨o, ho, hid, hl⟩ := hw.active_lookup hi
  have hl' : (w.emit (.touch i)).lookup i = some o := hl
  have hc : (!o.muted && o.valid) = false := by
    cases hm : o.muted <;> cases hv : o.valid <;> simp
    exact hne ⟨hi, o, ho, hid, hv, hm⟩
  unfold turn
  rw [if_pos hi]
  unfold callOne
  obtain ⟨evs2, t2, c2⟩ := reap_trace (invoke lib inner w i a) i
  have hinv : (invoke lib inner w i a).trace = w.trace ++ [.touch i] := by
    unfold invoke
    simp only [hl', hc, Bool.false_eq_true, if_false]
    rfl
  rw [evsSince_of_trace (evs := [.touch i] ++ evs2) (by rw [t2, hinv]; simp), calls_append, c2]
  rfl

end

/-! ### callbacks that only log -/

def Plain (w : World α) : Prop := ∀ o ∈ w.obs, o.script = []

/-- executable form of `Eligible` -/
def el (w : World α) (i : Nat) : Bool :=
  decide (i ∈ w.active) && (match w.obs.find? (fun o => o.id == i) with
    | some o => o.valid && !o.muted
    | none => false)

theorem find?_eraseP_ne {l : List Obs} {i j : Nat} (h : j ≠ i) :
    (l.eraseP (fun o => o.id == i)).find? (fun o => o.id == j) = l.find? (fun o => o.id == j) := by
  induction l with
  | nil => rfl
  | cons x l ih =>
    by_cases hx : (x.id == i) = true
    · have hxi : x.id = i := by simpa using hx
      have hxj : (x.id == j) = false := by simp [hxi, Ne.symm h]
      simp [hx, hxj]
    · have hx' : (x.id == i) = false := by simpa using hx
      simp only [List.eraseP_cons, hx', cond_false, List.find?_cons]
      rw [ih]

theorem el_of_mem {w : World α} (hw : WF w) {o : Obs} (ho : o ∈ w.obs) : el w o.id = (o.valid && !o.muted) := by
  unfold el
  have ha : o.id ∈ w.active := (hw.act _).2 (mem_ids.2 ⟨o, ho, rfl⟩)
  rw [find?_of_mem_nodup hw.nd_obs ho]
  simp [ha]

section
variable (lib : Nat → List Action)

/-- one turn when callbacks only log -/
theorem turn_plain {inner : World α → α → World α} (hin : ∀ a, Good (fun w => inner w a))
    {w : World α} (hw : WF w) (hd : 0 < w.depth) (hp : Plain w) (i : Nat) (a : α) :
    (∃ evs, (turn lib inner w i a).trace = w.trace ++ evs ∧ calls evs = if el w i then [(i, a)] else []) ∧
    (∀ j, j ≠ i → el (turn lib inner w i a) j = el w j) ∧
    (∀ o ∈ (turn lib inner w i a).obs, o ∈ w.obs) ∧
    ((∀ o ∈ w.obs, o.valid = true) → (turn lib inner w i a).obs = w.obs ∧ (turn lib inner w i a).active = w.active) := by
  by_cases hi : i ∈ w.active
  · obtain ⟨o, ho, hid, hl⟩ := hw.active_lookup hi
    have hl' : (w.emit (.touch i)).lookup i = some o := hl
    have hf : w.obs.find? (fun x => x.id == i) = some o := hid ▸ find?_of_mem_nodup hw.nd_obs ho
    have hel : el w i = (o.valid && !o.muted) := hid ▸ el_of_mem hw ho
    have hs : o.script = [] := hp o ho
    -- the state after the call itself: only the trace has grown
    have hinv : ∃ evs, invoke lib inner w i a = { w with trace := w.trace ++ evs } ∧
        calls evs = if el w i then [(i, a)] else [] := by
      unfold invoke
      simp only [hl']
      by_cases hc : (!o.muted && o.valid) = true
      · rw [if_pos hc, hs]
        have : el w i = true := by rw [hel]; cases hm : o.muted <;> cases hv : o.valid <;> simp [hm, hv] at hc ⊢
        refine ⟨[.touch i, .enter i a, .exit i], ?_, by rw [this]; rfl⟩
        simp [runScript, World.emit]
      · rw [if_neg hc]
        have : el w i = false := by rw [hel]; cases hm : o.muted <;> cases hv : o.valid <;> simp [hm, hv] at hc ⊢
        exact ⟨[.touch i], rfl, by rw [this]; rfl⟩
    obtain ⟨evs1, e1, c1⟩ := hinv
    have hturn : turn lib inner w i a = reap { w with trace := w.trace ++ evs1 } i := by
      unfold turn; rw [if_pos hi]; unfold callOne; rw [e1]
    rw [hturn]
    have hi1 : i ∈ ({ w with trace := w.trace ++ evs1 } : World α).active := hi
    have hl1 : (({ w with trace := w.trace ++ evs1 } : World α).emit (.touch i)).lookup i = some o := hl
    unfold reap
    rw [if_pos hi1]
    simp only [hl1]
    by_cases hv : (!o.valid) = true
    · rw [if_pos hv]
      have hvf : o.valid = false := by simpa using hv
      have hf1 : (({ w with trace := w.trace ++ evs1 } : World α).emit (.touch i)).obs.find? (fun x => x.id == i) = some o := hf
      rw [unsubById_round_eq hf1 hd]
      refine ⟨⟨evs1 ++ [.touch i], ?_, by rw [calls_append, c1]; simp [calls]⟩, ?_, ?_, ?_⟩
      · show (w.trace ++ evs1) ++ [.touch i] = _; simp
      · intro j hj
        unfold el
        show (decide (j ∈ eraseSet i w.active) && _) = _
        rw [show (({ w with trace := w.trace ++ evs1 } : World α).emit (.touch i)).obs = w.obs from rfl, find?_eraseP_ne hj]
        have : decide (j ∈ eraseSet i w.active) = decide (j ∈ w.active) := by
          simp [mem_eraseSet, hj]
        rw [this]
      · intro o' ho'
        obtain ⟨_, _, _, _, hsub⟩ := ids_split hf
        exact hsub o' ho'
      · intro hall
        rw [hall o ho] at hvf; cases hvf
    · rw [if_neg hv]
      refine ⟨⟨evs1 ++ [.touch i], ?_, by rw [calls_append, c1]; simp [calls]⟩, fun j _ => rfl, fun o' ho' => ho', fun _ => ⟨rfl, rfl⟩⟩
      show (w.trace ++ evs1) ++ [.touch i] = _; simp
  · rw [turn_skipped lib inner w i a hi]
    have : el w i = false := by simp [el, hi]
    exact ⟨⟨[], by simp, by rw [this]; rfl⟩, fun _ _ => rfl, fun _ h => h, fun _ => ⟨rfl, rfl⟩⟩

/-- a whole round when callbacks only log: exactly the eligible members of the snapshot, in order, once each -/
theorem round_plain {inner : World α → α → World α} (hin : ∀ a, Good (fun w => inner w a)) (a : α) (snap : List Nat) :
    ∀ {w : World α}, WF w → 0 < w.depth → Plain w → snap.Nodup →
      (∃ evs, (round lib inner snap w a).trace = w.trace ++ evs ∧ calls evs = (snap.filter (el w)).map (fun i => (i, a))) ∧
      (∀ o ∈ (round lib inner snap w a).obs, o ∈ w.obs) ∧
      ((∀ o ∈ w.obs, o.valid = true) → (round lib inner snap w a).obs = w.obs ∧ (round lib inner snap w a).active = w.active) := by
  induction snap with
  | nil => intro w _ _ _ _; exact ⟨⟨[], by simp [round], rfl⟩, fun _ h => h, fun _ => ⟨rfl, rfl⟩⟩
  | cons i is ih =>
    intro w hw hd hp hnd
    rw [List.nodup_cons] at hnd
    obtain ⟨⟨evs1, t1, c1⟩, hel, hsub, hsame⟩ := turn_plain lib hin hw hd hp i a
    obtain ⟨w1, d1, _⟩ := turn_round lib hin hw hd i a
    have hp1 : Plain (turn lib inner w i a) := fun o ho => hp o (hsub o ho)
    obtain ⟨⟨evs2, t2, c2⟩, hsub2, hsame2⟩ := ih w1 (d1 ▸ hd) hp1 hnd.2
    have hfilt : is.filter (el (turn lib inner w i a)) = is.filter (el w) :=
      List.filter_congr (fun j hj => hel j (fun e => hnd.1 (e ▸ hj)))
    refine ⟨⟨evs1 ++ evs2, ?_, ?_⟩, fun o ho => hsub o (hsub2 o ho), ?_⟩
    · show (round lib inner is (turn lib inner w i a) a).trace = _
      rw [t2, t1, List.append_assoc]
    · rw [calls_append, c1, c2, hfilt, List.filter_cons]
      cases el w i <;> simp
    · intro hall
      obtain ⟨ho1, ha1⟩ := hsame hall
      obtain ⟨ho2, ha2⟩ := hsame2 (by rw [ho1]; exact hall)
      exact ⟨by show (round lib inner is (turn lib inner w i a) a).obs = _; rw [ho2, ho1],
             by show (round lib inner is (turn lib inner w i a) a).active = _; rw [ha2, ha1]⟩

/-- the outermost `notify` when callbacks only log -/
theorem notify_plain (fuel : Nat) {w : World α} (hw : WF w) (hd : w.depth = 0) (hp : Plain w) (a : α) :
    calls (evsSince w (notify lib fuel w a)) = (w.order.filter (fun o => o.valid && !o.muted)).map (fun o => (o.id, a)) ∧
    (∀ o ∈ (notify lib fuel w a).obs, o ∈ w.obs) ∧
    ((∀ o ∈ w.obs, o.valid = true) → (notify lib fuel w a).obs = w.obs ∧ (notify lib fuel w a).active = w.active) := by
  obtain ⟨inner, hin, e⟩ := notify_unfold (α := α) lib fuel
  rw [e]
  have hnd : w.snapshot.Nodup := by
    unfold World.snapshot ids
    rw [List.map_reverse]
    exact (List.reverse_perm _).nodup_iff.2 hw.nd_obs
  obtain ⟨⟨evs, t, c⟩, hsub, hsame⟩ := round_plain lib hin a w.snapshot (w := { w with depth := w.depth + 1 }) hw.bump (Nat.succ_pos _) hp hnd
  obtain ⟨_, d2, _⟩ := round_round lib hin a w.snapshot (w := { w with depth := w.depth + 1 }) hw.bump (Nat.succ_pos _)
  have h0 : (round lib inner w.snapshot { w with depth := w.depth + 1 } a).depth - 1 = 0 := by
    rw [d2]; show w.depth + 1 - 1 = 0; rw [hd]
  unfold notifyWith
  simp only [h0, if_true]
  refine ⟨?_, hsub, hsame⟩
  rw [evsSince_of_trace (evs := evs ++ (ids (round lib inner w.snapshot { w with depth := w.depth + 1 } a).grave).map Ev.free)
        (by show (round lib inner w.snapshot { w with depth := w.depth + 1 } a).trace ++ _ = _; rw [t]; show (w.trace ++ evs) ++ _ = _; rw [List.append_assoc]),
      calls_append, calls_frees, List.append_nil, c]
  unfold World.snapshot World.order ids
  rw [List.filter_map, List.map_map]
  congr 1
  apply List.filter_congr
  intro o ho
  exact el_of_mem hw (List.mem_reverse.1 ho)

end

/-- new observers get ids the snapshot cannot contain -/
theorem notify_fresh (lib : Nat → List Action) (fuel : Nat) {w : World α} (hw : WF w) (hd : w.depth = 0) (a : α) :
    ∀ i, Alive (notify lib fuel w a) i → Alive w i ∨ w.counter ≤ i := by
  obtain ⟨inner, hin, e⟩ := notify_unfold (α := α) lib fuel
  rw [e]
  obtain ⟨_, d2, e2⟩ := round_round lib hin a w.snapshot (w := { w with depth := w.depth + 1 }) hw.bump (Nat.succ_pos _)
  have h0 : (round lib inner w.snapshot { w with depth := w.depth + 1 } a).depth - 1 = 0 := by
    rw [d2]; show w.depth + 1 - 1 = 0; rw [hd]
  unfold notifyWith
  simp only [h0, if_true]
  intro i h
  rcases h with h | h
  · exact e2.fresh i (Or.inl h)
  · exact absurd h (by simp [ids, World.clearGrave])

theorem mem_calls {evs : List (Ev α)} {i : Nat} {a : α} : (i, a) ∈ calls evs ↔ Ev.enter i a ∈ evs := by
  induction evs with
  | nil => simp [calls]
  | cons e es ih => cases e <;> simp [calls, ih]

/-- no callback of an id that is dead (issued, but unsubscribed or invalid) runs in any later history -/
theorem never_again (lib : Nat → List Action) {w : World α} (hw : WF w) (hd : w.depth = 0) {i : Nat}
    (hi : i < w.counter) (hdead : ¬ Live w i) (ops : List (Op α)) (a : α) :
    (i, a) ∉ calls (evsSince w (run lib w ops)) := by
  obtain ⟨_, _, t⟩ := run_top lib ops hw hd
  obtain ⟨evs, ht, hen, _⟩ := t.tr
  rw [evsSince_of_trace ht, mem_calls]
  intro h
  rcases hen i a h with h | h
  · exact hdead h
  · exact absurd hi (Nat.not_lt.2 h)

theorem unsubById_active (w : World α) (i : Nat) : (w.unsubscribeById i).active = eraseSet i w.active := by
  unfold World.unsubscribeById
  cases w.obs.find? (fun o => o.id == i) with
  | none => rfl
  | some o =>
    simp only []
    by_cases hd : 0 < w.depth
    · rw [if_pos hd]
    · rw [if_neg hd]; rfl

theorem not_live_of_invalid {w : World α} (hw : WF w) {o : Obs} (ho : o ∈ w.obs) (hv : o.valid = false) : ¬ Live w o.id := by
  rintro ⟨_, o', ho', hid, hv'⟩
  have h1 := find?_of_mem_nodup hw.nd_obs ho
  have h2 := find?_of_mem_nodup hw.nd_obs ho'
  rw [hid, h1] at h2
  cases h2
  rw [hv] at hv'; cases hv'

/-- the memory monitor accepts the whole trace of every history that starts from a fresh subject -/
theorem history_safe (lib : Nat → List Action) (sid : Nat) (ops : List (Op α)) :
    (∃ m, Mon.run {} (run lib ({ sid := sid } : World α) ops).trace = some m ∧ MonInv (run lib ({ sid := sid } : World α) ops) m) ∧
    (run lib ({ sid := sid } : World α) ops).ub = false := by
  obtain ⟨_, _, t⟩ := run_top lib ops (WF.init (α := α) sid) rfl
  obtain ⟨evs, ht, _, hm⟩ := t.tr
  obtain ⟨m', r, inv⟩ := hm {} ⟨rfl, by intro i hi; simp at hi⟩
  refine ⟨⟨m', ?_, inv⟩, t.ub⟩
  rw [ht]; exact r

end Tulz.Subject
