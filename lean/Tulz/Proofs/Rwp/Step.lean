import Tulz.Proofs.Rwp.Proof3
namespace Rwp

/-! ## Preservation of `Inv` by every step (sketch continues) -/

theorem mem_of_getElem? {α} {l : List α} {i : Nat} {a : α} (h : l[i]? = some a) : a ∈ l :=
  List.mem_of_getElem? h

theorem countP_pos_of_mem {α} (p : α → Bool) (l : List α) (a : α) (h : a ∈ l) (hp : p a = true) : 0 < l.countP p :=
  List.countP_pos_iff.2 ⟨a, h, hp⟩

theorem no_inside_of_count_zero {l : List Pc} {b : Nat} (h : l.countP (Pc.inside b) = 0) :
    ∀ p ∈ l, Pc.inside b p = false := by
  intro p hp
  cases hh : Pc.inside b p with
  | false => rfl
  | true => have := countP_pos_of_mem _ l p hp hh; omega

/-- fast path implies empty queue and compatible active op -/
theorem fast_spec {s : Sh} {k : Kind} (h : fast s k = true) :
    s.queue = [] ∧ (s.act = .none ∨ (s.act = .read ∧ k = .read)) := by
  unfold fast at h
  simp only [Bool.and_eq_true, Bool.or_eq_true, beq_iff_eq, List.isEmpty_iff] at h
  exact h

theorem callFast_inv (s : State) (i : Nat) (k : Kind) (hi : s.ths[i]? = some .idle) (hf : fast s.sh k = true)
    (I : Inv s) :
    Inv { sh := { s.sh with act := k.act, count := s.sh.count + 1 }, ths := s.ths.set i (.holding k) } := by
  obtain ⟨hq, hact⟩ := fast_spec hf
  have hcnt := countP_set (Pc.inside s.sh.bound) s.ths i .idle (.holding k) hi
  simp only [Pc.inside] at hcnt
  refine ⟨?_, ?_, ?_, ?_, ?_, ?_, ?_, ?_, ?_⟩
  · exact I.qwf
  · show ((s.ths.set i (.holding k)).filterMap _).Perm _
    rw [filterMap_set_none _ _ _ _ _ hi (by simp [Pc.ticket?]) (by simp [Pc.ticket?])]
    exact I.tickets
  · intro p hp k' id n hpe hb
    rcases mem_set_of hp with h | h
    · rw [h] at hpe; cases hpe
    · exact I.kindsQ p h k' id n hpe hb
  · show s.sh.count + 1 = List.countP (Pc.inside s.sh.bound) (s.ths.set i (.holding k))
    have := I.count; simp at hcnt; omega
  · intro p hp hin k' hk'
    show k'.act = k.act
    rcases mem_set_of hp with h | h
    · subst h; simp [Pc.kind?] at hk'; rw [hk']
    · have := I.kinds p h hin k' hk'
      rcases hact with h0 | ⟨h1, h2⟩
      · -- act = none → count = 0 → nobody inside
        have hc0 := I.none_iff.1 h0
        have := no_inside_of_count_zero (by rw [← I.count]; exact hc0) p h
        simp_all
      · rw [this, h1, h2]; rfl
  · intro hw
    show s.sh.count + 1 ≤ 1
    have : k = .write := by cases k <;> simp_all [Kind.act]
    subst this
    rcases hact with h0 | ⟨_, h2⟩
    · have := I.none_iff.1 h0; omega
    · cases h2
  · show k.act = .none ↔ s.sh.count + 1 = 0
    cases k <;> simp [Kind.act]
  · intro h; cases k <;> simp [Kind.act] at h
  · intro p hp k' id hpe hlt
    rcases mem_set_of hp with h | h
    · rw [h] at hpe; cases hpe
    · have := I.live p h k' id hpe hlt
      -- `notifying` thread is not thread i (which was idle)
      obtain ⟨j, hj⟩ := List.getElem?_of_mem this
      have hne : j ≠ i := by
        intro e; subst e; rw [hi] at hj; cases hj
      have : (s.ths.set i (Pc.holding k))[j]? = some Pc.notifying := by
        rw [List.getElem?_set_ne (Ne.symm hne)]; exact hj
      exact List.mem_of_getElem? this

end Rwp
