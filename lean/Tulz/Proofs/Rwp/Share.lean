import Tulz.Proofs.Rwp.Main
namespace Rwp

/-- clause 8: a read entry at the head of the queue means a writer is active -/
def Inv8 (s : State) : Prop := ∀ e q, s.sh.queue = e :: q → e.kind = .read → s.sh.act = .write

theorem enqueue_head_kind (s : Sh) (k : Kind) (e : QE) (q : List QE) (hq : s.queue = e :: q) :
    ∃ e' q', (enqueue s k).queue = e' :: q' ∧ e'.kind = e.kind := by
  cases k with
  | write => exact ⟨e, q ++ [⟨.write, s.idc⟩], by simp [enqueue, hq], rfl⟩
  | read =>
    simp only [enqueue, hq]
    cases hl : (e :: q).getLast? with
    | none => simp at hl
    | some l =>
      simp only []
      by_cases hk : l.kind = .read
      · simp only [hk, if_true]
        cases q with
        | nil =>
          simp at hl; subst hl
          exact ⟨⟨.read, s.idc⟩, [], by simp [List.dropLast], hk.symm⟩
        | cons e2 q2 =>
          exact ⟨e, (e2 :: q2).dropLast ++ [⟨.read, s.idc⟩], by simp [List.dropLast], rfl⟩
      · simp only [hk, if_false]
        exact ⟨e, q ++ [⟨.read, s.idc⟩], by simp, rfl⟩

theorem QWF.read_next {lo hi l} (h : QWF lo hi l) :
    ∀ e0 e q, l = e0 :: e :: q → e.kind = .read → e0.kind = .write := by
  cases h with
  | nil => intro e0 e q hl; cases hl
  | write lo hi q h' => intro e0 e q' hl hk; cases hl; rfl
  | read lo ub hi q hlt h' hhead =>
    intro e0 e q' hl hk; cases hl
    have := hhead e (by simp); rw [this] at hk; cases hk

theorem inv8_init (n) : Inv8 (init n) := by intro e q h; simp [init] at h

theorem inv8_step {s t : State} (I : Inv s) (I8 : Inv8 s) (h : Step s t) : Inv8 t := by
  cases h with
  | callFast i k hi hf =>
    intro e q hq; have := (fast_spec hf).1; simp [this] at hq
  | callSlow i k hi hf =>
    intro e q hq hk
    show (enqueue { s.sh with idc := s.sh.idc + 1 } k).act = .write
    rw [enqueue_act]
    show s.sh.act = .write
    cases hq0 : s.sh.queue with
    | nil =>
      -- the new entry is the head, so k = read; the slow path with an empty queue means a writer is active
      have hk' : k = .read := by
        cases k with
        | read => rfl
        | write => simp [enqueue, hq0] at hq; rw [← hq.1] at hk; cases hk
      subst hk'
      have hne := not_fast_act hf (fun h => (I.none_q h).1)
      cases hact : s.sh.act with
      | none => exact absurd hact hne
      | read => simp [fast, hq0, hact] at hf
      | write => rfl
    | cons e0 q0 =>
      obtain ⟨e', q', hq', hk'⟩ := enqueue_head_kind { s.sh with idc := s.sh.idc + 1 } k e0 q0 hq0
      rw [hq'] at hq; cases hq
      exact I8 e0 q0 hq0 (by rw [← hk']; exact hk)
  | wakeOk i k id n hi h => exact I8
  | wakeNo i k id n hi h => exact I8
  | unlockLast i k hi h =>
    intro e q hq hk
    cases hq0 : s.sh.queue with
    | nil => simp [select, hq0] at hq
    | cons e0 q0 =>
      have hsel : (select { s.sh with count := s.sh.count - 1 }) = ⟨q0, e0.kind.act, e0.ub - s.sh.bound, s.sh.idc, e0.ub⟩ := by
        simp [select, hq0]
      rw [hsel] at hq ⊢
      simp only at hq
      show e0.kind.act = .write
      have hqwf := I.qwf; rw [hq0, hq] at hqwf
      rw [hqwf.read_next e0 e q rfl hk]; rfl
  | unlockMore i k hi h => exact I8
  | notify i hi => exact I8

theorem reach_inv8 {n s} (h : Reach n s) : Inv8 s := by
  induction h with
  | init => exact inv8_init n
  | step hr hs ih => exact inv8_step (reach_inv hr) ih hs

/-- no write request is active or waiting -/
def noWriter (s : State) : Prop := ∀ p ∈ s.ths, p.kind? ≠ some .write

theorem inside_kind_some {b : Nat} {p : Pc} (h : Pc.inside b p = true) : ∃ k, p.kind? = some k := by
  cases p <;> simp [Pc.inside] at h <;> simp [Pc.kind?]

/-- **C12 (first clause)**: with no writer active or waiting, a read request takes the fast path — it never parks. -/
theorem C12_reader_fast (n : Nat) (s : State) (h : Reach n s) (hw : noWriter s) : fast s.sh .read = true := by
  have I := reach_inv h
  have I8 := reach_inv8 h
  have hact : s.sh.act ≠ .write := by
    intro ha
    have hc : 0 < s.sh.count := by
      have : s.sh.count ≠ 0 := fun h0 => by have := I.none_iff.2 h0; rw [ha] at this; cases this
      omega
    rw [I.count, List.countP_pos_iff] at hc
    obtain ⟨p, hp, hin⟩ := hc
    obtain ⟨k, hk⟩ := inside_kind_some hin
    have := I.kinds p hp hin k hk
    rw [ha] at this
    have : k = .write := by cases k <;> simp_all [Kind.act]
    subst this
    exact hw p hp hk
  have hq : s.sh.queue = [] := by
    cases hq0 : s.sh.queue with
    | nil => rfl
    | cons e q =>
      exfalso
      cases hk : e.kind with
      | read => exact hact (I8 e q hq0 hk)
      | write =>
        have hqwf := I.qwf; rw [hq0] at hqwf
        obtain ⟨h1, h2, _, _⟩ := QWF.head_ub hqwf
        -- ticket `bound` is pending and belongs to a writer
        have hm : s.sh.bound ∈ List.range' s.sh.bound (s.sh.idc - s.sh.bound) := by
          rw [List.mem_range'_1]; omega
        have := I.tickets.mem_iff.2 hm
        rw [List.mem_filterMap] at this
        obtain ⟨p, hp, hpt⟩ := this
        cases p with
        | waiting k id nn =>
          simp only [Pc.ticket?] at hpt
          split at hpt
          · cases hpt
            have hkq := I.kindsQ _ hp k s.sh.bound nn rfl (Nat.le_refl _)
            rw [hq0] at hkq
            simp only [kindAt, h1, if_true] at hkq
            cases hkq
            exact hw _ hp (by simp [Pc.kind?, hk])
          · cases hpt
        | _ => simp [Pc.ticket?] at hpt
  cases ha : s.sh.act with
  | none => simp [fast, hq, ha]
  | read => simp [fast, hq, ha]
  | write => exact absurd ha hact

end Rwp
