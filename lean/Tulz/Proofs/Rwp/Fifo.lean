import Tulz.Proofs.Rwp.Batch
namespace Rwp

/-! ## Ghost arrival stamps (C03): `stamps[i]` is the value of a global clock at thread i's latest `lock*()` call -/

structure YState where
  base : State
  stamps : List Nat
  clock : Nat

inductive YStep : YState → YState → Prop
  | callFast (y : YState) (i k) (hi : y.base.ths[i]? = some .idle) (hf : fast y.base.sh k = true) :
      YStep y ⟨{ sh := { y.base.sh with act := k.act, count := y.base.sh.count + 1 }, ths := y.base.ths.set i (.holding k) },
               y.stamps.set i y.clock, y.clock + 1⟩
  | callSlow (y : YState) (i k) (hi : y.base.ths[i]? = some .idle) (hf : fast y.base.sh k = false) :
      YStep y ⟨{ sh := enqueue { y.base.sh with idc := y.base.sh.idc + 1 } k,
                 ths := y.base.ths.set i (.waiting k y.base.sh.idc false) }, y.stamps.set i y.clock, y.clock + 1⟩
  | wakeOk (y : YState) (i k id n) (hi : y.base.ths[i]? = some (.waiting k id n)) (h : id < y.base.sh.bound) :
      YStep y ⟨{ y.base with ths := y.base.ths.set i (.holding k) }, y.stamps, y.clock⟩
  | wakeNo (y : YState) (i k id n) (hi : y.base.ths[i]? = some (.waiting k id n)) (h : ¬ id < y.base.sh.bound) :
      YStep y ⟨{ y.base with ths := y.base.ths.set i (.waiting k id false) }, y.stamps, y.clock⟩
  | unlockLast (y : YState) (i k) (hi : y.base.ths[i]? = some (.holding k)) (h : y.base.sh.count - 1 = 0) :
      YStep y ⟨{ sh := select { y.base.sh with count := y.base.sh.count - 1 }, ths := y.base.ths.set i .notifying },
               y.stamps, y.clock⟩
  | unlockMore (y : YState) (i k) (hi : y.base.ths[i]? = some (.holding k)) (h : y.base.sh.count - 1 ≠ 0) :
      YStep y ⟨{ sh := { y.base.sh with count := y.base.sh.count - 1 }, ths := y.base.ths.set i .idle }, y.stamps, y.clock⟩
  | notify (y : YState) (i) (hi : y.base.ths[i]? = some .notifying) :
      YStep y ⟨{ y.base with ths := (y.base.ths.set i .idle).map wakeAll }, y.stamps, y.clock⟩

theorem YStep.base_step {x y : YState} (h : YStep x y) : Step x.base y.base := by
  cases h with
  | callFast i k hi hf => exact Step.callFast _ i k hi hf
  | callSlow i k hi hf => exact Step.callSlow _ i k hi hf
  | wakeOk i k id n hi h => exact Step.wakeOk _ i k id n hi h
  | wakeNo i k id n hi h => exact Step.wakeNo _ i k id n hi h
  | unlockLast i k hi h => exact Step.unlockLast _ i k hi h
  | unlockMore i k hi h => exact Step.unlockMore _ i k hi h
  | notify i hi => exact Step.notify _ i hi

def yinit (n : Nat) : YState := ⟨init n, List.replicate n 0, 0⟩

inductive YReach (n : Nat) : YState → Prop
  | init : YReach n (yinit n)
  | step {x y} : YReach n x → YStep x y → YReach n y

theorem YReach.base_reach {n y} (h : YReach n y) : Reach n y.base := by
  induction h with
  | init => exact Reach.init
  | step _ hs ih => exact Reach.step ih hs.base_step

def pendingAt (s : State) (j : Nat) (id : Nat) : Prop := ∃ k n, s.ths[j]? = some (.waiting k id n) ∧ s.sh.bound ≤ id
def insideAt (s : State) (i : Nat) : Prop := ∃ p, s.ths[i]? = some p ∧ Pc.inside s.sh.bound p = true
def activeAt (s : State) (i : Nat) : Prop := ∃ p, s.ths[i]? = some p ∧ (∃ k, p.kind? = some k)

structure SInv (y : YState) : Prop where
  /-- stamps of threads with an outstanding request are in the past -/
  past : ∀ i si, activeAt y.base i → y.stamps[i]? = some si → si < y.clock
  /-- pending requests: ticket order is arrival order -/
  order : ∀ i j idi idj si sj, pendingAt y.base i idi → pendingAt y.base j idj → idi < idj →
      y.stamps[i]? = some si → y.stamps[j]? = some sj → si < sj
  /-- whoever is inside arrived before everybody who is still pending -/
  before : ∀ i j idj si sj, insideAt y.base i → pendingAt y.base j idj →
      y.stamps[i]? = some si → y.stamps[j]? = some sj → si < sj

theorem get_set_cases {α} {l : List α} {i j : Nat} {x p : α} (h : (l.set i x)[j]? = some p) :
    (j = i ∧ p = x) ∨ (j ≠ i ∧ l[j]? = some p) := by
  by_cases e : j = i
  · subst e
    have hlt : j < l.length := by
      rcases Nat.lt_or_ge j l.length with h' | h'
      · exact h'
      · rw [List.getElem?_eq_none (by simpa using h')] at h; cases h
    rw [List.getElem?_set_self hlt] at h; cases h; exact Or.inl ⟨rfl, rfl⟩
  · rw [List.getElem?_set_ne (Ne.symm e)] at h; exact Or.inr ⟨e, h⟩

theorem sinv_init (n) : SInv (yinit n) := by
  refine ⟨?_, ?_, ?_⟩
  · intro i si ⟨p, hp, k, hk⟩ _
    have : p = .idle := by
      have := List.mem_of_getElem? hp; simp [yinit, init] at this; exact this.2
    subst this; simp [Pc.kind?] at hk
  · intro i j idi idj si sj ⟨k, n', hp, _⟩
    have := List.mem_of_getElem? hp; simp [yinit, init] at this
  · intro i j idj si sj _ ⟨k, n', hp, _⟩
    have := List.mem_of_getElem? hp; simp [yinit, init] at this

end Rwp
