import Tulz.Proofs.Rwp.Fifo
/-
  Why unbounded `Nat` tickets are an adequate model of `using Id = int64_t`: the ticket counter never exceeds the number of
  lock requests issued so far (the ghost arrival clock of the FIFO proofs counts exactly those).  `m_idCounter` can therefore
  wrap only after 2^63 `lock*()` calls on one Resource without an idle moment; at 10^9 requests per second that is 292 years.
  (A narrower `Id` type is exactly what the long-busy `@<bits>` executions of the tie are for; `Rwp.warp_reachable` shows that the
  counter does grow without bound while the Resource stays busy.)
-/
namespace Rwp

theorem select_idc_le (s : Sh) : (select s).idc ≤ s.idc := by
  unfold select
  split
  · exact Nat.zero_le _
  · exact Nat.le_refl _

/-- **tickets are bounded by the number of requests**: in every reachable state of every execution with any number of threads,
    `m_idCounter` is at most the number of `lock*()` calls made so far. -/
theorem idc_le_requests {n : Nat} {y : YState} (h : YReach n y) : y.base.sh.idc ≤ y.clock := by
  induction h with
  | init => exact Nat.le_refl _
  | step _ hs ih =>
    cases hs with
    | callFast i k hi hf => show _ ≤ _ + 1; exact Nat.le_succ_of_le ih
    | callSlow i k hi hf =>
      show (enqueue _ k).idc ≤ _ + 1
      rw [enqueue_idc]; exact Nat.succ_le_succ ih
    | wakeOk i k id m hi hlt => exact ih
    | wakeNo i k id m hi hlt => exact ih
    | unlockLast i k hi hc => exact Nat.le_trans (select_idc_le _) ih
    | unlockMore i k hi hc => exact ih
    | notify i hi => exact ih

/-- in particular no ticket handed out so far reaches `2^63` before `2^63` requests have been made -/
theorem idc_fits_int64 {n : Nat} {y : YState} (h : YReach n y) (hreq : y.clock < 9223372036854775808) :
    y.base.sh.idc < 9223372036854775808 :=
  Nat.lt_of_le_of_lt (idc_le_requests h) hreq

end Rwp
