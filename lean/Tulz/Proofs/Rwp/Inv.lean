import Tulz.Model.Rwp
namespace Rwp

/-! Queue well-formedness relative to `lo` (= bound) and `hi` (= idCounter). -/
inductive QWF : Nat → Nat → List QE → Prop
  | nil (lo : Nat) : QWF lo lo []
  | write (lo hi : Nat) (q : List QE) : QWF (lo+1) hi q → QWF lo hi (⟨.write, lo+1⟩ :: q)
  | read (lo ub hi : Nat) (q : List QE) : lo < ub → QWF ub hi q →
      (∀ e, q.head? = some e → e.kind = .write) → QWF lo hi (⟨.read, ub⟩ :: q)

/-- kind of the queue entry covering ticket `id`. -/
def kindAt : List QE → Nat → Option Kind
  | [], _ => none
  | e :: q, id => if id < e.ub then some e.kind else kindAt q id

theorem QWF.le {lo hi q} (h : QWF lo hi q) : lo ≤ hi := by
  induction h with
  | nil => exact Nat.le_refl _
  | write lo hi q _ ih => omega
  | read lo ub hi q hlt _ _ ih => omega

theorem QWF.nil_iff {lo hi} (h : QWF lo hi []) : lo = hi := by cases h; rfl

theorem QWF.head_ub {lo hi e q} (h : QWF lo hi (e :: q)) : lo < e.ub ∧ e.ub ≤ hi ∧ QWF e.ub hi q ∧
    (e.kind = .write → e.ub = lo + 1) := by
  cases h with
  | write _ _ _ h' => exact ⟨by simp, h'.le, h', fun _ => rfl⟩
  | read _ ub _ _ hlt h' _ => exact ⟨hlt, h'.le, h', fun hk => by simp at hk⟩

structure Inv (s : State) : Prop where
  qwf : QWF s.sh.bound s.sh.idc s.sh.queue
  tickets : (s.ths.filterMap (Pc.ticket? s.sh.bound)).Perm (List.range' s.sh.bound (s.sh.idc - s.sh.bound))
  kindsQ : ∀ p ∈ s.ths, ∀ k id n, p = .waiting k id n → s.sh.bound ≤ id → kindAt s.sh.queue id = some k
  count : s.sh.count = s.ths.countP (Pc.inside s.sh.bound)
  kinds : ∀ p ∈ s.ths, Pc.inside s.sh.bound p = true → ∀ k, p.kind? = some k → k.act = s.sh.act
  wr : s.sh.act = .write → s.sh.count ≤ 1
  none_iff : s.sh.act = .none ↔ s.sh.count = 0
  none_q : s.sh.act = .none → s.sh.queue = [] ∧ s.sh.idc = 0 ∧ s.sh.bound = 0
  live : ∀ p ∈ s.ths, ∀ k id, p = .waiting k id false → id < s.sh.bound → Pc.notifying ∈ s.ths

/-! ### list helpers -/
theorem countP_set {α} (p : α → Bool) (l : List α) (i : Nat) (a x : α) (h : l[i]? = some a) :
    (l.set i x).countP p + (if p a then 1 else 0) = l.countP p + (if p x then 1 else 0) := by
  induction l generalizing i with
  | nil => simp at h
  | cons b l ih =>
    cases i with
    | zero =>
      simp at h; subst h
      simp [List.countP_cons]; omega
    | succ i =>
      simp at h
      have := ih i h
      simp [List.countP_cons]; omega

theorem filterMap_set_none {α β} (f : α → Option β) (l : List α) (i : Nat) (a x : α) (h : l[i]? = some a)
    (ha : f a = none) (hx : f x = none) : (l.set i x).filterMap f = l.filterMap f := by
  induction l generalizing i with
  | nil => simp at h
  | cons b l ih =>
    cases i with
    | zero => simp at h; subst h; simp [List.filterMap_cons, ha, hx]
    | succ i => simp at h; simp [List.filterMap_cons, ih i h]

theorem filterMap_set_some {α β} (f : α → Option β) (l : List α) (i : Nat) (a x : α) (y : β) (h : l[i]? = some a)
    (ha : f a = none) (hx : f x = some y) : ((l.set i x).filterMap f).Perm (l.filterMap f ++ [y]) := by
  induction l generalizing i with
  | nil => simp at h
  | cons b l ih =>
    cases i with
    | zero =>
      simp at h; subst h
      simp [List.filterMap_cons, ha, hx]
      exact List.perm_append_singleton _ _ |>.symm
    | succ i =>
      simp at h
      simp only [List.set_cons_succ, List.filterMap_cons]
      cases f b with
      | none => exact ih i h
      | some z => exact (ih i h).cons z

theorem mem_set_of {α} {l : List α} {i : Nat} {x p : α} (h : p ∈ l.set i x) : p = x ∨ p ∈ l := by
  rcases List.mem_or_eq_of_mem_set h with h | h
  · exact Or.inr h
  · exact Or.inl h

end Rwp
