import Tulz.Proofs.Rwp.Proof
namespace Rwp

/-- all upper bounds in a well-formed queue are ≤ hi, and the last one equals hi. -/
theorem QWF.kindAt_none_ge {lo hi q} (h : QWF lo hi q) : kindAt q hi = none := by
  induction h with
  | nil => rfl
  | write lo hi q hq ih => have := hq.le; simp [kindAt, ih]; omega
  | read lo ub hi q _ hq _ ih => have := hq.le; simp [kindAt, ih]; omega

theorem QWF.getLast_ub {lo hi q e} (h : QWF lo hi q) (he : q.getLast? = some e) : e.ub = hi := by
  induction h with
  | nil => simp at he
  | write lo hi q hq ih =>
    cases q with
    | nil => simp at he; subst he; exact hq.nil_iff
    | cons e' q => rw [List.getLast?_cons_cons] at he; exact ih he
  | read lo ub hi q _ hq _ ih =>
    cases q with
    | nil => simp at he; subst he; exact hq.nil_iff
    | cons e' q => rw [List.getLast?_cons_cons] at he; exact ih he

theorem kindAt_append_single (q : List QE) (e : QE) (id : Nat) :
    kindAt (q ++ [e]) id = match kindAt q id with
      | some k => some k
      | none => if id < e.ub then some e.kind else none := by
  induction q with
  | nil => simp [kindAt]
  | cons a q ih => simp only [List.cons_append, kindAt]; split <;> simp_all

theorem kindAt_dropLast_append {lo hi} (q : List QE) (e : QE) (h : QWF lo hi q) (he : q.getLast? = some e)
    (id : Nat) : kindAt (q.dropLast ++ [⟨e.kind, hi+1⟩]) id =
      if id = hi then some e.kind else kindAt q id := by
  induction h with
  | nil => simp at he
  | write lo hi q hq ih =>
    cases q with
    | nil =>
      simp at he; subst he
      have hh := hq.nil_iff
      subst hh
      simp only [kindAt, List.dropLast, List.nil_append]
      repeat' split
      all_goals first | rfl | omega
    | cons e' q =>
      rw [List.getLast?_cons_cons] at he
      have hd : ((⟨.write, lo+1⟩ : QE) :: e' :: q).dropLast = ⟨.write, lo+1⟩ :: (e' :: q).dropLast := by
        simp [List.dropLast]
      rw [hd]; simp only [List.cons_append, kindAt]
      rw [ih he]
      have := (QWF.head_ub hq).1; have := (QWF.head_ub hq).2.1
      split <;> split <;> first | rfl | omega | simp_all
  | read lo ub hi q hlt hq _ ih =>
    cases q with
    | nil =>
      simp at he; subst he
      have hh := hq.nil_iff
      subst hh
      simp only [kindAt, List.dropLast, List.nil_append]
      repeat' split
      all_goals first | rfl | omega
    | cons e' q =>
      rw [List.getLast?_cons_cons] at he
      have hd : ((⟨.read, ub⟩ : QE) :: e' :: q).dropLast = ⟨.read, ub⟩ :: (e' :: q).dropLast := by
        simp [List.dropLast]
      rw [hd]; simp only [List.cons_append, kindAt]
      rw [ih he]
      have := (QWF.head_ub hq).1; have := (QWF.head_ub hq).2.1
      split <;> split <;> first | rfl | omega | simp_all

theorem QWF.kindAt_ge {lo hi q} (h : QWF lo hi q) (id : Nat) (hid : hi ≤ id) : kindAt q id = none := by
  induction h with
  | nil => rfl
  | write lo hi q hq ih => have := hq.le; simp [kindAt, ih hid]; omega
  | read lo ub hi q _ hq _ ih => have := hq.le; simp [kindAt, ih hid]; omega

theorem QWF.kindAt_lt {lo hi q} (h : QWF lo hi q) (id : Nat) (hlo : lo ≤ id) (hid : id < hi) :
    ∃ k, kindAt q id = some k := by
  induction h with
  | nil => omega
  | write lo hi q hq ih =>
    simp only [kindAt]; split
    · exact ⟨_, rfl⟩
    · exact ih (by simp at *; omega) hid
  | read lo ub hi q _ hq _ ih =>
    simp only [kindAt]; split
    · exact ⟨_, rfl⟩
    · exact ih (by simp at *; omega) hid

/-- lookups after enqueue: the new ticket `hi` gets kind `k`, other tickets are unchanged. -/
theorem kindAt_enqueue {lo hi : Nat} (q : List QE) (act : Act) (cnt : Nat) (k : Kind) (h : QWF lo hi q) (id : Nat)
    (hlo : lo ≤ id) : kindAt (enqueue ⟨q, act, cnt, hi+1, lo⟩ k).queue id =
      if id = hi then some k else kindAt q id := by
  have hge := h.kindAt_ge
  have hlt := h.kindAt_lt
  have key : ∀ e : QE, e.ub = hi + 1 → kindAt (q ++ [e]) id = if id = hi then some e.kind else kindAt q id := by
    intro e he
    rw [kindAt_append_single]
    by_cases h1 : id = hi
    · subst h1; simp [hge id (Nat.le_refl _), he]
    · by_cases h2 : id < hi
      · obtain ⟨k', hk'⟩ := hlt id hlo h2; simp [hk', h1]
      · have : kindAt q id = none := hge id (by omega)
        simp [this, h1, he]; omega
  cases k with
  | write => simpa [enqueue] using key ⟨.write, hi+1⟩ rfl
  | read =>
    simp only [enqueue]
    cases hl : q.getLast? with
    | none => 
      have : q = [] := by simpa using hl
      subst this
      simpa using key ⟨.read, hi+1⟩ rfl
    | some e =>
      by_cases hk : e.kind = .read
      · simp only [hk, if_true]
        have := kindAt_dropLast_append q e h hl id
        rw [hk] at this; exact this
      · simp only [hk, if_false]
        exact key ⟨.read, hi+1⟩ rfl

end Rwp
