import Tulz.Proofs.Rwp.Share
namespace Rwp

/-- consecutive read tickets lie in one queue entry: relative to the head entry they are admitted together -/
theorem QWF.same_entry {lo hi e q} (h : QWF lo hi (e :: q)) (i j : Nat) (hlo : lo ≤ i) (hij : i < j) (hj : j < hi)
    (hr : ∀ t, i ≤ t → t ≤ j → kindAt (e :: q) t = some .read) : (i < e.ub ↔ j < e.ub) := by
  constructor
  · intro hi'
    apply Classical.byContradiction
    intro hnj
    have hub : e.ub ≤ j := by omega
    -- ticket i is in the head entry, so the head is a read entry
    have h1 := hr i (Nat.le_refl _) (by omega)
    simp only [kindAt, hi', if_true] at h1
    -- ticket e.ub is the first ticket of the next entry and must be a read as well
    have h2 := hr e.ub (by omega) hub
    simp only [kindAt, Nat.lt_irrefl, if_false] at h2
    obtain ⟨_, _, hq, _⟩ := QWF.head_ub h
    cases q with
    | nil => simp [kindAt] at h2
    | cons e2 q2 =>
      obtain ⟨hlt2, _, _, _⟩ := QWF.head_ub hq
      simp only [kindAt, hlt2, if_true] at h2
      have he2 : e2.kind = .read := Option.some.inj h2
      have he : e.kind = .read := Option.some.inj h1
      have := h.read_next e e2 q2 rfl he2
      rw [he] at this; cases this
  · intro hj'; omega

/-- **C12 (second clause)**: read requests queued consecutively (no write ticket between them) are admitted by the
    same step — "granted together". -/
theorem C12_batch_together (n : Nat) (s t : State) (h : Reach n s) (hst : Step s t)
    (a b : Nat) (ida idb : Nat) (na nb : Bool)
    (ha : s.ths[a]? = some (.waiting .read ida na)) (hb : s.ths[b]? = some (.waiting .read idb nb))
    (hpa : s.sh.bound ≤ ida) (hab : ida < idb)
    (hnw : ∀ p ∈ s.ths, ∀ id nn, p = .waiting .write id nn → ¬ (ida < id ∧ id < idb)) :
    (ida < t.sh.bound ↔ idb < t.sh.bound) := by
  have I := reach_inv h
  have hidb := I.ticket_lt (List.mem_of_getElem? hb) rfl (by omega)
  -- every ticket between the two is a read ticket
  have hreads : ∀ tk, ida ≤ tk → tk ≤ idb → kindAt s.sh.queue tk = some .read := by
    intro tk h1 h2
    have hm : tk ∈ List.range' s.sh.bound (s.sh.idc - s.sh.bound) := by rw [List.mem_range'_1]; omega
    have := I.tickets.mem_iff.2 hm
    rw [List.mem_filterMap] at this
    obtain ⟨p, hp, hpt⟩ := this
    cases p with
    | waiting k id nn =>
      simp only [Pc.ticket?] at hpt
      split at hpt
      · cases hpt
        have hk := I.kindsQ _ hp k tk nn rfl (by omega)
        cases k with
        | read => exact hk
        | write =>
          exfalso
          have hne := hnw _ hp tk nn rfl
          have h3 : tk ≠ ida := by
            intro e; subst e
            have := I.kindsQ _ (List.mem_of_getElem? ha) .read tk na rfl hpa
            rw [hk] at this; cases this
          have h4 : tk ≠ idb := by
            intro e; subst e
            have := I.kindsQ _ (List.mem_of_getElem? hb) .read tk nb rfl (by omega)
            rw [hk] at this; cases this
          exact hne ⟨by omega, by omega⟩
      · cases hpt
    | _ => simp [Pc.ticket?] at hpt
  have hsame : t.sh.bound = s.sh.bound → (ida < t.sh.bound ↔ idb < t.sh.bound) := by
    intro e; rw [e]; constructor <;> intro <;> omega
  cases hst with
  | callFast i k hi hf => exact hsame rfl
  | callSlow i k hi hf => exact hsame (by simp)
  | wakeOk i k id nn hi hh => exact hsame rfl
  | wakeNo i k id nn hi hh => exact hsame rfl
  | unlockMore i k hi hh => exact hsame rfl
  | notify i hi => exact hsame rfl
  | unlockLast i k hi hh =>
    cases hq0 : s.sh.queue with
    | nil =>
      have : (select { s.sh with count := s.sh.count - 1 }).bound = 0 := by simp [select, hq0]
      show ida < (select _).bound ↔ idb < (select _).bound
      rw [this]; simp
    | cons e q =>
      have : (select { s.sh with count := s.sh.count - 1 }).bound = e.ub := by simp [select, hq0]
      show ida < (select _).bound ↔ idb < (select _).bound
      rw [this]
      have hqwf := I.qwf; rw [hq0] at hqwf
      exact hqwf.same_entry ida idb hpa hab hidb (by rw [← hq0]; exact hreads)

end Rwp
