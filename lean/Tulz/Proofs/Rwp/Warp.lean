import Tulz.Model.Rwp
/-!
  Justification of the harness's "long-busy Resource" start (`run @<bits>,…` in harness/rwp/rwp_harness.cpp): the main thread
  takes the write lock of a fresh Resource and then sets `m_idCounter = m_upperUnlockBound = K` before the other threads issue
  their requests.  That state is not invented: for every K it is reached by an ordinary history of lock/unlock calls in which
  the Resource is never idle (two threads handing the write lock to each other K times), so whatever the real code does from
  there it also does after such a history.  No property theorem depends on this file.
-/
namespace Rwp

/-- holder at position 0 (`a = true`) or 1, `m` further idle threads, no queue, both counters at `K` -/
def warp (m K : Nat) (a : Bool) : State :=
  { sh := ⟨[], .write, 1, K, K⟩,
    ths := (if a then [.holding .write, .idle] else [.idle, .holding .write]) ++ List.replicate m .idle }

theorem warp_zero (m : Nat) (a : Bool) : Reach (2 + m) (warp m 0 a) := by
  have hinit : init (2 + m) = ⟨⟨[], .none, 0, 0, 0⟩, [.idle, .idle] ++ List.replicate m .idle⟩ := by
    simp [init, Nat.add_comm 2 m, List.replicate_succ]
  cases a with
  | true =>
    have h := Step.callFast (init (2 + m)) 0 .write (by simp [hinit]) (by simp [hinit, fast])
    have := Reach.step Reach.init h
    simpa [hinit, warp, Kind.act] using this
  | false =>
    have h := Step.callFast (init (2 + m)) 1 .write (by simp [hinit]) (by simp [hinit, fast])
    have := Reach.step Reach.init h
    simpa [hinit, warp, Kind.act] using this

/-- one hand-over: the other thread queues a write request, the holder unlocks and notifies, the other thread wakes up -/
theorem warp_succ (m K : Nat) (a : Bool) (h : Reach (2 + m) (warp m K a)) : Reach (2 + m) (warp m (K + 1) (!a)) := by
  cases a with
  | true =>
    have s1 := Step.callSlow (warp m K true) 1 .write (by simp [warp]) (by simp [warp, fast])
    have r1 := Reach.step h s1
    simp [warp, enqueue] at r1
    have s2 := Step.unlockLast _ 0 .write (by simp) (by simp) |> Reach.step r1
    simp [select, Kind.act] at s2
    have s3 := Step.notify _ 0 (by simp) |> Reach.step s2
    simp [wakeAll] at s3
    have s4 := Step.wakeOk _ 1 .write K true (by simp) (by simp) |> Reach.step s3
    simpa [warp] using s4
  | false =>
    have s1 := Step.callSlow (warp m K false) 0 .write (by simp [warp]) (by simp [warp, fast])
    have r1 := Reach.step h s1
    simp [warp, enqueue] at r1
    have s2 := Step.unlockLast _ 1 .write (by simp) (by simp) |> Reach.step r1
    simp [select, Kind.act] at s2
    have s3 := Step.notify _ 1 (by simp) |> Reach.step s2
    simp [wakeAll] at s3
    have s4 := Step.wakeOk _ 0 .write K true (by simp) (by simp) |> Reach.step s3
    simpa [warp] using s4

theorem warp_both (m K : Nat) : Reach (2 + m) (warp m K true) ∧ Reach (2 + m) (warp m K false) := by
  induction K with
  | zero => exact ⟨warp_zero m true, warp_zero m false⟩
  | succ K ih => exact ⟨by simpa using warp_succ m K false ih.2, by simpa using warp_succ m K true ih.1⟩

/-- the state installed by `@<bits>`: thread 0 holds the write lock, nobody is queued, `m_idCounter = m_upperUnlockBound = K`,
    any number (≥ 1) of other threads idle — reachable for every `K` -/
theorem warp_reachable (m K : Nat) :
    Reach (2 + m) ⟨⟨[], .write, 1, K, K⟩, .holding .write :: .idle :: List.replicate m .idle⟩ := by
  simpa [warp] using (warp_both m K).1

end Rwp
