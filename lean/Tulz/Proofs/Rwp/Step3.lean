import Tulz.Proofs.Rwp.Step2
namespace Rwp

theorem inside_pos_count {s : State} (I : Inv s) {i : Nat} {k : Kind} (hi : s.ths[i]? = some (.holding k)) :
    0 < s.sh.count := by
  rw [I.count]
  exact countP_pos_of_mem _ _ _ (List.mem_of_getElem? hi) (by simp [Pc.inside])

theorem unlockLast_inv (s : State) (i : Nat) (k : Kind) (hi : s.ths[i]? = some (.holding k)) (h : s.sh.count - 1 = 0)
    (I : Inv s) : Inv { sh := select { s.sh with count := s.sh.count - 1 }, ths := s.ths.set i .notifying } := by
  have hpos := inside_pos_count I hi
  have hc1 : s.sh.count = 1 := by omega
  have hcnt := countP_set (Pc.inside s.sh.bound) s.ths i (.holding k) .notifying hi
  simp only [Pc.inside] at hcnt
  have hz : (s.ths.set i .notifying).countP (Pc.inside s.sh.bound) = 0 := by
    have := I.count; simp at hcnt; omega
  have hnoin := no_inside_of_count_zero hz
  have htk : ((s.ths.set i .notifying).filterMap (Pc.ticket? s.sh.bound)).Perm
      (List.range' s.sh.bound (s.sh.idc - s.sh.bound)) := by
    rw [filterMap_set_none _ _ _ _ _ hi (by simp [Pc.ticket?]) (by simp [Pc.ticket?])]
    exact I.tickets
  have hnotif : Pc.notifying ∈ s.ths.set i .notifying := by
    have hlt : i < s.ths.length := by
      rcases Nat.lt_or_ge i s.ths.length with h' | h'
      · exact h'
      · rw [List.getElem?_eq_none h'] at hi; cases hi
    exact List.mem_of_getElem? (l := s.ths.set i .notifying) (i := i) (by simp [List.getElem?_set_self hlt])
  have holdq : ∀ p ∈ s.ths.set i .notifying, ∀ k' id n, p = .waiting k' id n → s.sh.bound ≤ id →
      kindAt s.sh.queue id = some k' := by
    intro p hp k' id n hpe hb
    rcases mem_set_of hp with h' | h'
    · rw [h'] at hpe; cases hpe
    · exact I.kindsQ p h' k' id n hpe hb
  cases hq : s.sh.queue with
  | nil =>
    have hbi : s.sh.bound = s.sh.idc := by have := I.qwf; rw [hq] at this; exact this.nil_iff
    -- no waiting thread at all
    have hnow : ∀ p ∈ s.ths.set i .notifying, ∀ k' id n, p ≠ .waiting k' id n := by
      intro p hp k' id n hpe
      by_cases hb : id < s.sh.bound
      · have := hnoin p hp; subst hpe; simp [Pc.inside, hb] at this
      · have hm : id ∈ (s.ths.set i .notifying).filterMap (Pc.ticket? s.sh.bound) := by
          rw [List.mem_filterMap]; exact ⟨p, hp, by subst hpe; simp [Pc.ticket?]; omega⟩
        have := htk.mem_iff.1 hm
        rw [List.mem_range'_1] at this; omega
    have hsel : select { s.sh with count := s.sh.count - 1 } = ⟨[], .none, s.sh.count - 1, 0, 0⟩ := by
      simp [select, hq]
    rw [hsel]
    refine ⟨QWF.nil 0, ?_, ?_, ?_, ?_, ?_, ?_, ?_, ?_⟩
    · show ((s.ths.set i .notifying).filterMap (Pc.ticket? 0)).Perm (List.range' 0 (0 - 0))
      have : (s.ths.set i .notifying).filterMap (Pc.ticket? 0) = [] := by
        rw [List.filterMap_eq_nil_iff]
        intro p hp
        cases p with
        | waiting k' id n => exact absurd rfl (hnow _ hp k' id n)
        | _ => simp [Pc.ticket?]
      rw [this]; simp
    · intro p hp k' id n hpe _; exact absurd hpe (hnow p hp k' id n)
    · show s.sh.count - 1 = List.countP (Pc.inside 0) (s.ths.set i .notifying)
      rw [h]; symm; rw [List.countP_eq_zero]
      intro p hp
      cases p with
      | waiting k' id n => exact absurd rfl (hnow _ hp k' id n)
      | holding k' => have := hnoin _ hp; simp [Pc.inside] at this
      | _ => simp [Pc.inside]
    · intro p hp hin
      cases p with
      | waiting k' id n => exact absurd rfl (hnow _ hp k' id n)
      | holding k' => have := hnoin _ hp; simp [Pc.inside] at this
      | _ => simp [Pc.inside] at hin
    · intro hw; cases hw
    · show Act.none = Act.none ↔ s.sh.count - 1 = 0
      simp [h]
    · intro _; exact ⟨rfl, rfl, rfl⟩
    · intro p hp k' id hpe _; exact absurd hpe (hnow p hp k' id false)
  | cons e q =>
    have hqwf := I.qwf; rw [hq] at hqwf
    obtain ⟨h1, h2, h3, h4⟩ := QWF.head_ub hqwf
    have hsel : select { s.sh with count := s.sh.count - 1 } =
        ⟨q, e.kind.act, e.ub - s.sh.bound, s.sh.idc, e.ub⟩ := by simp [select, hq]
    rw [hsel]
    -- newly admitted threads
    have hnew : ∀ p ∈ s.ths.set i .notifying, Pc.inside e.ub p = true →
        ∃ k' id n, p = .waiting k' id n ∧ s.sh.bound ≤ id ∧ id < e.ub := by
      intro p hp hin
      have hno := hnoin p hp
      cases p with
      | waiting k' id n =>
        simp [Pc.inside] at hin hno
        exact ⟨k', id, n, rfl, hno, hin⟩
      | holding k' => simp [Pc.inside] at hno
      | _ => simp [Pc.inside] at hin
    refine ⟨h3, ?_, ?_, ?_, ?_, ?_, ?_, ?_, ?_⟩
    · exact tickets_after_select s.sh.bound s.sh.idc e.ub _ (by omega) h2 htk
    · intro p hp k' id n hpe hb
      have := holdq p hp k' id n hpe (by show s.sh.bound ≤ id; have : e.ub ≤ id := hb; omega)
      rw [hq] at this
      have hb' : e.ub ≤ id := hb
      simp only [kindAt] at this
      have hnlt : ¬ id < e.ub := by omega
      simpa [hnlt] using this
    · exact (countP_after_select s.sh.bound s.sh.idc e.ub _ (by omega) h2 hz htk).symm
    · intro p hp hin k' hk'
      obtain ⟨k2, id, n, hpe, hb, hlt⟩ := hnew p hp hin
      have := holdq p hp k2 id n hpe hb
      rw [hq] at this
      simp only [kindAt, hlt, if_true] at this
      subst hpe
      simp [Pc.kind?] at hk'
      show k'.act = e.kind.act
      rw [← hk']; cases this; rfl
    · intro hw
      show e.ub - s.sh.bound ≤ 1
      have : e.kind = .write := by cases hk : e.kind <;> simp_all [Kind.act]
      have := h4 this; omega
    · show e.kind.act = Act.none ↔ e.ub - s.sh.bound = 0
      constructor
      · intro hh; cases hk : e.kind <;> simp_all [Kind.act]
      · intro hh; omega
    · intro hh; cases hk : e.kind <;> simp_all [Kind.act]
    · intro _ _ _ _ _ _; exact hnotif

theorem unlockMore_inv (s : State) (i : Nat) (k : Kind) (hi : s.ths[i]? = some (.holding k)) (h : s.sh.count - 1 ≠ 0)
    (I : Inv s) : Inv { sh := { s.sh with count := s.sh.count - 1 }, ths := s.ths.set i .idle } := by
  have hcnt := countP_set (Pc.inside s.sh.bound) s.ths i (.holding k) .idle hi
  simp only [Pc.inside] at hcnt
  refine ⟨I.qwf, ?_, ?_, ?_, ?_, ?_, ?_, ?_, ?_⟩
  · show ((s.ths.set i .idle).filterMap _).Perm _
    rw [filterMap_set_none _ _ _ _ _ hi (by simp [Pc.ticket?]) (by simp [Pc.ticket?])]
    exact I.tickets
  · intro p hp k' id n hpe hb
    rcases mem_set_of hp with h' | h'
    · rw [h'] at hpe; cases hpe
    · exact I.kindsQ p h' k' id n hpe hb
  · show s.sh.count - 1 = List.countP (Pc.inside s.sh.bound) (s.ths.set i .idle)
    have := I.count; simp at hcnt; omega
  · intro p hp hin k' hk'
    rcases mem_set_of hp with h' | h'
    · subst h'; simp [Pc.inside] at hin
    · exact I.kinds p h' hin k' hk'
  · intro hw; show s.sh.count - 1 ≤ 1; have := I.wr hw; omega
  · show s.sh.act = .none ↔ s.sh.count - 1 = 0
    constructor
    · intro h0; have := I.none_iff.1 h0; omega
    · intro h0; exact absurd h0 h
  · exact I.none_q
  · intro p hp k' id hpe hlt
    rcases mem_set_of hp with h' | h'
    · rw [h'] at hpe; cases hpe
    · exact mem_set_preserved (I.live p h' k' id hpe hlt) hi (by simp)


@[simp] theorem inside_wakeAll (b : Nat) (p : Pc) : Pc.inside b (wakeAll p) = Pc.inside b p := by
  cases p <;> simp [wakeAll, Pc.inside]
@[simp] theorem ticket_wakeAll (b : Nat) (p : Pc) : Pc.ticket? b (wakeAll p) = Pc.ticket? b p := by
  cases p <;> simp [wakeAll, Pc.ticket?]
@[simp] theorem kind_wakeAll (p : Pc) : (wakeAll p).kind? = p.kind? := by
  cases p <;> simp [wakeAll, Pc.kind?]

theorem notify_inv (s : State) (i : Nat) (hi : s.ths[i]? = some .notifying) (I : Inv s) :
    Inv { s with ths := (s.ths.set i .idle).map wakeAll } := by
  have hcnt := countP_set (Pc.inside s.sh.bound) s.ths i .notifying .idle hi
  simp only [Pc.inside] at hcnt
  refine ⟨I.qwf, ?_, ?_, ?_, ?_, I.wr, I.none_iff, I.none_q, ?_⟩
  · show (((s.ths.set i .idle).map wakeAll).filterMap _).Perm _
    rw [List.filterMap_map]
    have : (Pc.ticket? s.sh.bound ∘ wakeAll) = Pc.ticket? s.sh.bound := by funext p; simp
    rw [this, filterMap_set_none _ _ _ _ _ hi (by simp [Pc.ticket?]) (by simp [Pc.ticket?])]
    exact I.tickets
  · intro p hp k' id n hpe hb
    rw [List.mem_map] at hp
    obtain ⟨p0, hp0, rfl⟩ := hp
    cases p0 with
    | waiting k2 id2 n2 =>
      simp [wakeAll] at hpe
      obtain ⟨rfl, rfl, _⟩ := hpe
      rcases mem_set_of hp0 with h' | h'
      · cases h'
      · exact I.kindsQ _ h' k2 id2 n2 rfl hb
    | _ => simp [wakeAll] at hpe
  · show s.sh.count = List.countP (Pc.inside s.sh.bound) ((s.ths.set i .idle).map wakeAll)
    rw [List.countP_map]
    have : (Pc.inside s.sh.bound ∘ wakeAll) = Pc.inside s.sh.bound := by funext p; simp
    rw [this]; have := I.count; simp at hcnt; omega
  · intro p hp hin k' hk'
    rw [List.mem_map] at hp
    obtain ⟨p0, hp0, rfl⟩ := hp
    simp at hin hk'
    rcases mem_set_of hp0 with h' | h'
    · subst h'; simp [Pc.inside] at hin
    · exact I.kinds p0 h' hin k' hk'
  · intro p hp k' id hpe _
    rw [List.mem_map] at hp
    obtain ⟨p0, _, rfl⟩ := hp
    cases p0 <;> simp [wakeAll] at hpe

end Rwp
