import Tulz.Proofs.Rwp.Proof2
namespace Rwp

theorem range'_filter_ge (lo n ub : Nat) (h1 : lo ≤ ub) (h2 : ub ≤ lo + n) :
    (List.range' lo n).filter (fun x => decide (ub ≤ x)) = List.range' ub (lo + n - ub) := by
  induction n generalizing lo with
  | zero => have : ub = lo := by omega
            subst this; simp
  | succ n ih =>
    rw [List.range'_succ, List.filter_cons]
    by_cases h : ub ≤ lo
    · have : ub = lo := by omega
      subst this
      simp only [Nat.le_refl, decide_true, if_true]
      have e : ub + (n+1) - ub = n + 1 := by omega
      rw [e, List.range'_succ]
      congr 1
      rw [List.filter_eq_self.2]
      intro a ha; simp [List.mem_range'_1] at ha; simp; omega
    · simp only [h, decide_false]
      have := ih (lo+1) (by omega) (by omega)
      simp at this ⊢
      rw [this]; congr 1; omega

theorem range'_countP_lt (lo n ub : Nat) (h1 : lo ≤ ub) (h2 : ub ≤ lo + n) :
    (List.range' lo n).countP (fun x => decide (x < ub)) = ub - lo := by
  induction n generalizing lo with
  | zero => simp; omega
  | succ n ih =>
    rw [List.range'_succ, List.countP_cons]
    by_cases h : lo < ub
    · simp only [h, decide_true, if_true]
      rw [ih (lo+1) (by omega) (by omega)]; omega
    · have : ub = lo := by omega
      subst this
      simp only [Nat.lt_irrefl, decide_false]
      rw [List.countP_eq_zero.2]
      · simp
      · intro a ha; simp [List.mem_range'_1] at ha; simp; omega

theorem ticket?_mono (lo ub : Nat) (h : lo ≤ ub) (p : Pc) :
    Pc.ticket? ub p = (Pc.ticket? lo p).filter (fun x => decide (ub ≤ x)) := by
  cases p <;> simp [Pc.ticket?]
  rename_i k id n
  by_cases h1 : ub ≤ id
  · have : lo ≤ id := by omega
    simp [h1, this, Option.filter]
  · by_cases h2 : lo ≤ id <;> simp [h1, h2, Option.filter]

theorem filterMap_ticket_mono (lo ub : Nat) (h : lo ≤ ub) (l : List Pc) :
    l.filterMap (Pc.ticket? ub) = (l.filterMap (Pc.ticket? lo)).filter (fun x => decide (ub ≤ x)) := by
  induction l with
  | nil => rfl
  | cons p l ih =>
    simp only [List.filterMap_cons]
    rw [ticket?_mono lo ub h p]
    cases hp : Pc.ticket? lo p with
    | none => simpa using ih
    | some x =>
      simp only [Option.filter]
      by_cases hx : ub ≤ x <;> simp [hx, List.filter_cons, ih]

theorem inside_mono (lo ub : Nat) (h : lo ≤ ub) (p : Pc) :
    Pc.inside ub p = (Pc.inside lo p || (match Pc.ticket? lo p with | some x => decide (x < ub) | none => false)) := by
  cases p <;> simp [Pc.inside, Pc.ticket?]
  rename_i k id n
  by_cases h1 : id < lo
  · have : id < ub := by omega
    simp [h1, this]
  · have : lo ≤ id := by omega
    simp [h1, this]

theorem countP_inside_mono (lo ub : Nat) (h : lo ≤ ub) (l : List Pc) (hz : l.countP (Pc.inside lo) = 0) :
    l.countP (Pc.inside ub) = (l.filterMap (Pc.ticket? lo)).countP (fun x => decide (x < ub)) := by
  induction l with
  | nil => rfl
  | cons p l ih =>
    rw [List.countP_cons] at hz
    have hp : Pc.inside lo p = false := by
      cases hh : Pc.inside lo p with
      | false => rfl
      | true => simp [hh] at hz
    have hz' : l.countP (Pc.inside lo) = 0 := by omega
    rw [List.countP_cons, List.filterMap_cons, inside_mono lo ub h p, hp, ih hz']
    cases ht : Pc.ticket? lo p with
    | none => simp
    | some x => simp [List.countP_cons]

/-- the admission lemma: after `select` pops an entry with upper bound `ub`, exactly `ub - bound` threads
    become admitted, provided nobody was inside. -/
theorem countP_after_select (bound idc ub : Nat) (l : List Pc) (h1 : bound ≤ ub) (h2 : ub ≤ idc)
    (hz : l.countP (Pc.inside bound) = 0)
    (ht : (l.filterMap (Pc.ticket? bound)).Perm (List.range' bound (idc - bound))) :
    l.countP (Pc.inside ub) = ub - bound := by
  rw [countP_inside_mono bound ub h1 l hz, ht.countP_eq, range'_countP_lt bound (idc - bound) ub h1 (by omega)]

theorem tickets_after_select (bound idc ub : Nat) (l : List Pc) (h1 : bound ≤ ub) (h2 : ub ≤ idc)
    (ht : (l.filterMap (Pc.ticket? bound)).Perm (List.range' bound (idc - bound))) :
    (l.filterMap (Pc.ticket? ub)).Perm (List.range' ub (idc - ub)) := by
  rw [filterMap_ticket_mono bound ub h1]
  have := ht.filter (fun x => decide (ub ≤ x))
  rw [range'_filter_ge bound (idc - bound) ub h1 (by omega)] at this
  have e : bound + (idc - bound) - ub = idc - ub := by omega
  rw [e] at this; exact this

end Rwp
