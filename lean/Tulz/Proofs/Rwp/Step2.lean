import Tulz.Proofs.Rwp.Step
namespace Rwp

theorem mem_set_preserved {α} {l : List α} {i : Nat} {a b x : α} (h : a ∈ l) (hi : l[i]? = some b) (hne : a ≠ b) :
    a ∈ l.set i x := by
  obtain ⟨j, hj⟩ := List.getElem?_of_mem h
  have hji : j ≠ i := by intro e; subst e; rw [hi] at hj; cases hj; exact hne rfl
  have : (l.set i x)[j]? = some a := by rw [List.getElem?_set_ne (Ne.symm hji)]; exact hj
  exact List.mem_of_getElem? this

theorem filterMap_set_same {α β} (f : α → Option β) (l : List α) (i : Nat) (a x : α) (h : l[i]? = some a)
    (hf : f x = f a) : (l.set i x).filterMap f = l.filterMap f := by
  induction l generalizing i with
  | nil => simp at h
  | cons b l ih =>
    cases i with
    | zero => simp at h; subst h; simp [List.filterMap_cons, hf]
    | succ i => simp at h; simp [List.filterMap_cons, ih i h]

@[simp] theorem enqueue_act (s : Sh) (k : Kind) : (enqueue s k).act = s.act := by
  unfold enqueue; cases k <;> simp <;> split <;> (try split) <;> rfl
@[simp] theorem enqueue_count (s : Sh) (k : Kind) : (enqueue s k).count = s.count := by
  unfold enqueue; cases k <;> simp <;> split <;> (try split) <;> rfl
@[simp] theorem enqueue_idc (s : Sh) (k : Kind) : (enqueue s k).idc = s.idc := by
  unfold enqueue; cases k <;> simp <;> split <;> (try split) <;> rfl
@[simp] theorem enqueue_bound (s : Sh) (k : Kind) : (enqueue s k).bound = s.bound := by
  unfold enqueue; cases k <;> simp <;> split <;> (try split) <;> rfl

/-- a pending ticket is below the ticket counter -/
theorem Inv.ticket_lt {s : State} (I : Inv s) {p : Pc} (hp : p ∈ s.ths) {k id n} (hpe : p = .waiting k id n)
    (hb : s.sh.bound ≤ id) : id < s.sh.idc := by
  have hm : id ∈ s.ths.filterMap (Pc.ticket? s.sh.bound) := by
    rw [List.mem_filterMap]; exact ⟨p, hp, by subst hpe; simp [Pc.ticket?, hb]⟩
  have := I.tickets.mem_iff.1 hm
  rw [List.mem_range'_1] at this; omega

theorem not_fast_act {s : Sh} {k : Kind} (h : fast s k = false) (hq : s.act = .none → s.queue = []) : s.act ≠ .none := by
  intro h0
  have := hq h0
  simp [fast, this, h0] at h

theorem callSlow_inv (s : State) (i : Nat) (k : Kind) (hi : s.ths[i]? = some .idle) (hf : fast s.sh k = false)
    (I : Inv s) :
    Inv { sh := enqueue { s.sh with idc := s.sh.idc + 1 } k, ths := s.ths.set i (.waiting k s.sh.idc false) } := by
  have hle := I.qwf.le
  have hact : s.sh.act ≠ .none := not_fast_act hf (fun h => (I.none_q h).1)
  have hcnt := countP_set (Pc.inside s.sh.bound) s.ths i .idle (.waiting k s.sh.idc false) hi
  have hnin : Pc.inside s.sh.bound (.waiting k s.sh.idc false) = false := by simp [Pc.inside]; omega
  simp only [Pc.inside] at hcnt
  refine ⟨?_, ?_, ?_, ?_, ?_, ?_, ?_, ?_, ?_⟩
  · simp only [enqueue_bound, enqueue_idc]
    exact qwf_enqueue s.sh.bound s.sh.idc s.sh.queue s.sh.act s.sh.count k I.qwf
  · simp only [enqueue_bound, enqueue_idc]
    have h1 := filterMap_set_some (Pc.ticket? s.sh.bound) s.ths i .idle (.waiting k s.sh.idc false) s.sh.idc hi
      (by simp [Pc.ticket?]) (by simp [Pc.ticket?, hle])
    refine h1.trans ?_
    have e : s.sh.idc + 1 - s.sh.bound = (s.sh.idc - s.sh.bound) + 1 := by omega
    rw [e, List.range'_concat]
    have e2 : s.sh.bound + 1 * (s.sh.idc - s.sh.bound) = s.sh.idc := by omega
    rw [e2]
    exact I.tickets.append_right _
  · intro p hp k' id n hpe hb
    simp only [enqueue_bound] at hb
    have hke := kindAt_enqueue s.sh.queue s.sh.act s.sh.count k I.qwf id hb
    show kindAt (enqueue ⟨s.sh.queue, s.sh.act, s.sh.count, s.sh.idc + 1, s.sh.bound⟩ k).queue id = some k'
    rw [hke]
    rcases mem_set_of hp with h | h
    · rw [h] at hpe; cases hpe; simp
    · have hlt := I.ticket_lt h hpe hb
      have : id ≠ s.sh.idc := by omega
      simp [this]; exact I.kindsQ p h k' id n hpe hb
  · simp only [enqueue_bound, enqueue_count]
    show s.sh.count = List.countP (Pc.inside s.sh.bound) (s.ths.set i (.waiting k s.sh.idc false))
    have := I.count
    have h2 : ¬ s.sh.idc < s.sh.bound := by omega
    simp [h2] at hcnt; omega
  · intro p hp hin k' hk'
    simp only [enqueue_bound] at hin
    simp only [enqueue_act]
    rcases mem_set_of hp with h | h
    · subst h; rw [hnin] at hin; cases hin
    · exact I.kinds p h hin k' hk'
  · simp only [enqueue_act, enqueue_count]; exact I.wr
  · simp only [enqueue_act, enqueue_count]; exact I.none_iff
  · simp only [enqueue_act]; intro h; exact absurd h hact
  · intro p hp k' id hpe hlt
    simp only [enqueue_bound] at hlt
    rcases mem_set_of hp with h | h
    · rw [h] at hpe; cases hpe; omega
    · have := I.live p h k' id hpe hlt
      exact mem_set_preserved this hi (by simp)

theorem wakeOk_inv (s : State) (i : Nat) (k : Kind) (id : Nat) (n : Bool) (hi : s.ths[i]? = some (.waiting k id n))
    (h : id < s.sh.bound) (I : Inv s) : Inv { s with ths := s.ths.set i (.holding k) } := by
  have hcnt := countP_set (Pc.inside s.sh.bound) s.ths i (.waiting k id n) (.holding k) hi
  have hmem := List.mem_of_getElem? hi
  simp only [Pc.inside] at hcnt
  refine ⟨I.qwf, ?_, ?_, ?_, ?_, I.wr, I.none_iff, I.none_q, ?_⟩
  · show ((s.ths.set i (.holding k)).filterMap _).Perm _
    rw [filterMap_set_none _ _ _ _ _ hi (by simp [Pc.ticket?]; omega) (by simp [Pc.ticket?])]
    exact I.tickets
  · intro p hp k' id' n' hpe hb
    rcases mem_set_of hp with h' | h'
    · rw [h'] at hpe; cases hpe
    · exact I.kindsQ p h' k' id' n' hpe hb
  · show s.sh.count = List.countP (Pc.inside s.sh.bound) (s.ths.set i (.holding k))
    have := I.count; simp [h] at hcnt; omega
  · intro p hp hin k' hk'
    rcases mem_set_of hp with h' | h'
    · subst h'; simp [Pc.kind?] at hk'; subst hk'
      exact I.kinds _ hmem (by simp [Pc.inside, h]) k (by simp [Pc.kind?])
    · exact I.kinds p h' hin k' hk'
  · intro p hp k' id' hpe hlt
    rcases mem_set_of hp with h' | h'
    · rw [h'] at hpe; cases hpe
    · exact mem_set_preserved (I.live p h' k' id' hpe hlt) hi (by simp)

theorem wakeNo_inv (s : State) (i : Nat) (k : Kind) (id : Nat) (n : Bool) (hi : s.ths[i]? = some (.waiting k id n))
    (h : ¬ id < s.sh.bound) (I : Inv s) : Inv { s with ths := s.ths.set i (.waiting k id false) } := by
  have hcnt := countP_set (Pc.inside s.sh.bound) s.ths i (.waiting k id n) (.waiting k id false) hi
  have hmem := List.mem_of_getElem? hi
  simp only [Pc.inside] at hcnt
  have hb : s.sh.bound ≤ id := by omega
  refine ⟨I.qwf, ?_, ?_, ?_, ?_, I.wr, I.none_iff, I.none_q, ?_⟩
  · show ((s.ths.set i (.waiting k id false)).filterMap _).Perm _
    have : (s.ths.set i (.waiting k id false)).filterMap (Pc.ticket? s.sh.bound) = s.ths.filterMap (Pc.ticket? s.sh.bound) :=
      filterMap_set_same _ _ _ _ _ hi (by simp [Pc.ticket?])
    rw [this]; exact I.tickets
  · intro p hp k' id' n' hpe hb'
    rcases mem_set_of hp with h' | h'
    · rw [h'] at hpe; cases hpe
      exact I.kindsQ _ hmem k id n rfl hb
    · exact I.kindsQ p h' k' id' n' hpe hb'
  · show s.sh.count = List.countP (Pc.inside s.sh.bound) (s.ths.set i (.waiting k id false))
    have := I.count; simp [h] at hcnt; omega
  · intro p hp hin k' hk'
    rcases mem_set_of hp with h' | h'
    · subst h'; simp [Pc.inside, h] at hin
    · exact I.kinds p h' hin k' hk'
  · intro p hp k' id' hpe hlt
    rcases mem_set_of hp with h' | h'
    · rw [h'] at hpe; cases hpe; exact absurd hlt h
    · exact mem_set_preserved (I.live p h' k' id' hpe hlt) hi (by simp)

end Rwp
