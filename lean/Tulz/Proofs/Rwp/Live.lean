import Tulz.Proofs.Rwp.Main
namespace Rwp

/-- every extended step is a step of the base system -/
theorem XStep.base_step {x y : XState} (h : XStep x y) : Step x.base y.base := by
  cases h with
  | callFast i k rest hp hi hf => exact Step.callFast _ i k hi hf
  | callSlow i k rest hp hi hf => exact Step.callSlow _ i k hi hf
  | wakeOk i k id hi h => exact Step.wakeOk _ i k id true hi h
  | wakeNo i k id hi h => exact Step.wakeNo _ i k id true hi h
  | unlockLast i k hi h => exact Step.unlockLast _ i k hi h
  | unlockMore i k hi h => exact Step.unlockMore _ i k hi h
  | notify i hi => exact Step.notify _ i hi

theorem XReach.base_reach {ps x} (h : XReach ps x) : Reach ps.length x.base := by
  induction h with
  | init => exact Reach.init
  | step _ hs ih => exact Reach.step ih hs.base_step

theorem XReach.inv {ps x} (h : XReach ps x) : Inv x.base := reach_inv h.base_reach

/-- the two lists stay aligned -/
theorem XReach.len {ps x} (h : XReach ps x) : x.base.ths.length = x.progs.length := by
  induction h with
  | init => simp [xinit, Rwp.init]
  | step _ hs ih => cases hs <;> simp_all

/-- a thread is finished when it is idle and has nothing left to do -/
def doneAt (x : XState) (i : Nat) : Prop := x.base.ths[i]? = some .idle ∧ x.progs[i]? = some []
def allDone (x : XState) : Prop := ∀ i, i < x.base.ths.length → doneAt x i

/-- some inside thread can always move (or a pending notification can be delivered) -/
theorem inside_can_move {ps x} (h : XReach ps x) (hc : 0 < x.base.sh.count) : ∃ y, XStep x y := by
  have I := h.inv
  rw [I.count, List.countP_pos_iff] at hc
  obtain ⟨p, hp, hin⟩ := hc
  obtain ⟨j, hj⟩ := List.getElem?_of_mem hp
  cases p with
  | holding k =>
    by_cases hz : x.base.sh.count - 1 = 0
    · exact ⟨_, XStep.unlockLast x j k hj hz⟩
    · exact ⟨_, XStep.unlockMore x j k hj hz⟩
  | waiting k id n =>
    have hlt : id < x.base.sh.bound := by simpa [Pc.inside] using hin
    cases n with
    | true => exact ⟨_, XStep.wakeOk x j k id hj hlt⟩
    | false =>
      have := I.live _ hp k id rfl hlt
      obtain ⟨m, hm⟩ := List.getElem?_of_mem this
      exact ⟨_, XStep.notify x m hm⟩
  | idle => simp [Pc.inside] at hin
  | notifying => simp [Pc.inside] at hin

/-- **C02 (deadlock freedom)**: unless every thread has finished, some non-spurious step is enabled. -/
theorem C02_no_deadlock (ps : List (List Kind)) (x : XState) (h : XReach ps x) (hnd : ¬ allDone x) : ∃ y, XStep x y := by
  have I := h.inv
  have hlen := h.len
  unfold allDone at hnd
  have ⟨i, hilt, hni⟩ : ∃ i, i < x.base.ths.length ∧ ¬ doneAt x i := by
    apply Classical.byContradiction
    intro hcon
    apply hnd
    intro i hi
    apply Classical.byContradiction
    intro hnd'
    exact hcon ⟨i, hi, hnd'⟩
  have hpi : ∃ pr, x.progs[i]? = some pr := ⟨x.progs[i]'(by omega), List.getElem?_eq_getElem (by omega)⟩
  obtain ⟨pr, hpr⟩ := hpi
  have hti : x.base.ths[i]? = some (x.base.ths[i]'hilt) := List.getElem?_eq_getElem hilt
  cases hpc : x.base.ths[i]'hilt with
  | idle =>
    rw [hpc] at hti
    cases pr with
    | nil => exact absurd ⟨hti, hpr⟩ hni
    | cons k rest =>
      cases hf : fast x.base.sh k with
      | true => exact ⟨_, XStep.callFast x i k rest hpr hti hf⟩
      | false => exact ⟨_, XStep.callSlow x i k rest hpr hti hf⟩
  | holding k =>
    rw [hpc] at hti
    exact inside_can_move h (inside_pos_count I hti)
  | notifying =>
    rw [hpc] at hti
    exact ⟨_, XStep.notify x i hti⟩
  | waiting k id n =>
    rw [hpc] at hti
    have hmem := List.mem_of_getElem? hti
    by_cases hlt : id < x.base.sh.bound
    · -- admitted: it is inside, so the count is positive
      exact inside_can_move h (by
        rw [I.count]; exact countP_pos_of_mem _ _ _ hmem (by simp [Pc.inside, hlt]))
    · -- pending: the queue is non-empty, hence somebody is inside
      have hb : x.base.sh.bound ≤ id := by omega
      have hidc := I.ticket_lt hmem rfl hb
      have hne : x.base.sh.act ≠ .none := by
        intro h0
        have := I.none_q h0
        omega
      have hc : x.base.sh.count ≠ 0 := fun h0 => hne (I.none_iff.2 h0)
      exact inside_can_move h (by omega)

/-- **C02 (idle restored)**: when every thread has finished the Resource is back in its initial state. -/
theorem C02_idle_restored (ps : List (List Kind)) (x : XState) (h : XReach ps x) (hd : allDone x) :
    x.base.sh = ⟨[], .none, 0, 0, 0⟩ := by
  have I := h.inv
  have hz : x.base.ths.countP (Pc.inside x.base.sh.bound) = 0 := by
    rw [List.countP_eq_zero]
    intro p hp
    obtain ⟨j, hj⟩ := List.getElem?_of_mem hp
    have hjl : j < x.base.ths.length := by
      rcases Nat.lt_or_ge j x.base.ths.length with h' | h'
      · exact h'
      · rw [List.getElem?_eq_none h'] at hj; cases hj
    have := (hd j hjl).1
    rw [hj] at this; cases this; simp [Pc.inside]
  have hc : x.base.sh.count = 0 := by rw [I.count]; exact hz
  have ha := I.none_iff.2 hc
  obtain ⟨hq, hi, hb⟩ := I.none_q ha
  cases hsh : x.base.sh with
  | mk q a c i b => rw [hsh] at hq hi hb hc ha; simp_all

/-- **C02 (an admitted thread wakes up on its own)**: needs only its own wake step and the pending notify of others. -/
theorem C02_admitted_wakes (ps : List (List Kind)) (x : XState) (h : XReach ps x) (i : Nat) (k id n)
    (hi : x.base.ths[i]? = some (.waiting k id n)) (ha : id < x.base.sh.bound) :
    (∃ y, XStep x y ∧ y.base.ths[i]? = some (.holding k)) ∨
    (∃ (m : Nat) (y : XState), x.base.ths[m]? = some Pc.notifying ∧ XStep x y ∧ y.base.ths[i]? = some (.waiting k id true) ∧
        y.base.sh = x.base.sh) := by
  have I := h.inv
  cases n with
  | true =>
    left
    refine ⟨_, XStep.wakeOk x i k id hi ha, ?_⟩
    have hlt : i < x.base.ths.length := by
      rcases Nat.lt_or_ge i x.base.ths.length with h' | h'
      · exact h'
      · rw [List.getElem?_eq_none h'] at hi; cases hi
    simp [List.getElem?_set_self hlt]
  | false =>
    right
    have := I.live _ (List.mem_of_getElem? hi) k id rfl ha
    obtain ⟨m, hm⟩ := List.getElem?_of_mem this
    have hmi : m ≠ i := by intro e; subst e; rw [hi] at hm; cases hm
    refine ⟨m, _, hm, XStep.notify x m hm, ?_, rfl⟩
    show ((x.base.ths.set m .idle).map wakeAll)[i]? = some (.waiting k id true)
    rw [List.getElem?_map, List.getElem?_set_ne hmi, hi]; rfl

end Rwp
