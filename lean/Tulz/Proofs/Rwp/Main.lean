import Tulz.Proofs.Rwp.Step3
namespace Rwp

theorem inv_step {s t : State} (I : Inv s) (h : Step s t) : Inv t := by
  cases h with
  | callFast i k hi hf => exact callFast_inv s i k hi hf I
  | callSlow i k hi hf => exact callSlow_inv s i k hi hf I
  | wakeOk i k id n hi h => exact wakeOk_inv s i k id n hi h I
  | wakeNo i k id n hi h => exact wakeNo_inv s i k id n hi h I
  | unlockLast i k hi h => exact unlockLast_inv s i k hi h I
  | unlockMore i k hi h => exact unlockMore_inv s i k hi h I
  | notify i hi => exact notify_inv s i hi I

theorem reach_inv {n : Nat} {s : State} (h : Reach n s) : Inv s := by
  induction h with
  | init => exact inv_init n
  | step _ hs ih => exact inv_step ih hs

def holds (s : State) (i : Nat) (k : Kind) : Prop := s.ths[i]? = some (.holding k)

theorem two_le_countP {α} (p : α → Bool) (l : List α) (i j : Nat) (a b : α) (hij : i ≠ j)
    (hi : l[i]? = some a) (hj : l[j]? = some b) (ha : p a = true) (hb : p b = true) : 2 ≤ l.countP p := by
  induction l generalizing i j with
  | nil => simp at hi
  | cons c l ih =>
    rw [List.countP_cons]
    cases i with
    | zero =>
      cases j with
      | zero => exact absurd rfl hij
      | succ j =>
        simp at hi hj; subst hi
        have := countP_pos_of_mem p l b (List.mem_of_getElem? hj) hb
        simp only [ha, if_true]; omega
    | succ i =>
      cases j with
      | zero =>
        simp at hi hj; subst hj
        have := countP_pos_of_mem p l a (List.mem_of_getElem? hi) ha
        simp only [hb, if_true]; omega
      | succ j =>
        simp at hi hj
        have := ih i j (by omega) hi hj
        omega

/-- **C01**: in every reachable state, two distinct threads inside the lock are both readers. -/
theorem C01_exclusion (n : Nat) (s : State) (h : Reach n s) (i j : Nat) (hij : i ≠ j) (ki kj : Kind)
    (hi : holds s i ki) (hj : holds s j kj) : ki = .read ∧ kj = .read := by
  have I := reach_inv h
  have h2 := two_le_countP (Pc.inside s.sh.bound) s.ths i j _ _ hij hi hj (by simp [Pc.inside]) (by simp [Pc.inside])
  rw [← I.count] at h2
  have hki := I.kinds _ (List.mem_of_getElem? hi) (by simp [Pc.inside]) ki (by simp [Pc.kind?])
  have hkj := I.kinds _ (List.mem_of_getElem? hj) (by simp [Pc.inside]) kj (by simp [Pc.kind?])
  have hnw : s.sh.act ≠ .write := by intro hw; have := I.wr hw; omega
  constructor
  · cases ki with
    | read => rfl
    | write => exact absurd hki.symm hnw
  · cases kj with
    | read => rfl
    | write => exact absurd hkj.symm hnw

/-- non-vacuity: two readers inside at once is reachable. -/
example : ∃ s, Reach 2 s ∧ holds s 0 .read ∧ holds s 1 .read := by
  refine ⟨_, Reach.step (Reach.step Reach.init (Step.callFast (init 2) 0 .read rfl rfl)) (Step.callFast _ 1 .read rfl rfl), ?_, ?_⟩ <;> rfl

end Rwp
