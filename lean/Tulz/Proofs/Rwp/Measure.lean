import Tulz.Proofs.Rwp.Live
namespace Rwp

/-- remaining work of one thread: 4 units per outstanding lock/unlock pair plus what is left of the current one -/
def work : Pc → List Kind → Nat
  | .idle, pr => 4 * pr.length
  | .waiting _ _ _, pr => 4 * pr.length + 3
  | .holding _, pr => 4 * pr.length + 2
  | .notifying, pr => 4 * pr.length + 1

def isNotified : Pc → Bool
  | .waiting _ _ true => true
  | _ => false

def m1 (x : XState) : Nat := (List.zipWith work x.base.ths x.progs).sum
def measure (x : XState) : Nat := m1 x * (x.base.ths.length + 1) + x.base.ths.countP isNotified

theorem sum_zipWith_set {α β} (f : α → β → Nat) (l : List α) (r : List β) (i : Nat) (a a' : α) (b b' : β)
    (ha : l[i]? = some a) (hb : r[i]? = some b) :
    (List.zipWith f (l.set i a') (r.set i b')).sum + f a b = (List.zipWith f l r).sum + f a' b' := by
  induction l generalizing r i with
  | nil => simp at ha
  | cons c l ih =>
    cases r with
    | nil => simp at hb
    | cons d r =>
      cases i with
      | zero => simp at ha hb; subst ha; subst hb; simp [List.zipWith]; omega
      | succ i =>
        simp at ha hb
        have := ih r i ha hb
        simp [List.zipWith]; omega

theorem set_self {β} (r : List β) (i : Nat) (b : β) (hb : r[i]? = some b) : r.set i b = r := by
  induction r generalizing i with
  | nil => rfl
  | cons d r ih =>
    cases i with
    | zero => simp at hb; subst hb; rfl
    | succ i => simp at hb; simp [ih i hb]

theorem progs_at {ps x} (h : XReach ps x) {i : Nat} {p : Pc} (hi : x.base.ths[i]? = some p) : ∃ pr, x.progs[i]? = some pr := by
  have hl := h.len
  have : i < x.base.ths.length := by
    rcases Nat.lt_or_ge i x.base.ths.length with h' | h'
    · exact h'
    · rw [List.getElem?_eq_none h'] at hi; cases hi
  exact ⟨x.progs[i]'(by omega), List.getElem?_eq_getElem (by omega)⟩

theorem work_wakeAll (p : Pc) (pr) : work (wakeAll p) pr = work p pr := by cases p <;> rfl

theorem zipWith_map_wakeAll (l : List Pc) (r : List (List Kind)) :
    List.zipWith work (l.map wakeAll) r = List.zipWith work l r := by
  induction l generalizing r with
  | nil => rfl
  | cons a l ih => cases r with
    | nil => rfl
    | cons b r => simp [List.zipWith, work_wakeAll, ih]

theorem countP_le_length' {α} (p : α → Bool) (l : List α) : l.countP p ≤ l.length := List.countP_le_length

theorem lt_of_dec (A' d n c c' : Nat) (hd : 1 ≤ d) (hc : c' ≤ c) : A' * (n+1) + c' < (A' + d) * (n+1) + c := by
  rw [Nat.add_mul]
  have : n + 1 ≤ d * (n+1) := Nat.le_mul_of_pos_left _ hd
  omega

theorem lt_of_dec_notify (A' n c c' : Nat) (hc : c' ≤ n) : A' * (n+1) + c' < (A' + 1) * (n+1) + c := by
  rw [Nat.add_mul]; omega

/-- **C02 (termination)**: every non-spurious step strictly decreases the measure, so every run is finite. -/
theorem C02_measure_decreases (ps : List (List Kind)) (x y : XState) (h : XReach ps x) (hs : XStep x y) :
    measure y < measure x := by
  have hlen := h.len
  cases hs with
  | callFast i k rest hp hi hf =>
    have hs := sum_zipWith_set work x.base.ths x.progs i .idle (.holding k) (k :: rest) rest hi hp
    have hc := countP_set isNotified x.base.ths i .idle (.holding k) hi
    simp only [work, isNotified, List.length_cons] at hs hc
    simp only [measure, m1, List.length_set]
    simp at hc
    have : (List.zipWith work (x.base.ths.set i (Pc.holding k)) (x.progs.set i rest)).sum + 2 =
        (List.zipWith work x.base.ths x.progs).sum := by omega
    rw [← this]; exact lt_of_dec _ _ _ _ _ (by omega) (by omega)
  | callSlow i k rest hp hi hf =>
    have hs := sum_zipWith_set work x.base.ths x.progs i .idle (.waiting k x.base.sh.idc false) (k :: rest) rest hi hp
    have hc := countP_set isNotified x.base.ths i .idle (.waiting k x.base.sh.idc false) hi
    simp only [work, isNotified, List.length_cons] at hs hc
    simp only [measure, m1, List.length_set]
    simp at hc
    have : (List.zipWith work (x.base.ths.set i (Pc.waiting k x.base.sh.idc false)) (x.progs.set i rest)).sum + 1 =
        (List.zipWith work x.base.ths x.progs).sum := by omega
    rw [← this]; exact lt_of_dec _ _ _ _ _ (by omega) (by omega)
  | wakeOk i k id hi hlt =>
    obtain ⟨pr, hpr⟩ := progs_at h hi
    have hs := sum_zipWith_set work x.base.ths x.progs i (.waiting k id true) (.holding k) pr pr hi hpr
    rw [set_self _ _ _ hpr] at hs
    have hc := countP_set isNotified x.base.ths i (.waiting k id true) (.holding k) hi
    simp only [work, isNotified] at hs hc
    simp only [measure, m1, List.length_set]
    simp at hc
    have : (List.zipWith work (x.base.ths.set i (Pc.holding k)) x.progs).sum + 1 =
        (List.zipWith work x.base.ths x.progs).sum := by omega
    rw [← this]; exact lt_of_dec _ _ _ _ _ (by omega) (by omega)
  | wakeNo i k id hi hlt =>
    obtain ⟨pr, hpr⟩ := progs_at h hi
    have hs := sum_zipWith_set work x.base.ths x.progs i (.waiting k id true) (.waiting k id false) pr pr hi hpr
    rw [set_self _ _ _ hpr] at hs
    have hc := countP_set isNotified x.base.ths i (.waiting k id true) (.waiting k id false) hi
    simp only [work, isNotified] at hs hc
    simp only [measure, m1, List.length_set]
    simp at hc
    have : (List.zipWith work (x.base.ths.set i (Pc.waiting k id false)) x.progs).sum =
        (List.zipWith work x.base.ths x.progs).sum := by omega
    rw [this]; omega
  | unlockLast i k hi hz =>
    obtain ⟨pr, hpr⟩ := progs_at h hi
    have hs := sum_zipWith_set work x.base.ths x.progs i (.holding k) .notifying pr pr hi hpr
    rw [set_self _ _ _ hpr] at hs
    have hc := countP_set isNotified x.base.ths i (.holding k) .notifying hi
    simp only [work, isNotified] at hs hc
    simp only [measure, m1, List.length_set]
    simp at hc
    have : (List.zipWith work (x.base.ths.set i Pc.notifying) x.progs).sum + 1 =
        (List.zipWith work x.base.ths x.progs).sum := by omega
    rw [← this]; exact lt_of_dec _ _ _ _ _ (by omega) (by omega)
  | unlockMore i k hi hz =>
    obtain ⟨pr, hpr⟩ := progs_at h hi
    have hs := sum_zipWith_set work x.base.ths x.progs i (.holding k) .idle pr pr hi hpr
    rw [set_self _ _ _ hpr] at hs
    have hc := countP_set isNotified x.base.ths i (.holding k) .idle hi
    simp only [work, isNotified] at hs hc
    simp only [measure, m1, List.length_set]
    simp at hc
    have : (List.zipWith work (x.base.ths.set i Pc.idle) x.progs).sum + 2 =
        (List.zipWith work x.base.ths x.progs).sum := by omega
    rw [← this]; exact lt_of_dec _ _ _ _ _ (by omega) (by omega)
  | notify i hi =>
    obtain ⟨pr, hpr⟩ := progs_at h hi
    have hs := sum_zipWith_set work x.base.ths x.progs i .notifying .idle pr pr hi hpr
    rw [set_self _ _ _ hpr] at hs
    simp only [work] at hs
    simp only [measure, m1, List.length_map, List.length_set, zipWith_map_wakeAll]
    have hle := countP_le_length' isNotified ((x.base.ths.set i Pc.idle).map wakeAll)
    simp only [List.length_map, List.length_set] at hle
    have : (List.zipWith work (x.base.ths.set i Pc.idle) x.progs).sum + 1 =
        (List.zipWith work x.base.ths x.progs).sum := by omega
    rw [← this]; exact lt_of_dec_notify _ _ _ _ hle

end Rwp
