import Tulz.Proofs.Rwp.Inv
namespace Rwp

theorem inv_init (n : Nat) : Inv (init n) := by
  refine ⟨?_, ?_, ?_, ?_, ?_, ?_, ?_, ?_, ?_⟩
  · exact QWF.nil 0
  · simp [init, Pc.ticket?]
  · intro p hp k id n h; simp [init] at hp; rw [hp.2] at h; cases h
  · show 0 = List.countP _ (List.replicate n Pc.idle)
    symm; rw [List.countP_eq_zero]
    intro a ha; rw [List.eq_of_mem_replicate ha]; simp [Pc.inside]
  · intro p hp h; simp [init] at hp; rw [hp.2] at h; simp [Pc.inside] at h
  · intro h; simp [init] at h
  · simp [init]
  · intro _; simp [init]
  · intro p hp k id h; simp [init] at hp; rw [hp.2] at h; cases h

/-! ### enqueue lemmas -/

theorem getLast?_cons_cons {α} (a b : α) (l : List α) : (a :: b :: l).getLast? = (b :: l).getLast? := by
  simp [List.getLast?_cons_cons]

/-- enqueue preserves QWF, growing `hi` by one. -/
theorem qwf_enqueue (lo hi : Nat) (q : List QE) (act : Act) (cnt : Nat) (k : Kind) (h : QWF lo hi q) :
    QWF lo (hi+1) (enqueue ⟨q, act, cnt, hi+1, lo⟩ k).queue := by
  induction h with
  | nil lo =>
    cases k with
    | write => simpa [enqueue] using QWF.write lo (lo+1) [] (QWF.nil _)
    | read => simpa [enqueue] using QWF.read lo (lo+1) (lo+1) [] (by omega) (QWF.nil _) (by simp)
  | write lo hi q hq ih =>
    cases k with
    | write =>
      simp [enqueue] at ih ⊢
      exact QWF.write lo (hi+1) _ ih
    | read =>
      cases q with
      | nil =>
        have : lo + 1 = hi := hq.nil_iff
        subst this
        simp [enqueue]
        exact QWF.write lo _ _ (QWF.read _ _ _ _ (by omega) (QWF.nil _) (by simp))
      | cons e q =>
        have ih' := ih
        simp only [enqueue, List.getLast?_cons_cons] at ih' ⊢
        cases hl : (e :: q).getLast? with
        | none => simp at hl
        | some e' =>
          simp only [hl] at ih' ⊢
          by_cases hk : e'.kind = .read
          · simp only [hk, if_true] at ih' ⊢
            have : ((⟨.write, lo+1⟩ : QE) :: e :: q).dropLast = ⟨.write, lo+1⟩ :: (e :: q).dropLast := by
              simp [List.dropLast]
            rw [this]
            exact QWF.write lo (hi+1) _ ih'
          · simp only [hk, if_false] at ih' ⊢
            exact QWF.write lo (hi+1) _ ih'
  | read lo ub hi q hlt hq hhead ih =>
    cases k with
    | write =>
      simp [enqueue] at ih ⊢
      refine QWF.read lo ub (hi+1) _ hlt ih ?_
      intro e he
      cases q with
      | nil => simp at he; subst he; rfl
      | cons e' q => simp at he; subst he; exact hhead _ (by simp)
    | read =>
      cases q with
      | nil =>
        have : ub = hi := hq.nil_iff
        subst this
        simp [enqueue]
        exact QWF.read lo _ _ [] (by omega) (QWF.nil _) (by simp)
      | cons e q =>
        have ih' := ih
        simp only [enqueue, List.getLast?_cons_cons] at ih' ⊢
        cases hl : (e :: q).getLast? with
        | none => simp at hl
        | some e' =>
          simp only [hl] at ih' ⊢
          by_cases hk : e'.kind = .read
          · simp only [hk, if_true] at ih' ⊢
            have : ((⟨.read, ub⟩ : QE) :: e :: q).dropLast = ⟨.read, ub⟩ :: (e :: q).dropLast := by
              simp [List.dropLast]
            rw [this]
            refine QWF.read lo ub (hi+1) _ hlt ih' ?_
            intro e2 he2
            -- head of (dropLast (e::q) ++ [_]) : either e (if q ≠ []) or the new read entry (if q = [])
            cases q with
            | nil =>
              -- e' = e, kind read, but hhead says e.kind = write
              simp at hl; subst hl
              have := hhead e (by simp)
              rw [this] at hk; cases hk
            | cons e3 q3 =>
              simp [List.dropLast] at he2; subst he2; exact hhead _ (by simp)
          · simp only [hk, if_false] at ih' ⊢
            refine QWF.read lo ub (hi+1) _ hlt ih' ?_
            intro e2 he2
            simp at he2; subst he2; exact hhead _ (by simp)

end Rwp
