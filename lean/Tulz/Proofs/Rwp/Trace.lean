import Tulz.Proofs.Rwp.Fifo2
/-
  C03 at the level of executions: a request issued after another request was already parked is not
  granted while that earlier request is still waiting.
-/
namespace Rwp

/-- a finite execution fragment of the system with arrival stamps -/
inductive YRun : YState → YState → Prop
  | refl (y) : YRun y y
  | step {x y z} : YStep x y → YRun y z → YRun x z

theorem YRun.reach {n x y} (h : YReach n x) (r : YRun x y) : YReach n y := by
  induction r with
  | refl => exact h
  | step hs _ ih => exact ih (YReach.step h hs)

theorem YReach.stamps_len {n y} (h : YReach n y) : y.stamps.length = y.base.ths.length := by
  induction h with
  | init => show (List.replicate n 0).length = (List.replicate n Pc.idle).length; simp
  | step _ hs ih => cases hs <;> simp [List.length_set, List.length_map, ih]

/-- every request that thread `b` has outstanding was issued at or after clock value `c0` -/
def Fresh (c0 b : Nat) (y : YState) : Prop :=
  c0 ≤ y.clock ∧ ∀ sb, activeAt y.base b → y.stamps[b]? = some sb → c0 ≤ sb

theorem active_set_ne {s : State} {i b : Nat} {p : Pc} (hne : b ≠ i) {sh : Sh}
    (h : activeAt ⟨sh, s.ths.set i p⟩ b) : activeAt s b := by
  obtain ⟨q, hq, hk⟩ := h
  have hq' : (s.ths.set i p)[b]? = some q := hq
  rw [List.getElem?_set_ne (Ne.symm hne)] at hq'
  exact ⟨q, hq', hk⟩

theorem fresh_step {c0 b : Nat} {x y : YState} (F : Fresh c0 b x) (h : YStep x y) : Fresh c0 b y := by
  obtain ⟨hc, hs⟩ := F
  cases h with
  | callFast i k hi hf =>
    refine ⟨by show c0 ≤ x.clock + 1; omega, ?_⟩
    intro sb ha hsb
    have hsb' : (x.stamps.set i x.clock)[b]? = some sb := hsb
    by_cases e : b = i
    · subst e
      rcases get_set_cases hsb' with ⟨_, e2⟩ | ⟨hne, _⟩
      · omega
      · exact absurd rfl hne
    · rw [List.getElem?_set_ne (Ne.symm e)] at hsb'
      exact hs sb (active_set_ne e ha) hsb'
  | callSlow i k hi hf =>
    refine ⟨by show c0 ≤ x.clock + 1; omega, ?_⟩
    intro sb ha hsb
    have hsb' : (x.stamps.set i x.clock)[b]? = some sb := hsb
    by_cases e : b = i
    · subst e
      rcases get_set_cases hsb' with ⟨_, e2⟩ | ⟨hne, _⟩
      · omega
      · exact absurd rfl hne
    · rw [List.getElem?_set_ne (Ne.symm e)] at hsb'
      exact hs sb (active_set_ne e ha) hsb'
  | wakeOk i k id n hi hlt =>
    refine ⟨hc, ?_⟩
    intro sb ha hsb
    by_cases e : b = i
    · subst e; exact hs sb ⟨_, hi, k, rfl⟩ hsb
    · exact hs sb (active_set_ne e ha) hsb
  | wakeNo i k id n hi hlt =>
    refine ⟨hc, ?_⟩
    intro sb ha hsb
    by_cases e : b = i
    · subst e; exact hs sb ⟨_, hi, k, rfl⟩ hsb
    · exact hs sb (active_set_ne e ha) hsb
  | unlockLast i k hi hz =>
    refine ⟨hc, ?_⟩
    intro sb ha hsb
    by_cases e : b = i
    · subst e; exact hs sb ⟨_, hi, k, rfl⟩ hsb
    · exact hs sb (active_set_ne e ha) hsb
  | unlockMore i k hi hz =>
    refine ⟨hc, ?_⟩
    intro sb ha hsb
    by_cases e : b = i
    · subst e; exact hs sb ⟨_, hi, k, rfl⟩ hsb
    · exact hs sb (active_set_ne e ha) hsb
  | notify i hi =>
    refine ⟨hc, ?_⟩
    intro sb ha hsb
    obtain ⟨q, hq, kq, hkq⟩ := ha
    have hq' : ((x.base.ths.set i Pc.idle).map wakeAll)[b]? = some q := hq
    rw [List.getElem?_map] at hq'
    cases hget : (x.base.ths.set i Pc.idle)[b]? with
    | none => rw [hget] at hq'; cases hq'
    | some p =>
      rw [hget] at hq'
      simp only [Option.map_some, Option.some.injEq] at hq'
      subst hq'
      rw [kind_wakeAll] at hkq
      rcases get_set_cases hget with ⟨_, e2⟩ | ⟨_, hp⟩
      · subst e2; cases hkq
      · exact hs sb ⟨p, hp, kq, hkq⟩ hsb

theorem fresh_run {c0 b : Nat} {x y : YState} (F : Fresh c0 b x) (r : YRun x y) : Fresh c0 b y := by
  induction r with
  | refl => exact F
  | step hs _ ih => exact ih (fresh_step F hs)

/-- **C03 on executions**: take any reachable state `y1` in which request `a` is parked and not yet admitted while
    thread `b` has no request outstanding, and any continuation to a state `y2` in which `b` is inside the lock
    (so `b`'s request was issued after `a` was already waiting, and has been granted). Then `a`'s request — identified
    by its arrival stamp — is no longer pending in `y2`: it was granted no later than `b`'s. -/
theorem C03_trace (n : Nat) (y1 y2 : YState) (h1 : YReach n y1) (r : YRun y1 y2) (a b ida ida' sa : Nat)
    (ha : pendingAt y1.base a ida) (hsa : y1.stamps[a]? = some sa)
    (hb : y1.base.ths[b]? = some .idle)
    (hin : insideAt y2.base b) :
    ¬ (pendingAt y2.base a ida' ∧ y2.stamps[a]? = some sa) := by
  intro ⟨hpa, hsa2⟩
  have S1 := yreach_sinv h1
  have h2 := r.reach h1
  -- a's stamp lies in the past of y1
  have hpast : sa < y1.clock := by
    obtain ⟨k, nn, hw, _⟩ := ha
    exact S1.past a sa ⟨_, hw, k, rfl⟩ hsa
  -- b's outstanding request at y2 was issued at or after clock(y1)
  have F1 : Fresh y1.clock b y1 := by
    refine ⟨Nat.le_refl _, ?_⟩
    intro sb ⟨p, hp, k, hk⟩ _
    rw [hb] at hp; cases hp; cases hk
  have F2 := fresh_run F1 r
  obtain ⟨p, hp, hpin⟩ := hin
  obtain ⟨kb, hkb⟩ := inside_kind_some hpin
  have hlen : b < y2.stamps.length := by
    have hl := h2.stamps_len
    rw [hl]
    rcases Nat.lt_or_ge b y2.base.ths.length with h' | h'
    · exact h'
    · rw [List.getElem?_eq_none h'] at hp; cases hp
  have hsb : y2.stamps[b]? = some y2.stamps[b] := List.getElem?_eq_getElem hlen
  have hfresh := F2.2 _ ⟨p, hp, kb, hkb⟩ hsb
  have hover := C03_no_overtake n y2 h2 a b ida' sa _ hpa ⟨p, hp, hpin⟩ hsa2 hsb
  omega

end Rwp
