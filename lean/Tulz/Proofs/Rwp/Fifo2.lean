import Tulz.Proofs.Rwp.Fifo
namespace Rwp

theorem lt_len_of_get {α} {l : List α} {i : Nat} {a : α} (h : l[i]? = some a) : i < l.length := by
  rcases Nat.lt_or_ge i l.length with h' | h'
  · exact h'
  · rw [List.getElem?_eq_none (by simpa using h')] at h; cases h

theorem stamps_set_cases {l : List Nat} {i j c s : Nat} (h : (l.set i c)[j]? = some s) :
    (j = i ∧ s = c) ∨ (j ≠ i ∧ l[j]? = some s) := get_set_cases h

/-- no request is pending when the queue is empty -/
theorem Inv.no_pending_of_empty {s : State} (I : Inv s) (hq : s.sh.queue = []) (j id) : ¬ pendingAt s j id := by
  intro ⟨k, n, hp, hb⟩
  have := I.ticket_lt (List.mem_of_getElem? hp) rfl hb
  have hqwf := I.qwf; rw [hq] at hqwf
  have := hqwf.nil_iff; omega

/-- when the count is one, the holder `i0` is the only thread inside -/
theorem Inv.only_inside {s : State} (I : Inv s) {i0 : Nat} {k : Kind} (hi : s.ths[i0]? = some (Pc.holding k)) (h1 : s.sh.count - 1 = 0)
    {i : Nat} {p : Pc} (hp : s.ths[i]? = some p) (hin : Pc.inside s.sh.bound p = true) : i = i0 := by
  apply Classical.byContradiction
  intro hne
  have := two_le_countP (Pc.inside s.sh.bound) s.ths i i0 p _ hne hp hi hin (by simp [Pc.inside])
  rw [← I.count] at this; omega

theorem sinv_step {x y : YState} (hr : ∃ n, YReach n x) (S : SInv x) (h : YStep x y) : SInv y := by
  obtain ⟨n0, hreach⟩ := hr
  have I := reach_inv hreach.base_reach
  cases h with
  | callFast i0 k hi hf =>
    have hq := (fast_spec hf).1
    have hnp : ∀ j id, ¬ pendingAt ⟨{ x.base.sh with act := k.act, count := x.base.sh.count + 1 },
        x.base.ths.set i0 (.holding k)⟩ j id := by
      intro j id ⟨k', n', hp, hb⟩
      rcases get_set_cases hp with ⟨_, e⟩ | ⟨_, hp'⟩
      · cases e
      · exact I.no_pending_of_empty hq j id ⟨k', n', hp', hb⟩
    refine ⟨?_, ?_, ?_⟩
    · intro i si ⟨p, hp, hk⟩ hs
      show si < x.clock + 1
      rcases stamps_set_cases hs with ⟨_, e⟩ | ⟨hne, hs'⟩
      · omega
      · rcases get_set_cases hp with ⟨e, _⟩ | ⟨_, hp'⟩
        · exact absurd e hne
        · have := S.past i si ⟨p, hp', hk⟩ hs'; omega
    · intro i j idi idj si sj hpi; exact absurd hpi (hnp i idi)
    · intro i j idj si sj _ hpj; exact absurd hpj (hnp j idj)
  | callSlow i0 k hi hf =>
    have hle := I.qwf.le
    -- classification of pending / inside threads of the new state
    have hpend : ∀ j id, pendingAt ⟨enqueue { x.base.sh with idc := x.base.sh.idc + 1 } k,
        x.base.ths.set i0 (.waiting k x.base.sh.idc false)⟩ j id →
        (j = i0 ∧ id = x.base.sh.idc) ∨ (j ≠ i0 ∧ pendingAt x.base j id ∧ id < x.base.sh.idc) := by
      intro j id ⟨k', n', hp, hb⟩
      simp only [enqueue_bound] at hb
      rcases get_set_cases hp with ⟨e, e2⟩ | ⟨hne, hp'⟩
      · cases e2; exact Or.inl ⟨e, rfl⟩
      · exact Or.inr ⟨hne, ⟨k', n', hp', hb⟩, I.ticket_lt (List.mem_of_getElem? hp') rfl hb⟩
    have hins : ∀ i, insideAt ⟨enqueue { x.base.sh with idc := x.base.sh.idc + 1 } k,
        x.base.ths.set i0 (.waiting k x.base.sh.idc false)⟩ i → i ≠ i0 ∧ insideAt x.base i := by
      intro i ⟨p, hp, hin⟩
      simp only [enqueue_bound] at hin
      rcases get_set_cases hp with ⟨_, e2⟩ | ⟨hne, hp'⟩
      · subst e2; simp [Pc.inside] at hin; omega
      · exact ⟨hne, p, hp', hin⟩
    have hactive : ∀ i, i ≠ i0 → (∃ p, x.base.ths[i]? = some p ∧ ∃ k, p.kind? = some k) → ∀ si, x.stamps[i]? = some si → si < x.clock :=
      fun i _ ha si hs => S.past i si ha hs
    have pend_active : ∀ j id, pendingAt x.base j id → activeAt x.base j := by
      intro j id ⟨k', n', hp, _⟩; exact ⟨_, hp, k', rfl⟩
    have ins_active : ∀ i, insideAt x.base i → activeAt x.base i := by
      intro i ⟨p, hp, hin⟩; exact ⟨p, hp, inside_kind_some hin⟩
    refine ⟨?_, ?_, ?_⟩
    · intro i si ⟨p, hp, hk⟩ hs
      show si < x.clock + 1
      rcases stamps_set_cases hs with ⟨_, e⟩ | ⟨hne, hs'⟩
      · omega
      · rcases get_set_cases hp with ⟨e, _⟩ | ⟨_, hp'⟩
        · exact absurd e hne
        · have := S.past i si ⟨p, hp', hk⟩ hs'; omega
    · intro i j idi idj si sj hpi hpj hlt hsi hsj
      rcases hpend i idi hpi with ⟨ei, eidi⟩ | ⟨hnei, hpi', hidi⟩
      · -- i is the newcomer: nobody has a larger ticket
        rcases hpend j idj hpj with ⟨_, eidj⟩ | ⟨_, _, hidj⟩ <;> omega
      · rcases stamps_set_cases hsi with ⟨e, _⟩ | ⟨_, hsi'⟩
        · exact absurd e hnei
        · rcases hpend j idj hpj with ⟨ej, _⟩ | ⟨hnej, hpj', _⟩
          · rcases stamps_set_cases hsj with ⟨_, e⟩ | ⟨hne, _⟩
            · have := S.past i si (pend_active i idi hpi') hsi'; omega
            · exact absurd ej hne
          · rcases stamps_set_cases hsj with ⟨e, _⟩ | ⟨_, hsj'⟩
            · exact absurd e hnej
            · exact S.order i j idi idj si sj hpi' hpj' hlt hsi' hsj'
    · intro i j idj si sj hin hpj hsi hsj
      obtain ⟨hnei, hin'⟩ := hins i hin
      rcases stamps_set_cases hsi with ⟨e, _⟩ | ⟨_, hsi'⟩
      · exact absurd e hnei
      · rcases hpend j idj hpj with ⟨ej, _⟩ | ⟨hnej, hpj', _⟩
        · rcases stamps_set_cases hsj with ⟨_, e⟩ | ⟨hne, _⟩
          · have := S.past i si (ins_active i hin') hsi'; omega
          · exact absurd ej hne
        · rcases stamps_set_cases hsj with ⟨e, _⟩ | ⟨_, hsj'⟩
          · exact absurd e hnej
          · exact S.before i j idj si sj hin' hpj' hsi' hsj'
  | wakeOk i0 k id n hi hlt =>
    have hact : ∀ i, activeAt ⟨x.base.sh, x.base.ths.set i0 (.holding k)⟩ i → activeAt x.base i := by
      intro i ⟨p, hp, hk⟩
      rcases get_set_cases hp with ⟨e, _⟩ | ⟨_, hp'⟩
      · subst e; exact ⟨_, hi, k, rfl⟩
      · exact ⟨p, hp', hk⟩
    have hpend : ∀ j idj, pendingAt ⟨x.base.sh, x.base.ths.set i0 (.holding k)⟩ j idj → pendingAt x.base j idj := by
      intro j idj ⟨k', n', hp, hb⟩
      rcases get_set_cases hp with ⟨_, e⟩ | ⟨_, hp'⟩
      · cases e
      · exact ⟨k', n', hp', hb⟩
    have hins : ∀ i, insideAt ⟨x.base.sh, x.base.ths.set i0 (.holding k)⟩ i → insideAt x.base i := by
      intro i ⟨p, hp, hin⟩
      rcases get_set_cases hp with ⟨e, _⟩ | ⟨_, hp'⟩
      · subst e; exact ⟨_, hi, by simp [Pc.inside, hlt]⟩
      · exact ⟨p, hp', hin⟩
    exact ⟨fun i si ha hs => S.past i si (hact i ha) hs,
      fun i j idi idj si sj hpi hpj => S.order i j idi idj si sj (hpend i idi hpi) (hpend j idj hpj),
      fun i j idj si sj hin hpj => S.before i j idj si sj (hins i hin) (hpend j idj hpj)⟩
  | wakeNo i0 k id n hi hnlt =>
    have hact : ∀ i, activeAt ⟨x.base.sh, x.base.ths.set i0 (.waiting k id false)⟩ i → activeAt x.base i := by
      intro i ⟨p, hp, hk⟩
      rcases get_set_cases hp with ⟨e, _⟩ | ⟨_, hp'⟩
      · subst e; exact ⟨_, hi, k, rfl⟩
      · exact ⟨p, hp', hk⟩
    have hpend : ∀ j idj, pendingAt ⟨x.base.sh, x.base.ths.set i0 (.waiting k id false)⟩ j idj → pendingAt x.base j idj := by
      intro j idj ⟨k', n', hp, hb⟩
      rcases get_set_cases hp with ⟨e, e2⟩ | ⟨_, hp'⟩
      · subst e; cases e2; exact ⟨k, n, hi, hb⟩
      · exact ⟨k', n', hp', hb⟩
    have hins : ∀ i, insideAt ⟨x.base.sh, x.base.ths.set i0 (.waiting k id false)⟩ i → insideAt x.base i := by
      intro i ⟨p, hp, hin⟩
      rcases get_set_cases hp with ⟨_, e2⟩ | ⟨_, hp'⟩
      · subst e2; simp [Pc.inside] at hin; exact absurd hin hnlt
      · exact ⟨p, hp', hin⟩
    exact ⟨fun i si ha hs => S.past i si (hact i ha) hs,
      fun i j idi idj si sj hpi hpj => S.order i j idi idj si sj (hpend i idi hpi) (hpend j idj hpj),
      fun i j idj si sj hin hpj => S.before i j idj si sj (hins i hin) (hpend j idj hpj)⟩
  | unlockMore i0 k hi hnz =>
    have hact : ∀ i, activeAt ⟨{ x.base.sh with count := x.base.sh.count - 1 }, x.base.ths.set i0 .idle⟩ i → activeAt x.base i := by
      intro i ⟨p, hp, hk⟩
      rcases get_set_cases hp with ⟨_, e2⟩ | ⟨_, hp'⟩
      · subst e2; simp [Pc.kind?] at hk
      · exact ⟨p, hp', hk⟩
    have hpend : ∀ j idj, pendingAt ⟨{ x.base.sh with count := x.base.sh.count - 1 }, x.base.ths.set i0 .idle⟩ j idj → pendingAt x.base j idj := by
      intro j idj ⟨k', n', hp, hb⟩
      rcases get_set_cases hp with ⟨_, e⟩ | ⟨_, hp'⟩
      · cases e
      · exact ⟨k', n', hp', hb⟩
    have hins : ∀ i, insideAt ⟨{ x.base.sh with count := x.base.sh.count - 1 }, x.base.ths.set i0 .idle⟩ i → insideAt x.base i := by
      intro i ⟨p, hp, hin⟩
      rcases get_set_cases hp with ⟨_, e2⟩ | ⟨_, hp'⟩
      · subst e2; simp [Pc.inside] at hin
      · exact ⟨p, hp', hin⟩
    exact ⟨fun i si ha hs => S.past i si (hact i ha) hs,
      fun i j idi idj si sj hpi hpj => S.order i j idi idj si sj (hpend i idi hpi) (hpend j idj hpj),
      fun i j idj si sj hin hpj => S.before i j idj si sj (hins i hin) (hpend j idj hpj)⟩
  | notify i0 hi =>
    have hget : ∀ i p', ((x.base.ths.set i0 .idle).map wakeAll)[i]? = some p' →
        (i = i0 ∧ p' = .idle) ∨ (∃ p, x.base.ths[i]? = some p ∧ p' = wakeAll p) := by
      intro i p' hp'
      rw [List.getElem?_map] at hp'
      cases hq : (x.base.ths.set i0 .idle)[i]? with
      | none => rw [hq] at hp'; cases hp'
      | some q =>
        rw [hq] at hp'; cases hp'
        rcases get_set_cases hq with ⟨e, e2⟩ | ⟨_, hq'⟩
        · subst e2; exact Or.inl ⟨e, rfl⟩
        · exact Or.inr ⟨q, hq', rfl⟩
    have hact : ∀ i, activeAt ⟨x.base.sh, (x.base.ths.set i0 .idle).map wakeAll⟩ i → activeAt x.base i := by
      intro i ⟨p', hp', hk⟩
      rcases hget i p' hp' with ⟨_, e⟩ | ⟨p, hp, e⟩
      · subst e; simp [Pc.kind?] at hk
      · subst e; exact ⟨p, hp, by simpa using hk⟩
    have hpend : ∀ j idj, pendingAt ⟨x.base.sh, (x.base.ths.set i0 .idle).map wakeAll⟩ j idj → pendingAt x.base j idj := by
      intro j idj ⟨k', n', hp', hb⟩
      rcases hget j _ hp' with ⟨_, e⟩ | ⟨p, hp, e⟩
      · cases e
      · cases p with
        | waiting k2 id2 n2 =>
          simp [wakeAll] at e; obtain ⟨e1, e2, _⟩ := e; subst e1; subst e2; exact ⟨_, n2, hp, hb⟩
        | _ => simp [wakeAll] at e
    have hins : ∀ i, insideAt ⟨x.base.sh, (x.base.ths.set i0 .idle).map wakeAll⟩ i → insideAt x.base i := by
      intro i ⟨p', hp', hin⟩
      rcases hget i p' hp' with ⟨_, e⟩ | ⟨p, hp, e⟩
      · subst e; simp [Pc.inside] at hin
      · subst e; exact ⟨p, hp, by simpa using hin⟩
    exact ⟨fun i si ha hs => S.past i si (hact i ha) hs,
      fun i j idi idj si sj hpi hpj => S.order i j idi idj si sj (hpend i idi hpi) (hpend j idj hpj),
      fun i j idj si sj hin hpj => S.before i j idj si sj (hins i hin) (hpend j idj hpj)⟩
  | unlockLast i0 k hi hz =>
    have hact : ∀ i, activeAt ⟨select { x.base.sh with count := x.base.sh.count - 1 }, x.base.ths.set i0 .notifying⟩ i →
        activeAt x.base i := by
      intro i ⟨p, hp, hk⟩
      rcases get_set_cases hp with ⟨_, e2⟩ | ⟨_, hp'⟩
      · subst e2; simp [Pc.kind?] at hk
      · exact ⟨p, hp', hk⟩
    cases hq0 : x.base.sh.queue with
    | nil =>
      -- the lock becomes idle: nobody is waiting at all
      have hnow : ∀ (j : Nat) (k' : Kind) (id : Nat) (n' : Bool), (x.base.ths.set i0 Pc.notifying)[j]? = some (Pc.waiting k' id n') → False := by
        intro j k' id n' hp
        rcases get_set_cases hp with ⟨_, e⟩ | ⟨hne, hp'⟩
        · cases e
        · by_cases hb : id < x.base.sh.bound
          · exact hne (I.only_inside hi hz hp' (by simp [Pc.inside, hb]))
          · exact I.no_pending_of_empty hq0 j id ⟨k', n', hp', by omega⟩
      refine ⟨fun i si ha hs => S.past i si (hact i ha) hs, ?_, ?_⟩
      · intro i j idi idj si sj ⟨k', n', hp, _⟩; exact absurd (hnow i k' idi n' hp) id
      · intro i j idj si sj _ ⟨k', n', hp, _⟩; exact absurd (hnow j k' idj n' hp) id
    | cons e q =>
      have hsel : select { x.base.sh with count := x.base.sh.count - 1 } =
          ⟨q, e.kind.act, e.ub - x.base.sh.bound, x.base.sh.idc, e.ub⟩ := by simp [select, hq0]
      have hqwf := I.qwf; rw [hq0] at hqwf
      obtain ⟨h1, _, _, _⟩ := QWF.head_ub hqwf
      rw [hsel]
      have hpend : ∀ j idj, pendingAt ⟨⟨q, e.kind.act, e.ub - x.base.sh.bound, x.base.sh.idc, e.ub⟩,
          x.base.ths.set i0 .notifying⟩ j idj → pendingAt x.base j idj ∧ e.ub ≤ idj := by
        intro j idj ⟨k', n', hp, hb⟩
        have hb' : e.ub ≤ idj := hb
        rcases get_set_cases hp with ⟨_, e2⟩ | ⟨_, hp'⟩
        · cases e2
        · exact ⟨⟨k', n', hp', by omega⟩, hb'⟩
      have hins : ∀ i, insideAt ⟨⟨q, e.kind.act, e.ub - x.base.sh.bound, x.base.sh.idc, e.ub⟩,
          x.base.ths.set i0 .notifying⟩ i → ∃ idi, pendingAt x.base i idi ∧ idi < e.ub := by
        intro i ⟨p, hp, hin⟩
        have hin' : Pc.inside e.ub p = true := hin
        rcases get_set_cases hp with ⟨_, e2⟩ | ⟨hne, hp'⟩
        · subst e2; simp [Pc.inside] at hin'
        · cases p with
          | holding k' => exact absurd (I.only_inside hi hz hp' (by simp [Pc.inside])) hne
          | waiting k' id n' =>
            simp [Pc.inside] at hin'
            by_cases hb : id < x.base.sh.bound
            · exact absurd (I.only_inside hi hz hp' (by simp [Pc.inside, hb])) hne
            · exact ⟨id, ⟨k', n', hp', by omega⟩, hin'⟩
          | idle => simp [Pc.inside] at hin'
          | notifying => simp [Pc.inside] at hin'
      refine ⟨fun i si ha hs => S.past i si (hact i (by rw [hsel]; exact ha)) hs, ?_, ?_⟩
      · intro i j idi idj si sj hpi hpj hlt hsi hsj
        exact S.order i j idi idj si sj (hpend i idi hpi).1 (hpend j idj hpj).1 hlt hsi hsj
      · intro i j idj si sj hin hpj hsi hsj
        obtain ⟨idi, hpi, hlt⟩ := hins i hin
        obtain ⟨hpj', hge⟩ := hpend j idj hpj
        exact S.order i j idi idj si sj hpi hpj' (by omega) hsi hsj

theorem yreach_sinv {n y} (h : YReach n y) : SInv y := by
  induction h with
  | init => exact sinv_init n
  | step hr hs ih => exact sinv_step ⟨n, hr⟩ ih hs

/-- **C03**: a request that is still waiting is never overtaken — whoever is inside the lock (holding it, or admitted and
    about to wake up) issued its request before every request that is still pending. -/
theorem C03_no_overtake (n : Nat) (y : YState) (h : YReach n y) (a b : Nat) (ida sa sb : Nat)
    (ha : pendingAt y.base a ida) (hb : insideAt y.base b) (hsa : y.stamps[a]? = some sa) (hsb : y.stamps[b]? = some sb) :
    sb < sa :=
  (yreach_sinv h).before b a ida sb sa hb ha hsb hsa

end Rwp
