import Tulz.Model.PoolX
/-
  Inductive invariants of the ThreadPool model with expiring workers and update() (Tulz/Model/PoolX.lean):
  `Inv`  — the pool list (bound, no duplicates, valid indices, every thread outside the pool has completed, the joins of stop()),
  `TInv` — task ownership (each submitted task in exactly one place, run at most once, destroyed after its run or dropped),
  and soundness of the executable step function.
-/
namespace TPoolX

/-! ### generic list lemmas -/

theorem filterMap_set_none {α β : Type} {f : α → Option β} {l : List α} {w : Nat} {a x : α} (h : l[w]? = some a)
    (ha : f a = none) (hx : f x = none) : (l.set w x).filterMap f = l.filterMap f := by
  induction l generalizing w with
  | nil => simp at h
  | cons b l ih =>
    cases w with
    | zero => simp at h; subst h; simp [ha, hx]
    | succ w => simp at h; simp [List.filterMap_cons, ih h]

theorem filterMap_set_same {α β : Type} {f : α → Option β} {l : List α} {w : Nat} {a x : α} (h : l[w]? = some a)
    (hx : f x = f a) : (l.set w x).filterMap f = l.filterMap f := by
  induction l generalizing w with
  | nil => simp at h
  | cons b l ih =>
    cases w with
    | zero => simp at h; subst h; simp [List.filterMap_cons, hx]
    | succ w => simp at h; simp [List.filterMap_cons, ih h]

theorem filterMap_set_take {α β : Type} {f : α → Option β} {l : List α} {w : Nat} {a x : α} {t : β} (h : l[w]? = some a)
    (ha : f a = none) (hx : f x = some t) : ((l.set w x).filterMap f).Perm (t :: l.filterMap f) := by
  induction l generalizing w with
  | nil => simp at h
  | cons b l ih =>
    cases w with
    | zero => simp at h; subst h; simp [ha, hx]
    | succ w =>
      simp at h
      simp only [List.set_cons_succ, List.filterMap_cons]
      cases hb : f b with
      | none => exact ih h
      | some u => exact ((ih h).cons u).trans (List.Perm.swap t u _)

theorem filterMap_set_drop {α β : Type} {f : α → Option β} {l : List α} {w : Nat} {a x : α} {t : β} (h : l[w]? = some a)
    (ha : f a = some t) (hx : f x = none) : (l.filterMap f).Perm (t :: (l.set w x).filterMap f) := by
  induction l generalizing w with
  | nil => simp at h
  | cons b l ih =>
    cases w with
    | zero => simp at h; subst h; simp [ha, hx]
    | succ w =>
      simp at h
      simp only [List.set_cons_succ, List.filterMap_cons]
      cases hb : f b with
      | none => exact ih h
      | some u => exact ((ih h).cons u).trans (List.Perm.swap t u _)

theorem filterMap_wake {β : Type} {f : Wk → Option β} (hf : ∀ w, f (wakeAll w) = f w) (ws : List Wk) :
    (ws.map wakeAll).filterMap f = ws.filterMap f := by
  rw [List.filterMap_map]
  congr 1; funext w; exact hf w

/-! ### Thread::isFinished() -/

theorem isFin_iff {ws : List Wk} {i : Nat} : isFin ws i = true ↔ ∃ wk, ws[i]? = some wk ∧ wk.pc = .finished := by
  unfold isFin
  cases h : ws[i]? with
  | none => simp
  | some w =>
    constructor
    · intro hf
      refine ⟨w, rfl, ?_⟩
      cases hp : w.pc <;> simp [hp, Pc.isFinished] at hf ⊢
    · rintro ⟨wk, h1, hp⟩
      cases h1
      show w.pc.isFinished = true
      rw [hp]; rfl

theorem isFin_set {ws : List Wk} {w i : Nat} {a x : Wk} (hw : ws[w]? = some a) (ha : a.pc ≠ .finished)
    (h : isFin ws i = true) : isFin (ws.set w x) i = true := by
  have hne : w ≠ i := by
    intro e; subst e
    obtain ⟨wk, h1, h2⟩ := isFin_iff.1 h
    rw [hw] at h1; cases h1; exact ha h2
  unfold isFin at h ⊢
  rw [List.getElem?_set_ne hne]; exact h

theorem isFin_wake (ws : List Wk) (i : Nat) : isFin (ws.map wakeAll) i = isFin ws i := by
  unfold isFin
  rw [List.getElem?_map]
  cases ws[i]? with
  | none => rfl
  | some w => cases w with | mk pc last => cases pc <;> rfl

theorem isFin_lt {ws : List Wk} {i : Nat} (h : isFin ws i = true) : i < ws.length := by
  obtain ⟨wk, h1, _⟩ := isFin_iff.1 h
  exact (List.getElem?_eq_some_iff.1 h1).1

theorem isFin_append {ws : List Wk} {i : Nat} (x : Wk) (h : isFin ws i = true) : isFin (ws ++ [x]) i = true := by
  have hl := isFin_lt h
  unfold isFin at h ⊢
  rw [List.getElem?_append_left hl]; exact h

theorem awake_ne_fin {p : Pc} (h : p.awake = true) : p ≠ .finished := by
  intro e; rw [e] at h; cases h

theorem ne_fin_of_eq {p q : Pc} (h : p = q) (hq : q ≠ .finished) : p ≠ .finished := h ▸ hq

/-! ### the pool list -/

structure Inv (s : State) : Prop where
  len : s.pool.length ≤ s.max
  nodup : s.pool.Nodup
  valid : ∀ i ∈ s.pool, i < s.ws.length
  outside : ∀ w, w < s.ws.length → w ∉ s.pool → isFin s.ws w = true
  joining : ∀ rem todo, s.owner = .join rem todo →
    (∀ i ∈ s.pool, i ∈ rem ∨ isFin s.ws i = true) ∧ (∀ i ∈ rem, i ∈ s.pool)
  clearq : ∀ todo, s.owner = .clearQ todo → s.pool = []
  stopped_ok : s.stopped = true → s.pool = [] ∧ s.queue = []
  spawning : ∀ todo, s.owner = .spawn todo → s.stopped = false

def Owner.tracked : Owner → Bool
  | .join _ _ => true
  | .clearQ _ => true
  | _ => false

theorem inv_init (max timeout prog) : Inv (init max timeout prog) := by
  refine ⟨Nat.zero_le _, List.nodup_nil, ?_, ?_, ?_, ?_, ?_, ?_⟩
  · intro i hi; cases hi
  · intro w hw; exact absurd hw (Nat.not_lt_zero _)
  · intro rem todo ho; cases ho
  · intro todo ho; cases ho
  · intro h; cases h
  · intro todo ho; cases ho

/-- steps that leave the pool list alone and keep completed threads completed -/
theorem inv_frame {s t : State} (I : Inv s) (hp : t.pool = s.pool) (hm : t.max = s.max)
    (hl : t.ws.length = s.ws.length) (hf : ∀ i, isFin s.ws i = true → isFin t.ws i = true)
    (hown : t.owner.tracked = true → t.owner = s.owner)
    (hsp : ∀ todo, t.owner = .spawn todo → t.stopped = false ∨ (s.owner = .spawn todo ∧ t.stopped = s.stopped))
    (hs : t.stopped = true → s.stopped = true ∧ (s.queue = [] → t.queue = [])) : Inv t := by
  have hj : ∀ rem todo, t.owner = .join rem todo → s.owner = .join rem todo := by
    intro rem todo ho
    have := hown (by rw [ho]; rfl)
    rw [← this]; exact ho
  have hc : ∀ todo, t.owner = .clearQ todo → s.owner = .clearQ todo := by
    intro todo ho
    have := hown (by rw [ho]; rfl)
    rw [← this]; exact ho
  refine ⟨by rw [hp, hm]; exact I.len, by rw [hp]; exact I.nodup, ?_, ?_, ?_, ?_, ?_, ?_⟩
  · intro i hi; rw [hp] at hi; rw [hl]; exact I.valid i hi
  · intro w hw hn; rw [hl] at hw; rw [hp] at hn; exact hf w (I.outside w hw hn)
  · intro rem todo ho
    obtain ⟨h1, h2⟩ := I.joining rem todo (hj rem todo ho)
    rw [hp]
    exact ⟨fun i hi => (h1 i hi).imp id (hf i), h2⟩
  · intro todo ho; rw [hp]; exact I.clearq todo (hc todo ho)
  · intro h
    obtain ⟨h0, hq⟩ := hs h
    obtain ⟨h1, h2⟩ := I.stopped_ok h0
    rw [hp]; exact ⟨h1, hq h2⟩
  · intro todo ho
    rcases hsp todo ho with h | ⟨h1, h2⟩
    · exact h
    · rw [h2]; exact I.spawning todo h1

/-- a worker's own step: one entry of `ws` changes, and that worker had not completed -/
theorem inv_worker {s : State} (I : Inv s) {w : Nat} {a x : Wk} (hw : s.ws[w]? = some a) (ha : a.pc ≠ .finished)
    {t : State} (hp : t.pool = s.pool) (hm : t.max = s.max) (hws : t.ws = s.ws.set w x) (ho : t.owner = s.owner)
    (hs : t.stopped = s.stopped) (hq : s.queue = [] → t.queue = []) : Inv t :=
  inv_frame I hp hm (by rw [hws, List.length_set]) (fun i h => by rw [hws]; exact isFin_set hw ha h)
    (fun _ => ho) (fun todo h => Or.inr ⟨by rw [ho] at h; exact h, hs⟩)
    (fun h => ⟨by rw [hs] at h; exact h, hq⟩)

theorem inv_step {s t : State} (I : Inv s) (h : Step s t) : Inv t := by
  cases h with
  | start tk todo ho =>
    exact inv_frame I rfl rfl rfl (fun _ h => h) (fun h => by cases h) (fun _ _ => Or.inl rfl) (fun h => by cases h)
  | spawnYes todo ho hok =>
    have hlt : s.pool.length < s.max := by
      unfold spawnOk at hok
      rw [Bool.and_eq_true] at hok
      exact of_decide_eq_true hok.1
    have hnew : s.ws.length ∉ s.pool := fun hm => Nat.lt_irrefl _ (I.valid _ hm)
    refine ⟨?_, ?_, ?_, ?_, ?_, ?_, ?_, ?_⟩
    · show (s.pool ++ [s.ws.length]).length ≤ s.max
      rw [List.length_append]; exact hlt
    · show (s.pool ++ [s.ws.length]).Nodup
      rw [List.nodup_append]
      refine ⟨I.nodup, by simp, ?_⟩
      intro a ha b hb e
      rw [List.mem_singleton] at hb
      rw [e, hb] at ha; exact hnew ha
    · intro i hi
      show i < (s.ws ++ [(⟨.check, s.now⟩ : Wk)]).length
      rw [List.length_append]
      have hi : i ∈ s.pool ++ [s.ws.length] := hi
      rcases List.mem_append.1 hi with h | h
      · have := I.valid i h; simp; omega
      · rw [List.mem_singleton] at h; simp; omega
    · intro w hw hn
      have hw : w < (s.ws ++ [(⟨.check, s.now⟩ : Wk)]).length := hw
      have hn : w ∉ s.pool ++ [s.ws.length] := hn
      rw [List.length_append] at hw
      simp only [List.length_singleton] at hw
      rw [List.mem_append, List.mem_singleton] at hn
      have h1 : w ∉ s.pool := fun h => hn (Or.inl h)
      have h2 : w ≠ s.ws.length := fun h => hn (Or.inr h)
      exact isFin_append _ (I.outside w (by omega) h1)
    · intro rem todo' ho'; cases ho'
    · intro todo' ho'; cases ho'
    · intro hst
      have hst : s.stopped = true := hst
      rw [I.spawning _ ho] at hst; cases hst
    · intro todo' ho'; cases ho'
  | spawnNo todo ho hok =>
    exact inv_frame I rfl rfl rfl (fun _ h => h) (fun h => by cases h) (fun _ h => by cases h) (fun h => ⟨h, id⟩)
  | spawnFail todo ho hok =>
    exact inv_frame I rfl rfl rfl (fun _ h => h) (fun h => by cases h) (fun _ h => by cases h) (fun h => ⟨h, id⟩)
  | notifyHit todo w wk ho hw hp =>
    exact inv_frame I rfl rfl (by simp) (fun i h => isFin_set hw (ne_fin_of_eq hp nofun) h)
      (fun h => by cases h) (fun _ h => by cases h) (fun h => ⟨h, id⟩)
  | notifyMiss todo ho hn =>
    exact inv_frame I rfl rfl rfl (fun _ h => h) (fun h => by cases h) (fun _ h => by cases h) (fun h => ⟨h, id⟩)
  | clear todo ho =>
    exact inv_frame I rfl rfl rfl (fun _ h => h) (fun h => by cases h) (fun _ h => by cases h) (fun h => ⟨h, fun _ => rfl⟩)
  | stop todo ho =>
    exact inv_frame I rfl rfl rfl (fun _ h => h) (fun h => by cases h) (fun _ h => by cases h) (fun h => ⟨h, id⟩)
  | stopNotify todo ho =>
    refine ⟨I.len, I.nodup, ?_, ?_, ?_, ?_, ?_, fun _ h => by cases h⟩
    · intro i hi; show i < (s.ws.map wakeAll).length; rw [List.length_map]; exact I.valid i hi
    · intro w hw hn
      have hw : w < (s.ws.map wakeAll).length := hw
      rw [List.length_map] at hw
      show isFin (s.ws.map wakeAll) w = true
      rw [isFin_wake]; exact I.outside w hw hn
    · intro rem todo' ho'
      cases ho'
      exact ⟨fun i hi => Or.inl hi, fun i hi => hi⟩
    · intro todo' ho'; cases ho'
    · intro hst; exact I.stopped_ok hst
  | joinOne w rem todo ho hf =>
    obtain ⟨h1, h2⟩ := I.joining _ _ ho
    refine ⟨I.len, I.nodup, I.valid, I.outside, ?_, ?_, I.stopped_ok, fun _ h => by cases h⟩
    · intro rem' todo' ho'
      cases ho'
      refine ⟨fun i hi => ?_, fun i hi => h2 i (List.mem_cons_of_mem _ hi)⟩
      rcases h1 i hi with h | h
      · rcases List.mem_cons.1 h with e | h
        · rw [e]; exact Or.inr hf
        · exact Or.inl h
      · exact Or.inr h
    · intro todo' ho'; cases ho'
  | joinDone todo ho =>
    obtain ⟨h1, _⟩ := I.joining _ _ ho
    refine ⟨Nat.zero_le _, List.nodup_nil, ?_, ?_, ?_, ?_, ?_, fun _ h => by cases h⟩
    · intro i hi; cases hi
    · intro w hw _
      by_cases hin : w ∈ s.pool
      · rcases h1 w hin with h | h
        · cases h
        · exact h
      · exact I.outside w hw hin
    · intro rem' todo' ho'; cases ho'
    · intro todo' ho'; rfl
    · intro hst; exact ⟨rfl, (I.stopped_ok hst).2⟩
  | stopClear todo ho =>
    have hp := I.clearq _ ho
    refine ⟨I.len, I.nodup, I.valid, I.outside, ?_, ?_, ?_, fun _ h => by cases h⟩
    · intro rem' todo' ho'; cases ho'
    · intro todo' ho'; cases ho'
    · intro _; exact ⟨hp, rfl⟩
  | updNoop todo ho ht =>
    exact inv_frame I rfl rfl rfl (fun _ h => h) (fun h => by cases h) (fun _ h => by cases h) (fun h => ⟨h, id⟩)
  | updBegin todo T ho ht =>
    exact inv_frame I rfl rfl rfl (fun _ h => h) (fun h => by cases h) (fun _ h => by cases h) (fun h => ⟨h, id⟩)
  | updNotify todo ho =>
    exact inv_frame I rfl rfl (by simp) (fun i h => by show isFin (s.ws.map wakeAll) i = true; rw [isFin_wake]; exact h)
      (fun h => by cases h) (fun _ h => by cases h) (fun h => ⟨h, id⟩)
  | reapYes i rem todo ho hf =>
    refine ⟨?_, ?_, ?_, ?_, ?_, ?_, ?_, fun _ h => by cases h⟩
    · exact Nat.le_trans (List.length_filter_le _ _) I.len
    · exact I.nodup.filter _
    · intro j hj; exact I.valid j (List.mem_filter.1 hj).1
    · intro w hw hn
      by_cases hin : w ∈ s.pool
      · have hn : w ∉ s.pool.filter (isNot i) := hn
        rw [List.mem_filter] at hn
        by_cases hwi : w = i
        · rw [hwi]; exact hf
        · exact absurd ⟨hin, by unfold isNot; simpa using hwi⟩ hn
      · exact I.outside w hw hin
    · intro rem' todo' ho'; cases ho'
    · intro todo' ho'; cases ho'
    · intro hst
      obtain ⟨h1, h2⟩ := I.stopped_ok hst
      refine ⟨?_, h2⟩
      show s.pool.filter (isNot i) = []
      rw [h1]; rfl
  | reapNo i rem todo ho hf =>
    exact inv_frame I rfl rfl rfl (fun _ h => h) (fun h => by cases h) (fun _ h => by cases h) (fun h => ⟨h, id⟩)
  | reapDone todo ho =>
    exact inv_frame I rfl rfl rfl (fun _ h => h) (fun h => by cases h) (fun _ h => by cases h) (fun h => ⟨h, id⟩)
  | tick d todo ho =>
    exact inv_frame I rfl rfl rfl (fun _ h => h) (fun h => by cases h) (fun _ h => by cases h) (fun h => ⟨h, id⟩)
  | workerExit w wk hw ha hr => exact inv_worker I hw (awake_ne_fin ha) rfl rfl rfl rfl rfl id
  | workerTake w wk tk q hw ha hr hq =>
    exact inv_worker I hw (awake_ne_fin ha) rfl rfl rfl rfl rfl (fun h => by rw [hq] at h; cases h)
  | workerExpire w wk hw ha hr hq he => exact inv_worker I hw (awake_ne_fin ha) rfl rfl rfl rfl rfl id
  | workerPark w wk hw ha hr hq he => exact inv_worker I hw (awake_ne_fin ha) rfl rfl rfl rfl rfl id
  | workerRunEnd w wk tk hw hp => exact inv_worker I hw (ne_fin_of_eq hp nofun) rfl rfl rfl rfl rfl id
  | workerDelete w wk tk hw hp => exact inv_worker I hw (ne_fin_of_eq hp nofun) rfl rfl rfl rfl rfl id
  | workerFinish w wk hw hp => exact inv_worker I hw (ne_fin_of_eq hp nofun) rfl rfl rfl rfl rfl id

theorem inv_sstep {s t : State} (I : Inv s) (h : SStep s t) : Inv t := by
  cases h with
  | code hs => exact inv_step I hs
  | spurious w wk hw hp => exact inv_worker I hw (ne_fin_of_eq hp nofun) rfl rfl rfl rfl rfl id
  | envTick d =>
    exact inv_frame I rfl rfl rfl (fun _ h => h) (fun _ => rfl) (fun _ h => Or.inr ⟨h, rfl⟩) (fun h => ⟨h, id⟩)

theorem step_max {s t : State} (h : Step s t) : t.max = s.max := by cases h <;> rfl

theorem sstep_max {s t : State} (h : SStep s t) : t.max = s.max := by
  cases h with
  | code hs => exact step_max hs
  | spurious => rfl
  | envTick => rfl

theorem reach_inv {max timeout prog s} (h : Reach max timeout prog s) : Inv s ∧ s.max = max := by
  induction h with
  | init => exact ⟨inv_init _ _ _, rfl⟩
  | step _ hs ih => exact ⟨inv_sstep ih.1 hs, by rw [sstep_max hs]; exact ih.2⟩

/-! ### task ownership -/

def Pc.task? : Pc → Option Task
  | .running t => some t
  | .ran t => some t
  | _ => none

def Pc.ran? : Pc → Option Task
  | .ran t => some t
  | _ => none

def Wk.task? (w : Wk) : Option Task := w.pc.task?
def Wk.ran? (w : Wk) : Option Task := w.pc.ran?

/-- tasks in the workers' hands (taken from the queue, not yet deleted) -/
def hands (ws : List Wk) : List Task := ws.filterMap Wk.task?
/-- tasks whose body has returned and whose `delete` is pending -/
def rans (ws : List Wk) : List Task := ws.filterMap Wk.ran?

def Owner.todo : Owner → List OwnerOp
  | .idle l | .spawn l | .notifyOne l | .stopNotify l | .join _ l | .clearQ l | .updNotify l | .updReap _ l => l

def tasksOf : List OwnerOp → List Task
  | [] => []
  | .start t :: l => t :: tasksOf l
  | _ :: l => tasksOf l

structure TInv (s : State) : Prop where
  owned : (s.queue ++ hands s.ws ++ s.destroyed).Perm s.submitted
  fresh : (s.submitted ++ tasksOf s.owner.todo).Nodup
  runsnd : s.runs.Nodup
  runsin : ∀ t ∈ s.runs, t ∈ hands s.ws ∨ t ∈ s.destroyed
  dest : ∀ t ∈ s.destroyed, (t ∈ s.dropped ∧ t ∉ s.runs) ∨ t ∈ s.finished
  ranfin : ∀ t ∈ rans s.ws, t ∈ s.finished

theorem task?_wake (w : Wk) : (wakeAll w).task? = w.task? := by
  cases w with | mk pc last => cases pc <;> rfl

theorem ran?_wake (w : Wk) : (wakeAll w).ran? = w.ran? := by
  cases w with | mk pc last => cases pc <;> rfl

theorem awake_task_none {wk : Wk} (h : wk.pc.awake = true) : wk.task? = none := by
  cases wk with | mk pc last =>
  cases pc with
  | check => rfl
  | parked n => rfl
  | _ => simp [Pc.awake] at h

theorem awake_ran_none {wk : Wk} (h : wk.pc.awake = true) : wk.ran? = none := by
  cases wk with | mk pc last =>
  cases pc with
  | check => rfl
  | parked n => rfl
  | _ => simp [Pc.awake] at h

theorem task?_of_pc {wk : Wk} {p : Pc} (h : wk.pc = p) : wk.task? = p.task? := by unfold Wk.task?; rw [h]
theorem ran?_of_pc {wk : Wk} {p : Pc} (h : wk.pc = p) : wk.ran? = p.ran? := by unfold Wk.ran?; rw [h]

theorem TInv.subnd {s : State} (T : TInv s) : s.submitted.Nodup := (List.nodup_append.1 T.fresh).1

theorem TInv.nd {s : State} (T : TInv s) : (s.queue ++ hands s.ws ++ s.destroyed).Nodup :=
  T.owned.nodup_iff.2 T.subnd

theorem TInv.queue_fresh {s : State} (T : TInv s) {t : Task} (hq : t ∈ s.queue) : t ∉ hands s.ws ∧ t ∉ s.destroyed := by
  have nd := T.nd
  rw [List.append_assoc] at nd
  have hd := (List.nodup_append.1 nd).2.2 t hq
  exact ⟨fun h => hd t (List.mem_append_left _ h) rfl, fun h => hd t (List.mem_append_right _ h) rfl⟩

theorem TInv.queue_not_run {s : State} (T : TInv s) {t : Task} (hq : t ∈ s.queue) : t ∉ s.runs := by
  intro hr
  rcases T.runsin t hr with h | h
  · exact (T.queue_fresh hq).1 h
  · exact (T.queue_fresh hq).2 h

theorem perm_clear (q h d : List Task) : ([] ++ h ++ (d ++ q)).Perm (q ++ h ++ d) := by
  simp only [List.nil_append, List.append_assoc]
  have h1 : (h ++ (d ++ q)).Perm (q ++ (h ++ d)) := by
    rw [← List.append_assoc]; exact List.perm_append_comm
  exact h1

theorem tinv_init (max timeout prog) (hp : (tasksOf prog).Nodup) : TInv (init max timeout prog) := by
  refine ⟨by simp [init, hands], ?_, List.nodup_nil, ?_, ?_, ?_⟩
  · simpa [init, Owner.todo] using hp
  · intro t ht; cases ht
  · intro t ht; cases ht
  · intro t ht; cases ht

/-- steps that touch no task -/
theorem tinv_quiet {s t : State} (T : TInv s) (hq : t.queue = s.queue) (hh : hands t.ws = hands s.ws)
    (hrn : rans t.ws = rans s.ws) (hsub : t.submitted = s.submitted)
    (htodo : tasksOf t.owner.todo = tasksOf s.owner.todo) (hr : t.runs = s.runs) (hf : t.finished = s.finished)
    (hd : t.destroyed = s.destroyed) (hdr : t.dropped = s.dropped) : TInv t :=
  ⟨by rw [hq, hh, hd, hsub]; exact T.owned, by rw [hsub, htodo]; exact T.fresh, by rw [hr]; exact T.runsnd,
   by rw [hr, hh, hd]; exact T.runsin, by rw [hd, hdr, hr, hf]; exact T.dest, by rw [hrn, hf]; exact T.ranfin⟩

/-- a worker's step between two task-less program points -/
theorem tinv_idle_worker {s t : State} (T : TInv s) {w : Nat} {a x : Wk} (hw : s.ws[w]? = some a)
    (ha : a.task? = none) (hx : x.task? = none) (har : a.ran? = none) (hxr : x.ran? = none)
    (hws : t.ws = s.ws.set w x) (hq : t.queue = s.queue) (hsub : t.submitted = s.submitted)
    (ho : tasksOf t.owner.todo = tasksOf s.owner.todo) (hr : t.runs = s.runs) (hf : t.finished = s.finished)
    (hd : t.destroyed = s.destroyed) (hdr : t.dropped = s.dropped) : TInv t :=
  tinv_quiet T hq (by rw [hws]; exact filterMap_set_none hw ha hx) (by rw [hws]; exact filterMap_set_none hw har hxr)
    hsub ho hr hf hd hdr

theorem tinv_clear {s : State} (T : TInv s) (o : Owner) (st : Bool) (ho : tasksOf o.todo = tasksOf s.owner.todo) :
    TInv { destroyAll s with owner := o, stopped := st } := by
  refine ⟨?_, ?_, T.runsnd, ?_, ?_, T.ranfin⟩
  · show ([] ++ hands s.ws ++ (s.destroyed ++ s.queue)).Perm s.submitted
    exact (perm_clear _ _ _).trans T.owned
  · show (s.submitted ++ tasksOf o.todo).Nodup
    rw [ho]; exact T.fresh
  · intro t ht
    show t ∈ hands s.ws ∨ t ∈ s.destroyed ++ s.queue
    exact (T.runsin t ht).imp id (List.mem_append_left _)
  · intro t ht
    have ht : t ∈ s.destroyed ++ s.queue := ht
    show (t ∈ s.dropped ++ s.queue ∧ t ∉ s.runs) ∨ t ∈ s.finished
    rcases List.mem_append.1 ht with h | h
    · exact (T.dest t h).imp (fun ⟨a, b⟩ => ⟨List.mem_append_left _ a, b⟩) id
    · exact Or.inl ⟨List.mem_append_right _ h, T.queue_not_run h⟩

theorem tinv_step {s t : State} (T : TInv s) (h : Step s t) : TInv t := by
  cases h with
  | start tk todo ho =>
    have hf := T.fresh; rw [ho] at hf
    simp only [Owner.todo, tasksOf] at hf
    refine ⟨?_, ?_, T.runsnd, T.runsin, T.dest, T.ranfin⟩
    · show ((s.queue ++ [tk]) ++ hands s.ws ++ s.destroyed).Perm (s.submitted ++ [tk])
      have := T.owned.append_right [tk]
      refine List.Perm.trans ?_ this
      simp only [List.append_assoc]
      refine List.Perm.append_left _ ?_
      exact (List.perm_append_comm (l₁ := [tk])).trans (by simp [List.append_assoc])
    · show (s.submitted ++ [tk] ++ tasksOf todo).Nodup
      simpa [List.append_assoc] using hf
  | spawnYes todo ho hok =>
    exact tinv_quiet T rfl (by simp [hands, List.filterMap_append, Wk.task?, Pc.task?])
      (by simp [rans, List.filterMap_append, Wk.ran?, Pc.ran?]) rfl (by rw [ho]; rfl) rfl rfl rfl rfl
  | spawnNo todo ho hok => exact tinv_quiet T rfl rfl rfl rfl (by rw [ho]; rfl) rfl rfl rfl rfl
  | spawnFail todo ho hok => exact tinv_quiet T rfl rfl rfl rfl (by rw [ho]; rfl) rfl rfl rfl rfl
  | notifyHit todo w wk ho hw hp =>
    exact tinv_idle_worker T hw (by rw [task?_of_pc hp]; rfl) rfl (by rw [ran?_of_pc hp]; rfl) rfl rfl rfl rfl
      (by rw [ho]; rfl) rfl rfl rfl rfl
  | notifyMiss todo ho hn => exact tinv_quiet T rfl rfl rfl rfl (by rw [ho]; rfl) rfl rfl rfl rfl
  | clear todo ho => exact tinv_clear T (.idle todo) s.stopped (by rw [ho]; rfl)
  | stop todo ho => exact tinv_quiet T rfl rfl rfl rfl (by rw [ho]; rfl) rfl rfl rfl rfl
  | stopNotify todo ho =>
    exact tinv_quiet T rfl (filterMap_wake task?_wake _) (filterMap_wake ran?_wake _) rfl (by rw [ho]; rfl) rfl rfl rfl rfl
  | joinOne w rem todo ho hf => exact tinv_quiet T rfl rfl rfl rfl (by rw [ho]; rfl) rfl rfl rfl rfl
  | joinDone todo ho => exact tinv_quiet T rfl rfl rfl rfl (by rw [ho]; rfl) rfl rfl rfl rfl
  | stopClear todo ho => exact tinv_clear T (.idle todo) true (by rw [ho]; rfl)
  | updNoop todo ho ht => exact tinv_quiet T rfl rfl rfl rfl (by rw [ho]; rfl) rfl rfl rfl rfl
  | updBegin todo T' ho ht => exact tinv_quiet T rfl rfl rfl rfl (by rw [ho]; rfl) rfl rfl rfl rfl
  | updNotify todo ho =>
    exact tinv_quiet T rfl (filterMap_wake task?_wake _) (filterMap_wake ran?_wake _) rfl (by rw [ho]; rfl) rfl rfl rfl rfl
  | reapYes i rem todo ho hf => exact tinv_quiet T rfl rfl rfl rfl (by rw [ho]; rfl) rfl rfl rfl rfl
  | reapNo i rem todo ho hf => exact tinv_quiet T rfl rfl rfl rfl (by rw [ho]; rfl) rfl rfl rfl rfl
  | reapDone todo ho => exact tinv_quiet T rfl rfl rfl rfl (by rw [ho]; rfl) rfl rfl rfl rfl
  | tick d todo ho => exact tinv_quiet T rfl rfl rfl rfl (by rw [ho]; rfl) rfl rfl rfl rfl
  | workerExit w wk hw ha hr =>
    exact tinv_idle_worker T hw (awake_task_none ha) rfl (awake_ran_none ha) rfl rfl rfl rfl rfl rfl rfl rfl rfl
  | workerExpire w wk hw ha hr hq he =>
    exact tinv_idle_worker T hw (awake_task_none ha) rfl (awake_ran_none ha) rfl rfl rfl rfl rfl rfl rfl rfl rfl
  | workerPark w wk hw ha hr hq he =>
    exact tinv_idle_worker T hw (awake_task_none ha) rfl (awake_ran_none ha) rfl rfl rfl rfl rfl rfl rfl rfl rfl
  | workerFinish w wk hw hp =>
    exact tinv_idle_worker T hw (by rw [task?_of_pc hp]; rfl) rfl (by rw [ran?_of_pc hp]; rfl) rfl rfl rfl rfl rfl rfl rfl rfl rfl
  | workerTake w wk tk q hw ha hr hq =>
    have hmem : tk ∈ s.queue := by rw [hq]; exact List.mem_cons_self
    have hh : (hands (s.ws.set w { wk with pc := .running tk })).Perm (tk :: hands s.ws) :=
      filterMap_set_take hw (awake_task_none ha) rfl
    have hnr := T.queue_not_run hmem
    refine ⟨?_, T.fresh, ?_, ?_, ?_, ?_⟩
    · show (q ++ hands (s.ws.set w { wk with pc := .running tk }) ++ s.destroyed).Perm s.submitted
      have := T.owned; rw [hq] at this
      refine List.Perm.trans ?_ this
      refine List.Perm.append_right _ ?_
      exact (hh.append_left q).trans (by simp)
    · show (s.runs ++ [tk]).Nodup
      rw [List.nodup_append]
      refine ⟨T.runsnd, by simp, ?_⟩
      intro a ha' b hb e
      rw [List.mem_singleton] at hb
      rw [e, hb] at ha'; exact hnr ha'
    · intro t ht
      have ht : t ∈ s.runs ++ [tk] := ht
      show t ∈ hands (s.ws.set w { wk with pc := .running tk }) ∨ t ∈ s.destroyed
      rcases List.mem_append.1 ht with h | h
      · exact (T.runsin t h).imp (fun h' => hh.mem_iff.2 (List.mem_cons_of_mem _ h')) id
      · rw [List.mem_singleton] at h; rw [h]; exact Or.inl (hh.mem_iff.2 List.mem_cons_self)
    · intro t ht
      show (t ∈ s.dropped ∧ t ∉ s.runs ++ [tk]) ∨ t ∈ s.finished
      refine (T.dest t ht).imp (fun ⟨a, b⟩ => ⟨a, ?_⟩) id
      intro hm
      rcases List.mem_append.1 hm with h | h
      · exact b h
      · rw [List.mem_singleton] at h; rw [h] at ht; exact (T.queue_fresh hmem).2 ht
    · show ∀ t ∈ rans (s.ws.set w { wk with pc := .running tk }), t ∈ s.finished
      unfold rans
      rw [filterMap_set_none hw (awake_ran_none ha) rfl]; exact T.ranfin
  | workerRunEnd w wk tk hw hp =>
    have hh : hands (s.ws.set w ⟨.ran tk, s.now⟩) = hands s.ws :=
      filterMap_set_same hw (by rw [task?_of_pc hp]; rfl)
    have hr : (rans (s.ws.set w ⟨.ran tk, s.now⟩)).Perm (tk :: rans s.ws) :=
      filterMap_set_take hw (by rw [ran?_of_pc hp]; rfl) rfl
    refine ⟨?_, T.fresh, T.runsnd, ?_, ?_, ?_⟩
    · show (s.queue ++ hands (s.ws.set w ⟨.ran tk, s.now⟩) ++ s.destroyed).Perm s.submitted
      rw [hh]; exact T.owned
    · show ∀ t ∈ s.runs, t ∈ hands (s.ws.set w ⟨.ran tk, s.now⟩) ∨ t ∈ s.destroyed
      rw [hh]; exact T.runsin
    · intro t ht
      show (t ∈ s.dropped ∧ t ∉ s.runs) ∨ t ∈ s.finished ++ [tk]
      exact (T.dest t ht).imp id (List.mem_append_left _)
    · intro t ht
      show t ∈ s.finished ++ [tk]
      rcases List.mem_cons.1 (hr.mem_iff.1 ht) with h | h
      · rw [h]; simp
      · exact List.mem_append_left _ (T.ranfin t h)
  | workerDelete w wk tk hw hp =>
    have hh : (hands s.ws).Perm (tk :: hands (s.ws.set w { wk with pc := .check })) :=
      filterMap_set_drop hw (by rw [task?_of_pc hp]; rfl) rfl
    have hr : (rans s.ws).Perm (tk :: rans (s.ws.set w { wk with pc := .check })) :=
      filterMap_set_drop hw (by rw [ran?_of_pc hp]; rfl) rfl
    have hfin : tk ∈ s.finished := T.ranfin tk (hr.mem_iff.2 List.mem_cons_self)
    refine ⟨?_, T.fresh, T.runsnd, ?_, ?_, ?_⟩
    · show (s.queue ++ hands (s.ws.set w { wk with pc := .check }) ++ (s.destroyed ++ [tk])).Perm s.submitted
      refine List.Perm.trans ?_ T.owned
      have e1 : (s.queue ++ hands (s.ws.set w { wk with pc := .check }) ++ (s.destroyed ++ [tk])).Perm
          (s.queue ++ (tk :: hands (s.ws.set w { wk with pc := .check })) ++ s.destroyed) := by
        simp only [List.append_assoc]
        refine List.Perm.append_left _ ?_
        have : (hands (s.ws.set w { wk with pc := .check }) ++ (s.destroyed ++ [tk])).Perm
            (tk :: (hands (s.ws.set w { wk with pc := .check }) ++ s.destroyed)) := by
          rw [← List.append_assoc]; exact List.perm_append_singleton _ _
        simpa using this
      exact e1.trans ((hh.symm.append_left s.queue).append_right s.destroyed)
    · intro t ht
      show t ∈ hands (s.ws.set w { wk with pc := .check }) ∨ t ∈ s.destroyed ++ [tk]
      rcases T.runsin t ht with h | h
      · rcases List.mem_cons.1 (hh.mem_iff.1 h) with e | h'
        · rw [e]; exact Or.inr (by simp)
        · exact Or.inl h'
      · exact Or.inr (List.mem_append_left _ h)
    · intro t ht
      have ht : t ∈ s.destroyed ++ [tk] := ht
      show (t ∈ s.dropped ∧ t ∉ s.runs) ∨ t ∈ s.finished
      rcases List.mem_append.1 ht with h | h
      · exact T.dest t h
      · rw [List.mem_singleton] at h; rw [h]; exact Or.inr hfin
    · intro t ht
      show t ∈ s.finished
      exact T.ranfin t (hr.mem_iff.2 (List.mem_cons_of_mem _ ht))

theorem tinv_sstep {s t : State} (T : TInv s) (h : SStep s t) : TInv t := by
  cases h with
  | code hs => exact tinv_step T hs
  | spurious w wk hw hp =>
    exact tinv_idle_worker T hw (by rw [task?_of_pc hp]; rfl) rfl (by rw [ran?_of_pc hp]; rfl) rfl rfl rfl rfl rfl rfl rfl rfl rfl
  | envTick d => exact tinv_quiet T rfl rfl rfl rfl rfl rfl rfl rfl rfl

theorem reach_tinv {max timeout prog s} (hp : (tasksOf prog).Nodup) (h : Reach max timeout prog s) : TInv s := by
  induction h with
  | init => exact tinv_init _ _ _ hp
  | step _ hs ih => exact tinv_sstep ih hs

/-! ### the executable step function takes steps of the relation -/

theorem noneAsleep_iff {ws : List Wk} : noneAsleep ws = true ↔ ∀ (w : Nat) (wk : Wk), ws[w]? = some wk → wk.pc ≠ .parked false := by
  unfold noneAsleep
  rw [List.all_eq_true]
  constructor
  · intro h w wk hw e
    have := h _ (List.mem_of_getElem? hw)
    simp [asleep, e] at this
  · intro h x hx
    obtain ⟨i, hi, rfl⟩ := List.getElem_of_mem hx
    have := h i _ (List.getElem?_eq_getElem hi)
    simp only [asleep, Bool.not_eq_true', beq_eq_false_iff_ne, ne_eq]
    exact this

theorem awakeStep_step {s : State} {w : Nat} {wk : Wk} (hw : s.ws[w]? = some wk) (ha : wk.pc.awake = true) :
    Step s (awakeStep s w wk) := by
  unfold awakeStep
  by_cases hr : s.running = false
  · rw [if_pos hr]; exact Step.workerExit s w wk hw ha hr
  · rw [if_neg hr]
    have hr' : s.running = true := by
      cases h : s.running with
      | true => rfl
      | false => exact absurd h hr
    split
    · rename_i t q hq; exact Step.workerTake s w wk t q hw ha hr' hq
    · rename_i hq
      by_cases he : expired s wk = true
      · rw [if_pos he]; exact Step.workerExpire s w wk hw ha hr' hq he
      · rw [if_neg he]
        have he' : expired s wk = false := by
          cases h : expired s wk with
          | false => rfl
          | true => exact absurd h he
        exact Step.workerPark s w wk hw ha hr' hq he'

theorem ownerStep?_sound {s t : State} {wk : Option Nat} (h : ownerStep? s wk = some t) : Step s t := by
  unfold ownerStep? at h
  split at h
  · rename_i tk todo ho; cases h; exact Step.start s tk todo ho
  · rename_i todo ho; cases h; exact Step.clear s todo ho
  · rename_i todo ho; cases h; exact Step.stop s todo ho
  · rename_i todo ho
    split at h
    · rename_i ht; cases h; exact Step.updNoop s todo ho ht
    · rename_i T ht; cases h; exact Step.updBegin s todo T ho ht
  · rename_i d todo ho; cases h; exact Step.tick s d todo ho
  · rename_i todo ho
    split at h
    · rename_i hok; cases h; exact Step.spawnYes s todo ho hok
    · rename_i hok; cases h
      exact Step.spawnNo s todo ho (by cases hs : spawnOk s with | false => rfl | true => exact absurd hs hok)
  · rename_i todo w ho
    split at h
    · rename_i wk' hw
      split at h
      · rename_i hp; cases h; exact Step.notifyHit s todo w wk' ho hw hp
      · cases h
    · cases h
  · rename_i todo ho
    split at h
    · rename_i hn; cases h; exact Step.notifyMiss s todo ho (noneAsleep_iff.1 hn)
    · cases h
  · rename_i todo ho; cases h; exact Step.stopNotify s todo ho
  · rename_i w rem todo ho
    split at h
    · rename_i hf; cases h; exact Step.joinOne s w rem todo ho hf
    · cases h
  · rename_i todo ho; cases h; exact Step.joinDone s todo ho
  · rename_i todo ho; cases h; exact Step.stopClear s todo ho
  · rename_i todo ho; cases h; exact Step.updNotify s todo ho
  · rename_i i rem todo ho
    split at h
    · rename_i hf; cases h; exact Step.reapYes s i rem todo ho hf
    · rename_i hf; cases h
      exact Step.reapNo s i rem todo ho (by cases hs : isFin s.ws i with | false => rfl | true => exact absurd hs hf)
  · rename_i todo ho; cases h; exact Step.reapDone s todo ho
  · cases h

theorem workerStep?_sound {s t : State} {w : Nat} (h : workerStep? s w = some t) : Step s t := by
  unfold workerStep? at h
  split at h
  · cases h
  · rename_i wk hw
    split at h
    · rename_i hp; cases h; exact awakeStep_step hw (by rw [hp]; rfl)
    · rename_i hp; cases h; exact awakeStep_step hw (by rw [hp]; rfl)
    · cases h
    · rename_i tk hp; cases h; exact Step.workerRunEnd s w wk tk hw hp
    · rename_i tk hp; cases h; exact Step.workerDelete s w wk tk hw hp
    · rename_i hp; cases h; exact Step.workerFinish s w wk hw hp
    · cases h

/-- the executable step function only takes steps of the relation the theorems quantify over -/
theorem xstep?_sound {s t : State} {l : Label} (h : xstep? s l = some t) : Step s t := by
  cases l with
  | owner wk => exact ownerStep?_sound h
  | worker w => exact workerStep?_sound h

theorem xrun?_reach {max timeout prog} {s t : State} {ls : List Label} (h : Reach max timeout prog s)
    (hr : xrun? s ls = some t) : Reach max timeout prog t := by
  induction ls generalizing s with
  | nil => simp [xrun?] at hr; subst hr; exact h
  | cons l ls ih =>
    unfold xrun? at hr
    split at hr
    · rename_i u hu; exact ih (h.code (xstep?_sound hu)) hr
    · cases hr

/-! ### progress inside stop() -/

/-- the owner is inside stop(): flag cleared … final clear() pending -/
def inStop (o : Owner) : Prop :=
  (∃ todo, o = .stopNotify todo) ∨ (∃ rem todo, o = .join rem todo) ∨ (∃ todo, o = .clearQ todo)

structure PInv (s : State) : Prop where
  flag : ((∃ todo, s.owner = .stopNotify todo) ∨ (∃ rem todo, s.owner = .join rem todo)) → s.running = false
  awake : ∀ rem todo, s.owner = .join rem todo → ∀ wk ∈ s.ws, wk.pc ≠ .parked false

theorem pinv_out {t : State} (h1 : ∀ todo, t.owner ≠ .stopNotify todo) (h2 : ∀ rem todo, t.owner ≠ .join rem todo) : PInv t :=
  ⟨fun h => by
     rcases h with ⟨todo, h⟩ | ⟨rem, todo, h⟩
     · exact absurd h (h1 todo)
     · exact absurd h (h2 rem todo),
   fun rem todo h => absurd h (h2 rem todo)⟩

theorem pinv_worker {s t : State} (P : PInv s) {w : Nat} {x : Wk} (ho : t.owner = s.owner) (hr : t.running = s.running)
    (hws : t.ws = s.ws.set w x) (hx : x.pc ≠ .parked false ∨ s.running = true) : PInv t := by
  refine ⟨by rw [ho, hr]; exact P.flag, ?_⟩
  intro rem todo ho' wk hwk
  rw [ho] at ho'
  rw [hws] at hwk
  rcases List.mem_or_eq_of_mem_set hwk with h | h
  · exact P.awake rem todo ho' wk h
  · subst h
    rcases hx with hx | hx
    · exact hx
    · have := P.flag (Or.inr ⟨rem, todo, ho'⟩)
      rw [hx] at this; cases this

theorem wake_not_asleep (w : Wk) : (wakeAll w).pc ≠ .parked false := by
  cases w with | mk pc last => cases pc <;> (intro h; cases h)

theorem pinv_step {s t : State} (P : PInv s) (h : Step s t) : PInv t := by
  cases h with
  | start tk todo ho => exact pinv_out (fun _ h => by cases h) (fun _ _ h => by cases h)
  | spawnYes todo ho hok => exact pinv_out (fun _ h => by cases h) (fun _ _ h => by cases h)
  | spawnNo todo ho hok => exact pinv_out (fun _ h => by cases h) (fun _ _ h => by cases h)
  | spawnFail todo ho hok => exact pinv_out (fun _ h => by cases h) (fun _ _ h => by cases h)
  | notifyHit todo w wk ho hw hp => exact pinv_out (fun _ h => by cases h) (fun _ _ h => by cases h)
  | notifyMiss todo ho hn => exact pinv_out (fun _ h => by cases h) (fun _ _ h => by cases h)
  | clear todo ho => exact pinv_out (fun _ h => by cases h) (fun _ _ h => by cases h)
  | stop todo ho => exact ⟨fun _ => rfl, fun _ _ h => by cases h⟩
  | stopNotify todo ho =>
    refine ⟨fun _ => P.flag (Or.inl ⟨todo, ho⟩), ?_⟩
    intro rem todo' _ wk hwk
    have hwk : wk ∈ s.ws.map wakeAll := hwk
    obtain ⟨w', _, rfl⟩ := List.mem_map.1 hwk
    exact wake_not_asleep w'
  | joinOne w rem todo ho hf =>
    exact ⟨fun _ => P.flag (Or.inr ⟨_, _, ho⟩), fun _ _ _ => P.awake _ _ ho⟩
  | joinDone todo ho => exact pinv_out (fun _ h => by cases h) (fun _ _ h => by cases h)
  | stopClear todo ho => exact pinv_out (fun _ h => by cases h) (fun _ _ h => by cases h)
  | updNoop todo ho ht => exact pinv_out (fun _ h => by cases h) (fun _ _ h => by cases h)
  | updBegin todo T ho ht => exact pinv_out (fun _ h => by cases h) (fun _ _ h => by cases h)
  | updNotify todo ho => exact pinv_out (fun _ h => by cases h) (fun _ _ h => by cases h)
  | reapYes i rem todo ho hf => exact pinv_out (fun _ h => by cases h) (fun _ _ h => by cases h)
  | reapNo i rem todo ho hf => exact pinv_out (fun _ h => by cases h) (fun _ _ h => by cases h)
  | reapDone todo ho => exact pinv_out (fun _ h => by cases h) (fun _ _ h => by cases h)
  | tick d todo ho => exact pinv_out (fun _ h => by cases h) (fun _ _ h => by cases h)
  | workerExit w wk hw ha hr => exact pinv_worker P rfl rfl rfl (Or.inl nofun)
  | workerTake w wk tk q hw ha hr hq => exact pinv_worker P rfl rfl rfl (Or.inl nofun)
  | workerExpire w wk hw ha hr hq he => exact pinv_worker P rfl rfl rfl (Or.inl nofun)
  | workerPark w wk hw ha hr hq he => exact pinv_worker P rfl rfl rfl (Or.inr hr)
  | workerRunEnd w wk tk hw hp => exact pinv_worker P rfl rfl rfl (Or.inl nofun)
  | workerDelete w wk tk hw hp => exact pinv_worker P rfl rfl rfl (Or.inl nofun)
  | workerFinish w wk hw hp => exact pinv_worker P rfl rfl rfl (Or.inl nofun)

theorem pinv_sstep {s t : State} (P : PInv s) (h : SStep s t) : PInv t := by
  cases h with
  | code hs => exact pinv_step P hs
  | spurious w wk hw hp => exact pinv_worker P rfl rfl rfl (Or.inl nofun)
  | envTick d => exact ⟨P.flag, P.awake⟩

theorem reach_pinv {max timeout prog s} (h : Reach max timeout prog s) : PInv s := by
  induction h with
  | init => exact pinv_out (fun _ h => by cases h) (fun _ _ h => by cases h)
  | step _ hs ih => exact pinv_sstep ih hs

theorem stop_progress {s : State} (I : Inv s) (P : PInv s) (h : inStop s.owner) : ∃ t, Step s t := by
  rcases h with ⟨todo, ho⟩ | ⟨rem, todo, ho⟩ | ⟨todo, ho⟩
  · exact ⟨_, Step.stopNotify s todo ho⟩
  · cases rem with
    | nil => exact ⟨_, Step.joinDone s todo ho⟩
    | cons w rem =>
      have hin : w ∈ s.pool := (I.joining _ _ ho).2 w List.mem_cons_self
      have hlt : w < s.ws.length := I.valid w hin
      have hw : s.ws[w]? = some s.ws[w] := List.getElem?_eq_getElem hlt
      have hrun : s.running = false := P.flag (Or.inr ⟨_, _, ho⟩)
      have hna := P.awake _ _ ho s.ws[w] (List.getElem_mem hlt)
      cases hp : s.ws[w].pc with
      | check => exact ⟨_, Step.workerExit s w _ hw (by rw [hp]; rfl) hrun⟩
      | parked n =>
        cases n with
        | true => exact ⟨_, Step.workerExit s w _ hw (by rw [hp]; rfl) hrun⟩
        | false => exact absurd hp hna
      | running tk => exact ⟨_, Step.workerRunEnd s w _ tk hw hp⟩
      | ran tk => exact ⟨_, Step.workerDelete s w _ tk hw hp⟩
      | exited => exact ⟨_, Step.workerFinish s w _ hw hp⟩
      | finished => exact ⟨_, Step.joinOne s w rem todo ho (isFin_iff.2 ⟨_, hw, hp⟩)⟩
  · exact ⟨_, Step.stopClear s todo ho⟩

end TPoolX
