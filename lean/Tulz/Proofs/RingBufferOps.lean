import Tulz.Proofs.RingBuffer
/-
  push / pop at both ends preserve `Rep` and return what the bounded deque returns.
-/
namespace Tulz
namespace RB
variable {α : Type}

theorem shift_fwd (pos cap i : Nat) : ((pos + 1) % cap + i) % cap = (pos + (i + 1)) % cap := by
  rw [Nat.mod_add_mod]; congr 1; omega

theorem shift_bwd (pos cap i : Nat) (hc : 0 < cap) : ((pos + cap - 1) % cap + (i + 1)) % cap = (pos + i) % cap := by
  rw [Nat.mod_add_mod]
  have : pos + cap - 1 + (i + 1) = pos + i + cap := by omega
  rw [this, Nat.add_mod_right]

theorem shift_bwd0 (pos cap : Nat) (hc : 0 < cap) : ((pos + cap - 1) % cap + 0) % cap = (pos + (cap - 1)) % cap := by
  rw [Nat.add_zero, Nat.mod_mod]; congr 1; omega

theorem phys_zero {b : RB α} {xs} (h : Rep b xs) (hc : 0 < b.cap) : b.phys 0 = b.pos := by
  simp only [RB.phys, Nat.add_zero]; exact Nat.mod_eq_of_lt (h.pos_lt hc)

theorem phys_cap (b : RB α) : b.phys b.cap = b.phys 0 := by
  simp only [RB.phys, Nat.add_mod_right, Nat.add_zero, Nat.mod_mod]

theorem Rep.set_other {b : RB α} {xs} (h : Rep b xs) {i j : Nat} (hi : i < b.cap) (hj : j < b.cap) (hne : i ≠ j)
    (s : Slot α) : (b.data.set (b.phys j) s)[b.phys i]? = b.data[b.phys i]? := by
  apply List.getElem?_set_ne
  intro e; exact hne (h.phys_inj hi hj e.symm)

theorem Rep.set_self {b : RB α} {xs} (h : Rep b xs) {j : Nat} (hc : 0 < b.cap) (s : Slot α) :
    (b.data.set (b.phys j) s)[b.phys j]? = some s := by
  apply List.getElem?_set_self
  rw [h.data_len]; exact h.phys_lt j hc

theorem Rep.set_pos_other {b : RB α} {xs} (h : Rep b xs) {i : Nat} (hi : i < b.cap) (hne : i ≠ 0)
    (s : Slot α) : (b.data.set b.pos s)[b.phys i]? = b.data[b.phys i]? := by
  have hc : 0 < b.cap := by omega
  have := h.set_other hi hc hne s
  rwa [phys_zero h hc] at this

theorem Rep.set_pos_self {b : RB α} {xs} (h : Rep b xs) (hc : 0 < b.cap) (s : Slot α) :
    (b.data.set b.pos s)[b.phys 0]? = some s := by
  have := h.set_self (j := 0) hc s
  rw [phys_zero h hc] at this ⊢
  exact this

theorem getElem_tail_snoc (xs : List α) (x : α) (i : Nat) (hi : i < (xs.tail ++ [x]).length) (hne : xs ≠ []) :
    (xs.tail ++ [x])[i] = if h : i + 1 < xs.length then xs[i + 1] else x := by
  cases xs with
  | nil => exact absurd rfl hne
  | cons y ys =>
    simp only [List.tail_cons, List.length_cons]
    split
    · rename_i hlt
      rw [List.getElem_append_left (by omega)]; rfl
    · rename_i hge
      simp only [List.tail_cons, List.length_append, List.length_cons, List.length_nil] at hi
      have : i = ys.length := by omega
      subst this
      simp

theorem getElem_cons_dropLast (xs : List α) (x : α) (i : Nat) (hi : i < (x :: xs.dropLast).length) :
    (x :: xs.dropLast)[i] = if h0 : i = 0 then x else xs[i - 1]'(by simp at hi; omega) := by
  cases i with
  | zero => simp
  | succ i => simp

/-! ### emplace_back / push_back -/

theorem emplaceBack_ok {b : RB α} {xs} (ow : Bool) (x : α) (h : Rep b xs) (hc : 0 < b.cap)
    (hpre : ow = true ∨ b.size < b.cap) :
    ∃ b', b.emplaceBack ow x = .ok (b', x) ∧ Rep b' (Deque.pushBack ⟨b.cap, xs⟩ x).items ∧ b'.cap = b.cap := by
  have hp := h.pos_lt hc
  by_cases hf : b.size = b.cap
  · -- full: overwrite the first element
    have how : ow = true := by rcases hpre with h1 | h1; exact h1; omega
    have hxl : xs.length = b.cap := by rw [h.len_eq, hf]
    have hne : xs ≠ [] := by intro e; rw [e] at hxl; simp at hxl; omega
    have h0 := h.live 0 (by omega)
    rw [phys_zero h hc] at h0
    have hrep : Rep ({ b with data := b.data.set b.pos (.live x), pos := (b.pos + 1) % b.cap } : RB α) (xs.tail ++ [x]) := by
      refine ⟨?_, ?_, ?_, ?_, ?_, ?_, ?_⟩
      · show (xs.tail ++ [x]).length = b.size
        simp; omega
      · exact h.size_le
      · show (b.data.set b.pos (.live x)).length = b.cap
        simp [h.data_len]
      · intro _; exact Nat.mod_lt _ hc
      · intro e; exact absurd e (by show b.cap ≠ 0; omega)
      · intro i hi
        have hi' : i < b.cap := by simp at hi; omega
        show (b.data.set b.pos (.live x))[((b.pos + 1) % b.cap + i) % b.cap]? = _
        rw [shift_fwd, getElem_tail_snoc xs x i hi hne]
        show (b.data.set b.pos (.live x))[b.phys (i + 1)]? = _
        split
        · rename_i hlt
          rw [h.set_pos_other (by omega) (by omega)]; exact h.live (i + 1) hlt
        · rename_i hge
          have : i + 1 = b.cap := by omega
          rw [this, phys_cap]; exact h.set_pos_self hc _
      · intro i hs hi
        have hs' : b.size ≤ i := hs
        have hi' : i < b.cap := hi
        omega
    refine ⟨({ b with data := b.data.set b.pos (.live x), pos := (b.pos + 1) % b.cap } : RB α), ?_, ?_, rfl⟩
    · have hb := back_ok hrep (by simp)
      simp only [List.getLast_concat] at hb
      simp only [RB.emplaceBack, how, hf, assign_live x h0, Bool.not_true, Bool.false_and, Bool.false_eq_true,
        if_false, if_true]
      simp only [hf] at hb
      simp [bind, Except.bind, hb, pure, Except.pure]
    · have : ¬ xs.length < b.cap := by omega
      simp only [Deque.pushBack, this, if_false]; exact hrep
  · -- room left: construct behind the last element
    have hlt : b.size < b.cap := by have := h.size_le; omega
    have hxl : xs.length < b.cap := by rw [h.len_eq]; exact hlt
    have hd := h.dead_slot b.size (Nat.le_refl _) hlt
    have hrep : Rep ({ b with data := b.data.set (b.phys b.size) (.live x), size := b.size + 1 } : RB α) (xs ++ [x]) := by
      refine ⟨?_, ?_, ?_, h.pos_lt, h.pos_z, ?_, ?_⟩
      · show (xs ++ [x]).length = b.size + 1
        simp [h.len_eq]
      · show b.size + 1 ≤ b.cap
        omega
      · show (b.data.set (b.phys b.size) (.live x)).length = b.cap
        simp [h.data_len]
      · intro i hi
        have hi' : i < b.size + 1 := by simp [h.len_eq] at hi; exact hi
        show (b.data.set (b.phys b.size) (.live x))[b.phys i]? = _
        by_cases he : i = b.size
        · subst he
          rw [h.set_self hc]
          congr 2
          simp [← h.len_eq]
        · have hil : i < xs.length := by rw [h.len_eq]; omega
          rw [h.set_other (by omega) hlt he, List.getElem_append_left hil]
          exact h.live i hil
      · intro i hs hi v
        have hs' : b.size + 1 ≤ i := hs
        show (b.data.set (b.phys b.size) (.live x))[b.phys i]? ≠ _
        rw [h.set_other hi hlt (by omega)]
        exact h.dead i (by omega) hi v
    refine ⟨({ b with data := b.data.set (b.phys b.size) (.live x), size := b.size + 1 } : RB α), ?_, ?_, rfl⟩
    · have hb := back_ok hrep (by simp)
      simp only [List.getLast_concat] at hb
      have hnlt : (b.size < b.cap) = True := eq_true hlt
      simp only [RB.emplaceBack, hf, hnlt, decide_true, Bool.not_true, Bool.and_false, if_false,
        Bool.false_eq_true, construct_dead x hd]
      simp [bind, Except.bind, hb, pure, Except.pure]
    · simp only [Deque.pushBack, hxl, if_true]; exact hrep

/-! ### emplace_front / push_front -/

theorem emplaceFront_ok {b : RB α} {xs} (ow : Bool) (x : α) (h : Rep b xs) (hc : 0 < b.cap)
    (hpre : ow = true ∨ b.size < b.cap) :
    ∃ b', b.emplaceFront ow x = .ok (b', x) ∧ Rep b' (Deque.pushFront ⟨b.cap, xs⟩ x).items ∧ b'.cap = b.cap := by
  have hp := h.pos_lt hc
  have hpl : (b.pos + b.cap - 1) % b.cap = b.phys (b.cap - 1) := by
    simp only [RB.phys]; congr 1; omega
  by_cases hf : b.size = b.cap
  · have how : ow = true := by rcases hpre with h1 | h1; exact h1; omega
    have hxl : xs.length = b.cap := by rw [h.len_eq, hf]
    have hlast := h.live (b.cap - 1) (by omega)
    have hrep : Rep ({ b with data := b.data.set ((b.pos + b.cap - 1) % b.cap) (.live x), pos := (b.pos + b.cap - 1) % b.cap } : RB α) (x :: xs.dropLast) := by
      refine ⟨?_, h.size_le, ?_, ?_, ?_, ?_, ?_⟩
      · show (x :: xs.dropLast).length = b.size
        simp; omega
      · show (b.data.set _ (.live x)).length = b.cap
        simp [h.data_len]
      · intro _; exact Nat.mod_lt _ hc
      · intro e; exact absurd e (by show b.cap ≠ 0; omega)
      · intro i hi
        have hi' : i < b.cap := by simp at hi; omega
        show (b.data.set ((b.pos + b.cap - 1) % b.cap) (.live x))[((b.pos + b.cap - 1) % b.cap + i) % b.cap]? = _
        rw [getElem_cons_dropLast xs x i hi]
        cases i with
        | zero =>
          rw [shift_bwd0 _ _ hc, hpl]
          simp only [dite_true]
          exact h.set_self hc _
        | succ i =>
          rw [shift_bwd _ _ _ hc, hpl]
          simp only [Nat.succ_ne_zero, dite_false, Nat.add_sub_cancel]
          show (b.data.set (b.phys (b.cap - 1)) (.live x))[b.phys i]? = _
          rw [h.set_other (i := i) (j := b.cap - 1) (by omega) (by omega) (by omega)]
          exact h.live i (by omega)
      · intro i hs hi
        have hs' : b.size ≤ i := hs
        have hi' : i < b.cap := hi
        omega
    refine ⟨({ b with data := b.data.set ((b.pos + b.cap - 1) % b.cap) (.live x), pos := (b.pos + b.cap - 1) % b.cap } : RB α), ?_, ?_, rfl⟩
    · have hb := front_ok hrep (by simp)
      simp only [List.head_cons] at hb
      rw [← hpl] at hlast
      simp only [RB.emplaceFront, how, hf, assign_live x hlast, Bool.not_true, Bool.false_and, Bool.false_eq_true,
        if_false, if_true]
      simp only [hf] at hb
      simp [bind, Except.bind, hb, pure, Except.pure]
    · have : ¬ xs.length < b.cap := by omega
      simp only [Deque.pushFront, this, if_false]; exact hrep
  · have hlt : b.size < b.cap := by have := h.size_le; omega
    have hxl : xs.length < b.cap := by rw [h.len_eq]; exact hlt
    have hd := h.dead_slot (b.cap - 1) (by omega) (by omega)
    have hrep : Rep ({ b with data := b.data.set ((b.pos + b.cap - 1) % b.cap) (.live x), pos := (b.pos + b.cap - 1) % b.cap, size := b.size + 1 } : RB α) (x :: xs) := by
      refine ⟨?_, ?_, ?_, ?_, ?_, ?_, ?_⟩
      · show (x :: xs).length = b.size + 1
        simp [h.len_eq]
      · show b.size + 1 ≤ b.cap
        omega
      · show (b.data.set _ (.live x)).length = b.cap
        simp [h.data_len]
      · intro _; exact Nat.mod_lt _ hc
      · intro e; exact absurd e (by show b.cap ≠ 0; omega)
      · intro i hi
        have hi' : i < b.size + 1 := by simp [h.len_eq] at hi; exact hi
        show (b.data.set ((b.pos + b.cap - 1) % b.cap) (.live x))[((b.pos + b.cap - 1) % b.cap + i) % b.cap]? = _
        cases i with
        | zero =>
          rw [shift_bwd0 _ _ hc, hpl]
          exact h.set_self hc _
        | succ i =>
          rw [shift_bwd _ _ _ hc, hpl]
          show (b.data.set (b.phys (b.cap - 1)) (.live x))[b.phys i]? = _
          rw [h.set_other (i := i) (j := b.cap - 1) (by omega) (by omega) (by omega)]
          simp only [List.getElem_cons_succ]
          exact h.live i (by rw [h.len_eq]; omega)
      · intro i hs hi v
        have hs' : b.size + 1 ≤ i := hs
        have hi' : i < b.cap := hi
        show (b.data.set ((b.pos + b.cap - 1) % b.cap) (.live x))[((b.pos + b.cap - 1) % b.cap + i) % b.cap]? ≠ _
        obtain ⟨k, rfl⟩ : ∃ k, i = k + 1 := ⟨i - 1, by omega⟩
        rw [shift_bwd _ _ _ hc, hpl]
        show (b.data.set (b.phys (b.cap - 1)) (.live x))[b.phys k]? ≠ _
        rw [h.set_other (i := k) (j := b.cap - 1) (by omega) (by omega) (by omega)]
        exact h.dead k (by omega) (by omega) v
    refine ⟨({ b with data := b.data.set ((b.pos + b.cap - 1) % b.cap) (.live x), pos := (b.pos + b.cap - 1) % b.cap, size := b.size + 1 } : RB α), ?_, ?_, rfl⟩
    · have hb := front_ok hrep (by simp)
      simp only [List.head_cons] at hb
      have hnlt : (b.size < b.cap) = True := eq_true hlt
      rw [← hpl] at hd
      simp only [RB.emplaceFront, hf, hnlt, decide_true, Bool.not_true, Bool.and_false, if_false,
        Bool.false_eq_true, construct_dead x hd]
      simp [bind, Except.bind, hb, pure, Except.pure]
    · simp only [Deque.pushFront, hxl, if_true]; exact hrep

/-! ### pop_back / pop_front -/

theorem popBack_ok {b : RB α} {xs} (h : Rep b xs) (hne : xs ≠ []) :
    ∃ b', b.popBack = .ok (b', xs.getLast hne) ∧ Rep b' xs.dropLast ∧ b'.cap = b.cap := by
  have hl : 0 < xs.length := List.length_pos_iff.mpr hne
  have hs : 0 < b.size := by rw [← h.len_eq]; exact hl
  have hc : 0 < b.cap := by have := h.size_le; omega
  have hlast := h.live (b.size - 1) (by rw [h.len_eq]; omega)
  have hval : xs[b.size - 1]'(by rw [h.len_eq]; omega) = xs.getLast hne := by
    rw [List.getLast_eq_getElem]; congr 1; rw [h.len_eq]
  refine ⟨{ b with size := b.size - 1, data := b.data.set (b.phys (b.size - 1)) .shell }, ?_, ?_, rfl⟩
  · have hs0 : b.size ≠ 0 := by omega
    have hlast' : b.data[({ b with size := b.size - 1 } : RB α).phys (b.size - 1)]? = some (.live (xs.getLast hne)) := by
      rw [← hval]; exact hlast
    simp only [RB.popBack, hs0, if_false, moveOut_live hlast']
    simp [bind, Except.bind, pure, Except.pure, RB.phys]
  · refine ⟨?_, ?_, ?_, h.pos_lt, h.pos_z, ?_, ?_⟩
    · show xs.dropLast.length = b.size - 1
      simp [h.len_eq]
    · show b.size - 1 ≤ b.cap
      have := h.size_le; omega
    · show (b.data.set _ .shell).length = b.cap
      simp [h.data_len]
    · intro i hi
      have hi' : i < b.size - 1 := by simp [h.len_eq] at hi; exact hi
      show (b.data.set (b.phys (b.size - 1)) .shell)[b.phys i]? = _
      have := h.size_le
      rw [h.set_other (by omega) (by omega) (by omega)]
      simp only [List.getElem_dropLast]
      exact h.live i (by rw [h.len_eq]; omega)
    · intro i hsz hi v
      have hsz' : b.size - 1 ≤ i := hsz
      show (b.data.set (b.phys (b.size - 1)) .shell)[b.phys i]? ≠ _
      have := h.size_le
      by_cases he : i = b.size - 1
      · subst he; rw [h.set_self hc]; intro e; cases e
      · rw [h.set_other hi (by omega) he]
        exact h.dead i (by omega) hi v

theorem popFront_ok {b : RB α} {xs} (h : Rep b xs) (hne : xs ≠ []) :
    ∃ b', b.popFront = .ok (b', xs.head hne) ∧ Rep b' xs.tail ∧ b'.cap = b.cap := by
  have hl : 0 < xs.length := List.length_pos_iff.mpr hne
  have hs : 0 < b.size := by rw [← h.len_eq]; exact hl
  have hsl := h.size_le
  have hc : 0 < b.cap := by omega
  have h0 := h.live 0 hl
  have hpz := phys_zero h hc
  have hval : xs[0] = xs.head hne := by
    cases xs with
    | nil => exact absurd rfl hne
    | cons y ys => rfl
  refine ⟨{ b with data := b.data.set b.pos .shell, pos := (b.pos + 1) % b.cap, size := b.size - 1 }, ?_, ?_, rfl⟩
  · have hs0 : b.size ≠ 0 := by omega
    rw [hpz, hval] at h0
    simp only [RB.popFront, hs0, if_false, moveOut_live h0]
    simp [bind, Except.bind, pure, Except.pure]
  · refine ⟨?_, ?_, ?_, ?_, ?_, ?_, ?_⟩
    · show xs.tail.length = b.size - 1
      simp [h.len_eq]
    · show b.size - 1 ≤ b.cap
      omega
    · show (b.data.set _ .shell).length = b.cap
      simp [h.data_len]
    · intro _; exact Nat.mod_lt _ hc
    · intro e; exact absurd e (by show b.cap ≠ 0; omega)
    · intro i hi
      have hi' : i < b.size - 1 := by simp [h.len_eq] at hi; exact hi
      show (b.data.set b.pos .shell)[((b.pos + 1) % b.cap + i) % b.cap]? = _
      rw [shift_fwd]
      show (b.data.set b.pos .shell)[b.phys (i + 1)]? = _
      rw [h.set_pos_other (by omega) (by omega)]
      simp only [List.getElem_tail]
      exact h.live (i + 1) (by rw [h.len_eq]; omega)
    · intro i hsz hi v
      have hsz' : b.size - 1 ≤ i := hsz
      have hi' : i < b.cap := hi
      show (b.data.set b.pos .shell)[((b.pos + 1) % b.cap + i) % b.cap]? ≠ _
      rw [shift_fwd]
      show (b.data.set b.pos .shell)[b.phys (i + 1)]? ≠ _
      by_cases he : i + 1 = b.cap
      · rw [he, phys_cap, h.set_pos_self hc]; intro e; cases e
      · rw [h.set_pos_other (by omega) (by omega)]
        exact h.dead (i + 1) (by omega) (by omega) v

end RB
end Tulz
