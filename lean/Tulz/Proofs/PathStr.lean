import Tulz.Model.PathStr
/- helper lemmas for the string part of C18 -/
namespace Tulz.PathStr

def sepFree (n : Str) : Prop := ∀ c ∈ n, isSep c = false

theorem lastSepBelow_some {s : Str} {k i : Nat} (h : lastSepBelow s k = some i) :
    i < k ∧ i < s.length ∧ ∃ c, s[i]? = some c ∧ isSep c = true := by
  induction k with
  | zero => simp [lastSepBelow] at h
  | succ k ih =>
    unfold lastSepBelow at h
    cases hk : s[k]? with
    | none =>
      rw [hk] at h
      obtain ⟨h1, h2, h3⟩ := ih h
      exact ⟨by omega, h2, h3⟩
    | some c =>
      rw [hk] at h
      by_cases hc : isSep c = true
      · simp only [hc, if_true, Option.some.injEq] at h
        subst h
        have : k < s.length := by
          rcases Nat.lt_or_ge k s.length with h | h
          · exact h
          · rw [List.getElem?_eq_none_iff.mpr h] at hk; cases hk
        exact ⟨by omega, this, c, hk, hc⟩
      · simp only [hc, Bool.false_eq_true, if_false] at h
        obtain ⟨h1, h2, h3⟩ := ih h
        exact ⟨by omega, h2, h3⟩

/-- the scan finds the separator placed in front of a separator-free suffix -/
theorem lastSepBelow_append (pre n : Str) (c : Char) (hc : isSep c = true) (hn : sepFree n) :
    ∀ j, j ≤ n.length → lastSepBelow (pre ++ c :: n) (pre.length + 1 + j) = some pre.length := by
  intro j
  induction j with
  | zero =>
    intro _
    show lastSepBelow (pre ++ c :: n) (pre.length + 1) = some pre.length
    unfold lastSepBelow
    have : (pre ++ c :: n)[pre.length]? = some c := by
      rw [List.getElem?_append_right (Nat.le_refl _)]; simp
    rw [this]; simp [hc]
  | succ j ih =>
    intro hj
    show lastSepBelow (pre ++ c :: n) ((pre.length + 1 + j) + 1) = some pre.length
    unfold lastSepBelow
    have hlt : j < n.length := by omega
    have : (pre ++ c :: n)[pre.length + 1 + j]? = some n[j] := by
      rw [List.getElem?_append_right (by omega)]
      have : pre.length + 1 + j - pre.length = j + 1 := by omega
      rw [this]; simp [hlt]
    rw [this]
    have hx : isSep n[j] = false := hn _ (List.getElem_mem hlt)
    simp only [hx, Bool.false_eq_true, if_false]
    exact ih (by omega)

theorem findLastOf_range (s : Str) (pos : Nat) :
    findLastOf s pos = npos ∨ (findLastOf s pos < s.length ∧ findLastOf s pos ≤ pos) := by
  unfold findLastOf
  by_cases h0 : s.length = 0
  · simp [h0]
  · simp only [h0, if_false]
    cases h : lastSepBelow s (min (s.length - 1) pos + 1) with
    | none => left; rfl
    | some i =>
      right
      obtain ⟨h1, h2, _⟩ := lastSepBelow_some h
      exact ⟨h2, by show i ≤ pos; omega⟩

theorem findLastOf_append (pre n : Str) (c : Char) (hc : isSep c = true) (hn : sepFree n)
    (pos : Nat) (hpos : pre.length + n.length ≤ pos) :
    findLastOf (pre ++ c :: n) pos = pre.length := by
  unfold findLastOf
  have hl : (pre ++ c :: n).length = pre.length + 1 + n.length := by simp; omega
  have h0 : ¬ (pre ++ c :: n).length = 0 := by omega
  simp only [h0, if_false]
  have : min ((pre ++ c :: n).length - 1) pos + 1 = pre.length + 1 + n.length := by omega
  rw [this, lastSepBelow_append pre n c hc hn n.length (Nat.le_refl _)]

theorem findFrom_pos (c : Char) (s : Str) (i : Nat) (hi : 0 < i) : findFrom c s i ≠ 0 := by
  induction s generalizing i with
  | nil => simp [findFrom, npos]
  | cons x r ih =>
    unfold findFrom
    by_cases hx : (x == c) = true
    · simp only [hx, if_true]; omega
    · simp only [hx, Bool.false_eq_true, if_false]; exact ih (i + 1) (by omega)

theorem isAbsolutePath_iff (s : Str) : isAbsolutePath s = true ↔ s.head? = some '/' := by
  cases s with
  | nil => simp [isAbsolutePath, findFrom, npos]
  | cons x r =>
    unfold isAbsolutePath findFrom
    by_cases hx : (x == Separator) = true
    · have : x = '/' := by simpa [Separator] using hx
      simp [this, Separator]
    · have hne : ¬ x = '/' := by simpa [Separator] using hx
      simp only [hx, Bool.false_eq_true, if_false, List.head?_cons, Option.some.injEq]
      have := findFrom_pos Separator r (0 + 1) (by omega)
      simp [this, hne]

theorem sepFree_not_absolute {n : Str} (hn : sepFree n) : isAbsolutePath n = false := by
  cases h : isAbsolutePath n with
  | false => rfl
  | true =>
    have := (isAbsolutePath_iff n).mp h
    cases n with
    | nil => simp at this
    | cons x r =>
      simp at this
      have hx := hn x (by simp)
      subst this
      simp [isSep] at hx

/-- the directory part that `join` keeps in front of its own separator -/
def stripOneSlash (d : Str) : Str := if d.getLast? = some '/' then d.dropLast else d

/-- `join d n` is `stripOneSlash d ++ "/" ++ n` for a non-empty `d` and a separator-free `n` -/
theorem join_shape (d n : Str) (hd : d ≠ []) (hn : sepFree n) :
    join d n = stripOneSlash d ++ '/' :: n := by
  unfold join stripOneSlash
  simp only [hd, dite_false, sepFree_not_absolute hn, Bool.false_eq_true, if_false]
  rw [List.getLast?_eq_some_getLast hd]
  by_cases hl : d.getLast hd = '/'
  · have hd' : d = d.dropLast ++ ['/'] := by
      rw [← hl]; exact (List.dropLast_concat_getLast hd).symm
    simp only [hl, Separator, SystemSeparator, bne_self_eq_false, Bool.false_and, Bool.false_eq_true, if_false, if_true]
    conv => lhs; rw [hd']
    simp
  · have : (d.getLast hd != '/') = true := by simpa using hl
    simp only [Separator, SystemSeparator, this, Bool.and_self, if_true, Option.some.injEq, hl, if_false]
    simp


theorem take_append_len (pre r : Str) : (pre ++ r).take pre.length = pre := by simp
theorem drop_append_len (pre r : Str) : (pre ++ r).drop pre.length = r := by simp

/-- name of `pre ++ "/" ++ n` -/
theorem getPathName_shape (pre n : Str) (c : Char) (hc : isSep c = true) (hn : sepFree n) (hne : n ≠ [])
    (hlen : (pre ++ c :: n).length < npos) : getPathName (pre ++ c :: n) = .ok n := by
  have hl : (pre ++ c :: n).length = pre.length + 1 + n.length := by simp; omega
  have hnl : 0 < n.length := List.length_pos_iff.mpr hne
  unfold getPathName
  have hf : findLastOf (pre ++ c :: n) npos = pre.length :=
    findLastOf_append pre n c hc hn npos (by simp only [npos] at *; omega)
  simp only [hf]
  have hne1 : (pre.length == usub (pre ++ c :: n).length 1) = false := by
    simp only [beq_eq_false_iff_ne, ne_eq, usub, W, npos, hl] at *; omega
  simp only [hne1, Bool.false_eq_true, if_false]
  have hu : uadd pre.length 1 = pre.length + 1 := by simp only [uadd, W, npos, hl] at *; omega
  unfold erase
  simp only [hu, Nat.not_lt_zero, if_false, List.take_zero, List.nil_append, Nat.zero_add, Nat.sub_zero, gt_iff_lt]
  have hm : min (pre.length + 1) (pre ++ c :: n).length = (pre ++ [c]).length := by simp <;> omega
  rw [hm]
  have : pre ++ c :: n = (pre ++ [c]) ++ n := by simp
  rw [this, drop_append_len]

/-- parent of `pre ++ "/" ++ n` -/
theorem getParentDirectory_shape (pre n : Str) (c : Char) (hc : isSep c = true) (hn : sepFree n) (hne : n ≠ [])
    (hlen : (pre ++ c :: n).length < npos) : getParentDirectory (pre ++ c :: n) = .ok pre := by
  have hl : (pre ++ c :: n).length = pre.length + 1 + n.length := by simp; omega
  have hnl : 0 < n.length := List.length_pos_iff.mpr hne
  unfold getParentDirectory
  have hf : findLastOf (pre ++ c :: n) npos = pre.length :=
    findLastOf_append pre n c hc hn npos (by simp only [npos] at *; omega)
  simp only [hf]
  have hne1 : (pre.length == usub (pre ++ c :: n).length 1) = false := by
    simp only [beq_eq_false_iff_ne, ne_eq, usub, W, npos, hl] at *; omega
  simp only [hne1, Bool.and_false, Bool.false_eq_true, if_false]
  unfold parentTail
  have hnp : (pre.length == npos) = false := by
    simp only [beq_eq_false_iff_ne, ne_eq, npos, hl] at *; omega
  simp only [hnp, Bool.false_eq_true, if_false]
  unfold erase
  have hgt : ¬ pre.length > (pre ++ c :: n).length := by omega
  simp only [hgt, if_false]
  have hm : pre.length + min (pre ++ c :: n).length ((pre ++ c :: n).length - pre.length) = (pre ++ c :: n).length := by omega
  rw [hm, take_append_len, List.drop_length, List.append_nil]

end Tulz.PathStr
