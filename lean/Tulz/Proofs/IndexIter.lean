import Tulz.Model.IndexIter
/-
  Lemmas about the `RandomAccessIndexIterator` model: the modular `size_t` / `ptrdiff_t` arithmetic of the C++
  behaves like integer arithmetic on positions as long as the true position fits a `ptrdiff_t`, the operators are
  mutually consistent, and the two traversal loops visit exactly the container's elements.
-/
namespace Tulz.Iter

theorem toU_lt (d : Int) : toU d < 18446744073709551616 := by
  unfold toU; omega

theorem toS_toU (d : Int) (h1 : -9223372036854775808 ≤ d) (h2 : d < 9223372036854775808) : toS (toU d) = d := by
  unfold toS toU
  split <;> omega

theorem toU_toS (n : Nat) (h : n < 18446744073709551616) : toU (toS n) = n := by
  unfold toS toU
  split <;> omega

theorem toS_range (n : Nat) : -9223372036854775808 ≤ toS n ∧ toS n < 9223372036854775808 := by
  unfold toS
  split <;> omega

/-! ### every operator keeps the index a `size_t` -/

theorem WF_mk' (i : Nat) : WF (mk' i) := by unfold WF mk'; simp only; omega
theorem WF_inc (a : It) : WF (inc a) := by unfold WF inc; simp only; omega
theorem WF_dec (a : It) : WF (dec a) := by unfold WF dec; simp only; omega
theorem WF_addD (a : It) (d : Int) : WF (addD a d) := by unfold WF addD; simp only; omega
theorem WF_subD (a : It) (d : Int) : WF (subD a d) := by unfold WF subD; simp only; omega

theorem It.ext' {a b : It} (h : a.idx = b.idx) : a = b := by
  cases a; cases b; simp only at h; subst h; rfl

/-! ### inverse laws -/

theorem dec_inc (a : It) (h : WF a) : dec (inc a) = a := by
  apply It.ext'; unfold WF at h; unfold dec inc; simp only; omega

theorem inc_dec (a : It) (h : WF a) : inc (dec a) = a := by
  apply It.ext'; unfold WF at h; unfold dec inc; simp only; omega

theorem subD_addD (a : It) (d : Int) (h : WF a) : subD (addD a d) d = a := by
  apply It.ext'; unfold WF at h; have := toU_lt d
  unfold subD addD; simp only; omega

theorem addD_subD (a : It) (d : Int) (h : WF a) : addD (subD a d) d = a := by
  apply It.ext'; unfold WF at h; have := toU_lt d
  unfold subD addD; simp only; omega

theorem inc_eq_addD (a : It) : inc a = addD a 1 := by
  apply It.ext'; unfold inc addD toU; simp only; omega

theorem dec_eq_subD (a : It) : dec a = subD a 1 := by
  apply It.ext'; unfold dec subD toU; simp only; omega

theorem addD_addD (a : It) (d e : Int) : addD (addD a d) e = addD a (d + e) := by
  apply It.ext'; unfold addD toU; simp only; omega

theorem subD_eq_addD_neg (a : It) (d : Int) : subD a d = addD a (-d) := by
  apply It.ext'; unfold addD subD toU; simp only; omega

theorem addD_zero (a : It) (h : WF a) : addD a 0 = a := by
  apply It.ext'; unfold WF at h; unfold addD toU; simp only; omega

/-! ### difference -/

theorem diff_addD (a : It) (d : Int) (h : WF a) (h1 : -9223372036854775808 ≤ d) (h2 : d < 9223372036854775808) :
    diff (addD a d) a = d := by
  unfold WF at h
  unfold diff addD
  simp only
  have e : (((a.idx + toU d) % 18446744073709551616 + (18446744073709551616 - a.idx % 18446744073709551616)) %
      18446744073709551616) = toU d := by
    have := toU_lt d; omega
  rw [e]; exact toS_toU d h1 h2

theorem addD_diff (a b : It) (ha : WF a) (hb : WF b) : addD b (diff a b) = a := by
  apply It.ext'
  unfold WF at ha hb
  unfold addD diff
  simp only
  rw [toU_toS _ (by omega)]
  omega

theorem diff_self (a : It) (h : WF a) : diff a a = 0 := by
  unfold WF at h; unfold diff toS
  have : (a.idx + (18446744073709551616 - a.idx % 18446744073709551616)) % 18446744073709551616 = 0 := by omega
  rw [this]; simp

theorem diff_antisymm (a b : It) (ha : WF a) (hb : WF b) (hne : diff a b ≠ -9223372036854775808) :
    diff b a = - diff a b := by
  unfold WF at ha hb
  unfold diff toS at *
  split at hne <;> split <;> omega

/-- `end() - begin()` is the size, for every container whose size fits a `ptrdiff_t` -/
theorem diff_mk' (n k : Nat) (hk : k ≤ n) (h : n < 9223372036854775808) : diff (mk' n) (mk' k) = (n - k : Nat) := by
  unfold diff mk' toS; simp only
  split <;> omega

/-! ### the comparison operators are mutually consistent and order iterators by index -/

theorem bne_eq_not_beq (a b : It) : bne a b = !(beq a b) := rfl
theorem beq_iff (a b : It) : beq a b = true ↔ a = b := by
  unfold beq
  constructor
  · intro h; exact It.ext' (by simpa using h)
  · intro h; subst h; simp
theorem bgt_eq_blt_swap (a b : It) : bgt a b = blt b a := by unfold bgt blt; rfl
theorem bge_eq_not_blt (a b : It) : bge a b = !(blt a b) := by
  unfold bge blt; by_cases h : a.idx < b.idx <;> simp [h] <;> omega
theorem ble_eq_blt_or_beq (a b : It) : ble a b = (blt a b || beq a b) := by
  unfold ble blt beq
  by_cases h : a.idx < b.idx
  · simp [h]; omega
  · by_cases h2 : a.idx = b.idx
    · simp [h2]
    · have : ¬ a.idx ≤ b.idx := by omega
      simp [h, h2, this]
theorem trichotomy (a b : It) :
    (blt a b = true ∧ beq a b = false ∧ bgt a b = false) ∨
    (blt a b = false ∧ beq a b = true ∧ bgt a b = false) ∨
    (blt a b = false ∧ beq a b = false ∧ bgt a b = true) := by
  unfold blt beq bgt
  rcases Nat.lt_trichotomy a.idx b.idx with h | h | h
  · left; simp; omega
  · right; left; simp; omega
  · right; right; simp; omega

/-- for iterators inside (or one past) a container that fits a `ptrdiff_t`, `<` is the order of the positions -/
theorem blt_iff_pos (a b : It) (ha : a.idx < 9223372036854775808) (hb : b.idx < 9223372036854775808) :
    blt a b = true ↔ pos a < pos b := by
  unfold blt pos toS
  simp only [decide_eq_true_eq]
  split <;> split <;> omega

/-! ### positions: no observable wrap-around while the true position fits a `ptrdiff_t` -/

theorem pos_mk' (i : Nat) (h : i < 9223372036854775808) : pos (mk' i) = i := by
  unfold pos mk' toS; simp only; split <;> omega

theorem pos_range (a : It) : -9223372036854775808 ≤ pos a ∧ pos a < 9223372036854775808 := toS_range _

theorem pos_addD (a : It) (d : Int) (h : WF a) (h1 : -9223372036854775808 ≤ pos a + d)
    (h2 : pos a + d < 9223372036854775808) : pos (addD a d) = pos a + d := by
  unfold WF at h
  unfold pos addD toS toU at *
  simp only at *
  split at h1 <;> split <;> omega

theorem pos_subD (a : It) (d : Int) (h : WF a) (h1 : -9223372036854775808 ≤ pos a - d)
    (h2 : pos a - d < 9223372036854775808) : pos (subD a d) = pos a - d := by
  rw [subD_eq_addD_neg]
  have := pos_addD a (-d) h (by omega) (by omega)
  omega

theorem pos_inc (a : It) (h : WF a) (h2 : pos a + 1 < 9223372036854775808) : pos (inc a) = pos a + 1 := by
  rw [inc_eq_addD]; exact pos_addD a 1 h (by have := pos_range a; omega) h2

theorem pos_dec (a : It) (h : WF a) (h1 : -9223372036854775808 ≤ pos a - 1) : pos (dec a) = pos a - 1 := by
  rw [dec_eq_subD]; exact pos_subD a 1 h h1 (by have := pos_range a; omega)

theorem diff_eq_pos_sub (a b : It) (ha : WF a) (hb : WF b) (h1 : -9223372036854775808 ≤ pos a - pos b)
    (h2 : pos a - pos b < 9223372036854775808) : diff a b = pos a - pos b := by
  unfold WF at ha hb
  unfold diff pos toS at *
  split at h1 <;> split at h1 <;> split <;> omega

/-- an iterator is determined by its position -/
theorem eq_of_pos_eq (a b : It) (ha : WF a) (hb : WF b) (h : pos a = pos b) : a = b := by
  apply It.ext'
  unfold WF at ha hb
  unfold pos toS at h
  split at h <;> split at h <;> omega

/-- the index of an iterator whose position is a valid element index is that index -/
theorem idx_of_pos (a : It) (h : WF a) (i : Nat) (hp : pos a = i) : a.idx = i := by
  unfold WF at h
  unfold pos toS at hp
  split at hp <;> omega

/-! ### one command: the iterator moves like an integer position -/

theorem runCmd_WF {ε α : Type} (get : Nat → Except ε α) (a a' : It) (c : Cmd) (o : Obs α) (h : WF a)
    (hr : runCmd get a c = .ok (a', o)) : WF a' := by
  cases c <;> simp only [runCmd, pure, Except.pure, Except.ok.injEq, Prod.mk.injEq, postInc, postDec, plus, minus] at hr
  case preInc => rw [← hr.1]; exact WF_inc a
  case preDec => rw [← hr.1]; exact WF_dec a
  case postInc => rw [← hr.1]; exact WF_inc a
  case postDec => rw [← hr.1]; exact WF_dec a
  case addEq d => rw [← hr.1]; exact WF_addD a d
  case subEq d => rw [← hr.1]; exact WF_subD a d
  case plus d => rw [← hr.1]; exact WF_addD a d
  case minus d => rw [← hr.1]; exact WF_subD a d
  case deref =>
    simp only [bind, Except.bind] at hr
    split at hr
    · cases hr
    · simp only [Except.ok.injEq, Prod.mk.injEq] at hr; rw [← hr.1]; exact h
  case dist => rw [← hr.1]; exact h
  case cmp j => rw [← hr.1]; exact h

theorem runCmd_pos {ε α : Type} (get : Nat → Except ε α) (a a' : It) (c : Cmd) (o : Obs α) (h : WF a)
    (hr : runCmd get a c = .ok (a', o))
    (h1 : -9223372036854775808 ≤ specMove (pos a) c) (h2 : specMove (pos a) c < 9223372036854775808) :
    pos a' = specMove (pos a) c := by
  have hpr := pos_range a
  cases c <;> simp only [runCmd, pure, Except.pure, Except.ok.injEq, Prod.mk.injEq, postInc, postDec, plus, minus] at hr <;>
    simp only [specMove] at h1 h2 ⊢
  case preInc => rw [← hr.1]; exact pos_inc a h h2
  case preDec => rw [← hr.1]; exact pos_dec a h h1
  case postInc => rw [← hr.1]; exact pos_inc a h h2
  case postDec => rw [← hr.1]; exact pos_dec a h h1
  case addEq d => rw [← hr.1]; exact pos_addD a d h h1 h2
  case subEq d => rw [← hr.1]; exact pos_subD a d h h1 h2
  case plus d => rw [← hr.1]; exact pos_addD a d h h1 h2
  case minus d => rw [← hr.1]; exact pos_subD a d h h1 h2
  case deref =>
    simp only [bind, Except.bind] at hr
    split at hr
    · cases hr
    · simp only [Except.ok.injEq, Prod.mk.injEq] at hr; rw [← hr.1]
  case dist => rw [← hr.1]
  case cmp j => rw [← hr.1]

/-! ### the traversal loops -/

theorem mk'_idx (i : Nat) (h : i < 18446744073709551616) : (mk' i).idx = i := by
  unfold mk'; simp only; omega

theorem inc_mk' (i : Nat) (h : i + 1 < 18446744073709551616) : inc (mk' i) = mk' (i + 1) := by
  apply It.ext'; unfold inc mk'; simp only; omega

theorem dec_mk' (i : Nat) (h : i + 1 < 18446744073709551616) : dec (mk' (i + 1)) = mk' i := by
  apply It.ext'; unfold dec mk'; simp only; omega

theorem beq_mk' (i j : Nat) (hi : i < 18446744073709551616) (hj : j < 18446744073709551616) :
    beq (mk' i) (mk' j) = decide (i = j) := by
  unfold beq; rw [mk'_idx i hi, mk'_idx j hj]
  by_cases h : i = j <;> simp [h]

/-- `for (it = begin()+k; it != begin()+k+n; ++it) out.push_back(*it)` terminates after exactly `n` steps and yields
    the elements `k … k+n-1` in order, whenever those `operator[]` calls succeed. -/
theorem walkFwd_spec {ε α : Type} (get : Nat → Except ε α) (xs : List α) (k : Nat)
    (hget : ∀ i (hi : i < xs.length), get (k + i) = .ok xs[i])
    (hW : k + xs.length < 18446744073709551616) (fuel : Nat) (hf : xs.length ≤ fuel) :
    walkFwd get (mk' (k + xs.length)) fuel (mk' k) = .ok (some xs) := by
  induction xs generalizing k fuel with
  | nil =>
    cases fuel <;> simp [walkFwd, beq_iff, pure, Except.pure]
  | cons x xs ih =>
    cases fuel with
    | zero => simp at hf
    | succ fuel =>
      simp only [List.length_cons] at hW hf
      have hne : beq (mk' k) (mk' (k + (x :: xs).length)) = false := by
        rw [beq_mk' _ _ (by omega) (by simp only [List.length_cons]; omega)]
        simp
      have h0 : get k = .ok x := by
        have := hget 0 (Nat.zero_lt_succ _)
        simp only [Nat.add_zero, List.getElem_cons_zero] at this
        exact this
      have hstep := ih (k + 1)
        (by intro i hi
            have := hget (i + 1) (by simp only [List.length_cons]; omega)
            simpa [Nat.add_assoc, Nat.add_comm 1 i] using this)
        (by omega) fuel (by omega)
      have e : k + (x :: xs).length = k + 1 + xs.length := by simp only [List.length_cons]; omega
      rw [walkFwd, hne]
      simp only [Bool.false_eq_true, if_false, deref, mk'_idx k (by omega), h0, bind, Except.bind]
      rw [inc_mk' k (by omega), e, hstep]
      rfl

theorem walkBwd_aux {ε α : Type} (get : Nat → Except ε α) (k n : Nat) :
    ∀ (xs : List α), xs.length = n → (∀ i (hi : i < xs.length), get (k + i) = .ok xs[i]) →
      k + n < 18446744073709551616 → ∀ fuel, n ≤ fuel →
      walkBwd get (mk' k) fuel (mk' (k + n)) = .ok (some xs.reverse) := by
  induction n with
  | zero =>
    intro xs hn _ _ fuel _
    have : xs = [] := List.eq_nil_of_length_eq_zero hn
    subst this
    cases fuel <;> simp [walkBwd, beq_iff, pure, Except.pure]
  | succ n ih =>
    intro xs hn hget hW fuel hf
    obtain ⟨ys, x, rfl⟩ : ∃ ys x, xs = ys ++ [x] := by
      rcases List.eq_nil_or_concat xs with h | ⟨l', b, h⟩
      · subst h; simp at hn
      · exact ⟨l', b, by rw [h, List.concat_eq_append]⟩
    have hn' : ys.length = n := by simpa using hn
    cases fuel with
    | zero => omega
    | succ fuel =>
      have hlen : (ys ++ [x]).length = n + 1 := hn
      have hne : beq (mk' (k + (n + 1))) (mk' k) = false := by
        rw [beq_mk' _ _ (by omega) (by omega)]
        simp
      have hlast : get (k + n) = .ok x := by
        have := hget n (by rw [hlen]; omega)
        rw [this]; simp [← hn']
      have hstep := ih ys hn'
        (by intro i hi
            have := hget i (by rw [hlen]; omega)
            rw [this]; simp [List.getElem_append_left hi])
        (by omega) fuel (by omega)
      rw [walkBwd, hne]
      simp only [Bool.false_eq_true, if_false]
      rw [show k + (n + 1) = (k + n) + 1 from by omega, dec_mk' (k + n) (by omega)]
      simp only [deref, mk'_idx (k + n) (by omega), hlast, bind, Except.bind]
      rw [hstep]
      simp [pure, Except.pure]

/-- the reverse loop `for (it = begin()+k+n; it != begin()+k;) { --it; out.push_back(*it); }` yields the same elements in
    reverse order. -/
theorem walkBwd_spec {ε α : Type} (get : Nat → Except ε α) (xs : List α) (k : Nat)
    (hget : ∀ i (hi : i < xs.length), get (k + i) = .ok xs[i])
    (hW : k + xs.length < 18446744073709551616) (fuel : Nat) (hf : xs.length ≤ fuel) :
    walkBwd get (mk' k) fuel (mk' (k + xs.length)) = .ok (some xs.reverse) :=
  walkBwd_aux get k xs.length xs rfl hget hW fuel hf

end Tulz.Iter
