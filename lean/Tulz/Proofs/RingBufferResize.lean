import Tulz.Proofs.RingBufferOps
/-
  resize (all three layout branches), destructor loop, copy construction / assignment, comparison.
-/
namespace Tulz
namespace RB
variable {α : Type}

/-- a physical slot that no logical element occupies holds no value -/
theorem Rep.dead_phys {b : RB α} {xs} (h : Rep b xs) {j : Nat} (hj : j < b.cap)
    (hno : ∀ i, i < b.size → b.phys i ≠ j) (v : α) : b.data[j]? ≠ some (.live v) := by
  obtain ⟨i, hi, rfl⟩ := h.phys_surj hj
  by_cases hs : i < b.size
  · exact absurd rfl (hno i hs)
  · exact h.dead i (by omega) hi v

/-- non-wrapped layout: everything outside `[pos, pos+size)` is dead -/
theorem Rep.dead_outside {b : RB α} {xs} (h : Rep b xs) (hnw : b.pos + b.size ≤ b.cap) {k : Nat} (hk : k < b.cap)
    (hout : k < b.pos ∨ b.pos + b.size ≤ k) (v : α) : b.data[k]? ≠ some (.live v) := by
  apply h.dead_phys hk
  intro i hi
  have hc : 0 < b.cap := by omega
  rw [h.phys_eq i (by have := h.size_le; omega) hc]
  split <;> omega

theorem silentCopy_get {b : RB α} {xs} (h : Rep b xs) (hc : 0 < b.cap) (n : Nat) (hn : n ≤ b.cap) (i : Nat) (hi : i < n) :
    (b.silentCopy n)[i]? = b.data[b.phys i]? := by
  have hp := h.pos_lt hc
  have hl := h.data_len
  unfold RB.silentCopy
  simp only []
  rw [h.phys_eq i (by omega) hc]
  have hlen1 : ((b.data.drop b.pos).take (min n (b.cap - b.pos))).length = min n (b.cap - b.pos) := by
    simp [hl]
  by_cases hlt : i < min n (b.cap - b.pos)
  · rw [List.getElem?_append_left (by rw [hlen1]; exact hlt)]
    rw [List.getElem?_take_of_lt hlt, List.getElem?_drop]
    have : b.pos + i < b.cap := by omega
    simp only [this, if_true]
  · rw [List.getElem?_append_right (by rw [hlen1]; omega), hlen1]
    have hn1 : min n (b.cap - b.pos) = b.cap - b.pos := by omega
    rw [hn1]
    have hz : (b.pos + (b.cap - b.pos)) % b.cap = 0 := by
      have : b.pos + (b.cap - b.pos) = b.cap := by omega
      rw [this]; exact Nat.mod_self _
    rw [hz, List.drop_zero, List.getElem?_take_of_lt (by omega)]
    have : ¬ b.pos + i < b.cap := by omega
    simp only [this, if_false]
    congr 1; omega

theorem silentCopy_length {b : RB α} {xs} (h : Rep b xs) (hc : 0 < b.cap) (n : Nat) (hn : n ≤ b.cap) :
    (b.silentCopy n).length = n := by
  have hp := h.pos_lt hc
  have hl := h.data_len
  unfold RB.silentCopy
  simp only [List.length_append, List.length_take, List.length_drop, hl]
  by_cases hcn : n ≤ b.cap - b.pos
  · have : min n (b.cap - b.pos) = n := by omega
    rw [this]; simp; omega
  · have hn1 : min n (b.cap - b.pos) = b.cap - b.pos := by omega
    rw [hn1]
    have hz : (b.pos + (b.cap - b.pos)) % b.cap = 0 := by
      have : b.pos + (b.cap - b.pos) = b.cap := by omega
      rw [this]; exact Nat.mod_self _
    rw [hz]; omega

/-- `silentCopy(dst, n)` relocates exactly the first `n` logical elements, in order -/
theorem silentCopy_eq {b : RB α} {xs} (h : Rep b xs) (hc : 0 < b.cap) (n : Nat) (hn : n ≤ b.size) :
    b.silentCopy n = (xs.take n).map .live := by
  have hsz := h.size_le
  apply List.ext_getElem?
  intro i
  by_cases hi : i < n
  · rw [silentCopy_get h hc n (by omega) i hi, h.live i (by rw [h.len_eq]; omega)]
    have : i < (xs.take n).length := by simp [h.len_eq]; omega
    simp [List.getElem?_map, List.getElem?_take, hi, List.getElem?_eq_getElem (show i < xs.length by rw [h.len_eq]; omega)]
  · rw [List.getElem?_eq_none (by rw [silentCopy_length h hc n (by omega)]; omega)]
    rw [List.getElem?_eq_none (by simp [h.len_eq]; omega)]

/-- `modCap(pos + size - 1)` for a non-empty, non-wrapped layout -/
theorem not_wrapped {b : RB α} {xs} (h : Rep b xs) (hc : 0 < b.cap) (hs : 0 < b.size) (hle : b.pos ≤ b.lastIndex) :
    b.pos + b.size - 1 < b.cap ∧ b.lastIndex = b.pos + b.size - 1 := by
  have hp := h.pos_lt hc
  have hsz := h.size_le
  unfold RB.lastIndex at *
  by_cases hw : b.pos + b.size - 1 < b.cap
  · refine ⟨hw, ?_⟩
    have : b.pos + b.size + b.cap - 1 = (b.pos + b.size - 1) + b.cap := by omega
    rw [this, Nat.add_mod_right]; exact Nat.mod_eq_of_lt hw
  · exfalso
    have e : b.pos + b.size + b.cap - 1 = (b.pos + b.size - 1 - b.cap) + b.cap + b.cap := by omega
    rw [e, Nat.add_mod_right, Nat.add_mod_right, Nat.mod_eq_of_lt (by omega)] at hle
    omega

/-- the destructor loop over logical elements `frm .. frm+n-1` succeeds, leaves those slots raw and the rest untouched -/
theorem destroyRange_ok {b : RB α} {xs} (h : Rep b xs) (n : Nat) : ∀ (frm : Nat) (d : List (Slot α)),
    frm + n ≤ b.size → d.length = b.cap →
    (∀ k, frm ≤ k → k < frm + n → ∃ v, d[b.phys k]? = some (.live v)) →
    ∃ d', destroyRange b d frm n = .ok d' ∧ d'.length = b.cap ∧
      (∀ k, frm ≤ k → k < frm + n → d'[b.phys k]? = some .raw) ∧
      (∀ j, (∀ k, frm ≤ k → k < frm + n → b.phys k ≠ j) → d'[j]? = d[j]?) := by
  induction n with
  | zero =>
    intro frm d _ hd _
    exact ⟨d, rfl, hd, fun k h1 h2 => by omega, fun _ _ => rfl⟩
  | succ n ih =>
    intro frm d hle hd hobj
    have hsz := h.size_le
    have hc : 0 < b.cap := by omega
    obtain ⟨v, hv⟩ := hobj frm (Nat.le_refl _) (by omega)
    have hlt : b.phys frm < d.length := by rw [hd]; exact h.phys_lt frm hc
    obtain ⟨d', hd', hlen', hraw', hkeep'⟩ := ih (frm + 1) (d.set (b.phys frm) .raw) (by omega) (by simp [hd]) (by
      intro k h1 h2
      obtain ⟨w, hw⟩ := hobj k (by omega) (by omega)
      refine ⟨w, ?_⟩
      rw [List.getElem?_set_ne]
      · exact hw
      · intro e
        have := h.phys_inj (i := frm) (j := k) (by omega) (by omega) e
        omega)
    refine ⟨d', ?_, hlen', ?_, ?_⟩
    · simp only [destroyRange, destroy_live hv]
      simpa [bind, Except.bind] using hd'
    · intro k h1 h2
      by_cases he : k = frm
      · subst he
        rw [hkeep' (b.phys k) (by
          intro k' h1' h2' e
          have := h.phys_inj (i := k') (j := k) (by omega) (by omega) e
          omega)]
        exact List.getElem?_set_self hlt
      · exact hraw' k (by omega) (by omega)
    · intro j hj
      rw [hkeep' j (fun k h1 h2 => hj k (by omega) (by omega))]
      rw [List.getElem?_set_ne]
      exact hj frm (Nat.le_refl _) (by omega)

theorem take_of_len_le (xs : List α) (n : Nat) (h : xs.length ≤ n) : xs.take n = xs :=
  List.take_of_length_le h

/-- **resize** keeps the first `min size newCapacity` elements, in order, in every layout -/
theorem resize_ok {b : RB α} {xs} (h : Rep b xs) (hc : 0 < b.cap) (nc : Nat) (hnc : 0 < nc) :
    ∃ b' k, b.resize nc = .ok (b', k) ∧ Rep b' (xs.take nc) ∧ b'.cap = nc := by
  have hp := h.pos_lt hc
  have hsz := h.size_le
  unfold RB.resize
  split
  · rename_i he
    subst he
    exact ⟨b, 0, rfl, by rw [take_of_len_le xs _ (by rw [h.len_eq]; exact hsz)]; exact h, rfl⟩
  · rename_i hne
    split
    · rename_i hcase
      -- realloc in place
      refine ⟨_, 1, rfl, ?_, rfl⟩
      have hposnc : b.pos < nc := by omega
      have hnw : b.pos + b.size ≤ b.cap ∧ b.pos + b.size ≤ nc := by
        by_cases hs : b.size = 0
        · omega
        · obtain ⟨h1, h2⟩ := not_wrapped h hc (by omega) hcase.1
          have := hcase.2; omega
      have hfit : xs.length ≤ nc := by rw [h.len_eq]; omega
      rw [take_of_len_le xs nc hfit]
      have hdlen : (b.data.take nc ++ List.replicate (nc - b.cap) (Slot.raw : Slot α)).length = nc := by
        simp [h.data_len]; omega
      have hget : ∀ k, k < nc → k < b.cap →
          (b.data.take nc ++ List.replicate (nc - b.cap) (Slot.raw : Slot α))[k]? = b.data[k]? := by
        intro k h1 h2
        rw [List.getElem?_append_left (by simp [h.data_len]; omega), List.getElem?_take_of_lt h1]
      have hraw : ∀ k, b.cap ≤ k → ∀ v,
          (b.data.take nc ++ List.replicate (nc - b.cap) (Slot.raw : Slot α))[k]? ≠ some (.live v) := by
        intro k h1 v e
        rw [List.getElem?_append_right (by simp [h.data_len]; omega)] at e
        have := List.mem_of_getElem? e
        simp [List.mem_replicate] at this
      refine ⟨h.len_eq, by show b.size ≤ nc; omega, hdlen, fun _ => hposnc, fun e => by have e' : nc = 0 := e; omega, ?_, ?_⟩
      · intro i hi
        have hi' : i < b.size := by rw [← h.len_eq]; exact hi
        show (b.data.take nc ++ List.replicate (nc - b.cap) Slot.raw)[(b.pos + i) % nc]? = _
        rw [Nat.mod_eq_of_lt (by omega), hget _ (by omega) (by omega)]
        have := h.live i hi
        rw [h.phys_eq i (by omega) hc] at this
        rw [if_pos (by omega)] at this
        exact this
      · intro i hs hi v
        have hs' : b.size ≤ i := hs
        have hi' : i < nc := hi
        show (b.data.take nc ++ List.replicate (nc - b.cap) Slot.raw)[(b.pos + i) % nc]? ≠ _
        rw [phys_cases' hposnc i (by omega)]
        split
        · rename_i hlt
          by_cases hk : b.pos + i < b.cap
          · rw [hget _ hlt hk]; exact h.dead_outside hnw.1 hk (Or.inr (by omega)) v
          · exact hraw _ (by omega) v
        · rename_i hge
          have hk : b.pos + i - nc < b.cap := by omega
          rw [hget _ (by omega) hk]; exact h.dead_outside hnw.1 hk (Or.inl (by omega)) v
    · rename_i hcase
      split
      · rename_i hlt
        -- shrink with linearisation
        have hcmin : min b.size nc ≤ b.size := Nat.min_le_left _ _
        obtain ⟨d', hd', -, -, -⟩ := destroyRange_ok h (b.size - min b.size nc) (min b.size nc) b.data (by omega) h.data_len (by
          intro k h1 h2
          exact ⟨_, h.live k (by rw [h.len_eq]; omega)⟩)
        refine ⟨⟨0, min b.size nc, nc, b.silentCopy (min b.size nc) ++ List.replicate (nc - min b.size nc) .raw⟩, 2, ?_, ?_, rfl⟩
        · simp only [hd']; rfl
        · rw [silentCopy_eq h hc _ hcmin]
          have hl : (xs.take nc).length = min b.size nc := by simp [h.len_eq]; omega
          have hte : xs.take (min b.size nc) = xs.take nc := by
            rw [← h.len_eq]
            by_cases hx : xs.length ≤ nc
            · rw [Nat.min_eq_left hx, List.take_length, take_of_len_le xs nc hx]
            · rw [Nat.min_eq_right (by omega)]
          rw [hte]
          have := rep_linear (xs.take nc) nc (by rw [hl]; exact Nat.min_le_right _ _)
            (List.replicate (nc - min b.size nc) .raw) (by simp [hl]) (by
              intro s hs v; simp [List.mem_replicate] at hs; simp [hs.2])
          rw [hl] at this
          exact this
      · rename_i hge
        -- grow with linearisation
        have hfit : b.size ≤ nc := by omega
        refine ⟨⟨0, b.size, nc, b.silentCopy b.size ++ List.replicate (nc - b.size) .raw⟩, 3, rfl, ?_, rfl⟩
        rw [silentCopy_eq h hc _ (Nat.le_refl _)]
        have hte : xs.take b.size = xs := by rw [← h.len_eq, List.take_length]
        have hte2 : xs.take nc = xs := take_of_len_le xs nc (by rw [h.len_eq]; exact hfit)
        rw [hte, hte2]
        have := rep_linear xs nc (by rw [h.len_eq]; exact hfit) (List.replicate (nc - b.size) .raw)
          (by simp [h.len_eq]) (by intro s hs v; simp [List.mem_replicate] at hs; simp [hs.2])
        rw [h.len_eq] at this
        exact this

/-! ### destructor, copy, comparison -/

/-- `~RingBuffer()` succeeds and leaves no value behind in the block it frees -/
theorem destroyAll_ok {b : RB α} {xs} (h : Rep b xs) :
    ∃ d', b.destroyAll = .ok d' ∧ ∀ (j : Nat) (v : α), d'[j]? ≠ some (Slot.live v) := by
  obtain ⟨d', hd', hlen, hraw, hkeep⟩ := destroyRange_ok h b.size 0 b.data (by omega) h.data_len (by
    intro k _ h2
    exact ⟨_, h.live k (by rw [h.len_eq]; omega)⟩)
  refine ⟨d', hd', ?_⟩
  intro j v e
  have hj : j < b.cap := by
    rw [← hlen]
    exact (List.getElem?_eq_some_iff.mp e).1
  obtain ⟨i, hi, rfl⟩ := h.phys_surj hj
  by_cases hs : i < b.size
  · rw [hraw i (Nat.zero_le _) (by omega)] at e; cases e
  · rw [hkeep (b.phys i) (by
      intro k _ h2 e'
      have := h.phys_inj (i := k) (j := i) (by have := h.size_le; omega) hi e'
      omega)] at e
    exact h.dead i (by omega) hi v e

theorem copyFrom_ok {o : RB α} {xs} (h : Rep o xs) :
    ∃ c, RB.copyFrom o = .ok c ∧ Rep c xs ∧ c.cap = o.cap := by
  have hle : xs.length ≤ o.cap := by rw [h.len_eq]; exact h.size_le
  have hca := constructAll_raw ([] : List (Slot α)) xs o.cap hle
  simp only [List.nil_append, List.length_nil] at hca
  refine ⟨⟨0, o.size, o.cap, xs.map .live ++ List.replicate (o.cap - xs.length) .raw⟩, ?_, ?_, rfl⟩
  · simp only [RB.copyFrom, toList_ok h, Mem.alloc]
    simp [bind, Except.bind, hca, pure, Except.pure]
  · have := rep_linear xs o.cap hle (List.replicate (o.cap - xs.length) .raw) (by simp)
      (by intro s hs v; simp [List.mem_replicate] at hs; simp [hs.2])
    rw [h.len_eq] at this
    rw [h.len_eq]
    exact this

theorem copyAssign_ok {self o : RB α} {ys xs} (hs : Rep self ys) (h : Rep o xs) :
    ∃ c, RB.copyAssign self o = .ok c ∧ Rep c xs ∧ c.cap = o.cap := by
  obtain ⟨d', hd', -⟩ := destroyAll_ok hs
  obtain ⟨c, hc, hrep, hcap⟩ := copyFrom_ok h
  refine ⟨c, ?_, hrep, hcap⟩
  simp only [RB.copyAssign, hd']
  simpa [bind, Except.bind] using hc

theorem eq_ok [DecidableEq α] {a b : RB α} {xs ys} (ha : Rep a xs) (hb : Rep b ys) :
    RB.eq a b = .ok (decide (xs = ys)) := by
  simp only [RB.eq, toList_ok ha, toList_ok hb]
  rfl

end RB
end Tulz
