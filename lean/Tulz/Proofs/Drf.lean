import Tulz.Model.Drf
/-!
# Soundness of locking disciplines (generic part of C15)

`discipline_sound`: a well-formed execution that follows a discipline has no data race — for every trace, any
number of threads, locks and locations, any length.  The proof is the classical lockset argument, extended to
reader-writer locks: if `t1` holds a lock at access `i` and `t2` holds it at a later access `j` in a conflicting
mode, then `t2` acquired it after `i` (`acquire_excludes`), so `t1` released it in between (`holds_or_released`) and
`i →po release →sw acquire →po j`.
-/
namespace Tulz.Drf

variable {L M : Type} [DecidableEq M]

theorem exclOwner_succ_of_other (tr : Trace L M) (m : M) (k : Nat)
    (h : ∀ t, tr[k]? ≠ some ⟨t, .acq m .excl⟩ ∧ tr[k]? ≠ some ⟨t, .rel m .excl⟩) :
    exclOwner tr m (k+1) = exclOwner tr m k := by
  simp only [exclOwner]
  split
  · rename_i t m' heq
    by_cases hm : m' = m
    · subst hm; exact absurd heq (h t).1
    · simp [hm]
  · rename_i t m' heq
    by_cases hm : m' = m
    · subst hm; exact absurd heq (h t).2
    · simp [hm]
  · rfl

theorem sharedCount_succ_of_other (tr : Trace L M) (m : M) (t : Nat) (k : Nat)
    (h : tr[k]? ≠ some ⟨t, .acq m .shared⟩ ∧ tr[k]? ≠ some ⟨t, .rel m .shared⟩) :
    sharedCount tr m t (k+1) = sharedCount tr m t k := by
  simp only [sharedCount]
  split
  · rename_i t' m' heq
    by_cases hm : m' = m ∧ t' = t
    · obtain ⟨h1, h2⟩ := hm; subst h1; subst h2; exact absurd heq h.1
    · simp [hm]
  · rename_i t' m' heq
    by_cases hm : m' = m ∧ t' = t
    · obtain ⟨h1, h2⟩ := hm; subst h1; subst h2; exact absurd heq h.2
    · simp [hm]
  · rfl

/-- a holder acquired the lock at some earlier event and has held it ever since -/
theorem held_since (tr : Trace L M) (m : M) (t : Nat) (md : Mode) (j : Nat) (h : Holds tr m t md j) :
    ∃ a, a < j ∧ tr[a]? = some ⟨t, .acq m md⟩ ∧ ∀ k, a < k → k ≤ j → Holds tr m t md k := by
  induction j with
  | zero => cases md <;> simp [Holds, exclOwner, sharedCount] at h
  | succ j ih =>
    have step : Holds tr m t md j →
        ∃ a, a < j + 1 ∧ tr[a]? = some ⟨t, .acq m md⟩ ∧ ∀ k, a < k → k ≤ j + 1 → Holds tr m t md k := by
      intro h'
      obtain ⟨a, ha, hacq, hall⟩ := ih h'
      refine ⟨a, by omega, hacq, ?_⟩
      intro k hk1 hk2
      by_cases e : k = j + 1
      · subst e; exact h
      · exact hall k hk1 (by omega)
    have here : tr[j]? = some ⟨t, .acq m md⟩ →
        ∃ a, a < j + 1 ∧ tr[a]? = some ⟨t, .acq m md⟩ ∧ ∀ k, a < k → k ≤ j + 1 → Holds tr m t md k := by
      intro heq
      refine ⟨j, by omega, heq, fun k hk1 hk2 => ?_⟩
      have : k = j + 1 := by omega
      subst this; exact h
    cases md with
    | excl =>
      simp only [Holds, exclOwner] at h
      split at h
      · rename_i t' m' heq
        by_cases hm : m' = m
        · subst hm
          simp at h; subst h
          exact here heq
        · simp [hm] at h; exact step h
      · rename_i t' m' heq
        by_cases hm : m' = m
        · simp [hm] at h
        · simp [hm] at h; exact step h
      · exact step h
    | shared =>
      simp only [Holds, sharedCount] at h
      split at h
      · rename_i t' m' heq
        by_cases hm : m' = m ∧ t' = t
        · obtain ⟨h1, h2⟩ := hm; subst h1; subst h2
          by_cases h0 : 0 < sharedCount tr m' t' j
          · exact step h0
          · exact here heq
        · simp [hm] at h; exact step h
      · rename_i t' m' heq
        by_cases hm : m' = m ∧ t' = t
        · simp [hm] at h; exact step (by simp only [Holds]; omega)
        · simp [hm] at h; exact step h
      · exact step h

/-- from a point where `t1` holds the lock, either it still holds it or it has released it in between -/
theorem holds_or_released (tr : Trace L M) (hwf : WF tr) (m : M) (t1 : Nat) (md : Mode) (i : Nat)
    (hi : Holds tr m t1 md i) (a : Nat) (hia : i ≤ a) :
    Holds tr m t1 md a ∨ ∃ r, i ≤ r ∧ r < a ∧ tr[r]? = some ⟨t1, .rel m md⟩ := by
  induction a with
  | zero => have : i = 0 := by omega
            subst this; exact Or.inl hi
  | succ a ih =>
    by_cases e : i = a + 1
    · subst e; exact Or.inl hi
    · rcases ih (by omega) with h | ⟨r, h1, h2, h3⟩
      · cases md with
        | excl =>
          simp only [Holds] at h ⊢
          by_cases hrel : tr[a]? = some ⟨t1, .rel m .excl⟩
          · exact Or.inr ⟨a, by omega, by omega, hrel⟩
          · left
            rw [exclOwner_succ_of_other]
            · exact h
            · intro t
              refine ⟨fun hq => ?_, fun hq => ?_⟩
              · have := (hwf.acqExcl a t m hq).1
                rw [h] at this; cases this
              · have := hwf.relExcl a t m hq
                rw [h] at this; cases this
                exact hrel hq
        | shared =>
          simp only [Holds] at h ⊢
          by_cases hrel : tr[a]? = some ⟨t1, .rel m .shared⟩
          · exact Or.inr ⟨a, by omega, by omega, hrel⟩
          · left
            by_cases hacq : tr[a]? = some ⟨t1, .acq m .shared⟩
            · simp only [sharedCount, hacq]; simp
            · rw [sharedCount_succ_of_other tr m t1 a ⟨hacq, hrel⟩]; exact h
      · exact Or.inr ⟨r, h1, by omega, h3⟩

/-- **C01 in use**: a lock is not granted while somebody holds it in a conflicting mode -/
theorem acquire_excludes (tr : Trace L M) (hwf : WF tr) (m : M) (a t1 t2 : Nat) (md1 md2 : Mode)
    (hacq : tr[a]? = some ⟨t2, .acq m md2⟩) (hh : Holds tr m t1 md1 a) (hc : md1 = .excl ∨ md2 = .excl) : False := by
  cases md2 with
  | excl =>
    obtain ⟨h1, h2⟩ := hwf.acqExcl a t2 m hacq
    cases md1 with
    | excl => simp only [Holds] at hh; rw [h1] at hh; cases hh
    | shared => simp only [Holds] at hh; rw [h2 t1] at hh; omega
  | shared =>
    have h1 := hwf.acqShared a t2 m hacq
    rcases hc with hc | hc
    · subst hc; simp only [Holds] at hh; rw [h1] at hh; cases hh
    · cases hc

/-- the invariant form of C01: two different threads are inside the lock together only if both are readers -/
theorem no_sharing_with_writer (tr : Trace L M) (hwf : WF tr) (m : M) (k t1 t2 : Nat) (md1 md2 : Mode) (hne : t1 ≠ t2)
    (h1 : Holds tr m t1 md1 k) (h2 : Holds tr m t2 md2 k) : md1 = .shared ∧ md2 = .shared := by
  apply Classical.byContradiction
  intro hn
  have hc : md1 = .excl ∨ md2 = .excl := by
    cases md1 <;> cases md2 <;> simp at hn ⊢
  obtain ⟨a1, ha1, hacq1, hall1⟩ := held_since tr m t1 md1 k h1
  obtain ⟨a2, ha2, hacq2, hall2⟩ := held_since tr m t2 md2 k h2
  rcases Nat.lt_trichotomy a1 a2 with h | h | h
  · exact acquire_excludes tr hwf m a2 t1 t2 md1 md2 hacq2 (hall1 a2 h (by omega)) hc
  · subst h; rw [hacq1] at hacq2; cases hacq2; exact hne rfl
  · exact acquire_excludes tr hwf m a1 t2 t1 md2 md1 hacq1 (hall2 a1 h (by omega)) hc.symm

/-- **lockset soundness**: two accesses by different threads, both made while holding the same lock, one of them
holding it exclusively, are ordered by happens-before. -/
theorem guarded_ordered (tr : Trace L M) (hwf : WF tr) (m : M) (i j t1 t2 : Nat) (md1 md2 : Mode) (x1 x2 : L) (w1 w2 : Bool)
    (hij : i < j) (hi : tr[i]? = some ⟨t1, .acc x1 w1⟩) (hj : tr[j]? = some ⟨t2, .acc x2 w2⟩) (hne : t1 ≠ t2)
    (h1 : Holds tr m t1 md1 i) (h2 : Holds tr m t2 md2 j) (hc : md1 = .excl ∨ md2 = .excl) : HB tr i j := by
  obtain ⟨a, haj, hacq, hall⟩ := held_since tr m t2 md2 j h2
  have hia : i < a := by
    rcases Nat.lt_trichotomy a i with h | h | h
    · have h2i := hall i h (by omega)
      have := no_sharing_with_writer tr hwf m i t1 t2 md1 md2 hne h1 h2i
      rcases hc with hc | hc <;> simp [hc] at this
    · subst h; rw [hi] at hacq; cases hacq
    · exact h
  rcases holds_or_released tr hwf m t1 md1 i h1 a (by omega) with h | ⟨r, hr1, hr2, hr3⟩
  · exact (acquire_excludes tr hwf m a t1 t2 md1 md2 hacq h hc).elim
  · have hir : i < r := by
      rcases Nat.lt_or_ge i r with h | h
      · exact h
      · have : r = i := by omega
        subst this; rw [hi] at hr3; cases hr3
    exact HB.trans (HB.po hir hi hr3) (HB.trans (HB.sw hr2 hr3 hacq hc) (HB.po haj hacq hj))

omit [DecidableEq M] in
/-- happens-before respects the order of the trace -/
theorem hb_lt (tr : Trace L M) {i j : Nat} (h : HB tr i j) : i < j := by
  induction h with
  | po h _ _ => exact h
  | sw h _ _ _ => exact h
  | fork h _ _ => exact h
  | join h _ _ => exact h
  | trans _ _ ih1 ih2 => omega

/-- a write made while every other accessor is not yet forked or already joined is ordered with all their accesses -/
theorem quiescent_ordered (tr : Trace L M) (hwf : WF tr) (k t : Nat) (x : L) (w : Bool)
    (hk : tr[k]? = some ⟨t, .acc x w⟩) (hq : Quiescent tr k t x)
    (j u : Nat) (w' : Bool) (hj : tr[j]? = some ⟨u, .acc x w'⟩) (hne : u ≠ t) :
    (k < j → HB tr k j) ∧ (j < k → HB tr j k) := by
  rcases hq j u w' hj hne with ⟨f, hkf, hf⟩ | ⟨n, hnk, hn⟩
  · have hfj := hwf.forked f t u hf j _ hj
    exact ⟨fun _ => HB.trans (HB.po hkf hk hf) (HB.fork hfj hf hj), fun h => by omega⟩
  · have hjn := hwf.joined n t u hn j _ hj
    exact ⟨fun h => by omega, fun _ => HB.trans (HB.join hjn hj hn) (HB.po hnk hn hk)⟩

/-- **C15 (generic part)**: a well-formed execution that follows a discipline has no data race. -/
theorem discipline_sound (tr : Trace L M) (hwf : WF tr) (d : L → Rule M) (hf : Follows tr d) : ¬ Race tr := by
  intro ⟨i, j, t1, t2, x, w1, w2, hij, hi, hj, hne, hw, hnhb⟩
  rcases hf i t1 x w1 hi with p1 | f1
  · exact hnhb (p1 j t2 w2 hj (Ne.symm hne)).2
  rcases hf j t2 x w2 hj with p2 | f2
  · have := (p2 i t1 w1 hi hne).1; omega
  cases hd : d x with
  | guardedBy m =>
    rw [hd] at f1 f2
    exact hnhb (guarded_ordered tr hwf m i j t1 t2 .excl .excl x x w1 w2 hij hi hj hne f1 f2 (Or.inl rfl))
  | guardedByRW r =>
    rw [hd] at f1 f2
    simp only [Rule.okAt] at f1 f2
    rcases f1 with f1 | ⟨f1, r1⟩
    · rcases f2 with f2 | ⟨f2, _⟩
      · exact hnhb (guarded_ordered tr hwf r i j t1 t2 .excl .excl x x w1 w2 hij hi hj hne f1 f2 (Or.inl rfl))
      · exact hnhb (guarded_ordered tr hwf r i j t1 t2 .excl .shared x x w1 w2 hij hi hj hne f1 f2 (Or.inl rfl))
    · rcases f2 with f2 | ⟨f2, r2⟩
      · exact hnhb (guarded_ordered tr hwf r i j t1 t2 .shared .excl x x w1 w2 hij hi hj hne f1 f2 (Or.inr rfl))
      · subst r1; subst r2; simp at hw
  | atomic => rw [hd] at f1; exact f1
  | selfSynchronised => rw [hd] at f1; exact f1
  | confinedTo t0 =>
    rw [hd] at f1 f2
    exact hne (f1.trans f2.symm)
  | immutableAfterPublication =>
    rw [hd] at f1 f2
    simp only [Rule.okAt] at f1 f2
    rcases hw with hw | hw
    · subst hw
      exact hnhb ((quiescent_ordered tr hwf i t1 x true hi (f1 rfl) j t2 w2 hj (Ne.symm hne)).1 hij)
    · subst hw
      exact hnhb ((quiescent_ordered tr hwf j t2 x true hj (f2 rfl) i t1 w1 hi hne).2 hij)

end Tulz.Drf

/-! ## from the table to executions -/
namespace Tulz.Drf

variable {F Fn : Type} [DecidableEq F] [DecidableEq Fn]

/-- a lock accepted by `guardOk` is a lock on `(m, o)` held exclusively, or (reader-writer, read access) in shared mode -/
theorem guardOk_spec (m : F) (o : Obj F) (rw write : Bool) (g : Guard F) (h : guardOk m o rw write g = true) :
    g.lock = m ∧ g.obj = o ∧ (g.mode = .excl ∨ (rw = true ∧ g.mode = .shared ∧ write = false)) := by
  simp only [guardOk, Bool.and_eq_true, Bool.or_eq_true, beq_iff_eq, Bool.not_eq_true'] at h
  obtain ⟨⟨h1, h2⟩, h3⟩ := h
  refine ⟨h1, h2, ?_⟩
  rcases h3 with h3 | ⟨⟨h3, h4⟩, h5⟩
  · exact Or.inl h3
  · exact Or.inr ⟨h3, h4, h5⟩

/-- **Instantiation**: if every entry of a table follows the discipline and every access event of an execution is an
instance of a table entry (in some world), the execution follows the induced concrete discipline. -/
theorem instance_follows (d : F → TRule F Fn) (entryRole : Fn → Role) (excluded : List Nat) (tbl : List (Entry F Fn))
    (w : World F) (tr : Trace (CLoc F) (CLoc F))
    (htbl : ∀ e ∈ tbl, followsDiscipline d entryRole excluded e = true)
    (hinst : ∀ k t x wr, tr[k]? = some ⟨t, .acc x wr⟩ → IsInstance d entryRole excluded tbl w tr k t x wr) :
    Follows tr (concreteDiscipline d w) := by
  intro k t x wr hk
  obtain ⟨e, ρ, hmem, hloc, hobj, hwr, hdecl, hconds, hinit, hguards, hanchor, hrole, himm⟩ := hinst k t x wr hk
  have hf := htbl e hmem
  simp only [followsDiscipline, Bool.and_eq_true, Bool.or_eq_true, Bool.not_eq_true'] at hf
  obtain ⟨_, hf⟩ := hf
  cases hi0 : e.init with
  | true => exact Or.inl (hinit hi0)
  | false =>
  rcases hf with (hc | hi) | hrule
  · exfalso
    obtain ⟨c, hc1, hc2⟩ := List.any_eq_true.mp hc
    exact hconds c hc1 (by simpa using hc2)
  · rw [hi0] at hi; cases hi
  · right
    cases hanc : anchor d e.loc e.obj with
    | none => rw [hanc] at hrule; cases hrule
    | some fo =>
      obtain ⟨f, o⟩ := fo
      rw [hanc] at hrule
      simp only at hrule
      have ha := hanchor f o hanc
      simp only [concreteDiscipline, ha]
      cases hdf : d f with
      | guardedBy m =>
        rw [hdf] at hrule
        simp only [ruleOk, Bool.and_eq_true] at hrule
        obtain ⟨_, hany⟩ := hrule
        obtain ⟨g, hg1, hg2⟩ := List.any_eq_true.mp hany
        obtain ⟨e1, e2, e3⟩ := guardOk_spec m o false e.write g hg2
        have hh := hguards g hg1
        rw [e1, e2] at hh
        rcases e3 with e3 | ⟨e3, _, _⟩
        · rw [e3] at hh; exact hh
        · cases e3
      | guardedByRW r =>
        rw [hdf] at hrule
        simp only [ruleOk, Bool.and_eq_true] at hrule
        obtain ⟨_, hany⟩ := hrule
        obtain ⟨g, hg1, hg2⟩ := List.any_eq_true.mp hany
        obtain ⟨e1, e2, e3⟩ := guardOk_spec r o true e.write g hg2
        have hh := hguards g hg1
        rw [e1, e2] at hh
        simp only [TRule.toRule, Rule.okAt]
        rcases e3 with e3 | ⟨_, e3, e4⟩
        · rw [e3] at hh; exact Or.inl hh
        · rw [e3] at hh
          refine Or.inr ⟨hh, ?_⟩
          cases hw : wr with
          | false => rfl
          | true => rw [hwr hw] at e4; cases e4
      | atomic =>
        rw [hdf] at hrule
        simp only [ruleOk, beq_iff_eq] at hrule
        rw [hdecl] at hrule; cases hrule
      | selfSynchronised =>
        rw [hdf] at hrule
        simp only [ruleOk, beq_iff_eq] at hrule
        rw [hdecl] at hrule; cases hrule
      | confinedTo role paths =>
        rw [hdf] at hrule
        simp only [ruleOk, Bool.and_eq_true, beq_iff_eq] at hrule
        obtain ⟨⟨⟨_, hr1⟩, hr2⟩, _⟩ := hrule
        simp only [TRule.toRule, Rule.okAt]
        have := hrole (by rw [hr2]; exact hr1)
        rw [ha, hr2] at this
        exact this
      | immutableAfterPublication ws =>
        simp only [TRule.toRule, Rule.okAt]
        intro hw
        exact himm ws (by rw [ha]; exact hdf) hw hi0
      | ownedState => rw [hdf] at hrule; simp [ruleOk] at hrule
      | none => rw [hdf] at hrule; simp [ruleOk] at hrule

end Tulz.Drf
