import Tulz.Model.Subject
/-
  Lemmas about the Subject model (core Lean only).
  * `WF`      consistency of a world (`m_activeSubscriptions` = ids of `m_observers`, ids unique and never reused, …)
  * `Ext`     what a computation *inside* a notification round may do (nothing is destroyed, only live ids are called, …)
  * `Good`    a state transformer that preserves `WF` and the notify depth and extends the world in the sense of `Ext`
  * `Top`     the same for top-level operations (observers may be destroyed there), phrased with the memory monitor
-/
namespace Tulz.Subject
variable {α : Type}

/-! ### lists of observers -/

theorem mem_ids {l : List Obs} {i : Nat} : i ∈ ids l ↔ ∃ o ∈ l, o.id = i := by
  simp [ids]

theorem ids_cons (o : Obs) (l : List Obs) : ids (o :: l) = o.id :: ids l := rfl
theorem ids_append (l₁ l₂ : List Obs) : ids (l₁ ++ l₂) = ids l₁ ++ ids l₂ := by simp [ids]

theorem ids_modify (p : Nat) (f : Obs → Obs) (hf : ∀ o, (f o).id = o.id) (l : List Obs) :
    ids (modify p f l) = ids l := by
  induction l with
  | nil => rfl
  | cons o l ih =>
    simp only [modify, List.map_cons, ids] at ih ⊢
    rw [ih]
    by_cases h : (o.id == p) = true <;> simp [h, hf]

theorem mem_modify {p : Nat} {f : Obs → Obs} {l : List Obs} {o' : Obs} (h : o' ∈ modify p f l) :
    ∃ o ∈ l, o' = o ∨ (o.id = p ∧ o' = f o) := by
  simp only [modify, List.mem_map] at h
  obtain ⟨o, ho, rfl⟩ := h
  refine ⟨o, ho, ?_⟩
  by_cases hp : (o.id == p) = true
  · right; simp only [hp, if_true]; exact ⟨by simpa using hp, trivial⟩
  · left; simp [hp]

theorem find?_some_id {l : List Obs} {i : Nat} {o : Obs} (h : l.find? (fun o => o.id == i) = some o) :
    o ∈ l ∧ o.id = i := by
  refine ⟨List.mem_of_find?_eq_some h, ?_⟩
  have := List.find?_some h
  simpa using this

theorem find?_none_id {l : List Obs} {i : Nat} : l.find? (fun o => o.id == i) = none ↔ i ∉ ids l := by
  rw [List.find?_eq_none, mem_ids]
  constructor
  · intro h ⟨o, ho, hi⟩; exact h o ho (by simp [hi])
  · intro h o ho hi; exact h ⟨o, ho, by simpa using hi⟩

theorem find?_of_mem_nodup {l : List Obs} (hnd : (ids l).Nodup) {o : Obs} (ho : o ∈ l) :
    l.find? (fun x => x.id == o.id) = some o := by
  induction l with
  | nil => cases ho
  | cons x l ih =>
    rw [ids_cons, List.nodup_cons] at hnd
    by_cases hx : x = o
    · subst hx; simp
    · have hol : o ∈ l := by
        cases ho with
        | head => exact absurd rfl hx
        | tail _ h => exact h
      have hne : ¬ (x.id == o.id) = true := by
        intro he
        have : x.id = o.id := by simpa using he
        exact hnd.1 (this ▸ mem_ids.2 ⟨o, hol, rfl⟩)
      have hne' : (x.id == o.id) = false := by simpa using hne
      simp only [List.find?_cons, hne']
      exact ih hnd.2 hol

/-- splitting at the first observer with id `i` -/
theorem split_at_id {l : List Obs} {i : Nat} {o : Obs} (h : l.find? (fun o => o.id == i) = some o) :
    ∃ l₁ l₂, l = l₁ ++ o :: l₂ ∧ l.eraseP (fun o => o.id == i) = l₁ ++ l₂ ∧ o.id = i := by
  induction l with
  | nil => simp at h
  | cons x l ih =>
    by_cases hx : (x.id == i) = true
    · simp only [List.find?_cons, hx] at h
      cases h
      exact ⟨[], l, rfl, by simp [hx], by simpa using hx⟩
    · have hx' : (x.id == i) = false := by simpa using hx
      simp only [List.find?_cons, hx'] at h
      obtain ⟨l₁, l₂, e1, e2, e3⟩ := ih h
      refine ⟨x :: l₁, l₂, by simp [e1], ?_, e3⟩
      simp only [List.eraseP_cons, hx', e2]; rfl

theorem mem_insertSet {i j : Nat} {l : List Nat} : j ∈ insertSet i l ↔ j = i ∨ j ∈ l := by
  unfold insertSet
  by_cases h : i ∈ l
  · simp only [h, if_true]
    constructor
    · exact Or.inr
    · rintro (rfl | h') <;> assumption
  · simp [h]

theorem mem_eraseSet {i j : Nat} {l : List Nat} : j ∈ eraseSet i l ↔ j ∈ l ∧ j ≠ i := by
  simp [eraseSet]

/-! ### well-formedness -/

def Alive (w : World α) (i : Nat) : Prop := i ∈ ids w.obs ∨ i ∈ ids w.grave

/-- `i` is subscribed and its observer is valid: it may still be called -/
def Live (w : World α) (i : Nat) : Prop := i ∈ w.active ∧ ∃ o ∈ w.obs, o.id = i ∧ o.valid = true

structure WF (w : World α) : Prop where
  /-- `m_activeSubscriptions` holds exactly the ids of `m_observers` -/
  act : ∀ i, i ∈ w.active ↔ i ∈ ids w.obs
  /-- ids are unique among all existing observers -/
  nd : (ids w.obs ++ ids w.grave).Nodup
  /-- ids are never reused -/
  lt : ∀ i, Alive w i → i < w.counter
  /-- removed observers are parked only while a notification is in progress -/
  g0 : w.depth = 0 → w.grave = []
  /-- the three members of a handle of this subject belong together -/
  hs : ∀ h ∈ w.handles, h.subj = some w.sid → h.obs = h.id

theorem WF.init (sid : Nat) : WF ({ sid := sid } : World α) :=
  ⟨fun i => by simp [ids], by simp [ids], fun i h => by simp [Alive, ids] at h, fun _ => rfl, fun h hh => by simp at hh⟩

theorem WF.nd_obs {w : World α} (h : WF w) : (ids w.obs).Nodup := (List.nodup_append.1 h.nd).1

theorem WF.lookup_obs {w : World α} (h : WF w) {o : Obs} (ho : o ∈ w.obs) : w.lookup o.id = some o := by
  unfold World.lookup
  rw [List.find?_append, find?_of_mem_nodup h.nd_obs ho]; rfl

theorem WF.lookup_alive {w : World α} (h : WF w) {i : Nat} (hi : Alive w i) : ∃ o, w.lookup i = some o ∧ o.id = i := by
  unfold World.lookup
  cases hf : (w.obs ++ w.grave).find? (fun o => o.id == i) with
  | some o => exact ⟨o, rfl, (find?_some_id hf).2⟩
  | none =>
    rw [find?_none_id, ids_append, List.mem_append] at hf
    exact absurd hi hf

theorem lookup_some {w : World α} {i : Nat} {o : Obs} (h : w.lookup i = some o) : o.id = i ∧ Alive w i := by
  unfold World.lookup at h
  have := find?_some_id h
  refine ⟨this.2, ?_⟩
  have hm := this.1
  rw [List.mem_append] at hm
  rcases hm with hm | hm
  · exact Or.inl (mem_ids.2 ⟨o, hm, this.2⟩)
  · exact Or.inr (mem_ids.2 ⟨o, hm, this.2⟩)

theorem WF.active_lookup {w : World α} (h : WF w) {i : Nat} (hi : i ∈ w.active) :
    ∃ o ∈ w.obs, o.id = i ∧ w.lookup i = some o := by
  obtain ⟨o, ho, rfl⟩ := mem_ids.1 ((h.act i).1 hi)
  exact ⟨o, ho, rfl, h.lookup_obs ho⟩

/-! ### the monitor -/

theorem Mon.run_append (m : Mon) (a b : List (Ev α)) :
    m.run (a ++ b) = (m.run a).bind (fun m' => m'.run b) := by
  induction a generalizing m with
  | nil => rfl
  | cons e a ih =>
    simp only [List.cons_append, Mon.run]
    cases m.step e with
    | none => rfl
    | some m' => exact ih m'

/-- the observer an event dereferences -/
def touched : Ev α → Option Nat
  | .touch i => some i
  | .enter i _ => some i
  | .exit i => some i
  | _ => none

/-- a trace segment that destroys nothing, is balanced, and is accepted by the monitor from every state whose
    destroyed set avoids the observers it touches — and leaves that state unchanged -/
def Acc (evs : List (Ev α)) : Prop :=
  ∀ m : Mon, (∀ e ∈ evs, ∀ i, touched e = some i → i ∉ m.freed) → m.run evs = some m

theorem Acc.nil : Acc ([] : List (Ev α)) := fun _ _ => rfl

theorem Acc.touch (i : Nat) : Acc ([.touch i] : List (Ev α)) := by
  intro m h
  have : i ∉ m.freed := h (.touch i) (by simp) i rfl
  simp [Mon.run, Mon.step, this]

theorem Acc.caught : Acc ([.caught] : List (Ev α)) := by
  intro m _; simp [Mon.run, Mon.step]

theorem Acc.append {a b : List (Ev α)} (ha : Acc a) (hb : Acc b) : Acc (a ++ b) := by
  intro m h
  rw [Mon.run_append, ha m (fun e he => h e (List.mem_append_left _ he))]
  exact hb m (fun e he => h e (List.mem_append_right _ he))

theorem Acc.call {evs : List (Ev α)} (i : Nat) (a : α) (h : Acc evs) : Acc (.enter i a :: (evs ++ [.exit i])) := by
  intro m hm
  have hi : i ∉ m.freed := hm (.enter i a) (by simp) i rfl
  have h1 : (Mon.run { m with stack := i :: m.stack } evs) = some { m with stack := i :: m.stack } :=
    h _ (fun e he => hm e (by simp [he]))
  simp only [Mon.run, Mon.step, hi, if_false]
  rw [Mon.run_append, h1]
  simp [Mon.run, Mon.step, hi]

theorem Acc.no_free {evs : List (Ev α)} (h : Acc evs) (i : Nat) : Ev.free i ∉ evs := by
  intro hm
  -- run from the empty monitor: the destroyed set would have to stay empty
  have h0 := h { freed := [], stack := [] } (by intro e _ j _; simp)
  obtain ⟨a, b, rfl⟩ := List.append_of_mem hm
  rw [Mon.run_append] at h0
  have hfreed : ∀ (es : List (Ev α)) (m m' : Mon), m.run es = some m' → ∀ j, j ∈ m.freed → j ∈ m'.freed := by
    intro es
    induction es with
    | nil => intro m m' h' j hj; simp only [Mon.run] at h'; cases h'; exact hj
    | cons e es ih =>
      intro m m' h j hj
      simp only [Mon.run] at h
      cases hs : m.step e with
      | none => rw [hs] at h; cases h
      | some m1 =>
        rw [hs] at h
        refine ih m1 m' h j ?_
        cases e <;> simp only [Mon.step] at hs
        · split at hs <;> simp at hs; subst hs; exact hj
        · split at hs <;> simp at hs; subst hs; simp [hj]
        · split at hs <;> simp at hs; subst hs; exact hj
        · split at hs
          · split at hs <;> simp at hs; subst hs; exact hj
          · cases hs
        · cases hs; exact hj
  cases h1 : Mon.run { freed := [], stack := [] } a with
  | none => rw [h1] at h0; cases h0
  | some m1 =>
    rw [h1] at h0
    simp only [Option.bind, Mon.run] at h0
    cases h2 : m1.step (Ev.free i : Ev α) with
    | none => rw [h2] at h0; cases h0
    | some m2 =>
      rw [h2] at h0
      have : i ∈ m2.freed := by
        simp only [Mon.step] at h2
        split at h2 <;> simp at h2
        subst h2; simp
      have := hfreed b m2 _ h0 i this
      simp at this

/-! ### what a computation inside a round may do -/

structure Ext (w w' : World α) : Prop where
  sid : w'.sid = w.sid
  counter : w.counter ≤ w'.counter
  /-- nothing is destroyed -/
  alive : ∀ i, Alive w i → Alive w' i
  /-- new observers get new ids -/
  fresh : ∀ i, Alive w' i → Alive w i ∨ w.counter ≤ i
  /-- an id that is unsubscribed or invalid stays so -/
  live : ∀ i, i < w.counter → Live w' i → Live w i
  ub : w'.ub = w.ub
  tr : ∃ evs, w'.trace = w.trace ++ evs ∧ Acc evs ∧
        (∀ e ∈ evs, ∀ i, touched e = some i → Alive w' i) ∧
        (∀ i a, Ev.enter i a ∈ evs → Live w i ∨ w.counter ≤ i)

theorem Ext.refl (w : World α) : Ext w w :=
  ⟨rfl, Nat.le_refl _, fun _ h => h, fun _ h => Or.inl h, fun _ _ h => h, rfl,
   ⟨[], by simp, Acc.nil, by simp, by simp⟩⟩

theorem Ext.trans {w₁ w₂ w₃ : World α} (h₁ : Ext w₁ w₂) (h₂ : Ext w₂ w₃) : Ext w₁ w₃ := by
  obtain ⟨e₁, t₁, a₁, al₁, en₁⟩ := h₁.tr
  obtain ⟨e₂, t₂, a₂, al₂, en₂⟩ := h₂.tr
  refine ⟨h₂.sid.trans h₁.sid, Nat.le_trans h₁.counter h₂.counter, fun i h => h₂.alive i (h₁.alive i h), ?_, ?_,
          h₂.ub.trans h₁.ub, ⟨e₁ ++ e₂, by rw [t₂, t₁, List.append_assoc], a₁.append a₂, ?_, ?_⟩⟩
  · intro i h
    rcases h₂.fresh i h with h | h
    · exact h₁.fresh i h
    · exact Or.inr (Nat.le_trans h₁.counter h)
  · intro i hi h
    exact h₁.live i hi (h₂.live i (Nat.lt_of_lt_of_le hi h₁.counter) h)
  · intro e he i ht
    rcases List.mem_append.1 he with he | he
    · exact h₂.alive i (al₁ e he i ht)
    · exact al₂ e he i ht
  · intro i a he
    rcases List.mem_append.1 he with he | he
    · exact en₁ i a he
    · by_cases hi : i < w₁.counter
      · rcases en₂ i a he with h | h
        · exact Or.inl (h₁.live i hi h)
        · exact absurd (Nat.lt_of_lt_of_le hi h₁.counter) (Nat.not_lt.2 h)
      · exact Or.inr (Nat.le_of_not_lt hi)

/-- a transformer that may run inside a notification round -/
def Good (f : World α → World α) : Prop :=
  ∀ w, WF w → 0 < w.depth → WF (f w) ∧ (f w).depth = w.depth ∧ Ext w (f w)

theorem Good.id : Good (fun w : World α => w) := fun w h _ => ⟨h, rfl, Ext.refl w⟩

theorem Good.comp {f g : World α → World α} (hf : Good f) (hg : Good g) : Good (fun w => g (f w)) := by
  intro w hw hd
  obtain ⟨w1, d1, e1⟩ := hf w hw hd
  obtain ⟨w2, d2, e2⟩ := hg (f w) w1 (d1 ▸ hd)
  exact ⟨w2, d2.trans d1, e1.trans e2⟩

/-! #### primitives -/

theorem ext_emit_touch {w : World α} {p : Nat} (hp : Alive w p) : Ext w (w.emit (.touch p)) :=
  ⟨rfl, Nat.le_refl _, fun _ h => h, fun _ h => Or.inl h, fun _ _ h => h, rfl,
   ⟨[.touch p], rfl, Acc.touch p, by
      intro e he i ht
      simp only [List.mem_singleton] at he
      subst he
      cases ht
      exact hp, by simp⟩⟩

theorem ext_emit_caught (w : World α) : Ext w (w.emit .caught) :=
  ⟨rfl, Nat.le_refl _, fun _ h => h, fun _ h => Or.inl h, fun _ _ h => h, rfl,
   ⟨[.caught], rfl, Acc.caught, (by
      intro e he i ht
      simp only [List.mem_singleton] at he
      subst he
      cases ht), (by simp)⟩⟩

theorem WF.emit {w : World α} (h : WF w) (e : Ev α) : WF (w.emit e) := ⟨h.act, h.nd, h.lt, h.g0, h.hs⟩

theorem setMuted_id (b : Bool) (o : Obs) : (setMuted b o).id = o.id := rfl
theorem setInvalid_id (o : Obs) : (setInvalid o).id = o.id := rfl
theorem setMuted_valid (b : Bool) (o : Obs) : (setMuted b o).valid = true → o.valid = true := fun h => h
theorem setInvalid_valid (o : Obs) : (setInvalid o).valid = true → o.valid = true := fun h => by cases h

/-- a write through a pointer to an existing observer -/
theorem poke_spec {w : World α} (hw : WF w) {p : Nat} (hp : Alive w p) (f : Obs → Obs)
    (hid : ∀ o, (f o).id = o.id) (hv : ∀ o, (f o).valid = true → o.valid = true) :
    WF (w.poke p f) ∧ (w.poke p f).depth = w.depth ∧ Ext w (w.poke p f) ∧
    (w.poke p f).handles = w.handles ∧ (w.poke p f).active = w.active ∧
    ids (w.poke p f).obs = ids w.obs ∧ ids (w.poke p f).grave = ids w.grave := by
  obtain ⟨o, hl, _⟩ := hw.lookup_alive hp
  have hl' : (w.emit (.touch p)).lookup p = some o := hl
  have e : w.poke p f = { w.emit (.touch p) with obs := modify p f w.obs, grave := modify p f w.grave } := by
    unfold World.poke
    simp only [hl']
    rfl
  rw [e]
  have io := ids_modify p f hid w.obs
  have ig := ids_modify p f hid w.grave
  have al : ∀ i, Alive ({ w.emit (.touch p) with obs := modify p f w.obs, grave := modify p f w.grave } : World α) i ↔ Alive w i := by
    intro i; unfold Alive; simp only [io, ig]
  refine ⟨⟨?_, ?_, ?_, ?_, hw.hs⟩, rfl, ⟨rfl, Nat.le_refl _, fun i h => (al i).2 h, fun i h => Or.inl ((al i).1 h), ?_, rfl, ?_⟩, rfl, rfl, io, ig⟩
  · intro i; show i ∈ w.active ↔ i ∈ ids (modify p f w.obs); rw [io]; exact hw.act i
  · show (ids (modify p f w.obs) ++ ids (modify p f w.grave)).Nodup; rw [io, ig]; exact hw.nd
  · intro i h; exact hw.lt i ((al i).1 h)
  · intro h; show modify p f w.grave = []; rw [hw.g0 h]; rfl
  · intro i _ h
    obtain ⟨ha, o', ho', hi', hv'⟩ := h
    obtain ⟨o₀, ho₀, hc⟩ := mem_modify ho'
    refine ⟨ha, o₀, ho₀, ?_, ?_⟩
    · rcases hc with rfl | ⟨_, rfl⟩
      · exact hi'
      · rw [← hi', hid]
    · rcases hc with rfl | ⟨_, rfl⟩
      · exact hv'
      · exact hv _ hv'
  · refine ⟨[.touch p], rfl, Acc.touch p, ?_, by simp⟩
    intro e he i ht
    simp only [List.mem_singleton] at he
    subst he
    cases ht
    exact (al _).2 hp

theorem subscribeSlot_eq (w : World α) (script : List Action) (m0 : Bool) :
    w.subscribeSlot script m0 =
      { w with obs := ⟨w.counter, true, m0, script⟩ :: w.obs, active := insertSet w.counter w.active,
               counter := w.counter + 1, handles := w.handles ++ [⟨some w.counter, some w.sid, some w.counter⟩] } := rfl

theorem subscribeSlot_spec {w : World α} (hw : WF w) (script : List Action) (m0 : Bool) :
    WF (w.subscribeSlot script m0) ∧ (w.subscribeSlot script m0).depth = w.depth ∧ Ext w (w.subscribeSlot script m0) := by
  rw [subscribeSlot_eq]
  have hc : ¬ Alive w w.counter := fun h => Nat.lt_irrefl _ (hw.lt _ h)
  refine ⟨⟨?_, ?_, ?_, hw.g0, ?_⟩, rfl, ⟨rfl, Nat.le_succ _, ?_, ?_, ?_, rfl, ⟨[], by simp, Acc.nil, by simp, by simp⟩⟩⟩
  · intro i
    show i ∈ insertSet w.counter w.active ↔ i ∈ w.counter :: ids w.obs
    rw [mem_insertSet, List.mem_cons, hw.act]
  · show (w.counter :: ids w.obs ++ ids w.grave).Nodup
    rw [List.cons_append, List.nodup_cons]
    exact ⟨fun h => hc (List.mem_append.1 h), hw.nd⟩
  · intro i h
    show i < w.counter + 1
    rcases h with h | h
    · have h' : i ∈ w.counter :: ids w.obs := h
      rcases List.mem_cons.1 h' with rfl | h''
      · exact Nat.lt_succ_self _
      · exact Nat.lt_succ_of_lt (hw.lt i (Or.inl h''))
    · exact Nat.lt_succ_of_lt (hw.lt i (Or.inr h))
  · intro h hh hs
    have hh' : h ∈ w.handles ++ [⟨some w.counter, some w.sid, some w.counter⟩] := hh
    rcases List.mem_append.1 hh' with h1 | h1
    · exact hw.hs h h1 hs
    · simp only [List.mem_singleton] at h1; subst h1; rfl
  · intro i h
    rcases h with h | h
    · exact Or.inl (List.mem_cons_of_mem _ h)
    · exact Or.inr h
  · intro i h
    rcases h with h | h
    · have h' : i ∈ w.counter :: ids w.obs := h
      rcases List.mem_cons.1 h' with rfl | h''
      · exact Or.inr (Nat.le_refl _)
      · exact Or.inl (Or.inl h'')
    · exact Or.inl (Or.inr h)
  · intro i hi h
    obtain ⟨ha, o, ho, hid, hv⟩ := h
    have ha' : i ∈ insertSet w.counter w.active := ha
    have ho' : o ∈ (⟨w.counter, true, m0, script⟩ : Obs) :: w.obs := ho
    rcases mem_insertSet.1 ha' with rfl | ha''
    · exact absurd hi (Nat.lt_irrefl _)
    · rcases List.mem_cons.1 ho' with rfl | ho''
      · exact absurd (hid ▸ hi) (Nat.lt_irrefl _)
      · exact ⟨ha'', o, ho'', hid, hv⟩

/-- ids around the first observer with id `i` -/
theorem ids_split {l : List Obs} {i : Nat} {o : Obs} (h : l.find? (fun o => o.id == i) = some o) :
    ∃ A B, ids l = A ++ i :: B ∧ ids (l.eraseP (fun o => o.id == i)) = A ++ B ∧
      (∀ x ∈ l.eraseP (fun o => o.id == i), x ∈ l) := by
  obtain ⟨l₁, l₂, e1, e2, e3⟩ := split_at_id h
  refine ⟨ids l₁, ids l₂, ?_, ?_, ?_⟩
  · rw [e1, ids_append, ids_cons, e3]
  · rw [e2, ids_append]
  · intro x hx
    rw [e2] at hx
    rw [e1]
    rcases List.mem_append.1 hx with h | h
    · exact List.mem_append_left _ h
    · exact List.mem_append_right _ (List.mem_cons_of_mem _ h)

theorem unsubById_none {w : World α} {i : Nat} (hf : w.obs.find? (fun o => o.id == i) = none) :
    w.unsubscribeById i = { w with active := eraseSet i w.active } := by
  unfold World.unsubscribeById; rw [hf]

theorem unsubById_round_eq {w : World α} {i : Nat} {o : Obs} (hf : w.obs.find? (fun o => o.id == i) = some o)
    (hd : 0 < w.depth) :
    w.unsubscribeById i =
      { w with obs := w.obs.eraseP (fun o => o.id == i), grave := o :: w.grave, active := eraseSet i w.active } := by
  unfold World.unsubscribeById; rw [hf]; simp only [if_pos hd]

theorem unsubById_top_eq {w : World α} {i : Nat} {o : Obs} (hf : w.obs.find? (fun o => o.id == i) = some o)
    (hd : w.depth = 0) :
    w.unsubscribeById i =
      ({ w with obs := w.obs.eraseP (fun o => o.id == i), active := eraseSet i w.active } : World α).emit (.free o.id) := by
  unfold World.unsubscribeById; rw [hf]; simp only [hd, Nat.lt_irrefl, if_false]

/-- `unsubscribeById` while a notification is in progress: the observer is parked -/
theorem unsubById_round {w : World α} (hw : WF w) (hd : 0 < w.depth) (i : Nat) :
    WF (w.unsubscribeById i) ∧ (w.unsubscribeById i).depth = w.depth ∧ Ext w (w.unsubscribeById i) ∧
    (w.unsubscribeById i).handles = w.handles ∧ (w.unsubscribeById i).sid = w.sid := by
  cases hf : w.obs.find? (fun o => o.id == i) with
  | none =>
    rw [unsubById_none hf]
    have hi : i ∉ ids w.obs := find?_none_id.1 hf
    have ha : ∀ j, j ∈ eraseSet i w.active ↔ j ∈ ids w.obs := by
      intro j
      rw [mem_eraseSet, hw.act]
      exact ⟨fun h => h.1, fun h => ⟨h, fun e => hi (e ▸ h)⟩⟩
    refine ⟨⟨ha, hw.nd, hw.lt, hw.g0, hw.hs⟩, rfl,
            ⟨rfl, Nat.le_refl _, fun _ h => h, fun _ h => Or.inl h, ?_, rfl, ⟨[], by simp, Acc.nil, by simp, by simp⟩⟩, rfl, rfl⟩
    intro j _ h
    obtain ⟨h1, h2⟩ := h
    have h1' : j ∈ eraseSet i w.active := h1
    exact ⟨(mem_eraseSet.1 h1').1, h2⟩
  | some o =>
    rw [unsubById_round_eq hf hd]
    obtain ⟨A, B, eA, eB, hsub⟩ := ids_split hf
    have hoid : o.id = i := (find?_some_id hf).2
    have hnd : (A ++ i :: B ++ ids w.grave).Nodup := by have := hw.nd; rwa [eA] at this
    have hperm : (A ++ B ++ i :: ids w.grave).Perm (A ++ i :: B ++ ids w.grave) := by
      refine (List.perm_middle).trans ?_
      refine List.Perm.trans ?_ (List.Perm.append_right _ (List.perm_middle (l₁ := A) (l₂ := B) (a := i)).symm)
      simp
    have hiA : i ∉ A ++ B := by
      intro h
      have h2 : (A ++ i :: B).Nodup := (List.nodup_append.1 hnd).1
      have h3 := (List.perm_middle (l₁ := A) (l₂ := B) (a := i)).nodup_iff.1 h2
      exact (List.nodup_cons.1 h3).1 h
    have hal : ∀ j, Alive ({ w with obs := w.obs.eraseP (fun o => o.id == i), grave := o :: w.grave,
                                    active := eraseSet i w.active } : World α) j ↔ Alive w j := by
      intro j
      unfold Alive
      show j ∈ ids (w.obs.eraseP (fun o => o.id == i)) ∨ j ∈ ids (o :: w.grave) ↔ _
      rw [eB, eA, ids_cons, hoid]
      simp only [List.mem_append, List.mem_cons]
      constructor
      · rintro ((h | h) | (h | h))
        · exact Or.inl (Or.inl h)
        · exact Or.inl (Or.inr (Or.inr h))
        · exact Or.inl (Or.inr (Or.inl h))
        · exact Or.inr h
      · rintro ((h | h | h) | h)
        · exact Or.inl (Or.inl h)
        · exact Or.inr (Or.inl h)
        · exact Or.inl (Or.inr h)
        · exact Or.inr (Or.inr h)
    refine ⟨⟨?_, ?_, fun j h => hw.lt j ((hal j).1 h), fun h => absurd h (Nat.pos_iff_ne_zero.1 hd), hw.hs⟩, rfl,
            ⟨rfl, Nat.le_refl _, fun j h => (hal j).2 h, fun j h => Or.inl ((hal j).1 h), ?_, rfl,
             ⟨[], by simp, Acc.nil, by simp, by simp⟩⟩, rfl, rfl⟩
    · intro j
      show j ∈ eraseSet i w.active ↔ j ∈ ids (w.obs.eraseP (fun o => o.id == i))
      rw [mem_eraseSet, hw.act, eB, eA]
      simp only [List.mem_append, List.mem_cons]
      constructor
      · rintro ⟨h | h | h, hne⟩
        · exact Or.inl h
        · exact absurd h hne
        · exact Or.inr h
      · intro h
        refine ⟨by rcases h with h | h; exact Or.inl h; exact Or.inr (Or.inr h), ?_⟩
        rintro rfl
        exact hiA (List.mem_append.2 h)
    · show (ids (w.obs.eraseP (fun o => o.id == i)) ++ ids (o :: w.grave)).Nodup
      rw [eB, ids_cons, hoid]
      exact hperm.nodup_iff.2 hnd
    · intro j _ h
      obtain ⟨h1, o', ho', h3⟩ := h
      have h1' : j ∈ eraseSet i w.active := h1
      exact ⟨(mem_eraseSet.1 h1').1, o', hsub o' ho', h3⟩

theorem validId?_some {w : World α} {h : Handle} {i : Nat} (hv : w.validId? h = some i) :
    h.subj = some w.sid ∧ h.id = some i ∧ i ∈ w.active := by
  unfold World.validId? at hv
  by_cases hs : h.subj = some w.sid
  · rw [if_pos hs] at hv
    cases hid : h.id with
    | none => rw [hid] at hv; cases hv
    | some j =>
      rw [hid] at hv
      by_cases hj : j ∈ w.active
      · simp only [hj, if_true] at hv; cases hv; exact ⟨hs, rfl, hj⟩
      · simp only [hj, if_false] at hv; cases hv
  · rw [if_neg hs] at hv; cases hv

theorem WF.setHandles {w : World α} (hw : WF w) (l : List Handle)
    (hl : ∀ h ∈ l, h.subj = some w.sid → h.obs = h.id) : WF ({ w with handles := l } : World α) :=
  ⟨hw.act, hw.nd, hw.lt, hw.g0, hl⟩

theorem Ext.setHandles {w u : World α} (h : Ext w u) (l : List Handle) : Ext w ({ u with handles := l } : World α) :=
  ⟨h.sid, h.counter, h.alive, h.fresh, h.live, h.ub, h.tr⟩

theorem mem_set_null {l : List Handle} {hi : Nat} {h : Handle} (hm : h ∈ l.set hi Handle.null) : h ∈ l ∨ h = Handle.null := by
  rcases List.mem_or_eq_of_mem_set hm with h | h
  · exact Or.inl h
  · exact Or.inr h

theorem unsubSlot_round {w : World α} (hw : WF w) (hd : 0 < w.depth) (hi : Nat) :
    WF (w.unsubSlot hi).1 ∧ (w.unsubSlot hi).1.depth = w.depth ∧ Ext w (w.unsubSlot hi).1 := by
  unfold World.unsubSlot
  cases hh : w.handles[hi]? with
  | none => exact ⟨hw, rfl, Ext.refl w⟩
  | some h =>
    simp only []
    unfold World.unsubscribe
    cases hv : w.validId? h with
    | none => exact ⟨hw, rfl, Ext.refl w⟩
    | some i =>
      obtain ⟨w1, d1, e1, h1, s1⟩ := unsubById_round hw hd i
      refine ⟨w1.setHandles _ ?_, d1, e1.setHandles _⟩
      intro h' hm hs'
      rcases mem_set_null hm with hm | rfl
      · rw [h1] at hm; exact hw.hs h' hm (s1 ▸ hs')
      · rfl

theorem pokeSlot_round {w : World α} (hw : WF w) (hi : Nat) (f : Obs → Obs)
    (hid : ∀ o, (f o).id = o.id) (hv : ∀ o, (f o).valid = true → o.valid = true) :
    WF (w.pokeSlot hi f) ∧ (w.pokeSlot hi f).depth = w.depth ∧ Ext w (w.pokeSlot hi f) := by
  unfold World.pokeSlot
  cases hh : w.handles[hi]? with
  | none => exact ⟨hw, rfl, Ext.refl w⟩
  | some h =>
    simp only []
    cases hval : w.validId? h with
    | none => exact ⟨hw, rfl, Ext.refl w⟩
    | some i =>
      cases hob : h.obs with
      | none => exact ⟨hw, rfl, Ext.refl w⟩
      | some p =>
        simp only []
        obtain ⟨hs, hid', hact⟩ := validId?_some hval
        have hm : h ∈ w.handles := List.mem_of_getElem? hh
        have : h.obs = h.id := hw.hs h hm hs
        rw [hob, hid'] at this
        have hpi : p = i := Option.some.inj this
        subst hpi
        have hp : Alive w _ := Or.inl ((hw.act _).1 hact)
        obtain ⟨a, b, c, _⟩ := poke_spec hw hp f hid hv
        exact ⟨a, b, c⟩

section round
variable (lib : Nat → List Action)

theorem act_round {inner : World α → α → World α} (hin : ∀ a, Good (fun w => inner w a))
    {w : World α} (hw : WF w) (hd : 0 < w.depth) {self : Nat} (hs : Alive w self) (a : α) (x : Action) :
    WF (act lib inner self a w x) ∧ (act lib inner self a w x).depth = w.depth ∧ Ext w (act lib inner self a w x) := by
  cases x with
  | sub k m0 => exact subscribeSlot_spec hw _ _
  | unsubS hi =>
    simp only [act]
    obtain ⟨w1, d1, e1⟩ := unsubSlot_round hw hd hi
    by_cases hc : (w.unsubSlot hi).2 = true
    · rw [if_pos hc]; exact ⟨w1.emit _, d1, e1.trans (ext_emit_caught _)⟩
    · rw [if_neg hc]; exact ⟨w1, d1, e1⟩
  | unsubH hi =>
    simp only [act]
    cases hh : w.handles[hi]? with
    | none => exact ⟨hw, rfl, Ext.refl w⟩
    | some h =>
      simp only []
      by_cases hsb : h.subj = some w.sid
      · rw [if_pos hsb]
        obtain ⟨w1, d1, e1⟩ := unsubSlot_round hw hd hi
        by_cases hc : (w.unsubSlot hi).2 = true
        · rw [if_pos hc]; exact ⟨w1.emit _, d1, e1.trans (ext_emit_caught _)⟩
        · rw [if_neg hc]; exact ⟨w1, d1, e1⟩
      · rw [if_neg hsb]; exact ⟨hw, rfl, Ext.refl w⟩
  | mute hi => exact pokeSlot_round hw hi _ (setMuted_id true) (setMuted_valid true)
  | unmute hi => exact pokeSlot_round hw hi _ (setMuted_id false) (setMuted_valid false)
  | inval hi => exact pokeSlot_round hw hi _ setInvalid_id setInvalid_valid
  | muteSelf =>
    obtain ⟨a', b, c, _⟩ := poke_spec hw hs (setMuted true) (setMuted_id true) (setMuted_valid true)
    exact ⟨a', b, c⟩
  | invalSelf =>
    obtain ⟨a', b, c, _⟩ := poke_spec hw hs setInvalid setInvalid_id setInvalid_valid
    exact ⟨a', b, c⟩
  | notify => exact hin a w hw hd

theorem runScript_round {inner : World α → α → World α} (hin : ∀ a, Good (fun w => inner w a))
    {self : Nat} (a : α) (script : List Action) :
    ∀ {w : World α}, WF w → 0 < w.depth → Alive w self →
      WF (runScript lib inner self a w script) ∧ (runScript lib inner self a w script).depth = w.depth ∧
      Ext w (runScript lib inner self a w script) := by
  induction script with
  | nil => intro w hw _ _; exact ⟨hw, rfl, Ext.refl w⟩
  | cons x xs ih =>
    intro w hw hd hs
    obtain ⟨w1, d1, e1⟩ := act_round lib hin hw hd hs a x
    obtain ⟨w2, d2, e2⟩ := ih w1 (d1 ▸ hd) (e1.alive _ hs)
    exact ⟨w2, d2.trans d1, e1.trans e2⟩

theorem invoke_round {inner : World α → α → World α} (hin : ∀ a, Good (fun w => inner w a))
    {w : World α} (hw : WF w) (hd : 0 < w.depth) {i : Nat} (hi : i ∈ w.active) (a : α) :
    WF (invoke lib inner w i a) ∧ (invoke lib inner w i a).depth = w.depth ∧ Ext w (invoke lib inner w i a) := by
  obtain ⟨o, ho, hid, hl⟩ := hw.active_lookup hi
  have hal : Alive w i := Or.inl ((hw.act i).1 hi)
  have hl' : (w.emit (.touch i)).lookup i = some o := hl
  unfold invoke
  simp only [hl']
  by_cases hc : (!o.muted && o.valid) = true
  · rw [if_pos hc]
    have hw2 : WF ((w.emit (.touch i)).emit (.enter i a)) := (hw.emit _).emit _
    obtain ⟨w3, d3, e3⟩ := runScript_round lib hin a o.script hw2 hd hal
    obtain ⟨evs, ht, hacc, halv, hent⟩ := e3.tr
    refine ⟨w3.emit _, d3, ⟨e3.sid, e3.counter, e3.alive, e3.fresh, e3.live, e3.ub, ?_⟩⟩
    refine ⟨[.touch i] ++ (.enter i a :: (evs ++ [.exit i])), ?_, (Acc.touch i).append (Acc.call i a hacc), ?_, ?_⟩
    · show (runScript lib inner i a ((w.emit (.touch i)).emit (.enter i a)) o.script).trace ++ [.exit i] = _
      rw [ht]
      show ((w.trace ++ [.touch i]) ++ [.enter i a]) ++ evs ++ [.exit i] = _
      simp
    · intro e he j hj
      have hali : Alive (runScript lib inner i a ((w.emit (.touch i)).emit (.enter i a)) o.script) i := e3.alive i hal
      simp only [List.singleton_append, List.mem_cons, List.mem_append, List.not_mem_nil, or_false] at he
      rcases he with rfl | rfl | he | rfl
      · cases hj; exact hali
      · cases hj; exact hali
      · exact halv e he j hj
      · cases hj; exact hali
    · intro j b he
      simp only [List.singleton_append, List.mem_cons, List.mem_append, List.not_mem_nil, or_false] at he
      rcases he with he | he | he | he
      · cases he
      · cases he
        have hval : o.valid = true := by
          cases hm : o.muted <;> cases hv : o.valid <;> simp [hm, hv] at hc ⊢
        exact Or.inl ⟨hi, o, ho, hid, hval⟩
      · exact hent j b he
      · cases he
  · rw [if_neg hc]
    exact ⟨hw.emit _, rfl, ext_emit_touch hal⟩

theorem reap_round {w : World α} (hw : WF w) (hd : 0 < w.depth) (i : Nat) :
    WF (reap w i) ∧ (reap w i).depth = w.depth ∧ Ext w (reap w i) := by
  unfold reap
  by_cases hi : i ∈ w.active
  · rw [if_pos hi]
    obtain ⟨o, ho, hid, hl⟩ := hw.active_lookup hi
    have hal : Alive w i := Or.inl ((hw.act i).1 hi)
    have hl' : (w.emit (.touch i)).lookup i = some o := hl
    simp only [hl']
    by_cases hv : (!o.valid) = true
    · rw [if_pos hv]
      obtain ⟨w1, d1, e1, _⟩ := unsubById_round (hw.emit (.touch i)) hd i
      exact ⟨w1, d1, (ext_emit_touch hal).trans e1⟩
    · rw [if_neg hv]
      exact ⟨hw.emit _, rfl, ext_emit_touch hal⟩
  · rw [if_neg hi]; exact ⟨hw, rfl, Ext.refl w⟩

theorem turn_round {inner : World α → α → World α} (hin : ∀ a, Good (fun w => inner w a))
    {w : World α} (hw : WF w) (hd : 0 < w.depth) (i : Nat) (a : α) :
    WF (turn lib inner w i a) ∧ (turn lib inner w i a).depth = w.depth ∧ Ext w (turn lib inner w i a) := by
  unfold turn
  by_cases hi : i ∈ w.active
  · rw [if_pos hi]
    unfold callOne
    obtain ⟨w1, d1, e1⟩ := invoke_round lib hin hw hd hi a
    obtain ⟨w2, d2, e2⟩ := reap_round w1 (d1 ▸ hd) i
    exact ⟨w2, d2.trans d1, e1.trans e2⟩
  · rw [if_neg hi]; exact ⟨hw, rfl, Ext.refl w⟩

theorem round_round {inner : World α → α → World α} (hin : ∀ a, Good (fun w => inner w a)) (a : α) (snap : List Nat) :
    ∀ {w : World α}, WF w → 0 < w.depth →
      WF (round lib inner snap w a) ∧ (round lib inner snap w a).depth = w.depth ∧ Ext w (round lib inner snap w a) := by
  induction snap with
  | nil => intro w hw _; exact ⟨hw, rfl, Ext.refl w⟩
  | cons i is ih =>
    intro w hw hd
    obtain ⟨w1, d1, e1⟩ := turn_round lib hin hw hd i a
    obtain ⟨w2, d2, e2⟩ := ih w1 (d1 ▸ hd)
    exact ⟨w2, d2.trans d1, e1.trans e2⟩

theorem WF.bump {w : World α} (hw : WF w) : WF ({ w with depth := w.depth + 1 } : World α) :=
  ⟨hw.act, hw.nd, hw.lt, fun h => absurd h (Nat.succ_ne_zero _), hw.hs⟩

/-- a nested `notify` (called from a callback) is itself a computation inside the round -/
theorem notifyWith_round {inner : World α → α → World α} (hin : ∀ a, Good (fun w => inner w a)) (a : α) :
    Good (fun w => notifyWith lib inner w a) := by
  intro w hw hd
  obtain ⟨w2, d2, e2⟩ := round_round lib hin a w.snapshot (w := { w with depth := w.depth + 1 }) hw.bump (Nat.succ_pos _)
  have d2' : (round lib inner w.snapshot { w with depth := w.depth + 1 } a).depth = w.depth + 1 := d2
  have hne : ¬ ((round lib inner w.snapshot { w with depth := w.depth + 1 } a).depth - 1 = 0) := by
    rw [d2']; simp only [Nat.add_sub_cancel]; exact Nat.pos_iff_ne_zero.1 hd
  show WF (notifyWith lib inner w a) ∧ (notifyWith lib inner w a).depth = w.depth ∧ Ext w (notifyWith lib inner w a)
  unfold notifyWith
  simp only [hne, if_false]
  refine ⟨⟨w2.act, w2.nd, w2.lt, ?_, w2.hs⟩, ?_, ⟨e2.sid, e2.counter, e2.alive, e2.fresh, e2.live, e2.ub, e2.tr⟩⟩
  · intro h; exact absurd h hne
  · show (round lib inner w.snapshot { w with depth := w.depth + 1 } a).depth - 1 = w.depth
    rw [d2']; exact Nat.add_sub_cancel ..

theorem notify_good (fuel : Nat) : ∀ a : α, Good (fun w => notify lib fuel w a) := by
  induction fuel with
  | zero => intro a; exact notifyWith_round lib (inner := fun w _ => w) (fun _ => Good.id) a
  | succ f ih => intro a; exact notifyWith_round lib (inner := notify lib f) ih a

end round

/-! ### top-level operations -/

/-- the monitor state between top-level operations: no callback is running, and what has been destroyed
    does not exist any more and will never come back (ids are not reused) -/
def MonInv (w : World α) (m : Mon) : Prop := m.stack = [] ∧ ∀ i ∈ m.freed, ¬ Alive w i ∧ i < w.counter

structure Top (w w' : World α) : Prop where
  sid : w'.sid = w.sid
  counter : w.counter ≤ w'.counter
  live : ∀ i, i < w.counter → Live w' i → Live w i
  ub : w'.ub = w.ub
  tr : ∃ evs, w'.trace = w.trace ++ evs ∧
        (∀ i a, Ev.enter i a ∈ evs → Live w i ∨ w.counter ≤ i) ∧
        (∀ m, MonInv w m → ∃ m', m.run evs = some m' ∧ MonInv w' m')

theorem Top.refl (w : World α) : Top w w :=
  ⟨rfl, Nat.le_refl _, fun _ _ h => h, rfl, ⟨[], by simp, by simp, fun m hm => ⟨m, rfl, hm⟩⟩⟩

theorem Top.trans {w₁ w₂ w₃ : World α} (h₁ : Top w₁ w₂) (h₂ : Top w₂ w₃) : Top w₁ w₃ := by
  obtain ⟨e₁, t₁, en₁, m₁⟩ := h₁.tr
  obtain ⟨e₂, t₂, en₂, m₂⟩ := h₂.tr
  refine ⟨h₂.sid.trans h₁.sid, Nat.le_trans h₁.counter h₂.counter, ?_, h₂.ub.trans h₁.ub,
          ⟨e₁ ++ e₂, by rw [t₂, t₁, List.append_assoc], ?_, ?_⟩⟩
  · intro i hi h
    exact h₁.live i hi (h₂.live i (Nat.lt_of_lt_of_le hi h₁.counter) h)
  · intro i a he
    rcases List.mem_append.1 he with he | he
    · exact en₁ i a he
    · by_cases hi : i < w₁.counter
      · rcases en₂ i a he with h | h
        · exact Or.inl (h₁.live i hi h)
        · exact absurd (Nat.lt_of_lt_of_le hi h₁.counter) (Nat.not_lt.2 h)
      · exact Or.inr (Nat.le_of_not_lt hi)
  · intro m hm
    obtain ⟨m', r₁, i₁⟩ := m₁ m hm
    obtain ⟨m'', r₂, i₂⟩ := m₂ m' i₁
    exact ⟨m'', by rw [Mon.run_append, r₁]; exact r₂, i₂⟩

/-- a computation that destroys nothing is fine at top level too -/
theorem Ext.toTop {w w' : World α} (h : Ext w w') : Top w w' := by
  obtain ⟨evs, t, acc, al, en⟩ := h.tr
  refine ⟨h.sid, h.counter, h.live, h.ub, ⟨evs, t, en, ?_⟩⟩
  intro m hm
  have hfr : ∀ i ∈ m.freed, ¬ Alive w' i := by
    intro i hi ha
    rcases h.fresh i ha with h' | h'
    · exact (hm.2 i hi).1 h'
    · exact absurd (hm.2 i hi).2 (Nat.not_lt.2 h')
  refine ⟨m, acc m ?_, hm.1, fun i hi => ⟨hfr i hi, Nat.lt_of_lt_of_le (hm.2 i hi).2 h.counter⟩⟩
  intro e he i ht hi
  exact hfr i hi (al e he i ht)

theorem unsubById_top {w : World α} (hw : WF w) (hd : w.depth = 0) (i : Nat) :
    WF (w.unsubscribeById i) ∧ (w.unsubscribeById i).depth = 0 ∧ Top w (w.unsubscribeById i) ∧
    (w.unsubscribeById i).handles = w.handles ∧ (w.unsubscribeById i).sid = w.sid := by
  cases hf : w.obs.find? (fun o => o.id == i) with
  | none =>
    rw [unsubById_none hf]
    have hi : i ∉ ids w.obs := find?_none_id.1 hf
    have ha : ∀ j, j ∈ eraseSet i w.active ↔ j ∈ ids w.obs := by
      intro j
      rw [mem_eraseSet, hw.act]
      exact ⟨fun h => h.1, fun h => ⟨h, fun e => hi (e ▸ h)⟩⟩
    refine ⟨⟨ha, hw.nd, hw.lt, hw.g0, hw.hs⟩, hd, Ext.toTop
            ⟨rfl, Nat.le_refl _, fun _ h => h, fun _ h => Or.inl h, ?_, rfl, ⟨[], by simp, Acc.nil, by simp, by simp⟩⟩, rfl, rfl⟩
    intro j _ h
    obtain ⟨h1, h2⟩ := h
    have h1' : j ∈ eraseSet i w.active := h1
    exact ⟨(mem_eraseSet.1 h1').1, h2⟩
  | some o =>
    rw [unsubById_top_eq hf hd]
    obtain ⟨A, B, eA, eB, hsub⟩ := ids_split hf
    have hoid : o.id = i := (find?_some_id hf).2
    have hg : w.grave = [] := hw.g0 hd
    have hnd : (A ++ i :: B).Nodup := by have := hw.nd_obs; rwa [eA] at this
    have hnd' := (List.perm_middle (l₁ := A) (l₂ := B) (a := i)).nodup_iff.1 hnd
    have hiA : i ∉ A ++ B := (List.nodup_cons.1 hnd').1
    have hal : ∀ j, Alive (({ w with obs := w.obs.eraseP (fun o => o.id == i), active := eraseSet i w.active } : World α).emit (.free o.id)) j
        ↔ Alive w j ∧ j ≠ i := by
      intro j
      unfold Alive
      show j ∈ ids (w.obs.eraseP (fun o => o.id == i)) ∨ j ∈ ids w.grave ↔ _
      rw [eB, eA, hg]
      simp only [List.mem_append, List.mem_cons, ids, List.map_nil, List.not_mem_nil, or_false]
      constructor
      · intro h
        refine ⟨by rcases h with h | h; exact Or.inl h; exact Or.inr (Or.inr h), ?_⟩
        rintro rfl
        exact hiA (List.mem_append.2 h)
      · rintro ⟨h | h | h, hne⟩
        · exact Or.inl h
        · exact absurd h hne
        · exact Or.inr h
    have hali : Alive w i := Or.inl (by rw [eA]; simp)
    refine ⟨⟨?_, ?_, fun j h => hw.lt j ((hal j).1 h).1, fun _ => hg, hw.hs⟩, hd,
            ⟨rfl, Nat.le_refl _, ?_, rfl, ⟨[.free o.id], rfl, by simp, ?_⟩⟩, rfl, rfl⟩
    · intro j
      show j ∈ eraseSet i w.active ↔ j ∈ ids (w.obs.eraseP (fun o => o.id == i))
      rw [mem_eraseSet, hw.act, eB, eA]
      simp only [List.mem_append, List.mem_cons]
      constructor
      · rintro ⟨h | h | h, hne⟩
        · exact Or.inl h
        · exact absurd h hne
        · exact Or.inr h
      · intro h
        refine ⟨by rcases h with h | h; exact Or.inl h; exact Or.inr (Or.inr h), ?_⟩
        rintro rfl
        exact hiA (List.mem_append.2 h)
    · show (ids (w.obs.eraseP (fun o => o.id == i)) ++ ids w.grave).Nodup
      rw [eB, hg]
      simp only [ids, List.map_nil, List.append_nil]
      exact (List.nodup_cons.1 hnd').2
    · intro j _ h
      obtain ⟨h1, o', ho', h3⟩ := h
      have h1' : j ∈ eraseSet i w.active := h1
      exact ⟨(mem_eraseSet.1 h1').1, o', hsub o' ho', h3⟩
    · intro m hm
      have hif : i ∉ m.freed := fun h => (hm.2 i h).1 hali
      refine ⟨{ m with freed := i :: m.freed }, ?_, hm.1, ?_⟩
      · simp only [Mon.run, Mon.step, hoid, hif, hm.1, List.not_mem_nil, or_self, if_false]
      · intro j hj
        rcases List.mem_cons.1 hj with rfl | hj
        · exact ⟨fun h => ((hal _).1 h).2 rfl, hw.lt _ hali⟩
        · exact ⟨fun h => (hm.2 j hj).1 ((hal j).1 h).1, (hm.2 j hj).2⟩

theorem unsubSlot_top {w : World α} (hw : WF w) (hd : w.depth = 0) (hi : Nat) :
    WF (w.unsubSlot hi).1 ∧ (w.unsubSlot hi).1.depth = 0 ∧ Top w (w.unsubSlot hi).1 := by
  unfold World.unsubSlot
  cases hh : w.handles[hi]? with
  | none => exact ⟨hw, hd, Top.refl w⟩
  | some h =>
    simp only []
    unfold World.unsubscribe
    cases hv : w.validId? h with
    | none => exact ⟨hw, hd, Top.refl w⟩
    | some i =>
      obtain ⟨w1, d1, e1, h1, s1⟩ := unsubById_top hw hd i
      refine ⟨w1.setHandles _ ?_, d1, ⟨e1.sid, e1.counter, e1.live, e1.ub, e1.tr⟩⟩
      intro h' hm hs'
      rcases mem_set_null hm with hm | rfl
      · rw [h1] at hm; exact hw.hs h' hm (s1 ▸ hs')
      · rfl

theorem pokeTop_top {w : World α} (hw : WF w) (hd : w.depth = 0) (hi : Nat) (f : Obs → Obs)
    (hid : ∀ o, (f o).id = o.id) (hv : ∀ o, (f o).valid = true → o.valid = true) :
    WF (w.pokeTop hi f).1 ∧ (w.pokeTop hi f).1.depth = 0 ∧ Top w (w.pokeTop hi f).1 := by
  unfold World.pokeTop
  cases hh : w.handles[hi]? with
  | none => exact ⟨hw, hd, Top.refl w⟩
  | some h =>
    simp only []
    cases hval : w.validId? h with
    | none => exact ⟨hw, hd, Top.refl w⟩
    | some i =>
      cases hob : h.obs with
      | none => exact ⟨hw, hd, Top.refl w⟩
      | some p =>
        simp only []
        obtain ⟨hs, hid', hact⟩ := validId?_some hval
        have hm : h ∈ w.handles := List.mem_of_getElem? hh
        have : h.obs = h.id := hw.hs h hm hs
        rw [hob, hid'] at this
        have hpi : p = i := Option.some.inj this
        subst hpi
        have hp : Alive w _ := Or.inl ((hw.act _).1 hact)
        obtain ⟨a, b, c, _⟩ := poke_spec hw hp f hid hv
        exact ⟨a, b.trans hd, c.toTop⟩

theorem mem_moveHandle {hs : List Handle} {d s : Nat} {h : Handle} (hm : h ∈ moveHandle hs d s) : h ∈ hs := by
  unfold moveHandle at hm
  cases hd : hs[d]? with
  | none => rw [hd] at hm; exact hm
  | some x =>
    cases hsrc : hs[s]? with
    | none => rw [hd, hsrc] at hm; exact hm
    | some y =>
      rw [hd, hsrc] at hm
      simp only [] at hm
      by_cases e : d = s
      · rw [if_pos e] at hm; exact hm
      · rw [if_neg e] at hm
        rcases List.mem_or_eq_of_mem_set hm with hm | rfl
        · rcases List.mem_or_eq_of_mem_set hm with hm | rfl
          · exact hm
          · exact List.mem_of_getElem? hsrc
        · exact List.mem_of_getElem? hd

theorem mem_moveHandleNew {hs : List Handle} {s : Nat} {h : Handle} (hm : h ∈ moveHandleNew hs s) :
    h ∈ hs ∨ h = Handle.null := by
  unfold moveHandleNew at hm
  cases hsrc : hs[s]? with
  | none => rw [hsrc] at hm; exact Or.inl hm
  | some y =>
    rw [hsrc] at hm
    simp only [] at hm
    rcases List.mem_append.1 hm with hm | hm
    · exact mem_set_null hm
    · simp only [List.mem_singleton] at hm; subst hm; exact Or.inl (List.mem_of_getElem? hsrc)

/-- the destructions at the end of the outermost `notify` -/
theorem run_frees (g : List Nat) : ∀ m : Mon, m.stack = [] → (∀ i ∈ g, i ∉ m.freed) → g.Nodup →
    ∃ m', m.run (g.map (Ev.free : Nat → Ev α)) = some m' ∧ m'.stack = [] ∧ ∀ j, j ∈ m'.freed ↔ j ∈ g ∨ j ∈ m.freed := by
  induction g with
  | nil => intro m hs _ _; exact ⟨m, rfl, hs, by simp⟩
  | cons x g ih =>
    intro m hs hfr hnd
    rw [List.nodup_cons] at hnd
    have hx : x ∉ m.freed := hfr x (by simp)
    obtain ⟨m', r, s', f'⟩ := ih { m with freed := x :: m.freed } hs
      (by intro i hi h; rcases List.mem_cons.1 h with rfl | h
          · exact hnd.1 hi
          · exact hfr i (List.mem_cons_of_mem _ hi) h) hnd.2
    refine ⟨m', ?_, s', ?_⟩
    · have hxs : x ∉ m.stack := by rw [hs]; simp
      simp only [List.map_cons, Mon.run, Mon.step, hx, hxs, or_self, if_false]
      exact r
    · intro j
      rw [f']
      simp only [List.mem_cons]
      constructor
      · rintro (h | h | h)
        · exact Or.inl (Or.inr h)
        · exact Or.inl (Or.inl h)
        · exact Or.inr h
      · rintro ((h | h) | h)
        · exact Or.inr (Or.inl h)
        · exact Or.inl h
        · exact Or.inr (Or.inr h)

theorem notify_unfold (lib : Nat → List Action) (fuel : Nat) :
    ∃ inner : World α → α → World α, (∀ a, Good (fun w => inner w a)) ∧ notify lib fuel = notifyWith lib inner := by
  cases fuel with
  | zero => exact ⟨fun w _ => w, fun _ => Good.id, rfl⟩
  | succ f => exact ⟨notify lib f, notify_good lib f, rfl⟩

/-- the outermost `notify`: afterwards nothing is parked, everything removed during the round is destroyed -/
theorem notify_top (lib : Nat → List Action) (fuel : Nat) {w : World α} (hw : WF w) (hd : w.depth = 0) (a : α) :
    WF (notify lib fuel w a) ∧ (notify lib fuel w a).depth = 0 ∧ Top w (notify lib fuel w a) := by
  obtain ⟨inner, hin, e⟩ := notify_unfold (α := α) lib fuel
  rw [e]
  obtain ⟨w2, d2, e2⟩ := round_round lib hin a w.snapshot (w := { w with depth := w.depth + 1 }) hw.bump (Nat.succ_pos _)
  have d2' : (round lib inner w.snapshot { w with depth := w.depth + 1 } a).depth = 1 := by rw [d2]; show w.depth + 1 = 1; rw [hd]
  have h0 : (round lib inner w.snapshot { w with depth := w.depth + 1 } a).depth - 1 = 0 := by rw [d2']
  unfold notifyWith
  simp only [h0, if_true]
  generalize hR : round lib inner w.snapshot { w with depth := w.depth + 1 } a = R at w2 d2 e2 d2' h0
  obtain ⟨evs, t, acc, al, en⟩ := e2.tr
  have hndR := List.nodup_append.1 w2.nd
  refine ⟨⟨w2.act, ?_, ?_, fun _ => rfl, w2.hs⟩, rfl, ⟨e2.sid, e2.counter, e2.live, e2.ub, ?_⟩⟩
  · show (ids R.obs ++ ids []).Nodup
    simp only [ids, List.map_nil, List.append_nil]
    exact hndR.1
  · intro i h
    refine w2.lt i ?_
    rcases h with h | h
    · exact Or.inl h
    · exact absurd h (by simp [ids, World.clearGrave])
  · refine ⟨evs ++ (ids R.grave).map Ev.free, ?_, ?_, ?_⟩
    · show R.trace ++ (ids R.grave).map Ev.free = w.trace ++ (evs ++ (ids R.grave).map Ev.free)
      rw [t]; show (w.trace ++ evs) ++ _ = _; rw [List.append_assoc]
    · intro i b he
      rcases List.mem_append.1 he with he | he
      · exact en i b he
      · simp at he
    · intro m hm
      have hfr : ∀ i ∈ m.freed, ¬ Alive R i := by
        intro i hi ha
        rcases e2.fresh i ha with h' | h'
        · exact (hm.2 i hi).1 h'
        · exact absurd (hm.2 i hi).2 (Nat.not_lt.2 h')
      have r1 : m.run evs = some m := acc m (fun e he i ht hi => hfr i hi (al e he i ht))
      obtain ⟨m', r2, s2, f2⟩ := run_frees (α := α) (ids R.grave) m hm.1 (fun i hi h => hfr i h (Or.inr hi)) hndR.2.1
      refine ⟨m', by rw [Mon.run_append, r1]; exact r2, s2, ?_⟩
      intro j hj
      have hc : j < R.counter := by
        rcases (f2 j).1 hj with h | h
        · exact w2.lt j (Or.inr h)
        · exact Nat.lt_of_lt_of_le (hm.2 j h).2 e2.counter
      refine ⟨?_, hc⟩
      intro ha
      rcases ha with ha | ha
      · rcases (f2 j).1 hj with h | h
        · exact hndR.2.2 j ha j h rfl
        · exact hfr j h (Or.inl ha)
      · exact absurd ha (by simp [ids, World.clearGrave])

theorem Top.setHandles (w : World α) (l : List Handle) : Top w ({ w with handles := l } : World α) :=
  ⟨rfl, Nat.le_refl _, fun _ _ h => h, rfl, ⟨[], by simp, by simp, fun m hm => ⟨m, rfl, hm⟩⟩⟩

/-- every top-level operation keeps the world consistent, at depth 0, and is accepted by the monitor -/
theorem step_top (lib : Nat → List Action) {w : World α} (hw : WF w) (hd : w.depth = 0) (op : Op α) :
    WF (step lib w op).1 ∧ (step lib w op).1.depth = 0 ∧ Top w (step lib w op).1 := by
  cases op with
  | sub script m0 =>
    obtain ⟨a, b, c⟩ := subscribeSlot_spec hw script m0
    exact ⟨a, b.trans hd, c.toTop⟩
  | unsubS hi =>
    simp only [step]
    cases hh : w.handles[hi]? with
    | none => exact ⟨hw, hd, Top.refl w⟩
    | some h => exact unsubSlot_top hw hd hi
  | unsubH hi =>
    simp only [step]
    cases hh : w.handles[hi]? with
    | none => exact ⟨hw, hd, Top.refl w⟩
    | some h =>
      simp only []
      by_cases hs : h.subj = some w.sid
      · rw [if_pos hs]; exact unsubSlot_top hw hd hi
      · rw [if_neg hs]; exact ⟨hw, hd, Top.refl w⟩
  | mute hi => exact pokeTop_top hw hd hi _ (setMuted_id true) (setMuted_valid true)
  | unmute hi => exact pokeTop_top hw hd hi _ (setMuted_id false) (setMuted_valid false)
  | inval hi => exact pokeTop_top hw hd hi _ setInvalid_id setInvalid_valid
  | hmove d s =>
    exact ⟨hw.setHandles _ (fun h hm hs => hw.hs h (mem_moveHandle hm) hs), hd, Top.setHandles w _⟩
  | hmoveNew s =>
    refine ⟨hw.setHandles _ ?_, hd, Top.setHandles w _⟩
    intro h hm hs
    rcases mem_moveHandleNew hm with hm | rfl
    · exact hw.hs h hm hs
    · rfl
  | notify fuel a => exact notify_top lib fuel hw hd a

theorem run_top (lib : Nat → List Action) (ops : List (Op α)) :
    ∀ {w : World α}, WF w → w.depth = 0 → WF (run lib w ops) ∧ (run lib w ops).depth = 0 ∧ Top w (run lib w ops) := by
  induction ops with
  | nil => intro w hw hd; exact ⟨hw, hd, Top.refl w⟩
  | cons op ops ih =>
    intro w hw hd
    obtain ⟨w1, d1, t1⟩ := step_top lib hw hd op
    obtain ⟨w2, d2, t2⟩ := ih w1 d1
    exact ⟨w2, d2, t1.trans t2⟩

theorem evsSince_of_trace {w w' : World α} {evs : List (Ev α)} (h : w'.trace = w.trace ++ evs) : evsSince w w' = evs := by
  unfold evsSince; rw [h]; simp

end Tulz.Subject
