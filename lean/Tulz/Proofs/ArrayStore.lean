import Tulz.Proofs.Array
/-
  Part 3 of the C14 lemmas: variable slots, the heap of block identities, the store invariant,
  and `AStore.step` against `Spec.step`.
-/
namespace Tulz
set_option linter.unusedSectionVars false
variable {α : Type}

namespace Slots
variable {β : Type}

@[simp] theorem length_put (s : Slots β) (i : Nat) (v : β) : (s.put i v).length = s.length := by simp [put]
@[simp] theorem length_del (s : Slots β) (i : Nat) : (s.del i).length = s.length := by simp [del]

theorem find_get {s : Slots β} {i : Nat} {v : β} (h : s.find i = some v) : s[i]? = some (some v) := by
  unfold find at h
  cases hg : s[i]? with
  | none => simp [hg] at h
  | some o => cases o with
    | none => simp [hg] at h
    | some w => simp [hg] at h; simp [h]

theorem find_lt {s : Slots β} {i : Nat} {v : β} (h : s.find i = some v) : i < s.length := by
  have := find_get h
  exact (List.getElem?_eq_some_iff.mp this).1

theorem isFree_get {s : Slots β} {i : Nat} (h : s.isFree i = true) : s[i]? = some none := by
  unfold isFree at h
  split at h
  · assumption
  · exact absurd h (by simp)

theorem isFree_lt {s : Slots β} {i : Nat} (h : s.isFree i = true) : i < s.length :=
  (List.getElem?_eq_some_iff.mp (isFree_get h)).1

theorem isFree_find {s : Slots β} {i : Nat} (h : s.isFree i = true) : s.find i = none := by
  simp [find, isFree_get h]

theorem isFree_of_get {s : Slots β} {i : Nat} (h : s[i]? = some none) : s.isFree i = true := by
  simp [isFree, h]

theorem find_put_self (s : Slots β) (i : Nat) (v : β) (h : i < s.length) : (s.put i v).find i = some v := by
  simp [find, put, h]

theorem find_put_ne (s : Slots β) (i j : Nat) (v : β) (h : j ≠ i) : (s.put i v).find j = s.find j := by
  simp [find, put, List.getElem?_set_ne (Ne.symm h)]

theorem find_del_self (s : Slots β) (i : Nat) : (s.del i).find i = none := by
  by_cases h : i < s.length <;> simp [find, del, h]

theorem find_del_ne (s : Slots β) (i j : Nat) (h : j ≠ i) : (s.del i).find j = s.find j := by
  simp [find, del, List.getElem?_set_ne (Ne.symm h)]

theorem get_put_ne (s : Slots β) (i j : Nat) (v : β) (h : j ≠ i) : (s.put i v)[j]? = s[j]? := by
  simp [put, List.getElem?_set_ne (Ne.symm h)]

theorem get_put_self (s : Slots β) (i : Nat) (v : β) (h : i < s.length) : (s.put i v)[i]? = some (some v) := by
  simp [put, h]

/-- replacing slot `i`: what is gathered changes by exactly the old and the new occupant -/
theorem count_gather_set {γ : Type} [DecidableEq γ] (f : β → List γ) (s : Slots β) (i : Nat)
    (o x : Option β) (h : s[i]? = some o) (c : γ) :
    (gather f (s.set i x)).count c + (optList f o).count c
      = (gather f s).count c + (optList f x).count c := by
  induction s generalizing i with
  | nil => simp at h
  | cons a t ih =>
    cases i with
    | zero =>
      simp at h; subst h
      simp [gather, List.count_append]; omega
    | succ i =>
      have h' : t[i]? = some o := by simpa using h
      have := ih i h'
      simp [gather, List.count_append] at this ⊢; omega

theorem gather_map {γ δ : Type} (f : δ → List γ) (g : β → δ) (s : Slots β) :
    gather f (s.map (Option.map g)) = gather (fun v => f (g v)) s := by
  induction s with
  | nil => rfl
  | cons a t ih =>
    simp only [gather, List.map_cons, List.flatMap_cons] at ih ⊢
    rw [ih]; cases a <;> rfl

theorem gather_nil_of_all_none {γ : Type} (f : β → List γ) (s : Slots β) (h : ∀ i, s.find i = none) :
    gather f s = [] := by
  induction s with
  | nil => rfl
  | cons a t ih =>
    have h0 := h 0
    have ht : ∀ i, find t i = none := fun i => by simpa [find] using h (i + 1)
    cases a with
    | some v => simp [find] at h0
    | none => simp only [gather, List.flatMap_cons, optList, List.nil_append]; exact ih ht

end Slots

/-! ### the heap of block identities -/

/-- every id handed out so far is either allocated or was freed exactly once; nothing else is known -/
def HeapInv (h : Heap) : Prop :=
  ∀ b, h.owned.count b + h.freed.count b = if b < h.next then 1 else 0

namespace Heap

theorem inv_empty : HeapInv Heap.empty := by intro b; simp [Heap.empty]

theorem alloc_spec (h : Heap) (hi : HeapInv h) :
    HeapInv h.alloc.1 ∧ h.alloc.2 = h.next ∧
    ∀ b, h.alloc.1.owned.count b = h.owned.count b + (some h.next).toList.count b := by
  refine ⟨?_, rfl, ?_⟩
  · intro b
    have := hi b
    simp only [alloc, List.count_cons]
    by_cases hb : b = h.next
    · subst hb; simp at this ⊢; omega
    · have : (h.next == b) = false := by simp; omega
      simp [this]
      by_cases h1 : b < h.next
      · have h2 : b < h.next + 1 := by omega
        simp [h1, h2] at *; omega
      · have h2 : ¬ b < h.next + 1 := by omega
        simp [h1, h2] at *; omega
  · intro b; simp [alloc, List.count_cons]

theorem free_spec (h : Heap) (hi : HeapInv h) (p : Option Nat)
    (hp : ∀ b, p = some b → 0 < h.owned.count b) :
    ∃ h', h.free p = .ok h' ∧ HeapInv h' ∧ h'.next = h.next ∧
      ∀ b, h'.owned.count b + p.toList.count b = h.owned.count b := by
  cases p with
  | none => exact ⟨h, rfl, hi, rfl, by simp⟩
  | some c =>
    have hc : c ∈ h.owned := List.count_pos_iff.mp (hp c rfl)
    refine ⟨{ h with owned := h.owned.erase c, freed := c :: h.freed }, by simp [free, hc], ?_, rfl, ?_⟩
    · intro b
      have := hi b
      have hpos := hp c rfl
      by_cases hb : b = c
      · subst hb; simp [List.count_erase_self] at this ⊢; omega
      · have h1 : (h.owned.erase c).count b = h.owned.count b := List.count_erase_of_ne hb
        have h2 : (c == b) = false := by simp; omega
        simp [h1, List.count_cons, h2]; exact this
    · intro b
      have hpos := hp c rfl
      by_cases hb : b = c
      · subst hb; simp [List.count_erase_self]; omega
      · have h1 : (h.owned.erase c).count b = h.owned.count b := List.count_erase_of_ne hb
        have h2 : (c == b) = false := by simp; omega
        simp [h1, List.count_cons, h2]

theorem realloc_spec (h : Heap) (hi : HeapInv h) (p : Option Nat) (n : Nat)
    (hp : ∀ b, p = some b → 0 < h.owned.count b) :
    ∃ h' p', h.realloc p n = .ok (h', p') ∧ HeapInv h' ∧ (p' = none → n = 0) ∧
      ∀ b, h'.owned.count b + p.toList.count b = h.owned.count b + p'.toList.count b := by
  cases p with
  | none =>
    obtain ⟨h1, _, h3⟩ := alloc_spec h hi
    exact ⟨h.alloc.1, some h.alloc.2, rfl, h1, by simp, by intro b; simpa [alloc] using h3 b⟩
  | some c =>
    obtain ⟨h1, hf, hi1, hn1, hc1⟩ := free_spec h hi (some c) hp
    by_cases hn : n = 0
    · exact ⟨h1, none, by simp [realloc, hf, hn], hi1, fun _ => hn, by intro b; simpa using hc1 b⟩
    · obtain ⟨a1, _, a3⟩ := alloc_spec h1 hi1
      refine ⟨h1.alloc.1, some h1.alloc.2, by simp [realloc, hf, hn], a1, by simp, ?_⟩
      intro b
      have := hc1 b; have := a3 b
      simp [alloc] at *; omega

end Heap

/-! ### the store invariant -/

/-- a variable is well formed: its storage represents its contents (no moved-from shells), a class
    type has every element alive, a null pointer goes with size 0 -/
structure VarOK (cls : Bool) (v : AVar α) : Prop where
  rep : v.arr.data = ofSpec v.arr.contents
  allLive : cls = true → Spec.full v.arr.contents
  nullEmpty : v.blk = none → v.arr.contents = []

theorem VarOK.of_spec (cls : Bool) (b : Option Nat) (l : List (Option α))
    (hf : cls = true → Spec.full l) (hn : b = none → l = []) : VarOK cls ⟨b, ⟨ofSpec l⟩⟩ :=
  ⟨by simp, by simpa using hf, by simpa using hn⟩

theorem VarOK.arr_eq {cls : Bool} {v : AVar α} (h : VarOK cls v) : v.arr = ⟨ofSpec v.arr.contents⟩ := by
  cases v with | mk b a => cases a with | mk d => simpa using h.rep

/-- the block a variable points to, as a list -/
abbrev blkOf (v : AVar α) : List Nat := v.blk.toList

structure Inv (cls : Bool) (s : AStore α) : Prop where
  vars : ∀ i v, s.vars.find i = some v → VarOK cls v
  heap : HeapInv s.heap
  own : ∀ b, s.blocks.count b = s.heap.owned.count b

namespace AStore
variable [Inhabited α]

theorem inv_init (cls : Bool) (nv : Nat) : Inv cls (AStore.init nv : AStore α) := by
  refine ⟨?_, Heap.inv_empty, ?_⟩
  · intro i v h
    simp [init, Slots.find, List.getElem?_replicate] at h
    split at h <;> simp at h
  · intro b
    have : (AStore.init nv : AStore α).blocks = [] := by
      apply Slots.gather_nil_of_all_none
      intro i
      simp [init, Slots.find, List.getElem?_replicate]
      split <;> simp
    rw [this]; simp [init, Heap.empty]

theorem abs_put (s : AStore α) (i : Nat) (v : AVar α) (h' : Heap) :
    (⟨s.vars.put i v, h'⟩ : AStore α).abs = s.abs.put i v.arr.contents := by
  simp [abs, Slots.put, List.map_set]

theorem abs_del (s : AStore α) (i : Nat) (h' : Heap) :
    (⟨s.vars.del i, h'⟩ : AStore α).abs = s.abs.del i := by
  simp [abs, Slots.del, List.map_set]

theorem abs_find (s : AStore α) (i : Nat) :
    s.abs.find i = (s.vars.find i).map (fun v => v.arr.contents) := by
  simp only [abs, Slots.find, List.getElem?_map]
  cases s.vars[i]? with
  | none => rfl
  | some o => cases o <;> rfl

theorem abs_isFree (s : AStore α) (i : Nat) : s.abs.isFree i = s.vars.isFree i := by
  simp only [abs, Slots.isFree, List.getElem?_map]
  cases s.vars[i]? with
  | none => rfl
  | some o => cases o <;> rfl

theorem abs_find_some {s : AStore α} {i : Nat} {l : List (Option α)} (h : s.abs.find i = some l) :
    ∃ v, s.vars.find i = some v ∧ v.arr.contents = l := by
  rw [abs_find] at h
  cases hv : s.vars.find i with
  | none => simp [hv] at h
  | some v => exact ⟨v, rfl, by simpa [hv] using h⟩

theorem abs_length (s : AStore α) : s.abs.length = s.vars.length := by simp [abs]

theorem count_le_blocks {s : AStore α} {i : Nat} {v : AVar α} (h : s.vars.find i = some v) (c : Nat) :
    (blkOf v).count c ≤ s.blocks.count c := by
  have := Slots.count_gather_set (fun v : AVar α => v.blk.toList) s.vars i (some v) none (Slots.find_get h) c
  simp [Slots.optList] at this
  simp only [blocks, blkOf]; omega

theorem owned_of_find {cls : Bool} {s : AStore α} (hinv : Inv cls s) {i : Nat} {v : AVar α}
    (h : s.vars.find i = some v) : ∀ b, v.blk = some b → 0 < s.heap.owned.count b := by
  intro b hb
  have h1 := count_le_blocks h b
  rw [hinv.own b] at h1
  have h2 : (blkOf v).count b = 1 := by simp [blkOf, hb]
  omega

/-- overwrite slot `i` (occupied or empty) with a well-formed variable, with matching block accounting -/
theorem inv_put {cls : Bool} {s : AStore α} (hinv : Inv cls s) (i : Nat) (o : Option (AVar α))
    (hget : s.vars[i]? = some o) (v : AVar α) (h' : Heap) (hok : VarOK cls v) (hh : HeapInv h')
    (hcount : ∀ b, h'.owned.count b + (Slots.optList blkOf o).count b
                    = s.heap.owned.count b + (blkOf v).count b) :
    Inv cls ⟨s.vars.put i v, h'⟩ := by
  have hi : i < s.vars.length := (List.getElem?_eq_some_iff.mp hget).1
  refine ⟨?_, hh, ?_⟩
  · intro j w hj
    by_cases hji : j = i
    · subst hji
      rw [Slots.find_put_self _ _ _ hi] at hj
      cases hj; exact hok
    · rw [Slots.find_put_ne _ _ _ _ hji] at hj
      exact hinv.vars j w hj
  · intro b
    have h1 := Slots.count_gather_set (fun v : AVar α => v.blk.toList) s.vars i o (some v) hget b
    have h2 := hinv.own b
    have h3 := hcount b
    simp only [blocks, Slots.put, blkOf, Slots.optList] at *
    omega

theorem inv_del {cls : Bool} {s : AStore α} (hinv : Inv cls s) (i : Nat) (v : AVar α)
    (hf : s.vars.find i = some v) (h' : Heap) (hh : HeapInv h')
    (hcount : ∀ b, h'.owned.count b + (blkOf v).count b = s.heap.owned.count b) :
    Inv cls ⟨s.vars.del i, h'⟩ := by
  refine ⟨?_, hh, ?_⟩
  · intro j w hj
    by_cases hji : j = i
    · subst hji; rw [Slots.find_del_self] at hj; cases hj
    · rw [Slots.find_del_ne _ _ _ hji] at hj
      exact hinv.vars j w hj
  · intro b
    have h1 := Slots.count_gather_set (fun v : AVar α => v.blk.toList) s.vars i (some v) none (Slots.find_get hf) b
    have h2 := hinv.own b
    have h3 := hcount b
    simp only [blocks, Slots.del, blkOf, Slots.optList, List.count_nil] at *
    omega

/-- overwrite two different slots, heap untouched, blocks only change hands -/
theorem inv_put2 {cls : Bool} {s : AStore α} (hinv : Inv cls s) (i j : Nat) (hij : i ≠ j)
    (oi oj : Option (AVar α)) (hgi : s.vars[i]? = some oi) (hgj : s.vars[j]? = some oj)
    (vi vj : AVar α) (hoki : VarOK cls vi) (hokj : VarOK cls vj)
    (hcount : ∀ b, (Slots.optList blkOf oi).count b + (Slots.optList blkOf oj).count b
                    = (blkOf vi).count b + (blkOf vj).count b) :
    Inv cls ⟨(s.vars.put i vi).put j vj, s.heap⟩ := by
  have hi : i < s.vars.length := (List.getElem?_eq_some_iff.mp hgi).1
  have hj : j < s.vars.length := (List.getElem?_eq_some_iff.mp hgj).1
  refine ⟨?_, hinv.heap, ?_⟩
  · intro k w hk
    by_cases hkj : k = j
    · subst hkj
      rw [Slots.find_put_self _ _ _ (by simpa using hj)] at hk
      cases hk; exact hokj
    · rw [Slots.find_put_ne _ _ _ _ hkj] at hk
      by_cases hki : k = i
      · subst hki
        rw [Slots.find_put_self _ _ _ hi] at hk
        cases hk; exact hoki
      · rw [Slots.find_put_ne _ _ _ _ hki] at hk
        exact hinv.vars k w hk
  · intro b
    have hgj' : (s.vars.put i vi)[j]? = some oj := by rw [Slots.get_put_ne _ _ _ _ (Ne.symm hij)]; exact hgj
    have h1 := Slots.count_gather_set (fun v : AVar α => v.blk.toList) s.vars i oi (some vi) hgi b
    have h2 := Slots.count_gather_set (fun v : AVar α => v.blk.toList) (s.vars.put i vi) j oj (some vj) hgj' b
    have h3 := hinv.own b
    have h4 := hcount b
    simp only [blocks, Slots.put, blkOf, Slots.optList] at *
    omega

theorem abs_put2 (s : AStore α) (i j : Nat) (vi vj : AVar α) (h' : Heap) :
    (⟨(s.vars.put i vi).put j vj, h'⟩ : AStore α).abs = (s.abs.put i vi.arr.contents).put j vj.arr.contents := by
  simp [abs, Slots.put, List.map_set]

theorem construct_refines {cls : Bool} {s : AStore α} (hinv : Inv cls s) (id : Nat)
    (hfree : s.vars.isFree id = true) (l : List (Option α)) (hf : cls = true → Spec.full l) :
    Inv cls (s.construct id ⟨ofSpec l⟩) ∧ (s.construct id ⟨ofSpec l⟩).abs = s.abs.put id l := by
  obtain ⟨a1, a2, a3⟩ := Heap.alloc_spec s.heap hinv.heap
  constructor
  · apply inv_put hinv id none (Slots.isFree_get hfree)
    · exact VarOK.of_spec cls _ l hf (by simp)
    · exact a1
    · intro b; have := a3 b; simp [Slots.optList, blkOf, Heap.alloc] at *; omega
  · simp [construct, abs_put]

theorem update_refines {cls : Bool} {s : AStore α} (hinv : Inv cls s) {id : Nat} {v : AVar α}
    (hfv : s.vars.find id = some v) (p' : Option Nat) (l' : List (Option α)) (h' : Heap)
    (hf : cls = true → Spec.full l') (hnull : p' = none → l' = []) (hh : HeapInv h')
    (hcnt : ∀ b, h'.owned.count b + (blkOf v).count b = s.heap.owned.count b + p'.toList.count b) :
    Inv cls ⟨s.vars.put id ⟨p', ⟨ofSpec l'⟩⟩, h'⟩ ∧
    (⟨s.vars.put id ⟨p', ⟨ofSpec l'⟩⟩, h'⟩ : AStore α).abs = s.abs.put id l' := by
  constructor
  · apply inv_put hinv id (some v) (Slots.find_get hfv)
    · exact VarOK.of_spec cls p' l' hf hnull
    · exact hh
    · intro b; have := hcnt b; simp [Slots.optList, blkOf] at *; omega
  · simp [abs_put]

theorem release_spec (cls : Bool) (h : Heap) (hi : HeapInv h) (d : AVar α) (hok : VarOK cls d)
    (hown : ∀ b, d.blk = some b → 0 < h.owned.count b) :
    ∃ h', release cls h d = .ok h' ∧ HeapInv h' ∧ h'.next = h.next ∧
      ∀ b, h'.owned.count b + (blkOf d).count b = h.owned.count b := by
  obtain ⟨dd, hd, hl⟩ := Arr.destroyAll_spec cls d.arr.contents hok.allLive
  rw [← hok.arr_eq] at hd
  obtain ⟨h', hf, hi', hn', hc'⟩ := Heap.free_spec h hi d.blk hown
  refine ⟨h', ?_, hi', hn', hc'⟩
  cases cls with
  | false => simp [release, hd, hf]
  | true => simp [release, hd, hl rfl, hf]

theorem put_self {β : Type} {s : Slots β} {i : Nat} {v : β} (h : s.find i = some v) : s.put i v = s := by
  have hg := Slots.find_get h
  apply List.ext_getElem?
  intro k
  by_cases hk : k = i
  · subst hk; rw [Slots.get_put_self _ _ _ (Slots.find_lt h), hg]
  · rw [Slots.get_put_ne _ _ _ _ hk]

/-- what `step_refines` establishes for one operation -/
def Refines (cls : Bool) (s : AStore α) (op : AOp α) : Prop :=
  ∃ s', step cls s op = .ok (s', (Spec.step cls s.abs op).2) ∧ Inv cls s' ∧ s'.abs = (Spec.step cls s.abs op).1

theorem free_of_abs {s : AStore α} {i : Nat} (h : s.abs.isFree i = true) : s.vars.isFree i = true := by
  rw [← abs_isFree]; exact h

/-- a constructor that allocates -/
theorem ctor_refines {cls : Bool} {s : AStore α} (hinv : Inv cls s) (op : AOp α) (id : Nat)
    (hfree : s.abs.isFree id = true) (l : List (Option α)) (hf : cls = true → Spec.full l)
    (hstep : step cls s op = .ok (s.construct id ⟨ofSpec l⟩, .unit))
    (hspec : Spec.step cls s.abs op = (s.abs.put id l, .unit)) : Refines cls s op := by
  obtain ⟨h1, h2⟩ := construct_refines hinv id (free_of_abs hfree) l hf
  exact ⟨_, by rw [hstep, hspec], h1, by rw [h2, hspec]⟩

theorem full_replicate_dfl (cls : Bool) (n : Nat) : cls = true → Spec.full (List.replicate n (Spec.dfl cls : Option α)) := by
  intro hc x hx
  simp [List.mem_replicate] at hx
  simp [hx.2, Spec.dfl, hc]

theorem full_resized {l : List (Option α)} {f : Option α} (n : Nat) (hl : Spec.full l) (hf : f ≠ none) :
    Spec.full (Spec.resized l n f) := by
  intro x hx
  simp only [Spec.resized, List.mem_append, List.mem_replicate] at hx
  rcases hx with hx | hx
  · exact hl x (List.mem_of_mem_take hx)
  · rw [hx.2]; exact hf

theorem resized_zero (l : List (Option α)) (f : Option α) : Spec.resized l 0 f = [] := by
  simp [Spec.resized]

theorem full_set {l : List (Option α)} (i : Nat) (v : α) (hl : Spec.full l) : Spec.full (l.set i (some v)) := by
  intro x hx
  rcases List.mem_or_eq_of_mem_set hx with h | h
  · exact hl x h
  · simp [h]

/-- an operation that updates one variable in place, possibly reallocating -/
theorem upd_refines {cls : Bool} {s : AStore α} (hinv : Inv cls s) (op : AOp α) {id : Nat} {v : AVar α}
    (hfv : s.vars.find id = some v) (p' : Option Nat) (l' : List (Option α)) (h' : Heap)
    (hf : cls = true → Spec.full l') (hnull : p' = none → l' = []) (hh : HeapInv h')
    (hcnt : ∀ b, h'.owned.count b + (blkOf v).count b = s.heap.owned.count b + p'.toList.count b)
    (hstep : step cls s op = .ok (⟨s.vars.put id ⟨p', ⟨ofSpec l'⟩⟩, h'⟩, .unit))
    (hspec : Spec.step cls s.abs op = (s.abs.put id l', .unit)) : Refines cls s op := by
  obtain ⟨h1, h2⟩ := update_refines hinv hfv p' l' h' hf hnull hh hcnt
  exact ⟨_, by rw [hstep, hspec], h1, by rw [h2, hspec]⟩

/-- an operation that only looks -/
theorem query_refines {cls : Bool} {s : AStore α} (hinv : Inv cls s) (op : AOp α) (out : AOut α)
    (hstep : step cls s op = .ok (s, out)) (hspec : Spec.step cls s.abs op = (s.abs, out)) : Refines cls s op :=
  ⟨s, by rw [hstep, hspec], hinv, by rw [hspec]⟩

theorem step_refines (cls : Bool) (s : AStore α) (op : AOp α) (hinv : Inv cls s)
    (hv : Spec.valid s.abs op) : Refines cls s op := by
  cases op with
  | ptr id src n =>
    obtain ⟨hfree, hn⟩ := hv
    exact ctor_refines hinv _ id hfree _ (fun _ => full_map_some _)
      (by simp [step, fresh, free_of_abs hfree, Arr.ofPtr_spec cls src n hn]) rfl
  | init id vs =>
    exact ctor_refines hinv _ id hv _ (fun _ => full_map_some _)
      (by simp [step, fresh, free_of_abs hv, Arr.ofInit_spec]) rfl
  | size id n =>
    exact ctor_refines hinv _ id hv _ (full_replicate_dfl cls n)
      (by simp [step, fresh, free_of_abs hv, Arr.ofSize_spec]) rfl
  | fill id n v =>
    have hfull : Spec.full (List.replicate n (some v)) := by
      intro x hx; simp [List.mem_replicate] at hx; simp [hx.2]
    exact ctor_refines hinv _ id hv _ (fun _ => hfull)
      (by simp [step, fresh, free_of_abs hv, Arr.ofFill_spec]) rfl
  | dflt id =>
    have hfree := free_of_abs hv
    refine ⟨⟨s.vars.put id ⟨none, Arr.empty⟩, s.heap⟩, by simp [step, fresh, hfree, Spec.step], ?_, ?_⟩
    · apply inv_put hinv id none (Slots.isFree_get hfree)
      · exact VarOK.of_spec cls none [] (fun _ x hx => by simp at hx) (fun _ => rfl)
      · exact hinv.heap
      · intro b; simp [Slots.optList, blkOf]
    · simp [abs_put, Spec.step, Arr.empty, Arr.contents]
  | copy dst src =>
    obtain ⟨hfree, l, hl⟩ := hv
    obtain ⟨v, hfv, hc⟩ := abs_find_some hl
    have hok := hinv.vars src v hfv
    have harr : v.arr = ⟨ofSpec l⟩ := by rw [← hc]; exact hok.arr_eq
    have hfl : cls = true → Spec.full l := by rw [← hc]; exact hok.allLive
    exact ctor_refines hinv _ dst hfree l hfl
      (by simp [step, fresh, free_of_abs hfree, need, hfv, harr, Arr.copyOf_spec cls l hfl])
      (by simp [Spec.step, hl])
  | mctor dst src =>
    obtain ⟨hfree, l, hl⟩ := hv
    obtain ⟨v, hfv, hc⟩ := abs_find_some hl
    have hfree' := free_of_abs hfree
    have hne : src ≠ dst := by
      intro h; subst h
      rw [Slots.isFree_find hfree'] at hfv; cases hfv
    refine ⟨⟨(s.vars.put src ⟨none, Arr.empty⟩).put dst v, s.heap⟩,
      by simp [step, fresh, hfree', need, hfv, Spec.step, hl], ?_, ?_⟩
    · apply inv_put2 hinv src dst hne (some v) none (Slots.find_get hfv) (Slots.isFree_get hfree')
      · exact VarOK.of_spec cls none [] (fun _ x hx => by simp at hx) (fun _ => rfl)
      · exact hinv.vars src v hfv
      · intro b; simp [Slots.optList, blkOf]
    · have he : (Arr.empty : Arr α).contents = [] := rfl
      simp [abs_put2, Spec.step, hl, hc, he]
  | cassign dst src =>
    obtain ⟨⟨ld, hld⟩, ls, hls⟩ := hv
    obtain ⟨d, hfd, hcd⟩ := abs_find_some hld
    obtain ⟨v, hfv, hcv⟩ := abs_find_some hls
    by_cases heq : dst = src
    · subst heq
      refine ⟨s, by simp [step, need, hfd, Spec.step, hls], hinv, ?_⟩
      have : s.abs.put dst ls = s.abs := put_self hls
      simp [Spec.step, hls, this]
    · have hokd := hinv.vars dst d hfd
      have hokv := hinv.vars src v hfv
      have harr : v.arr = ⟨ofSpec ls⟩ := by rw [← hcv]; exact hokv.arr_eq
      have hfl : cls = true → Spec.full ls := by rw [← hcv]; exact hokv.allLive
      obtain ⟨a1, a2, a3⟩ := Heap.alloc_spec s.heap hinv.heap
      have hown : ∀ b, d.blk = some b → 0 < s.heap.alloc.1.owned.count b := by
        intro b hb
        have := owned_of_find hinv hfd b hb
        have := a3 b
        omega
      obtain ⟨h', hrel, hi', _, hc'⟩ := release_spec cls s.heap.alloc.1 a1 d hokd hown
      refine ⟨⟨s.vars.put dst ⟨some s.heap.alloc.2, ⟨ofSpec ls⟩⟩, h'⟩, ?_, ?_, ?_⟩
      · simp [step, need, hfd, hfv, heq, harr, Arr.copyOf_spec cls ls hfl, construct, hrel, Spec.step, hls]
      · apply inv_put hinv dst (some d) (Slots.find_get hfd)
        · exact VarOK.of_spec cls _ ls hfl (by simp)
        · exact hi'
        · intro b
          have := hc' b; have := a3 b
          simp [Slots.optList, blkOf, Heap.alloc] at *; omega
      · simp [abs_put, Spec.step, hls]
  | massign dst src =>
    obtain ⟨⟨ld, hld⟩, ls, hls⟩ := hv
    obtain ⟨d, hfd, hcd⟩ := abs_find_some hld
    obtain ⟨v, hfv, hcv⟩ := abs_find_some hls
    by_cases heq : dst = src
    · subst heq
      refine ⟨s, by simp [step, need, hfd, Spec.step, hls], hinv, ?_⟩
      have h1 : s.abs.put dst ls = s.abs := put_self hls
      simp [Spec.step, hls, h1]
    · refine ⟨⟨(s.vars.put dst v).put src d, s.heap⟩,
        by simp [step, need, hfd, hfv, heq, Spec.step, hld, hls], ?_, ?_⟩
      · apply inv_put2 hinv dst src heq (some d) (some v) (Slots.find_get hfd) (Slots.find_get hfv)
        · exact hinv.vars src v hfv
        · exact hinv.vars dst d hfd
        · intro b; simp [Slots.optList]; omega
      · simp [abs_put2, Spec.step, hld, hls, hcd, hcv]
  | swap dst src =>
    obtain ⟨⟨ld, hld⟩, ls, hls⟩ := hv
    obtain ⟨d, hfd, hcd⟩ := abs_find_some hld
    obtain ⟨v, hfv, hcv⟩ := abs_find_some hls
    by_cases heq : dst = src
    · subst heq
      refine ⟨s, by simp [step, need, hfd, Spec.step, hls], hinv, ?_⟩
      have h1 : s.abs.put dst ls = s.abs := put_self hls
      simp [Spec.step, hls, h1]
    · refine ⟨⟨(s.vars.put dst v).put src d, s.heap⟩,
        by simp [step, need, hfd, hfv, heq, Spec.step, hld, hls], ?_, ?_⟩
      · apply inv_put2 hinv dst src heq (some d) (some v) (Slots.find_get hfd) (Slots.find_get hfv)
        · exact hinv.vars src v hfv
        · exact hinv.vars dst d hfd
        · intro b; simp [Slots.optList]; omega
      · simp [abs_put2, Spec.step, hld, hls, hcd, hcv]
  | resize id n =>
    obtain ⟨l, hl⟩ := hv
    obtain ⟨v, hfv, hc⟩ := abs_find_some hl
    have hok := hinv.vars id v hfv
    have harr : v.arr = ⟨ofSpec l⟩ := by rw [← hc]; exact hok.arr_eq
    have hfl : cls = true → Spec.full l := by rw [← hc]; exact hok.allLive
    obtain ⟨h', p', hre, hh', hnull, hcnt⟩ := Heap.realloc_spec s.heap hinv.heap v.blk n (owned_of_find hinv hfv)
    exact upd_refines hinv _ hfv p' (Spec.resized l n (Spec.dfl cls)) h'
      (fun hc => full_resized n (hfl hc) (by simp [Spec.dfl, hc]))
      (fun hp => by rw [hnull hp]; exact resized_zero _ _) hh' hcnt
      (by simp [step, need, hfv, harr, Arr.resize_spec cls l n hfl, hre])
      (by simp [Spec.step, hl])
  | resizeV id n x =>
    obtain ⟨l, hl⟩ := hv
    obtain ⟨v, hfv, hc⟩ := abs_find_some hl
    have hok := hinv.vars id v hfv
    have harr : v.arr = ⟨ofSpec l⟩ := by rw [← hc]; exact hok.arr_eq
    have hfl : cls = true → Spec.full l := by rw [← hc]; exact hok.allLive
    obtain ⟨h', p', hre, hh', hnull, hcnt⟩ := Heap.realloc_spec s.heap hinv.heap v.blk n (owned_of_find hinv hfv)
    exact upd_refines hinv _ hfv p' (Spec.resized l n (some x)) h'
      (fun hc => full_resized n (hfl hc) (by simp))
      (fun hp => by rw [hnull hp]; exact resized_zero _ _) hh' hcnt
      (by simp [step, need, hfv, harr, Arr.resizeFill_spec cls l n x hfl, hre])
      (by simp [Spec.step, hl])
  | resizeSelf id n i =>
    obtain ⟨l, x, hl, hli⟩ := hv
    obtain ⟨v, hfv, hc⟩ := abs_find_some hl
    have hok := hinv.vars id v hfv
    have harr : v.arr = ⟨ofSpec l⟩ := by rw [← hc]; exact hok.arr_eq
    have hfl : cls = true → Spec.full l := by rw [← hc]; exact hok.allLive
    obtain ⟨h', p', hre, hh', hnull, hcnt⟩ := Heap.realloc_spec s.heap hinv.heap v.blk n (owned_of_find hinv hfv)
    exact upd_refines hinv _ hfv p' (Spec.resized l n (some x)) h'
      (fun hc => full_resized n (hfl hc) (by simp))
      (fun hp => by rw [hnull hp]; exact resized_zero _ _) hh' hcnt
      (by simp [step, need, hfv, harr, Arr.resizeSelf_spec cls l n i x hli hfl, hre])
      (by simp [Spec.step, hl, hli])
  | set id i x =>
    obtain ⟨l, hl, hi⟩ := hv
    obtain ⟨v, hfv, hc⟩ := abs_find_some hl
    have hok := hinv.vars id v hfv
    have harr : v.arr = ⟨ofSpec l⟩ := by rw [← hc]; exact hok.arr_eq
    have hfl : cls = true → Spec.full l := by rw [← hc]; exact hok.allLive
    exact upd_refines hinv _ hfv v.blk (l.set i (some x)) s.heap
      (fun hc => full_set i x (hfl hc))
      (fun hp => by have := hok.nullEmpty hp; rw [hc] at this; subst this; rfl) hinv.heap
      (fun b => rfl)
      (by simp [step, need, hfv, harr, Arr.set_spec cls l i x hi hfl])
      (by simp [Spec.step, hl])
  | get id i =>
    obtain ⟨l, x, hl, hli⟩ := hv
    obtain ⟨v, hfv, hc⟩ := abs_find_some hl
    have harr : v.arr = ⟨ofSpec l⟩ := by rw [← hc]; exact (hinv.vars id v hfv).arr_eq
    exact query_refines hinv _ (.val x)
      (by simp [step, need, hfv, harr, Arr.get_spec l i x hli]) (by simp [Spec.step, hl, hli])
  | iter id =>
    obtain ⟨l, hl, hfull⟩ := hv
    obtain ⟨v, hfv, hc⟩ := abs_find_some hl
    have harr : v.arr = ⟨ofSpec l⟩ := by rw [← hc]; exact (hinv.vars id v hfv).arr_eq
    exact query_refines hinv _ (.vals (Spec.plain l))
      (by simp [step, need, hfv, harr, Arr.toList_spec l hfull]) (by simp [Spec.step, hl])
  | len id =>
    obtain ⟨l, hl⟩ := hv
    obtain ⟨v, hfv, hc⟩ := abs_find_some hl
    have harr : v.arr = ⟨ofSpec l⟩ := by rw [← hc]; exact (hinv.vars id v hfv).arr_eq
    exact query_refines hinv _ (.num l.length)
      (by simp [step, need, hfv, harr]) (by simp [Spec.step, hl])
  | front id =>
    obtain ⟨l, x, hl, hli⟩ := hv
    obtain ⟨v, hfv, hc⟩ := abs_find_some hl
    have harr : v.arr = ⟨ofSpec l⟩ := by rw [← hc]; exact (hinv.vars id v hfv).arr_eq
    exact query_refines hinv _ (.val x)
      (by simp [step, need, hfv, harr, Arr.front, Arr.get_spec l 0 x hli]) (by simp [Spec.step, hl, hli])
  | back id =>
    obtain ⟨l, x, hl, hli⟩ := hv
    obtain ⟨v, hfv, hc⟩ := abs_find_some hl
    have harr : v.arr = ⟨ofSpec l⟩ := by rw [← hc]; exact (hinv.vars id v hfv).arr_eq
    exact query_refines hinv _ (.val x)
      (by simp [step, need, hfv, harr, Arr.back, Arr.get_spec l (l.length - 1) x hli]) (by simp [Spec.step, hl, hli])
  | drop id =>
    obtain ⟨l, hl⟩ := hv
    obtain ⟨v, hfv, hc⟩ := abs_find_some hl
    have hok := hinv.vars id v hfv
    obtain ⟨h', hrel, hi', _, hc'⟩ := release_spec cls s.heap hinv.heap v hok (owned_of_find hinv hfv)
    exact ⟨⟨s.vars.del id, h'⟩, by simp [step, need, hfv, hrel, Spec.step],
      inv_del hinv id v hfv h' hi' hc', by simp [abs_del, Spec.step]⟩

/-! ### histories -/

theorem run_refines (cls : Bool) (ops : List (AOp α)) :
    ∀ s : AStore α, Inv cls s → Spec.validFrom cls s.abs ops →
      ∃ s', run cls s ops = .ok (s', (Spec.run cls s.abs ops).2) ∧ Inv cls s' ∧
        s'.abs = (Spec.run cls s.abs ops).1 := by
  induction ops with
  | nil => intro s hinv _; exact ⟨s, rfl, hinv, rfl⟩
  | cons op ops ih =>
    intro s hinv hv
    obtain ⟨hv1, hv2⟩ := hv
    obtain ⟨s1, h1, hinv1, habs1⟩ := step_refines cls s op hinv hv1
    rw [← habs1] at hv2
    obtain ⟨s2, h2, hinv2, habs2⟩ := ih s1 hinv1 hv2
    refine ⟨s2, ?_, hinv2, ?_⟩
    · simp [run, h1, h2, Spec.run, habs1]
    · simp [Spec.run, habs2, habs1]

theorem liveVals_abs (s : AStore α) : s.liveVals = Spec.allItems s.abs := by
  simp only [liveVals, Spec.allItems, abs, Slots.gather_map]
  congr 1
  funext v
  simp [Mem.liveVals, Spec.plain, Arr.contents, List.filterMap_map, Function.comp_def]

theorem count_range (n b : Nat) : (List.range n).count b = if b < n then 1 else 0 := by
  induction n with
  | zero => simp
  | succ n ih =>
    rw [List.range_succ, List.count_append, ih]
    by_cases h1 : b < n
    · have : b ≠ n := by omega
      have h2 : b < n + 1 := by omega
      simp [h1, h2, List.count_cons]; omega
    · by_cases h2 : b = n
      · subst h2; simp
      · have h3 : ¬ b < n + 1 := by omega
        have : (n == b) = false := by simp; omega
        simp [h1, h3, List.count_cons, this]

/-- when no variable is left: nothing is alive, nothing is still allocated, and the log of `free`
    calls is a permutation of all block ids ever handed out (each freed exactly once) -/
theorem all_dropped {cls : Bool} {s : AStore α} (hinv : Inv cls s) (hnone : ∀ i, s.vars.find i = none) :
    s.liveVals = [] ∧ s.heap.owned = [] ∧ s.heap.freed.Perm (List.range s.heap.next) := by
  have hb : s.blocks = [] := Slots.gather_nil_of_all_none _ _ hnone
  have ho : s.heap.owned = [] := by
    apply List.eq_nil_iff_forall_not_mem.mpr
    intro b hb'
    have := hinv.own b
    rw [hb] at this
    have hp := List.count_pos_iff.mpr hb'
    simp at this; omega
  refine ⟨Slots.gather_nil_of_all_none _ _ hnone, ho, ?_⟩
  rw [List.perm_iff_count]
  intro b
  have := hinv.heap b
  rw [ho] at this
  rw [count_range]; simpa using this

/-- two different variables never point to the same block -/
theorem no_alias {cls : Bool} {s : AStore α} (hinv : Inv cls s) {i j : Nat} (hij : i ≠ j)
    {v w : AVar α} (hv : s.vars.find i = some v) (hw : s.vars.find j = some w) {b : Nat}
    (hb : v.blk = some b) : w.blk ≠ some b := by
  intro hwb
  have h1 := Slots.count_gather_set (fun v : AVar α => v.blk.toList) s.vars i (some v) none (Slots.find_get hv) b
  have hw' : (s.vars.set i none)[j]? = some (some w) := by
    rw [List.getElem?_set_ne hij]; exact Slots.find_get hw
  have h2 := Slots.count_gather_set (fun v : AVar α => v.blk.toList) (s.vars.set i none) j (some w) none hw' b
  have h3 := hinv.own b
  have h4 := hinv.heap b
  simp only [blocks, Slots.optList, hb, hwb, Option.toList, List.count_nil] at *
  simp at h1 h2
  split at h4 <;> omega

theorem class_plain {s : AStore α} (hinv : Inv true s) {i : Nat} {v : AVar α} (hv : s.vars.find i = some v) :
    v.arr.contents = (Spec.plain v.arr.contents).map some ∧
    v.arr.data = (Spec.plain v.arr.contents).map .live := by
  have hok := hinv.vars i v hv
  obtain ⟨vs, hvs⟩ := full_exists _ (hok.allLive rfl)
  have hd := hok.rep
  rw [hvs] at hd ⊢
  simp [hd]

/-! ### explicit results of copy / move, and the shallow copy -/

theorem step_copy {cls : Bool} {s : AStore α} (hinv : Inv cls s) {dst src : Nat} {v : AVar α}
    (hfree : s.vars.isFree dst = true) (hfv : s.vars.find src = some v) :
    step cls s (.copy dst src) = .ok (s.construct dst v.arr, .unit) := by
  have hok := hinv.vars src v hfv
  have h := Arr.copyOf_spec cls v.arr.contents hok.allLive
  rw [← hok.arr_eq] at h
  simp [step, fresh, hfree, need, hfv, h]

theorem step_mctor (cls : Bool) (s : AStore α) {dst src : Nat} {v : AVar α}
    (hfree : s.vars.isFree dst = true) (hfv : s.vars.find src = some v) :
    step cls s (.mctor dst src) = .ok (⟨(s.vars.put src ⟨none, Arr.empty⟩).put dst v, s.heap⟩, .unit) := by
  simp [step, fresh, hfree, need, hfv]

theorem step_massign (cls : Bool) (s : AStore α) {dst src : Nat} {d v : AVar α} (hne : dst ≠ src)
    (hfd : s.vars.find dst = some d) (hfv : s.vars.find src = some v) :
    step cls s (.massign dst src) = .ok (⟨(s.vars.put dst v).put src d, s.heap⟩, .unit) := by
  simp [step, need, hfd, hfv, hne]

theorem release_eq_free (cls : Bool) (h : Heap) (v : AVar α) (hok : VarOK cls v) :
    release cls h v = h.free v.blk := by
  obtain ⟨dd, hd, hl⟩ := Arr.destroyAll_spec cls v.arr.contents hok.allLive
  rw [← hok.arr_eq] at hd
  cases cls with
  | false => simp [release, hd]
  | true => simp [release, hd, hl rfl]

/-- the mutant: a copy constructor that shares the storage of its source -/
def shallowCopy (s : AStore α) (dst : Nat) (v : AVar α) : AStore α := ⟨s.vars.put dst v, s.heap⟩

theorem shallow_double_free {cls : Bool} {s : AStore α} (hinv : Inv cls s) {dst src : Nat} {v : AVar α}
    {b : Nat} (hfree : s.vars.isFree dst = true) (hfv : s.vars.find src = some v) (hb : v.blk = some b) :
    (step cls (shallowCopy s dst v) (.drop src) >>= fun r => step cls r.1 (.drop dst)) = .error .badFree := by
  have hne : src ≠ dst := by
    intro h; subst h; rw [Slots.isFree_find hfree] at hfv; cases hfv
  have hok := hinv.vars src v hfv
  have hdst : dst < s.vars.length := Slots.isFree_lt hfree
  have hf1 : (s.vars.put dst v).find src = some v := by
    rw [Slots.find_put_ne _ _ _ _ hne]; exact hfv
  have hpos : 0 < s.heap.owned.count b := owned_of_find hinv hfv b hb
  have hmem : b ∈ s.heap.owned := List.count_pos_iff.mp hpos
  have hle : s.heap.owned.count b ≤ 1 := by
    have := hinv.heap b; split at this <;> omega
  have hnot : b ∉ s.heap.owned.erase b := by
    intro hm
    have := List.count_pos_iff.mpr hm
    rw [List.count_erase_self] at this; omega
  have hf2 : ((s.vars.put dst v).del src).find dst = some v := by
    rw [Slots.find_del_ne _ _ _ (Ne.symm hne), Slots.find_put_self _ _ _ hdst]
  have h1 : step cls (shallowCopy s dst v) (.drop src)
      = .ok (⟨(s.vars.put dst v).del src, { s.heap with owned := s.heap.owned.erase b, freed := b :: s.heap.freed }⟩, .unit) := by
    simp [shallowCopy, step, need, hf1, release_eq_free cls _ v hok, hb, Heap.free, hmem]
  have h2 : step cls (⟨(s.vars.put dst v).del src, { s.heap with owned := s.heap.owned.erase b, freed := b :: s.heap.freed }⟩ : AStore α) (.drop dst)
      = .error .badFree := by
    simp [step, need, hf2, release_eq_free cls _ v hok, hb, Heap.free, hnot]
    rfl
  rw [h1]; exact h2

end AStore

/-! ### the specification leaves unnamed variables alone -/
namespace Spec
variable [Inhabited α]

theorem step_frame (cls : Bool) (sp : St α) (op : AOp α) (j : Nat) (hj : j ∉ op.mentions) :
    (step cls sp op).1.find j = sp.find j := by
  cases op <;> simp [AOp.mentions] at hj <;> simp only [step] <;> (try split) <;> (try rfl) <;>
    first
      | (rw [Slots.find_put_ne _ _ _ _ hj]; done)
      | (rw [Slots.find_del_ne _ _ _ hj]; done)
      | (rw [Slots.find_put_ne _ _ _ _ hj.1, Slots.find_put_ne _ _ _ _ hj.2]; done)
      | (rw [Slots.find_put_ne _ _ _ _ hj.2, Slots.find_put_ne _ _ _ _ hj.1]; done)
      | (rw [Slots.find_put_ne _ _ _ _ hj.1]; done)

theorem run_frame (cls : Bool) (ops : List (AOp α)) (j : Nat) :
    ∀ sp : St α, (∀ op ∈ ops, j ∉ op.mentions) → (run cls sp ops).1.find j = sp.find j := by
  induction ops with
  | nil => intro sp _; rfl
  | cons op ops ih =>
    intro sp h
    simp only [run]
    rw [ih _ (fun o ho => h o (by simp [ho])), step_frame cls sp op j (h op (by simp))]

end Spec
end Tulz
