import Tulz.Model.FsTree
/- helper lemmas for the file-system part of C18 -/
namespace Tulz.Fs

def notDot (s : String) : Bool := !(s = "." || s = "..")

theorem listLoop_eq (ents acc : List String) :
    listLoop ents acc = (ents.filter notDot).reverse ++ acc := by
  induction ents generalizing acc with
  | nil => simp [listLoop]
  | cons x r ih =>
    unfold listLoop
    by_cases hx : (decide (x = ".") || decide (x = "..")) = true
    · simp only [hx, if_true]
      rw [ih, List.filter_cons]
      simp [notDot, hx]
    · simp only [hx, Bool.false_eq_true, if_false]
      rw [ih, List.filter_cons]
      simp [notDot, hx]

theorem childOf_some {name : String} {cs : Entries} {n : FsNode} (h : childOf name cs = some n) :
    (name, n) ∈ cs := by
  induction cs with
  | nil => simp [childOf] at h
  | cons e r ih =>
    obtain ⟨s, m⟩ := e
    unfold childOf at h
    by_cases hs : s = name
    · simp only [hs, if_true, Option.some.injEq] at h
      subst h; subst hs; simp
    · simp only [hs, if_false] at h
      exact List.mem_cons_of_mem _ (ih h)

theorem childOf_of_mem {cs : Entries} (hnd : (cs.map Prod.fst).Nodup) {name : String} {n : FsNode}
    (h : (name, n) ∈ cs) : childOf name cs = some n := by
  induction cs with
  | nil => cases h
  | cons e r ih =>
    obtain ⟨s, m⟩ := e
    simp only [List.map_cons, List.nodup_cons] at hnd
    unfold childOf
    rcases List.mem_cons.mp h with h | h
    · cases h; simp
    · have : s ≠ name := by
        intro hs; subst hs
        exact hnd.1 (List.mem_map.mpr ⟨(s, n), h, rfl⟩)
      simp only [this, if_false]
      exact ih hnd.2 h

theorem resolve_append (fs : FsNode) (p q : List String) :
    resolve fs (p ++ q) = (resolve fs p).bind (fun n => resolve n q) := by
  induction p generalizing fs with
  | nil => simp [resolve]
  | cons s r ih =>
    cases fs with
    | file b => cases q <;> simp [resolve]
    | dir cs =>
      simp only [List.cons_append, resolve]
      cases childOf s cs with
      | none => simp
      | some c => simp [ih]

theorem resolve_child (fs : FsNode) (p : List String) (cs : Entries) (c : String)
    (h : resolve fs p = some (.dir cs)) : resolve fs (p ++ [c]) = childOf c cs := by
  rw [resolve_append, h]
  simp only [Option.bind_some, resolve]
  cases childOf c cs <;> rfl

theorem WF_resolve {fs : FsNode} (hwf : WF fs) {p : List String} {n : FsNode}
    (h : resolve fs p = some n) : WF n := by
  induction p generalizing fs with
  | nil => simp [resolve] at h; subst h; exact hwf
  | cons s r ih =>
    cases hwf with
    | file b => simp [resolve] at h
    | dir cs hnd hdots hch =>
      simp only [resolve] at h
      cases hc : childOf s cs with
      | none => rw [hc] at h; cases h
      | some c =>
        rw [hc] at h
        exact ih (hch _ (childOf_some hc)) h

theorem depth_child {cs : Entries} {e : String × FsNode} (h : e ∈ cs) : e.2.depth ≤ entriesDepth cs := by
  induction cs with
  | nil => cases h
  | cons x r ih =>
    simp only [entriesDepth]
    rcases List.mem_cons.mp h with h | h
    · subst h; omega
    · have := ih h; omega

theorem sumSizes_ok (l : List Nat) (acc : Nat) :
    sumSizes (l.map Except.ok) acc = .ok (acc + l.sum) := by
  induction l generalizing acc with
  | nil => simp [sumSizes]
  | cons x r ih => simp only [List.map_cons, sumSizes, ih, List.sum_cons]; congr 1; omega

/-- size of the entry called `c` (0 when absent) -/
def bytesOfName (cs : Entries) (c : String) : Nat :=
  match childOf c cs with
  | some ch => ch.fileBytes
  | none => 0

theorem sum_bytesOfName (cs : Entries) (hnd : (cs.map Prod.fst).Nodup) :
    ((cs.map Prod.fst).map (bytesOfName cs)).sum = entriesBytes cs := by
  induction cs with
  | nil => simp [entriesBytes]
  | cons e r ih =>
    obtain ⟨s, m⟩ := e
    simp only [List.map_cons, List.nodup_cons] at hnd
    simp only [List.map_cons, List.sum_cons, entriesBytes]
    have h1 : bytesOfName ((s, m) :: r) s = m.fileBytes := by simp [bytesOfName, childOf]
    have h2 : (r.map Prod.fst).map (bytesOfName ((s, m) :: r)) = (r.map Prod.fst).map (bytesOfName r) := by
      apply List.map_congr_left
      intro c hc
      have : s ≠ c := by intro h; subst h; exact hnd.1 hc
      simp [bytesOfName, childOf, this]
    rw [h1, h2, ih hnd.2]

theorem fileBytes_eq_sum_allFiles_aux :
    (∀ n : FsNode, n.fileBytes = n.allFiles.sum) ∧ (∀ cs : Entries, entriesBytes cs = (entriesFiles cs).sum) := by
  have key : ∀ n : FsNode, n.fileBytes = n.allFiles.sum := by
    intro n
    induction n using FsNode.rec (motive_2 := fun cs => entriesBytes cs = (entriesFiles cs).sum)
      (motive_3 := fun e => e.2.fileBytes = e.2.allFiles.sum) with
    | file b => simp [FsNode.fileBytes, FsNode.allFiles]
    | dir cs ih => simpa [FsNode.fileBytes, FsNode.allFiles] using ih
    | nil => simp [entriesBytes, entriesFiles]
    | cons e r ihe ihr => simp only [entriesBytes, entriesFiles, List.sum_append, ihe, ihr]
    | mk s n ih => exact ih
  refine ⟨key, ?_⟩
  intro cs
  induction cs with
  | nil => simp [entriesBytes, entriesFiles]
  | cons e r ih => simp only [entriesBytes, entriesFiles, List.sum_append, key, ih]


theorem notDot_names {cs : Entries} (hdots : ∀ e ∈ cs, e.1 ≠ "." ∧ e.1 ≠ "..") :
    (cs.map Prod.fst).filter notDot = cs.map Prod.fst := by
  apply List.filter_eq_self.mpr
  intro a ha
  obtain ⟨e, he, rfl⟩ := List.mem_map.mp ha
  have := hdots e he
  simp [notDot, this.1, this.2]

/-- what `listChildren` returns on a directory: a permutation of the entry names -/
theorem listChildren_dir (rd : Entries → List String) (hrd : ReaddirSpec rd) (fs : FsNode) (p : List String)
    (cs : Entries) (hdots : ∀ e ∈ cs, e.1 ≠ "." ∧ e.1 ≠ "..") (h : resolve fs p = some (.dir cs)) :
    ∃ l, listChildren rd fs p = .ok l ∧ l.Perm (cs.map Prod.fst) := by
  refine ⟨listLoop (rd cs) [], ?_, ?_⟩
  · simp [listChildren, pExists, fopenR, opendir, h]
  · rw [listLoop_eq, List.append_nil]
    refine (List.reverse_perm _).trans ?_
    have := (hrd cs).filter notDot
    have d1 : notDot "." = false := by decide
    have d2 : notDot ".." = false := by decide
    rw [List.filter_cons, List.filter_cons] at this
    simp only [d1, d2, Bool.false_eq_true, if_false] at this
    rw [notDot_names hdots] at this
    exact this

theorem pSize_spec (rd : Entries → List String) (hrd : ReaddirSpec rd) (fs : FsNode) (hwf : WF fs) :
    ∀ (fuel : Nat) (p : List String) (n : FsNode), resolve fs p = some n → n.depth < fuel →
      pSize rd fs fuel p = .ok n.fileBytes := by
  intro fuel
  induction fuel with
  | zero => intro p n _ hd; omega
  | succ f ih =>
    intro p n hres hd
    have hwn : WF n := WF_resolve hwf hres
    unfold pSize
    have hex : pExists fs p = true := by simp [pExists, fopenR, hres]
    simp only [hex, Bool.not_true, Bool.false_eq_true, if_false]
    cases hwn with
    | file b =>
      have : pIsFile fs p = true := by simp [pIsFile, pExists, fopenR, pIsDirectory, opendir, hres]
      simp [this, ftellEnd, hres, FsNode.fileBytes]
    | dir cs hnd hdots hch =>
      have : pIsFile fs p = false := by simp [pIsFile, pExists, fopenR, pIsDirectory, opendir, hres]
      simp only [this, Bool.false_eq_true, if_false]
      obtain ⟨l, hl, hperm⟩ := listChildren_dir rd hrd fs p cs hdots hres
      rw [hl]
      show sumSizes (l.map fun c => pSize rd fs f (p ++ [c])) 0 = .ok (FsNode.dir cs).fileBytes
      have hmap : (l.map fun c => pSize rd fs f (p ++ [c])) = (l.map (bytesOfName cs)).map Except.ok := by
        rw [List.map_map]
        apply List.map_congr_left
        intro c hc
        have hc' : c ∈ cs.map Prod.fst := hperm.mem_iff.mp hc
        obtain ⟨e, he, rfl⟩ := List.mem_map.mp hc'
        have hchild : childOf e.1 cs = some e.2 := childOf_of_mem hnd he
        have hr : resolve fs (p ++ [e.1]) = some e.2 := by rw [resolve_child fs p cs e.1 hres, hchild]
        have hdepth : e.2.depth < f := by
          have := depth_child he
          simp only [FsNode.depth] at hd
          omega
        simp [ih (p ++ [e.1]) e.2 hr hdepth, bytesOfName, hchild]
      rw [hmap, sumSizes_ok, Nat.zero_add, (hperm.map (bytesOfName cs)).sum_nat, sum_bytesOfName cs hnd]
      simp [FsNode.fileBytes]

end Tulz.Fs
