import Tulz.Model.FileSpec
/- helper lemmas for C17 -/
namespace Tulz.Stdio

theorem lookup_store_same (p : String) (b : Bytes) (l : List (String × Bytes)) :
    lookup p (store p b l) = some b := by
  induction l with
  | nil => simp [store, lookup]
  | cons e r ih =>
    obtain ⟨q, c⟩ := e
    unfold store
    by_cases h : q = p
    · simp [h, lookup]
    · simp [h, lookup, ih]

theorem lookup_store_other (p q : String) (hne : q ≠ p) (b : Bytes) (l : List (String × Bytes)) :
    lookup q (store p b l) = lookup q l := by
  induction l with
  | nil => simp [store, lookup, Ne.symm hne]
  | cons e r ih =>
    obtain ⟨x, c⟩ := e
    unfold store
    by_cases h : x = p
    · subst h; simp [lookup, Ne.symm hne]
    · simp only [h, if_false, lookup, ih]

@[simp] theorem content_write_same (d : Disk) (p : String) (b : Bytes) : (d.write p b).content p = b := by
  simp [Disk.content, Disk.read, Disk.write, lookup_store_same]

theorem content_write_other (d : Disk) (p q : String) (hne : q ≠ p) (b : Bytes) :
    (d.write p b).content q = d.content q := by
  simp [Disk.content, Disk.read, Disk.write, lookup_store_other p q hne]

@[simp] theorem isFile_write_same (d : Disk) (p : String) (b : Bytes) : (d.write p b).isFile p = true := by
  simp [Disk.isFile, Disk.read, Disk.write, lookup_store_same]

@[simp] theorem isDir_write (d : Disk) (p q : String) (b : Bytes) : (d.write p b).isDir q = d.isDir q := rfl

theorem content_of_read {d : Disk} {p : String} {b : Bytes} (h : d.read p = some b) : d.content p = b := by
  simp [Disk.content, h]

/-- writing at the end of a "w" stream's file appends -/
theorem overwrite_end (content data : Bytes) : overwrite content content.length data = content ++ data := by
  simp [overwrite]

end Tulz.Stdio

namespace Tulz.FileM
open Tulz.Stdio

/-- the stream is open for reading on a regular file -/
def Readable (st : Stream) : Prop := st.acc = .r ∧ st.dir = false

theorem readable_iff (st : Stream) : readable st = true ↔ Readable st := by
  simp [readable, Readable]

/-- the counting loop on a readable stream whose end-of-file indicator is clear: `k` bytes left → returns
    `fileSize + k` after `k + 1` rounds, positioned at the end with the end-of-file indicator set -/
theorem countLoop_readable (d : Disk) (k : Nat) :
    ∀ (st : Stream) (acc extra : Nat), Readable st → st.eof = false → st.pos + k = (d.content st.path).length →
      countLoop d (k + 1 + extra) st acc =
        some ({ st with pos := (d.content st.path).length, eof := true }, acc + k) := by
  induction k with
  | zero =>
    intro st acc extra hr he hpos
    have hrd : readable st = true := (readable_iff st).mpr hr
    have hnone : (d.content st.path)[st.pos]? = none := List.getElem?_eq_none_iff.mpr (by omega)
    have : 0 + 1 + extra = extra + 1 := by omega
    rw [this]
    simp only [countLoop, isEOF, fgetc, hrd, Bool.not_true, Bool.false_eq_true, if_false, hnone, feof, if_true]
    have : st.pos = (d.content st.path).length := by omega
    simp [this]
  | succ k ih =>
    intro st acc extra hr he hpos
    have hrd : readable st = true := (readable_iff st).mpr hr
    obtain ⟨path, ac, bin, dir, pos, eof, err⟩ := st
    simp only at he hpos
    subst he
    have hlt : pos < (d.content path).length := by omega
    have hsome : (d.content path)[pos]? = some (d.content path)[pos] := List.getElem?_eq_getElem hlt
    have : k + 1 + 1 + extra = (k + 1 + extra) + 1 := by omega
    rw [this]
    simp only [countLoop, isEOF, fgetc, hrd, Bool.not_true, Bool.false_eq_true, if_false, hsome, feof]
    have := ih ⟨path, ac, bin, dir, pos + 1, false, err⟩ (acc + 1) extra ⟨hr.1, hr.2⟩ rfl (by show pos + 1 + k = (d.content path).length; omega)
    rw [this]
    simp only [Option.some.injEq, Prod.mk.injEq, true_and]
    omega

/-- on a stream that is not readable `fgetc` fails without ever raising the end-of-file indicator:
    the loop is still running after any number of rounds -/
theorem countLoop_unreadable (d : Disk) (fuel : Nat) :
    ∀ (st : Stream) (acc : Nat), readable st = false → st.eof = false → countLoop d fuel st acc = none := by
  induction fuel with
  | zero => intro st acc _ _; rfl
  | succ f ih =>
    intro st acc hr he
    simp only [countLoop, isEOF, fgetc, hr, Bool.not_false, if_true, feof, he, Bool.false_eq_true, if_false]
    exact ih _ _ hr rfl


theorem fseek_set_nat (d : Disk) (st : Stream) (n : Nat) :
    fseek d st (n : Int) .set = ({ st with pos := n, eof := false }, 0) := by
  have h : ¬ ((0 : Int) + (n : Int) < 0) := by omega
  simp only [fseek, h, if_false]
  simp

theorem fseek_set_zero (d : Disk) (st : Stream) :
    fseek d st 0 .set = ({ st with pos := 0, eof := false }, 0) := fseek_set_nat d st 0

theorem fseek_end_zero (d : Disk) (st : Stream) :
    fseek d st 0 .end = ({ st with pos := (d.content st.path).length, eof := false }, 0) := by
  have h : ¬ (((d.content st.path).length : Int) + 0 < 0) := by omega
  simp only [fseek, h, if_false]
  simp

/-- `size()` on any open stream: the length of the file, position kept (the end-of-file indicator is cleared) -/
theorem size_open (d : Disk) (f : File) (st : Stream) (h : f.m_file = some st) :
    size d f = .ok ({ f with m_file := some { st with eof := false } }, (d.content st.path).length) := by
  unfold size
  rw [h]
  simp only [ftell, fseek_end_zero, fseek_set_nat]

/-- reading everything from position 0 -/
theorem fread_all (d : Disk) (st : Stream) (hr : Readable st) (hpos : st.pos = 0) (he : st.eof = false) :
    fread d st 1 (d.content st.path).length =
      ({ st with pos := (d.content st.path).length }, d.content st.path, (d.content st.path).length) := by
  obtain ⟨path, ac, bin, dir, pos, eof, err⟩ := st
  simp only at hpos he
  subst hpos; subst he
  have hrd : readable ⟨path, ac, bin, dir, 0, false, err⟩ = true := (readable_iff _).mpr hr
  unfold fread
  by_cases h0 : (d.content path).length = 0
  · have : d.content path = [] := List.eq_nil_of_length_eq_zero h0
    simp [this]
  · simp only [Nat.one_mul, h0, if_false, hrd, Bool.not_true, Bool.false_eq_true, List.drop_zero, List.take_length,
      Nat.zero_add, Nat.lt_irrefl, decide_false, Bool.or_false, Nat.div_one]

/-- `read()` on a stream open for reading on a regular file, in every mode value: all bytes of the file, every cell
    of the array written, position left at the end -/
theorem read_readable (d : Disk) (f : File) (st : Stream) (h : f.m_file = some st) (hr : Readable st) :
    read d f = .ok ({ f with m_file := some { st with pos := (d.content st.path).length, eof := false } },
      (d.content st.path).map some) := by
  obtain ⟨path, ac, bin, dir, pos, eof, err⟩ := st
  have hr0 : Readable ⟨path, ac, bin, dir, 0, false, err⟩ := hr
  unfold read
  rw [h]
  simp only [fseek_set_zero]
  by_cases hm : (f.m_mode == .readText || f.m_mode == .appendText) = true
  · simp only [hm, if_true]
    have := countLoop_readable d (d.content path).length ⟨path, ac, bin, dir, 0, false, err⟩ 0 0 hr0 rfl (by simp)
    simp only [Nat.add_zero, Nat.zero_add] at this
    rw [this]
    dsimp only
    rw [fread_all d ⟨path, ac, bin, dir, 0, false, err⟩ hr0 rfl rfl]
    simp
  · simp only [hm, Bool.false_eq_true, if_false]
    rw [size_open d _ ⟨path, ac, bin, dir, 0, false, err⟩ rfl]
    simp only
    rw [fread_all d ⟨path, ac, bin, dir, 0, false, err⟩ hr0 rfl rfl]
    simp


/-! ### writing -/

/-- the stream writes at the end of its file: an append stream always, a "w" stream when positioned there -/
def AtEnd (d : Disk) (st : Stream) : Prop :=
  st.dir = false ∧ (st.acc = .a ∨ (st.acc = .w ∧ st.pos = (d.content st.path).length))

/-- invariant of a stream that is being written sequentially: it belongs to `p`, writes at the end, and the
    file holds `c` -/
def WInv (d : Disk) (st : Stream) (p : String) (c : Bytes) : Prop :=
  st.path = p ∧ AtEnd d st ∧ d.content p = c ∧ d.isFile p = true ∧ d.isDir p = false

theorem fwrite_inv (d : Disk) (st : Stream) (p : String) (c data : Bytes) (size count : Nat)
    (h : WInv d st p c) :
    ∃ d' st' n, fwrite d st data size count = (d', st', n) ∧ WInv d' st' p (c ++ data.take (size * count)) := by
  obtain ⟨path, ac, bin, dir, pos, eof, err⟩ := st
  obtain ⟨hp, ⟨hd, hacc⟩, hc, hf, hdir⟩ := h
  simp only at hp hd hacc
  subst hp
  unfold fwrite
  by_cases h0 : size * count = 0
  · simp only [h0, if_true, List.take_zero, List.append_nil]
    exact ⟨_, _, _, rfl, rfl, ⟨hd, hacc⟩, hc, hf, hdir⟩
  · simp only [h0, if_false]
    rcases hacc with ha | ⟨hw, hpos⟩
    · subst ha
      refine ⟨_, _, _, rfl, rfl, ⟨hd, Or.inl rfl⟩, ?_, by simp, by simpa using hdir⟩
      simp [hc]
    · subst hw
      refine ⟨_, _, _, rfl, rfl, ⟨hd, Or.inr ⟨rfl, ?_⟩⟩, ?_, by simp, by simpa using hdir⟩
      · simp only [content_write_same]
        rw [hpos, overwrite_end]
        simp
      · simp only [content_write_same]
        rw [hpos, overwrite_end, hc]

/-- invariant of a File that is being written sequentially -/
def FInv (d : Disk) (f : File) (p : String) (c : Bytes) : Prop :=
  ∃ st, f.m_file = some st ∧ WInv d st p c

theorem write_inv (d : Disk) (f : File) (p : String) (c data : Bytes) (size esz : Nat)
    (h : FInv d f p c) (hlen : esz * size ≤ data.length) :
    ∃ d' f' n, write d f data size esz = .ok (d', f', n) ∧ FInv d' f' p (c ++ data.take (esz * size)) := by
  obtain ⟨st, hst, hw⟩ := h
  obtain ⟨d', st', n, hfw, hinv⟩ := fwrite_inv d st p c data esz size hw
  unfold write
  have : ¬ data.length < esz * size := by omega
  simp only [hst, this, if_false, hfw]
  exact ⟨_, _, _, rfl, st', rfl, hinv⟩

theorem wcall_inv (d : Disk) (f : File) (p : String) (c : Bytes) (call : WCall) (h : FInv d f p c) :
    ∃ d' f' n, call.run d f = .ok (d', f', n) ∧ FInv d' f' p (c ++ call.bytes) := by
  cases call with
  | raw data esz =>
    exact write_inv d f p c data (data.length / esz) esz h (Nat.mul_div_le _ _)
  | array data =>
    have := write_inv d f p c data data.length 1 h (by omega)
    simpa [WCall.run, WCall.bytes, writeArray] using this
  | string data =>
    have := write_inv d f p c data data.length 1 h (by omega)
    simpa [WCall.run, WCall.bytes, writeString] using this

theorem writeAll_inv (calls : List WCall) :
    ∀ (d : Disk) (f : File) (p : String) (c : Bytes), FInv d f p c →
      ∃ d' f', writeAll d f calls = .ok (d', f') ∧ FInv d' f' p (c ++ (calls.map WCall.bytes).flatten) := by
  induction calls with
  | nil => intro d f p c h; exact ⟨d, f, rfl, by simpa using h⟩
  | cons call r ih =>
    intro d f p c h
    obtain ⟨d1, f1, n, hrun, hinv⟩ := wcall_inv d f p c call h
    obtain ⟨d2, f2, hall, hinv2⟩ := ih d1 f1 p _ hinv
    refine ⟨d2, f2, ?_, ?_⟩
    · simp only [writeAll, hrun, hall]
    · simpa [List.append_assoc] using hinv2

/-! ### opening -/

theorem pathExists_iff (d : Disk) (p : String) : pathExists d p = (d.isDir p || d.isFile p) := by
  unfold pathExists fopen
  simp only [parseMode]
  by_cases hd : d.isDir p = true
  · simp [hd]
  · by_cases hf : d.isFile p = true
    · simp [hd, hf]
    · simp [hd, hf]

def isBinary (m : Mode) : Bool := m == .read || m == .write || m == .append

theorem open_write_eq (d : Disk) (p : String) (m : Mode) (hm : m = .write ∨ m = .writeText) (hdir : d.isDir p = false) :
    «open» d File.closed p m =
      (d.write p [], { m_file := some (mkStream p .w (isBinary m) false 0), m_mode := m }, .ok ()) := by
  rcases hm with rfl | rfl <;>
    (simp [«open», pathExists_iff, pathIsDirectory, hdir, isWriteMode, getModeStr, fopen, parseMode, isBinary] <;> rfl)

theorem open_write (d : Disk) (p : String) (m : Mode) (hm : m = .write ∨ m = .writeText) (hdir : d.isDir p = false) :
    ∃ d' f', «open» d File.closed p m = (d', f', .ok ()) ∧ FInv d' f' p [] := by
  refine ⟨_, _, open_write_eq d p m hm hdir, ?_⟩
  refine ⟨_, rfl, ?_⟩
  simp [WInv, AtEnd, mkStream, hdir]

/-- the disk after `fopen(path, "a")`: the file exists, nothing else changes -/
def touched (d : Disk) (p : String) : Disk := if d.isFile p then d else d.write p []

theorem content_touched (d : Disk) (p : String) : (touched d p).content p = d.content p := by
  unfold touched
  by_cases hf : d.isFile p = true
  · simp [hf]
  · have : d.content p = [] := by
      simp only [Disk.isFile, Option.isSome_iff_ne_none, ne_eq, Decidable.not_not] at hf
      simp [Disk.content, hf]
    simp [hf, this]

theorem open_append_eq (d : Disk) (p : String) (m : Mode) (hm : m = .append ∨ m = .appendText) (hdir : d.isDir p = false) :
    «open» d File.closed p m =
      (touched d p, { m_file := some (mkStream p .a (isBinary m) false (d.content p).length), m_mode := m }, .ok ()) := by
  have hc := content_touched d p
  unfold touched at hc ⊢
  rcases hm with rfl | rfl <;>
    (simp [«open», pathExists_iff, pathIsDirectory, hdir, isWriteMode, getModeStr, fopen, parseMode, isBinary, hc] <;> rfl)

theorem open_append (d : Disk) (p : String) (m : Mode) (hm : m = .append ∨ m = .appendText) (hdir : d.isDir p = false) :
    ∃ d' f', «open» d File.closed p m = (d', f', .ok ()) ∧ FInv d' f' p (d.content p) := by
  refine ⟨_, _, open_append_eq d p m hm hdir, ?_⟩
  refine ⟨_, rfl, ?_⟩
  have hc := content_touched d p
  refine ⟨rfl, ⟨rfl, Or.inl rfl⟩, hc, ?_, ?_⟩
  · unfold touched; by_cases hf : d.isFile p = true <;> simp [hf]
  · unfold touched; by_cases hf : d.isFile p = true <;> simp [hf, hdir]

theorem open_read_eq (d : Disk) (p : String) (m : Mode) (hm : m = .read ∨ m = .readText)
    (hf : d.isFile p = true) (hdir : d.isDir p = false) :
    «open» d File.closed p m = (d, { m_file := some (mkStream p .r (isBinary m) false 0), m_mode := m }, .ok ()) := by
  rcases hm with rfl | rfl <;>
    (simp [«open», pathExists_iff, pathIsDirectory, hdir, hf, isWriteMode, getModeStr, fopen, parseMode, isBinary] <;> rfl)

/-! ### histories on a readable stream -/

/-- the File is open for reading on the regular file `p` and stands at `pos` -/
def RInv (f : File) (p : String) (pos : Nat) : Prop :=
  ∃ st, f.m_file = some st ∧ st.path = p ∧ Readable st ∧ st.pos = pos

theorem fileStep_spec (d : Disk) (f : File) (p : String) (pos : Nat) (op : ROp) (h : RInv f p pos) :
    ∃ f', fileStep d f op = .ok (f', (specStep (d.content p) pos op).2) ∧
      RInv f' p (specStep (d.content p) pos op).1 := by
  obtain ⟨st, hst, hp, hr, hpos⟩ := h
  obtain ⟨path, ac, bin, dir, pos', eof, err⟩ := st
  simp only at hp hpos
  subst hp; subst hpos
  have hrd : ∀ e, readable ⟨path, ac, bin, dir, pos', e, err⟩ = true := fun e => (readable_iff _).mpr hr
  cases op with
  | seek off o =>
    cases o <;>
    · simp only [fileStep, seek, hst, fseek, whenceOf, specStep]
      split <;> rename_i hneg <;> simp only [hneg, if_true, if_false] <;>
        exact ⟨_, rfl, _, rfl, rfl, hr, rfl⟩
  | tell =>
    simp only [fileStep, tell, hst, ftell, specStep]
    exact ⟨_, rfl, _, hst, rfl, hr, rfl⟩
  | size =>
    simp only [fileStep, size_open d f _ hst, specStep]
    exact ⟨_, rfl, _, rfl, rfl, hr, rfl⟩
  | readBuf s c =>
    simp only [fileStep, readBuf, hst, fread, specStep]
    by_cases h0 : s * c = 0
    · simp only [h0, if_true]
      exact ⟨_, rfl, _, rfl, rfl, hr, rfl⟩
    · simp only [h0, if_false, hrd, Bool.not_true, Bool.false_eq_true]
      exact ⟨_, rfl, _, rfl, rfl, hr, rfl⟩
  | read =>
    simp only [fileStep, read_readable d f _ hst hr, specStep]
    exact ⟨_, rfl, _, rfl, rfl, hr, rfl⟩
  | readStr =>
    simp only [fileStep, readStr, read_readable d f _ hst hr, specStep]
    exact ⟨_, rfl, _, rfl, rfl, hr, rfl⟩

theorem runFile_spec (d : Disk) (p : String) (ops : List ROp) :
    ∀ (f : File) (pos : Nat), RInv f p pos →
      ∃ f', runFile d f ops = .ok (f', (runSpec (d.content p) pos ops).2) ∧
        RInv f' p (runSpec (d.content p) pos ops).1 := by
  induction ops with
  | nil => intro f pos h; exact ⟨f, rfl, h⟩
  | cons op r ih =>
    intro f pos h
    obtain ⟨f1, hs, hinv⟩ := fileStep_spec d f p pos op h
    obtain ⟨f2, hr, hinv2⟩ := ih f1 _ hinv
    refine ⟨f2, ?_, ?_⟩
    · simp only [runFile, hs, hr, runSpec]
    · simpa [runSpec] using hinv2

end Tulz.FileM
