import Tulz.Proofs.Router
/-
C13 — SubjectRouter::shrink is invisible to delivery; exists / depth stay consistent.

Model: `Tulz/Model/Router.lean`.  Keys and patterns are written without the implicit root level (`[]` is the root
key, which is never removed).  `RLive t k`: some stored key at or below `k` has a subscription in the code's sense
(`hasSubscriptions`: an invalidated observer not yet removed by a notify still counts).  `RDead rm p t k`: nothing at
or below `k` has a subscription and the pattern visits (is at least as long as, and matches level by level) the parent
of every stored key at or below `k`.  Every statement holds for an arbitrary regex matcher `rm`.
-/
namespace Tulz
open Tulz.Router

variable {ρ : Type}

/-- shrink never changes which observers any later notify reaches -/
theorem C13_shrink_invisible {α : Type} (rm : ρ → String → Bool) (t : Node) (hwf : WF t) (p q : List (Level ρ)) (a : α) :
    (rNotify rm a q (rShrink rm p t)).log = (rNotify rm a q t).log :=
  shrink_invisible rm a p rootLevel t hwf q rootLevel

/-- what shrink removes, exactly: a stored key survives iff it is the root or not dead along the pattern -/
theorem C13_shrink_exact (rm : ρ → String → Bool) (t : Node) (hwf : WF t) (hroot : t.name = "") (p : List (Level ρ))
    (k : List String) :
    k ∈ rKeys (rShrink rm p t) ↔ k ∈ rKeys t ∧ (k = [] ∨ ¬ RDead rm p t k) :=
  rShrink_keys rm p t hwf hroot k

/-- a key with a live subscription at or below it is never removed -/
theorem C13_keeps_live (rm : ρ → String → Bool) (t : Node) (hwf : WF t) (hroot : t.name = "") (p : List (Level ρ))
    (k : List String) (hk : k ∈ rKeys t) (hl : RLive t k) : k ∈ rKeys (rShrink rm p t) :=
  (rShrink_keys rm p t hwf hroot k).mpr ⟨hk, .inr (fun hd => hd.not_live hl)⟩

/-- only dead keys along the pattern are removed: a removed key has no live subscription at or below it and its
parent is a node the pattern visits -/
theorem C13_removes_only (rm : ρ → String → Bool) (t : Node) (hwf : WF t) (hroot : t.name = "") (p : List (Level ρ))
    (k : List String) (hk : k ∈ rKeys t) (hgone : k ∉ rKeys (rShrink rm p t)) :
    ¬ RLive t k ∧ prefixMatch rm p k.dropLast = true ∧ k ≠ [] := by
  have hdead : RDead rm p t k := by
    apply Classical.byContradiction
    intro hnd
    exact hgone ((rShrink_keys rm p t hwf hroot k).mpr ⟨hk, .inr hnd⟩)
  have hne : k ≠ [] := fun e => hgone ((rShrink_keys rm p t hwf hroot k).mpr ⟨hk, .inl e⟩)
  obtain ⟨e, he, hke⟩ := List.mem_map.mp hk
  have h2 := (hdead e he (by rw [hke]; exact List.prefix_refl _)).2
  rw [hke] at h2
  exact ⟨hdead.not_live, h2, hne⟩

/-- a full-depth wildcard shrink removes every dead branch: what is left (besides the root) has a live subscription at
or below it.  A visited node also erases its empty children, so a pattern two levels shorter than `depth()` suffices. -/
theorem C13_full_wildcard (rm : ρ → String → Bool) (t : Node) (hwf : WF t) (hroot : t.name = "") (p : List (Level ρ))
    (hw : ∀ l ∈ p, ∀ s, l.matches rm s = true) (hd : rDepth t ≤ p.length + 2)
    (k : List String) (hk : k ∈ rKeys (rShrink rm p t)) (hne : k ≠ []) : RLive t k := by
  obtain ⟨_, hor⟩ := (rShrink_keys rm p t hwf hroot k).mp hk
  rcases hor with e | hnd
  · exact absurd e hne
  · apply Classical.byContradiction
    intro hnl
    apply hnd
    intro e he hpre
    constructor
    · cases hs : hasSubs e.2 with
      | false => rfl
      | true => exact absurd ⟨e, he, hpre, hs⟩ hnl
    · apply prefixMatch_wild rm p hw
      have := rKeys_length_lt_depth t e.1 (List.mem_map.mpr ⟨e, he, rfl⟩)
      simp only [List.length_dropLast]
      omega

/-- `exists(pattern)` is true exactly when some stored key (every prefix of a subscribed key is stored) matches the
pattern level by level -/
theorem C13_exists (rm : ρ → String → Bool) (t : Node) (hwf : WF t) (hroot : t.name = "") (p : List (Level ρ)) :
    rExists rm p t = true ↔ ∃ k ∈ rKeys t, matchKey rm p k = true :=
  rExists_iff rm p t hwf hroot

/-- stored keys are prefix closed -/
theorem C13_prefix_closed (t : Node) (k : List String) (hk : k ∈ rKeys t) : k.dropLast ∈ rKeys t :=
  rKeys_prefix_closed t k hk

/-- `depth()` is one more than the longest stored key -/
theorem C13_depth (t : Node) : (∀ k ∈ rKeys t, k.length + 1 ≤ rDepth t) ∧ ∃ k ∈ rKeys t, rDepth t = k.length + 1 :=
  ⟨rKeys_length_lt_depth t, rDepth_attained t⟩

/-- all of the above after every history on a fresh router (well-formedness is an invariant, see C06_history) -/
theorem C13_history (rm : ρ → String → Bool) (ops : List (Op ρ)) (t : Node) (h : run rm emptyRouter ops = some t) :
    WF t ∧ t.name = "" := by
  obtain ⟨hs, hn⟩ := run_invariant rm ops emptyRouter t sorted_emptyRouter h
  exact ⟨hs.wf, hn⟩

/-! ### non-vacuity -/

namespace C13Example

def rmAll : Unit → String → Bool := fun _ _ => true

/-- /a/b/c and /a/ab subscribed then unsubscribed (dead), /b live, /a/x holds an invalidated observer (still counts) -/
def ops : List (Op Unit) :=
  [.subscribe ["a", "b", "c"] 1, .subscribe ["a", "ab"] 2, .subscribe ["b"] 3, .subscribe ["a", "x"] 4,
   .invalidate ["a", "x"] 4, .unsubscribe ["a", "b", "c"] 1, .unsubscribe ["a", "ab"] 2]

def tree : Node :=
  .mk "" none [.mk "a" none [.mk "ab" (some []) [], .mk "b" none [.mk "c" (some []) []], .mk "x" (some [⟨4, false⟩]) []],
               .mk "b" (some [⟨3, true⟩]) []]

theorem reached : run rmAll emptyRouter ops = some tree := by rfl
theorem tree_wf : WF tree := (C13_history rmAll ops tree reached).1

def wild2 : List (Level Unit) := [.re (), .re ()]
def wild3 : List (Level Unit) := [.re (), .re (), .re ()]

example : rKeys tree = [[], ["a"], ["a", "ab"], ["a", "b"], ["a", "b", "c"], ["a", "x"], ["b"]] := by rfl
-- a two-level wildcard shrink removes /a/ab (dead, childless, parent visited) and /a/b/c (a visited node erases its
-- empty children), then /a/b; /a/x keeps its not-yet-removed invalid observer; /b is live
example : rKeys (rShrink rmAll wild2 tree) = [[], ["a"], ["a", "x"], ["b"]] := by rfl
-- a one-level wildcard shrink cannot remove /a/b: its child /a/b/c lies below an unvisited node
example : rKeys (rShrink rmAll [.re ()] tree) = [[], ["a"], ["a", "b"], ["a", "b", "c"], ["a", "x"], ["b"]] := by rfl

example : (rNotify rmAll () wild2 (rShrink rmAll wild3 tree)).log = (rNotify rmAll () wild2 tree).log :=
  C13_shrink_invisible rmAll tree tree_wf wild3 wild2 ()

example : ["a", "x"] ∈ rKeys (rShrink rmAll wild3 tree) :=
  C13_keeps_live rmAll tree tree_wf rfl wild3 ["a", "x"] (by decide) ⟨(["a", "x"], some [⟨4, false⟩]), by decide, List.prefix_refl _, rfl⟩

example : ¬ RLive tree ["a", "ab"] ∧ prefixMatch rmAll wild2 ["a", "ab"].dropLast = true ∧ ["a", "ab"] ≠ [] :=
  C13_removes_only rmAll tree tree_wf rfl wild2 ["a", "ab"] (by decide) (by decide)

example : RLive tree ["b"] :=
  C13_full_wildcard rmAll tree tree_wf rfl wild2
    (fun l hl s => by simp only [wild2, List.mem_cons, List.mem_nil_iff, or_false, or_self] at hl; subst hl; rfl)
    (by decide) ["b"] (by decide) (by decide)

example : rExists rmAll [.str "a", .re (), .str "c"] tree = true :=
  (C13_exists rmAll tree tree_wf rfl _).mpr ⟨["a", "b", "c"], by decide, rfl⟩

example : ["a", "b"] ∈ rKeys tree := C13_prefix_closed tree ["a", "b", "c"] (by decide)
example : rDepth tree = 4 := by rfl
example : ∃ k ∈ rKeys tree, rDepth tree = k.length + 1 := (C13_depth tree).2

end C13Example

end Tulz
