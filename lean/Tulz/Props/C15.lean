import Tulz.Proofs.Drf
import Tulz.Generated.AccessTable
/-!
# C15 — data-race freedom of the threading components (PARTIAL by nature; translator-tied)

A data race is not an observable difference in outputs, so the model is tied to the code by a *translator*
(`tools/translators/locksets.py`, re-run on every check), not by a correspondence check.  What is proved, what is
generated and what is assumed:

* **proved, generic** — `C15_discipline_sound`: every well-formed execution (any number of threads, locks, locations,
  any length) that follows a locking discipline is free of data races.  Happens-before = program order ∪
  release→acquire ∪ fork/join; the reader-writer resource enters through its specification C01 (`WF.acqExcl`,
  `WF.acqShared`).
* **generated + kernel-checked** — `C15_table_follows`: every row of the access table extracted from the C++ sources of
  this run follows the hand-written discipline `Tulz.Model.discipline` (evaluated by the kernel, `decide +kernel`).
  An edit of the sources that drops a lock, narrows a critical section, turns an atomic into a plain object, takes a
  read lock where a write happens, or introduces a construct the translator cannot analyse breaks this theorem.
* **proved, generic** — `Tulz.Drf.instance_follows` / `C15_no_race`: an execution all of whose access events are
  *instances* of table rows (definition `IsInstance`) has no data race.
* **ASSUMED** (this is where the proof ends; see `IsInstance` and `tools/components/drf.py`):
  A1 the translator is complete and correct: every access of tulz code to a tulz data member in a real execution is an
     instance of a row, with the locks the row lists really held (semantics of scoped_lock, unique_lock, lock()/unlock(),
     ReadLock/WriteLock, condition_variable::wait), and accesses to `std::atomic` members / mutexes / condition
     variables are not plain accesses;
  A2 real executions are well-formed traces (`WF`): pthread mutex semantics, C01 for `rwp::Resource`, fork/join;
  A3 role assignment: a ThreadPool and its Thread objects are used by one owner thread; each PooledThread /
     PooledRunnable / dequeued task is used by the one worker it belongs to; arguments of entry points are the calling
     thread's own objects; user callbacks and tasks do not touch tulz internals;
  A4 intended-use contract: objects are constructed before they are shared (`PrePub`); the ThreadPool setters are called
     only while the pool has no live worker (`Quiescent`); observers are never invalidated (`excludedConds`);
  A5 a subscription handle's `ConcurrentInvoker::m_resource` is the `m_resource` of the router that owns the Subject the
     handle points into (checked syntactically by the translator in `ConcurrentSubjectRouter::subscribe`), and symbolic
     ownership (`anchor`) agrees with real ownership (`World.anchorOf`).
-/
namespace Tulz
open Tulz.Drf Tulz.Model Tulz.Generated

/-- **C15, generic part.**  A well-formed execution that follows a discipline has no data race — for all traces,
thread counts, lengths. -/
theorem C15_discipline_sound {L M : Type} [DecidableEq M] (tr : Trace L M) (hwf : WF tr) (d : L → Rule M)
    (hfollows : Follows tr d) : ¬ Race tr :=
  discipline_sound tr hwf d hfollows

/-- the rows of the regenerated table that do NOT follow the discipline (empty on a healthy tree; printed by the check) -/
def C15_offending : List AccessTable.E :=
  AccessTable.entries.filter (fun e => !followsDiscipline discipline entryRole excludedConds e)

/-- **C15, generated part.**  Every row of the access table regenerated from the C++ sources follows the discipline. -/
theorem C15_table_follows :
    AccessTable.entries.all (followsDiscipline discipline entryRole excludedConds) = true := by
  decide +kernel

/-- **C15, combined.**  An execution over concrete `(object, member)` locations whose access events are all instances of
rows of the regenerated table (in some world of role and ownership assignments) has no data race. -/
theorem C15_no_race (w : World Field) (tr : Trace (CLoc Field) (CLoc Field)) (hwf : WF tr)
    (hinst : ∀ k t x wr, tr[k]? = some ⟨t, .acc x wr⟩ →
      IsInstance discipline entryRole excludedConds AccessTable.entries w tr k t x wr) : ¬ Race tr :=
  discipline_sound tr hwf (concreteDiscipline discipline w)
    (instance_follows discipline entryRole excludedConds AccessTable.entries w tr
      (fun e he => List.all_eq_true.mp C15_table_follows e he) hinst)

/-! ## non-vacuity -/

section Examples

/-- a Resource object `7`: its mutex and its queue -/
def exM : CLoc Field := (7, .Resource_m_mutex)
def exX : CLoc Field := (7, .Resource_m_queue)

/-- two threads touch the queue of Resource 7, each inside a critical section of its mutex -/
def goodTrace : Trace (CLoc Field) (CLoc Field) :=
  [⟨1, .acq exM .excl⟩, ⟨1, .wr exX⟩, ⟨1, .rel exM .excl⟩, ⟨2, .acq exM .excl⟩, ⟨2, .rd exX⟩, ⟨2, .rel exM .excl⟩]

/-- thread 0 starts thread 1, then both touch the same location without any lock -/
def racyTrace : Trace (CLoc Field) (CLoc Field) :=
  [⟨0, .fork 1⟩, ⟨0, .wr exX⟩, ⟨1, .rd exX⟩]

theorem goodTrace_none (k : Nat) : goodTrace[k + 6]? = none := by simp [goodTrace]
theorem racyTrace_none (k : Nat) : racyTrace[k + 3]? = none := by simp [racyTrace]

theorem goodTrace_wf : WF goodTrace where
  acqExcl := by
    intro k t m h
    rcases k with _|_|_|_|_|_|k
    all_goals try (rw [goodTrace_none] at h; cases h)
    all_goals try (simp [goodTrace] at h)
    all_goals (obtain ⟨rfl, rfl⟩ := h; refine ⟨by decide, fun u => ?_⟩; simp [sharedCount, goodTrace])
  acqShared := by
    intro k t m h
    rcases k with _|_|_|_|_|_|k
    all_goals first
      | (rw [goodTrace_none] at h; cases h)
      | (simp [goodTrace] at h)
  relExcl := by
    intro k t m h
    rcases k with _|_|_|_|_|_|k
    all_goals try (rw [goodTrace_none] at h; cases h)
    all_goals try (simp [goodTrace] at h)
    all_goals (obtain ⟨rfl, rfl⟩ := h; decide)
  relShared := by
    intro k t m h
    rcases k with _|_|_|_|_|_|k
    all_goals first
      | (rw [goodTrace_none] at h; cases h)
      | (simp [goodTrace] at h)
  forked := by
    intro f t u h
    rcases f with _|_|_|_|_|_|f
    all_goals first
      | (rw [goodTrace_none] at h; cases h)
      | (simp [goodTrace] at h)
  joined := by
    intro n t u h
    rcases n with _|_|_|_|_|_|n
    all_goals first
      | (rw [goodTrace_none] at h; cases h)
      | (simp [goodTrace] at h)

/-- the discipline of the example: the queue is guarded by the mutex -/
def exD : CLoc Field → Rule (CLoc Field) := fun _ => .guardedBy exM

theorem goodTrace_follows : Follows goodTrace exD := by
  intro k t x w h
  right
  rcases k with _|_|_|_|_|_|k
  all_goals try (rw [goodTrace_none] at h; cases h)
  all_goals try (simp [goodTrace] at h)
  all_goals (obtain ⟨rfl, _, _⟩ := h; simp only [exD, Rule.okAt]; decide)

/-- **a race-free execution that follows a discipline** (the hypotheses of `C15_discipline_sound` are satisfiable) -/
example : WF goodTrace ∧ Follows goodTrace exD ∧ ¬ Race goodTrace :=
  ⟨goodTrace_wf, goodTrace_follows, C15_discipline_sound goodTrace goodTrace_wf exD goodTrace_follows⟩

theorem racyTrace_wf : WF racyTrace where
  acqExcl := by
    intro k t m h
    rcases k with _|_|_|k
    all_goals first
      | (rw [racyTrace_none] at h; cases h)
      | (simp [racyTrace] at h)
  acqShared := by
    intro k t m h
    rcases k with _|_|_|k
    all_goals first
      | (rw [racyTrace_none] at h; cases h)
      | (simp [racyTrace] at h)
  relExcl := by
    intro k t m h
    rcases k with _|_|_|k
    all_goals first
      | (rw [racyTrace_none] at h; cases h)
      | (simp [racyTrace] at h)
  relShared := by
    intro k t m h
    rcases k with _|_|_|k
    all_goals first
      | (rw [racyTrace_none] at h; cases h)
      | (simp [racyTrace] at h)
  forked := by
    intro f t u h k e hk
    rcases f with _|_|_|f
    · simp [racyTrace] at h
      obtain ⟨rfl, rfl⟩ := h
      rcases k with _|_|_|k
      · simp [racyTrace] at hk
      · simp [racyTrace] at hk
      · omega
      · rw [racyTrace_none] at hk; cases hk
    · simp [racyTrace] at h
    · simp [racyTrace] at h
    · rw [racyTrace_none] at h; cases h
  joined := by
    intro n t u h
    rcases n with _|_|_|n
    all_goals first
      | (rw [racyTrace_none] at h; cases h)
      | (simp [racyTrace] at h)

/-- in the racy trace every happens-before edge starts at the fork (index 0) -/
theorem racyTrace_hb {i j : Nat} (h : HB racyTrace i j) : i = 0 := by
  induction h with
  | @po i j t e1 e2 hij h1 h2 =>
    rcases i with _|_|_|i
    · rfl
    · rcases j with _|_|_|j
      · omega
      · omega
      · simp [racyTrace] at h1 h2; omega
      · rw [racyTrace_none] at h2; cases h2
    · rcases j with _|_|_|j
      · omega
      · omega
      · omega
      · rw [racyTrace_none] at h2; cases h2
    · rw [racyTrace_none] at h1; cases h1
  | @sw i j t1 t2 m md1 md2 hij h1 h2 _ =>
    rcases i with _|_|_|i
    · rfl
    · simp [racyTrace] at h1
    · simp [racyTrace] at h1
    · rw [racyTrace_none] at h1; cases h1
  | @fork i j t u e hij h1 h2 =>
    rcases i with _|_|_|i
    · rfl
    · simp [racyTrace] at h1
    · simp [racyTrace] at h1
    · rw [racyTrace_none] at h1; cases h1
  | @join i j t u e hij h1 h2 =>
    rcases j with _|_|_|j
    · omega
    · simp [racyTrace] at h2
    · simp [racyTrace] at h2
    · rw [racyTrace_none] at h2; cases h2
  | trans _ _ ih1 _ => exact ih1

theorem racyTrace_race : Race racyTrace :=
  ⟨1, 2, 0, 1, exX, true, false, by omega, by simp [racyTrace], by simp [racyTrace], by omega, Or.inl rfl,
    fun h => by have := racyTrace_hb h; omega⟩

/-- **a racy two-thread execution**: it is well-formed, it has a race, and therefore it follows NO discipline -/
example : WF racyTrace ∧ Race racyTrace ∧ ∀ d : CLoc Field → Rule (CLoc Field), ¬ Follows racyTrace d :=
  ⟨racyTrace_wf, racyTrace_race, fun d hf => C15_discipline_sound racyTrace racyTrace_wf d hf racyTrace_race⟩

/-- the regenerated table has a row "write of `Resource::m_queue` of `this` under `this->m_mutex`" and the matching read row
(whatever their positions in the table are) -/
theorem table_has_queue_rows : ∀ w : Bool, ∃ e ∈ AccessTable.entries,
    e.loc = .Resource_m_queue ∧ e.obj = .self ∧ e.write = w ∧ e.decl = .plain ∧ e.conds = [] ∧ e.init = false ∧
    e.guards = [⟨.self, .Resource_m_mutex, .excl⟩] ∧ e.spawned = false ∧ entryRole e.root = .any := by
  decide +kernel

/-- the world of the example: every member is its own anchor, threads play no role -/
def exW : World Field := { thr := fun _ _ => 0, anchorOf := fun x => x }

/-- **the hypotheses of `C15_no_race` are satisfiable**: both accesses of `goodTrace` are instances of rows of the
regenerated table (the critical sections of `Resource::lock…` on the Resource object `7`) -/
theorem goodTrace_instances (k t : Nat) (x : CLoc Field) (wr : Bool) (h : goodTrace[k]? = some ⟨t, .acc x wr⟩) :
    IsInstance discipline entryRole excludedConds AccessTable.entries exW goodTrace k t x wr := by
  obtain ⟨e, hmem, hloc, hobj, hw, hdecl, hconds, hinit, hguards, hsp, hrole⟩ := table_has_queue_rows wr
  have hk : (k = 1 ∧ t = 1) ∨ (k = 4 ∧ t = 2) := by
    rcases k with _|_|_|_|_|_|k
    all_goals try (rw [goodTrace_none] at h; cases h)
    all_goals try (simp [goodTrace] at h)
    · exact Or.inl ⟨rfl, h.1.symm⟩
    · exact Or.inr ⟨rfl, h.1.symm⟩
  have hx : x = exX := by
    rcases hk with ⟨rfl, rfl⟩ | ⟨rfl, rfl⟩ <;> simp [goodTrace] at h <;> exact h.1.symm
  subst hx
  refine ⟨e, fun _ => 7, hmem, by rw [hloc]; rfl, rfl, fun hh => by rw [hw]; exact hh, hdecl, ?_, ?_, ?_, ?_, ?_, ?_⟩
  · intro c hc; rw [hconds] at hc; cases hc
  · intro hi; rw [hinit] at hi; cases hi
  · intro g hg
    rw [hguards] at hg
    simp only [List.mem_singleton] at hg
    subst hg
    rcases hk with ⟨rfl, rfl⟩ | ⟨rfl, rfl⟩ <;> (show exclOwner goodTrace exM _ = some _; decide)
  · intro f o ha
    rw [hloc, hobj] at ha
    simp only [anchor, discipline, TRule.isOwned] at ha
    cases ha
    rfl
  · intro hr
    simp only [Entry.role, hsp, hrole, Role.isThreadRole] at hr
    cases hr
  · intro ws hd
    simp [exW, exX, discipline] at hd

/-- `C15_no_race` applied to it -/
example : ¬ Race goodTrace := C15_no_race exW goodTrace goodTrace_wf goodTrace_instances

/-- the table check can fail: a plain `bool` flag where the discipline demands an atomic (the unrepaired
`ThreadPool::m_isRunning`, finding F6/F7) does not follow; the same row with an atomic declaration does -/
example :
    followsDiscipline discipline entryRole excludedConds
      { root := .ThreadPool_stop, spawned := false, loc := .ThreadPool_m_isRunning, obj := .self, write := true, decl := .plain,
        guards := [], init := false, conds := [], unknown := false, site := "" } = false ∧
    followsDiscipline discipline entryRole excludedConds
      { root := .ThreadPool_stop, spawned := false, loc := .ThreadPool_m_isRunning, obj := .self, write := true, decl := .atomicTy,
        guards := [], init := false, conds := [], unknown := false, site := "" } = true ∧
    -- a write of router state under a READ lock does not follow, under a WRITE lock it does
    followsDiscipline discipline entryRole excludedConds
      { root := .ConcurrentSubjectRouter_shrink, spawned := false, loc := .Node_m_children,
        obj := .field (.field .self .ConcurrentSubjectRouter_m_router) .SubjectRouter_m_rootNode, write := true, decl := .plain,
        guards := [⟨.self, .ConcurrentSubjectRouter_m_resource, .shared⟩], init := false, conds := [], unknown := false, site := "" } = false ∧
    followsDiscipline discipline entryRole excludedConds
      { root := .ConcurrentSubjectRouter_shrink, spawned := false, loc := .Node_m_children,
        obj := .field (.field .self .ConcurrentSubjectRouter_m_router) .SubjectRouter_m_rootNode, write := true, decl := .plain,
        guards := [⟨.self, .ConcurrentSubjectRouter_m_resource, .excl⟩], init := false, conds := [], unknown := false, site := "" } = true := by
  decide

end Examples

end Tulz
