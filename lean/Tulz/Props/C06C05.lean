import Tulz.Props.C05
import Tulz.Props.C06
/-
  C06 ∘ C05: the leaf of the router model is a *projection* of the full Subject model.
  The router model keeps per key only `(id, valid)` in subscription order (`Router.Subj`) and delivers
  `Router.Subj.log`.  This file shows that this is exactly what the full Subject model of C05 delivers on a
  subject without muted observers whose callbacks only log (the programs of C06: the router never mutes).
-/
namespace Tulz
open Tulz.Subject

/-- forget everything but `(id, valid)`, in subscription order -/
def toRouterSubj {α : Type} (w : World α) : Router.Subj :=
  w.order.map (fun o => (⟨o.id, o.valid⟩ : Router.Obs))

/-- **the router's leaf delivery is the Subject's delivery**: for a consistent idle subject with only-logging
    callbacks and no muted observer, the call log of `Subject::notify(a)` (C05) equals the log the router model
    computes from its projection of that subject (C06). -/
theorem C06_leaf_is_C05 {α : Type} (lib : Nat → List Action) (fuel : Nat) (w : World α)
    (hwf : WF w) (hd : w.depth = 0) (hplain : Plain w) (hnm : ∀ o ∈ w.order, o.muted = false) (a : α) :
    calls (evsSince w (notify lib fuel w a)) = Router.Subj.log (toRouterSubj w) a := by
  rw [(C05_notify_log lib fuel w hwf hd hplain a).1]
  unfold Router.Subj.log toRouterSubj
  generalize w.order = l at hnm
  induction l with
  | nil => rfl
  | cons o l ih =>
    have ho := hnm o List.mem_cons_self
    have ih' := ih (fun o' h' => hnm o' (List.mem_cons_of_mem _ h'))
    simp only [List.filter_cons, List.map_cons, ho, Bool.not_false, Bool.and_true]
    cases o.valid
    · simpa using ih'
    · simp only [if_true, List.map_cons]
      exact congrArg _ ih'

end Tulz
