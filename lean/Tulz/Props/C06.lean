import Tulz.Proofs.Router
import Tulz.Proofs.RouterIds
/-
C06 — SubjectRouter reaches exactly the observers whose key matches the pattern.

Model: `Tulz/Model/Router.lean` (`rNotify`, `rFlat`, `matchKey`, `run`).  Keys and patterns are written without the
implicit root level.  Every statement holds for an arbitrary regex matcher `rm`, every tree, pattern and history.
-/
namespace Tulz
open Tulz.Router

variable {ρ : Type}

/-- the stored keys are pairwise different: "distinct matched keys" is well defined and no key is visited twice -/
theorem C06_flat_nodup (t : Node) (hwf : WF t) : (rKeys t).Nodup := rKeys_nodup t hwf

/-- `notify(pattern, a)` delivers to exactly the valid observers of the stored keys that have as many levels as the
pattern and match it level by level, in map order, each with the value passed; it returns the number of matched keys
that hold a subject. -/
theorem C06_notify {α : Type} (rm : ρ → String → Bool) (t : Node) (hwf : WF t) (hroot : t.name = "")
    (p : List (Level ρ)) (a : α) :
    (rNotify rm a p t).log = ((rFlat t).filter (fun e => matchKey rm p e.1)).flatMap (fun e => subjLog e.2 a)
    ∧ (rNotify rm a p t).count = ((rFlat t).filter (fun e => matchKey rm p e.1 && e.2.isSome)).length :=
  rNotify_spec rm a p t hwf hroot

/-- exactly once: when the observer ids stored in the router are pairwise different, no id occurs twice in a delivery log -/
theorem C06_notify_ids_once {α : Type} (rm : ρ → String → Bool) (t : Node) (hwf : WF t) (hroot : t.name = "")
    (hids : (allIds t).Nodup) (p : List (Level ρ)) (a : α) : ((rNotify rm a p t).log.map (·.1)).Nodup :=
  (rNotify_ids_sublist rm a p t hwf hroot).nodup hids

/-- after every history of subscribe / unsubscribe / invalidate / shrink / notify on a fresh router the tree is well
formed, so `C06_notify` describes every later notify -/
theorem C06_history (rm : ρ → String → Bool) (ops : List (Op ρ)) (t : Node) (h : run rm emptyRouter ops = some t) :
    WF t ∧ t.name = "" ∧
    ∀ (α : Type) (p : List (Level ρ)) (a : α),
      (rNotify rm a p t).log = ((rFlat t).filter (fun e => matchKey rm p e.1)).flatMap (fun e => subjLog e.2 a)
      ∧ (rNotify rm a p t).count = ((rFlat t).filter (fun e => matchKey rm p e.1 && e.2.isSome)).length := by
  obtain ⟨hs, hn⟩ := run_invariant rm ops emptyRouter t sorted_emptyRouter h
  have hroot : t.name = "" := hn
  exact ⟨hs.wf, hroot, fun α p a => rNotify_spec rm a p t hs.wf hroot⟩

/-- the children of every node stay strictly increasing by name (iteration order of `std::map`) through every history -/
theorem C06_history_sorted (rm : ρ → String → Bool) (ops : List (Op ρ)) (t : Node)
    (h : run rm emptyRouter ops = some t) : Sorted t :=
  (run_invariant rm ops emptyRouter t sorted_emptyRouter h).1

/-- each observer exactly once, for every history: on a fresh router, after any history in which every subscribe uses an
id that was not used before (the ids are the model's names for the observer objects), no observer occurs twice in the
delivery log of any notify -/
theorem C06_history_once {α : Type} (rm : ρ → String → Bool) (ops : List (Op ρ)) (t : Node) (hfresh : FreshIds [] ops)
    (h : run rm emptyRouter ops = some t) (p : List (Level ρ)) (a : α) : ((rNotify rm a p t).log.map (·.1)).Nodup := by
  obtain ⟨hwf, hroot, _⟩ := C06_history rm ops t h
  exact C06_notify_ids_once rm t hwf hroot (history_ids_nodup rm ops t hfresh h) p a

/-! ### non-vacuity: a concrete history and tree satisfying the hypotheses -/

namespace C06Example

def rmAll : Unit → String → Bool := fun _ _ => true

/-- subscribe under three colliding keys, invalidate one observer, unsubscribe another, shrink, notify -/
def ops : List (Op Unit) :=
  [.subscribe ["a", "b"] 1, .subscribe ["a", "ab"] 2, .subscribe ["a", "ab"] 4, .subscribe ["a"] 3,
   .invalidate ["a", "ab"] 2, .unsubscribe ["a", "b"] 1, .shrink [.re (), .re ()], .notify [.str "a", .str "b"]]

def tree : Node := .mk "" none [.mk "a" (some [⟨3, true⟩]) [.mk "ab" (some [⟨2, false⟩, ⟨4, true⟩]) []]]

theorem reached : run rmAll emptyRouter ops = some tree := by rfl

theorem tree_wf : WF tree := (C06_history rmAll ops tree reached).1

example : (rKeys tree).Nodup := C06_flat_nodup tree tree_wf
example : rKeys tree = [[], ["a"], ["a", "ab"]] := by rfl

/-- the hypotheses of `C06_notify` hold for `tree`, and the delivery is not trivial: the wildcard pattern `/a/.*`
reaches observer 4 (observer 2 is invalid) and counts one key -/
example : (rNotify rmAll "x" [.str "a", .re ()] tree).log = [(4, "x")] ∧ (rNotify rmAll "x" [.str "a", .re ()] tree).count = 1 := by
  have := C06_notify rmAll tree tree_wf rfl [.str "a", .re ()] "x"
  exact ⟨by rfl, by rfl⟩

example : ((rNotify rmAll () [.re (), .re ()] tree).log.map (·.1)).Nodup :=
  C06_notify_ids_once rmAll tree tree_wf rfl (by decide) _ _

example : Sorted tree := C06_history_sorted rmAll ops tree reached

example : ((rNotify rmAll "x" [.re (), .re ()] tree).log.map (·.1)).Nodup :=
  C06_history_once rmAll ops tree (by simp [ops, FreshIds]) reached _ _

end C06Example

end Tulz
