import Tulz.Proofs.SubjectRound
/-
  C10 — Subject tolerates callbacks that change it during notify.
  Same model as C05, now with arbitrary callback scripts (`Action`s: subscribe, unsubscribe self/earlier/later via
  handle or subject, mute, unmute, invalidate via handle or SelfView, nested notify) and any nesting bound `fuel`.
  Memory safety is read off the event trace by the monitor `Mon` (touch / free / enter / exit of observer objects).
-/
namespace Tulz
open Tulz.Subject

/-- One outermost `notify`, any scripts, any nesting: from every monitor state that is consistent with the world
    (`MonInv`: nothing destroyed exists, no callback running) the monitor accepts all events of the call — no observer
    is touched after its destruction, none is destroyed twice, none is destroyed while its callback is on the stack,
    calls are balanced — and ends consistent with the new world; no dangling dereference happened (`ub` unchanged). -/
theorem C10_memory_safe {α : Type} (lib : Nat → List Action) (fuel : Nat) (w : World α)
    (hwf : WF w) (hd : w.depth = 0) (a : α) (m : Mon) (hm : MonInv w m) :
    (∃ m', m.run (evsSince w (notify lib fuel w a)) = some m' ∧ MonInv (notify lib fuel w a) m') ∧
    (notify lib fuel w a).ub = w.ub := by
  obtain ⟨_, _, t⟩ := notify_top lib fuel hwf hd a
  obtain ⟨evs, ht, _, hmon⟩ := t.tr
  rw [evsSince_of_trace ht]
  exact ⟨hmon m hm, t.ub⟩

/-- Every history of top-level operations on a fresh subject (callbacks arbitrary): the monitor accepts the whole
    trace and no dangling dereference ever happens. -/
theorem C10_memory_safe_history {α : Type} (lib : Nat → List Action) (sid : Nat) (ops : List (Op α)) :
    (∃ m, Mon.run {} (run lib ({ sid := sid } : World α) ops).trace = some m ∧
          MonInv (run lib ({ sid := sid } : World α) ops) m) ∧
    (run lib ({ sid := sid } : World α) ops).ub = false :=
  history_safe lib sid ops

/-- The round visits the snapshot in order (`round (i :: is) w = round is (turn w i)`, by definition); at its turn
    an id is skipped entirely when it is no longer subscribed, it is not called when it is muted or invalid then,
    and it is called — first thing — when it is subscribed, valid and unmuted *then* (state `w` = the state the
    round has reached, after everything earlier callbacks did). `inner` is the nested notify, any depth. -/
theorem C10_round_semantics {α : Type} (lib : Nat → List Action) (inner : World α → α → World α)
    (hin : ∀ a, Good (fun w => inner w a)) (w : World α) (hwf : WF w) (hd : 0 < w.depth) (i : Nat) (is : List Nat) (a : α) :
    round lib inner (i :: is) w a = round lib inner is (turn lib inner w i a) a ∧
    (i ∉ w.active → turn lib inner w i a = w) ∧
    (i ∈ w.active → ¬ Eligible w i → calls (evsSince w (turn lib inner w i a)) = []) ∧
    (Eligible w i → ∃ rest, evsSince w (turn lib inner w i a) = .touch i :: .enter i a :: rest) :=
  ⟨rfl, turn_skipped lib inner w i a, fun hi hne => turn_not_called lib inner hwf hi hne a,
   fun he => turn_called lib hin hwf hd he a⟩

/-- `notify` is that round over the snapshot taken at entry, and the nested notify of every depth is `Good`. -/
theorem C10_notify_is_round {α : Type} (lib : Nat → List Action) (fuel : Nat) :
    ∃ inner : World α → α → World α, (∀ a, Good (fun w => inner w a)) ∧
      ∀ w a, notify lib fuel w a =
        (let r := round lib inner w.snapshot { w with depth := w.depth + 1 } a
         let r' : World α := { r with depth := r.depth - 1 }
         if r'.depth = 0 then r'.clearGrave else r') := by
  obtain ⟨inner, hin, e⟩ := notify_unfold (α := α) lib fuel
  exact ⟨inner, hin, fun w a => by rw [e]; rfl⟩

theorem mem_snapshot {α : Type} (w : World α) (i : Nat) : i ∈ w.snapshot ↔ i ∈ ids w.obs := by
  unfold World.snapshot ids; simp

/-- Observers subscribed during a round are not in its snapshot (their ids are new), and those still subscribed
    afterwards are in the snapshot of the next round. -/
theorem C10_new_not_in_round {α : Type} (lib : Nat → List Action) (fuel : Nat) (w : World α)
    (hwf : WF w) (hd : w.depth = 0) (a : α) :
    (∀ i ∈ w.snapshot, i < w.counter) ∧
    (∀ i, i ∈ (notify lib fuel w a).active →
      i ∈ w.active ∨ (w.counter ≤ i ∧ i ∉ w.snapshot ∧ i ∈ (notify lib fuel w a).snapshot)) := by
  have h1 : ∀ i ∈ w.snapshot, i < w.counter := fun i hi => hwf.lt i (Or.inl ((mem_snapshot w i).1 hi))
  refine ⟨h1, ?_⟩
  intro i hi
  obtain ⟨w', _, _⟩ := notify_top lib fuel hwf hd a
  have hobs : i ∈ ids (notify lib fuel w a).obs := (w'.act i).1 hi
  rcases notify_fresh lib fuel hwf hd a i (Or.inl hobs) with h | h
  · rcases h with h | h
    · exact Or.inl ((hwf.act i).2 h)
    · rw [hwf.g0 hd] at h; simp [ids] at h
  · exact Or.inr ⟨h, fun hs => absurd (h1 i hs) (Nat.not_lt.2 h), (mem_snapshot _ i).2 hobs⟩

/-- The subject is consistent after `notify`, for every set of scripts and every nesting depth — at top level … -/
theorem C10_wf_preserved {α : Type} (lib : Nat → List Action) (fuel : Nat) (w : World α)
    (hwf : WF w) (hd : w.depth = 0) (a : α) :
    WF (notify lib fuel w a) ∧ (notify lib fuel w a).depth = 0 :=
  let r := notify_top lib fuel hwf hd a
  ⟨r.1, r.2.1⟩

/-- … and when re-entered from a callback (depth > 0): nothing is destroyed then (`Ext`). -/
theorem C10_wf_nested {α : Type} (lib : Nat → List Action) (fuel : Nat) (w : World α)
    (hwf : WF w) (hd : 0 < w.depth) (a : α) :
    WF (notify lib fuel w a) ∧ (notify lib fuel w a).depth = w.depth ∧ Ext w (notify lib fuel w a) :=
  notify_good lib fuel a w hwf hd

/-- … and after every history of top-level operations. -/
theorem C10_wf_history {α : Type} (lib : Nat → List Action) (sid : Nat) (ops : List (Op α)) :
    WF (run lib ({ sid := sid } : World α) ops) ∧ (run lib ({ sid := sid } : World α) ops).depth = 0 :=
  let r := run_top lib ops (WF.init (α := α) sid) rfl
  ⟨r.1, r.2.1⟩

/-! ### non-vacuity: the scenarios of finding F4 and a re-entrant mix, executed -/

def c10Lib : Nat → List Action
  | 0 => [.invalSelf]
  | _ => []

/-- observer 0 unsubscribes itself (handle 0); observer 1 subscribes a self-invalidating observer, removes observer 2
    and re-enters notify; observer 2 would mute observer 0 -/
def c10World : World Nat :=
  run c10Lib { sid := 1 } [.sub [.unsubH 0] false, .sub [.sub 0 false, .unsubS 2, .notify] false, .sub [.mute 0] false]

theorem c10World_wf : WF c10World ∧ c10World.depth = 0 := C10_wf_history c10Lib 1 _

-- the hypotheses of C10_memory_safe hold for the empty monitor, and the round is non-trivial:
example : MonInv c10World {} := ⟨rfl, by intro i hi; simp at hi⟩
example : calls (evsSince c10World (notify c10Lib 2 c10World 9)) = [(0, 9), (1, 9), (1, 9), (1, 9), (3, 9), (4, 9)] := by decide
-- observers 0 and 2 (removed during the round) and 3, 4 (self-invalidated) are destroyed exactly at the end, after the last call
example : (evsSince c10World (notify c10Lib 2 c10World 9)).reverse.take 4 = [.free 0, .free 2, .free 3, .free 4] := by decide
example : (Mon.run {} (evsSince c10World (notify c10Lib 2 c10World 9))).isSome = true := by decide
-- C10_round_semantics: inside the round (depth 1) observer 0 is eligible, observer 2 is skipped once removed
example : Eligible ({ c10World with depth := 1 } : World Nat) 0 :=
  ⟨by decide, ⟨0, true, false, [.unsubH 0]⟩, by decide, rfl, rfl, rfl⟩
-- C10_new_not_in_round: ids 3.. are new
example : c10World.snapshot = [0, 1, 2] ∧ c10World.counter = 3 ∧ (notify c10Lib 2 c10World 9).snapshot = [1, 5] := by decide
-- the monitor does reject an unsafe trace (it is not vacuous): touch after free, free while running
example : Mon.run {} ([.free 0, .touch 0] : List (Ev Nat)) = none ∧
          Mon.run {} ([.enter 0 9, .free 0, .exit 0] : List (Ev Nat)) = none := by decide

end Tulz
