import Tulz.Props.C11
import Tulz.Props.C06
/-
  C11 ∘ C06: the abstract router state of the C11 composition instantiated with the concrete SubjectRouter
  model of C06/C13.  A notify running under the read lock on a ConcurrentSubjectRouter delivers exactly what the
  sequential SubjectRouter of C06 delivers on ONE router state — the state at the instant its lock request was
  granted — whatever the other threads do meanwhile.
-/
namespace Rwp
open Tulz.Router

variable {σ : Type}

/-- a state predicate established initially and preserved by every allowed mutator holds of the current router
    state and of every snapshot, in every reachable state of the composition -/
theorem CReach.pres {lockOf : ROp → Guard} {M : (σ → σ) → Prop} {n : Nat} {r0 : σ} {s : CState σ}
    (P : σ → Prop) (h0 : P r0) (hM : ∀ f, M f → ∀ t, P t → P (f t)) (h : CReach lockOf M n r0 s) :
    P s.cur ∧ ∀ i, P (s.snap i) := by
  induction h with
  | init => exact ⟨h0, fun _ => h0⟩
  | step _ hs ih =>
    obtain ⟨hc, hsn⟩ := ih
    cases hs with
    | lock b' hb =>
      refine ⟨hc, ?_⟩
      intro i
      show P (if newly _ b' i = true then _ else _)
      split
      · exact hc
      · exact hsn i
    | mutate i op hm f hf hb => exact ⟨hM f hf _ hc, hsn⟩
    | observe i op hm hb => exact ⟨hc, hsn⟩

variable {ρ : Type}

/-- the mutators of the concrete router: its own operations; one that throws leaves the state unchanged -/
def routerMut (rm : ρ → String → Bool) (f : Node → Node) : Prop :=
  ∃ op : Op ρ, ∀ t, f t = match applyOp rm t op with | .ok t' => t' | .error _ => t

theorem routerMut_pres (rm : ρ → String → Bool) (f : Node → Node) (hf : routerMut rm f) (t : Node)
    (h : Sorted t ∧ t.name = "") : Sorted (f t) ∧ (f t).name = "" := by
  obtain ⟨op, hop⟩ := hf
  rw [hop t]
  cases hr : applyOp rm t op with
  | ok t' => exact ⟨sorted_applyOp rm t t' op h.1 hr, by rw [name_applyOp rm t t' op hr]; exact h.2⟩
  | error e => exact h

/-- **C11 ∘ C06**: on a ConcurrentSubjectRouter that started empty and is mutated only by router operations, for any
    number of threads and every interleaving: every router state that a notify holding the read lock looks at
    yields exactly the delivery of the sequential router on the snapshot taken when its lock was granted — the
    observers stored under the keys matching the pattern level by level, each valid one once with the passed value —
    and the same count of matched keys holding a subject. -/
theorem C11_concurrent_notify_is_C06 {α : Type} (rm : ρ → String → Bool) (n : Nat) (s : CState Node)
    (h : CReach tableLockOf (routerMut rm) n emptyRouter s) (i : Nat)
    (hi : s.base.ths[i]? = some (.holding .read)) (p : List (Level ρ)) (a : α) :
    ∀ v ∈ s.obs i,
      (rNotify rm a p v).log =
        ((rFlat (s.snap i)).filter (fun e => matchKey rm p e.1)).flatMap (fun e => subjLog e.2 a) ∧
      (rNotify rm a p v).count =
        ((rFlat (s.snap i)).filter (fun e => matchKey rm p e.1 && e.2.isSome)).length := by
  intro v hv
  have hv' := C11_notify_atomic tableLockOf (routerMut rm) C11_table_ok n emptyRouter s h i hi v hv
  have hP := (CReach.pres (fun t => Sorted t ∧ t.name = "")
    ⟨Sorted.mk "" none [] List.Pairwise.nil (fun c hc => by cases hc), rfl⟩
    (fun f hf t ht => routerMut_pres rm f hf t ht) h).2 i
  rw [hv']
  exact Tulz.C06_notify rm (s.snap i) hP.1.wf hP.2 p a

end Rwp
