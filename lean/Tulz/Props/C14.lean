import Tulz.Proofs.ArrayStore
/-
  C14 — tulz::Array has value semantics: contents, copies and element lifetimes are exact.

  Model: Tulz/Model/Array.lean (members of Array<T> on slot lists), ArrayStore.lean (several
  variables + heap of block identities), MemExtra.lean.  `cls` = std::is_class_v<T>.
  An element of the specification is `Option α`: `none` is the indeterminate value of a never
  written element of a non-class type; for class types every element is `some` (C14_class_plain),
  i.e. the specification is a plain `List α`.

  All statements hold for every length (0 included), both values of `cls`, every element type
  `α` (relocatable bitwise), any number of variables and every valid finite history.
-/
namespace Tulz
set_option linter.unusedSectionVars false
open AStore
variable {α : Type} [Inhabited α]

/-- a construction path succeeds and yields exactly the elements `l` -/
def Arr.Yields (r : AM (Arr α)) (l : List (Option α)) : Prop :=
  ∃ a, r = .ok a ∧ a.contents = l ∧ a.size = l.length ∧ a.data = ofSpec l

theorem Arr.yields_of_eq {r : AM (Arr α)} {l : List (Option α)} (h : r = .ok ⟨ofSpec l⟩) : Arr.Yields r l :=
  ⟨_, h, by simp, by simp, rfl⟩

/-- every construction path holds exactly the given number of elements with exactly the given values:
    pointer+length (the first `n` of the source), initializer list, size (default-constructed objects
    for a class type, indeterminate elements otherwise), size+value, default (empty) -/
theorem C14_ctor_contents (cls : Bool) :
    (∀ (src : List α) (n : Nat), n ≤ src.length → Arr.Yields (Arr.ofPtr cls src n) ((src.take n).map some)) ∧
    (∀ vs : List α, Arr.Yields (Arr.ofInit vs) (vs.map some)) ∧
    (∀ n : Nat, Arr.Yields (Arr.ofSize cls n : AM (Arr α)) (List.replicate n (if cls then some default else none))) ∧
    (∀ (n : Nat) (v : α), Arr.Yields (Arr.ofFill n v) (List.replicate n (some v))) ∧
    (Arr.empty : Arr α).contents = [] ∧ (Arr.empty : Arr α).size = 0 :=
  ⟨fun src n h => Arr.yields_of_eq (Arr.ofPtr_spec cls src n h),
   fun vs => Arr.yields_of_eq (Arr.ofInit_spec vs),
   fun n => Arr.yields_of_eq (Arr.ofSize_spec cls n),
   fun n v => Arr.yields_of_eq (Arr.ofFill_spec n v),
   rfl, rfl⟩

example : Arr.Yields (Arr.ofPtr true [5, 6, 7] 2) [some 5, some 6] :=
  (C14_ctor_contents true).1 [5, 6, 7] 2 (by decide)
example : Arr.Yields (Arr.ofSize false 2 : AM (Arr Nat)) [none, none] := (C14_ctor_contents false).2.2.1 2
example : Arr.Yields (Arr.ofPtr true ([] : List Nat) 0) [] := (C14_ctor_contents true).1 [] 0 (by decide)

/-- `resize` keeps the first `min old new` elements and fills the rest (default objects / indeterminate,
    the given value, or the value of the own element `i` the caller referred to), for a well-formed array -/
theorem C14_resize (cls : Bool) (l : List (Option α)) (n : Nat) (hf : cls = true → Spec.full l) :
    Arr.Yields (Arr.resize cls ⟨ofSpec l⟩ n)
      (l.take (min l.length n) ++ List.replicate (n - l.length) (if cls then some default else none)) ∧
    (∀ v : α, Arr.Yields (Arr.resizeFill cls ⟨ofSpec l⟩ n v)
      (l.take (min l.length n) ++ List.replicate (n - l.length) (some v))) ∧
    (∀ (i : Nat) (v : α), l[i]? = some (some v) → Arr.Yields (Arr.resizeSelf cls ⟨ofSpec l⟩ n i)
      (l.take (min l.length n) ++ List.replicate (n - l.length) (some v))) := by
  have ht : l.take (min l.length n) = l.take n := by
    by_cases h : n ≤ l.length
    · rw [Nat.min_eq_right h]
    · have h' : l.length ≤ n := by omega
      rw [Nat.min_eq_left h', List.take_of_length_le h', List.take_of_length_le (Nat.le_refl _)]
  rw [ht]
  exact ⟨Arr.yields_of_eq (Arr.resize_spec cls l n hf),
         fun v => Arr.yields_of_eq (Arr.resizeFill_spec cls l n v hf),
         fun i v h => Arr.yields_of_eq (Arr.resizeSelf_spec cls l n i v h hf)⟩

example : Arr.Yields (Arr.resize true ⟨ofSpec [some 1, some 2, some 3]⟩ 5) [some 1, some 2, some 3, some 0, some 0] :=
  (C14_resize true [some 1, some 2, some 3] 5 (by intro _ x hx; simp at hx; rcases hx with h | h | h <;> simp [h])).1
example : Arr.Yields (Arr.resizeSelf false ⟨ofSpec [some 1, none, some 3]⟩ 1 2) [some 1] :=
  (C14_resize false [some 1, none, some 3] 1 (by intro h; cases h)).2.2 2 3 rfl

/-- one operation: under the store invariant and the operation's precondition the model does not fail
    (no out-of-bounds access, no destructor on a non-object, no construction over a live object, no leak,
    no bad free), keeps the invariant, returns what the list specification returns and ends in the state
    the list specification ends in -/
theorem C14_op_refines (cls : Bool) (s : AStore α) (op : AOp α) (hinv : Inv cls s) (hv : Spec.valid s.abs op) :
    ∃ s', AStore.step cls s op = .ok (s', (Spec.step cls s.abs op).2) ∧ Inv cls s' ∧
          s'.abs = (Spec.step cls s.abs op).1 :=
  step_refines cls s op hinv hv

theorem abs_init (nv : Nat) : (AStore.init nv : AStore α).abs = List.replicate nv none := by
  simp [AStore.abs, AStore.init]

/-- every valid history of construct / copy / move / assign / swap / resize / set / get / iterate / drop over
    any number of variables: the model never fails, returns exactly the outputs of the list specification,
    ends in exactly its state, and the values held by live elements are exactly the specification's contents -/
theorem C14_history (cls : Bool) (nv : Nat) (ops : List (AOp α))
    (hvalid : Spec.validFrom cls (List.replicate nv none) ops) :
    ∃ s', AStore.run cls (AStore.init nv) ops = .ok (s', (Spec.run cls (List.replicate nv none) ops).2) ∧
          s'.abs = (Spec.run cls (List.replicate nv none) ops).1 ∧
          s'.liveVals = Spec.allItems (Spec.run cls (List.replicate nv none) ops).1 ∧
          s'.liveVals.Perm (Spec.allItems (Spec.run cls (List.replicate nv none) ops).1) ∧
          Inv cls s' := by
  have h0 := abs_init (α := α) nv
  obtain ⟨s', h1, h2, h3⟩ := run_refines cls ops (AStore.init nv) (inv_init cls nv) (by rw [h0]; exact hvalid)
  rw [h0] at h1 h3
  have hl : s'.liveVals = Spec.allItems (Spec.run cls (List.replicate nv none) ops).1 := by
    rw [liveVals_abs, h3]
  exact ⟨s', h1, h3, hl, by rw [hl], h2⟩

/-- for a class type the specification is a plain `List α`: every element of every variable in every
    reachable state is a live object -/
theorem C14_class_plain (s : AStore α) (hinv : Inv true s) (i : Nat) (v : AVar α) (hv : s.vars.find i = some v) :
    v.arr.contents = (Spec.plain v.arr.contents).map some ∧
    v.arr.data = (Spec.plain v.arr.contents).map .live :=
  class_plain hinv hv

/-- copies are deep and independent: the new variable holds the same values in a fresh block of its own;
    whatever valid operations are applied afterwards to the other variables (including the source) leave the
    copy's contents untouched, and vice versa; and in no reachable state do two variables share a block -/
theorem C14_copy_independent (cls : Bool) (s : AStore α) (hinv : Inv cls s) (dst src : Nat)
    (l : List (Option α)) (hfree : s.abs.isFree dst = true) (hsrc : s.abs.find src = some l)
    (ops : List (AOp α)) (hvalid : Spec.validFrom cls (Spec.step cls s.abs (.copy dst src)).1 ops) :
    ∃ s1 s2 outs, AStore.step cls s (.copy dst src) = .ok (s1, .unit) ∧ AStore.run cls s1 ops = .ok (s2, outs) ∧
      s1.abs.find dst = some l ∧ s1.abs.find src = some l ∧
      (∃ v w, s1.vars.find src = some v ∧ s1.vars.find dst = some w ∧ w.blk = some s.heap.next ∧
              w.blk ≠ v.blk ∧ w.arr.data = v.arr.data) ∧
      ((∀ op ∈ ops, dst ∉ op.mentions) → s2.abs.find dst = some l) ∧
      ((∀ op ∈ ops, src ∉ op.mentions) → s2.abs.find src = some l) ∧
      (∀ i j v w b, i ≠ j → s2.vars.find i = some v → s2.vars.find j = some w → v.blk = some b → w.blk ≠ some b) := by
  obtain ⟨v, hfv, hc⟩ := abs_find_some hsrc
  have hfree' := free_of_abs hfree
  have hne : src ≠ dst := by
    intro h; subst h; rw [Slots.isFree_find hfree'] at hfv; cases hfv
  have hdst : dst < s.vars.length := Slots.isFree_lt hfree'
  obtain ⟨s1, hs1, hinv1, habs1⟩ := step_refines cls s (.copy dst src) hinv ⟨hfree, l, hsrc⟩
  have hout : (Spec.step cls s.abs (.copy dst src)).2 = AOut.unit := by simp [Spec.step, hsrc]
  rw [hout] at hs1
  have hs1' := step_copy hinv hfree' hfv
  have heq : s1 = s.construct dst v.arr := by
    rw [hs1] at hs1'; cases hs1'; rfl
  rw [← habs1] at hvalid
  obtain ⟨s2, hs2, hinv2, habs2⟩ := run_refines cls ops s1 hinv1 hvalid
  have hd1 : s1.abs.find dst = some l := by
    rw [habs1]; simp [Spec.step, hsrc, Slots.find_put_self, abs_length, hdst]
  have hs1src : s1.abs.find src = some l := by
    rw [habs1]; simp [Spec.step, hsrc, Slots.find_put_ne _ _ _ _ hne]
  have hv1 : s1.vars.find src = some v := by
    rw [heq]; simp [construct, Slots.find_put_ne _ _ _ _ hne, hfv]
  have hw1 : s1.vars.find dst = some ⟨some s.heap.next, v.arr⟩ := by
    rw [heq]; simp [construct, Slots.find_put_self _ _ _ hdst, Heap.alloc]
  refine ⟨s1, s2, _, hs1, hs2, hd1, hs1src, ⟨v, _, hv1, hw1, rfl, ?_, rfl⟩, ?_, ?_, ?_⟩
  · intro hb
    exact no_alias hinv1 (Ne.symm hne) hw1 hv1 rfl hb.symm
  · intro hno; rw [habs2, Spec.run_frame cls ops dst _ hno]; exact hd1
  · intro hno; rw [habs2, Spec.run_frame cls ops src _ hno]; exact hs1src
  · intro i j v' w' b hij hi hj hb
    exact no_alias hinv2 hij hi hj hb

/-- a shallow copy (two variables sharing one block) is refuted: destroying both owners frees the block twice -/
theorem C14_shallow_copy_refuted (cls : Bool) (s : AStore α) (hinv : Inv cls s) (dst src : Nat) (v : AVar α) (b : Nat)
    (hfree : s.vars.isFree dst = true) (hfv : s.vars.find src = some v) (hb : v.blk = some b) :
    (AStore.step cls (shallowCopy s dst v) (.drop src) >>= fun r => AStore.step cls r.1 (.drop dst))
      = .error .badFree :=
  shallow_double_free hinv hfree hfv hb

/-- moves transfer the contents: the destination gets the very same block and storage (nothing is copied,
    nothing allocated or freed), a move-constructed-from source is left empty with a null pointer, and move
    assignment exchanges the two objects -/
theorem C14_move_transfers (cls : Bool) (s : AStore α) (dst src : Nat) (v : AVar α)
    (hfv : s.vars.find src = some v) :
    (s.vars.isFree dst = true →
      ∃ s', AStore.step cls s (.mctor dst src) = .ok (s', .unit) ∧ s'.vars.find dst = some v ∧
            s'.vars.find src = some ⟨none, Arr.empty⟩ ∧ s'.heap = s.heap) ∧
    (∀ d, dst ≠ src → s.vars.find dst = some d →
      ∃ s', AStore.step cls s (.massign dst src) = .ok (s', .unit) ∧ s'.vars.find dst = some v ∧
            s'.vars.find src = some d ∧ s'.heap = s.heap) := by
  have hsrc : src < s.vars.length := Slots.find_lt hfv
  constructor
  · intro hfree
    have hne : src ≠ dst := by
      intro h; subst h; rw [Slots.isFree_find hfree] at hfv; cases hfv
    have hdst : dst < s.vars.length := Slots.isFree_lt hfree
    refine ⟨_, step_mctor cls s hfree hfv, ?_, ?_, rfl⟩
    · exact Slots.find_put_self _ _ _ (by simpa using hdst)
    · rw [Slots.find_put_ne _ _ _ _ hne]; exact Slots.find_put_self _ _ _ hsrc
  · intro d hne hfd
    have hdst : dst < s.vars.length := Slots.find_lt hfd
    refine ⟨_, step_massign cls s hne hfd hfv, ?_, ?_, rfl⟩
    · rw [Slots.find_put_ne _ _ _ _ hne]; exact Slots.find_put_self _ _ _ hdst
    · exact Slots.find_put_self _ _ _ (by simpa using hsrc)

/-- lifetimes: after a valid history at whose end every variable has been destroyed, no element value is
    alive, no block is still allocated, and the log of `free` calls is a permutation of the ids of all blocks
    ever allocated — each block is freed exactly once.  (That no destructor ran on a non-object, nothing was
    constructed over a live object and no block was given back with a live object inside is part of
    "the run does not fail": these are errors of the model.) -/
theorem C14_lifetime (cls : Bool) (nv : Nat) (ops : List (AOp α))
    (hvalid : Spec.validFrom cls (List.replicate nv none) ops)
    (hall : ∀ i, (Spec.run cls (List.replicate nv none) ops).1.find i = none) :
    ∃ s' outs, AStore.run cls (AStore.init nv) ops = .ok (s', outs) ∧
      s'.liveVals = [] ∧ s'.heap.owned = [] ∧ s'.heap.freed.Perm (List.range s'.heap.next) := by
  obtain ⟨s', h1, h2, _, _, hinv⟩ := C14_history cls nv ops hvalid
  have hnone : ∀ i, s'.vars.find i = none := by
    intro i
    have := hall i
    rw [← h2, abs_find] at this
    cases hf : s'.vars.find i with
    | none => rfl
    | some v => simp [hf] at this
  exact ⟨s', _, h1, all_dropped hinv hnone⟩

end Tulz

/-! ### non-vacuity: the hypotheses of the store-level theorems are satisfiable by concrete, non-trivial states -/
namespace Tulz
open AStore

/-- three variables of a class type: construct from a pointer, copy, write, grow, move-construct,
    copy-assign, self-referential resize, swap, read, iterate, destroy everything -/
def exOps : List (AOp Nat) :=
  [.ptr 0 [5, 6, 7] 2, .copy 1 0, .set 0 0 9, .resize 1 3, .mctor 2 0, .cassign 0 1,
   .resizeSelf 0 5 1, .swap 0 2, .get 2 4, .iter 1, .drop 0, .drop 1, .drop 2]

theorem exOps_valid : Spec.validFrom true (List.replicate 3 none) exOps := by
  simp [exOps, Spec.validFrom, Spec.valid, Spec.step, Slots.isFree, Slots.find, Slots.put, Slots.del,
        Spec.resized, Spec.dfl, Spec.full]

theorem exOps_final : (Spec.run true (List.replicate 3 none) exOps).1 = [none, none, none] := by
  simp [exOps, Spec.run, Spec.step, Slots.find, Slots.put, Slots.del, Spec.resized, Spec.dfl]

example : ∃ s', AStore.run true (AStore.init 3) exOps = .ok (s', (Spec.run true (List.replicate 3 none) exOps).2) ∧ Inv true s' := by
  obtain ⟨s', h, _, _, _, hi⟩ := C14_history true 3 exOps exOps_valid
  exact ⟨s', h, hi⟩

example : ∃ s' outs, AStore.run true (AStore.init 3) exOps = .ok (s', outs) ∧ s'.liveVals = [] ∧
    s'.heap.owned = [] ∧ s'.heap.freed.Perm (List.range s'.heap.next) :=
  C14_lifetime true 3 exOps exOps_valid (by
    intro i; rw [exOps_final]
    match i with
    | 0 | 1 | 2 => rfl
    | k + 3 => rfl)

/-- a non-class history with indeterminate elements -/
example : Spec.validFrom false (List.replicate 2 none)
    ([.size 0 2, .set 0 1 4, .resize 0 4, .copy 1 0, .get 1 1, .resizeV 1 1 8, .drop 0, .drop 1] : List (AOp Nat)) := by
  simp [Spec.validFrom, Spec.valid, Spec.step, Slots.isFree, Slots.find, Slots.put, Slots.del,
        Spec.resized, Spec.dfl]

/-- a reachable state with one array `{5, 6}` in block 0 and two free variable slots -/
def exS : AStore Nat := ⟨[some ⟨some 0, ⟨[.live 5, .live 6]⟩⟩, none, none], ⟨1, [0], []⟩⟩

theorem exS_reached : AStore.run true (AStore.init 3) [.ptr 0 [5, 6, 7] 2] = .ok (exS, [.unit]) := by rfl

theorem exS_inv : Inv true exS := by
  obtain ⟨s', h, _, _, _, hi⟩ := C14_history true 3 [.ptr 0 [5, 6, 7] 2]
    (by simp [Spec.validFrom, Spec.valid, Slots.isFree])
  rw [exS_reached] at h
  cases h; exact hi

example : Spec.valid exS.abs (.resize 0 5 : AOp Nat) ∧ Spec.valid exS.abs (.copy 1 0 : AOp Nat) := by
  simp [Spec.valid, exS, AStore.abs, Slots.find, Slots.isFree, Arr.contents]

-- C14_op_refines, C14_class_plain
example := C14_op_refines true exS (.resizeSelf 0 4 1) exS_inv ⟨[some 5, some 6], 6, rfl, rfl⟩
example := C14_class_plain exS exS_inv 0 _ rfl

-- C14_copy_independent: the source is rewritten, shrunk to nothing and destroyed; the copy is not named
example := C14_copy_independent true exS exS_inv 1 0 [some 5, some 6] rfl rfl
  [.set 0 0 9, .resize 0 0, .drop 0]
  (by simp [Spec.validFrom, Spec.valid, Spec.step, exS, AStore.abs, Slots.find, Slots.put,
            Arr.contents, Spec.resized, Spec.dfl])

-- C14_shallow_copy_refuted, C14_move_transfers
example := C14_shallow_copy_refuted true exS exS_inv 1 0 _ 0 rfl rfl rfl
example := (C14_move_transfers true exS 1 0 _ rfl).1 rfl

end Tulz
