import Tulz.Props.C01
import Tulz.Proofs.Rwp.Trace
/-
  C03 — rwp::Resource: FIFO fairness, waiting requests are never overtaken.

  `YState` adds ghost arrival stamps: `stamps[i]` is the value of a global clock at thread i's latest
  `lock*()` critical section. "a is pending" = parked with a ticket that is not admitted yet;
  "b is inside" = b holds the lock or has been admitted and is about to wake up.
-/
namespace Rwp

/-- **C03**: pending requests are ordered by arrival: a smaller ticket means an earlier request. -/
theorem C03_pending_order (n : Nat) (y : YState) (h : YReach n y) (a b ida idb sa sb : Nat)
    (ha : pendingAt y.base a ida) (hb : pendingAt y.base b idb) (hlt : ida < idb)
    (hsa : y.stamps[a]? = some sa) (hsb : y.stamps[b]? = some sb) : sa < sb :=
  (yreach_sinv h).order a b ida idb sa sb ha hb hlt hsa hsb

/-- **C03, the exception**: requests that are inside the lock together (granted together, or joined through the
    fast path) are all read requests. -/
theorem C03_admitted_together_are_readers (n : Nat) (s : State) (h : Reach n s) (i j : Nat) (hij : i ≠ j)
    (pi pj : Pc) (hi : s.ths[i]? = some pi) (hj : s.ths[j]? = some pj)
    (hii : Pc.inside s.sh.bound pi = true) (hjj : Pc.inside s.sh.bound pj = true) :
    pi.kind? = some .read ∧ pj.kind? = some .read := by
  have I := reach_inv h
  have h2 := two_le_countP (Pc.inside s.sh.bound) s.ths i j _ _ hij hi hj hii hjj
  rw [← I.count] at h2
  have hnw : s.sh.act ≠ .write := by intro hw; have := I.wr hw; omega
  obtain ⟨ki, hki⟩ := inside_kind_some hii
  obtain ⟨kj, hkj⟩ := inside_kind_some hjj
  have e1 := I.kinds _ (List.mem_of_getElem? hi) hii ki hki
  have e2 := I.kinds _ (List.mem_of_getElem? hj) hjj kj hkj
  constructor
  · cases ki with
    | read => exact hki
    | write => exact absurd e1.symm hnw
  · cases kj with
    | read => exact hkj
    | write => exact absurd e2.symm hnw

/-- **C03 on executions** (restated from `Proofs/Rwp/Trace.lean`): if `a` was parked and unadmitted in a reachable
    state in which `b` had no request outstanding, then in every later state in which `b` is inside the lock, that
    request of `a` (identified by its arrival stamp) is no longer pending — a later request is never granted
    before an earlier waiting one. Readers granted together are the case where both are inside. -/
theorem C03_never_granted_before_earlier_waiter (n : Nat) (y1 y2 : YState) (h1 : YReach n y1) (r : YRun y1 y2)
    (a b ida ida' sa : Nat) (ha : pendingAt y1.base a ida) (hsa : y1.stamps[a]? = some sa)
    (hb : y1.base.ths[b]? = some .idle) (hin : insideAt y2.base b) :
    ¬ (pendingAt y2.base a ida' ∧ y2.stamps[a]? = some sa) :=
  C03_trace n y1 y2 h1 r a b ida ida' sa ha hsa hb hin

/-! non-vacuity: writer 0 holds, reader 1 pending (stamp 1), writer 2 pending behind it (stamp 2) -/
example : ∃ y, YReach 3 y ∧ pendingAt y.base 1 0 ∧ pendingAt y.base 2 1 ∧ insideAt y.base 0 := by
  have s1 := YReach.step YReach.init (YStep.callFast (yinit 3) 0 .write rfl rfl)
  have s2 := YReach.step s1 (YStep.callSlow _ 1 .read rfl rfl)
  have s3 := YReach.step s2 (YStep.callSlow _ 2 .write rfl rfl)
  exact ⟨_, s3, ⟨.read, false, rfl, by decide⟩, ⟨.write, false, rfl, by decide⟩, ⟨_, rfl, rfl⟩⟩

end Rwp
