import Tulz.Proofs.Locale
/-!
# C19 — `LocaleInfo::get` is total, memory-safe and consistent with its tables

`get` is the byte-level model of the REPAIRED `LocaleInfo::get` (finding F9, repairs/F9.patch) over the tables that
`tools/translators/locale_tables.py` regenerates from `src/LocaleInfo.cpp` on every check.  `spec` is the plain
statement of the property (Model/Locale.lean, with the interpretive choices).  The generic theorems live in
Proofs/Locale.lean and hold for ANY two tables satisfying `LangFacts` / `CountryFacts`; here they are instantiated
with the facts proved by kernel evaluation (`decide +kernel`) over the regenerated tables, so an edit of a table
entry that breaks a fact (a key with `_`, a key of 64 bytes, a code that is also a name, …) breaks this file.
-/
namespace Tulz
open Tulz.Locale

/-- **Table facts**, re-proved over the regenerated tables on every run: every key is shorter than 64 bytes and
contains neither `_` nor NUL; no language key contains `.`; language codes and language names are disjoint; country
codes are unique, country names are unique, and no country code is a country name; the fallback literals
(`en`/`English`, `GB`/`United Kingdom`) are table entries. -/
theorem C19_table_facts : LangFacts languageTable ∧ CountryFacts countryTable :=
  ⟨langFacts_of_check _ languageTableEnc languageSplitLen (by decide +kernel),
   countryFacts_of_check _ countryTableEnc countrySplitLen (by decide +kernel)⟩

/-- **Memory safety for every string of every length**: the model never takes an error branch — no `memcpy` with a
negative or over-long length, no read past the NUL of the argument, no `strcmp` on an unterminated buffer, no
uninitialised field in the result.  (Holds for arbitrary byte lists, even with NUL bytes inside, and needs no table fact.) -/
theorem C19_safe (s : Bytes) : ∃ i, get s = .ok i := getT_safe languageTable countryTable s

/-- **The repaired code computes the specification** for every C string (a byte list without NUL). -/
theorem C19_get_eq_spec (s : Bytes) (h0 : 0 ∉ s) : get s = .ok (spec s) :=
  getT_eq_specT languageTable countryTable C19_table_facts.1.short C19_table_facts.1.disjoint C19_table_facts.2.short s h0

/-- `""` or `.charset` -/
def IsSuffix (suffix : Bytes) : Prop := suffix = [] ∨ ∃ cs, suffix = dot :: cs

/-- **Known language CODE × known country (by code or by name, without `.`), with or without `.charset`**:
that code, all table names carrying it in table order (the entry's own name among them), that country, no error. -/
theorem C19_known_code (e : Bytes × Bytes) (he : e ∈ languageTable) (c : Bytes × Bytes) (hc : c ∈ countryTable)
    (k : Bytes) (hk : k = c.1 ∨ k = c.2) (hkd : dot ∉ k) (suffix : Bytes) (hs : IsSuffix suffix) :
    spec (e.1 ++ underscore :: k ++ suffix) =
      { languages := namesOf languageTable e.1, languageCode := e.1, country := c.2, countryCode := c.1, error := false }
    ∧ e.2 ∈ namesOf languageTable e.1 :=
  ⟨specT_known_code _ _ C19_table_facts.1 C19_table_facts.2 e he c hc k hk hkd suffix hs, mem_namesOf _ e he⟩

/-- **Known language NAME × known country**: the code of the FIRST table entry `e'` with that name, that name, that country.
(For a name that occurs once, `e' = e`; `Norwegian` and `Ndebele` occur under several codes.) -/
theorem C19_known_name (e : Bytes × Bytes) (he : e ∈ languageTable) (c : Bytes × Bytes) (hc : c ∈ countryTable)
    (k : Bytes) (hk : k = c.1 ∨ k = c.2) (hkd : dot ∉ k) (suffix : Bytes) (hs : IsSuffix suffix) :
    ∃ e' ∈ languageTable, e'.2 = e.2 ∧ languageTable.find? (fun x => x.2 == e.2) = some e' ∧
      spec (e.2 ++ underscore :: k ++ suffix) =
        { languages := [e.2], languageCode := e'.1, country := c.2, countryCode := c.1, error := false } :=
  specT_known_name _ _ C19_table_facts.1 C19_table_facts.2 e he c hc k hk hkd suffix hs

/-- the same two statements about the model of the code itself (keys and charset without NUL) -/
theorem C19_known (e : Bytes × Bytes) (he : e ∈ languageTable) (c : Bytes × Bytes) (hc : c ∈ countryTable)
    (k : Bytes) (hk : k = c.1 ∨ k = c.2) (hkd : dot ∉ k) (suffix : Bytes) (hs : IsSuffix suffix) (h0 : 0 ∉ suffix) :
    get (e.1 ++ underscore :: k ++ suffix) =
      .ok { languages := namesOf languageTable e.1, languageCode := e.1, country := c.2, countryCode := c.1, error := false }
    ∧ ∃ e' ∈ languageTable, e'.2 = e.2 ∧
      get (e.2 ++ underscore :: k ++ suffix) =
        .ok { languages := [e.2], languageCode := e'.1, country := c.2, countryCode := c.1, error := false } := by
  have hL := C19_table_facts.1
  have hC := C19_table_facts.2
  have hk0 : 0 ∉ k := by rcases hk with rfl | rfl; exact (hC.noNul c hc).1; exact (hC.noNul c hc).2
  have hu : (0 : Nat) ≠ underscore := by decide
  constructor
  · rw [C19_get_eq_spec _ (by simp [(hL.noNul e he).1, hk0, h0, hu]), (C19_known_code e he c hc k hk hkd suffix hs).1]
  · obtain ⟨e', hm, hn, _, h⟩ := C19_known_name e he c hc k hk hkd suffix hs
    exact ⟨e', hm, hn, by rw [C19_get_eq_spec _ (by simp [(hL.noNul e he).2, hk0, h0, hu]), h]⟩

/-- **Every other string** — no `_`, a `.` before the `_`, an unknown or empty part, an unknown language with a known
country, an over-long part — gets the English / United Kingdom fallback with `error` set. -/
theorem C19_other (s : Bytes) (h : ¬ wellShaped languageTable countryTable s) : spec s = fallback :=
  specT_other _ _ s h

/-- the two cases partition all strings -/
theorem C19_error_iff (s : Bytes) : (spec s).error = false ↔ wellShaped languageTable countryTable s :=
  specT_error_iff _ _ C19_table_facts.1 C19_table_facts.2 s

/-- **Every returned string is a component of a table entry** (by content): each returned name is paired with the
returned code in the language table, at least one name is returned, and (countryCode, country) is an entry of the
country table — for every string, fallback included. -/
theorem C19_pointers (s : Bytes) : inTables languageTable countryTable (spec s) :=
  specT_inTables _ _ C19_table_facts.1.hasFallback C19_table_facts.2.hasFallback s

/-! ## non-vacuity and finding F9 stated on the model of the code as found -/

-- "nb_NO.UTF-8": code nb, its three names in table order, Norway
example : get [110, 98, 95, 78, 79, 46, 85, 84, 70, 45, 56] =
    .ok { languages := [[66, 111, 107, 109, 195, 165, 108], [78, 111, 114, 119, 101, 103, 105, 97, 110],
                        [78, 111, 114, 119, 101, 103, 105, 97, 110, 32, 66, 111, 107, 109, 195, 165, 108]],
          languageCode := [110, 98], country := [78, 111, 114, 119, 97, 121], countryCode := [78, 79], error := false } := by
  decide +kernel

-- hypotheses of C19_known_code / C19_known_name are satisfiable: ("hu","Hungarian") × ("HU","Hungary"), key by name
example : (([104, 117], [72, 117, 110, 103, 97, 114, 105, 97, 110]) : Bytes × Bytes) ∈ languageTable ∧
    (([72, 85], [72, 117, 110, 103, 97, 114, 121]) : Bytes × Bytes) ∈ countryTable ∧ dot ∉ [72, 117, 110, 103, 97, 114, 121] ∧
    IsSuffix [] ∧ IsSuffix (dot :: [49, 50, 53, 50]) := by
  refine ⟨by decide +kernel, by decide +kernel, by decide, Or.inl rfl, Or.inr ⟨_, rfl⟩⟩

-- "Hungarian_Hungary.1252" through the theorem
example : spec ([72, 117, 110, 103, 97, 114, 105, 97, 110] ++ underscore :: [72, 117, 110, 103, 97, 114, 121] ++ dot :: [49, 50, 53, 50])
    = { languages := [[72, 117, 110, 103, 97, 114, 105, 97, 110]], languageCode := [104, 117],
        country := [72, 117, 110, 103, 97, 114, 121], countryCode := [72, 85], error := false } := by
  decide +kernel

-- C19_other is not vacuous: "zz_GB" (unknown language, known country) is not well-shaped and gets the fallback
example : spec [122, 122, 95, 71, 66] = fallback := by decide +kernel
example : ¬ wellShaped languageTable countryTable [122, 122, 95, 71, 66] := by
  rw [← C19_error_iff]; decide +kernel
-- and well-shaped strings exist: "en_GB"
example : wellShaped languageTable countryTable [101, 110, 95, 71, 66] := by
  rw [← C19_error_iff]; decide +kernel

-- F9 on the code AS FOUND (`getAsFound`): each of the three symptoms is an error branch of the model …
example : getAsFound (List.replicate 80 97 ++ [95, 71, 66]) = .error .bufferOverflow := by decide +kernel   -- "a"*80+"_GB"
example : getAsFound (List.replicate 64 97 ++ [95, 71, 66]) = .error .noTerminator := by decide +kernel     -- 64 bytes: no NUL left
example : getAsFound [101, 110, 46, 120, 95, 71, 66] = .error .negativeLength := by decide +kernel          -- "en.x_GB"
example : getAsFound [122, 122, 95, 71, 66] = .error .uninitialised := by decide +kernel                    -- "zz_GB"
-- … and the repaired code returns the fallback on all of them
example : get (List.replicate 80 97 ++ [95, 71, 66]) = .ok fallback := by decide +kernel
example : get [101, 110, 46, 120, 95, 71, 66] = .ok fallback := by decide +kernel
example : get [122, 122, 95, 71, 66] = .ok fallback := by decide +kernel

end Tulz
