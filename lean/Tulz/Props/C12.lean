import Tulz.Props.C02
/-
  C12 — rwp::Resource lets readers share: no reader waits without a writer.
-/
namespace Rwp

/-- **C12, rendezvous**: a reader that has been admitted (its ticket is below the unlock bound) completes its
    wake-up within two steps that involve only itself and a pending `notify_all` — it does not depend on any other
    thread locking or unlocking (the shared state is unchanged), so readers of one batch may wait for each
    other inside the lock. -/
theorem C12_rendezvous (ps : List (List Kind)) (x : XState) (h : XReach ps x) (i : Nat) (id : Nat) (n : Bool)
    (hi : x.base.ths[i]? = some (.waiting .read id n)) (ha : id < x.base.sh.bound) :
    ∃ k y, k ≤ 2 ∧ XRun k x y ∧ y.base.ths[i]? = some (.holding .read) ∧ y.base.sh = x.base.sh := by
  have hlt : i < x.base.ths.length := by
    rcases Nat.lt_or_ge i x.base.ths.length with h' | h'
    · exact h'
    · rw [List.getElem?_eq_none h'] at hi; cases hi
  have wake : ∀ (x' : XState), x'.base.ths[i]? = some (.waiting .read id true) → id < x'.base.sh.bound →
      i < x'.base.ths.length →
      ∃ y, XStep x' y ∧ y.base.ths[i]? = some (.holding .read) ∧ y.base.sh = x'.base.sh := by
    intro x' hi' ha' hl'
    exact ⟨_, XStep.wakeOk x' i .read id hi' ha', by simp [List.getElem?_set_self hl'], rfl⟩
  cases n with
  | true =>
    obtain ⟨y, hs, hy, hsh⟩ := wake x hi ha hlt
    exact ⟨1, y, by omega, XRun.step hs (XRun.refl _), hy, hsh⟩
  | false =>
    rcases C02_admitted_wakes ps x h i .read id false hi ha with ⟨y, hs, hy⟩ | ⟨m, y, _, hs, hy, hsh⟩
    · -- impossible branch of the lemma for an un-notified waiter is still fine: one step suffices
      refine ⟨1, y, by omega, XRun.step hs (XRun.refl _), hy, ?_⟩
      cases hs with
      | wakeOk j k id' hj hb => rfl
      | callFast j k rest hp hj hf =>
        exfalso
        by_cases e : j = i
        · subst e; simp [hi] at hj
        · simp [List.getElem?_set_ne e, hi] at hy
      | callSlow j k rest hp hj hf =>
        exfalso
        by_cases e : j = i
        · subst e; simp [hi] at hj
        · simp [List.getElem?_set_ne e, hi] at hy
      | wakeNo j k id' hj hb =>
        exfalso
        by_cases e : j = i
        · subst e; simp [hi] at hj
        · simp [List.getElem?_set_ne e, hi] at hy
      | unlockLast j k hj hc =>
        exfalso
        by_cases e : j = i
        · subst e; simp [hi] at hj
        · simp [List.getElem?_set_ne e, hi] at hy
      | unlockMore j k hj hc =>
        exfalso
        by_cases e : j = i
        · subst e; simp [hi] at hj
        · simp [List.getElem?_set_ne e, hi] at hy
      | notify j hj => rfl
    · have hl' : i < y.base.ths.length := by
        rcases Nat.lt_or_ge i y.base.ths.length with h' | h'
        · exact h'
        · rw [List.getElem?_eq_none h'] at hy; cases hy
      obtain ⟨z, hs2, hz, hsh2⟩ := wake y hy (by rw [hsh]; exact ha) hl'
      exact ⟨2, z, by omega, XRun.step hs (XRun.step hs2 (XRun.refl _)), hz, by rw [hsh2, hsh]⟩

/-! non-vacuity: writer 0 holds, readers 1 and 2 queue behind it in one entry; after the writer's unlock both tickets
    are below the bound (admitted together) although neither has woken up yet -/
example : ∃ s, Reach 3 s ∧ s.ths[1]? = some (.waiting .read 0 false) ∧ s.ths[2]? = some (.waiting .read 1 false) ∧
    s.sh.bound = 2 := by
  have s1 := Reach.step Reach.init (Step.callFast (init 3) 0 .write rfl rfl)
  have s2 := Reach.step s1 (Step.callSlow _ 1 .read rfl rfl)
  have s3 := Reach.step s2 (Step.callSlow _ 2 .read rfl rfl)
  have s4 := Reach.step s3 (Step.unlockLast _ 0 .write rfl rfl)
  exact ⟨_, s4, rfl, rfl, rfl⟩

end Rwp
