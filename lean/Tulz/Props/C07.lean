import Tulz.Proofs.Pool.Restart
/-
  C07 — tulz::ThreadPool runs every task at most once and owns it until destroyed once.

  `TPool.State` (Tulz/Model/Pool.lean) is a transition system for one owner thread executing any program of
  `start t | clear | stop` operations and up to `max` non-expiring workers, at the granularity of the
  `m_queueMutex` / `m_poolMutex` critical sections of ThreadPool.cpp (16 step kinds, `Step`; `SStep` adds spurious
  wake-ups of parked workers).  `Reach max prog s`: `s` is reachable by any interleaving of `SStep`s.
  Ghost history: `submitted`, `runs` (runBegin events in order), `finished` (runEnd), `destroyed`, `dropped`
  (destroyed by clear()/stop() while still queued), `stopped` (a stop() returned and no start() since).
  The hypothesis `(tasksOf prog).Nodup` says that the owner submits distinct task objects.
-/
namespace TPool

variable {max : Nat} {prog : List OwnerOp} {s : State}

/-- **C07**: every task is executed at most once. -/
theorem C07_run_at_most_once (hp : (tasksOf prog).Nodup) (h : Reach max prog s) : s.runs.Nodup :=
  (reach_runs hp h).runs_nodup

/-- **C07**: every task is destroyed at most once. -/
theorem C07_destroy_at_most_once (hp : (tasksOf prog).Nodup) (h : Reach max prog s) : s.destroyed.Nodup :=
  (reach_own hp h).destroyed_nodup

/-- **C07** (key invariant): every submitted task is in exactly one place: still queued, in one worker's hands, or
    destroyed. -/
theorem C07_owned (hp : (tasksOf prog).Nodup) (h : Reach max prog s) :
    (s.queue ++ hands s.ws ++ s.destroyed).Perm s.submitted ∧ s.submitted.Nodup :=
  ⟨(reach_own hp h).owned, (List.nodup_append.1 (reach_own hp h).fresh).1⟩

/-- **C07**: a task is never destroyed before or during its own execution: a destroyed task that ever started has
    finished; a task that is running is not destroyed; a destroyed task is neither queued nor in anybody's hands
    (so it cannot start later). -/
theorem C07_destroy_after_run (hp : (tasksOf prog).Nodup) (h : Reach max prog s) :
    (∀ t ∈ s.destroyed, t ∈ s.runs → t ∈ s.finished) ∧
    (∀ (w : Nat) (t : Task), s.ws[w]? = some (.running t) → t ∉ s.destroyed) ∧
    (∀ t ∈ s.destroyed, t ∉ s.queue ∧ t ∉ hands s.ws) := by
  have O := reach_own hp h
  refine ⟨(reach_runs hp h).destroyed_ok, fun _ _ hw => (O.hand_excl hw rfl).2, ?_⟩
  intro t ht
  have hn := O.nodup_all
  rw [List.nodup_append] at hn
  exact ⟨fun hq => hn.2.2 t (List.mem_append_left _ hq) t ht rfl, fun hh => hn.2.2 t (List.mem_append_right _ hh) t ht rfl⟩

/-- **C07**: tasks are dequeued — `runs` is extended inside the dequeueing critical section — in submission order. -/
theorem C07_fifo (hp : (tasksOf prog).Nodup) (h : Reach max prog s) : s.runs.Sublist s.submitted :=
  (List.sublist_append_left _ _).trans (reach_runs hp h).fifo

/-- **C07** (single worker): with `max = 1` at most one worker thread is alive at any time (a restart spawns a new one
    only after `stop()` joined the old one), so the dequeue order of `C07_fifo` is the execution order. -/
theorem C07_single_worker (h : Reach 1 prog s) {w w' : Nat} {wk wk' : Worker} (hw : s.ws[w]? = some wk)
    (hw' : s.ws[w']? = some wk') (hne : wk ≠ .exited) (hne' : wk' ≠ .exited) : w = w' := by
  have S := reach_stop h
  have h1 := S.in_pool hw hne
  have h2 := S.in_pool hw' hne'
  have hl := S.max_ok
  rw [reach_max h] at hl
  cases hp : s.pool with
  | nil => rw [hp] at h1; cases h1
  | cons a l =>
    cases l with
    | nil => rw [hp] at h1 h2; simp at h1 h2; rw [h1, h2]
    | cons b l => rw [hp] at hl; simp at hl

/-- **C07**: after `stop()` has returned (and until the next `start`) no task starts running. -/
theorem C07_no_run_after_stop (h : Reach max prog s) (t : State) (hs : SStep s t) (hst : s.stopped = true) :
    t.runs = s.runs := by
  have S := reach_stop h
  have hr := (S.stopped_ok hst).1
  cases hs with
  | spurious w hw => rfl
  | code hc => cases hc <;> first | rfl | (rename_i hr' _; rw [hr] at hr'; cases hr')

/-- **C07 (no lost task)**: while the pool is running, a queued task always has somebody who will get to it:
    a worker that is awake, busy or already notified, or the owner still inside `start()` about to spawn/notify. -/
theorem C07_progress (hmax : 1 ≤ max) (h : Reach max prog s) (hq : s.queue ≠ []) (hr : s.running = true) :
    ∃ t, Step s t := queue_progress max prog s hmax h hq hr

/-- **C07 (quiescent states)**: in a reachable state in which no step of the code is enabled the owner's program is
    finished, every submitted task has been destroyed exactly once, and a task that was not in the queue at a
    clear()/stop() (`∉ dropped`) was run exactly once (and a dropped one never ran). -/
theorem C07_quiescent (hp : (tasksOf prog).Nodup) (hmax : 1 ≤ max) (h : Reach max prog s) (hq : ∀ t, ¬ Step s t) :
    s.owner = .idle [] ∧ s.submitted = tasksOf prog ∧ s.queue = [] ∧
    (∀ t ∈ tasksOf prog, s.destroyed.count t = 1) ∧
    (∀ t ∈ tasksOf prog, (t ∈ s.dropped ∧ s.runs.count t = 0) ∨
                         (t ∉ s.dropped ∧ s.runs.count t = 1 ∧ s.finished.count t = 1)) := by
  have Q := quiescent_of_stuck hp hmax h hq
  exact ⟨Q.owner_done, Q.all_submitted, Q.queue_empty, Q.destroyed_once, Q.fate⟩

/-- **C07 (every run is finite)**: every step of the code strictly decreases `measure`, so a run of `k` steps from a
    reachable state satisfies `k ≤ measure s`; a run that cannot be extended ends in a quiescent state. -/
theorem C07_every_run_finishes (hp : (tasksOf prog).Nodup) (hmax : 1 ≤ max) (h : Reach max prog s) :
    (∀ t, Step s t → measure t < measure s) ∧
    (∀ k u, Run k s u → k + measure u ≤ measure s) ∧
    (∀ k u, Run k s u → (∀ v, ¬ Step u v) → Quiescent prog u) :=
  ⟨fun _ hs => measure_decreases h hs, fun _ _ r => run_bounded h r,
   fun _ _ r hq => quiescent_of_stuck hp hmax (r.reach h) hq⟩

/-! ### non-vacuity -/

/-- program used by the examples: two tasks, stop, restart with a third task, stop -/
def exProg : List OwnerOp := [.start 1, .start 2, .stop, .start 3, .stop]

/-- owner submits 1 and 2 (one worker, `max = 1`), the worker has dequeued 1 and is running it -/
def exLabels1 : List Label :=
  [.owner none, .owner none, .owner none,        -- start 1: enqueue, spawn worker 0, notify (nobody parked)
   .worker 0,                                    -- worker 0 takes task 1
   .owner none, .owner none, .owner none]        -- start 2: enqueue, no spawn (max = 1), notify

/-- … the complete run: both tasks run and are deleted, stop, restart, task 3 dropped by the final stop -/
def exLabels2 : List Label :=
  exLabels1 ++
  [.worker 0, .worker 0, .worker 0, .worker 0, .worker 0,   -- runEnd 1, delete 1, take 2, runEnd 2, delete 2
   .worker 0,                                               -- park
   .owner none, .owner none, .worker 0,                     -- stop: flag, notify_all; worker 0 exits
   .owner none, .owner none, .owner none,                   -- join 0, pool cleared, clear()
   .owner none, .owner none, .owner none,                   -- start 3: enqueue, spawn worker 1, notify
   .owner none, .owner none, .worker 1,                     -- stop: flag, notify_all; worker 1 exits without running 3
   .owner none, .owner none, .owner none]                   -- join 1, pool cleared, clear() destroys 3

theorem exProg_nodup : (tasksOf exProg).Nodup := by decide

def exState1 : State :=
  { queue := [2], running := true, pool := [0], ws := [.running 1], owner := .idle [.stop, .start 3, .stop], max := 1,
    submitted := [1, 2], runs := [1], finished := [], destroyed := [], dropped := [], stopped := false }

def exState2 : State :=
  { queue := [], running := false, pool := [], ws := [.exited, .exited], owner := .idle [], max := 1,
    submitted := [1, 2, 3], runs := [1, 2], finished := [1, 2], destroyed := [1, 2, 3], dropped := [3], stopped := true }

theorem exState1_reach : Reach 1 exProg exState1 :=
  xrun?_reach (ls := exLabels1) Reach.init (by decide)

theorem exState2_reach : Reach 1 exProg exState2 :=
  xrun?_reach (ls := exLabels2) Reach.init (by decide)

/-- a reachable state with one task running in a worker's hands, one queued, none destroyed
    (hypotheses of C07_run_at_most_once … C07_progress are satisfiable, and the conclusions are not trivial) -/
example : ∃ s, Reach 1 exProg s ∧ s.ws[0]? = some (.running 1) ∧ s.queue = [2] ∧ s.runs = [1] ∧ s.running = true :=
  ⟨exState1, exState1_reach, by decide⟩

/-- a reachable stuck state (hypotheses of C07_quiescent): the program has ended; tasks 1, 2 ran once, task 3 was
    dropped by the second stop(); all three destroyed -/
example : ∃ s, Reach 1 exProg s ∧ (∀ t, ¬ Step s t) ∧ s.runs = [1, 2] ∧ s.dropped = [3] ∧ s.destroyed = [1, 2, 3] ∧
    s.stopped = true :=
  ⟨exState2, exState2_reach, stuck_of_stuckB (by decide), by decide⟩

/-- the run `exLabels2` is a `Run` from the initial state whose length is below the measure (C07_every_run_finishes) -/
example : measure (init 1 exProg) = 43 ∧ exLabels2.length = 28 ∧ measure exState2 = 0 := by decide

end TPool
