import Tulz.Proofs.SubjectRound
/-
  C05 — Subject delivers to exactly the live, unmuted observers, in order.
  Model: Tulz/Model/Subject.lean (`World` = one Subject + the program's handle table + event trace).
  `calls` is the call log (observer id, argument) extracted from the trace; `α` is the argument pack.
-/
namespace Tulz
open Tulz.Subject

/-- `notify(args)` on a consistent subject whose callbacks only log: the call log is exactly the subscribed,
    valid, unmuted observers in subscription order with the value passed; ids are pairwise distinct, so each
    observer is called exactly once. -/
theorem C05_notify_log {α : Type} (lib : Nat → List Action) (fuel : Nat) (w : World α)
    (hwf : WF w) (hd : w.depth = 0) (hplain : Plain w) (a : α) :
    calls (evsSince w (notify lib fuel w a))
      = (w.order.filter (fun o => o.valid && !o.muted)).map (fun o => (o.id, a)) ∧
    (ids w.order).Nodup :=
  ⟨(notify_plain lib fuel hwf hd hplain a).1, by
    unfold World.order ids; rw [List.map_reverse]; exact (List.reverse_perm _).nodup_iff.2 hwf.nd_obs⟩

/-- An id that was issued (`i < counter`) and is unsubscribed or whose observer is invalid (`¬ Live`) occurs in
    no call log of any later history — whatever the callbacks do (arbitrary scripts, any nesting). -/
theorem C05_never_again {α : Type} (lib : Nat → List Action) (w : World α) (hwf : WF w) (hd : w.depth = 0)
    (i : Nat) (hi : i < w.counter) (hdead : ¬ Live w i) (ops : List (Op α)) (a : α) :
    (i, a) ∉ calls (evsSince w (run lib w ops)) :=
  never_again lib hwf hd hi hdead ops a

/-- … and "unsubscribed" / "invalidated" do imply `¬ Live`. -/
theorem C05_dead_cases {α : Type} (w : World α) (hwf : WF w) :
    (∀ i, i ∉ w.active → ¬ Live w i) ∧ (∀ o ∈ w.obs, o.valid = false → ¬ Live w o.id) :=
  ⟨fun _ h hl => h hl.1, fun _ ho hv => not_live_of_invalid hwf ho hv⟩

/-- `Subscription::isValid()` is true exactly for a handle of this subject whose observer is still subscribed,
    and for such a handle (held by the program) `isMuted()` reports that observer's mute flag. -/
theorem C05_handle_reports {α : Type} (w : World α) (hwf : WF w) (h : Handle) :
    (w.handleValid h = true ↔ h.subj = some w.sid ∧ ∃ o ∈ w.obs, h.id = some o.id) ∧
    (h ∈ w.handles → h.subj = some w.sid → ∀ o ∈ w.obs, h.id = some o.id → w.handleMuted h = some o.muted) := by
  constructor
  · unfold World.handleValid World.isSubscriptionValid
    constructor
    · intro hv
      cases hval : w.validId? h with
      | none => simp [hval] at hv
      | some i =>
        obtain ⟨hs, hid, hact⟩ := validId?_some hval
        obtain ⟨o, ho, hoi⟩ := mem_ids.1 ((hwf.act i).1 hact)
        exact ⟨hs, o, ho, by rw [hid, hoi]⟩
    · rintro ⟨hs, o, ho, hid⟩
      have hact : o.id ∈ w.active := (hwf.act _).2 (mem_ids.2 ⟨o, ho, rfl⟩)
      simp [World.validId?, hs, hid, hact]
  · intro hh hs o ho hid
    have hobs : h.obs = some o.id := (hwf.hs h hh hs).trans hid
    unfold World.handleMuted
    rw [hobs]
    simp [hwf.lookup_obs ho]

/-- Unsubscribing through a stale, cleared, moved-from or foreign handle throws and changes nothing. -/
theorem C05_reject_stale {α : Type} (lib : Nat → List Action) (w : World α) (hi : Nat) (h : Handle)
    (hh : w.handles[hi]? = some h) (hs : w.isSubscriptionValid h = false) :
    w.unsubscribe h = none ∧ step lib w (.unsubS hi) = (w, .invalidArg) := by
  have hv : w.validId? h = none := by
    unfold World.isSubscriptionValid at hs
    cases hval : w.validId? h with
    | none => rfl
    | some i => simp [hval] at hs
  have h1 : w.unsubscribe h = none := by unfold World.unsubscribe; rw [hv]
  refine ⟨h1, ?_⟩
  simp [step, hh, World.unsubSlot, h1]

/-- Unsubscribing through a valid handle removes exactly that id and clears the handle. -/
theorem C05_unsubscribe_ok {α : Type} (w : World α) (h : Handle) (i : Nat) (hv : w.validId? h = some i) :
    w.unsubscribe h = some (w.unsubscribeById i, Handle.null) ∧
    i ∉ (w.unsubscribeById i).active ∧ (∀ j, j ≠ i → (j ∈ (w.unsubscribeById i).active ↔ j ∈ w.active)) := by
  refine ⟨by unfold World.unsubscribe; rw [hv], ?_, ?_⟩
  · rw [unsubById_active, mem_eraseSet]; exact fun h => h.2 rfl
  · intro j hj; rw [unsubById_active, mem_eraseSet]; exact ⟨fun h => h.1, fun h => ⟨h, hj⟩⟩

/-! ### non-vacuity: a concrete reachable subject (3 observers, the 2nd muted at construction, the 3rd invalidated) -/

def c05Lib : Nat → List Action := fun _ => []
def c05World : World Nat :=
  run c05Lib { sid := 7 } [.sub [] false, .sub [] true, .sub [] false, .sub [] false, .inval 2, .unsubS 3, .hmove 0 3]

theorem c05World_wf : WF c05World ∧ c05World.depth = 0 :=
  let r := run_top c05Lib _ (WF.init (α := Nat) 7) rfl
  ⟨r.1, r.2.1⟩

theorem c05World_plain : Plain c05World := by unfold Plain; decide
-- C05_notify_log: the hypotheses hold and the log is non-trivial (observer 1 muted, 2 invalid, 3 unsubscribed)
example : calls (evsSince c05World (notify c05Lib 0 c05World 5)) = [(0, 5)] :=
  (C05_notify_log c05Lib 0 c05World c05World_wf.1 c05World_wf.2 c05World_plain 5).1.trans (by decide)
-- C05_never_again: id 3 was unsubscribed, id 2 is invalid
example : (3 < c05World.counter ∧ ¬ Live c05World 3) ∧ (2 < c05World.counter ∧ ¬ Live c05World 2) :=
  ⟨⟨by decide, (C05_dead_cases c05World c05World_wf.1).1 3 (by decide)⟩,
   ⟨by decide, (C05_dead_cases c05World c05World_wf.1).2 ⟨2, false, false, []⟩ (by decide) rfl⟩⟩
-- C05_handle_reports: handle 1 is valid and muted, handle 0 (moved-from, cleared) is not valid
example : c05World.handles[1]? = some ⟨some 1, some 7, some 1⟩ ∧ c05World.handleValid ⟨some 1, some 7, some 1⟩ = true ∧
    c05World.handleMuted ⟨some 1, some 7, some 1⟩ = some true ∧ c05World.handles[0]? = some Handle.null := by decide
-- C05_reject_stale: the cleared handle in slot 0 and a foreign handle are rejected
example : c05World.isSubscriptionValid Handle.null = false ∧ c05World.isSubscriptionValid ⟨some 0, some 8, some 0⟩ = false := by decide
-- C05_unsubscribe_ok
example : c05World.validId? ⟨some 1, some 7, some 1⟩ = some 1 := by decide

end Tulz
