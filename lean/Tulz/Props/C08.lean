import Tulz.Props.C07
/-
  C08 — tulz::ThreadPool::stop() always terminates and leaves a quiescent, restartable pool; the number of worker
  threads never exceeds the configured maximum.

  Same model as C07 (Tulz/Model/Pool.lean; REPAIRED code of finding F6: `stop()` clears `m_isRunning` inside an
  `m_queueMutex` critical section).  The key invariant (`StopInv.phase`): once the owner is past the notify_all of
  `stop()`, the flag is false and no worker is parked un-notified — which needs the flag write and the workers'
  evaluation of the wait predicate to exclude each other.  Owner phases inside `stop()`: `stopNotify` (flag cleared,
  notify_all pending), `join rem` (joining), `clearQ` (pool emptied, final clear() pending) = `inStop`.
-/
namespace TPool

variable {max : Nat} {prog : List OwnerOp} {s : State}

/-- **C08 (bound)**: the pool never holds more than the configured maximum of worker threads, and every worker thread
    that has not exited is in the pool (so at most `max` worker threads are alive). -/
theorem C08_max (h : Reach max prog s) :
    s.pool.length ≤ max ∧ ∀ (w : Nat) (wk : Worker), s.ws[w]? = some wk → wk ≠ .exited → w ∈ s.pool := by
  have S := reach_stop h
  exact ⟨by have := S.max_ok; rw [reach_max h] at this; exact this, fun w wk hw hne => S.in_pool hw hne⟩

/-- **C08 (progress)**: while the owner is inside `stop()` some step of the code is always enabled — `stop()` cannot
    hang, whatever the workers were doing when it was called (idle, about to wait, waking up, running a task). -/
theorem C08_stop_progress (h : Reach max prog s) (hs : inStop s) : ∃ t, Step s t :=
  stop_progress max prog s h hs

/-- **C08 (measure)**: while the owner is inside `stop()`, every step of any thread — spurious wake-ups included —
    strictly decreases the natural number `stopMeasure` (task bodies are finite: `workerRunEnd` is one step). -/
theorem C08_stop_measure (h : Reach max prog s) (hs : inStop s) (t : State) (hst : SStep s t) :
    stopMeasure t < stopMeasure s := stopMeasure_decreases (reach_stop h) hs hst

/-- **C08 (stop() returns)**: at most `stopMeasure s` steps can be taken (by all threads together) while the owner
    stays inside `stop()`; with `C08_stop_progress` (never stuck inside) every fair run leaves `stop()`. -/
theorem C08_stop_returns (h : Reach max prog s) (k : Nat) (u : State) (r : StopRun k s u) : k ≤ stopMeasure s := by
  have := stopRun_bounded h r; omega

/-- **C08 (state after stop)**: the step that returns from `stop()` leaves no pool thread (getThreadCount() = 0), only
    exited workers (so no task is running), an empty queue, the flag cleared — and everything that was still queued
    destroyed. -/
theorem C08_after_stop (h : Reach max prog s) (todo : List OwnerOp) (ho : s.owner = .clearQ todo) (t : State)
    (hst : t = { destroyAll s with owner := .idle todo, stopped := true }) :
    Step s t ∧ t.pool = [] ∧ (∀ (w : Nat) (wk : Worker), t.ws[w]? = some wk → wk = .exited) ∧ t.queue = [] ∧
    t.running = false ∧ (∀ tk ∈ s.queue, tk ∈ t.destroyed) :=
  ⟨by rw [hst]; exact Step.stopClear s todo ho, after_stop max prog s t h todo ho hst⟩

/-- **C08 (stopped states)**: from the return of `stop()` until the next `start` (clear() and further stop() calls
    included) the pool is empty, every worker thread has exited, nothing is queued, nothing is in a worker's hands. -/
theorem C08_stopped_state (h : Reach max prog s) (hst : s.stopped = true) :
    s.pool = [] ∧ (∀ (w : Nat) (wk : Worker), s.ws[w]? = some wk → wk = .exited) ∧ s.queue = [] ∧ s.running = false ∧
    hands s.ws = [] := by
  have S := reach_stop h
  have hex := stopped_all_exited h hst
  refine ⟨(S.stopped_ok hst).2, hex, reach_stoppedq h hst, (S.stopped_ok hst).1, ?_⟩
  unfold hands
  rw [List.filterMap_eq_nil_iff]
  intro wk hwk
  obtain ⟨i, hi, rfl⟩ := List.getElem_of_mem hwk
  rw [hex i _ (List.getElem?_eq_getElem hi)]; rfl

/-- **C08 (restart)**: in a stopped state whose next owner operation is `start t`
    * the only possible step is the enqueueing critical section of `start`, and after it the only possible step is the
      pool critical section, which spawns a fresh worker (`afterSpawn`: pool = [new], the new worker about to check);
    * that worker can take `t` at once;
    * every run from there is finite (`measure`), and when no step is enabled any more `t` has been run exactly once —
      unless a later clear()/stop() of the program found it still queued (`dropped`); if the rest of the program only
      submits tasks, `t` has been run exactly once. -/
theorem C08_restart (hp : (tasksOf prog).Nodup) (hmax : 1 ≤ max) (h : Reach max prog s) (hst : s.stopped = true)
    (t : Task) (todo : List OwnerOp) (ho : s.owner = .idle (.start t :: todo)) :
    let s1 := afterStart s t todo
    let s2 := afterSpawn s1 todo
    Step s s1 ∧ (∀ u, SStep s u → u = s1) ∧ Step s1 s2 ∧ (∀ u, SStep s1 u → u = s2) ∧
    s2.pool = [s.ws.length] ∧ s2.ws[s.ws.length]? = some .check ∧ s2.queue = [t] ∧ s2.running = true ∧
    (∃ s3, Step s2 s3 ∧ t ∈ s3.runs) ∧
    (∀ k u, Run k s2 u → k + measure u ≤ measure s2) ∧
    (∀ k u, Run k s2 u → (∀ v, ¬ Step u v) →
        (u.runs.count t = 1 ∧ u.finished.count t = 1 ∧ u.destroyed.count t = 1) ∨ t ∈ u.dropped) ∧
    (startsOnly todo → ∀ k u, Run k s2 u → (∀ v, ¬ Step u v) → u.runs.count t = 1 ∧ u.finished.count t = 1) := by
  intro s1 s2
  have St := C08_stopped_state h hst
  obtain ⟨hpool, hex, hqueue, hrun, _⟩ := St
  have hstep1 : Step s s1 := Step.start s t todo ho
  have hlt : s1.pool.length < s1.max := by
    show s.pool.length < s.max
    rw [hpool, reach_max h]; exact hmax
  have hstep2 : Step s1 s2 := Step.spawnYes s1 todo rfl hlt
  have h1 : Reach max prog s1 := h.code hstep1
  have h2 : Reach max prog s2 := h1.code hstep2
  have hq2 : s2.queue = [t] := by show s.queue ++ [t] = [t]; rw [hqueue]; rfl
  have hw2 : s2.ws[s.ws.length]? = some .check := by
    show (s.ws ++ [Worker.check])[s.ws.length]? = some .check
    simp
  have hsub : t ∈ s2.submitted := by show t ∈ s.submitted ++ [t]; simp
  -- fate of t in a stuck state reachable from s2
  have fate : ∀ k u, Run k s2 u → (∀ v, ¬ Step u v) →
      (t ∈ u.dropped ∧ u.runs.count t = 0) ∨ (t ∉ u.dropped ∧ u.runs.count t = 1 ∧ u.finished.count t = 1) := by
    intro k u r hq
    have Q := quiescent_of_stuck hp hmax (r.reach h2) hq
    have : t ∈ tasksOf prog := by rw [← Q.all_submitted]; exact run_submitted_mono r t hsub
    exact Q.fate t this
  refine ⟨hstep1, fun u hu => only_start hex ho hu, hstep2, ?_, ?_, hw2, hq2, rfl, ?_, fun k u r => run_bounded h2 r, ?_, ?_⟩
  · intro u hu
    exact only_spawn (s := s1) (fun w wk hw => hex w wk hw) rfl hlt hu
  · show s.pool ++ [s.ws.length] = [s.ws.length]
    rw [hpool]; rfl
  · exact ⟨_, Step.workerTake s2 s.ws.length .check t [] hw2 rfl rfl hq2, by
      show t ∈ s.runs ++ [t]; simp⟩
  · intro k u r hq
    have Q := quiescent_of_stuck hp hmax (r.reach h2) hq
    have ht : t ∈ tasksOf prog := by rw [← Q.all_submitted]; exact run_submitted_mono r t hsub
    rcases fate k u r hq with ⟨hd, _⟩ | ⟨_, h1', h2'⟩
    · exact Or.inr hd
    · exact Or.inl ⟨h1', h2', Q.destroyed_once t ht⟩
  · intro hall k u r hq
    have hsub2 : Submitting s2 := ⟨todo, Or.inr (Or.inr rfl), hall⟩
    have hd : u.dropped = s2.dropped := submitting_run hsub2 r
    rcases fate k u r hq with ⟨hd', _⟩ | ⟨_, h1', h2'⟩
    · -- t would have been dropped before it was submitted
      exfalso
      rw [hd] at hd'
      have hd' : t ∈ s.dropped := hd'
      have D := reach_drop hp h
      have O := reach_own hp h
      have hin : t ∈ s.submitted := O.mem_submitted (Or.inr (Or.inr (D.drop_destroyed t hd')))
      have hf := O.fresh; rw [ho] at hf
      simp only [Owner.todo, tasksOf] at hf
      rw [List.nodup_append] at hf
      exact hf.2.2 t hin t (by simp) rfl
    · exact ⟨h1', h2'⟩

/-! ### non-vacuity -/

/-- inside `stop()` with a worker still running a task (hypotheses of C08_stop_progress / C08_stop_measure):
    owner has cleared the flag and notified, worker 0 is in the middle of task 1, task 2 is still queued -/
def exStopLabels : List Label := exLabels1 ++ [.owner none, .owner none]

def exStopState : State :=
  { queue := [2], running := false, pool := [0], ws := [.running 1], owner := .join [0] [.start 3, .stop], max := 1,
    submitted := [1, 2], runs := [1], finished := [], destroyed := [], dropped := [], stopped := false }

theorem exStopState_reach : Reach 1 exProg exStopState :=
  xrun?_reach (ls := exStopLabels) Reach.init (by decide)

example : ∃ s, Reach 1 exProg s ∧ inStop s ∧ s.ws[0]? = some (.running 1) ∧ stopMeasure s = 6 :=
  ⟨exStopState, exStopState_reach, Or.inr (Or.inl ⟨_, _, rfl⟩), by decide⟩

/-- the state just before `stop()` returns (hypothesis of C08_after_stop), with task 2 still queued:
    … worker 0 finishes and deletes task 1, sees the flag, exits; the owner joins it and empties the pool -/
def exClearQState : State :=
  { queue := [2], running := false, pool := [], ws := [.exited], owner := .clearQ [.start 3, .stop], max := 1,
    submitted := [1, 2], runs := [1], finished := [1], destroyed := [1], dropped := [], stopped := false }

theorem exClearQState_reach : Reach 1 exProg exClearQState :=
  xrun?_reach (ls := exStopLabels ++ [.worker 0, .worker 0, .worker 0, .owner none, .owner none]) Reach.init (by decide)

example : ∃ s todo, Reach 1 exProg s ∧ s.owner = .clearQ todo ∧ s.queue = [2] := ⟨exClearQState, _, exClearQState_reach, rfl, rfl⟩

/-- a stopped state whose next operation is `start 3` (hypotheses of C08_stopped_state and C08_restart) -/
def exStoppedState : State :=
  { queue := [], running := false, pool := [], ws := [.exited], owner := .idle [.start 3, .stop], max := 1,
    submitted := [1, 2], runs := [1], finished := [1], destroyed := [1, 2], dropped := [2], stopped := true }

theorem exStoppedState_reach : Reach 1 exProg exStoppedState :=
  exClearQState_reach.code (Step.stopClear _ _ rfl)

example : ∃ s t todo, Reach 1 exProg s ∧ s.stopped = true ∧ s.owner = .idle (.start t :: todo) :=
  ⟨exStoppedState, 3, _, exStoppedState_reach, rfl, rfl⟩

/-- the same with a program that only submits after the restart (hypothesis `startsOnly todo` of C08_restart) -/
example : ∃ s t todo, Reach 2 [.start 1, .stop, .start 2, .start 3] s ∧ s.stopped = true ∧
    s.owner = .idle (.start t :: todo) ∧ startsOnly todo := by
  refine ⟨{ queue := [], running := false, pool := [], ws := [.exited], owner := .idle [.start 2, .start 3], max := 2,
            submitted := [1], runs := [], finished := [], destroyed := [1], dropped := [1], stopped := true }, 2, [.start 3],
          xrun?_reach (ls := [.owner none, .owner none, .owner none, .owner none, .owner none, .worker 0,
                              .owner none, .owner none, .owner none]) Reach.init (by decide), rfl, rfl, ?_⟩
  intro op hop
  simp at hop; exact ⟨3, hop⟩

end TPool
