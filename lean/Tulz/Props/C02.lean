import Tulz.Props.C01
/-
  C02 — rwp::Resource: every request is eventually granted (no lost wake-up); the idle state is restored.

  `XState` adds to every thread its finite program of lock/unlock pairs; `XStep` has no spurious wake-ups
  (a parked thread moves only after a notification), which is the setting in which a lost wake-up shows.
-/
namespace Rwp

/-- `k` consecutive steps -/
inductive XRun : Nat → XState → XState → Prop
  | refl (x) : XRun 0 x x
  | step {k x y z} : XStep x y → XRun k y z → XRun (k + 1) x z

theorem XRun.reach {ps k x y} (h : XReach ps x) (r : XRun k x y) : XReach ps y := by
  induction r with
  | refl => exact h
  | step hs _ ih => exact ih (XReach.step h hs)

/-- **C02, termination**: every run from a reachable state takes at most `measure x` steps (no thread can spin or
    be woken in vain forever), and a run that cannot be extended has every thread finished — i.e. every
    `lockRead`/`lockWrite` call has returned. With `C02_no_deadlock` this says: every maximal run is finite and
    ends with all requests granted and released. -/
theorem C02_every_run_finishes (ps : List (List Kind)) (x : XState) (h : XReach ps x) :
    (∀ k y, XRun k x y → k + measure y ≤ measure x) ∧
    (∀ k y, XRun k x y → (¬ ∃ z, XStep y z) → allDone y) := by
  constructor
  · intro k y r
    induction r with
    | refl => omega
    | step hs _ ih =>
      have := C02_measure_decreases ps _ _ h hs
      have := ih (XReach.step h hs)
      omega
  · intro k y r hstuck
    apply Classical.byContradiction
    intro hnd
    exact hstuck (C02_no_deadlock ps y (r.reach h) hnd)

/-- **C02, idle state**: after all locks have been released the next read or write request takes the fast path
    (is granted inside its own critical section, without waiting). -/
theorem C02_idle_grants_immediately (ps : List (List Kind)) (x : XState) (h : XReach ps x) (hd : allDone x) (k : Kind) :
    fast x.base.sh k = true := by
  rw [C02_idle_restored ps x h hd]
  cases k <;> rfl

/-! non-vacuity: a writer and a reader program; the run W-call, R-call(parks), W-unlock, notify, R-wake, R-unlock, notify
    reaches a state where everybody is done -/
example : ∃ x, XReach [[.write], [.read]] x ∧ allDone x := by
  have s1 := XStep.callFast (xinit [[.write], [.read]]) 0 .write [] rfl rfl rfl
  have s2 := XStep.callSlow _ 1 .read [] rfl rfl rfl |> XReach.step (XReach.step XReach.init s1)
  have s3 := XReach.step s2 (XStep.unlockLast _ 0 .write rfl rfl)
  have s4 := XReach.step s3 (XStep.notify _ 0 rfl)
  have s5 := XReach.step s4 (XStep.wakeOk _ 1 .read 0 rfl (by decide))
  have s6 := XReach.step s5 (XStep.unlockLast _ 1 .read rfl rfl)
  have s7 := XReach.step s6 (XStep.notify _ 1 rfl)
  refine ⟨_, s7, ?_⟩
  intro i hi
  have : i < 2 := hi
  match i, this with
  | 0, _ => exact ⟨rfl, rfl⟩
  | 1, _ => exact ⟨rfl, rfl⟩

end Rwp
