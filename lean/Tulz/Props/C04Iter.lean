import Tulz.Proofs.IndexIter
import Tulz.Proofs.RingBuffer
import Tulz.Proofs.Array
/-
  C04 / C14 — the iteration clause: `RandomAccessIndexIterator` (include/tulz/container/RandomAccessIndexIterator.h)
  over a RingBuffer or an Array.

  The C04 and C14 refinement theorems treat "iteration" as one observation (`toList`: `operator[]` at 0 … size-1).
  The theorems below close the gap between that observation and the iterator CLASS the containers hand out: its
  `size_t`/`ptrdiff_t` arithmetic (modulo 2^64, as in the C++), its six comparison operators, and the two loops a
  client writes with it.  They hold for every container state, every size below 2^63 (what a `ptrdiff_t` distance can
  express) and every operator sequence.
-/
namespace Tulz
open Tulz.Iter
variable {α : Type}

/-- **forward iteration over a RingBuffer** — `for (it = begin(); it != end(); ++it) *it` terminates after exactly
    `size()` increments and yields the deque contents in order (every layout: `Rep` quantifies over head position
    and wrap-around). -/
theorem C04_iter_forward {b : RB α} {xs : List α} (h : RB.Rep b xs) (hs : xs.length < 18446744073709551616) :
    walkFwd b.get (mk' b.size) b.size (mk' 0) = .ok (some xs) := by
  have := walkFwd_spec b.get xs 0 (by intro i hi; rw [Nat.zero_add]; exact RB.get_ok h i hi) (by omega) xs.length
    (Nat.le_refl _)
  rw [Nat.zero_add, h.len_eq] at this
  exact this

/-- **reverse iteration over a RingBuffer** — `for (it = end(); it != begin();) { --it; *it; }` yields the contents in
    reverse order. -/
theorem C04_iter_backward {b : RB α} {xs : List α} (h : RB.Rep b xs) (hs : xs.length < 18446744073709551616) :
    walkBwd b.get (mk' 0) b.size (mk' b.size) = .ok (some xs.reverse) := by
  have := walkBwd_spec b.get xs 0 (by intro i hi; rw [Nat.zero_add]; exact RB.get_ok h i hi) (by omega) xs.length
    (Nat.le_refl _)
  rw [Nat.zero_add, h.len_eq] at this
  exact this

/-- the loop result is the `toList` observation of the C04 refinement theorems -/
theorem C04_iter_is_toList {b : RB α} {xs : List α} (h : RB.Rep b xs) (hs : xs.length < 18446744073709551616) :
    (walkFwd b.get (mk' b.size) b.size (mk' 0)) = (b.toList).map some := by
  rw [C04_iter_forward h hs, RB.toList_ok h]; rfl

/-- **random access** — `*(begin() + i)` is element `i`, `end() - begin()` is `size()`, and `begin() + i < end()`,
    for every `i < size() < 2^63`. -/
theorem C04_iter_random_access {b : RB α} {xs : List α} (h : RB.Rep b xs) (hs : xs.length < 9223372036854775808)
    (i : Nat) (hi : i < xs.length) :
    deref b.get (plus (mk' 0) (i : Int)) = .ok xs[i] ∧
    diff (mk' b.size) (mk' 0) = (b.size : Int) ∧
    blt (plus (mk' 0) (i : Int)) (mk' b.size) = true := by
  have hidx : (plus (mk' 0) (i : Int)).idx = i := by
    unfold plus addD mk' toU; simp only; omega
  refine ⟨?_, ?_, ?_⟩
  · unfold deref; rw [hidx]; exact RB.get_ok h i hi
  · have := diff_mk' b.size 0 (Nat.zero_le _) (by rw [← h.len_eq]; exact hs)
    simpa using this
  · unfold blt; rw [hidx, mk'_idx b.size (by rw [← h.len_eq]; omega)]
    simp; rw [← h.len_eq]; exact hi

/-- **forward and reverse iteration over an Array** (`begin()/end()` and `cbegin()/cend()` are the same iterator
    class over `Array` / `const Array`) -/
theorem C14_iter_forward [Inhabited α] (vs : List α) (hs : vs.length < 18446744073709551616) :
    walkFwd (Arr.get ⟨ofSpec (vs.map some)⟩) (mk' vs.length) vs.length (mk' 0) = .ok (some vs) ∧
    walkBwd (Arr.get ⟨ofSpec (vs.map some)⟩) (mk' 0) vs.length (mk' vs.length) = .ok (some vs.reverse) := by
  have hget : ∀ i (hi : i < vs.length), Arr.get ⟨ofSpec (vs.map some)⟩ (0 + i) = .ok vs[i] := by
    intro i hi
    rw [Nat.zero_add]
    exact Arr.get_spec (vs.map some) i vs[i] (by simp [List.getElem?_eq_getElem hi])
  constructor
  · have := walkFwd_spec _ vs 0 hget (by omega) vs.length (Nat.le_refl _)
    rwa [Nat.zero_add] at this
  · have := walkBwd_spec _ vs 0 hget (by omega) vs.length (Nat.le_refl _)
    rwa [Nat.zero_add] at this

/-- **iterator arithmetic is integer arithmetic on positions** — for every operator sequence (`++ -- it++ it-- += -= + -`
    interleaved with `*it`, `it - begin()` and comparisons), as long as the position the client means (an unbounded
    integer, possibly negative or past the end in between) stays within `ptrdiff_t`, the iterator's position follows it
    exactly: the `size_t` wrap-around of `m_index` is never observable. -/
theorem C04_iter_script_positions {ε : Type} (get : Nat → Except ε α) :
    ∀ (cs : List Cmd) (a a' : It) (os : List (Obs α)), WF a →
      (∀ (pre : List Cmd) (c : Cmd) (post : List Cmd), cs = pre ++ c :: post →
        -9223372036854775808 ≤ (pre ++ [c]).foldl specMove (pos a) ∧
        (pre ++ [c]).foldl specMove (pos a) < 9223372036854775808) →
      runScript get a cs = .ok (a', os) → pos a' = cs.foldl specMove (pos a) ∧ WF a' := by
  intro cs
  induction cs with
  | nil =>
    intro a a' os h _ hr
    simp only [runScript, pure, Except.pure, Except.ok.injEq, Prod.mk.injEq] at hr
    rw [← hr.1]; exact ⟨rfl, h⟩
  | cons c cs ih =>
    intro a a' os h hb hr
    simp only [runScript, bind, Except.bind] at hr
    split at hr
    · cases hr
    · rename_i r hr1
      obtain ⟨a1, o1⟩ := r
      simp only at hr
      split at hr
      · cases hr
      · rename_i r2 hr2
        obtain ⟨a2, os2⟩ := r2
        simp only [pure, Except.pure, Except.ok.injEq, Prod.mk.injEq] at hr
        have hb0 := hb [] c cs rfl
        simp only [List.nil_append, List.foldl_cons, List.foldl_nil] at hb0
        have hp1 := runCmd_pos get a a1 c o1 h hr1 hb0.1 hb0.2
        have hw1 := runCmd_WF get a a1 c o1 h hr1
        have := ih a1 a2 os2 hw1
          (by intro pre c' post hcs
              have := hb (c :: pre) c' post (by rw [hcs]; rfl)
              simpa [List.foldl_cons, hp1] using this)
          hr2
        rw [← hr.1]
        simp only [List.foldl_cons, ← hp1]
        exact this

/-- **the operators agree with each other**: `!=` is the negation of `==`, `>` is `<` swapped, `>=` is the negation of
    `<`, `<=` is `<` or `==`, exactly one of `<`, `==`, `>` holds, `--` undoes `++`, `-= d` undoes `+= d`, the postfix
    forms return the old iterator, `(it + d) - it = d` and `b + (a - b) = a`. -/
theorem C04_iter_operator_laws (a b : It) (ha : WF a) (hb : WF b) (d : Int)
    (hd1 : -9223372036854775808 ≤ d) (hd2 : d < 9223372036854775808) :
    Iter.bne a b = !(beq a b) ∧ bgt a b = blt b a ∧ bge a b = !(blt a b) ∧ ble a b = (blt a b || beq a b) ∧
    (beq a b = true ↔ a = b) ∧
    dec (inc a) = a ∧ inc (dec a) = a ∧ subD (addD a d) d = a ∧ addD (subD a d) d = a ∧
    (postInc a).1 = a ∧ (postInc a).2 = inc a ∧ (postDec a).1 = a ∧ (postDec a).2 = dec a ∧
    diff (plus a d) a = d ∧ plus b (diff a b) = a :=
  ⟨bne_eq_not_beq a b, bgt_eq_blt_swap a b, bge_eq_not_blt a b, ble_eq_blt_or_beq a b, beq_iff a b,
   dec_inc a ha, inc_dec a ha, subD_addD a d ha, addD_subD a d ha, rfl, rfl, rfl, rfl,
   diff_addD a d ha hd1 hd2, addD_diff a b ha hb⟩

/-! ### non-vacuity -/

/-- a wrapped, full buffer: the forward loop really runs five steps over the rotated storage -/
example : walkFwd (RB.get (⟨3, 5, 5, [.live 12, .live 13, .live 14, .live 10, .live 11]⟩ : RB Nat)) (mk' 5) 5 (mk' 0)
    = .ok (some [10, 11, 12, 13, 14]) := by rfl

/-- `begin() - 3 + 5` is `begin() + 2`, and `(begin() - 3) - begin()` is `-3`: the wrap-around is real in the model -/
example : plus (minus (mk' 0) 3) 5 = mk' 2 ∧ diff (minus (mk' 0) 3) (mk' 0) = -3 ∧ (minus (mk' 0) 3).idx = 18446744073709551613 := by
  decide

/-- a script that leaves the container on both sides satisfies the bound hypothesis of `C04_iter_script_positions` -/
example : ∀ (pre : List Cmd) (c : Cmd) (post : List Cmd),
    [Cmd.subEq 3, .plus 5, .deref, .postInc, .cmp 3] = pre ++ c :: post →
    -9223372036854775808 ≤ (pre ++ [c]).foldl specMove (pos (mk' 0)) ∧
    (pre ++ [c]).foldl specMove (pos (mk' 0)) < 9223372036854775808 := by
  intro pre c post h
  have hp : pos (mk' 0) = 0 := by decide
  rw [hp]
  match pre, h with
  | [], h => cases h; decide
  | [_], h => cases h; decide
  | [_, _], h => cases h; decide
  | [_, _, _], h => cases h; decide
  | [_, _, _, _], h => cases h; decide
  | _ :: _ :: _ :: _ :: _ :: _, h => simp at h

end Tulz
