import Tulz.Proofs.PoolXMeasure
/-
  C07 / C08 for tulz::ThreadPool WITH expiring workers and update()  (model: Tulz/Model/PoolX.lean, namespace TPoolX).

  Every theorem is about every state reachable through the code's steps, spurious wake-ups and clock ticks at any moment
  (`Reach` over `SStep`), for every maximum (0 included), every expiry timeout (`none` = negative = no expiry), and every owner
  program of start / clear / stop / update / tick operations on distinct tasks.
-/
namespace TPoolX

variable {max : Nat} {timeout : Option Nat} {prog : List OwnerOp} {s : State}

/-- **C08X (bound)**: the pool never lists more than `max` threads; every worker thread that is not listed has completed
    (`m_isFinished`, i.e. its thread function is at its end) — so at most `max` worker threads are alive; the pool list has
    no duplicates and only refers to threads that were created. -/
theorem C08X_pool_bounded (h : Reach max timeout prog s) :
    s.pool.length ≤ max ∧ (∀ (w : Nat) (wk : Wk), s.ws[w]? = some wk → w ∉ s.pool → wk.pc = .finished) ∧
    s.pool.Nodup ∧ ∀ i ∈ s.pool, i < s.ws.length := by
  obtain ⟨I, hm⟩ := reach_inv h
  refine ⟨by rw [← hm]; exact I.len, ?_, I.nodup, I.valid⟩
  intro w wk hw hn
  have hlt : w < s.ws.length := (List.getElem?_eq_some_iff.1 hw).1
  obtain ⟨wk', h1, h2⟩ := isFin_iff.1 (I.outside w hlt hn)
  rw [hw] at h1; cases h1; exact h2

/-- **C07X (ownership)**: every submitted task is in exactly one place — queued, in one worker's hands, or destroyed —
    (`submitted` has no duplicates, so each task is run at most once and destroyed at most once); no task is run twice; a
    destroyed task was either dropped by clear()/stop() without ever having been run, or its run had finished. -/
theorem C07X_ownership (hp : (tasksOf prog).Nodup) (h : Reach max timeout prog s) :
    (s.queue ++ hands s.ws ++ s.destroyed).Perm s.submitted ∧ s.submitted.Nodup ∧ s.runs.Nodup ∧
    ∀ t ∈ s.destroyed, (t ∈ s.dropped ∧ t ∉ s.runs) ∨ t ∈ s.finished := by
  have T := reach_tinv hp h
  exact ⟨T.owned, T.subnd, T.runsnd, T.dest⟩

/-- **C08X (quiescent after stop)**: from the return of `stop()` until the next `start` (in particular in the state right
    after it returned, owner idle) the pool is empty, every worker thread ever created — expired ones included — has
    completed, the queue is empty and every submitted task has been destroyed. -/
theorem C08X_stop_quiescent (hp : (tasksOf prog).Nodup) (h : Reach max timeout prog s) (hst : s.stopped = true) :
    s.pool = [] ∧ (∀ (w : Nat) (wk : Wk), s.ws[w]? = some wk → wk.pc = .finished) ∧ s.queue = [] ∧
    ∀ t ∈ s.submitted, t ∈ s.destroyed := by
  obtain ⟨I, _⟩ := reach_inv h
  have T := reach_tinv hp h
  obtain ⟨hpool, hq⟩ := I.stopped_ok hst
  have hall : ∀ (w : Nat) (wk : Wk), s.ws[w]? = some wk → wk.pc = .finished := by
    intro w wk hw
    have hlt : w < s.ws.length := (List.getElem?_eq_some_iff.1 hw).1
    obtain ⟨wk', h1, h2⟩ := isFin_iff.1 (I.outside w hlt (by rw [hpool]; simp))
    rw [hw] at h1; cases h1; exact h2
  refine ⟨hpool, hall, hq, ?_⟩
  have hh : hands s.ws = [] := by
    unfold hands
    rw [List.filterMap_eq_nil_iff]
    intro wk hwk
    obtain ⟨i, hi, rfl⟩ := List.getElem_of_mem hwk
    have := hall i _ (List.getElem?_eq_getElem hi)
    unfold Wk.task?; rw [this]; rfl
  intro t ht
  have := T.owned.mem_iff.2 ht
  rw [hq, hh] at this
  simpa using this

/-- **C08X (progress inside stop)**: while the owner is inside `stop()` (flag cleared … final clear() pending) some step of the
    code is always enabled — the owner's own, or a step of the worker it is joining (which is never blocked un-notified: the flag
    write and the predicate evaluation exclude each other; a running task body is one finite step) — whatever the workers were
    doing: idle, expired, retired but not reaped, completing.  That stop() then RETURNS is `C08X_stop_measure` / `C08X_stop_returns` below. -/
theorem C08X_stop_progress (h : Reach max timeout prog s) (hs : inStop s.owner) : ∃ t, Step s t :=
  stop_progress (reach_inv h).1 (reach_pinv h) hs

/- `TPoolX.xstep?_sound` (Tulz/Proofs/PoolX.lean): `xstep? s l = some t → Step s t` — the step the driver executes is a step of the
   relation the theorems quantify over. -/

/-! ### non-vacuity: a worker idles past the timeout, update() wakes it, it retires, the next update() reaps it -/

def exProg : List OwnerOp := [.start 1, .tick 10, .update, .update, .start 2, .stop]

/-- start 1; worker 0 runs and deletes task 1 and parks; 10 ms pass; update() wakes it and runs its pool section before the worker has
    completed (nothing reaped); the worker finds the queue empty and 5 + 0 < 10: it leaves its loop and completes — a retired thread
    that is still listed in the pool -/
def exRetiredState : State :=
  { queue := [], running := true, pool := [0], ws := [⟨.finished, 0⟩], owner := .idle [.update, .start 2, .stop], max := 1,
    timeout := some 5, now := 10, submitted := [1], runs := [1], finished := [1], destroyed := [1], dropped := [],
    stopped := false }

theorem exRetired_reach : Reach 1 (some 5) exProg exRetiredState :=
  xrun?_reach (ls := [.owner none, .owner none, .owner none, .worker 0, .worker 0, .worker 0, .worker 0,
                      .owner none, .owner none, .owner none, .owner none, .owner none, .worker 0, .worker 0]) Reach.init (by decide)

/-- the second update() reaps it: an expired, reaped worker — outside the pool and completed -/
def exReapedState : State :=
  { exRetiredState with pool := [], owner := .idle [.start 2, .stop] }

theorem exReaped_reach : Reach 1 (some 5) exProg exReapedState :=
  xrun?_reach (ls := [.owner none, .owner none, .owner none, .owner none]) exRetired_reach (by decide)

example : ∃ s, Reach 1 (some 5) exProg s ∧ s.pool = [] ∧ s.ws = [⟨.finished, 0⟩] ∧ s.now = 10 ∧ s.destroyed = [1] :=
  ⟨exReapedState, exReaped_reach, rfl, rfl, rfl, rfl⟩

/-- start() does not spawn while a completed thread is still listed (retired, not yet reaped): the task stays queued -/
example : ∃ s, Reach 1 (some 5) [.start 1, .tick 10, .update, .start 2] s ∧ s.pool = [0] ∧ s.queue = [2] ∧
    s.owner = .idle [] ∧ ∀ l, xstep? s l = none :=
  ⟨{ queue := [2], running := true, pool := [0], ws := [⟨.finished, 0⟩], owner := .idle [], max := 1,
     timeout := some 5, now := 10, submitted := [1, 2], runs := [1], finished := [1], destroyed := [1], dropped := [],
     stopped := false },
   xrun?_reach (ls := [.owner none, .owner none, .owner none, .worker 0, .worker 0, .worker 0, .worker 0,
                       .owner none, .owner none, .owner none, .owner none, .owner none, .worker 0, .worker 0,
                       .owner none, .owner none, .owner none]) Reach.init (by decide),
   rfl, rfl, rfl, by
     intro l
     cases l with
     | owner wk => cases wk <;> rfl
     | worker w =>
       cases w with
       | zero => rfl
       | succ n => rfl⟩

/-- after the reap, start 2 spawns a fresh worker (index 1) and stop() leaves the quiescent state of C08X_stop_quiescent:
    two workers were created in total, one expired and was reaped, both have completed -/
def exStoppedState : State :=
  { queue := [], running := false, pool := [], ws := [⟨.finished, 0⟩, ⟨.finished, 10⟩], owner := .idle [], max := 1,
    timeout := some 5, now := 10, submitted := [1, 2], runs := [1, 2], finished := [1, 2], destroyed := [1, 2], dropped := [],
    stopped := true }

theorem exStopped_reach : Reach 1 (some 5) exProg exStoppedState :=
  xrun?_reach (ls := [.owner none, .owner none, .owner none, .worker 1, .worker 1, .worker 1,
                      .owner none, .owner none, .worker 1, .worker 1, .owner none, .owner none, .owner none])
    exReaped_reach (by decide)

example : ∃ s, Reach 1 (some 5) exProg s ∧ s.stopped = true ∧ s.ws.length = 2 ∧ s.submitted = [1, 2] :=
  ⟨exStoppedState, exStopped_reach, rfl, rfl, rfl⟩

/-- inside stop() (hypothesis of C08X_stop_progress): flag cleared, notify_all done, the owner joins worker 0, which is still in
    the middle of task 1 -/
example : ∃ s, Reach 1 (some 5) [.start 1, .stop] s ∧ inStop s.owner ∧ s.owner = .join [0] [] ∧ (s.ws.map (·.pc)) = [.running 1] :=
  ⟨{ queue := [], running := false, pool := [0], ws := [⟨.running 1, 0⟩], owner := .join [0] [], max := 1, timeout := some 5, now := 0,
     submitted := [1], runs := [1], finished := [], destroyed := [], dropped := [], stopped := false },
   xrun?_reach (ls := [.owner none, .owner none, .owner none, .worker 0, .owner none, .owner none]) Reach.init (by decide),
   Or.inr (Or.inl ⟨_, _, rfl⟩), rfl, rfl⟩

example : (tasksOf exProg).Nodup := by decide

/-- the step function is exercised by the reachability witnesses above (`xrun?` iterates `xstep?`) -/
example : xstep? (init 1 (some 5) exProg) (.owner none) ≠ none := by decide

/-- **C08X (measure)**: while the owner is inside `stop()`, every step of the code — of the owner or of any worker, expiring or
    not, retired-but-not-reaped or in the middle of a task — strictly decreases `stopMeasure` (owner: joins still to do; worker:
    steps it can still make once the flag is cleared); a spurious wake-up decreases it too and a clock tick leaves it unchanged. -/
theorem C08X_stop_measure (h : Reach max timeout prog s) (hs : inStop s.owner) {t : State} (hst : SStep s t) :
    stopMeasure t ≤ stopMeasure s ∧ ((∃ d, t = { s with now := s.now + d }) ∨ stopMeasure t < stopMeasure s) :=
  stopMeasure_sstep (reach_inv h).1 (reach_pinv h) hs hst

/-- **C08X (stop() returns)**: from any reachable state in which the owner is inside `stop()`, an execution makes at most
    `stopMeasure s` steps of the code before `stop()` has returned (`StopRun s n u`: `n` consecutive code steps, the owner inside
    `stop()` before each of them) — and until then a step is always enabled (`C08X_stop_progress`).  So `stop()` terminates in
    every interleaving, with expiring workers and pending `update()` work as well. -/
theorem C08X_stop_returns (h : Reach max timeout prog s) {n : Nat} {u : State} (r : StopRun s n u) :
    n + stopMeasure u ≤ stopMeasure s :=
  stop_bounded h r

/-- non-vacuity: in the state "owner joins worker 0, which is in the middle of task 1" the measure is 7 -/
def exJoinState : State :=
  { queue := [], running := false, pool := [0], ws := [⟨.running 1, 0⟩], owner := .join [0] [], max := 1, timeout := some 5, now := 0,
    submitted := [1], runs := [1], finished := [], destroyed := [], dropped := [], stopped := false }

example : stopMeasure exJoinState = 7 ∧ inStop exJoinState.owner := ⟨by decide, Or.inr (Or.inl ⟨_, _, rfl⟩)⟩

/-- non-vacuity of the refused-thread step (`Step.spawnFail`): `start(1)` whose thread creation fails leaves task 1 queued, the pool
    empty and the owner at its next operation; every theorem above covers what follows (here: `stop()`), since `Reach` includes
    that step -/
example : Reach 1 none [.start 1, .stop]
    { queue := [1], running := true, pool := [], ws := [], owner := .idle [.stop], max := 1, timeout := none, now := 0,
      submitted := [1], runs := [], finished := [], destroyed := [], dropped := [], stopped := false } :=
  Reach.code (Reach.code Reach.init (Step.start _ 1 [.stop] rfl)) (Step.spawnFail _ [.stop] rfl (by decide))

end TPoolX
