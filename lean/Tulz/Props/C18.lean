import Tulz.Proofs.PathStr
import Tulz.Proofs.FsTree
import Tulz.Proofs.DirVisitor
/- C18 — Path agrees with the file system and its string operations are consistent.

   String part (proved outright, for every string shorter than `npos = 2^64-1`, i.e. every std::string):
   `C18_name_of_join`, `C18_parent_of_join`, `C18_join_absolute`, `C18_total`.
   Tree part (the OS is specified by `Tulz.Fs.resolve/opendir/ReaddirSpec`, not verified):
   `C18_exists_isFile_isDirectory`, `C18_listChildren`, `C18_size_dir`, `C18_size_sum_files`.
   Visitor part (the OS is specified by `Tulz.Dv.OsSpec`): `C18_visitor_restores`. -/
namespace Tulz
open Tulz.PathStr

/-! ## strings -/

/-- for a non-empty directory `d` and a non-empty separator-free name `n`, the name of `join(d, n)` is `n` -/
theorem C18_name_of_join (d n : Str) (hd : d ≠ []) (hn : n ≠ [] ∧ sepFree n)
    (hlen : d.length + n.length + 1 < npos) : getPathName (join d n) = .ok n := by
  rw [join_shape d n hd hn.2]
  apply getPathName_shape _ _ _ (by decide) hn.2 hn.1
  rw [← join_shape d n hd hn.2]
  have : (join d n).length ≤ d.length + n.length + 1 := by
    unfold join; simp only [hd, dite_false]; split <;> (try split) <;> (try simp) <;> omega
  omega

/-- … and its parent is `d` without ONE trailing '/' (a trailing backslash is an ordinary character of `d`) -/
theorem C18_parent_of_join (d n : Str) (hd : d ≠ []) (hn : n ≠ [] ∧ sepFree n)
    (hlen : d.length + n.length + 1 < npos) :
    getParentDirectory (join d n) = .ok (if d.getLast? = some '/' then d.dropLast else d) := by
  rw [join_shape d n hd hn.2]
  apply getParentDirectory_shape _ _ _ (by decide) hn.2 hn.1
  rw [← join_shape d n hd hn.2]
  have : (join d n).length ≤ d.length + n.length + 1 := by
    unfold join; simp only [hd, dite_false]; split <;> (try split) <;> (try simp) <;> omega
  omega

/-- joining an absolute path yields that path -/
theorem C18_join_absolute (p q : Str) (hq : q.head? = some '/') : join p q = q := by
  unfold join
  by_cases hp : p = []
  · simp [hp]
  · simp [hp, (isAbsolutePath_iff q).mpr hq]

/-- `isAbsolute` is "starts with '/'" -/
theorem C18_isAbsolute (s : Str) : isAbsolute s = true ↔ s.head? = some '/' := isAbsolutePath_iff s

/-- no `erase`/`find_last_of` position ever lies outside the string: the Except-valued transcriptions
    (where `erase(idx, …)` with `idx > size()` is `.error .outOfRange`) return `.ok` for EVERY string -/
theorem C18_total (s : Str) :
    (∃ r, getParentDirectory s = .ok r) ∧ (∃ r, getPathName s = .ok r) := by
  constructor
  · have tail : ∀ (path : Str) (sp : Nat), (sp = npos ∨ sp < path.length) → ∃ r, parentTail s path sp = .ok r := by
      intro path sp h
      unfold parentTail
      by_cases hn : (sp == npos) = true
      · simp [hn]
      · simp only [hn, Bool.false_eq_true, if_false]
        have hlt : sp < path.length := by
          rcases h with h | h
          · simp [h] at hn
          · exact h
        unfold erase
        have : ¬ sp > path.length := by omega
        simp [this]
    unfold getParentDirectory
    have hr := findLastOf_range s npos
    by_cases hc : (findLastOf s npos != npos && findLastOf s npos == usub s.length 1) = true
    · simp only [hc, if_true]
      have hne : findLastOf s npos ≠ npos := by
        intro h; simp [h] at hc
      have hlt : findLastOf s npos < s.length := by
        rcases hr with h | h
        · exact absurd h hne
        · exact h.1
      unfold erase
      have : ¬ findLastOf s npos > s.length := by omega
      simp only [this, if_false]
      apply tail
      rcases findLastOf_range (List.take (findLastOf s npos) s ++
          List.drop (findLastOf s npos + min s.length (s.length - findLastOf s npos)) s) npos with h | h
      · left; exact h
      · right; exact h.1
    · simp only [hc, Bool.false_eq_true, if_false]
      apply tail
      rcases hr with h | h
      · left; exact h
      · right; exact h.1
  · unfold getPathName erase
    simp

/-! non-vacuity: concrete non-trivial instances (evaluated by the kernel) -/
example : getPathName (join "/tmp/d ir/".toList "é.txt".toList) = .ok "é.txt".toList := by rfl
example : getParentDirectory (join "/tmp/d ir/".toList "é.txt".toList) = .ok "/tmp/d ir".toList := by rfl
example : getParentDirectory (join "a\\".toList "b".toList) = .ok "a\\".toList := by rfl
example : join "x/y".toList "/abs/z".toList = "/abs/z".toList := by rfl
example : getPathName "/".toList = .ok [] ∧ getPathName [] = .ok [] ∧ getParentDirectory "//".toList = .ok [] :=
  ⟨by rfl, by rfl, by rfl⟩
example : ∃ d n : Str, d ≠ [] ∧ (n ≠ [] ∧ sepFree n) ∧ d.length + n.length + 1 < npos :=
  ⟨['/', 'a', '/'], ['b', ' ', 'c'], by decide, ⟨by decide, by unfold sepFree; decide⟩, by decide⟩

/-! ## tree -/
open Tulz.Fs

/-- `exists / isFile / isDirectory` say what the tree says -/
theorem C18_exists_isFile_isDirectory (fs : FsNode) (p : List String) :
    (pExists fs p = true ↔ ∃ n, resolve fs p = some n) ∧
    (pIsFile fs p = true ↔ ∃ b, resolve fs p = some (.file b)) ∧
    (pIsDirectory fs p = true ↔ ∃ cs, resolve fs p = some (.dir cs)) := by
  unfold pIsFile pExists pIsDirectory fopenR opendir
  cases h : resolve fs p with
  | none => simp
  | some n => cases n <;> simp

/-- `listChildren` on a directory returns every entry exactly once and neither "." nor ".." —
    for every order in which `readdir` may deliver the entries -/
theorem C18_listChildren (rd : Entries → List String) (hrd : ReaddirSpec rd) (fs : FsNode) (hwf : WF fs)
    (p : List String) (cs : Entries) (h : resolve fs p = some (.dir cs)) :
    ∃ l, listChildren rd fs p = .ok l ∧ l.Perm (cs.map Prod.fst) ∧ l.Nodup ∧ "." ∉ l ∧ ".." ∉ l := by
  cases WF_resolve hwf h with
  | dir _ hnd hdots hch =>
    obtain ⟨l, hl, hperm⟩ := listChildren_dir rd hrd fs p cs hdots h
    refine ⟨l, hl, hperm, hperm.nodup_iff.mpr hnd, ?_, ?_⟩
    · intro hm
      obtain ⟨e, he, heq⟩ := List.mem_map.mp (hperm.mem_iff.mp hm)
      exact (hdots e he).1 heq
    · intro hm
      obtain ⟨e, he, heq⟩ := List.mem_map.mp (hperm.mem_iff.mp hm)
      exact (hdots e he).2 heq

/-- errors of `listChildren`: missing path → NotFound, regular file → NotDirectory -/
theorem C18_listChildren_errors (rd : Entries → List String) (fs : FsNode) (p : List String) :
    (resolve fs p = none → listChildren rd fs p = .error .notFound) ∧
    (∀ b, resolve fs p = some (.file b) → listChildren rd fs p = .error .notDirectory) := by
  constructor
  · intro h; simp [listChildren, pExists, fopenR, h]
  · intro b h; simp [listChildren, pExists, fopenR, opendir, h]

/-- `Path::size` of any existing path is the total size of the regular files beneath it (for a regular
    file: its size), for every readdir order; a recursion budget above the depth of the node suffices -/
theorem C18_size_dir (rd : Entries → List String) (hrd : ReaddirSpec rd) (fs : FsNode) (hwf : WF fs)
    (p : List String) (n : FsNode) (h : resolve fs p = some n) (fuel : Nat) (hf : n.depth < fuel) :
    pSize rd fs fuel p = .ok n.fileBytes :=
  pSize_spec rd hrd fs hwf fuel p n h hf

/-- `fileBytes` is the sum over all regular files beneath the node -/
theorem C18_size_sum_files (n : FsNode) : n.fileBytes = n.allFiles.sum :=
  fileBytes_eq_sum_allFiles_aux.1 n

/-- a missing path has no size: NotFound -/
theorem C18_size_missing (rd : Entries → List String) (fs : FsNode) (p : List String) (fuel : Nat)
    (h : resolve fs p = none) : pSize rd fs (fuel + 1) p = .error .notFound := by
  simp [pSize, pExists, fopenR, h]

/-- non-vacuity: a tree with an empty directory, an empty file, nested directories and odd names -/
def exTree : FsNode :=
  .dir [("a b", .dir [("é", .file 7), ("..x", .file 0), ("sub", .dir [("f", .file 1048576)])]), ("empty", .dir []), ("z.", .file 3)]
def exRd (cs : Entries) : List String := ".." :: (cs.map Prod.fst).reverse ++ ["."]
example : pSize exRd exTree 4 [] = .ok 1048586 := by rfl
example : pSize exRd exTree 4 ["a b"] = .ok 1048583 ∧ exTree.allFiles = [7, 0, 1048576, 3] := ⟨by rfl, by rfl⟩
example : listChildren exRd exTree ["a b"] = .ok ["é", "..x", "sub"] := by rfl
example : listChildren exRd exTree ["empty"] = .ok [] ∧ listChildren exRd exTree ["z."] = .error .notDirectory :=
  ⟨by rfl, by rfl⟩
example : exTree.depth = 3 := by rfl

/-! ## DirectoryVisitor -/
open Tulz.Dv

/-- for every well-nested sequence of visitor lifetimes (every destructor has its constructor, all visitors
    destroyed at the end) the working directory after the last destructor is the one before the first
    constructor -/
theorem C18_visitor_restores (os : Os) (valid : String → Prop) (hos : OsSpec os valid)
    (cwd0 cwd : String) (hv : valid cwd0) (evs : List Ev) (h : run os (cwd0, []) evs = some (cwd, [])) :
    cwd = cwd0 := by
  have := (run_inv os valid hos evs (cwd0, []) (cwd, []) hv (by intro v hvm; cases hvm) h).2.2
  simpa [unwind] using this

/-- the same for a block of lifetimes nested inside live visitors: the block leaves the working directory
    (and the outer visitors) as it found them, provided the outer visitors' saved directories are valid -/
theorem C18_visitor_restores_nested (os : Os) (valid : String → Prop) (hos : OsSpec os valid)
    (cwd0 cwd : String) (outer : List Visitor) (hv : valid cwd0) (evs : List Ev)
    (h : run os (cwd0, []) evs = some (cwd, [])) : run os (cwd0, outer) evs = some (cwd0, outer) ∧ cwd = cwd0 := by
  have hc := C18_visitor_restores os valid hos cwd0 cwd hv evs h
  subst hc
  refine ⟨?_, rfl⟩
  -- a run that never looks below its own visitors is independent of what lies beneath
  have frame : ∀ (evs : List Ev) (c c' : String) (st st' : List Visitor),
      run os (c, st) evs = some (c', st') → run os (c, st ++ outer) evs = some (c', st' ++ outer) := by
    intro evs
    induction evs with
    | nil => intro c c' st st' h; simp only [run, Option.some.injEq, Prod.mk.injEq] at h; simp [run, h.1, h.2]
    | cons e r ih =>
      intro c c' st st' h
      simp only [run] at h ⊢
      cases e with
      | ctor dir =>
        simp only [step] at h ⊢
        exact ih _ _ _ _ h
      | dtor =>
        cases st with
        | nil => simp [step] at h
        | cons v rest =>
          simp only [step, List.cons_append] at h ⊢
          exact ih _ _ _ _ h
  simpa using frame evs cwd cwd [] [] h

/-- non-vacuity: an OS whose `chdir` jumps to the given absolute path and fails silently on "/missing"
    and on the empty path; every other non-empty string is a valid working directory -/
def exOs : Os := ⟨fun cwd x => if x = "/missing" ∨ x = "" then cwd else x⟩
def exValid (c : String) : Prop := c ≠ "/missing" ∧ c ≠ ""
example : OsSpec exOs exValid := by
  refine ⟨fun c h => h.2, ?_, ?_⟩
  · intro c x h
    unfold exOs; simp only
    by_cases hx : x = "/missing" ∨ x = ""
    · simpa [hx] using h
    · simp only [hx, if_false]; exact ⟨fun h1 => hx (Or.inl h1), fun h2 => hx (Or.inr h2)⟩
  · intro c c' h _
    unfold exOs; simp only
    have : ¬ (c = "/missing" ∨ c = "") := fun hh => hh.elim h.1 h.2
    simp [this]
example : run exOs ("/r", []) [.ctor "/r/a", .ctor "", .ctor "/r/a/b", .dtor, .ctor "/missing", .dtor, .dtor, .dtor]
    = some ("/r", []) := by decide
example : (run exOs ("/r", []) [.ctor "/r/a", .ctor "/r/a/b"]).map Prod.fst = some "/r/a/b" := by decide

end Tulz
