import Tulz.Proofs.Rwp.Measure
import Tulz.Proofs.Rwp.Fifo2
/-
  C01 — rwp::Resource: a writer never shares the lock.

  `Rwp.State` is a transition system for any number of threads at the granularity of the `m_mutex` critical
  sections of Resource.cpp (`Rwp.Step`, seven step kinds; a parked thread may wake spuriously in `Step`).
  `Reach n s`: `s` is reachable with `n` threads by any interleaving.
-/
namespace Rwp

/-- **C01**: a thread holding the write lock is alone — nobody else holds a read or a write lock. -/
theorem C01_writer_alone (n : Nat) (s : State) (h : Reach n s) (i j : Nat) (hij : i ≠ j) (kj : Kind)
    (hi : holds s i .write) : ¬ holds s j kj := by
  intro hj
  have := (C01_exclusion n s h i j hij .write kj hi hj).1
  cases this

/-- the executable step function run by the driver only takes steps of the relation the theorems quantify over -/
theorem xstep?_sound {x y : XState} {i : Nat} (h : xstep? x i = some y) : XStep x y := by
  unfold xstep? at h
  split at h
  · rename_i hi
    split at h
    · rename_i k rest hp
      split at h
      · rename_i hf
        cases h; exact XStep.callFast x i k rest hp hi hf
      · rename_i hf
        cases h; exact XStep.callSlow x i k rest hp hi (by simpa using hf)
    · cases h
  · rename_i k id hi
    split at h
    · rename_i hb; cases h; exact XStep.wakeOk x i k id hi hb
    · rename_i hb; cases h; exact XStep.wakeNo x i k id hi hb
  · rename_i k hi
    split at h
    · rename_i hc; cases h; exact XStep.unlockLast x i k hi hc
    · rename_i hc; cases h; exact XStep.unlockMore x i k hi hc
  · rename_i hi
    cases h; exact XStep.notify x i hi
  · cases h

/-- … and every step of the relation is the step function's answer for the thread that moves -/
theorem xstep?_complete {x y : XState} (h : XStep x y) : ∃ i, xstep? x i = some y := by
  cases h with
  | callFast i k rest hp hi hf => exact ⟨i, by simp [xstep?, hi, hp, hf]⟩
  | callSlow i k rest hp hi hf => exact ⟨i, by simp [xstep?, hi, hp, hf]⟩
  | wakeOk i k id hi h => exact ⟨i, by simp [xstep?, hi, h]⟩
  | wakeNo i k id hi h => exact ⟨i, by simp [xstep?, hi, h]⟩
  | unlockLast i k hi h => exact ⟨i, by simp [xstep?, hi, h]⟩
  | unlockMore i k hi h => exact ⟨i, by simp [xstep?, hi, h]⟩
  | notify i hi => exact ⟨i, by simp [xstep?, hi]⟩

/-! non-vacuity: a reachable 3-thread state in which two readers hold the lock at the same time -/
example : ∃ s, Reach 3 s ∧ holds s 0 .read ∧ holds s 1 .read := by
  refine ⟨_, Reach.step (Reach.step Reach.init (Step.callFast _ 0 .read rfl rfl)) (Step.callFast _ 1 .read rfl rfl), rfl, rfl⟩

end Rwp
