import Tulz.Proofs.Observable
/-
  C16 — Observable notifies exactly on change, with the new value.
  Model: Tulz/Model/Observable.lean, parametric in the value type `T`, the equality `eq` (= `m_eq`) and the operator
  functions.  `subscribers w` = the subscribed, valid, unmuted observers in subscription order; `calls (evsSince …)`
  = the notification log of the operation.  Hypotheses: the Subject inside is consistent, idle, and its callbacks only
  record (`Plain`); all three hold for every Observable reachable through its public interface (see `C16_recorder`).
-/
namespace Tulz
open Tulz.Subject Tulz.Observable

/-- `operator=`: an `eq`-equal assignment changes nothing at all (stored value untouched, nobody notified); any other
    stores the value and notifies each subscriber exactly once with it. -/
theorem C16_assign {T : Type} (lib : Nat → List Action) (eq : T → T → Bool) (o : Obsv T)
    (hwf : WF o.w) (hd : o.w.depth = 0) (hp : Plain o.w) (v : T) :
    (eq o.val v = true → o.assign lib eq v = o) ∧
    (eq o.val v = false → (o.assign lib eq v).val = v ∧
      calls (evsSince o.w (o.assign lib eq v).w) = (subscribers o.w).map (fun i => (i, v))) := by
  constructor
  · intro h; simp [Obsv.assign, h]
  · intro h
    have e : o.assign lib eq v = Obsv.notifyVal lib { o with val := v } := by simp [Obsv.assign, h]
    rw [e]
    exact notifyVal_spec lib { o with val := v } hwf hd hp

/-- `apply`: the value becomes `f val`; subscribers are notified (once each, with the new value) iff it changed w.r.t. `eq`. -/
theorem C16_apply {T : Type} (lib : Nat → List Action) (eq : T → T → Bool) (o : Obsv T)
    (hwf : WF o.w) (hd : o.w.depth = 0) (hp : Plain o.w) (f : T → T) :
    (o.apply lib eq f).val = f o.val ∧
    calls (evsSince o.w (o.apply lib eq f).w) =
      if eq o.val (f o.val) then [] else (subscribers o.w).map (fun i => (i, f o.val)) := by
  by_cases h : eq o.val (f o.val) = true
  · have e : o.apply lib eq f = { o with val := f o.val } := by simp [Obsv.apply, h]
    rw [e, if_pos h]
    exact ⟨rfl, by rw [evsSince_self]; rfl⟩
  · have e : o.apply lib eq f = Obsv.notifyVal lib { o with val := f o.val } := by simp [Obsv.apply, h]
    rw [e, if_neg h]
    exact notifyVal_spec lib { o with val := f o.val } hwf hd hp

/-- `+=`, `-=`, `*=`, `/=` are `apply (· ⊕ v)`. -/
theorem C16_opAssign {T : Type} (lib : Nat → List Action) (eq : T → T → Bool) (o : Obsv T)
    (hwf : WF o.w) (hd : o.w.depth = 0) (hp : Plain o.w) (op : T → T → T) (v : T) :
    (o.opAssign lib eq op v).val = op o.val v ∧
    calls (evsSince o.w (o.opAssign lib eq op v).w) =
      if eq o.val (op o.val v) then [] else (subscribers o.w).map (fun i => (i, op o.val v)) :=
  C16_apply lib eq o hwf hd hp (fun x => op x v)

/-- `++` / `--` always notify each subscriber once with the new value; the prefix forms return the new value, the
    postfix forms the old one. -/
theorem C16_incdec {T : Type} (lib : Nat → List Action) (o : Obsv T)
    (hwf : WF o.w) (hd : o.w.depth = 0) (hp : Plain o.w) (f : T → T) :
    ((o.pre lib f).1.val = f o.val ∧ (o.pre lib f).2 = f o.val ∧
      calls (evsSince o.w (o.pre lib f).1.w) = (subscribers o.w).map (fun i => (i, f o.val))) ∧
    ((o.post lib f).1.val = f o.val ∧ (o.post lib f).2 = o.val ∧
      calls (evsSince o.w (o.post lib f).1.w) = (subscribers o.w).map (fun i => (i, f o.val))) := by
  have h := notifyVal_spec lib { o with val := f o.val } hwf hd hp
  exact ⟨⟨h.1, h.1, h.2⟩, ⟨h.1, rfl, h.2⟩⟩

/-- With the default equality (`==`, lawful): for every history of `=`, `apply` (hence `+=` …), `++`/`--`, subscribe and
    unsubscribe on a fresh Observable, every current subscriber that stores each notified value and was initialised
    with `value()` at subscription holds `value()`. -/
theorem C16_recorder {T : Type} [BEq T] [LawfulBEq T] (v0 : T) (sid : Nat) (ops : List (OOp T)) :
    let s := rrun (· == ·) (⟨v0, { sid := sid }⟩, []) ops
    (∀ i ∈ s.1.w.active, ∃ p ∈ s.2, p.1 = i) ∧ (∀ p ∈ s.2, p.1 ∈ s.1.w.active → p.2 = s.1.val) := by
  have h0 : RInv ((⟨v0, { sid := sid }⟩, []) : Obsv T × Cells T) :=
    ⟨WF.init sid, rfl, by intro o ho; simp at ho, by intro i hi; simp at hi, by intro p hp; simp at hp, by intro p hp; simp at hp⟩
  have h := rrun_inv ops h0
  exact ⟨h.cover, h.holds⟩

/-- the hypotheses of C16_assign … C16_incdec hold for every Observable reachable by such a history -/
theorem C16_reachable {T : Type} [BEq T] [LawfulBEq T] (v0 : T) (sid : Nat) (ops : List (OOp T)) :
    let o := (rrun (· == ·) (⟨v0, { sid := sid }⟩, []) ops).1
    WF o.w ∧ o.w.depth = 0 ∧ Plain o.w := by
  have h0 : RInv ((⟨v0, { sid := sid }⟩, []) : Obsv T × Cells T) :=
    ⟨WF.init sid, rfl, by intro o ho; simp at ho, by intro i hi; simp at hi, by intro p hp; simp at hp, by intro p hp; simp at hp⟩
  have h := rrun_inv ops h0
  exact ⟨h.wf, h.depth, h.pl.plain⟩

/-! ### non-vacuity: an Observable<Nat> with two subscribers after a mixed history -/

def c16State : Obsv Nat × Cells Nat :=
  rrun (· == ·) (⟨5, { sid := 0 }⟩, []) [.sub, .assign 7, .sub, .sub, .post (· + 1), .unsub 1, .apply (· * 2), .assign 16]

example : c16State.1.val = 16 ∧ c16State.2 = [(2, 16), (1, 8), (0, 16)] ∧ c16State.1.w.active = [2, 0] := by decide
example : subscribers c16State.1.w = [0, 2] := by decide
-- assignment: equal -> nothing, different -> both subscribers once, in order, with the new value
example : c16State.1.assign (fun _ => []) (· == ·) 16 = c16State.1 :=
  (C16_assign _ _ _ (C16_reachable 5 0 _).1 (C16_reachable 5 0 _).2.1 (C16_reachable 5 0 _).2.2 16).1 (by decide)
example : calls (evsSince c16State.1.w (c16State.1.assign (fun _ => []) (· == ·) 3).w) = [(0, 3), (2, 3)] := by decide
-- a tolerance comparator: |a-b| < 2 counts as equal, the stored value stays
example : ((⟨10, c16State.1.w⟩ : Obsv Nat).assign (fun _ => []) (fun a b => decide (a - b < 2 ∧ b - a < 2)) 11).val = 10 := by decide
example : ((c16State.1.post (fun _ => []) (· + 1)).2, (c16State.1.pre (fun _ => []) (· + 1)).2) = (16, 17) := by decide

end Tulz
