import Tulz.Proofs.File
/- C17 — File round-trips bytes exactly and reports sizes and errors truthfully.
   Partial by nature: libc stdio and the kernel are the *specified* dependency `Tulz/Model/Stdio.lean`; every
   theorem below is about `Tulz/Model/File.lean` (File.cpp transcribed) running on that specification. -/
namespace Tulz
open Tulz.Stdio Tulz.FileM

/-- the bytes a list of write calls hands over, in order -/
def written (calls : List WCall) : Bytes := (calls.map WCall.bytes).flatten

/-- write modes truncate: whatever the file held, after `open(write mode); write…; close` it holds exactly the
    written bytes — for every split into calls and every mix of the three `write` overloads -/
theorem C17_truncate (d : Disk) (p : String) (m : Mode) (hm : m = .write ∨ m = .writeText)
    (hdir : d.isDir p = false) (calls : List WCall) :
    ∃ d', writeFile d p m calls = .ok d' ∧ d'.content p = written calls ∧ d'.isFile p = true ∧ d'.isDir p = false := by
  obtain ⟨d1, f1, ho, hinv⟩ := open_write d p m hm hdir
  obtain ⟨d2, f2, hw, ⟨st, _, _, _, hc, hf, hd⟩⟩ := writeAll_inv calls d1 f1 p [] hinv
  refine ⟨d2, ?_, by simpa [written] using hc, hf, hd⟩
  simp only [writeFile, ho, hw]

/-- append modes add after the existing content (a missing file counts as empty) -/
theorem C17_append (d : Disk) (p : String) (m : Mode) (hm : m = .append ∨ m = .appendText)
    (hdir : d.isDir p = false) (calls : List WCall) :
    ∃ d', writeFile d p m calls = .ok d' ∧ d'.content p = d.content p ++ written calls ∧
      d'.isFile p = true ∧ d'.isDir p = false := by
  obtain ⟨d1, f1, ho, hinv⟩ := open_append d p m hm hdir
  obtain ⟨d2, f2, hw, ⟨st, _, _, _, hc, hf, hd⟩⟩ := writeAll_inv calls d1 f1 p _ hinv
  refine ⟨d2, ?_, by simpa [written] using hc, hf, hd⟩
  simp only [writeFile, ho, hw]

/-- reading a regular file back in a read mode yields its bytes exactly, through `read()`, `readStr()` and
    `read(buffer, size, count)` with a buffer that can hold the file; no array cell stays uninitialised -/
theorem C17_read_back (d : Disk) (p : String) (rm : Mode) (hrm : rm = .read ∨ rm = .readText)
    (hf : d.isFile p = true) (hdir : d.isDir p = false) :
    readFile d p rm .read = .ok ((d.content p).map some) ∧
    readFile d p rm .readStr = .ok ((d.content p).map some) ∧
    ∀ size count, (d.content p).length ≤ size * count →
      readFile d p rm (.readBuf size count) = .ok ((d.content p).map some) := by
  have ho := open_read_eq d p rm hrm hf hdir
  have hr : Readable (mkStream p .r (isBinary rm) false 0) := ⟨rfl, rfl⟩
  refine ⟨?_, ?_, ?_⟩
  · have := read_readable d { m_file := some (mkStream p .r (isBinary rm) false 0), m_mode := rm } _ rfl hr
    simp only [readFile, ho, this]; rfl
  · have := read_readable d { m_file := some (mkStream p .r (isBinary rm) false 0), m_mode := rm } _ rfl hr
    simp only [readFile, ho, readStr, this]; rfl
  · intro size count hge
    simp only [readFile, ho, readBuf, fread]
    by_cases h0 : size * count = 0
    · have : d.content p = [] := List.eq_nil_of_length_eq_zero (by omega)
      simp [h0, this, mkStream, Except.map]
    · have hrd : readable (mkStream p .r (isBinary rm) false 0) = true := (readable_iff _).mpr hr
      simp only [h0, if_false, hrd, Bool.not_true, Bool.false_eq_true, Except.map]
      simp [mkStream, List.take_of_length_le hge]

/-- ROUND TRIP.  Any byte sequence, split in any way into calls of any of the three `write` overloads, written
    in any write or append mode to a path that holds no file yet (or, for the write modes, any old file) and
    closed, is read back identically in both read modes by `read()`, `readStr()` and `read(buffer, …)` -/
theorem C17_roundtrip (d : Disk) (p : String) (wm rm : Mode) (calls : List WCall)
    (hwm : (wm = .write ∨ wm = .writeText) ∨ ((wm = .append ∨ wm = .appendText) ∧ d.content p = []))
    (hrm : rm = .read ∨ rm = .readText) (hdir : d.isDir p = false) :
    ∃ d', writeFile d p wm calls = .ok d' ∧
      readFile d' p rm .read = .ok ((written calls).map some) ∧
      readFile d' p rm .readStr = .ok ((written calls).map some) ∧
      ∀ size count, (written calls).length ≤ size * count →
        readFile d' p rm (.readBuf size count) = .ok ((written calls).map some) := by
  have key : ∃ d', writeFile d p wm calls = .ok d' ∧ d'.content p = written calls ∧ d'.isFile p = true ∧ d'.isDir p = false := by
    rcases hwm with h | ⟨h, hc⟩
    · exact C17_truncate d p wm h hdir calls
    · obtain ⟨d', h1, h2, h3, h4⟩ := C17_append d p wm h hdir calls
      exact ⟨d', h1, by simpa [hc] using h2, h3, h4⟩
  obtain ⟨d', hw, hc, hf, hd⟩ := key
  have := C17_read_back d' p rm hrm hf hd
  rw [hc] at this
  exact ⟨d', hw, this⟩

/-- the `fgetc`/`feof` counting loop of `read()`: on a stream open for reading, positioned anywhere inside the file
    with a clear end-of-file indicator, it stops after exactly (bytes left + 1) evaluations of its condition and has
    counted exactly the bytes left — whatever the bytes are (0xFF is `some 255`, never mistaken for EOF; 0x00, CR and LF
    are bytes like any other) -/
theorem C17_count_loop (d : Disk) (st : Stream) (hr : st.acc = .r ∧ st.dir = false) (he : st.eof = false)
    (hpos : st.pos ≤ (d.content st.path).length) (extra : Nat) :
    ∃ st', countLoop d ((d.content st.path).length - st.pos + 1 + extra) st 0
        = some (st', (d.content st.path).length - st.pos) ∧ st'.pos = (d.content st.path).length := by
  have := countLoop_readable d ((d.content st.path).length - st.pos) st 0 extra hr he (by omega)
  rw [Nat.zero_add] at this
  exact ⟨_, this, rfl⟩

/-- … and on a stream that cannot be read (write and append modes) the loop never ends: this is the hang of
    `read()` on an `AppendText` stream, reported by the model as `.hang` (outside the property) -/
theorem C17_count_loop_diverges (d : Disk) (st : Stream) (hr : readable st = false) (he : st.eof = false) (fuel : Nat) :
    countLoop d fuel st 0 = none := countLoop_unreadable d fuel st 0 hr he

/-- `size()` on any open File, in any mode, at any position: the number of bytes in the file; the position is
    unchanged -/
theorem C17_size (d : Disk) (f : File) (st : Stream) (hopen : f.m_file = some st) :
    ∃ f', size d f = .ok (f', (d.content st.path).length) ∧ tell f' = tell f ∧ tell f = .ok st.pos := by
  refine ⟨_, size_open d f st hopen, ?_, ?_⟩
  · simp [tell, hopen, ftell]
  · simp [tell, hopen, ftell]

/-- opening a missing file in a read mode (or with Mode::None) throws NotFound; opening a directory throws
    NotFile in every mode; in both cases the File object is untouched -/
theorem C17_open_errors (d : Disk) (f : File) (p : String) (m : Mode) :
    (d.isFile p = false → d.isDir p = false → isWriteMode m = false → «open» d f p m = (d, f, .error .notFound)) ∧
    (d.isDir p = true → «open» d f p m = (d, f, .error .notFile)) := by
  constructor
  · intro hf hd hw
    simp [«open», pathExists_iff, hf, hd, hw]
  · intro hd
    simp [«open», pathExists_iff, pathIsDirectory, hd]

/-- HISTORIES.  On a File open for reading on a regular file, every sequence of seek / tell / size / read(buffer) /
    read() / readStr() calls returns exactly what the byte-list specification `runSpec` returns, and the disk is
    never touched (the model functions do not even return one) -/
theorem C17_history (d : Disk) (f : File) (st : Stream) (hopen : f.m_file = some st)
    (hr : st.acc = .r ∧ st.dir = false) (ops : List ROp) :
    ∃ f', runFile d f ops = .ok (f', (runSpec (d.content st.path) st.pos ops).2) ∧
      tell f' = .ok (runSpec (d.content st.path) st.pos ops).1 := by
  obtain ⟨f', h1, st', h2, _, _, h3⟩ := runFile_spec d st.path ops f st.pos ⟨st, hopen, rfl, hr, rfl⟩
  exact ⟨f', h1, by simp [tell, h2, ftell, h3]⟩

/-- the same, starting from `open` in a read mode -/
theorem C17_history_from_open (d : Disk) (p : String) (rm : Mode) (hrm : rm = .read ∨ rm = .readText)
    (hf : d.isFile p = true) (hdir : d.isDir p = false) (ops : List ROp) :
    ∃ f f', «open» d File.closed p rm = (d, f, .ok ()) ∧
      runFile d f ops = .ok (f', (runSpec (d.content p) 0 ops).2) := by
  have ho := open_read_eq d p rm hrm hf hdir
  obtain ⟨f', h1, _⟩ := C17_history d { m_file := some (mkStream p .r (isBinary rm) false 0), m_mode := rm } _ rfl ⟨rfl, rfl⟩ ops
  exact ⟨_, f', ho, h1⟩

/-! non-vacuity: concrete runs of the model (kernel-evaluated) with NUL, 0xFF, CR/LF bytes, an empty chunk,
    element size 2 with a dangling byte, an existing file and a directory on the disk -/
def exDisk : Disk := { files := [("old", [1, 2, 3])], dirs := ["dir"] }
def exCalls : List WCall := [.array [0, 255, 13, 10], .string [], .raw [65, 66, 67, 68, 69] 2, .string [10, 13, 0]]
example : written exCalls = [0, 255, 13, 10, 65, 66, 67, 68, 10, 13, 0] := by decide
example : (writeFile exDisk "old" .writeText exCalls).toOption.map (·.content "old") = some (written exCalls) := by decide
example : (writeFile exDisk "old" .appendText exCalls).toOption.map (·.content "old") = some ([1, 2, 3] ++ written exCalls) := by decide
example : (writeFile exDisk "new" .append exCalls).toOption.map (fun d' => readFile d' "new" .readText .read)
    = some (.ok ((written exCalls).map some)) := by rfl
example : («open» exDisk File.closed "nope" .read).2.2 = .error .notFound ∧
    («open» exDisk File.closed "dir" .write).2.2 = .error .notFile := ⟨by rfl, by rfl⟩
example : (runSpec [7, 255, 0, 9] 0 [.readBuf 3 1, .size, .seek (-1) .current, .tell, .readBuf 2 2, .seek (-9) .end, .read]).2
    = [.buf 1 [7, 255, 0], .nat 4, .int 0, .nat 2, .buf 1 [0, 9], .int (-1), .cells [some 7, some 255, some 0, some 9]] := by decide

end Tulz
