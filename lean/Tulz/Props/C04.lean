import Tulz.Proofs.RingBufferLive
/-
  C04 — RingBuffer behaves as a bounded double-ended queue.

  `RbStore` is the slot-level transcription of RingBuffer.h (several objects, for copy / move /
  assignment / comparison); `DqStore` is the bounded deque of the statement.  Every theorem is for
  every capacity ≥ 1, both overwrite modes, every element type `α`, every head position and
  wrap-around layout (these are universally quantified inside `StoreRep` / `Rep`), and every finite
  history that respects the documented preconditions (`DqStore.valid`).
-/
namespace Tulz
variable {α : Type} [DecidableEq α]

/-- **C04, one operation**: from related states, a valid operation succeeds on the model, returns exactly what
    the bounded deque returns (popped value, reference returned by a push, element, size, capacity, iteration,
    comparison), and leaves related states. -/
theorem C04_op_refines {s : RbStore α} {t : DqStore α} (h : StoreRep s t) (op : RbOp α) (hv : DqStore.valid t op) :
    ∃ s', RbStore.step s op = .ok (s', (DqStore.step t op).2) ∧ StoreRep s' (DqStore.step t op).1 :=
  step_refines h op hv

/-- **C04, every history**: every finite valid history, started from related stores (in particular from no
    objects at all), produces on the model exactly the observations of the bounded deque. -/
theorem C04_history {s : RbStore α} {t : DqStore α} (h : StoreRep s t) (ops : List (RbOp α))
    (hv : DqStore.validFrom t ops) :
    ∃ s', RbStore.run s ops = .ok (s', (DqStore.run t ops).2) ∧ StoreRep s' (DqStore.run t ops).1 := by
  induction ops generalizing s t with
  | nil => exact ⟨s, rfl, h⟩
  | cons op ops ih =>
    obtain ⟨hv1, hv2⟩ := hv
    obtain ⟨s1, hs1, hr1⟩ := step_refines h op hv1
    obtain ⟨s2, hs2, hr2⟩ := ih hr1 hv2
    refine ⟨s2, ?_, hr2⟩
    simp only [RbStore.run, hs1, DqStore.run]
    simp [bind, Except.bind, hs2, pure, Except.pure]

/-- the empty stores are related: histories may start from nothing -/
theorem C04_history_from_empty (ops : List (RbOp α)) (hv : DqStore.validFrom ([] : DqStore α) ops) :
    ∃ s', RbStore.run ([] : RbStore α) ops = .ok (s', (DqStore.run ([] : DqStore α) ops).2) :=
  let ⟨s', h, _⟩ := C04_history (s := []) (t := []) Rel2.nil ops hv
  ⟨s', h⟩

/-- **resize keeps the elements nearest the front**: in every layout `resize(nc)` yields capacity `nc`
    and exactly the first `min size nc` elements, in order. -/
theorem C04_resize_keeps_front {b : RB α} {xs : List α} (h : RB.Rep b xs) (hc : 0 < b.cap) (nc : Nat) (hnc : 0 < nc) :
    ∃ b' k, b.resize nc = .ok (b', k) ∧ b'.toList = .ok (xs.take (min xs.length nc)) ∧ b'.size = min xs.length nc ∧ b'.cap = nc := by
  obtain ⟨b', k, hb, hrep, hcap⟩ := RB.resize_ok h hc nc hnc
  have e : xs.take (min xs.length nc) = xs.take nc := by
    by_cases hx : xs.length ≤ nc
    · rw [Nat.min_eq_left hx, List.take_length, List.take_of_length_le hx]
    · rw [Nat.min_eq_right (by omega)]
  refine ⟨b', k, hb, ?_, ?_, hcap⟩
  · rw [e]; exact RB.toList_ok hrep
  · rw [← hrep.len_eq]; simp [Nat.min_comm]

/-- **insertion into a full overwriting buffer discards the element at the opposite end** and returns a
    reference to the inserted element. -/
theorem C04_push_full_discards_opposite {b : RB α} {xs : List α} (h : RB.Rep b xs) (hc : 0 < b.cap)
    (hfull : b.size = b.cap) (x : α) :
    (∃ b', b.emplaceBack true x = .ok (b', x) ∧ RB.Rep b' (xs.tail ++ [x])) ∧
    (∃ b', b.emplaceFront true x = .ok (b', x) ∧ RB.Rep b' (x :: xs.dropLast)) := by
  have hnl : ¬ xs.length < b.cap := by rw [h.len_eq]; omega
  constructor
  · obtain ⟨b', hb, hrep, _⟩ := RB.emplaceBack_ok true x h hc (Or.inl rfl)
    simp only [Deque.pushBack, hnl, if_false] at hrep
    exact ⟨b', hb, hrep⟩
  · obtain ⟨b', hb, hrep, _⟩ := RB.emplaceFront_ok true x h hc (Or.inl rfl)
    simp only [Deque.pushFront, hnl, if_false] at hrep
    exact ⟨b', hb, hrep⟩

theorem modCapI_nonneg (cap n : Nat) : RB.modCapI cap (n : Int) = ((n % cap : Nat) : Int) := by
  unfold RB.modCapI
  rw [← Int.ofNat_tmod, ← Int.natCast_add, ← Int.ofNat_tmod]
  congr 1
  rw [Nat.add_mod_right, Nat.mod_mod]

/-- **the signed `modCap` of the C++ equals the unsigned index arithmetic of the model** for the two shapes in
    which it is called: `m_pos + i` and `m_pos - 1`. -/
theorem C04_modCap_signed (cap pos i : Nat) (hc : 0 < cap) :
    RB.modCapI cap ((pos : Int) + (i : Int)) = (((pos + i) % cap : Nat) : Int) ∧
    RB.modCapI cap ((pos : Int) - 1) = (((pos + cap - 1) % cap : Nat) : Int) := by
  constructor
  · have : ((pos : Int) + (i : Int)) = ((pos + i : Nat) : Int) := by simp
    rw [this, modCapI_nonneg]
  · cases pos with
    | zero =>
      unfold RB.modCapI
      have h1 : ((0 : Nat) : Int) - 1 = -((1 : Nat) : Int) := by simp
      rw [h1, Int.neg_tmod, ← Int.ofNat_tmod]
      by_cases hc1 : cap = 1
      · subst hc1; simp
      · have : 1 % cap = 1 := Nat.mod_eq_of_lt (by omega)
        rw [this]
        have h2 : -((1 : Nat) : Int) + (cap : Int) = ((cap - 1 : Nat) : Int) := by omega
        rw [h2, ← Int.ofNat_tmod]
        congr 2; omega
    | succ k =>
      have h1 : ((k + 1 : Nat) : Int) - 1 = (k : Int) := by omega
      rw [h1, modCapI_nonneg]
      congr 1
      have : k + 1 + cap - 1 = k + cap := by omega
      rw [this, Nat.add_mod_right]

/-! ### non-vacuity: the hypotheses are met by concrete, non-trivial states -/

/-- a wrapped, full buffer (`pos = 3`, `size = cap = 5`) holding 10,11,12,13,14 satisfies `Rep` -/
example : RB.Rep (⟨3, 5, 5, [.live 12, .live 13, .live 14, .live 10, .live 11]⟩ : RB Nat) [10, 11, 12, 13, 14] := by
  refine ⟨rfl, Nat.le_refl _, rfl, fun _ => by decide, fun h => absurd h (by decide), ?_, ?_⟩
  · intro i hi
    have : i < 5 := hi
    match i, this with
    | 0, _ => rfl | 1, _ => rfl | 2, _ => rfl | 3, _ => rfl | 4, _ => rfl
  · intro i h1 h2; exact absurd (show i < 5 from h2) (by have : 5 ≤ i := h1; omega)

/-- a history that wraps around, overwrites and resizes is valid from the empty store -/
example : DqStore.validFrom ([] : DqStore Nat)
    [.new 1 3 true, .pushBack 1 10, .pushBack 1 11, .popFront 1, .pushBack 1 12, .pushBack 1 13,
     .pushBack 1 14, .pushFront 1 9, .resize 1 2, .copy 2 1, .eq 1 2, .drop 1, .drop 2] := by
  simp [DqStore.validFrom, DqStore.valid, DqStore.step, Assoc.find, Assoc.put, Assoc.del, Deque.pushBack,
    Deque.popFront, Deque.pushFront, Deque.resize]

end Tulz
