import Tulz.Proofs.Thread
import Tulz.Generated.ThreadCaptures
/-
  C20 — tulz::Thread runs its callable once, on a live copy, and reports completion.

  `Thr.Step cfg` (Tulz/Model/Thread.lean) interleaves the starter
      evalArgs ; buildClosure ; spawn ; returnFromStart ; clobberFrame ; poll* ; join ; scopeExit
  with the new thread
      begin ; readCallable ; invokeBegin ; (useSelf | useArgs)* ; invokeEnd ; [delete] ; setFinished ; exit
  in every order (`Reach cfg s`: `s` is reachable by some interleaving; `Run cfg s ls t`: by the label list `ls`).
  `cfg` says how each closure field refers to its entity; for the real code it is `Cfg.ofCaps kind table nargs` with `table`
  the GENERATED capture table (`Tulz.Generated.ThreadCaptures`, rewritten from Thread.h / Thread.cpp on every check run).

  What is proved here is about this model.  The lifetimes (frame slot dies at `returnFromStart`, closure at `exit`, caller
  lvalues and `*this` at `scopeExit` after `join`, the Runnable at `delete`) and the resolution of the syntactic capture modes
  to closure fields (`resolveValueParam`, `resolveRefParam`, `resolveThis`) are transcribed from the C++ rules by hand.
-/
namespace Thread
open Tulz.Generated.ThreadCaptures

/-! ## C20_callable_alive -/

/-- the new thread is about to read, enter, or is running the callable -/
def usesCallable : WPc → Bool
  | .readCallable | .invokeBegin | .inside => true
  | _ => false

/-- **C20_callable_alive**: if the table captures the callable by copy, then in every reachable state in which the new
    thread reads / invokes / runs the callable, the object that holds the callable (the closure field) is alive —
    however late the new thread runs (the starter may have returned from start(), clobbered the frame, be blocked in join). -/
theorem C20_callable_alive (cfg : Cfg) (hcap : cfg.callable = .byCopy) (s : State) (h : Reach cfg s)
    (hu : usesCallable s.wpc = true) : s.alive cfg.callable.obj = true := by
  have hi := reach_inv h
  rw [hcap]
  show s.closureAlive = true
  apply closure_alive hi <;> cases hw : s.wpc <;> simp_all [usesCallable, wIsUnborn, wNotEnded]

/-- **C20_no_dead_access**: with a safe table (callable copied, every argument a reference to a caller lvalue or a copy,
    `this` the pointer) NO step of ANY interleaving accesses an object outside its lifetime: not the callable, not the
    arguments during the call, not `*this` in `m_isFinished = true` / isFinished() / join(), not the Runnable. -/
theorem C20_no_dead_access (cfg : Cfg) (hsafe : cfg.Safe) (s : State) (h : Reach cfg s) : s.badTouch = false :=
  reach_safe hsafe h

/-! ## C20_once -/

/-- **C20_once**: the callable is entered at most once in every run prefix, and exactly once in every complete run
    (`join()` has returned and the caller left the scope): the label `invokeBegin` occurs exactly once. -/
theorem C20_once (cfg : Cfg) (ls : List Lbl) (t : State) (h : Run cfg (init cfg) ls t) :
    ls.count .invokeBegin ≤ 1 ∧ (t.spc = .joined ∨ t.spc = .done → ls.count .invokeBegin = 1) := by
  have hi := reach_inv (run_reach Reach.init h)
  have hc := run_invokes h
  have hinv := hi.inv
  have hcomp := hi.compat
  simp only [init] at hc
  constructor
  · split at hinv <;> omega
  · intro hd
    have hw : t.wpc = .ended := by
      rcases hd with hd | hd <;> rw [hd] at hcomp <;> cases hw : t.wpc <;> simp_all [compat, wNotEnded]
    rw [hw] at hinv
    simp [wEntered] at hinv
    omega

/-- every incomplete run can continue with a step that is not a poll / use loop, and such steps strictly decrease a measure:
    with finitely many polls and uses every run completes (no deadlock, `join()` returns) -/
theorem C20_completes (cfg : Cfg) (s : State) (h : Reach cfg s) (hnd : s.spc ≠ .done) :
    ∃ l t, Step cfg s l t ∧ l.isLoop = false ∧ measure t < measure s := by
  obtain ⟨l, t, hs, hl⟩ := progress (reach_inv h) hnd
  exact ⟨l, t, hs, hl, measure_decreases (reach_inv h) hs hl⟩

/-! ## C20_finished_after -/

/-- **C20_finished_after**: in every reachable state, `m_isFinished = true` implies the callable has returned; so does an
    observation `isFinished() = true` by the starter; and once `join()` has returned, `m_isFinished` is true. -/
theorem C20_finished_after (cfg : Cfg) (s : State) (h : Reach cfg s) :
    (s.finished = true → s.returned = true) ∧
    (s.sawFinished = true → s.returned = true) ∧
    (s.spc = .joined ∨ s.spc = .done → s.finished = true ∧ s.returned = true) := by
  have hi := reach_inv h
  have hfin := hi.fin
  have hret := hi.ret
  have hcomp := hi.compat
  have key : s.finished = true → s.returned = true := by
    intro hf; rw [hret]; rw [hfin] at hf
    cases hw : s.wpc <;> simp_all [wFlagSet, wReturned]
  refine ⟨key, fun hs => key (hi.saw hs), ?_⟩
  intro hd
  have hw : s.wpc = .ended := by
    rcases hd with hd | hd <;> rw [hd] at hcomp <;> cases hw : s.wpc <;> simp_all [compat, wNotEnded]
  have : s.finished = true := by rw [hfin, hw]; rfl
  exact ⟨this, key this⟩

/-! ## C20_runnable -/

/-- **C20_runnable** (state form): for `start(Runnable*)`, in every reachable state the Runnable has been destroyed at most
    once; it is destroyed only after run() was entered exactly once and has returned; `m_isFinished` is set only after the
    destruction; the Runnable is alive exactly until then. -/
theorem C20_runnable (cfg : Cfg) (hk : cfg.kind = .runnable) (s : State) (h : Reach cfg s) :
    s.destroys ≤ 1 ∧
    (s.destroys = 1 → s.invokes = 1 ∧ s.returned = true) ∧
    (s.finished = true → s.destroys = 1) ∧
    (s.heapAlive = true ↔ s.destroys = 0) := by
  have hi := reach_inv h
  have h1 := hi.des
  have h2 := hi.inv
  have h3 := hi.ret
  have h4 := hi.fin
  have h5 := hi.heap
  rw [hk] at h1 h5
  cases hw : s.wpc <;> simp_all [wPastDelete, wEntered, wReturned, wFlagSet, Kind.isRunnable]

/-- **C20_runnable** (run form): in every complete run of the Runnable instance run() is entered exactly once and the
    Runnable is destroyed exactly once; a run of the callable instance never executes `delete`. -/
theorem C20_runnable_once (cfg : Cfg) (ls : List Lbl) (t : State) (h : Run cfg (init cfg) ls t)
    (hd : t.spc = .joined ∨ t.spc = .done) :
    (cfg.kind = .runnable → ls.count .invokeBegin = 1 ∧ ls.count .delete = 1) ∧
    (cfg.kind = .callable → ls.count .delete = 0) := by
  have hi := reach_inv (run_reach Reach.init h)
  have hc := run_destroys h
  have hdes := hi.des
  have hcomp := hi.compat
  have hw : t.wpc = .ended := by
    rcases hd with hd | hd <;> rw [hd] at hcomp <;> cases hw : t.wpc <;> simp_all [compat, wNotEnded]
  simp only [init] at hc
  rw [hw] at hdes
  constructor
  · intro hk
    rw [hk] at hdes
    simp [wPastDelete, Kind.isRunnable] at hdes
    exact ⟨(C20_once cfg ls t h).2 hd, by omega⟩
  · intro hk
    rw [hk] at hdes
    simp [wPastDelete, Kind.isRunnable] at hdes
    omega

/-! ## the generated table -/

/-- what the safety theorems need from the table of the template `start`, on the syntactic level:
    the callable parameter is captured by copy (explicitly or through `=`) and the lambda is `mutable` (so that the copy can be
    invoked for every callable type, also one with a non-const operator()); the argument pack is captured by reference
    (→ references to the caller's lvalues) or by copy; `this` is the pointer; the body is `invoke; setFinished`. -/
def templateOk (l : LambdaCaps) : Bool :=
  resolveValueParam l.callable == some .byCopy && l.isMutable &&
  (resolveRefParam l.args == some (.byRef .callerLvalue) || resolveRefParam l.args == some .byCopy) &&
  resolveThis l.this == some .byCopy &&
  l.body == [.invoke, .setFinished]

def runnableOk (l : LambdaCaps) : Bool :=
  resolveValueParam l.callable == some .byCopy && resolveThis l.this == some .byCopy &&
  l.body == [.run, .delete, .setFinished]

/-- **C20_captures_ok** — the obligation over the REGENERATED table (kernel `decide`): the template `start` copies the
    callable into a mutable closure, takes the arguments by reference to the caller's lvalues (or by copy) and `this` as the
    pointer, its body is `invoke; setFinished`; `start(Runnable*)` copies the pointer and `this`, its body is
    `run; delete; setFinished`; `join()` is `m_thread.join()`, `isFinished()` returns the flag, the constructor forwards to
    `start`.  On a tree whose template `start` captures `[&]` this is false (finding F10). -/
theorem C20_captures_ok :
    templateOk startTemplate = true ∧ runnableOk startRunnable = true ∧
    joinIsStdJoin = true ∧ isFinishedReadsFlag = true ∧ ctorForwardsToStart = true := by decide

theorem templateOk_safe (l : LambdaCaps) (h : templateOk l = true) (n : Nat) :
    ∃ cfg, Cfg.ofCaps .callable l n = some cfg ∧ cfg.Safe ∧ cfg.kind = .callable ∧ cfg.args.length = n := by
  simp only [templateOk, Bool.and_eq_true, Bool.or_eq_true, beq_iff_eq] at h
  obtain ⟨⟨⟨⟨hc, _⟩, ha⟩, ht⟩, _⟩ := h
  by_cases hn : n = 0
  · refine ⟨⟨.callable, .byCopy, [], .byCopy⟩, ?_, ⟨rfl, by simp, rfl⟩, rfl, by simp [hn]⟩
    simp [Cfg.ofCaps, hc, ht, hn]
  · rcases ha with ha | ha
    · exact ⟨⟨.callable, .byCopy, List.replicate n (.byRef .callerLvalue), .byCopy⟩, by simp [Cfg.ofCaps, hc, ht, hn, ha],
        ⟨rfl, by intro a h; exact Or.inl (List.eq_of_mem_replicate h), rfl⟩, rfl, by simp⟩
    · exact ⟨⟨.callable, .byCopy, List.replicate n .byCopy, .byCopy⟩, by simp [Cfg.ofCaps, hc, ht, hn, ha],
        ⟨rfl, by intro a h; exact Or.inr (List.eq_of_mem_replicate h), rfl⟩, rfl, by simp⟩

/-- the generated tables resolve, for every number of arguments, to a safe configuration -/
theorem C20_generated_safe :
    (∀ n, ∃ cfg, Cfg.ofCaps .callable startTemplate n = some cfg ∧ cfg.Safe ∧ cfg.kind = .callable ∧ cfg.args.length = n) ∧
    (∃ cfg, Cfg.ofCaps .runnable startRunnable 0 = some cfg ∧ cfg.Safe ∧ cfg.kind = .runnable) := by
  refine ⟨templateOk_safe _ C20_captures_ok.1, ?_⟩
  have h := C20_captures_ok.2.1
  simp only [runnableOk, Bool.and_eq_true, beq_iff_eq] at h
  obtain ⟨⟨hc, ht⟩, _⟩ := h
  exact ⟨⟨.runnable, .byCopy, [], .byCopy⟩, by simp [Cfg.ofCaps, hc, ht], ⟨rfl, by simp, rfl⟩, rfl⟩

/-- **C20 for the code as translated**: for the template `start` with any number of lvalue arguments and for
    `start(Runnable*)`, with the capture table generated from the current source: in every reachable state of every
    interleaving nothing dead was accessed, the callable was entered at most once, the flag implies the callable returned. -/
theorem C20_generated (n : Nat) (cfg : Cfg)
    (hcfg : Cfg.ofCaps .callable startTemplate n = some cfg ∨ Cfg.ofCaps .runnable startRunnable 0 = some cfg)
    (s : State) (h : Reach cfg s) :
    s.badTouch = false ∧ s.invokes ≤ 1 ∧ (s.finished = true → s.returned = true) ∧
    (s.spc = .joined ∨ s.spc = .done → s.finished = true ∧ s.invokes = 1) := by
  have hsafe : cfg.Safe := by
    rcases hcfg with hc | hc
    · obtain ⟨c, h1, h2, _⟩ := C20_generated_safe.1 n
      rw [h1] at hc; cases hc; exact h2
    · obtain ⟨c, h1, h2, _⟩ := C20_generated_safe.2
      rw [h1] at hc; cases hc; exact h2
  have hi := reach_inv h
  have hf := C20_finished_after cfg s h
  have hinv := hi.inv
  refine ⟨reach_safe hsafe h, by split at hinv <;> omega, hf.1, ?_⟩
  intro hd
  refine ⟨(hf.2.2 hd).1, ?_⟩
  have hcomp := hi.compat
  have hw : s.wpc = .ended := by
    rcases hd with hd | hd <;> rw [hd] at hcomp <;> cases hw : s.wpc <;> simp_all [compat, wNotEnded]
  rw [hw] at hinv; simpa [wEntered] using hinv

/-! ## the hypothesis is necessary -/

/-- the run in which the new thread is held back until start() has returned -/
def lateRun : List Lbl := [.evalArgs, .buildClosure, .spawn, .returnFromStart, .clobberFrame, .begin, .readCallable]

/-- **C20_ref_capture_unsafe**: if the closure refers to the by-value parameter of start() by reference (explicit `&ptr` or a
    capture-default `&`, which is what `resolveValueParam` yields for them), there IS a reachable state — the new thread
    scheduled after start() returned — in which the new thread has read the dead frame slot. -/
theorem C20_ref_capture_unsafe (cfg : Cfg) (href : cfg.callable = .byRef .frameSlot) :
    ∃ s t, Reach cfg s ∧ Step cfg s .readCallable t ∧ cfg.callable.obj = .frameSlot ∧ s.alive .frameSlot = false ∧
      t.badTouch = true := by
  have h5 : run? cfg (init cfg) (lateRun.take 6) = some (doBegin (doClobberFrame (doReturnFromStart (doSpawn
      (doBuildClosure cfg (doEvalArgs (init cfg))))))) := by
    simp [lateRun, run?, step?, init, doEvalArgs, doBuildClosure, doSpawn, doReturnFromStart, doClobberFrame, doBegin]
  refine ⟨_, _, run?_reach _ Reach.init h5, Step.readCallable _ rfl, by rw [href]; rfl, rfl, ?_⟩
  simp [doReadCallable, State.touch, isDead, State.alive, href, Cap.obj, Target.obj, doBegin, doClobberFrame, doReturnFromStart,
    doSpawn, doBuildClosure, doEvalArgs, init]

/-- … in terms of the syntactic table: a `&ptr` or default-`&` capture of the callable parameter makes every resolved
    configuration unsafe -/
theorem C20_ref_capture_unsafe_table (l : LambdaCaps) (k : Kind) (n : Nat) (cfg : Cfg) (h : Cfg.ofCaps k l n = some cfg)
    (hm : l.callable = .byRef ∨ l.callable = .defaultRef) : ∃ s, Reach cfg s ∧ s.badTouch = true := by
  have href : cfg.callable = .byRef .frameSlot := by
    have hr : resolveValueParam l.callable = some (.byRef .frameSlot) := by rcases hm with hm | hm <;> rw [hm] <;> rfl
    simp only [Cfg.ofCaps, hr] at h
    split at h
    · rename_i c t hc _
      cases hc
      cases k
      · simp only at h
        split at h
        · cases h; rfl
        · split at h
          · cases h; rfl
          · cases h
      · simp only at h; cases h; rfl
    · cases h
  obtain ⟨s, t, hr, hs, _, _, hb⟩ := C20_ref_capture_unsafe cfg href
  exact ⟨t, Reach.step hr hs, hb⟩

/-! ## non-vacuity -/

/-- the repaired table `[this, ptr, &args...]() mutable` with two lvalue arguments -/
def exCfg : Cfg := ⟨.callable, .byCopy, [.byRef .callerLvalue, .byRef .callerLvalue], .byCopy⟩
def exRunnable : Cfg := ⟨.runnable, .byCopy, [], .byCopy⟩
/-- the table of `[&]` -/
def exRef : Cfg := ⟨.callable, .byRef .frameSlot, [.byRef .callerLvalue], .byCopy⟩

/-- the late schedule: the starter returns, clobbers, polls; only then the new thread runs to completion; join; scope exit -/
def exLate : List Lbl :=
  [.evalArgs, .buildClosure, .spawn, .returnFromStart, .clobberFrame, .poll, .begin, .readCallable, .invokeBegin, .useSelf,
   .useArgs, .invokeEnd, .setFinished, .poll, .exit, .join, .scopeExit]
/-- the early schedule: the new thread runs inside start(), before it returns -/
def exEarly : List Lbl :=
  [.evalArgs, .buildClosure, .spawn, .begin, .readCallable, .invokeBegin, .returnFromStart, .useSelf, .clobberFrame, .useArgs,
   .invokeEnd, .setFinished, .exit, .poll, .join, .scopeExit]
def exRunnableRun : List Lbl :=
  [.evalArgs, .buildClosure, .spawn, .returnFromStart, .clobberFrame, .begin, .readCallable, .invokeBegin, .useSelf, .invokeEnd,
   .poll, .delete, .setFinished, .exit, .join, .scopeExit]

-- the hypotheses of C20_callable_alive / C20_no_dead_access are satisfiable and the states they speak about are reached:
example : exCfg.Safe ∧ exRunnable.Safe := by decide
example : ∃ s, run? exCfg (init exCfg) (exLate.take 8) = some s ∧ usesCallable s.wpc = true ∧ s.frameAlive = false ∧
    s.alive exCfg.callable.obj = true := ⟨_, rfl, rfl, rfl, rfl⟩
-- complete runs exist (late and early), they end with the flag set, one invocation, nothing dead touched, the starter saw `true`:
example : ∃ s, run? exCfg (init exCfg) exLate = some s ∧ s.spc = .done ∧ s.invokes = 1 ∧ s.finished = true ∧
    s.sawFinished = true ∧ s.badTouch = false := ⟨_, rfl, rfl, rfl, rfl, rfl, rfl⟩
example : ∃ s, run? exCfg (init exCfg) exEarly = some s ∧ s.spc = .done ∧ s.invokes = 1 ∧ s.badTouch = false :=
  ⟨_, rfl, rfl, rfl, rfl⟩
example : ∃ s, run? exRunnable (init exRunnable) exRunnableRun = some s ∧ s.spc = .done ∧ s.invokes = 1 ∧ s.destroys = 1 ∧
    s.heapAlive = false ∧ s.badTouch = false := ⟨_, rfl, rfl, rfl, rfl, rfl, rfl⟩
-- join is really blocked while the new thread runs, and a poll before the callable returned sees `false`:
example : ∃ s, run? exCfg (init exCfg) (exLate.take 9) = some s ∧ step? exCfg s .join = none ∧
    (∃ t, step? exCfg s .poll = some t ∧ t.sawFinished = false) := ⟨_, rfl, rfl, _, rfl, rfl⟩
-- the `[&]` table: the same late schedule reads the dead frame slot; the early one does not at `readCallable` but does at `useSelf`
example : ∃ s, run? exRef (init exRef) (exLate.take 8) = some s ∧ s.badTouch = true := ⟨_, rfl, rfl⟩
example : ∃ s, run? exRef (init exRef) (exEarly.take 6) = some s ∧ s.badTouch = false := ⟨_, rfl, rfl⟩
example : ∃ s, run? exRef (init exRef) (exEarly.take 8) = some s ∧ s.badTouch = true := ⟨_, rfl, rfl⟩
-- a by-copy argument pack (`[=]() mutable`) is safe as well
example : (⟨.callable, .byCopy, [.byCopy, .byCopy], .byCopy⟩ : Cfg).Safe := by decide
-- the unrepaired table is rejected by the obligation, the repaired and the `[=] mutable` ones are accepted
example : templateOk ⟨.defaultRef, .defaultRef, .defaultRef, false, [.invoke, .setFinished]⟩ = false := by decide
example : templateOk ⟨.byCopy, .byRef, .byCopy, true, [.invoke, .setFinished]⟩ = true := by decide
example : templateOk ⟨.defaultCopy, .defaultCopy, .defaultCopy, true, [.invoke, .setFinished]⟩ = true := by decide
example : templateOk ⟨.byCopy, .byRef, .byCopy, true, [.setFinished, .invoke]⟩ = false := by decide

end Thread
