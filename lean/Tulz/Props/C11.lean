import Tulz.Props.C01
import Tulz.Generated.RouterLocks
/-
  C11 — ConcurrentSubjectRouter operations are atomic with respect to each other.

  Composition `CState σ` = rwp lock (`Rwp.State`, any number of threads, every interleaving) × abstract
  router state `σ` × ghosts.  The lock each operation takes is read from the GENERATED table
  `Tulz.Generated.routerLocks` (regenerated from ConcurrentSubjectRouter.h on every run), so a read lock
  where a write lock is needed, a missing guard or a guard constructed as a temporary breaks `C11_table_ok`.
-/
namespace Rwp
open Tulz.Generated

/-- the lock an operation runs under according to the generated table (`unknown` when absent) -/
def tableLockOf (op : ROp) : Guard :=
  match routerLocks.find? (fun e => e.1 == op) with
  | some e => e.2
  | Option.none => .unknown

/-- **C11 (generated obligation)**: every operation of ConcurrentSubjectRouter runs under a named guard on the
    resource, and subscribe / unsubscribe / shrink under the write lock. -/
theorem C11_table_ok : TableOk tableLockOf := by
  intro op
  cases op <;> decide

variable {σ : Type}

theorem CReach.base_reach {lockOf : ROp → Guard} {M : (σ → σ) → Prop} {n : Nat} {r0 : σ} {s : CState σ} (h : CReach lockOf M n r0 s) :
    Reach n s.base := by
  induction h with
  | init => exact Reach.init
  | step _ hs ih =>
    cases hs with
    | lock b' hb => exact Reach.step ih hb
    | mutate i op hm f hf hb => exact ih
    | observe i op hm hb => exact ih

/-- the invariant: a thread holding the *read* lock has seen the router unchanged since its request was granted,
    and everything its operation has read so far is that state -/
def ReadStable (s : CState σ) : Prop :=
  ∀ i, s.base.ths[i]? = some (.holding .read) → s.snap i = s.cur ∧ ∀ v ∈ s.obs i, v = s.cur

/-- **C11, stability under the read lock**: for every number of threads and every interleaving, while a thread holds
    the read lock (a notify / exists / depth in progress) the router state equals the state at the instant its
    request was granted: no subscribe, unsubscribe or shrink takes effect during a delivery. -/
theorem C11_stable_under_read (lockOf : ROp → Guard) (M : (σ → σ) → Prop) (hok : TableOk lockOf) (n : Nat) (r0 : σ) (s : CState σ)
    (h : CReach lockOf M n r0 s) : ReadStable s := by
  induction h with
  | init =>
    intro i hi
    have hi' : (List.replicate n Pc.idle)[i]? = some (Pc.holding Kind.read) := hi
    have := List.mem_of_getElem? hi'
    simp [List.mem_replicate] at this
  | @step s t hr hs ih =>
    have hreach := hr.base_reach
    cases hs with
    | lock b' hb =>
      intro i hi
      show (if newly s.base b' i = true then s.cur else s.snap i) = s.cur ∧
        ∀ v ∈ (if newly s.base b' i = true then [] else s.obs i), v = s.cur
      by_cases hn : newly s.base b' i = true
      · rw [if_pos hn, if_pos hn]
        exact ⟨rfl, fun v hv => by cases hv⟩
      · rw [if_neg hn, if_neg hn]
        have hsame : b'.ths[i]? = s.base.ths[i]? := by
          simp only [newly, Bool.and_eq_true, bne_iff_ne, ne_eq, not_and] at hn
          apply Classical.byContradiction
          intro hne
          have := hn hne
          have hi' : b'.ths[i]? = some (Pc.holding Kind.read) := hi
          rw [hi'] at this
          exact this rfl
        have hi' : b'.ths[i]? = some (Pc.holding Kind.read) := hi
        exact ih i (by rw [← hsame]; exact hi')
    | mutate j op hm f hf hb =>
      intro i hi
      have hi' : s.base.ths[i]? = some (Pc.holding Kind.read) := hi
      -- the mutating thread holds the write lock, so nobody holds a read lock
      have hw : lockOf op = .write := (hok op).2 hm
      have hj : s.base.ths[j]? = some (Pc.holding Kind.write) := by
        have := hb
        simp only [bodyAllowed, hw, Guard.kind?] at this
        exact this
      by_cases e : j = i
      · subst e; rw [hj] at hi'; cases hi'
      · exact absurd (C01_exclusion n s.base hreach j i e .write .read hj hi').1 (by intro e'; cases e')
    | observe j op hm hb =>
      intro i hi
      have hi' : s.base.ths[i]? = some (Pc.holding Kind.read) := hi
      obtain ⟨h1, h2⟩ := ih i hi'
      refine ⟨h1, ?_⟩
      intro v hv
      have hv' : v ∈ (if i = j then s.obs j ++ [s.cur] else s.obs i) := hv
      by_cases e : i = j
      · subst e
        rw [if_pos rfl] at hv'
        rcases List.mem_append.mp hv' with hv'' | hv''
        · exact h2 v hv''
        · simp at hv''; exact hv''
      · rw [if_neg e] at hv'
        exact h2 v hv'

/-- **C11, a notify is atomic**: everything one reading operation has looked at (every level of the traversal, every
    subject it delivered to) is the router state of ONE instant — the one at which its lock request was granted,
    which lies between its call and its return. -/
theorem C11_notify_atomic (lockOf : ROp → Guard) (M : (σ → σ) → Prop) (hok : TableOk lockOf) (n : Nat) (r0 : σ) (s : CState σ)
    (h : CReach lockOf M n r0 s) (i : Nat) (hi : s.base.ths[i]? = some (.holding .read)) :
    ∀ v ∈ s.obs i, v = s.snap i := by
  obtain ⟨h1, h2⟩ := C11_stable_under_read lockOf M hok n r0 s h i hi
  intro v hv; rw [h1]; exact h2 v hv

/-- **C11, mutations are exclusive**: when the body of subscribe / unsubscribe / shrink takes effect no other thread
    is inside any operation of the router (holds the resource in any mode). -/
theorem C11_mutation_exclusive (lockOf : ROp → Guard) (M : (σ → σ) → Prop) (hok : TableOk lockOf) (n : Nat) (r0 : σ) (s : CState σ)
    (h : CReach lockOf M n r0 s) (i : Nat) (op : ROp) (hm : op.mutates = true) (hb : bodyAllowed lockOf s.base i op)
    (j : Nat) (hij : i ≠ j) (k : Kind) : ¬ holds s.base j k := by
  have hw : lockOf op = .write := (hok op).2 hm
  have hi : holds s.base i .write := by
    have := hb
    simp only [bodyAllowed, hw, Guard.kind?] at this
    exact this
  exact C01_writer_alone n s.base h.base_reach i j hij k hi

/-- **C11, after unsubscribe**: whenever the current router state satisfies `P` (e.g. "observer o is not subscribed",
    true from the moment the unsubscribe body took effect until a later re-subscription), every state seen by every
    delivery in progress satisfies `P` too: o is not invoked by any notify that is still running or starts later. -/
theorem C11_after_unsubscribe (lockOf : ROp → Guard) (M : (σ → σ) → Prop) (hok : TableOk lockOf) (n : Nat) (r0 : σ) (s : CState σ)
    (h : CReach lockOf M n r0 s) (P : σ → Prop) (hP : P s.cur) (i : Nat) (hi : s.base.ths[i]? = some (.holding .read)) :
    ∀ v ∈ s.obs i, P v := by
  obtain ⟨_, h2⟩ := C11_stable_under_read lockOf M hok n r0 s h i hi
  intro v hv; rw [h2 v hv]; exact hP

/-- the instance for the code as it is now: the generated table -/
theorem C11_for_this_code (M : (σ → σ) → Prop) (n : Nat) (r0 : σ) (s : CState σ) (h : CReach tableLockOf M n r0 s) :
    ReadStable s :=
  C11_stable_under_read tableLockOf M C11_table_ok n r0 s h

/-- the hypothesis is necessary: with a read lock on a mutating operation a reader can see the state change -/
theorem C11_read_lock_is_not_enough :
    ∃ (s : CState Nat), CReach (fun _ => Guard.read) (fun _ => True) 2 0 s ∧ ¬ ReadStable s := by
  let lk : ROp → Guard := fun _ => Guard.read
  have s0 : CReach lk (fun _ => True) 2 (0 : Nat) (cinit 2 0) := CReach.init
  have s1 := CReach.step s0 (CStep.lock _ _ (Step.callFast (init 2) 0 .read rfl rfl))
  have s2 := CReach.step s1 (CStep.lock _ _ (Step.callFast _ 1 .read rfl rfl))
  have s3 := CReach.step s2 (CStep.mutate _ 1 .subscribe rfl (fun x => x + 1) trivial (by show bodyAllowed lk _ 1 .subscribe; unfold bodyAllowed; exact rfl))
  refine ⟨_, s3, ?_⟩
  intro hst
  have := (hst 0 rfl).1
  exact absurd this (by decide)

/-! non-vacuity: a reachable state in which thread 0 delivers under the read lock while thread 1 waits to subscribe -/
example : ∃ s : CState Nat, CReach tableLockOf (fun _ => True) 2 0 s ∧ s.base.ths[0]? = some (.holding .read) ∧
    s.base.ths[1]? = some (.waiting .write 0 false) ∧ s.obs 0 = [0] := by
  have s0 : CReach tableLockOf (fun _ => True) 2 (0 : Nat) (cinit 2 0) := CReach.init
  have s1 := CReach.step s0 (CStep.lock _ _ (Step.callFast (init 2) 0 .read rfl rfl))
  have s2 := CReach.step s1 (CStep.lock _ _ (Step.callSlow _ 1 .write rfl rfl))
  have s3 := CReach.step s2 (CStep.observe _ 0 .notify rfl (by unfold bodyAllowed; exact rfl))
  exact ⟨_, s3, rfl, rfl, rfl⟩

end Rwp
