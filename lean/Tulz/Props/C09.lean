import Tulz.Props.C04
/-
  C09 — RingBuffer never destroys, duplicates or abandons an element value wrongly.

  In the slot model every destructor call, placement-new, assignment, move-from and read is a partial
  primitive (`Mem.lean`) that fails with `oob` (outside the allocation), `notObject` (destructor or assignment on
  storage holding no object), `overLive` (placement-new over an element that still holds a value — it would be
  abandoned) or `notLive` (reading / moving from a slot without a value).  "Never wrongly" is therefore:
  (a) no operation of a valid history fails, and (b) after every operation the values alive anywhere in the
  model's storage are exactly the contents of the bounded deques — so what an operation destroyed is exactly
  what it logically removed, each once, and nothing holding a value is left behind.
-/
namespace Tulz
variable {α : Type} [DecidableEq α]

/-- **(a)** a valid operation never reads or writes outside the allocation, never runs a destructor on storage
    that holds no element, never constructs over a live element: the model step does not fail with any error. -/
theorem C09_no_bad_access {s : RbStore α} {t : DqStore α} (h : StoreRep s t) (op : RbOp α) (hv : DqStore.valid t op)
    (e : Err) : RbStore.step s op ≠ .error e := by
  obtain ⟨s', hs', _⟩ := step_refines h op hv
  rw [hs']; intro h'; cases h'

/-- **(b)** in related states the multiset of values alive in the model's storage (over all blocks, live slots only;
    moved-from shells hold no value) equals the multiset of deque contents. -/
theorem C09_live_exactly_contents {s : RbStore α} {t : DqStore α} (h : StoreRep s t) :
    (RbStore.liveVals s).Perm (DqStore.allItems t) :=
  h.liveVals_perm

/-- **every history**: after every valid history (push / pop / resize / copy / move / assign / destroy, any
    capacities, both overwrite modes) no step failed and the alive values are exactly the deques' contents. -/
theorem C09_history_live (ops : List (RbOp α)) (hv : DqStore.validFrom ([] : DqStore α) ops) :
    ∃ s' outs, RbStore.run ([] : RbStore α) ops = .ok (s', outs) ∧
      (RbStore.liveVals s').Perm (DqStore.allItems (DqStore.run ([] : DqStore α) ops).1) := by
  obtain ⟨s', hrun, hrep⟩ := C04_history (s := []) (t := []) Rel2.nil ops hv
  exact ⟨s', _, hrun, hrep.liveVals_perm⟩

/-- **destruction**: `~RingBuffer()` runs a destructor on every logical element (each is live, so each call is
    legitimate) and the block it frees holds no value any more — nothing alive is abandoned. -/
theorem C09_drop_destroys_all {b : RB α} {xs : List α} (h : RB.Rep b xs) :
    ∃ d', b.destroyAll = .ok d' ∧ Mem.liveVals d' = [] := by
  obtain ⟨d', hd', hdead⟩ := RB.destroyAll_ok h
  refine ⟨d', hd', RB.liveVals_dead d' ?_⟩
  intro s hs v e
  obtain ⟨k, hk, hget⟩ := List.mem_iff_getElem.mp hs
  exact hdead k v (by rw [List.getElem?_eq_getElem hk, hget, e])

/-- the shrinking `resize` destroys exactly the cut-off tail: its destructor loop succeeds and what stays alive
    is the kept prefix (corollary of `resize_ok` + `liveVals_perm`, stated for the record) -/
theorem C09_resize_destroys_tail {b : RB α} {xs : List α} (h : RB.Rep b xs) (hc : 0 < b.cap) (nc : Nat) (hnc : 0 < nc) :
    ∃ b' k, b.resize nc = .ok (b', k) ∧ (Mem.liveVals b'.data).Perm (xs.take nc) := by
  obtain ⟨b', k, hb, hrep, _⟩ := RB.resize_ok h hc nc hnc
  exact ⟨b', k, hb, hrep.liveVals_perm⟩

/-! non-vacuity: `C04.lean` exhibits a wrapped full buffer satisfying `Rep` and a valid history with
    overwrite, wrap-around, resize, copy and destruction. Here: a history whose final store is empty. -/
example : (DqStore.run ([] : DqStore Nat) [.new 1 2 true, .pushBack 1 5, .pushBack 1 6, .pushBack 1 7, .drop 1]).1 = [] := by
  decide

end Tulz
