import Tulz.Model.Crouter
/- GENERATED on every check by tools/translators/router_locks.py from
   include/tulz/observer/routing/ConcurrentSubjectRouter.h — do not edit. -/
namespace Tulz.Generated
open Rwp

def routerLocks : List (ROp × Guard) :=
  [(.notify, .read),
   (.subscribe, .write),
   (.shrink, .write),
   (.exists_, .read),
   (.depth, .read),
   (.unsubscribe, .write)]

end Tulz.Generated
