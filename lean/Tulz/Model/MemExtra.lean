import Tulz.Model.Mem
/-
  Additions to the shared `Mem` vocabulary needed by `tulz::Array` (C14):

  * `write`      element store for a type that needs no constructor (`!std::is_class_v<T>`):
                 legal on raw storage, unlike `assign`
  * the counted loops the C++ writes as `for (i = b; i < e; ++i) …`
  * `realloc`    at the level of the slots: the first `min old n` slots are relocated bitwise,
                 a grown tail is raw
  * `Heap`       block identities: `alloc` returns a fresh id, `free` of an id that is not
                 currently allocated (foreign or already freed) is the error `badFree`
  * `AErr`       `Err` plus the two storage errors (`badFree`, `leak` = storage that still
                 holds a live class object is given back) and `badVar` (protocol misuse)
-/
namespace Tulz

inductive AErr where
  | mem (e : Err)
  | badFree
  | leak
  | badVar
deriving Repr, DecidableEq

def AErr.toString : AErr → String
  | .mem e => e.toString
  | .badFree => "BAD_FREE"
  | .leak => "LEAK"
  | .badVar => "BAD_VAR"

abbrev AM := Except AErr

/-- run a `Mem` primitive inside `AM` -/
def liftE {β : Type} : M β → AM β
  | .ok x => .ok x
  | .error e => .error (.mem e)

namespace Mem
variable {α : Type}

/-- `m_array[i] = v` for a trivial type: needs storage, not an object -/
def write (d : List (Slot α)) (i : Nat) (v : α) : M (List (Slot α)) :=
  match d[i]? with
  | none => throw .oob
  | some _ => pure (d.set i (.live v))

/-- `for (k = i; k < i + n; ++k) new (&d[k]) T(v);` -/
def constructN (d : List (Slot α)) (i : Nat) : Nat → α → M (List (Slot α))
  | 0, _ => pure d
  | n + 1, v => do
    let d' ← construct d i v
    constructN d' (i + 1) n v

/-- `new (&d[i++]) T(e)` for each `e` of `vs` -/
def constructAll (d : List (Slot α)) (i : Nat) : List α → M (List (Slot α))
  | [] => pure d
  | v :: vs => do
    let d' ← construct d i v
    constructAll d' (i + 1) vs

/-- `for (k = i; k < i + n; ++k) d[k].~T();` -/
def destroyN (d : List (Slot α)) (i : Nat) : Nat → M (List (Slot α))
  | 0 => pure d
  | n + 1 => do
    let d' ← destroy d i
    destroyN d' (i + 1) n

/-- `for (k = i; k < i + n; ++k) new (&dst[k]) T(src[k]);` -/
def copyN (src dst : List (Slot α)) (i : Nat) : Nat → M (List (Slot α))
  | 0 => pure dst
  | n + 1 => do
    let v ← read src i
    let dst' ← construct dst i v
    copyN src dst' (i + 1) n

/-- `d[i], …, d[i+n-1]` read in order -/
def readN (d : List (Slot α)) (i : Nat) : Nat → M (List α)
  | 0 => pure []
  | n + 1 => do
    let v ← read d i
    let rest ← readN d (i + 1) n
    pure (v :: rest)

/-- `realloc(p, n * sizeof(T))` on the slots: keeps the first `min old n` bitwise, new tail raw
    (moving or not moving is not distinguished) -/
def realloc (d : List (Slot α)) (n : Nat) : List (Slot α) :=
  d.take n ++ List.replicate (n - d.length) .raw

/-- does the block still hold a value of a live object? -/
def anyLive (d : List (Slot α)) : Bool := d.any Slot.isLive

end Mem

/-- allocation state: ids handed out so far are `0 .. next-1`; `owned` are currently allocated,
    `freed` is the log of `free` calls -/
structure Heap where
  next : Nat
  owned : List Nat
  freed : List Nat
deriving Repr

namespace Heap

def empty : Heap := ⟨0, [], []⟩

/-- `malloc` (any size, including 0: glibc returns a unique pointer) -/
def alloc (h : Heap) : Heap × Nat :=
  ({ h with next := h.next + 1, owned := h.next :: h.owned }, h.next)

/-- `free(p)`; `none` is the null pointer -/
def free (h : Heap) : Option Nat → AM Heap
  | none => pure h
  | some b =>
    if b ∈ h.owned then pure { h with owned := h.owned.erase b, freed := b :: h.freed }
    else throw .badFree

/-- `realloc(p, n)`: `realloc(nullptr, n)` is `malloc(n)`; `realloc(p, 0)` frees and returns null
    (glibc, and the ASan allocator used by the harness); otherwise a block is released and one is obtained -/
def realloc (h : Heap) (p : Option Nat) (n : Nat) : AM (Heap × Option Nat) :=
  match p with
  | none => let r := h.alloc; pure (r.1, some r.2)
  | some b => do
    let h1 ← h.free (some b)
    if n = 0 then pure (h1, none)
    else let r := h1.alloc; pure (r.1, some r.2)

end Heap
end Tulz
