/- The part of C stdio / POSIX that tulz::File and tulz::Path::exists use, as a *specified* dependency
   (not verified): a disk is a list of (path, bytes) plus a list of directories; a stream has an access
   kind, a position, an end-of-file and an error indicator.

   What is encoded (C17 §7.21 of the C standard + POSIX fopen/fseek, glibc 2.36 probed through tulz::File):
   * "r"/"rb" need an existing file (opening a directory read-only succeeds on Linux, every read then fails);
     "w"/"wb" truncate or create; "a"/"ab" create if missing, start with `ftell` = size, and EVERY write goes to
     the end of the file whatever the position is (O_APPEND), leaving the position at the new end;
   * POSIX: text and binary streams are the same;
   * "r" streams cannot be written, "w"/"a" streams cannot be read: the call fails (POSIX: EBADF), sets the error
     indicator and transfers nothing (`fgetc` returns EOF *without* setting the end-of-file indicator — which is why
     the counting loop of `File::read()` never ends on such a stream).  This direction of misuse is OUTSIDE C17 and is
     not tied to the real libc: glibc 2.36 additionally throws away pending output when an `fread` larger than its
     buffer is issued on a write-only stream (observed through `File::read(buffer, 1, 4139)` after a 3-byte write);
   * `fread/fwrite(size, count)` transfer up to size*count bytes, return the number of complete items, are no-ops
     when size*count = 0; a short `fread` sets the end-of-file indicator; the position advances by the bytes moved;
   * writing beyond the end fills the gap with zero bytes; `fseek` to a negative position fails with -1 and
     leaves the position alone, a successful `fseek` clears the end-of-file indicator.
   Buffering is not modelled: bytes written are on the disk at once.  This is observationally exact as long as a
   file that is open for writing is looked at through that stream only (the correspondence check reads the
   real file only after `close`).  No unlink: a stream's file stays on the disk.
   Core Lean only. -/
namespace Tulz.Stdio

abbrev Bytes := List UInt8

def lookup (p : String) : List (String × Bytes) → Option Bytes
  | [] => none
  | (q, b) :: r => if q = p then some b else lookup p r

def store (p : String) (b : Bytes) : List (String × Bytes) → List (String × Bytes)
  | [] => [(p, b)]
  | (q, c) :: r => if q = p then (q, b) :: r else (q, c) :: store p b r

structure Disk where
  files : List (String × Bytes)
  dirs : List String

namespace Disk
def read (d : Disk) (p : String) : Option Bytes := lookup p d.files
/-- the bytes of the file at `p`; a path without a file has none -/
def content (d : Disk) (p : String) : Bytes :=
  match d.read p with
  | some b => b
  | none => []
def write (d : Disk) (p : String) (b : Bytes) : Disk := { d with files := store p b d.files }
def isDir (d : Disk) (p : String) : Bool := d.dirs.contains p
def isFile (d : Disk) (p : String) : Bool := (d.read p).isSome
end Disk

inductive Access
  | r | w | a
  deriving Repr, DecidableEq

structure Stream where
  path : String
  acc : Access
  binary : Bool        -- the "b" of the mode string; without effect on POSIX
  dir : Bool           -- the stream was opened read-only on a directory (reads fail with EISDIR)
  pos : Nat
  eof : Bool
  err : Bool
  deriving Repr, DecidableEq

def parseMode : String → Option (Access × Bool)
  | "r" => some (.r, false)
  | "rb" => some (.r, true)
  | "w" => some (.w, false)
  | "wb" => some (.w, true)
  | "a" => some (.a, false)
  | "ab" => some (.a, true)
  | _ => none

def mkStream (path : String) (acc : Access) (bin dir : Bool) (pos : Nat) : Stream :=
  { path := path, acc := acc, binary := bin, dir := dir, pos := pos, eof := false, err := false }

/-- `fopen(path, mode)`; `none` = NULL -/
def fopen (d : Disk) (path : String) (mode : String) : Disk × Option Stream :=
  match parseMode mode with
  | none => (d, none)                                              -- EINVAL
  | some (.r, bin) =>
    if d.isDir path then (d, some (mkStream path .r bin true 0))
    else if d.isFile path then (d, some (mkStream path .r bin false 0))
    else (d, none)                                                 -- ENOENT
  | some (.w, bin) =>
    if d.isDir path then (d, none)                                 -- EISDIR
    else (d.write path [], some (mkStream path .w bin false 0))
  | some (.a, bin) =>
    if d.isDir path then (d, none)
    else
      let d' := if d.isFile path then d else d.write path []
      (d', some (mkStream path .a bin false (d'.content path).length))

def fclose (_st : Stream) : Int := 0

/-- bytes of a "w" stream's file after writing `data` at `pos` -/
def overwrite (content : Bytes) (pos : Nat) (data : Bytes) : Bytes :=
  content.take pos ++ List.replicate (pos - content.length) 0 ++ data ++ content.drop (pos + data.length)

/-- `fwrite(data, size, count, st)`; `data` holds at least size*count bytes (C precondition, checked by the caller) -/
def fwrite (d : Disk) (st : Stream) (data : Bytes) (size count : Nat) : Disk × Stream × Nat :=
  let total := size * count
  if total = 0 then (d, st, 0)
  else
    let chunk := data.take total
    match st.acc with
    | .r => (d, { st with err := true }, 0)
    | .w =>
      (d.write st.path (overwrite (d.content st.path) st.pos chunk), { st with pos := st.pos + chunk.length }, count)
    | .a =>
      let c' := d.content st.path ++ chunk
      (d.write st.path c', { st with pos := c'.length }, count)

def readable (st : Stream) : Bool := st.acc == .r && !st.dir

/-- `fread(buf, size, count, st)`: (stream, bytes stored into the buffer, return value) -/
def fread (d : Disk) (st : Stream) (size count : Nat) : Stream × Bytes × Nat :=
  let total := size * count
  if total = 0 then (st, [], 0)
  else if !readable st then ({ st with err := true }, [], 0)
  else
    let got := ((d.content st.path).drop st.pos).take total
    ({ st with pos := st.pos + got.length, eof := st.eof || decide (got.length < total) }, got, got.length / size)

/-- `fgetc(st)`; `none` = EOF (the int -1; a byte 0xFF is `some 255`) -/
def fgetc (d : Disk) (st : Stream) : Stream × Option UInt8 :=
  if !readable st then ({ st with err := true }, none)
  else
    match (d.content st.path)[st.pos]? with
    | some b => ({ st with pos := st.pos + 1 }, some b)
    | none => ({ st with eof := true }, none)

def feof (st : Stream) : Bool := st.eof

inductive Whence
  | set | cur | «end»
  deriving Repr, DecidableEq

/-- `fseek(st, off, whence)`: (stream, return value) -/
def fseek (d : Disk) (st : Stream) (off : Int) (whence : Whence) : Stream × Int :=
  let base : Int :=
    match whence with
    | .set => 0
    | .cur => st.pos
    | .end => (d.content st.path).length
  let target := base + off
  if target < 0 then (st, -1)                                      -- EINVAL
  else ({ st with pos := target.toNat, eof := false }, 0)

def ftell (st : Stream) : Nat := st.pos

end Tulz.Stdio
