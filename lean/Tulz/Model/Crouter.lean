import Tulz.Model.Rwp
/-
  C11: ConcurrentSubjectRouter = a SubjectRouter (abstract state `σ`) whose operations run between
  `lock k … unlock` of one rwp::Resource.  Which lock each operation takes is NOT written here: it comes
  from `Tulz/Generated/RouterLocks.lean`, regenerated from ConcurrentSubjectRouter.h on every run.
-/
namespace Rwp

/-- the operations of ConcurrentSubjectRouter (unsubscribe = ConcurrentInvoker::unsubscribe) -/
inductive ROp
  | notify | subscribe | unsubscribe | shrink | exists_ | depth
deriving DecidableEq, Repr

/-- what the translator found as the first statement of the member function -/
inductive Guard
  | read        -- `rwp::ReadLock lock {m_resource};`
  | write       -- `rwp::WriteLock lock {m_resource};`
  | none        -- no guard before the router is touched
  | temporary   -- a guard object without a name: destroyed at the end of its own statement
  | unknown     -- something the translator could not analyse
deriving DecidableEq, Repr

/-- subscribe / unsubscribe / shrink change the router; notify / exists / depth only read it
    (the programs of the property: callbacks do not call back into the router, no observer invalidation) -/
def ROp.mutates : ROp → Bool
  | .subscribe | .unsubscribe | .shrink => true
  | _ => false

def Guard.kind? : Guard → Option Kind
  | .read => some .read
  | .write => some .write
  | _ => Option.none

/-- composed state: the lock, the current router state and two ghost components —
    `snap i` = the router state when thread i's current lock request was granted (it started holding),
    `obs i`  = the router states read so far by thread i's current operation -/
structure CState (σ : Type) where
  base : State
  cur : σ
  snap : Nat → σ
  obs : Nat → List σ

def isHolding : Option Pc → Bool
  | some (.holding _) => true
  | _ => false

/-- thread i's program counter changed into a `holding` one: its request was just granted -/
def newly (b b' : State) (i : Nat) : Bool := (b'.ths[i]? != b.ths[i]?) && isHolding b'.ths[i]?

variable {σ : Type}

/-- does thread `i` hold what operation `op` is supposed to run under (per the lock table)?
    An operation without a (usable) guard runs its body with no requirement at all. -/
def bodyAllowed (lockOf : ROp → Guard) (b : State) (i : Nat) (op : ROp) : Prop :=
  match (lockOf op).kind? with
  | some k => b.ths[i]? = some (.holding k)
  | Option.none => True

inductive CStep (lockOf : ROp → Guard) (M : (σ → σ) → Prop) : CState σ → CState σ → Prop
  /-- any step of the lock (call, wake-up, unlock, notify) -/
  | lock (s : CState σ) (b' : State) (h : Step s.base b') :
      CStep lockOf M s (CState.mk b' s.cur (fun i => if newly s.base b' i then s.cur else s.snap i)
                         (fun i => if newly s.base b' i then [] else s.obs i))
  /-- the body of a mutating operation takes effect (one atomic change of the router by an allowed mutator `M f`) -/
  | mutate (s : CState σ) (i : Nat) (op : ROp) (hm : op.mutates = true) (f : σ → σ) (hf : M f)
      (h : bodyAllowed lockOf s.base i op) : CStep lockOf M s (CState.mk s.base (f s.cur) s.snap s.obs)
  /-- the body of a reading operation looks at the router (one step of the traversal / one callback) -/
  | observe (s : CState σ) (i : Nat) (op : ROp) (hm : op.mutates = false)
      (h : bodyAllowed lockOf s.base i op) :
      CStep lockOf M s (CState.mk s.base s.cur s.snap (fun j => if j = i then s.obs i ++ [s.cur] else s.obs j))

def cinit (n : Nat) (r0 : σ) : CState σ := ⟨init n, r0, fun _ => r0, fun _ => []⟩

inductive CReach (lockOf : ROp → Guard) (M : (σ → σ) → Prop) (n : Nat) (r0 : σ) : CState σ → Prop
  | init : CReach lockOf M n r0 (cinit n r0)
  | step {s t} : CReach lockOf M n r0 s → CStep lockOf M s t → CReach lockOf M n r0 t

/-- the lock table is adequate: every operation runs under a named guard, mutating ones under the write lock -/
def TableOk (lockOf : ROp → Guard) : Prop :=
  ∀ op, (lockOf op).kind?.isSome = true ∧ (op.mutates = true → lockOf op = .write)

end Rwp
