/-
  Model of `tulz::RandomAccessIndexIterator<Type, Container>`
  (include/tulz/container/RandomAccessIndexIterator.h), transcribed operator by operator.

  The iterator is a reference to its container plus `size_t m_index`.  The container is a PARAMETER here
  (`get : Nat → Except ε α` = the container's `operator[]`), so the same model serves RingBuffer and Array.

  Arithmetic is the arithmetic the C++ performs, not an idealisation:
    * `m_index` is a `size_t`: every operation is modulo `W = 2^64`;
    * `operator+=(difference_type i)` adds the `ptrdiff_t` converted to `size_t` (`toU`, modular);
    * `operator-(RandomAccessIndexIterator)` subtracts two `size_t` and converts the result to `ptrdiff_t`
      (`toS`, modular since C++20);
  so `begin() - 3 + 5` is the iterator with index 2 and `(begin() - 3) - begin()` is `-3`, exactly as in the C++.
-/
namespace Tulz.Iter

/-- `2^64`, the modulus of `size_t` (written as a literal so that `omega` treats `% W` as linear) -/
def W : Nat := 18446744073709551616
/-- `2^63` -/
def H : Nat := 9223372036854775808

/-- conversion `ptrdiff_t → size_t` -/
def toU (d : Int) : Nat := (d % (18446744073709551616 : Int)).toNat
/-- conversion `size_t → ptrdiff_t` -/
def toS (n : Nat) : Int :=
  if n % 18446744073709551616 < 9223372036854775808 then ((n % 18446744073709551616 : Nat) : Int)
  else ((n % 18446744073709551616 : Nat) : Int) - 18446744073709551616

/-- the iterator object: `m_index` (the container reference is the parameter `get` of `deref`) -/
structure It where
  idx : Nat
deriving DecidableEq, Repr

/-- `RandomAccessIndexIterator(container, index)` -/
def mk' (i : Nat) : It := ⟨i % 18446744073709551616⟩

/-- `operator++()` -/
def inc (a : It) : It := ⟨(a.idx + 1) % 18446744073709551616⟩
/-- `operator--()` -/
def dec (a : It) : It := ⟨(a.idx + 18446744073709551615) % 18446744073709551616⟩
/-- `operator++(int)`: returns the copy taken before the increment, and the incremented iterator -/
def postInc (a : It) : It × It := (a, inc a)
/-- `operator--(int)` -/
def postDec (a : It) : It × It := (a, dec a)
/-- `operator+=(difference_type)` -/
def addD (a : It) (d : Int) : It := ⟨(a.idx + toU d) % 18446744073709551616⟩
/-- `operator-=(difference_type)` -/
def subD (a : It) (d : Int) : It := ⟨(a.idx + (18446744073709551616 - toU d)) % 18446744073709551616⟩
/-- `operator+(difference_type) const`: copy, `+=`, return the copy -/
def plus (a : It) (d : Int) : It := addD a d
/-- `operator-(difference_type) const` -/
def minus (a : It) (d : Int) : It := subD a d
/-- `operator-(RandomAccessIndexIterator) const` -/
def diff (a b : It) : Int := toS ((a.idx + (18446744073709551616 - b.idx % 18446744073709551616)) % 18446744073709551616)

/-- the six comparison operators, each as written (`!=` is `!(==)`, the others compare `m_index`) -/
def beq (a b : It) : Bool := a.idx == b.idx
def bne (a b : It) : Bool := !(beq a b)
def blt (a b : It) : Bool := decide (a.idx < b.idx)
def bgt (a b : It) : Bool := decide (a.idx > b.idx)
def ble (a b : It) : Bool := decide (a.idx ≤ b.idx)
def bge (a b : It) : Bool := decide (a.idx ≥ b.idx)

/-- `operator*()`: `m_container[m_index]` -/
def deref {ε α : Type} (get : Nat → Except ε α) (a : It) : Except ε α := get a.idx

/-- well-formedness: the index is a `size_t` value -/
def WF (a : It) : Prop := a.idx < 18446744073709551616

/-- `for (it = a; it != e; ++it) out.push_back(*it)` with a step budget (`none` = the loop did not meet `e`
    within the budget) -/
def walkFwd {ε α : Type} (get : Nat → Except ε α) (e : It) : Nat → It → Except ε (Option (List α))
  | 0, a => pure (if beq a e then some [] else none)
  | fuel + 1, a =>
    if beq a e then pure (some [])
    else do
      let v ← deref get a
      let r ← walkFwd get e fuel (inc a)
      pure (r.map (v :: ·))

/-- `for (it = a; it != b;) { --it; out.push_back(*it); }` (reverse traversal from `end()` down to `begin()`) -/
def walkBwd {ε α : Type} (get : Nat → Except ε α) (b : It) : Nat → It → Except ε (Option (List α))
  | 0, a => pure (if beq a b then some [] else none)
  | fuel + 1, a =>
    if beq a b then pure (some [])
    else do
      let a' := dec a
      let v ← deref get a'
      let r ← walkBwd get b fuel a'
      pure (r.map (v :: ·))

/-! ### iterator scripts (the line protocol's `it` operation): a sequence of operator applications to ONE iterator
    variable, with the observations they produce -/

inductive Cmd where
  | preInc | preDec | postInc | postDec
  | addEq (d : Int) | subEq (d : Int)      -- `it += d`, `it -= d`
  | plus (d : Int) | minus (d : Int)       -- `it = it + d`, `it = it - d`
  | deref                                  -- `*it`  (only issued when the index is inside the container)
  | dist                                   -- `it - begin()`
  | cmp (j : Nat)                          -- the six comparisons of `it` with `begin() + j`
deriving Repr

inductive Obs (α : Type) where
  | none
  | val (v : α)
  | num (d : Int)
  | bits (eq ne lt gt le ge : Bool)
  | same (b : Bool)                        -- postfix: the returned copy equals the old iterator
deriving Repr, DecidableEq

def runCmd {ε α : Type} (get : Nat → Except ε α) (a : It) : Cmd → Except ε (It × Obs α)
  | .preInc => pure (inc a, .none)
  | .preDec => pure (dec a, .none)
  | .postInc => let r := postInc a; pure (r.2, .same (beq r.1 a))
  | .postDec => let r := postDec a; pure (r.2, .same (beq r.1 a))
  | .addEq d => pure (addD a d, .none)
  | .subEq d => pure (subD a d, .none)
  | .plus d => pure (plus a d, .none)
  | .minus d => pure (minus a d, .none)
  | .deref => do let v ← deref get a; pure (a, .val v)
  | .dist => pure (a, .num (diff a (mk' 0)))
  | .cmp j =>
    let b := plus (mk' 0) (j : Int)
    pure (a, .bits (beq a b) (bne a b) (blt a b) (bgt a b) (ble a b) (bge a b))

def runScript {ε α : Type} (get : Nat → Except ε α) : It → List Cmd → Except ε (It × List (Obs α))
  | a, [] => pure (a, [])
  | a, c :: cs => do
    let (a', o) ← runCmd get a c
    let (a'', os) ← runScript get a' cs
    pure (a'', o :: os)

/-! ### the specification the scripts are compared with: an unbounded integer position -/

/-- the position an iterator denotes: its index read as a signed offset from `begin()` -/
def pos (a : It) : Int := toS a.idx

/-- the effect of a command on an integer position (no wrap-around: the specification) -/
def specMove (p : Int) : Cmd → Int
  | .preInc | .postInc => p + 1
  | .preDec | .postDec => p - 1
  | .addEq d | .plus d => p + d
  | .subEq d | .minus d => p - d
  | .deref | .dist | .cmp _ => p

end Tulz.Iter
