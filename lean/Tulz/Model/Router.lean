/-
Model of `tulz::SubjectRouter` (include/tulz/observer/routing/SubjectRouter.h,
src/observer/routing/{SubjectRouter,RoutingLevelView,RoutingKeyBuilder,RoutingKey}.cpp).

* A routing key is a vector of levels, each a string or a regex; `RoutingKeyBuilder` always puts the
  string level `""` first (the root level) and `SubjectRouter` owns a root node named `""`.  In the
  model a pattern / key is the list of levels *after* the implicit root level; the `r*`
  functions (`rNotify`, `rShrink`, …) at the end of the file add the root level `Level.str ""` themselves.
* `RoutingLevelView::matches` is string equality for a string level and `std::regex_match` (full match)
  for a regex level.  The regex matcher is a PARAMETER `rm : ρ → String → Bool` of every function.
* `Node` = name + optional subject + children.  `std::map<std::string, Node>` is modelled by a list of
  nodes kept sorted by name (`insertChild`); map lookup `find` is `List.find?` on the name.
* The C++ recursions descend node and key together (`levelView.up()`); here every such function is
  defined by structural recursion on the *remaining levels* with the current level `cur` as a
  separate argument (`levelView.isLeaf()` ⇔ remaining = []).  Only `depth`, `flat` recurse on the node.
* The leaf `Subject<Args...>` is reduced to what routing needs: the ordered list of its observers with a
  validity flag (`Subject::notify` calls every valid observer in subscription order and removes the
  invalid ones lazily; `hasSubscriptions` is non-emptiness of the list).  Core Lean only.
-/
namespace Tulz.Router

/-! ### levels -/

inductive Level (ρ : Type) where
  | str (s : String)
  | re (r : ρ)
deriving Repr

variable {ρ : Type}

/-- `RoutingLevelView::matches(levelName)` -/
def Level.matches (rm : ρ → String → Bool) : Level ρ → String → Bool
  | .str s, n => n == s
  | .re r, n => rm r n

/-- `RoutingLevelView::isRegex` -/
def Level.isRegex : Level ρ → Bool
  | .str _ => false
  | .re _ => true

/-! ### the leaf subject -/

structure Obs where
  id : Nat
  valid : Bool
deriving Repr, DecidableEq

/-- observers in subscription order (the code stores newest first and reverses in `notify`) -/
abbrev Subj := List Obs

/-- `Subject::hasSubscriptions` -/
def Subj.hasSubscriptions (s : Subj) : Bool := !s.isEmpty
/-- `Subject::subscribe` -/
def Subj.subscribe (s : Subj) (id : Nat) : Subj := s ++ [⟨id, true⟩]
/-- `Subject::isSubscriptionIdValid` -/
def Subj.isActive (s : Subj) (id : Nat) : Bool := s.any (fun o => o.id == id)
/-- `Subject::unsubscribeById` -/
def Subj.unsubscribe (s : Subj) (id : Nat) : Subj := s.filter (fun o => !(o.id == id))
/-- `Observer::invalidate` on the observer of subscription `id` -/
def Subj.invalidate (s : Subj) (id : Nat) : Subj := s.map (fun o => if o.id == id then { o with valid := false } else o)
/-- what one `Subject::notify(a)` delivers: every valid observer, in order, with the value passed -/
def Subj.log {α : Type} (s : Subj) (a : α) : List (Nat × α) := (s.filter (·.valid)).map (fun o => (o.id, a))
/-- state after `Subject::notify`: invalid observers are unsubscribed lazily -/
def Subj.afterNotify (s : Subj) : Subj := s.filter (·.valid)

/-- delivery at a node: nothing when `m_subject == nullptr` -/
def subjLog {α : Type} : Option Subj → α → List (Nat × α)
  | none, _ => []
  | some s, a => s.log a

/-- `m_subject != nullptr && m_subject->hasSubscriptions()` -/
def hasSubs : Option Subj → Bool
  | none => false
  | some s => s.hasSubscriptions

/-! ### nodes -/

inductive Node where
  | mk (name : String) (subj : Option Subj) (children : List Node)

def Node.name : Node → String | .mk n _ _ => n
def Node.subj : Node → Option Subj | .mk _ s _ => s
def Node.children : Node → List Node | .mk _ _ c => c
def Node.withChildren : Node → List Node → Node | .mk n s _, c => .mk n s c
def Node.withSubj : Node → Option Subj → Node | .mk n _ c, s => .mk n s c

/-- `Node(name)` -/
def Node.fresh (name : String) : Node := .mk name none []

/-- `Node::isEmpty` -/
def Node.isEmpty (n : Node) : Bool := !hasSubs n.subj && n.children.isEmpty

/-- `m_children.find(name)` -/
def findChild (s : String) (l : List Node) : Option Node := l.find? (fun (c : Node) => c.name == s)

/-- write back through the iterator returned by `m_children.find(name)`: the first child named `s` becomes `f c` -/
def updFirst (s : String) (f : Node → Node) : List Node → List Node
  | [] => []
  | c :: cs => if c.name == s then f c :: cs else c :: updFirst s f cs

/-- position of a new child in map order: before the first child with a greater name -/
def insertSorted (name : String) : List Node → List Node
  | [] => [Node.fresh name]
  | c :: cs => if name < c.name then Node.fresh name :: c :: cs else c :: insertSorted name cs

/-- `m_children.insert({name, Node(name)})`: no effect when the name is present, otherwise the new node
goes to its place in map order -/
def insertChild (name : String) (l : List Node) : List Node :=
  if (findChild name l).isSome then l else insertSorted name l

/-! ### notify -/

structure NRes (α : Type) where
  node : Node
  log : List (Nat × α)
  count : Nat

/-- `Node::notify(levelView, args...)`: `cur` is the level this node is matched against, the list is what is
left above it.  Returns the node afterwards (lazy removal of invalid observers), the delivery log and the
return value. -/
def notify {α : Type} (rm : ρ → String → Bool) (a : α) : List (Level ρ) → Level ρ → Node → NRes α
  | [], cur, n =>
    if cur.matches rm n.name then
      match n.subj with
      | some s => ⟨n.withSubj (some s.afterNotify), s.log a, 1⟩
      | none => ⟨n, [], 0⟩
    else ⟨n, [], 0⟩
  | nxt :: rest, cur, n =>
    if cur.matches rm n.name then
      match nxt with
      | .re _ =>
        let rs := n.children.map (fun (c : Node) => notify rm a rest nxt c)
        ⟨n.withChildren (rs.map (·.node)), rs.flatMap (·.log), (rs.map (·.count)).sum⟩
      | .str s =>
        match findChild s n.children with
        | some c =>
          let r := notify rm a rest nxt c       -- `it->second.notify(...)` works on the child in place
          ⟨n.withChildren (updFirst s (fun (d : Node) => (notify rm a rest nxt d).node) n.children), r.log, r.count⟩
        | none => ⟨n, [], 0⟩
    else ⟨n, [], 0⟩

/-! ### shrink, exists, depth -/

/-- `std::erase_if(m_children, isEmpty)` -/
def eraseEmpty (l : List Node) : List Node := l.filter (fun (c : Node) => !c.isEmpty)

/-- `Node::shrink` -/
def shrink (rm : ρ → String → Bool) : List (Level ρ) → Level ρ → Node → Node
  | [], cur, n =>
    if cur.matches rm n.name then n.withChildren (eraseEmpty n.children) else n
  | nxt :: rest, cur, n =>
    if cur.matches rm n.name then
      match nxt with
      | .re _ => n.withChildren (eraseEmpty (n.children.map (fun (c : Node) => shrink rm rest nxt c)))
      | .str s => n.withChildren (eraseEmpty (updFirst s (fun (c : Node) => shrink rm rest nxt c) n.children))
    else n

/-- `Node::exists` -/
def nodeExists (rm : ρ → String → Bool) : List (Level ρ) → Level ρ → Node → Bool
  | [], cur, n => cur.matches rm n.name
  | nxt :: rest, cur, n =>
    if cur.matches rm n.name then
      match nxt with
      | .re _ => n.children.any (fun (c : Node) => nodeExists rm rest nxt c)
      | .str s =>
        match findChild s n.children with
        | some c => nodeExists rm rest nxt c
        | none => false
    else false

mutual
/-- `Node::depth` -/
def Node.depth : Node → Nat
  | .mk _ _ cs => 1 + depthList cs
def depthList : List Node → Nat
  | [] => 0
  | c :: cs => max c.depth (depthList cs)
end

/-! ### subscribe / unsubscribe / invalidate (concrete keys) -/

/-- `Node::lookupNode` followed by an update of the node found: the path of the concrete key is created
(`insert`), then `f` is applied to the node at its end. -/
def lookupModify (f : Node → Node) : List String → Node → Node
  | [], n => f n
  | k :: ks, n => n.withChildren (updFirst k (lookupModify f ks) (insertChild k n.children))

/-- `Node::subscribe`: a missing subject is created, then `Subject::subscribe` -/
def subscribeHere (id : Nat) (n : Node) : Node :=
  match n.subj with
  | none => n.withSubj (some (Subj.subscribe [] id))
  | some s => n.withSubj (some (s.subscribe id))

def subscribe (id : Nat) (key : List String) (n : Node) : Node := lookupModify (subscribeHere id) key n

/-- the subject a handle points to: the subject stored at a concrete key (no node is created) -/
def subjAt : List String → Node → Option Subj
  | [], n => n.subj
  | k :: ks, n =>
    match findChild k n.children with
    | some c => subjAt ks c
    | none => none

/-- update of the subject stored at a concrete key (through a handle); nothing is created -/
def modifySubjAt (f : Subj → Subj) : List String → Node → Node
  | [], n =>
    match n.subj with
    | some s => n.withSubj (some (f s))
    | none => n
  | k :: ks, n => n.withChildren (updFirst k (modifySubjAt f ks) n.children)

/-! ### enumeration of the stored keys (specification side) -/

mutual
/-- every stored key (own name first) with what the node holds, in map (depth-first) order -/
def Node.flat : Node → List (List String × Option Subj)
  | .mk name s cs => ([name], s) :: (flatList cs).map (fun e => (name :: e.1, e.2))
def flatList : List Node → List (List String × Option Subj)
  | [] => []
  | c :: cs => c.flat ++ flatList cs
end

def Node.paths (n : Node) : List (List String) := n.flat.map (·.1)

/-- same number of levels and level-wise match -/
def matchKey (rm : ρ → String → Bool) : List (Level ρ) → List String → Bool
  | [], [] => true
  | l :: ls, k :: ks => l.matches rm k && matchKey rm ls ks
  | _, _ => false

/-- the key is not longer than the pattern and matches its first levels: "the pattern visits this node" -/
def prefixMatch (rm : ρ → String → Bool) : List (Level ρ) → List String → Bool
  | _, [] => true
  | [], _ :: _ => false
  | l :: ls, k :: ks => l.matches rm k && prefixMatch rm ls ks

/-! ### well-formedness: what `std::map` guarantees -/

/-- names of children are pairwise distinct, recursively -/
inductive WF : Node → Prop
  | mk (name : String) (subj : Option Subj) (cs : List Node) :
      cs.Pairwise (fun a b => a.name ≠ b.name) → (∀ c ∈ cs, WF c) → WF (.mk name subj cs)

/-- children are strictly increasing by name, recursively (iteration order of `std::map`) -/
inductive Sorted : Node → Prop
  | mk (name : String) (subj : Option Subj) (cs : List Node) :
      cs.Pairwise (fun a b => a.name < b.name) → (∀ c ∈ cs, Sorted c) → Sorted (.mk name subj cs)

/-! ### the router: root node named `""`, keys and patterns without the root level -/

def rootLevel : Level ρ := .str ""

/-- `SubjectRouter::SubjectRouter()` -/
def emptyRouter : Node := Node.fresh ""

def rNotify {α : Type} (rm : ρ → String → Bool) (a : α) (p : List (Level ρ)) (t : Node) : NRes α :=
  notify rm a p rootLevel t
def rShrink (rm : ρ → String → Bool) (p : List (Level ρ)) (t : Node) : Node := shrink rm p rootLevel t
def rExists (rm : ρ → String → Bool) (p : List (Level ρ)) (t : Node) : Bool := nodeExists rm p rootLevel t
def rDepth (t : Node) : Nat := t.depth
def rSubscribe (id : Nat) (key : List String) (t : Node) : Node := subscribe id key t
/-- stored keys with their subjects, root level stripped (`[]` is the root key) -/
def rFlat (t : Node) : List (List String × Option Subj) := t.flat.map (fun e => (e.1.tail, e.2))
def rKeys (t : Node) : List (List String) := (rFlat t).map (·.1)

/-! ### histories -/

inductive Op (ρ : Type) where
  | subscribe (key : List String) (id : Nat)
  | unsubscribe (key : List String) (id : Nat)      -- `handle.unsubscribe()` of the handle returned for (key, id)
  | invalidate (key : List String) (id : Nat)       -- `observer->invalidate()`
  | shrink (p : List (Level ρ))
  | notify (p : List (Level ρ))

inductive OpErr where
  | invalidArg      -- std::invalid_argument: the subscription is not active any more (state unchanged)
  | dangling        -- the subject / observer the handle points to does not exist (node erased by shrink): outside the API contract
deriving Repr, DecidableEq

/-- one router operation; `dangling` is the precondition the C++ cannot check (use of a handle or observer
pointer whose node / observer is gone) -/
def applyOp (rm : ρ → String → Bool) (t : Node) : Op ρ → Except OpErr Node
  | .subscribe key id => .ok (rSubscribe id key t)
  | .unsubscribe key id =>
    match subjAt key t with
    | none => .error .dangling
    | some s => if s.isActive id then .ok (modifySubjAt (fun s => s.unsubscribe id) key t) else .error .invalidArg
  | .invalidate key id =>
    match subjAt key t with
    | none => .error .dangling
    | some s => if s.isActive id then .ok (modifySubjAt (fun s => s.invalidate id) key t) else .error .dangling
  | .shrink p => .ok (rShrink rm p t)
  | .notify p => .ok (rNotify rm () p t).node

/-- state after a history; an operation that throws leaves the state unchanged, a `dangling` one ends the history -/
def run (rm : ρ → String → Bool) : Node → List (Op ρ) → Option Node
  | t, [] => some t
  | t, op :: ops =>
    match applyOp rm t op with
    | .ok t' => run rm t' ops
    | .error .invalidArg => run rm t ops
    | .error .dangling => none

end Tulz.Router
