import Tulz.Model.Array
/-
  Operation histories over several `tulz::Array` variables.  A store has a fixed number of
  variable slots (`none` = no object there: not yet constructed, or destroyed); every variable
  holds its pointer (`blk`, `none` = nullptr) and its element storage.  The heap hands out fresh
  block ids, so a copy that shares storage (`blk` equal in two variables) is expressible — and
  ends in `badFree` when the second owner is destroyed.

  `AStore.step` runs one operation on the slot-level model, `Spec.step` the same operation on
  the specification (a plain list of element values per variable; an element is `none` when it
  is an indeterminate value of a non-class type), `Spec.valid` is the precondition.
-/
namespace Tulz

inductive AOp (α : Type) where
  | ptr (id : Nat) (src : List α) (n : Nat)   -- `Array(src_ptr, n)` (copy = true)
  | init (id : Nat) (vs : List α)             -- `Array{vs…}`
  | size (id n : Nat)                         -- `Array(n)`
  | fill (id n : Nat) (v : α)                 -- `Array(n, v)`
  | dflt (id : Nat)                           -- `Array()`
  | copy (dst src : Nat)                      -- copy-construct a new object `dst` from `src`
  | mctor (dst src : Nat)                     -- move-construct a new object `dst` from `src`
  | cassign (dst src : Nat)                   -- `dst = src`
  | massign (dst src : Nat)                   -- `dst = std::move(src)`
  | swap (a b : Nat)                          -- `a.swap(b)`
  | resize (id n : Nat)                       -- `resize(n)`
  | resizeV (id n : Nat) (v : α)              -- `resize(n, v)`
  | resizeSelf (id n i : Nat)                 -- `resize(n, (*this)[i])`
  | set (id i : Nat) (v : α)                  -- `(*this)[i] = v`
  | get (id i : Nat)
  | iter (id : Nat)
  | len (id : Nat)
  | front (id : Nat)
  | back (id : Nat)
  | drop (id : Nat)                           -- destructor
deriving Repr

/-- the variables an operation names -/
def AOp.mentions {α : Type} : AOp α → List Nat
  | .ptr id _ _ | .init id _ | .size id _ | .fill id _ _ | .dflt id => [id]
  | .copy d s | .mctor d s | .cassign d s | .massign d s | .swap d s => [d, s]
  | .resize id _ | .resizeV id _ _ | .resizeSelf id _ _ | .set id _ _ | .get id _
  | .iter id | .len id | .front id | .back id | .drop id => [id]

inductive AOut (α : Type) where
  | unit
  | val (v : α)
  | vals (l : List α)
  | num (n : Nat)
deriving Repr, DecidableEq

structure AVar (α : Type) where
  blk : Option Nat
  arr : Arr α
deriving Repr

/-- variable slots -/
abbrev Slots (β : Type) := List (Option β)

namespace Slots
variable {β : Type}
def find (s : Slots β) (i : Nat) : Option β := (s[i]?).join
def put (s : Slots β) (i : Nat) (v : β) : Slots β := s.set i (some v)
def del (s : Slots β) (i : Nat) : Slots β := s.set i none
/-- slot `i` exists and is empty -/
def isFree (s : Slots β) (i : Nat) : Bool :=
  match s[i]? with
  | some none => true
  | _ => false
/-- concatenation of `f` over the occupied slots -/
def optList {γ : Type} (f : β → List γ) : Option β → List γ
  | none => []
  | some v => f v
def gather {γ : Type} (f : β → List γ) (s : Slots β) : List γ := s.flatMap (optList f)
end Slots

structure AStore (α : Type) where
  vars : Slots (AVar α)
  heap : Heap
deriving Repr

namespace AStore
variable {α : Type} [Inhabited α]

/-- `nv` variable slots, nothing constructed, nothing allocated -/
def init (nv : Nat) : AStore α := ⟨List.replicate nv none, Heap.empty⟩

def need (s : AStore α) (id : Nat) : AM (AVar α) :=
  match s.vars.find id with
  | some v => pure v
  | none => throw .badVar

def fresh (s : AStore α) (id : Nat) : AM Unit :=
  if s.vars.isFree id then pure () else throw .badVar

/-- a constructor that allocates: the new variable owns a fresh block -/
def construct (s : AStore α) (id : Nat) (a : Arr α) : AStore α :=
  let r := s.heap.alloc
  ⟨s.vars.put id ⟨some r.2, a⟩, r.1⟩

/-- `~Array()` of an object that is not (or no longer) in a variable slot: destroy the elements,
    give the block back; storage holding a live class object must not be given back -/
def release (cls : Bool) (h : Heap) (v : AVar α) : AM Heap := do
  let d ← v.arr.destroyAll cls
  if cls && Mem.anyLive d then throw .leak
  h.free v.blk

/-- one operation on the slot-level model -/
def step (cls : Bool) (s : AStore α) : AOp α → AM (AStore α × AOut α)
  | .ptr id src n => do
    fresh s id
    let a ← Arr.ofPtr cls src n
    pure (s.construct id a, .unit)
  | .init id vs => do
    fresh s id
    let a ← Arr.ofInit vs
    pure (s.construct id a, .unit)
  | .size id n => do
    fresh s id
    let a ← Arr.ofSize cls n
    pure (s.construct id a, .unit)
  | .fill id n v => do
    fresh s id
    let a ← Arr.ofFill n v
    pure (s.construct id a, .unit)
  | .dflt id => do
    fresh s id
    pure (⟨s.vars.put id ⟨none, Arr.empty⟩, s.heap⟩, .unit)
  | .copy dst src => do
    fresh s dst
    let v ← need s src
    let a ← Arr.copyOf cls v.arr
    pure (s.construct dst a, .unit)
  | .mctor dst src => do
    fresh s dst
    let v ← need s src
    -- `*this` starts as (nullptr, 0); `src.swap(*this)`
    pure (⟨(s.vars.put src ⟨none, Arr.empty⟩).put dst v, s.heap⟩, .unit)
  | .cassign dst src => do
    let d ← need s dst
    let v ← need s src
    if dst = src then pure (s, .unit)             -- `if (&rhs != this)`
    else
      -- `Array(rhs).swap(*this);` then the temporary (holding the old contents) dies
      let a ← Arr.copyOf cls v.arr
      let s1 := s.construct dst a
      let h ← release cls s1.heap d
      pure (⟨s1.vars, h⟩, .unit)
  | .massign dst src => do
    let d ← need s dst
    let v ← need s src
    -- `rhs.swap(*this)`; swapping an object with itself changes nothing
    if dst = src then pure (s, .unit)
    else pure (⟨(s.vars.put dst v).put src d, s.heap⟩, .unit)
  | .swap a b => do
    let x ← need s a
    let y ← need s b
    if a = b then pure (s, .unit)
    else pure (⟨(s.vars.put a y).put b x, s.heap⟩, .unit)
  | .resize id n => do
    let v ← need s id
    let a ← v.arr.resize cls n
    let (h, p) ← s.heap.realloc v.blk n
    pure (⟨s.vars.put id ⟨p, a⟩, h⟩, .unit)
  | .resizeV id n x => do
    let v ← need s id
    let a ← v.arr.resizeFill cls n x
    let (h, p) ← s.heap.realloc v.blk n
    pure (⟨s.vars.put id ⟨p, a⟩, h⟩, .unit)
  | .resizeSelf id n i => do
    let v ← need s id
    let a ← v.arr.resizeSelf cls n i
    let (h, p) ← s.heap.realloc v.blk n
    pure (⟨s.vars.put id ⟨p, a⟩, h⟩, .unit)
  | .set id i x => do
    let v ← need s id
    let a ← v.arr.set cls i x
    pure (⟨s.vars.put id ⟨v.blk, a⟩, s.heap⟩, .unit)
  | .get id i => do
    let v ← need s id
    let r ← v.arr.get i
    pure (s, .val r)
  | .iter id => do
    let v ← need s id
    let r ← v.arr.toList
    pure (s, .vals r)
  | .len id => do
    let v ← need s id
    pure (s, .num v.arr.size)
  | .front id => do
    let v ← need s id
    let r ← v.arr.front
    pure (s, .val r)
  | .back id => do
    let v ← need s id
    let r ← v.arr.back
    pure (s, .val r)
  | .drop id => do
    let v ← need s id
    let h ← release cls s.heap v
    pure (⟨s.vars.del id, h⟩, .unit)

/-- a whole history; the outputs in order -/
def run (cls : Bool) (s : AStore α) : List (AOp α) → AM (AStore α × List (AOut α))
  | [] => pure (s, [])
  | op :: ops => do
    let (s1, o) ← step cls s op
    let (s2, os) ← run cls s1 ops
    pure (s2, o :: os)

/-- every value currently held by an element of some variable -/
def liveVals (s : AStore α) : List α := s.vars.gather (fun v => Mem.liveVals v.arr.data)

/-- the blocks the variables point to -/
def blocks (s : AStore α) : List Nat := s.vars.gather (fun v => v.blk.toList)

/-- the abstraction: per variable, the list of element values -/
def abs (s : AStore α) : Slots (List (Option α)) := s.vars.map (Option.map (fun v => v.arr.contents))

end AStore

/-! ### The specification: one plain list per variable -/
namespace Spec
variable {α : Type} [Inhabited α]

abbrev St (α : Type) := Slots (List (Option α))

/-- the filler of `Array(n)` / `resize(n)`: a default-constructed object, or indeterminate -/
def dfl (cls : Bool) : Option α := if cls then some default else none

def resized (l : List (Option α)) (n : Nat) (f : Option α) : List (Option α) :=
  l.take n ++ List.replicate (n - l.length) f

/-- all elements hold a value -/
def full (l : List (Option α)) : Prop := ∀ x ∈ l, x ≠ none

/-- the values of a list all of whose elements are initialised -/
def plain (l : List (Option α)) : List α := l.filterMap id

/-- precondition of an operation on the abstract state -/
def valid (sp : St α) : AOp α → Prop
  | .ptr id src n => sp.isFree id = true ∧ n ≤ src.length
  | .init id _ | .size id _ | .fill id _ _ | .dflt id => sp.isFree id = true
  | .copy dst src | .mctor dst src => sp.isFree dst = true ∧ ∃ l, sp.find src = some l
  | .cassign dst src | .massign dst src | .swap dst src =>
      (∃ l, sp.find dst = some l) ∧ ∃ l, sp.find src = some l
  | .resize id _ | .resizeV id _ _ | .len id | .drop id => ∃ l, sp.find id = some l
  | .resizeSelf id _ i | .get id i => ∃ l v, sp.find id = some l ∧ l[i]? = some (some v)
  | .set id i _ => ∃ l, sp.find id = some l ∧ i < l.length
  | .iter id => ∃ l, sp.find id = some l ∧ full l
  | .front id => ∃ l v, sp.find id = some l ∧ l[0]? = some (some v)
  | .back id => ∃ l v, sp.find id = some l ∧ l[l.length - 1]? = some (some v)

/-- one operation on the specification (meaningful on valid operations) -/
def step (cls : Bool) (sp : St α) : AOp α → St α × AOut α
  | .ptr id src n => (sp.put id ((src.take n).map some), .unit)
  | .init id vs => (sp.put id (vs.map some), .unit)
  | .size id n => (sp.put id (List.replicate n (dfl cls)), .unit)
  | .fill id n v => (sp.put id (List.replicate n (some v)), .unit)
  | .dflt id => (sp.put id [], .unit)
  | .copy dst src =>
    match sp.find src with
    | some l => (sp.put dst l, .unit)
    | none => (sp, .unit)
  | .mctor dst src =>
    match sp.find src with
    | some l => ((sp.put src []).put dst l, .unit)
    | none => (sp, .unit)
  | .cassign dst src =>
    match sp.find src with
    | some l => (sp.put dst l, .unit)
    | none => (sp, .unit)
  | .massign dst src | .swap dst src =>
    match sp.find dst, sp.find src with
    | some ld, some ls => ((sp.put dst ls).put src ld, .unit)
    | _, _ => (sp, .unit)
  | .resize id n =>
    match sp.find id with
    | some l => (sp.put id (resized l n (dfl cls)), .unit)
    | none => (sp, .unit)
  | .resizeV id n v =>
    match sp.find id with
    | some l => (sp.put id (resized l n (some v)), .unit)
    | none => (sp, .unit)
  | .resizeSelf id n i =>
    match sp.find id with
    | some l => (sp.put id (resized l n (l[i]?.join)), .unit)
    | none => (sp, .unit)
  | .set id i v =>
    match sp.find id with
    | some l => (sp.put id (l.set i (some v)), .unit)
    | none => (sp, .unit)
  | .get id i =>
    match sp.find id with
    | some l => (sp, match l[i]?.join with | some v => .val v | none => .unit)
    | none => (sp, .unit)
  | .iter id =>
    match sp.find id with
    | some l => (sp, .vals (plain l))
    | none => (sp, .unit)
  | .len id =>
    match sp.find id with
    | some l => (sp, .num l.length)
    | none => (sp, .unit)
  | .front id =>
    match sp.find id with
    | some l => (sp, match l[0]?.join with | some v => .val v | none => .unit)
    | none => (sp, .unit)
  | .back id =>
    match sp.find id with
    | some l => (sp, match l[l.length - 1]?.join with | some v => .val v | none => .unit)
    | none => (sp, .unit)
  | .drop id => (sp.del id, .unit)

def run (cls : Bool) (sp : St α) : List (AOp α) → St α × List (AOut α)
  | [] => (sp, [])
  | op :: ops =>
    let r := step cls sp op
    let r2 := run cls r.1 ops
    (r2.1, r.2 :: r2.2)

/-- every operation of the history is valid in the state it is applied to -/
def validFrom (cls : Bool) (sp : St α) : List (AOp α) → Prop
  | [] => True
  | op :: ops => valid sp op ∧ validFrom cls (step cls sp op).1 ops

/-- every value held by some variable -/
def allItems (sp : St α) : List α := sp.gather plain

end Spec
end Tulz
