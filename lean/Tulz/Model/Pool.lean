/-
  Transition system for tulz::ThreadPool (DESIGN.md 6.5; properties C07, C08).

  One owner thread executes a program of `start t | clear | stop` operations (restart after `stop` included);
  up to `max ≥ 1` non-expiring workers (`setExpiryTimeout(-1)`, so `isExpired` is constantly false) run
  `PooledRunnable::run`.  Granularity: one step per `m_queueMutex` / `m_poolMutex` critical section, per
  notification, per `join`, per task-body end and per `delete` of ThreadPool.cpp.  REPAIRED code of finding F6:
  `stop()` writes `m_isRunning = false` inside an `m_queueMutex` critical section (step `stop`), so that the flag
  write and a worker's evaluation of the wait predicate exclude each other.

    ThreadPool::start(Runnable*)     start      { m_isRunning = true; lock(queue) m_queue.emplace_back(t) }
                                     spawnYes/spawnNo   lock(pool) { if (max > m_pool.size()) new PooledThread … }
                                     notifyHit/notifyMiss   m_condition.notify_one()
    ThreadPool::clear()              clear      lock(queue) { delete all queued; m_queue.clear() }
    ThreadPool::stop()               stop       lock(queue) { m_isRunning = false }           -- the repair
                                     stopNotify m_condition.notify_all()
                                     joinOne*   lock(pool) { for thread : m_pool: thread->join(); delete thread }
                                     joinDone   m_pool.clear(); unlock(pool)
                                     stopClear  clear()
    PooledRunnable::run (worker)     workerExit / workerTake / workerPark : lock(queue) { wait predicate; … }
                                     workerRunEnd   runnable->run() returned
                                     workerDelete   delete runnable; loop

  `start()` writes `m_isRunning = true` before its queue critical section and without the mutex, but only when the flag is
  false, i.e. after a `stop()` returned, when every worker has been joined (invariant `StopInv.stopped_ok` /
  `Live.idle_stopped`: flag false and owner idle ⇒ the pool is empty): nobody can observe where that write happens, so the
  model folds it into the `start` step.  The spawn test `getActiveThreadCount() == getThreadCount()` is invariantly true for
  non-expiring workers (`Live.alive`: while the flag is true no pool thread has exited) and is not modelled.

  Core Lean only (the driver `tulzdrv` links this file).  The namespace is `TPool` (not `Pool`) because
  `Main.lean` opens `Tulz.Drv` and refers to `Pool.State` of the driver.
-/
namespace TPool

abbrev Task := Nat

inductive OwnerOp | start (t : Task) | clear | stop
deriving DecidableEq, Repr

inductive Owner
  | idle (todo : List OwnerOp)
  | spawn (todo : List OwnerOp)            -- start(): task enqueued, pool critical section pending
  | notifyOne (todo : List OwnerOp)        -- start(): notify_one pending
  | stopNotify (todo : List OwnerOp)       -- stop(): flag cleared (under the queue mutex), notify_all pending
  | join (rem : List Nat) (todo : List OwnerOp)   -- stop(): joining the pool's threads in order
  | clearQ (todo : List OwnerOp)           -- stop(): pool emptied, clear() pending
deriving DecidableEq, Repr

inductive Worker
  | check                                  -- about to take m_queueMutex and evaluate the wait predicate
  | parked (notified : Bool)               -- blocked in m_condition.wait (`true`: a notification is pending)
  | running (t : Task)                     -- inside runnable->run()
  | ran (t : Task)                         -- run() returned, `delete runnable` pending
  | exited
deriving DecidableEq, Repr

structure State where
  queue : List Task
  running : Bool                           -- m_isRunning
  pool : List Nat                          -- m_pool, as indices into ws
  ws : List Worker                         -- every worker thread ever spawned (exited ones stay)
  owner : Owner
  max : Nat                                -- m_maxThreadCount
  -- ghost history (projections of the event trace)
  submitted : List Task                    -- `submit t` events, in order
  runs : List Task                         -- `runBegin t` events, in order
  finished : List Task                     -- `runEnd t` events
  destroyed : List Task                    -- `destroy t` events
  dropped : List Task                      -- tasks destroyed by clear()/stop() while still queued
  stopped : Bool                           -- a stop() has returned and no start() was issued since
deriving DecidableEq, Repr

def wakeAll : Worker → Worker
  | .parked _ => .parked true
  | w => w

def Worker.awake : Worker → Bool           -- may evaluate the predicate now
  | .check => true
  | .parked true => true
  | _ => false

def destroyAll (s : State) : State :=
  { s with queue := [], destroyed := s.destroyed ++ s.queue, dropped := s.dropped ++ s.queue }

/-- the steps of the code (no spurious wake-up: a parked worker moves only after a notification) -/
inductive Step : State → State → Prop
  | start (s : State) (t todo) (ho : s.owner = .idle (.start t :: todo)) :
      Step s { s with queue := s.queue ++ [t], running := true, owner := .spawn todo,
                      submitted := s.submitted ++ [t], stopped := false }
  | spawnYes (s : State) (todo) (ho : s.owner = .spawn todo) (h : s.pool.length < s.max) :
      Step s { s with pool := s.pool ++ [s.ws.length], ws := s.ws ++ [.check], owner := .notifyOne todo }
  | spawnNo (s : State) (todo) (ho : s.owner = .spawn todo) (h : ¬ s.pool.length < s.max) :
      Step s { s with owner := .notifyOne todo }
  | notifyHit (s : State) (todo) (w : Nat) (ho : s.owner = .notifyOne todo) (hw : s.ws[w]? = some (.parked false)) :
      Step s { s with ws := s.ws.set w (.parked true), owner := .idle todo }
  | notifyMiss (s : State) (todo) (ho : s.owner = .notifyOne todo) (hn : ∀ w : Nat, s.ws[w]? ≠ some (Worker.parked false)) :
      Step s { s with owner := .idle todo }
  | clear (s : State) (todo) (ho : s.owner = .idle (.clear :: todo)) :
      Step s { destroyAll s with owner := .idle todo }
  | stop (s : State) (todo) (ho : s.owner = .idle (.stop :: todo)) :
      Step s { s with running := false, owner := .stopNotify todo }
  | stopNotify (s : State) (todo) (ho : s.owner = .stopNotify todo) :
      Step s { s with ws := s.ws.map wakeAll, owner := .join s.pool todo }
  | joinOne (s : State) (w rem todo) (ho : s.owner = .join (w :: rem) todo) (hw : s.ws[w]? = some .exited) :
      Step s { s with owner := .join rem todo }
  | joinDone (s : State) (todo) (ho : s.owner = .join [] todo) :
      Step s { s with pool := [], owner := .clearQ todo }
  | stopClear (s : State) (todo) (ho : s.owner = .clearQ todo) :
      Step s { destroyAll s with owner := .idle todo, stopped := true }
  | workerExit (s : State) (w wk) (hw : s.ws[w]? = some wk) (ha : wk.awake = true) (hr : s.running = false) :
      Step s { s with ws := s.ws.set w .exited }
  | workerTake (s : State) (w wk t q) (hw : s.ws[w]? = some wk) (ha : wk.awake = true) (hr : s.running = true)
      (hq : s.queue = t :: q) :
      Step s { s with queue := q, ws := s.ws.set w (.running t), runs := s.runs ++ [t] }
  | workerPark (s : State) (w wk) (hw : s.ws[w]? = some wk) (ha : wk.awake = true) (hr : s.running = true)
      (hq : s.queue = []) :
      Step s { s with ws := s.ws.set w (.parked false) }
  | workerRunEnd (s : State) (w t) (hw : s.ws[w]? = some (.running t)) :
      Step s { s with ws := s.ws.set w (.ran t), finished := s.finished ++ [t] }
  | workerDelete (s : State) (w t) (hw : s.ws[w]? = some (.ran t)) :
      Step s { s with ws := s.ws.set w .check, destroyed := s.destroyed ++ [t] }

/-- steps of the environment-inclusive system: the code's steps plus spurious wake-ups of parked workers
    (allowed by pthreads).  Reachability — hence every safety theorem — is over `SStep`. -/
inductive SStep : State → State → Prop
  | code {s t} : Step s t → SStep s t
  | spurious (s : State) (w : Nat) (hw : s.ws[w]? = some (.parked false)) :
      SStep s { s with ws := s.ws.set w (.parked true) }

def init (max : Nat) (prog : List OwnerOp) : State :=
  { queue := [], running := true, pool := [], ws := [], owner := .idle prog, max := max,
    submitted := [], runs := [], finished := [], destroyed := [], dropped := [], stopped := false }

inductive Reach (max : Nat) (prog : List OwnerOp) : State → Prop
  | init : Reach max prog (init max prog)
  | step {s t} : Reach max prog s → SStep s t → Reach max prog t

theorem Reach.code {max prog s t} (h : Reach max prog s) (hs : Step s t) : Reach max prog t :=
  Reach.step h (SStep.code hs)

/-! ### executable step function (what the driver runs)

  Given the thread that moves — and, for `notify_one`, which waiter the condition variable picked — the step is
  determined by the thread's program counter and the shared state. -/

inductive Label
  | owner (woken : Option Nat)             -- `some w` only for a notify_one that wakes worker `w`
  | worker (w : Nat)
deriving DecidableEq, Repr

def noneAsleep (ws : List Worker) : Bool := ws.all fun w => w != .parked false

def ownerStep? (s : State) (woken : Option Nat) : Option State :=
  match s.owner, woken with
  | .idle (.start t :: todo), none =>
      some { s with queue := s.queue ++ [t], running := true, owner := .spawn todo,
                    submitted := s.submitted ++ [t], stopped := false }
  | .idle (.clear :: todo), none => some { destroyAll s with owner := .idle todo }
  | .idle (.stop :: todo), none => some { s with running := false, owner := .stopNotify todo }
  | .spawn todo, none =>
      if s.pool.length < s.max then
        some { s with pool := s.pool ++ [s.ws.length], ws := s.ws ++ [.check], owner := .notifyOne todo }
      else some { s with owner := .notifyOne todo }
  | .notifyOne todo, some w =>
      if s.ws[w]? = some (.parked false) then some { s with ws := s.ws.set w (.parked true), owner := .idle todo }
      else none
  | .notifyOne todo, none => if noneAsleep s.ws then some { s with owner := .idle todo } else none
  | .stopNotify todo, none => some { s with ws := s.ws.map wakeAll, owner := .join s.pool todo }
  | .join (w :: rem) todo, none => if s.ws[w]? = some .exited then some { s with owner := .join rem todo } else none
  | .join [] todo, none => some { s with pool := [], owner := .clearQ todo }
  | .clearQ todo, none => some { destroyAll s with owner := .idle todo, stopped := true }
  | _, _ => none

/-- the critical section of an awake worker: wait predicate and what follows it -/
def awakeStep (s : State) (w : Nat) : State :=
  if s.running = false then { s with ws := s.ws.set w .exited }
  else match s.queue with
    | [] => { s with ws := s.ws.set w (.parked false) }
    | t :: q => { s with queue := q, ws := s.ws.set w (.running t), runs := s.runs ++ [t] }

def workerStep? (s : State) (w : Nat) : Option State :=
  match s.ws[w]? with
  | some .check => some (awakeStep s w)
  | some (.parked true) => some (awakeStep s w)
  | some (.running t) => some { s with ws := s.ws.set w (.ran t), finished := s.finished ++ [t] }
  | some (.ran t) => some { s with ws := s.ws.set w .check, destroyed := s.destroyed ++ [t] }
  | _ => none

def xstep? (s : State) : Label → Option State
  | .owner woken => ownerStep? s woken
  | .worker w => workerStep? s w

/-- replay of a label sequence -/
def xrun? (s : State) : List Label → Option State
  | [] => some s
  | l :: ls => match xstep? s l with
    | some t => xrun? t ls
    | none => none

end TPool
