import Tulz.Model.Subject
/-
  Model of `tulz::Observable<T, Eq>` (include/tulz/observer/Observable.h:33-134), parametric in
  the value type `T`, the equality `eq` (`m_eq`) and the operator functions.  `m_subject` is a
  `Subject<T&>`: its model is a `Subject.World T` and `m_subject.notify(m_val)` is `notify … o.val`.
  Callbacks of an Observable's subscribers cannot re-enter `m_subject.notify` (it is protected), so
  the nesting fuel is 0; they may still subscribe / unsubscribe (scripts from `lib`).
-/
namespace Tulz.Observable
open Tulz.Subject

structure Obsv (T : Type) where
  /-- `m_val` -/
  val : T
  /-- `m_subject` together with the handles returned by `subscribe` -/
  w : World T

variable {T : Type}

section ops
variable (lib : Nat → List Action) (eq : T → T → Bool)

/-- `m_subject.notify(m_val)` -/
def Obsv.notifyVal (o : Obsv T) : Obsv T := { o with w := notify lib 0 o.w o.val }

/-- `operator=(V&&)` (Observable.h:33-40) -/
def Obsv.assign (o : Obsv T) (v : T) : Obsv T :=
  if !eq o.val v then Obsv.notifyVal lib { o with val := v } else o

/-- `apply(callable)` (Observable.h:62-72) -/
def Obsv.apply (o : Obsv T) (f : T → T) : Obsv T :=
  let old := o.val
  let o' : Obsv T := { o with val := f o.val }
  if !eq old o'.val then Obsv.notifyVal lib o' else o'

/-- `operator+=`, `-=`, `*=`, `/=` (Observable.h:74-104): `apply([other](T& val){ val ⊕= other; })` -/
def Obsv.opAssign (o : Obsv T) (op : T → T → T) (v : T) : Obsv T :=
  Obsv.apply lib eq o (fun x => op x v)

/-- prefix `++` / `--` (Observable.h:115-119, 130-134): returns (a reference to) the new value -/
def Obsv.pre (o : Obsv T) (f : T → T) : Obsv T × T :=
  let o' := Obsv.notifyVal lib { o with val := f o.val }
  (o', o'.val)

/-- postfix `++` / `--` (Observable.h:107-112, 122-127): returns the previous value -/
def Obsv.post (o : Obsv T) (f : T → T) : Obsv T × T :=
  let prev := o.val
  (Obsv.notifyVal lib { o with val := f o.val }, prev)

/-- `subscribe(observer)`; the returned handle goes to the handle table -/
def Obsv.subscribe (o : Obsv T) (script : List Action) : Obsv T :=
  { o with w := o.w.subscribeSlot script false }

/-- `handles[hi].unsubscribe()` / `m_subject.unsubscribe(handles[hi])` (stale handles are rejected, nothing changes) -/
def Obsv.unsubscribe (o : Obsv T) (hi : Nat) : Obsv T :=
  { o with w := (o.w.unsubSlot hi).1 }

end ops

/-- operations of a history (C16) -/
inductive OOp (T : Type) where
  | assign (v : T)
  | apply (f : T → T)
  | pre (f : T → T)
  | post (f : T → T)
  | sub
  | unsub (hi : Nat)

/-- one operation; subscribers are plain recorders (`script = []`) -/
def ostep (eq : T → T → Bool) (o : Obsv T) : OOp T → Obsv T
  | .assign v => o.assign (fun _ => []) eq v
  | .apply f => o.apply (fun _ => []) eq f
  | .pre f => (o.pre (fun _ => []) f).1
  | .post f => (o.post (fun _ => []) f).1
  | .sub => o.subscribe []
  | .unsub hi => o.unsubscribe hi

/-- the subscribers' memory cells: `(subscription id, last value stored)` -/
abbrev Cells (T : Type) := List (Nat × T)

/-- a recorder stores every value it is called with -/
def store1 (cells : Cells T) (c : Nat × T) : Cells T :=
  cells.map (fun p => if p.1 = c.1 then (p.1, c.2) else p)

def storeAll (cells : Cells T) (cs : List (Nat × T)) : Cells T := cs.foldl store1 cells

/-- an Observable together with the recorders' cells: a new subscriber is initialised with `value()` -/
def rstep (eq : T → T → Bool) (s : Obsv T × Cells T) (op : OOp T) : Obsv T × Cells T :=
  let o' := ostep eq s.1 op
  let cells := storeAll s.2 (calls (evsSince s.1.w o'.w))
  match op with
  | .sub => (o', (s.1.w.counter, s.1.val) :: cells)
  | _ => (o', cells)

def rrun (eq : T → T → Bool) (s : Obsv T × Cells T) (ops : List (OOp T)) : Obsv T × Cells T :=
  ops.foldl (rstep eq) s

end Tulz.Observable
