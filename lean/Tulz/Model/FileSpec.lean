import Tulz.Model.File
/- Client programs over the File model and the byte-list specification they are compared with (C17).
   Core Lean only. -/
namespace Tulz.FileM
open Tulz.Stdio

/-- one call of one of the three `write` overloads -/
inductive WCall
  | raw (data : Bytes) (elementSize : Nat)   -- write(data, data.size() / elementSize, elementSize)
  | array (data : Bytes)                     -- write(const Array<byte>&)
  | string (data : Bytes)                    -- write(const std::string&)

def WCall.run (d : Disk) (f : File) : WCall → Except Err (Disk × File × Nat)
  | .raw data esz => write d f data (data.length / esz) esz
  | .array data => writeArray d f data
  | .string data => writeString d f data

/-- the bytes the call hands to the stream: whole elements only -/
def WCall.bytes : WCall → Bytes
  | .raw data esz => data.take (esz * (data.length / esz))
  | .array data => data
  | .string data => data

/-- successive write calls -/
def writeAll (d : Disk) (f : File) : List WCall → Except Err (Disk × File)
  | [] => .ok (d, f)
  | c :: r =>
    match c.run d f with
    | .error e => .error e
    | .ok (d', f', _) => writeAll d' f' r

/-- `File f(path, wmode); for (c : calls) f.write(c); f.close();` — the disk afterwards -/
def writeFile (d : Disk) (path : String) (wmode : Mode) (calls : List WCall) : Except Err Disk :=
  match «open» d File.closed path wmode with
  | (_, _, .error e) => .error e
  | (d1, f1, .ok ()) =>
    match writeAll d1 f1 calls with
    | .error e => .error e
    | .ok (d2, f2) => let _ := close f2; .ok d2

/-- the three ways of reading a whole file back -/
inductive Reader
  | read                       -- read()
  | readStr                    -- readStr()
  | readBuf (size count : Nat) -- read(buffer, size, count) into a buffer of size*count bytes

/-- `File f(path, rmode); <reader>` — the bytes obtained (`none` cells = uninitialised array bytes) -/
def readFile (d : Disk) (path : String) (rmode : Mode) (rd : Reader) : Except Err (List Cell) :=
  match «open» d File.closed path rmode with
  | (_, _, .error e) => .error e
  | (d1, f1, .ok ()) =>
    match rd with
    | .read => (read d1 f1).map (·.2)
    | .readStr => (readStr d1 f1).map (·.2)
    | .readBuf size count => (readBuf d1 f1 size count).map (fun r => r.2.1.map some)

/-! ### histories on a readable stream -/

inductive ROp
  | seek (offset : Int) (origin : Origin)
  | tell
  | size
  | readBuf (size count : Nat)
  | read
  | readStr
  deriving Repr

inductive ROut
  | int (i : Int)                          -- seek
  | nat (n : Nat)                          -- tell, size
  | buf (ret : Nat) (stored : Bytes)       -- read(buffer, …): return value and the bytes stored
  | cells (c : List Cell)                  -- read(), readStr()
  deriving Repr, DecidableEq

/-- one call on the File model -/
def fileStep (d : Disk) (f : File) : ROp → Except Err (File × ROut)
  | .seek off o => (seek d f off o).map fun r => (r.1, .int r.2)
  | .tell => (tell f).map fun n => (f, .nat n)
  | .size => (size d f).map fun r => (r.1, .nat r.2)
  | .readBuf s c => (readBuf d f s c).map fun r => (r.1, .buf r.2.2 r.2.1)
  | .read => (read d f).map fun r => (r.1, .cells r.2)
  | .readStr => (readStr d f).map fun r => (r.1, .cells r.2)

def runFile (d : Disk) : File → List ROp → Except Err (File × List ROut)
  | f, [] => .ok (f, [])
  | f, op :: r =>
    match fileStep d f op with
    | .error e => .error e
    | .ok (f', o) =>
      match runFile d f' r with
      | .error e => .error e
      | .ok (f'', os) => .ok (f'', o :: os)

/-- the specification: a byte list and a position, nothing else -/
def specStep (content : Bytes) (pos : Nat) : ROp → Nat × ROut
  | .seek off o =>
    let base : Int := match o with
      | .start => 0
      | .current => pos
      | .end => content.length
    if base + off < 0 then (pos, .int (-1)) else ((base + off).toNat, .int 0)
  | .tell => (pos, .nat pos)
  | .size => (pos, .nat content.length)
  | .readBuf s c =>
    if s * c = 0 then (pos, .buf 0 [])
    else
      let got := (content.drop pos).take (s * c)
      (pos + got.length, .buf (got.length / s) got)
  | .read => (content.length, .cells (content.map some))
  | .readStr => (content.length, .cells (content.map some))

def runSpec (content : Bytes) : Nat → List ROp → Nat × List ROut
  | pos, [] => (pos, [])
  | pos, op :: r =>
    let (pos', o) := specStep content pos op
    let (pos'', os) := runSpec content pos' r
    (pos'', o :: os)

end Tulz.FileM
