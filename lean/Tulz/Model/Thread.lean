import Tulz.Model.ThreadCap
/-
  C20 — tulz::Thread.  A small transition system for ONE `Thread::start(...)` … `join()` episode with two threads:

    starter:     evalArgs ; buildClosure ; spawn ; returnFromStart ; clobberFrame ; poll* ; join ; scopeExit
    new thread:  begin ; readCallable ; invokeBegin ; (useSelf | useArgs)* ; invokeEnd ; [delete] ; setFinished ; exit

  interleaved arbitrarily (`Step`, `Reach`).  Object lifetimes of the C++ abstract machine are modelled BY HAND:

    frameSlot     the by-value parameter of start() (`ptr` / `runnable`): created by `evalArgs`, dead at `returnFromStart`
    closureField  the closure object that std::thread decay-copies into the new thread: created by `buildClosure`,
                  destroyed when the thread function has returned (`exit`)
    callerLvalue  the caller's argument lvalues and
    thisObj       the Thread object: both live until the caller leaves the scope (`scopeExit`), which happens after `join`
    heapObj       the Runnable (second instance only): live until `delete`

  How each closure field refers to its entity (`Cfg`) comes from the GENERATED capture table through `Cfg.ofCaps`.
  Every step records in `badTouch` whether it accessed an object that was not alive.
-/
namespace Thread

/-- what a by-reference capture refers to -/
inductive Target
  | frameSlot | callerLvalue | thisObj
deriving DecidableEq, Repr

/-- a closure field: a copy of the entity, or a reference to `target` -/
inductive Cap
  | byCopy
  | byRef (t : Target)
deriving DecidableEq, Repr

inductive Obj
  | frameSlot | closureField | callerLvalue | thisObj | heapObj
deriving DecidableEq, Repr

def Target.obj : Target → Obj
  | .frameSlot => .frameSlot
  | .callerLvalue => .callerLvalue
  | .thisObj => .thisObj

/-- the object in which the captured entity's value is found when the new thread uses it -/
def Cap.obj : Cap → Obj
  | .byCopy => .closureField
  | .byRef t => t.obj

inductive Kind
  | callable      -- template start(T ptr, Args&&... args)
  | runnable      -- start(Runnable *runnable)
deriving DecidableEq, Repr

def Kind.isRunnable : Kind → Bool
  | .runnable => true
  | .callable => false

structure Cfg where
  kind : Kind
  callable : Cap          -- `ptr` (the callable object itself) / `runnable` (the pointer)
  args : List Cap         -- one per element of the argument pack ([] for the Runnable instance)
  this : Cap              -- `.byCopy` = a copy of the `this` pointer
deriving DecidableEq, Repr

/-! ### from the syntactic capture modes of the generated table to closure fields (C++ rules, transcribed by hand) -/

/-- a by-value parameter of start() is an object of start()'s frame: a reference capture refers to that frame slot -/
def resolveValueParam : CapMode → Option Cap
  | .byCopy | .defaultCopy => some .byCopy
  | .byRef | .defaultRef => some (.byRef .frameSlot)
  | .unused => none

/-- a parameter of type `Args&&` is a reference bound to the caller's argument: capturing it by reference yields a reference
    to the caller's object (not to the parameter), capturing it by copy copies the caller's object into the closure -/
def resolveRefParam : CapMode → Option Cap
  | .byCopy | .defaultCopy => some .byCopy
  | .byRef | .defaultRef => some (.byRef .callerLvalue)
  | .unused => none

/-- `this` is always captured as a copy of the pointer (`[this]`, or implicitly by `[&]` / `[=]`); `&this` is ill-formed -/
def resolveThis : CapMode → Option Cap
  | .byCopy | .defaultCopy | .defaultRef => some .byCopy
  | .byRef | .unused => none

def Cfg.ofCaps (k : Kind) (l : LambdaCaps) (nargs : Nat) : Option Cfg :=
  match resolveValueParam l.callable, resolveThis l.this with
  | some c, some t =>
    match k with
    | .runnable => some ⟨k, c, [], t⟩
    | .callable =>
      if nargs = 0 then some ⟨k, c, [], t⟩
      else match resolveRefParam l.args with
        | some a => some ⟨k, c, List.replicate nargs a, t⟩
        | none => none
  | _, _ => none

/-! ### state -/

inductive SPc       -- the NEXT step of the starter
  | evalArgs | buildClosure | spawn | returnFromStart | clobberFrame | working | joined | done
deriving DecidableEq, Repr

inductive WPc       -- the NEXT step of the new thread
  | unborn | begin | readCallable | invokeBegin | inside | delete | setFinished | exit | ended
deriving DecidableEq, Repr

structure State where
  spc : SPc
  wpc : WPc
  frameAlive : Bool
  closureAlive : Bool
  scopeAlive : Bool           -- caller lvalues and *this
  heapAlive : Bool            -- the Runnable
  finished : Bool             -- m_isFinished
  invokes : Nat               -- how often the callable / run() was entered
  returned : Bool             -- the callable / run() has returned
  destroys : Nat              -- how often the Runnable was destroyed
  sawFinished : Bool          -- the starter has seen isFinished() = true
  badTouch : Bool             -- some step accessed an object outside its lifetime
deriving DecidableEq, Repr

def init (cfg : Cfg) : State :=
  { spc := .evalArgs, wpc := .unborn, frameAlive := false, closureAlive := false, scopeAlive := true,
    heapAlive := cfg.kind.isRunnable, finished := false, invokes := 0, returned := false, destroys := 0,
    sawFinished := false, badTouch := false }

def State.alive (s : State) : Obj → Bool
  | .frameSlot => s.frameAlive
  | .closureField => s.closureAlive
  | .callerLvalue => s.scopeAlive
  | .thisObj => s.scopeAlive
  | .heapObj => s.heapAlive

def isDead (s : State) (o : Obj) : Bool := !s.alive o

/-- access the objects `os`; remember if one of them is dead -/
def State.touch (s : State) (os : List Obj) : State :=
  { s with badTouch := s.badTouch || os.any (isDead s) }

/-- objects read while the closure is built: the source of every by-copy capture -/
def copySources (cfg : Cfg) : List Obj :=
  (match cfg.callable with | .byCopy => [Obj.frameSlot] | .byRef _ => []) ++
  (if cfg.args.any (· == .byCopy) then [Obj.callerLvalue] else [])

/-- objects the callable / run() uses as "itself" while it runs -/
def selfObjs (cfg : Cfg) : List Obj :=
  match cfg.kind with
  | .callable => [cfg.callable.obj]
  | .runnable => [.heapObj]

/-- `m_isFinished = true`: load the captured pointer, write through it -/
def thisObjs (cfg : Cfg) : List Obj :=
  match cfg.this with
  | .byCopy => [.closureField, .thisObj]
  | .byRef t => [.closureField, t.obj]

inductive Lbl
  | evalArgs | buildClosure | spawn | returnFromStart | clobberFrame | poll | join | scopeExit
  | begin | readCallable | invokeBegin | useSelf | useArgs | invokeEnd | delete | setFinished | exit
deriving DecidableEq, Repr

/-! ### effects of the steps -/

def doEvalArgs (s : State) : State := { s with spc := .buildClosure, frameAlive := true }
def doBuildClosure (cfg : Cfg) (s : State) : State := { s.touch (copySources cfg) with spc := .spawn, closureAlive := true }
def doSpawn (s : State) : State := { s with spc := .returnFromStart, wpc := .begin }
def doReturnFromStart (s : State) : State := { s with spc := .clobberFrame, frameAlive := false }
def doClobberFrame (s : State) : State := { s with spc := .working }
def doPoll (s : State) : State := { s.touch [.thisObj] with sawFinished := s.sawFinished || s.finished }
def doJoin (s : State) : State := { s.touch [.thisObj] with spc := .joined }
def doScopeExit (s : State) : State := { s with spc := .done, scopeAlive := false }

def doBegin (s : State) : State := { s with wpc := .readCallable }
def doReadCallable (cfg : Cfg) (s : State) : State := { s.touch [.closureField, cfg.callable.obj] with wpc := .invokeBegin }
def doInvokeBegin (cfg : Cfg) (s : State) : State :=
  { s.touch (match cfg.kind with | .callable => [] | .runnable => [.heapObj]) with wpc := .inside, invokes := s.invokes + 1 }
def doUseSelf (cfg : Cfg) (s : State) : State := s.touch (selfObjs cfg)
def doUseArgs (cfg : Cfg) (s : State) : State := s.touch (cfg.args.map Cap.obj)
def afterInvoke : Kind → WPc
  | .callable => .setFinished
  | .runnable => .delete
def doInvokeEnd (cfg : Cfg) (s : State) : State := { s with wpc := afterInvoke cfg.kind, returned := true }
def doDelete (cfg : Cfg) (s : State) : State :=
  { s.touch [.closureField, cfg.callable.obj, .heapObj] with wpc := .setFinished, heapAlive := false, destroys := s.destroys + 1 }
def doSetFinished (cfg : Cfg) (s : State) : State := { s.touch (thisObjs cfg) with wpc := .exit, finished := true }
def doExit (s : State) : State := { s with wpc := .ended, closureAlive := false }

/-- the step relation the theorems quantify over -/
inductive Step (cfg : Cfg) : State → Lbl → State → Prop
  | evalArgs (s) (h : s.spc = .evalArgs) : Step cfg s .evalArgs (doEvalArgs s)
  | buildClosure (s) (h : s.spc = .buildClosure) : Step cfg s .buildClosure (doBuildClosure cfg s)
  | spawn (s) (h : s.spc = .spawn) : Step cfg s .spawn (doSpawn s)
  | returnFromStart (s) (h : s.spc = .returnFromStart) : Step cfg s .returnFromStart (doReturnFromStart s)
  | clobberFrame (s) (h : s.spc = .clobberFrame) : Step cfg s .clobberFrame (doClobberFrame s)
  | poll (s) (h : s.spc = .working) : Step cfg s .poll (doPoll s)
  | join (s) (h : s.spc = .working) (hw : s.wpc = .ended) : Step cfg s .join (doJoin s)       -- join() blocks until the thread has ended
  | scopeExit (s) (h : s.spc = .joined) : Step cfg s .scopeExit (doScopeExit s)
  | begin (s) (h : s.wpc = .begin) : Step cfg s .begin (doBegin s)
  | readCallable (s) (h : s.wpc = .readCallable) : Step cfg s .readCallable (doReadCallable cfg s)
  | invokeBegin (s) (h : s.wpc = .invokeBegin) : Step cfg s .invokeBegin (doInvokeBegin cfg s)
  | useSelf (s) (h : s.wpc = .inside) : Step cfg s .useSelf (doUseSelf cfg s)
  | useArgs (s) (h : s.wpc = .inside) : Step cfg s .useArgs (doUseArgs cfg s)
  | invokeEnd (s) (h : s.wpc = .inside) : Step cfg s .invokeEnd (doInvokeEnd cfg s)
  | delete (s) (h : s.wpc = .delete) : Step cfg s .delete (doDelete cfg s)
  | setFinished (s) (h : s.wpc = .setFinished) : Step cfg s .setFinished (doSetFinished cfg s)
  | exit (s) (h : s.wpc = .exit) : Step cfg s .exit (doExit s)

inductive Reach (cfg : Cfg) : State → Prop
  | init : Reach cfg (init cfg)
  | step {s l t} : Reach cfg s → Step cfg s l t → Reach cfg t

/-- runs as label lists: `Run cfg s ls t` = from `s` the steps labelled `ls` lead to `t` -/
inductive Run (cfg : Cfg) : State → List Lbl → State → Prop
  | nil (s) : Run cfg s [] s
  | cons {s l t ls u} : Step cfg s l t → Run cfg t ls u → Run cfg s (l :: ls) u

/-! ### executable step function (what the driver runs) -/

def step? (cfg : Cfg) (s : State) : Lbl → Option State
  | .evalArgs => if s.spc = .evalArgs then some (doEvalArgs s) else none
  | .buildClosure => if s.spc = .buildClosure then some (doBuildClosure cfg s) else none
  | .spawn => if s.spc = .spawn then some (doSpawn s) else none
  | .returnFromStart => if s.spc = .returnFromStart then some (doReturnFromStart s) else none
  | .clobberFrame => if s.spc = .clobberFrame then some (doClobberFrame s) else none
  | .poll => if s.spc = .working then some (doPoll s) else none
  | .join => if s.spc = .working ∧ s.wpc = .ended then some (doJoin s) else none
  | .scopeExit => if s.spc = .joined then some (doScopeExit s) else none
  | .begin => if s.wpc = .begin then some (doBegin s) else none
  | .readCallable => if s.wpc = .readCallable then some (doReadCallable cfg s) else none
  | .invokeBegin => if s.wpc = .invokeBegin then some (doInvokeBegin cfg s) else none
  | .useSelf => if s.wpc = .inside then some (doUseSelf cfg s) else none
  | .useArgs => if s.wpc = .inside then some (doUseArgs cfg s) else none
  | .invokeEnd => if s.wpc = .inside then some (doInvokeEnd cfg s) else none
  | .delete => if s.wpc = .delete then some (doDelete cfg s) else none
  | .setFinished => if s.wpc = .setFinished then some (doSetFinished cfg s) else none
  | .exit => if s.wpc = .exit then some (doExit s) else none

/-- run a list of labels from a state -/
def run? (cfg : Cfg) : State → List Lbl → Option State
  | s, [] => some s
  | s, l :: ls => match step? cfg s l with
    | some t => run? cfg t ls
    | none => none

/-- a table that keeps everything the new thread touches alive:
    the callable is copied into the closure; every argument is a reference to a caller lvalue or a copy; `this` is the pointer -/
def Cfg.Safe (cfg : Cfg) : Prop :=
  cfg.callable = .byCopy ∧ (∀ a ∈ cfg.args, a = .byRef .callerLvalue ∨ a = .byCopy) ∧ cfg.this = .byCopy

instance (cfg : Cfg) : Decidable cfg.Safe := by unfold Cfg.Safe; exact inferInstance

end Thread
