import Tulz.Generated.LocaleTables
/-!
# Model of `tulz::LocaleInfo::get` (src/LocaleInfo.cpp) — property C19

Strings are `List Nat` byte lists WITHOUT the terminating NUL (`Bytes`); a C string argument is such a list with
`0 ∉ s`.  The function is transcribed statement by statement with an explicit 64-byte buffer:

* `strstr(locale, ".")`, `strstr(locale, "_")` with a one-byte needle = index of the first occurrence (`idxOf?`);
* `memcpy(buffer, src, len)` is `Except`-valued: `len < 0` (the `ptrdiff_t` becomes a huge `size_t`),
  `len > 64` (write past the buffer) and `len > bytes available at src` are errors;
* `strcmp(entry, buffer)` needs `buffer` to be a string: a buffer without a NUL among its 64 bytes is the
  over-read error `noTerminator` (that is what a copy of exactly 64 bytes produces);
* `memset(buffer, 0, 64)`;
* the language scan exactly as written (a code match collects the name and CONTINUES, a name match collects and
  BREAKS), the country scan as written (first entry whose code or name matches);
* `Info::languageCode/country/countryCode` have no default initialiser.  `languageCode` is an `Option` in the
  accumulator of the language loop and returning it unset is the error `uninitialised`; `country`/`countryCode` are
  written on the only non-fallback path that returns, and `result = {}` + four assignments write all of them on the
  fallback path.

`getGen true` (= `copyAndScan true` after the two `strstr`s) is the REPAIRED code of finding F9 (repairs/F9.patch): the
guard `delim && dotDelim > delim && size_t(delim - locale) <= 63 && size_t(dotDelim - delim - 1) <= 63` in front of the
copies and "an unknown language cannot be combined with a known country" in front of the country scan.  Lengths are
unbounded `Int`s here, so `dotDelim > delim` is what rejects a negative country length; in the C++ the `size_t` cast of
a negative `ptrdiff_t` already fails the `<= 63` test, the explicit conjunct is kept for the reader.
`getGen false` is the code as found (kept only to state F9 as `example`s in Props/C19.lean).

`spec` is the plain statement of the property, see the comment there for the interpretive choices.
-/
namespace Tulz.Locale

abbrev Bytes := List Nat
/-- (code, name) pairs in source order -/
abbrev Table := List (Bytes × Bytes)

structure Info where
  languages : List Bytes
  languageCode : Bytes
  country : Bytes
  countryCode : Bytes
  /-- `error != nullptr` -/
  error : Bool
  deriving DecidableEq, Repr

inductive Err where
  | negativeLength      -- memcpy with a negative ptrdiff_t converted to size_t
  | bufferOverflow      -- memcpy writes past `buffer[64]`
  | sourceOverread      -- memcpy reads past the terminating NUL of the argument
  | noTerminator        -- strcmp on a buffer that holds no NUL
  | uninitialised       -- a field of the returned Info was never written
  deriving DecidableEq, Repr

deriving instance DecidableEq for Except

def Err.toString : Err → String
  | .negativeLength => "negative-length"
  | .bufferOverflow => "buffer-overflow"
  | .sourceOverread => "source-overread"
  | .noTerminator => "no-terminator"
  | .uninitialised => "uninitialised"

def bufSize : Nat := 64
def underscore : Nat := 95   -- '_'
def dot : Nat := 46          -- '.'

/-! ## libc pieces -/

/-- `strstr(s, "c")` for a one-byte needle: offset of the first occurrence -/
def idxOf? (c : Nat) : Bytes → Option Nat
  | [] => none
  | b :: bs => if b = c then some 0 else (idxOf? c bs).map (· + 1)

/-- `memcpy(buf, src, len)`: `src` is everything readable from the source pointer (up to and including the NUL) -/
def memcpy (buf src : Bytes) (len : Int) : Except Err Bytes :=
  if len < 0 then .error .negativeLength
  else if len.toNat > buf.length then .error .bufferOverflow
  else if len.toNat > src.length then .error .sourceOverread
  else .ok (src.take len.toNat ++ buf.drop len.toNat)

def memset (buf : Bytes) (v n : Nat) : Bytes := List.replicate (min n buf.length) v ++ buf.drop n

/-- the string held by a char array (what `strcmp(x, buffer)` compares with): error if there is no NUL -/
def cstr (buf : Bytes) : Except Err Bytes :=
  if 0 ∈ buf then .ok (buf.takeWhile (· != 0)) else .error .noTerminator

/-! ## the two loops -/

/-- `result.languageCode` (unset = `none`) and `result.languages` -/
structure LangAcc where
  code : Option Bytes := none
  names : List Bytes := []

/-- `for (inf : languageInfo) { if (strcmp(inf.code,buffer)==0) {set; push} else if (strcmp(inf.value,buffer)==0) {set; push; break} }` -/
def scanLang (key : Bytes) : Table → LangAcc → LangAcc
  | [], acc => acc
  | e :: rest, acc =>
    if e.1 = key then scanLang key rest { code := some e.1, names := acc.names ++ [e.2] }
    else if e.2 = key then { code := some e.1, names := acc.names ++ [e.2] }
    else scanLang key rest acc

/-- `for (inf : countryInfo) if (strcmp(inf.code,buffer)==0 || strcmp(inf.value,buffer)==0) { …; return result; }` -/
def scanCountry (key : Bytes) : Table → Option (Bytes × Bytes)
  | [] => none
  | e :: rest => if e.1 = key ∨ e.2 = key then some e else scanCountry key rest

/-- the literals of the fallback branch of `get`: `"en"`, `"English"` / `"GB"`, `"United Kingdom"` as (code, name) -/
def fallbackLang : Bytes × Bytes := ([101, 110], [69, 110, 103, 108, 105, 115, 104])
def fallbackCountry : Bytes × Bytes := ([71, 66], [85, 110, 105, 116, 101, 100, 32, 75, 105, 110, 103, 100, 111, 109])

/-- the documented fallback: English / United Kingdom, error set -/
def fallback : Info :=
  { languages := [fallbackLang.2], languageCode := fallbackLang.1,
    country := fallbackCountry.2, countryCode := fallbackCountry.1, error := true }

/-! ## `LocaleInfo::get` -/

/-- the part of `get` after the two `strstr` calls, `delim` found.  `mem` = what is readable at `locale` (the string and
its NUL), `delim`/`dotDelim` = offsets of the two delimiters (`dotDelim` = `strlen` if there is no `.`).
`repaired = true`: the code with repairs/F9.patch applied; `false`: the code as found -/
def copyAndScan (repaired : Bool) (langT ctryT : Table) (mem : Bytes) (delim dotDelim : Nat) : Except Err Info :=
  let buffer : Bytes := List.replicate bufSize 0             -- char buffer[64] {0};
  let langLen : Int := (delim : Int)                         -- delim - locale
  let ctryLen : Int := (dotDelim : Int) - (delim : Int) - 1  -- dotDelim - delim - 1
  -- F9 repair: `dotDelim > delim && size_t(delim - locale) <= 63 && size_t(dotDelim - delim - 1) <= 63`
  if repaired && !(decide (dotDelim > delim) && decide (langLen ≤ 63) && decide (ctryLen ≤ 63)) then .ok fallback else
  (memcpy buffer mem langLen).bind fun buffer =>             -- memcpy(buffer, locale, delim - locale);
  (cstr buffer).bind fun key =>                              -- strcmp(…, buffer)
  let acc := scanLang key langT {}
  let buffer := memset buffer 0 bufSize                      -- memset(buffer, 0, sizeof(buffer));
  (memcpy buffer (mem.drop (delim + 1)) ctryLen).bind fun buffer =>  -- memcpy(buffer, delim + 1, dotDelim - delim - 1);
  -- F9 repair: an unknown language cannot be combined with a known country
  if repaired && acc.names.isEmpty then .ok fallback else
  (cstr buffer).bind fun key =>
  match scanCountry key ctryT with
  | none => .ok fallback
  | some e =>
    match acc.code with
    | none => .error .uninitialised                          -- result.languageCode was never written
    | some lc => .ok { languages := acc.names, languageCode := lc, country := e.2, countryCode := e.1, error := false }

/-- `if (!dotDelim) dotDelim = locale + strlen(locale);` -/
def dotOffset (locale : Bytes) : Nat :=
  match idxOf? dot locale with                               -- strstr(locale, ".")
  | some i => i
  | none => locale.length

def getGen (repaired : Bool) (langT ctryT : Table) (locale : Bytes) : Except Err Info :=
  match idxOf? underscore locale with                        -- strstr(locale, "_")
  | none => .ok fallback                                     -- if (delim) { … } ; fallback
  | some delim => copyAndScan repaired langT ctryT (locale ++ [0]) delim (dotOffset locale)

def getT := getGen true
/-- the model of the repaired `LocaleInfo::get` over the regenerated tables -/
def get (locale : Bytes) : Except Err Info := getT languageTable countryTable locale
/-- the code as found (finding F9) -/
def getAsFound (locale : Bytes) : Except Err Info := getGen false languageTable countryTable locale

/-! ## Specification (plain statement of C19)

Interpretive choices (also in DESIGN.md C19):
* the language part is everything before the FIRST `_`; the country part runs from there to the FIRST `.` of the
  whole string, which must not precede the `_` (no language key contains a `.`: table fact), or to the end;
  everything after that `.` is the charset and is not looked at (it may contain further `_` and `.`);
* a language key that is a CODE selects that code and ALL table names carrying it, in table order;
  a key that is a NAME selects the first entry with that name: its code and just that name (this is what the code
  does; "all table names for it" is read to be required for codes only).  Two names (`Norwegian`, `Ndebele`) occur
  under several codes; the first entry wins (`nb`, `nd`);
* a country key selects the first entry whose code or name equals it (codes and names are unique and disjoint:
  table fact).  A country NAME that contains `.` (`Virgin Islands, U.S.`) cannot be addressed by name, because its
  first `.` ends the country part; it can by code;
* every other string — no `_`, `.` before `_`, unknown or empty part, unknown language with a known country — gives
  the English / United Kingdom fallback with `error` set;
* `error` is not a table pointer (it is the documented message or null) and is outside "every pointer refers to a
  table entry".
-/

def namesOf (T : Table) (code : Bytes) : List Bytes := (T.filter (fun e => e.1 == code)).map (·.2)

/-- language key → (code, names) -/
def lookupLang (T : Table) (key : Bytes) : Option (Bytes × List Bytes) :=
  if namesOf T key ≠ [] then some (key, namesOf T key)
  else match T.find? (fun e => e.2 == key) with
    | some e => some (e.1, [key])
    | none => none

/-- country key → table entry -/
def lookupCountry (T : Table) (key : Bytes) : Option (Bytes × Bytes) :=
  T.find? (fun e => e.1 == key || e.2 == key)

def langPart (s : Bytes) : Bytes := s.takeWhile (· != underscore)
def afterUnderscore (s : Bytes) : Bytes := (s.dropWhile (· != underscore)).drop 1
def countryPart (s : Bytes) : Bytes := (afterUnderscore s).takeWhile (· != dot)

/-- both keys known: that code, those names, that country; otherwise the fallback -/
def combine : Option (Bytes × List Bytes) → Option (Bytes × Bytes) → Info
  | some l, some c => { languages := l.2, languageCode := l.1, country := c.2, countryCode := c.1, error := false }
  | _, _ => fallback

def specT (langT ctryT : Table) (s : Bytes) : Info :=
  if underscore ∈ s ∧ dot ∉ langPart s then combine (lookupLang langT (langPart s)) (lookupCountry ctryT (countryPart s))
  else fallback

def spec (s : Bytes) : Info := specT languageTable countryTable s

end Tulz.Locale
