/-
  Vocabulary of the generated capture table of tulz::Thread (C20).
  `Tulz/Generated/ThreadCaptures.lean` (written by tools/translators/thread_captures.py on every check run) is a value of
  these types; `Tulz/Model/Thread.lean` resolves the *syntactic* capture modes to what the closure field refers to.
-/
namespace Thread

/-- how the lambda's capture list covers one entity, as spelled in the source -/
inductive CapMode
  | byCopy        -- `x`, `x...`, `this`, `x = std::move(x)`
  | byRef         -- `&x`, `&x...`
  | defaultRef    -- the body uses the entity and only the capture-default `&` covers it
  | defaultCopy   -- … only the capture-default `=` covers it
  | unused        -- the body does not mention the entity (nothing is captured)
deriving DecidableEq, Repr

/-- recognised statements of the thread body -/
inductive Stmt
  | invoke        -- `ptr(std::forward<Args>(args)...)`
  | setFinished   -- `m_isFinished = true`
  | run           -- `runnable->run()`
  | delete        -- `delete runnable`
deriving DecidableEq, Repr

structure LambdaCaps where
  callable : CapMode      -- the by-value parameter `ptr` of the template start() / the pointer parameter `runnable`
  args : CapMode          -- the pack `args` (parameters of type `Args&&`, references bound to the caller's arguments)
  this : CapMode
  isMutable : Bool
  body : List Stmt
deriving DecidableEq, Repr

end Thread
