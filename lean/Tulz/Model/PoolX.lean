/-
  Transition system for tulz::ThreadPool WITH expiring workers and update() (properties C07, C08; extends Tulz/Model/Pool.lean,
  which assumes setExpiryTimeout(-1) and never calls update()).

  One owner thread executes a program of `start t | clear | stop | update | tick d` operations (`tick d` = the owner lets `d`
  milliseconds pass; besides, time may advance at any moment: environment step `SStep.envTick`).  Workers run
  `PooledRunnable::run` inside `tulz::Thread::start`'s thread function.  Granularity as in TPool: one step per `m_queueMutex` /
  `m_poolMutex` critical section, per notification, per `join`, per task-body end and per `delete`, plus one step for the
  Thread completion flag (`m_isFinished = true`, the last statement of the thread function).

    ThreadPool::start(Runnable*)   start      { m_isRunning = true; lock(queue) m_queue.emplace_back(t) }
                                   spawnYes/spawnNo   lock(pool) { if (max > m_pool.size() && getActiveThreadCount() == getThreadCount())
                                                                     new PooledThread (m_lastActiveTime = time()) … }
                                   notifyHit/notifyMiss   m_condition.notify_one()
    ThreadPool::clear()            clear      lock(queue) { delete all queued; m_queue.clear() }
    ThreadPool::stop()             stop       lock(queue) { m_isRunning = false }
                                   stopNotify m_condition.notify_all()
                                   joinOne*   lock(pool) { for thread : m_pool: thread->join(); delete thread }   (join returns once m_isFinished)
                                   joinDone   m_pool.clear(); unlock(pool)
                                   stopClear  clear()
    ThreadPool::update()           updNoop    m_expiryTimeout < 0: return
                                   updBegin   m_expiryTimeout >= 0
                                   updNotify  m_condition.notify_all()
                                   reapYes/reapNo*  lock(pool) { for it in m_pool: if (*it)->isFinished() { join; delete; erase } }
                                   reapDone   unlock(pool)
                                     (one step per visited entry: m_isFinished is not protected by m_poolMutex, so a worker may complete
                                      while the loop runs and the erased set is not a snapshot of the flags at one instant.
                                      start()'s getActiveThreadCount() loop reads the same flags, but its outcome — all clear or not —
                                      does have a linearisation point, flags only ever go from clear to set: one step)
    PooledRunnable::run (worker)   workerExit / workerTake / workerExpire / workerPark : lock(queue) { wait predicate; … }
                                     !isRunning -> return; queue non-empty -> take the front task (even if expired);
                                     queue empty and expired (timeout >= 0 && time() - last > timeout) -> return; else block (UNTIMED wait)
                                   workerRunEnd   runnable->run() returned; setLastActiveTime(time())
                                   workerDelete   delete runnable; loop
    Thread::start's lambda         workerFinish   m_isFinished = true

  The clock is read once per predicate evaluation, inside the critical section; the model reads `now` in the step of that
  section.  `passedTime > expiryTimeout` with `passedTime = time() - last` is written `T + last < now` (no truncated
  subtraction).  Core Lean only (the driver `tulzdrv` links this file).
-/
namespace TPoolX

abbrev Task := Nat

inductive OwnerOp | start (t : Task) | clear | stop | update | tick (d : Nat)
deriving DecidableEq, Repr

inductive Owner
  | idle (todo : List OwnerOp)
  | spawn (todo : List OwnerOp)            -- start(): task enqueued, pool critical section pending
  | notifyOne (todo : List OwnerOp)        -- start(): notify_one pending
  | stopNotify (todo : List OwnerOp)       -- stop(): flag cleared (under the queue mutex), notify_all pending
  | join (rem : List Nat) (todo : List OwnerOp)   -- stop(): joining the pool's threads in order
  | clearQ (todo : List OwnerOp)           -- stop(): pool emptied, clear() pending
  | updNotify (todo : List OwnerOp)        -- update(): timeout >= 0, notify_all pending
  | updReap (rem : List Nat) (todo : List OwnerOp)   -- update(): inside the pool critical section, entries still to visit
deriving DecidableEq, Repr

inductive Pc
  | check                                  -- about to take m_queueMutex and evaluate the wait predicate
  | parked (notified : Bool)               -- blocked in m_condition.wait (`true`: a notification is pending)
  | running (t : Task)                     -- inside runnable->run()
  | ran (t : Task)                         -- run() returned, `delete runnable` pending
  | exited                                 -- left PooledRunnable::run, m_isFinished still false
  | finished                               -- m_isFinished = true (join returns only now)
deriving DecidableEq, Repr

structure Wk where
  pc : Pc
  last : Nat                               -- m_lastActiveTime
deriving DecidableEq, Repr

structure State where
  queue : List Task
  running : Bool                           -- m_isRunning
  pool : List Nat                          -- m_pool, as indices into ws
  ws : List Wk                             -- every worker thread ever spawned
  owner : Owner
  max : Nat                                -- m_maxThreadCount
  timeout : Option Nat                     -- m_expiryTimeout (none: negative)
  now : Nat                                -- the clock, milliseconds
  submitted : List Task
  runs : List Task
  finished : List Task
  destroyed : List Task
  dropped : List Task
  stopped : Bool
deriving DecidableEq, Repr

def Pc.awake : Pc → Bool
  | .check => true
  | .parked true => true
  | _ => false

def Pc.isFinished : Pc → Bool
  | .finished => true
  | _ => false

def wakePc : Pc → Pc
  | .parked _ => .parked true
  | p => p

def wakeAll (w : Wk) : Wk := { w with pc := wakePc w.pc }

/-- Thread::isFinished() of pool entry `i` -/
def isFin (ws : List Wk) (i : Nat) : Bool :=
  match ws[i]? with
  | some w => w.pc.isFinished
  | none => false

def notFin (ws : List Wk) (i : Nat) : Bool := !isFin ws i

/-- the pool entries other than `i` (std::list::erase of the entry `i`) -/
def isNot (i : Nat) (j : Nat) : Bool := j != i

/-- getActiveThreadCount(): pool threads with isRunning() = !m_isFinished -/
def activeCount (s : State) : Nat := s.pool.countP (notFin s.ws)

/-- the spawn test of start() -/
def spawnOk (s : State) : Bool := decide (s.pool.length < s.max) && (activeCount s == s.pool.length)

/-- isExpired as evaluated by worker `w` now -/
def expired (s : State) (w : Wk) : Bool :=
  match s.timeout with
  | some T => decide (T + w.last < s.now)
  | none => false

def destroyAll (s : State) : State :=
  { s with queue := [], destroyed := s.destroyed ++ s.queue, dropped := s.dropped ++ s.queue }

inductive Step : State → State → Prop
  | start (s : State) (t todo) (ho : s.owner = .idle (.start t :: todo)) :
      Step s { s with queue := s.queue ++ [t], running := true, owner := .spawn todo,
                      submitted := s.submitted ++ [t], stopped := false }
  | spawnYes (s : State) (todo) (ho : s.owner = .spawn todo) (h : spawnOk s = true) :
      Step s { s with pool := s.pool ++ [s.ws.length], ws := s.ws ++ [⟨.check, s.now⟩], owner := .notifyOne todo }
  | spawnNo (s : State) (todo) (ho : s.owner = .spawn todo) (h : spawnOk s = false) :
      Step s { s with owner := .notifyOne todo }
  /-- the system refuses the thread: `std::thread`'s constructor throws inside `pooledThread->start(…)`; the exception leaves
      `start()` (the pool list is untouched, `notify_one` is skipped) and the owner, having caught it, goes on with its program.
      Not a step of `xstep?`: executions with a refused thread are judged by the trace monitor of the fault-injection runs. -/
  | spawnFail (s : State) (todo) (ho : s.owner = .spawn todo) (h : spawnOk s = true) :
      Step s { s with owner := .idle todo }
  | notifyHit (s : State) (todo) (w : Nat) (wk : Wk) (ho : s.owner = .notifyOne todo) (hw : s.ws[w]? = some wk)
      (hp : wk.pc = .parked false) :
      Step s { s with ws := s.ws.set w { wk with pc := .parked true }, owner := .idle todo }
  | notifyMiss (s : State) (todo) (ho : s.owner = .notifyOne todo)
      (hn : ∀ (w : Nat) (wk : Wk), s.ws[w]? = some wk → wk.pc ≠ .parked false) :
      Step s { s with owner := .idle todo }
  | clear (s : State) (todo) (ho : s.owner = .idle (.clear :: todo)) :
      Step s { destroyAll s with owner := .idle todo }
  | stop (s : State) (todo) (ho : s.owner = .idle (.stop :: todo)) :
      Step s { s with running := false, owner := .stopNotify todo }
  | stopNotify (s : State) (todo) (ho : s.owner = .stopNotify todo) :
      Step s { s with ws := s.ws.map wakeAll, owner := .join s.pool todo }
  | joinOne (s : State) (w rem todo) (ho : s.owner = .join (w :: rem) todo) (hf : isFin s.ws w = true) :
      Step s { s with owner := .join rem todo }
  | joinDone (s : State) (todo) (ho : s.owner = .join [] todo) :
      Step s { s with pool := [], owner := .clearQ todo }
  | stopClear (s : State) (todo) (ho : s.owner = .clearQ todo) :
      Step s { destroyAll s with owner := .idle todo, stopped := true }
  | updNoop (s : State) (todo) (ho : s.owner = .idle (.update :: todo)) (ht : s.timeout = none) :
      Step s { s with owner := .idle todo }
  | updBegin (s : State) (todo) (T : Nat) (ho : s.owner = .idle (.update :: todo)) (ht : s.timeout = some T) :
      Step s { s with owner := .updNotify todo }
  | updNotify (s : State) (todo) (ho : s.owner = .updNotify todo) :
      Step s { s with ws := s.ws.map wakeAll, owner := .updReap s.pool todo }
  | reapYes (s : State) (i rem todo) (ho : s.owner = .updReap (i :: rem) todo) (hf : isFin s.ws i = true) :
      Step s { s with pool := s.pool.filter (isNot i), owner := .updReap rem todo }
  | reapNo (s : State) (i rem todo) (ho : s.owner = .updReap (i :: rem) todo) (hf : isFin s.ws i = false) :
      Step s { s with owner := .updReap rem todo }
  | reapDone (s : State) (todo) (ho : s.owner = .updReap [] todo) :
      Step s { s with owner := .idle todo }
  | tick (s : State) (d todo) (ho : s.owner = .idle (.tick d :: todo)) :
      Step s { s with now := s.now + d, owner := .idle todo }
  | workerExit (s : State) (w : Nat) (wk : Wk) (hw : s.ws[w]? = some wk) (ha : wk.pc.awake = true) (hr : s.running = false) :
      Step s { s with ws := s.ws.set w { wk with pc := .exited } }
  | workerTake (s : State) (w : Nat) (wk : Wk) (t q) (hw : s.ws[w]? = some wk) (ha : wk.pc.awake = true) (hr : s.running = true)
      (hq : s.queue = t :: q) :
      Step s { s with queue := q, ws := s.ws.set w { wk with pc := .running t }, runs := s.runs ++ [t] }
  | workerExpire (s : State) (w : Nat) (wk : Wk) (hw : s.ws[w]? = some wk) (ha : wk.pc.awake = true) (hr : s.running = true)
      (hq : s.queue = []) (he : expired s wk = true) :
      Step s { s with ws := s.ws.set w { wk with pc := .exited } }
  | workerPark (s : State) (w : Nat) (wk : Wk) (hw : s.ws[w]? = some wk) (ha : wk.pc.awake = true) (hr : s.running = true)
      (hq : s.queue = []) (he : expired s wk = false) :
      Step s { s with ws := s.ws.set w { wk with pc := .parked false } }
  | workerRunEnd (s : State) (w : Nat) (wk : Wk) (t) (hw : s.ws[w]? = some wk) (hp : wk.pc = .running t) :
      Step s { s with ws := s.ws.set w ⟨.ran t, s.now⟩, finished := s.finished ++ [t] }
  | workerDelete (s : State) (w : Nat) (wk : Wk) (t) (hw : s.ws[w]? = some wk) (hp : wk.pc = .ran t) :
      Step s { s with ws := s.ws.set w { wk with pc := .check }, destroyed := s.destroyed ++ [t] }
  | workerFinish (s : State) (w : Nat) (wk : Wk) (hw : s.ws[w]? = some wk) (hp : wk.pc = .exited) :
      Step s { s with ws := s.ws.set w { wk with pc := .finished } }

/-- the code's steps plus the environment: spurious wake-ups of parked workers, and time passing at any moment -/
inductive SStep : State → State → Prop
  | code {s t} : Step s t → SStep s t
  | spurious (s : State) (w : Nat) (wk : Wk) (hw : s.ws[w]? = some wk) (hp : wk.pc = .parked false) :
      SStep s { s with ws := s.ws.set w { wk with pc := .parked true } }
  | envTick (s : State) (d : Nat) : SStep s { s with now := s.now + d }

def init (max : Nat) (timeout : Option Nat) (prog : List OwnerOp) : State :=
  { queue := [], running := true, pool := [], ws := [], owner := .idle prog, max := max, timeout := timeout, now := 0,
    submitted := [], runs := [], finished := [], destroyed := [], dropped := [], stopped := false }

inductive Reach (max : Nat) (timeout : Option Nat) (prog : List OwnerOp) : State → Prop
  | init : Reach max timeout prog (init max timeout prog)
  | step {s t} : Reach max timeout prog s → SStep s t → Reach max timeout prog t

theorem Reach.code {max timeout prog s t} (h : Reach max timeout prog s) (hs : Step s t) : Reach max timeout prog t :=
  Reach.step h (SStep.code hs)

/-! ### executable step function (what the driver runs) -/

inductive Label
  | owner (woken : Option Nat)             -- `some w` only for a notify_one that wakes worker `w`
  | worker (w : Nat)
deriving DecidableEq, Repr

def asleep (w : Wk) : Bool := w.pc == .parked false

def noneAsleep (ws : List Wk) : Bool := ws.all fun w => !asleep w

def ownerStep? (s : State) (woken : Option Nat) : Option State :=
  match s.owner, woken with
  | .idle (.start t :: todo), none =>
      some { s with queue := s.queue ++ [t], running := true, owner := .spawn todo,
                    submitted := s.submitted ++ [t], stopped := false }
  | .idle (.clear :: todo), none => some { destroyAll s with owner := .idle todo }
  | .idle (.stop :: todo), none => some { s with running := false, owner := .stopNotify todo }
  | .idle (.update :: todo), none =>
      (match s.timeout with
       | none => some { s with owner := .idle todo }
       | some _ => some { s with owner := .updNotify todo })
  | .idle (.tick d :: todo), none => some { s with now := s.now + d, owner := .idle todo }
  | .spawn todo, none =>
      if spawnOk s = true then
        some { s with pool := s.pool ++ [s.ws.length], ws := s.ws ++ [⟨.check, s.now⟩], owner := .notifyOne todo }
      else some { s with owner := .notifyOne todo }
  | .notifyOne todo, some w =>
      (match s.ws[w]? with
       | some wk => if wk.pc = .parked false then some { s with ws := s.ws.set w { wk with pc := .parked true }, owner := .idle todo }
                    else none
       | none => none)
  | .notifyOne todo, none => if noneAsleep s.ws = true then some { s with owner := .idle todo } else none
  | .stopNotify todo, none => some { s with ws := s.ws.map wakeAll, owner := .join s.pool todo }
  | .join (w :: rem) todo, none => if isFin s.ws w = true then some { s with owner := .join rem todo } else none
  | .join [] todo, none => some { s with pool := [], owner := .clearQ todo }
  | .clearQ todo, none => some { destroyAll s with owner := .idle todo, stopped := true }
  | .updNotify todo, none => some { s with ws := s.ws.map wakeAll, owner := .updReap s.pool todo }
  | .updReap (i :: rem) todo, none =>
      if isFin s.ws i = true then some { s with pool := s.pool.filter (isNot i), owner := .updReap rem todo }
      else some { s with owner := .updReap rem todo }
  | .updReap [] todo, none => some { s with owner := .idle todo }
  | _, _ => none

/-- the critical section of an awake worker: wait predicate and what follows it -/
def awakeStep (s : State) (w : Nat) (wk : Wk) : State :=
  if s.running = false then { s with ws := s.ws.set w { wk with pc := .exited } }
  else match s.queue with
    | t :: q => { s with queue := q, ws := s.ws.set w { wk with pc := .running t }, runs := s.runs ++ [t] }
    | [] => if expired s wk = true then { s with ws := s.ws.set w { wk with pc := .exited } }
            else { s with ws := s.ws.set w { wk with pc := .parked false } }

def workerStep? (s : State) (w : Nat) : Option State :=
  match s.ws[w]? with
  | none => none
  | some wk =>
    match wk.pc with
    | .check => some (awakeStep s w wk)
    | .parked true => some (awakeStep s w wk)
    | .parked false => none
    | .running t => some { s with ws := s.ws.set w ⟨.ran t, s.now⟩, finished := s.finished ++ [t] }
    | .ran t => some { s with ws := s.ws.set w { wk with pc := .check }, destroyed := s.destroyed ++ [t] }
    | .exited => some { s with ws := s.ws.set w { wk with pc := .finished } }
    | .finished => none

def xstep? (s : State) : Label → Option State
  | .owner woken => ownerStep? s woken
  | .worker w => workerStep? s w

/-- replay of a label sequence -/
def xrun? (s : State) : List Label → Option State
  | [] => some s
  | l :: ls => match xstep? s l with
    | some t => xrun? t ls
    | none => none

end TPoolX
