/-
  Model of `tulz::Subject<Args...>`, `Subscription<Args...>`, `Observer<Args...>` /
  `EternalObserver<Args...>` (include/tulz/observer/{Subject,Subscription,Observer,EternalObserver}.h),
  transcribed member by member.  It is a model of the REPAIRED `Subject` (finding F4,
  repairs/F4.patch): observers removed while a notification is in progress are parked in
  `grave` (`m_removedObservers`) and destroyed when the outermost `notify` returns, and the
  post-call `observer->isValid()` is preceded by a re-check of the subscription id.

  * An observer object is an `Obs`; it is *owned* by the list that contains it (`obs` =
    `m_observers`, newest first exactly as `emplace_front` leaves it; `grave`).  A raw
    `Observer*` is the observer's subscription id.  Every dereference of such a pointer is
    an explicit `Ev.touch id` event in `trace` and every destruction an `Ev.free id` event;
    a dereference that finds no object sets `ub` (the C++ would be undefined).
  * Callbacks are `script`s (lists of `Action`) interpreted by `act`; `Action.notify`
    re-enters `notify` with one unit of `fuel` less (fuel = bound on the nesting depth that
    the harness enforces the same way).  Scripts of observers subscribed from inside a
    callback come from a library `lib : Nat → List Action` (this avoids a nested inductive;
    any finite family of scripts can be put into `lib`).
  * `α` is the argument pack passed to `notify` (one Lean value stands for "none / by value /
    by const reference / several arguments").
  * Unbounded `Nat`: the 32-bit wrap of `m_subscriptionCounter` is not modelled;
    `InvalidSubscriptionId` is `none`.
-/
namespace Tulz.Subject

/-- what a callback may do (executed inside `m_func` of observer `self` of subject `this`) -/
inductive Action where
  /-- `handles.push_back(subject.subscribe(observer running script lib k, Params{m0}))` -/
  | sub (k : Nat) (m0 : Bool)
  /-- `try { subject.unsubscribe(handles[h]); } catch (std::invalid_argument&) {…}` -/
  | unsubS (h : Nat)
  /-- `if (handles[h].getSubject() == &subject) try { handles[h].unsubscribe(); } catch …` -/
  | unsubH (h : Nat)
  /-- `if (subject.isSubscriptionValid(handles[h])) handles[h].mute();` -/
  | mute (h : Nat)
  | unmute (h : Nat)
  /-- `if (subject.isSubscriptionValid(handles[h])) handles[h].getObserver()->invalidate();` -/
  | inval (h : Nat)
  /-- `self->mute()` through `SelfView` -/
  | muteSelf
  /-- `self->invalidate()` through `SelfView` -/
  | invalSelf
  /-- `subject.notify(args...)` (ignored when the nesting bound is reached) -/
  | notify
deriving DecidableEq, Repr, Inhabited

/-- an observer object: `EternalObserver::m_isValid`, `Observer::m_params.mute`, `m_func` -/
structure Obs where
  id : Nat
  valid : Bool
  muted : Bool
  script : List Action
deriving DecidableEq, Repr

/-- `Subscription{m_id, m_subject, m_observer}`; `none` = `InvalidSubscriptionId` / `nullptr` -/
structure Handle where
  id : Option Nat
  subj : Option Nat
  obs : Option Nat
deriving DecidableEq, Repr

/-- default-constructed / cleared subscription -/
def Handle.null : Handle := ⟨none, none, none⟩

inductive Ev (α : Type) where
  /-- dereference of the observer object `id` -/
  | touch (id : Nat)
  /-- destruction of the observer object `id` -/
  | free (id : Nat)
  /-- `m_func(args...)` of observer `id` starts (the call log) -/
  | enter (id : Nat) (a : α)
  /-- … and returns -/
  | exit (id : Nat)
  /-- a callback caught `std::invalid_argument` -/
  | caught
deriving DecidableEq, Repr

/-- one `Subject` (fields `sid … depth`) together with the table of subscription handles the
    program holds, the event trace and the undefined-behaviour flag -/
structure World (α : Type) where
  sid : Nat
  /-- `m_observers` (newest first) -/
  obs : List Obs := []
  /-- `m_activeSubscriptions` -/
  active : List Nat := []
  /-- `m_subscriptionCounter` -/
  counter : Nat := 0
  /-- `m_removedObservers` (repair of F4) -/
  grave : List Obs := []
  /-- `m_notifyDepth` (repair of F4) -/
  depth : Nat := 0
  handles : List Handle := []
  trace : List (Ev α) := []
  ub : Bool := false

variable {α : Type}

def ids (l : List Obs) : List Nat := l.map (·.id)

/-- observers in subscription order (what `notify` walks: `cachedDetails` reverses `m_observers`) -/
def World.order (w : World α) : List Obs := w.obs.reverse

/-- ids of the observer objects that exist -/
def World.alive (w : World α) : List Nat := ids w.obs ++ ids w.grave

def World.emit (w : World α) (e : Ev α) : World α := { w with trace := w.trace ++ [e] }

/-- the object a raw `Observer*` points to, if it still exists -/
def World.lookup (w : World α) (p : Nat) : Option Obs := (w.obs ++ w.grave).find? (fun o => o.id == p)

def modify (p : Nat) (f : Obs → Obs) (l : List Obs) : List Obs :=
  l.map (fun o => if o.id == p then f o else o)

def setMuted (b : Bool) (o : Obs) : Obs := { o with muted := b }
def setInvalid (o : Obs) : Obs := { o with valid := false }

/-- a member call that writes through a raw `Observer*` (`mute`, `unmute`, `invalidate`) -/
def World.poke (w : World α) (p : Nat) (f : Obs → Obs) : World α :=
  let w := w.emit (.touch p)
  match w.lookup p with
  | none => { w with ub := true }
  | some _ => { w with obs := modify p f w.obs, grave := modify p f w.grave }

/-- `std::set::emplace` -/
def insertSet (i : Nat) (l : List Nat) : List Nat := if i ∈ l then l else i :: l
/-- `std::set::erase(key)` -/
def eraseSet (i : Nat) (l : List Nat) : List Nat := l.filter (· != i)

/-- `Subject::isSubscriptionValid`, returning the id when it holds -/
def World.validId? (w : World α) (h : Handle) : Option Nat :=
  if h.subj = some w.sid then
    match h.id with
    | some i => if i ∈ w.active then some i else none
    | none => none
  else none

def World.isSubscriptionValid (w : World α) (h : Handle) : Bool := (w.validId? h).isSome

/-- `Subject::subscribe` (Subject.h:24-28); the observer comes with `Params{m0}` -/
def World.subscribe (w : World α) (script : List Action) (m0 : Bool) : World α × Handle :=
  ({ w with obs := ⟨w.counter, true, m0, script⟩ :: w.obs,
            active := insertSet w.counter w.active,
            counter := w.counter + 1 },
   ⟨some w.counter, some w.sid, some w.counter⟩)

/-- `Subject::unsubscribeById` (repaired): the node is spliced into `m_removedObservers` while
    a notification is in progress and erased (observer destroyed) otherwise -/
def World.unsubscribeById (w : World α) (i : Nat) : World α :=
  match w.obs.find? (fun o => o.id == i) with
  | none => { w with active := eraseSet i w.active }
  | some o =>
    if 0 < w.depth then
      { w with obs := w.obs.eraseP (fun o => o.id == i), grave := o :: w.grave, active := eraseSet i w.active }
    else
      ({ w with obs := w.obs.eraseP (fun o => o.id == i), active := eraseSet i w.active }).emit (.free o.id)

/-- `Subject::unsubscribe(Subscription&)` (Subject.h:30-39): `none` = `std::invalid_argument`
    thrown, nothing changed; otherwise the new state and the cleared handle -/
def World.unsubscribe (w : World α) (h : Handle) : Option (World α × Handle) :=
  match w.validId? h with
  | none => none
  | some i => some (w.unsubscribeById i, Handle.null)

/-- `handles.push_back(subject.subscribe(…))` -/
def World.subscribeSlot (w : World α) (script : List Action) (m0 : Bool) : World α :=
  let r := w.subscribe script m0
  { r.1 with handles := r.1.handles ++ [r.2] }

/-- `subject.unsubscribe(handles[hi])`; the `Bool` says whether it threw -/
def World.unsubSlot (w : World α) (hi : Nat) : World α × Bool :=
  match w.handles[hi]? with
  | none => (w, false)
  | some h =>
    match w.unsubscribe h with
    | none => (w, true)
    | some r => ({ r.1 with handles := r.1.handles.set hi r.2 }, false)

/-- guarded write through `handles[hi].m_observer` (guard: `subject.isSubscriptionValid(handles[hi])`) -/
def World.pokeSlot (w : World α) (hi : Nat) (f : Obs → Obs) : World α :=
  match w.handles[hi]? with
  | none => w
  | some h =>
    match w.validId? h, h.obs with
    | some _, some p => w.poke p f
    | _, _ => w

section notify
variable (lib : Nat → List Action)

/-- one action of the callback of observer `self`, called with `a`; `inner` is `notify` one level deeper -/
def act (inner : World α → α → World α) (self : Nat) (a : α) (w : World α) : Action → World α
  | .sub k m0 => w.subscribeSlot (lib k) m0
  | .unsubS hi =>
    let r := w.unsubSlot hi
    if r.2 then r.1.emit .caught else r.1
  | .unsubH hi =>
    match w.handles[hi]? with
    | none => w
    | some h =>
      if h.subj = some w.sid then
        let r := w.unsubSlot hi
        if r.2 then r.1.emit .caught else r.1
      else w
  | .mute hi => w.pokeSlot hi (setMuted true)
  | .unmute hi => w.pokeSlot hi (setMuted false)
  | .inval hi => w.pokeSlot hi setInvalid
  | .muteSelf => w.poke self (setMuted true)
  | .invalSelf => w.poke self setInvalid
  | .notify => inner w a

def runScript (inner : World α → α → World α) (self : Nat) (a : α) (w : World α) (script : List Action) : World α :=
  script.foldl (act lib inner self a) w

/-- `(*observer)(args...)`: `Observer::operator()` (Observer.h:50-54) through the cached raw pointer -/
def invoke (inner : World α → α → World α) (w : World α) (i : Nat) (a : α) : World α :=
  let w := w.emit (.touch i)
  match w.lookup i with
  | none => { w with ub := true }
  | some o =>
    if !o.muted && o.valid then
      (runScript lib inner i a (w.emit (.enter i a)) o.script).emit (.exit i)
    else w

/-- `if (isSubscriptionIdValid(subscriptionId) && !observer->isValid()) unsubscribeById(subscriptionId);`
    (Subject.h:56-58 repaired: the observer may have been unsubscribed by its own callback) -/
def reap (w : World α) (i : Nat) : World α :=
  if i ∈ w.active then
    let w := w.emit (.touch i)
    match w.lookup i with
    | none => { w with ub := true }
    | some o => if !o.valid then w.unsubscribeById i else w
  else w

/-- the body of the loop of `notify` for one snapshot entry whose id is still active -/
def callOne (inner : World α → α → World α) (w : World α) (i : Nat) (a : α) : World α :=
  reap (invoke lib inner w i a) i

/-- one snapshot entry: `if (isSubscriptionIdValid(subscriptionId)) { … }` -/
def turn (inner : World α → α → World α) (w : World α) (i : Nat) (a : α) : World α :=
  if i ∈ w.active then callOne lib inner w i a else w

/-- the loop over `cachedDetails` -/
def round (inner : World α → α → World α) : List Nat → World α → α → World α
  | [], w, _ => w
  | i :: is, w, a => round inner is (turn lib inner w i a) a

/-- `m_removedObservers.clear()` -/
def World.clearGrave (w : World α) : World α :=
  { w with grave := [], trace := w.trace ++ (ids w.grave).map Ev.free }

/-- `cachedDetails`: the ids in subscription order -/
def World.snapshot (w : World α) : List Nat := ids w.obs.reverse

/-- `Subject::notify` with the nested `notify` given -/
def notifyWith (inner : World α → α → World α) (w : World α) (a : α) : World α :=
  let snap := w.snapshot
  let w1 : World α := { w with depth := w.depth + 1 }
  let w2 := round lib inner snap w1 a
  let w3 : World α := { w2 with depth := w2.depth - 1 }
  if w3.depth = 0 then w3.clearGrave else w3

/-- `Subject::notify(args...)`; `fuel` = how many further levels of nested `notify` callbacks may open -/
def notify : Nat → World α → α → World α
  | 0 => notifyWith lib (fun w _ => w)
  | f + 1 => notifyWith lib (notify f)

end notify

/-! ### handle queries and moves (Subscription.h) -/

/-- `Subscription::isValid()` -/
def World.handleValid (w : World α) (h : Handle) : Bool :=
  h.subj.isSome && w.isSubscriptionValid h

/-- `Subscription::isMuted()`; `none` when the observer pointer is null or dangling (undefined in C++) -/
def World.handleMuted (w : World α) (h : Handle) : Option Bool :=
  match h.obs with
  | none => none
  | some p => (w.lookup p).map (·.muted)

/-- `handles[dst] = std::move(handles[src])`: the three members are swapped; self-move is a no-op -/
def moveHandle (hs : List Handle) (dst src : Nat) : List Handle :=
  match hs[dst]?, hs[src]? with
  | some d, some s => if dst = src then hs else (hs.set dst s).set src d
  | _, _ => hs

/-- `handles.push_back(Subscription(std::move(handles[src])))`: default-construct, then swap -/
def moveHandleNew (hs : List Handle) (src : Nat) : List Handle :=
  match hs[src]? with
  | some s => hs.set src Handle.null ++ [s]
  | none => hs

/-! ### top-level operations on one subject (what a history consists of) -/

inductive Op (α : Type) where
  | sub (script : List Action) (m0 : Bool)
  | unsubS (hi : Nat)
  | unsubH (hi : Nat)
  | mute (hi : Nat)
  | unmute (hi : Nat)
  | inval (hi : Nat)
  | hmove (dst src : Nat)
  | hmoveNew (src : Nat)
  | notify (fuel : Nat) (a : α)

inductive Res where
  | ok
  /-- `std::invalid_argument` was thrown; the state is unchanged -/
  | invalidArg
  /-- the operation is outside the valid histories (null / dangling dereference in C++); not executed -/
  | precond
deriving DecidableEq, Repr

/-- top-level guarded write through a handle: requires `handles[hi].isValid()` -/
def World.pokeTop (w : World α) (hi : Nat) (f : Obs → Obs) : World α × Res :=
  match w.handles[hi]? with
  | none => (w, .precond)
  | some h =>
    match w.validId? h, h.obs with
    | some _, some p => (w.poke p f, .ok)
    | _, _ => (w, .precond)

def step (lib : Nat → List Action) (w : World α) : Op α → World α × Res
  | .sub script m0 => (w.subscribeSlot script m0, .ok)
  | .unsubS hi =>
    match w.handles[hi]? with
    | none => (w, .precond)
    | some _ => let r := w.unsubSlot hi; (r.1, if r.2 then .invalidArg else .ok)
  | .unsubH hi =>
    -- `handles[hi].unsubscribe()` = `m_subject->unsubscribe(*this)`: needs a non-null subject, and it must be this one
    match w.handles[hi]? with
    | none => (w, .precond)
    | some h =>
      if h.subj = some w.sid then let r := w.unsubSlot hi; (r.1, if r.2 then .invalidArg else .ok)
      else (w, .precond)
  | .mute hi => w.pokeTop hi (setMuted true)
  | .unmute hi => w.pokeTop hi (setMuted false)
  | .inval hi => w.pokeTop hi setInvalid
  | .hmove dst src => ({ w with handles := moveHandle w.handles dst src }, .ok)
  | .hmoveNew src => ({ w with handles := moveHandleNew w.handles src }, .ok)
  | .notify fuel a => (notify lib fuel w a, .ok)

def run (lib : Nat → List Action) (w : World α) (ops : List (Op α)) : World α :=
  ops.foldl (fun w op => (step lib w op).1) w

/-- `~Subject()`: both lists are destroyed -/
def World.destroy (w : World α) : World α :=
  { w with obs := [], grave := [], active := [],
           trace := w.trace ++ (ids w.obs).map Ev.free ++ (ids w.grave).map Ev.free }

/-! ### the memory-safety monitor (how C10 reads a trace) -/

structure Mon where
  freed : List Nat := []
  stack : List Nat := []
deriving DecidableEq, Repr

/-- `none` = violation: use after destruction, double destruction, destruction of an observer whose
    callback is running, unbalanced call -/
def Mon.step (m : Mon) : Ev α → Option Mon
  | .touch i => if i ∈ m.freed then none else some m
  | .enter i _ => if i ∈ m.freed then none else some { m with stack := i :: m.stack }
  | .exit i =>
    match m.stack with
    | j :: st => if i = j ∧ i ∉ m.freed then some { m with stack := st } else none
    | [] => none
  | .free i => if i ∈ m.freed ∨ i ∈ m.stack then none else some { m with freed := i :: m.freed }
  | .caught => some m

def Mon.run (m : Mon) : List (Ev α) → Option Mon
  | [] => some m
  | e :: es => match m.step e with
    | none => none
    | some m' => m'.run es

/-- the call log: `(observer, argument)` for every callback invocation, in order -/
def calls : List (Ev α) → List (Nat × α)
  | [] => []
  | .enter i a :: es => (i, a) :: calls es
  | _ :: es => calls es

/-- the events appended to the trace between `w` and `w'` -/
def evsSince (w w' : World α) : List (Ev α) := w'.trace.drop w.trace.length

end Tulz.Subject
