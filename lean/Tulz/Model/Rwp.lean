namespace Rwp

inductive Kind | read | write
deriving DecidableEq, Repr

inductive Act | none | read | write
deriving DecidableEq, Repr

def Kind.act : Kind → Act
  | .read => .read
  | .write => .write

structure QE where
  kind : Kind
  ub : Nat
deriving DecidableEq, Repr

structure Sh where
  queue : List QE
  act : Act
  count : Nat
  idc : Nat
  bound : Nat
deriving Repr

/-- `Resource::enqueue`, called after `m_idCounter++` (so `s.idc` is already the new value). -/
def enqueue (s : Sh) (k : Kind) : Sh :=
  match k with
  | .write => { s with queue := s.queue ++ [⟨.write, s.idc⟩] }
  | .read =>
    match s.queue.getLast? with
    | none => { s with queue := [⟨.read, s.idc⟩] }
    | some e =>
      if e.kind = .read then { s with queue := s.queue.dropLast ++ [⟨.read, s.idc⟩] }
      else { s with queue := s.queue ++ [⟨.read, s.idc⟩] }

/-- `Resource::select` (fixed code: holders of the admitted entry are counted at admission). -/
def select (s : Sh) : Sh :=
  match s.queue with
  | [] => { s with act := .none, idc := 0, bound := 0 }
  | e :: q => { s with queue := q, act := e.kind.act, count := e.ub - s.bound, bound := e.ub }

inductive Pc
  | idle
  | waiting (k : Kind) (id : Nat) (notified : Bool)
  | holding (k : Kind)
  | notifying
deriving DecidableEq, Repr

structure State where
  sh : Sh
  ths : List Pc
deriving Repr

def fast (s : Sh) (k : Kind) : Bool :=
  s.queue.isEmpty && (s.act == .none || (s.act == .read && k == .read))

/-- `m_cv.notify_all()`: every parked thread gets a pending notification. -/
def wakeAll : Pc → Pc
  | .waiting k id _ => .waiting k id true
  | p => p

inductive Step : State → State → Prop
  | callFast (s : State) (i : Nat) (k : Kind) (hi : s.ths[i]? = some .idle) (hf : fast s.sh k = true) :
      Step s { sh := { s.sh with act := k.act, count := s.sh.count + 1 }, ths := s.ths.set i (.holding k) }
  | callSlow (s : State) (i : Nat) (k : Kind) (hi : s.ths[i]? = some .idle) (hf : fast s.sh k = false) :
      Step s { sh := enqueue { s.sh with idc := s.sh.idc + 1 } k, ths := s.ths.set i (.waiting k s.sh.idc false) }
  | wakeOk (s : State) (i : Nat) (k : Kind) (id : Nat) (n : Bool) (hi : s.ths[i]? = some (.waiting k id n))
      (h : id < s.sh.bound) : Step s { s with ths := s.ths.set i (.holding k) }
  | wakeNo (s : State) (i : Nat) (k : Kind) (id : Nat) (n : Bool) (hi : s.ths[i]? = some (.waiting k id n))
      (h : ¬ id < s.sh.bound) : Step s { s with ths := s.ths.set i (.waiting k id false) }
  | unlockLast (s : State) (i : Nat) (k : Kind) (hi : s.ths[i]? = some (.holding k)) (h : s.sh.count - 1 = 0) :
      Step s { sh := select { s.sh with count := s.sh.count - 1 }, ths := s.ths.set i .notifying }
  | unlockMore (s : State) (i : Nat) (k : Kind) (hi : s.ths[i]? = some (.holding k)) (h : s.sh.count - 1 ≠ 0) :
      Step s { sh := { s.sh with count := s.sh.count - 1 }, ths := s.ths.set i .idle }
  | notify (s : State) (i : Nat) (hi : s.ths[i]? = some .notifying) :
      Step s { s with ths := (s.ths.set i .idle).map wakeAll }

def init (n : Nat) : State := { sh := ⟨[], .none, 0, 0, 0⟩, ths := List.replicate n .idle }

inductive Reach (n : Nat) : State → Prop
  | init : Reach n (init n)
  | step {s t} : Reach n s → Step s t → Reach n t

/-! ### classification of threads -/
def Pc.inside (bound : Nat) : Pc → Bool          -- will call unlock: holding or admitted-asleep
  | .holding _ => true
  | .waiting _ id _ => id < bound
  | _ => false

def Pc.kind? : Pc → Option Kind
  | .holding k => some k
  | .waiting k _ _ => some k
  | _ => none

def Pc.ticket? (bound : Nat) : Pc → Option Nat     -- pending (unadmitted) ticket
  | .waiting _ id _ => if bound ≤ id then some id else none
  | _ => none


/-! ## Extended system: per-thread programs (finite lists of lock/unlock pairs) -/

structure XState where
  base : State
  progs : List (List Kind)          -- remaining lock/unlock pairs of every thread

/-- non-spurious steps of the extended system (a parked thread moves only when it was notified) -/
inductive XStep : XState → XState → Prop
  | callFast (x : XState) (i k rest) (hp : x.progs[i]? = some (k :: rest)) (hi : x.base.ths[i]? = some .idle)
      (hf : fast x.base.sh k = true) :
      XStep x ⟨{ sh := { x.base.sh with act := k.act, count := x.base.sh.count + 1 }, ths := x.base.ths.set i (.holding k) },
               x.progs.set i rest⟩
  | callSlow (x : XState) (i k rest) (hp : x.progs[i]? = some (k :: rest)) (hi : x.base.ths[i]? = some .idle)
      (hf : fast x.base.sh k = false) :
      XStep x ⟨{ sh := enqueue { x.base.sh with idc := x.base.sh.idc + 1 } k,
                 ths := x.base.ths.set i (.waiting k x.base.sh.idc false) }, x.progs.set i rest⟩
  | wakeOk (x : XState) (i k id) (hi : x.base.ths[i]? = some (.waiting k id true)) (h : id < x.base.sh.bound) :
      XStep x ⟨{ x.base with ths := x.base.ths.set i (.holding k) }, x.progs⟩
  | wakeNo (x : XState) (i k id) (hi : x.base.ths[i]? = some (.waiting k id true)) (h : ¬ id < x.base.sh.bound) :
      XStep x ⟨{ x.base with ths := x.base.ths.set i (.waiting k id false) }, x.progs⟩
  | unlockLast (x : XState) (i k) (hi : x.base.ths[i]? = some (.holding k)) (h : x.base.sh.count - 1 = 0) :
      XStep x ⟨{ sh := select { x.base.sh with count := x.base.sh.count - 1 }, ths := x.base.ths.set i .notifying }, x.progs⟩
  | unlockMore (x : XState) (i k) (hi : x.base.ths[i]? = some (.holding k)) (h : x.base.sh.count - 1 ≠ 0) :
      XStep x ⟨{ sh := { x.base.sh with count := x.base.sh.count - 1 }, ths := x.base.ths.set i .idle }, x.progs⟩
  | notify (x : XState) (i) (hi : x.base.ths[i]? = some .notifying) :
      XStep x ⟨{ x.base with ths := (x.base.ths.set i .idle).map wakeAll }, x.progs⟩


def xinit (ps : List (List Kind)) : XState := ⟨init ps.length, ps⟩

inductive XReach (ps : List (List Kind)) : XState → Prop
  | init : XReach ps (xinit ps)
  | step {x y} : XReach ps x → XStep x y → XReach ps y


/-! ### executable step function (what the driver runs): the step of thread `i` is determined by its
    program counter and the shared state -/

def xstep? (x : XState) (i : Nat) : Option XState :=
  match x.base.ths[i]? with
  | some .idle =>
    match x.progs[i]? with
    | some (k :: rest) =>
      if fast x.base.sh k then
        some ⟨{ sh := { x.base.sh with act := k.act, count := x.base.sh.count + 1 }, ths := x.base.ths.set i (.holding k) },
              x.progs.set i rest⟩
      else
        some ⟨{ sh := enqueue { x.base.sh with idc := x.base.sh.idc + 1 } k,
                ths := x.base.ths.set i (.waiting k x.base.sh.idc false) }, x.progs.set i rest⟩
    | _ => none
  | some (.waiting k id true) =>
    if id < x.base.sh.bound then some ⟨{ x.base with ths := x.base.ths.set i (.holding k) }, x.progs⟩
    else some ⟨{ x.base with ths := x.base.ths.set i (.waiting k id false) }, x.progs⟩
  | some (.holding _) =>
    if x.base.sh.count - 1 = 0 then
      some ⟨{ sh := select { x.base.sh with count := x.base.sh.count - 1 }, ths := x.base.ths.set i .notifying }, x.progs⟩
    else
      some ⟨{ sh := { x.base.sh with count := x.base.sh.count - 1 }, ths := x.base.ths.set i .idle }, x.progs⟩
  | some .notifying => some ⟨{ x.base with ths := (x.base.ths.set i .idle).map wakeAll }, x.progs⟩
  | _ => none


end Rwp
