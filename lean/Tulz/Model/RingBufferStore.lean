import Tulz.Model.RingBuffer
/-
  Operation histories over several RingBuffer objects (needed for copy, move, assignment and
  comparison): a store maps object ids to `(overwrite, buffer)`.  `RbStore.step` runs one
  operation on the slot-level model, `DqStore.step` the same operation on the bounded-deque
  specification; `DqStore.valid` is the documented precondition of the operation.
-/
namespace Tulz

inductive RbOp (α : Type) where
  | new (id cap : Nat) (ow : Bool)
  | init (id : Nat) (ow : Bool) (cap : Option Nat) (vs : List α)
  | pushBack (id : Nat) (x : α)
  | pushFront (id : Nat) (x : α)
  | popBack (id : Nat)
  | popFront (id : Nat)
  | front (id : Nat)
  | back (id : Nat)
  | get (id i : Nat)
  | iter (id : Nat)
  | size (id : Nat)
  | capacity (id : Nat)
  | resize (id nc : Nat)
  | copy (dst src : Nat)        -- copy-construct a new object `dst` from `src`
  | cassign (dst src : Nat)     -- `dst = src`
  | mctor (dst src : Nat)       -- move-construct a new object `dst` from `src` (src stays, emptied)
  | massign (dst src : Nat)     -- `dst = std::move(src)`
  | eq (a b : Nat)
  | drop (id : Nat)             -- destructor
deriving Repr

inductive RbOut (α : Type) where
  | unit
  | val (v : α)
  | vals (l : List α)
  | num (n : Nat)
  | flag (b : Bool)
deriving Repr, DecidableEq

abbrev Assoc (β : Type) := List (Nat × β)

namespace Assoc
variable {β : Type}
def find (s : Assoc β) (id : Nat) : Option β := (List.find? (fun e => e.1 == id) s).map (·.2)
def put (s : Assoc β) (id : Nat) (v : β) : Assoc β :=
  match s with
  | [] => [(id, v)]
  | e :: rest => if e.1 == id then (id, v) :: rest else e :: put rest id v
def del (s : Assoc β) (id : Nat) : Assoc β := s.filter (fun e => !(e.1 == id))
end Assoc

abbrev RbStore (α : Type) := Assoc (Bool × RB α)
abbrev DqStore (α : Type) := Assoc (Bool × Deque α)

namespace RbStore
variable {α : Type} [DecidableEq α]

def need (s : RbStore α) (id : Nat) : M (Bool × RB α) :=
  match s.find id with
  | some e => pure e
  | none => throw .assertion

def fresh (s : RbStore α) (id : Nat) : M Unit :=
  match s.find id with
  | some _ => throw .assertion
  | none => pure ()

/-- one operation on the slot-level model -/
def step (s : RbStore α) : RbOp α → M (RbStore α × RbOut α)
  | .new id cap ow => do
    fresh s id
    pure (s.put id (ow, RB.new cap), .unit)
  | .init id ow cap vs => do
    fresh s id
    let b ← RB.ofList vs cap
    pure (s.put id (ow, b), .unit)
  | .pushBack id x => do
    let (ow, b) ← need s id
    let (b', r) ← b.emplaceBack ow x
    pure (s.put id (ow, b'), .val r)
  | .pushFront id x => do
    let (ow, b) ← need s id
    let (b', r) ← b.emplaceFront ow x
    pure (s.put id (ow, b'), .val r)
  | .popBack id => do
    let (ow, b) ← need s id
    let (b', r) ← b.popBack
    pure (s.put id (ow, b'), .val r)
  | .popFront id => do
    let (ow, b) ← need s id
    let (b', r) ← b.popFront
    pure (s.put id (ow, b'), .val r)
  | .front id => do
    let (_, b) ← need s id
    let r ← b.front
    pure (s, .val r)
  | .back id => do
    let (_, b) ← need s id
    let r ← b.back
    pure (s, .val r)
  | .get id i => do
    let (_, b) ← need s id
    let r ← b.get i
    pure (s, .val r)
  | .iter id => do
    let (_, b) ← need s id
    let r ← b.toList
    pure (s, .vals r)
  | .size id => do
    let (_, b) ← need s id
    pure (s, .num b.size)
  | .capacity id => do
    let (_, b) ← need s id
    pure (s, .num b.cap)
  | .resize id nc => do
    let (ow, b) ← need s id
    let (b', _) ← b.resize nc
    pure (s.put id (ow, b'), .unit)
  | .copy dst src => do
    fresh s dst
    let (ow, b) ← need s src
    let c ← RB.copyFrom b
    pure (s.put dst (ow, c), .unit)
  | .cassign dst src => do
    let (owd, d) ← need s dst
    let (_, b) ← need s src
    if dst = src then pure (s, .unit)       -- `if (this == &other) return *this;`
    else
      let c ← RB.copyAssign d b
      pure (s.put dst (owd, c), .unit)
  | .mctor dst src => do
    fresh s dst
    let (ow, b) ← need s src
    -- default-initialised members swapped with `other`
    pure ((s.put src (ow, RB.zombie)).put dst (ow, b), .unit)
  | .massign dst src => do
    let (owd, d) ← need s dst
    let (ows, b) ← need s src
    if dst = src then pure (s, .unit)
    else pure ((s.put dst (owd, b)).put src (ows, d), .unit)
  | .eq a b => do
    let (_, x) ← need s a
    let (_, y) ← need s b
    let r ← RB.eq x y
    pure (s, .flag r)
  | .drop id => do
    let (_, b) ← need s id
    let _ ← b.destroyAll
    pure (s.del id, .unit)

/-- every value currently held by an element of some buffer of the store -/
def liveVals (s : RbStore α) : List α := s.flatMap (fun e => Mem.liveVals e.2.2.data)

end RbStore

namespace DqStore
variable {α : Type} [DecidableEq α]

/-- the documented precondition of an operation, on the abstract state -/
def valid (s : DqStore α) : RbOp α → Prop
  | .new id cap _ => s.find id = none ∧ 1 ≤ cap
  | .init id _ cap vs => s.find id = none ∧ 1 ≤ vs.length ∧ (∀ c, cap = some c → vs.length ≤ c)
  | .pushBack id _ | .pushFront id _ =>
      ∃ ow d, s.find id = some (ow, d) ∧ 1 ≤ d.cap ∧ (ow = true ∨ d.items.length < d.cap)
  | .popBack id | .popFront id | .front id | .back id =>
      ∃ ow d, s.find id = some (ow, d) ∧ d.items ≠ []
  | .get id i => ∃ ow d, s.find id = some (ow, d) ∧ i < d.items.length
  | .iter id | .size id | .capacity id | .drop id => ∃ e, s.find id = some e
  | .resize id nc => ∃ ow d, s.find id = some (ow, d) ∧ 1 ≤ d.cap ∧ 1 ≤ nc
  | .copy dst src | .mctor dst src => s.find dst = none ∧ ∃ e, s.find src = some e
  | .cassign dst src | .massign dst src | .eq dst src =>
      (∃ e, s.find dst = some e) ∧ ∃ e, s.find src = some e

/-- one operation on the bounded-deque specification (only meaningful on valid operations) -/
def step (s : DqStore α) : RbOp α → DqStore α × RbOut α
  | .new id cap ow => (s.put id (ow, ⟨cap, []⟩), .unit)
  | .init id ow cap vs => (s.put id (ow, ⟨cap.getD vs.length, vs⟩), .unit)
  | .pushBack id x =>
    match s.find id with
    | some (ow, d) => (s.put id (ow, d.pushBack x), .val x)
    | none => (s, .unit)
  | .pushFront id x =>
    match s.find id with
    | some (ow, d) => (s.put id (ow, d.pushFront x), .val x)
    | none => (s, .unit)
  | .popBack id =>
    match s.find id with
    | some (ow, d) =>
      match d.items.getLast? with
      | some v => (s.put id (ow, d.popBack), .val v)
      | none => (s, .unit)
    | none => (s, .unit)
  | .popFront id =>
    match s.find id with
    | some (ow, d) =>
      match d.items.head? with
      | some v => (s.put id (ow, d.popFront), .val v)
      | none => (s, .unit)
    | none => (s, .unit)
  | .front id =>
    match s.find id with
    | some (_, d) => (s, match d.items.head? with | some v => .val v | none => .unit)
    | none => (s, .unit)
  | .back id =>
    match s.find id with
    | some (_, d) => (s, match d.items.getLast? with | some v => .val v | none => .unit)
    | none => (s, .unit)
  | .get id i =>
    match s.find id with
    | some (_, d) => (s, match d.items[i]? with | some v => .val v | none => .unit)
    | none => (s, .unit)
  | .iter id =>
    match s.find id with
    | some (_, d) => (s, .vals d.items)
    | none => (s, .unit)
  | .size id =>
    match s.find id with
    | some (_, d) => (s, .num d.items.length)
    | none => (s, .unit)
  | .capacity id =>
    match s.find id with
    | some (_, d) => (s, .num d.cap)
    | none => (s, .unit)
  | .resize id nc =>
    match s.find id with
    | some (ow, d) => (s.put id (ow, d.resize nc), .unit)
    | none => (s, .unit)
  | .copy dst src =>
    match s.find src with
    | some (ow, d) => (s.put dst (ow, d), .unit)
    | none => (s, .unit)
  | .cassign dst src =>
    match s.find dst, s.find src with
    | some (owd, _), some (_, d) =>
      if dst = src then (s, .unit) else (s.put dst (owd, d), .unit)
    | _, _ => (s, .unit)
  | .mctor dst src =>
    match s.find src with
    | some (ow, d) => ((s.put src (ow, ⟨0, []⟩)).put dst (ow, d), .unit)
    | none => (s, .unit)
  | .massign dst src =>
    match s.find dst, s.find src with
    | some (owd, dd), some (ows, ds) =>
      if dst = src then (s, .unit) else ((s.put dst (owd, ds)).put src (ows, dd), .unit)
    | _, _ => (s, .unit)
  | .eq a b =>
    match s.find a, s.find b with
    | some (_, x), some (_, y) => (s, .flag (decide (x.items = y.items)))
    | _, _ => (s, .unit)
  | .drop id => (s.del id, .unit)

/-- every value held by some deque of the store -/
def allItems (s : DqStore α) : List α := s.flatMap (fun e => e.2.2.items)

end DqStore
end Tulz

namespace Tulz
variable {α : Type} [DecidableEq α]

/-- a whole history on the slot-level model: fails as soon as one operation fails -/
def RbStore.run (s : RbStore α) : List (RbOp α) → M (RbStore α × List (RbOut α))
  | [] => pure (s, [])
  | op :: ops => do
    let (s', o) ← RbStore.step s op
    let (s'', os) ← RbStore.run s' ops
    pure (s'', o :: os)

/-- the same history on the bounded-deque specification -/
def DqStore.run (t : DqStore α) : List (RbOp α) → DqStore α × List (RbOut α)
  | [] => (t, [])
  | op :: ops =>
    let r := DqStore.step t op
    let r' := DqStore.run r.1 ops
    (r'.1, r.2 :: r'.2)

/-- every operation of the history respects its documented precondition in the state in which it is issued -/
def DqStore.validFrom (t : DqStore α) : List (RbOp α) → Prop
  | [] => True
  | op :: ops => DqStore.valid t op ∧ DqStore.validFrom (DqStore.step t op).1 ops

end Tulz
