import Tulz.Model.Mem
/-
  Model of `tulz::RingBuffer<T, overwrite>` (include/tulz/container/RingBuffer.h),
  transcribed member by member.  Element storage is a list of `Slot`s (Mem.lean), so
  every placement-new / destructor / assignment / move the C++ performs is visible and
  *fails* in the model when it would be wrong in the C++ (C09).  The abstract
  specification is the bounded deque `Deque` at the end of the file (C04).

  Arithmetic: `modCap(a) = ((a % b) + b) % b` over `ssize_t` is used by the C++ in two
  shapes only, `m_pos + i` (i ≥ 0) and `m_pos - 1`; they are `(pos + i) % cap` and
  `(pos + cap - 1) % cap` over `Nat` (Proofs/RingBuffer.lean: `modCapI_add`,
  `modCapI_pred` relate them to the signed expression).
-/
namespace Tulz

structure RB (α : Type) where
  pos : Nat
  size : Nat
  cap : Nat
  data : List (Slot α)
deriving Repr

namespace RB
variable {α : Type}

/-- `modCap` exactly as written: `((a % b) + b) % b` over `ssize_t` (C++ `%` truncates towards zero) -/
def modCapI (cap : Nat) (a : Int) : Int := (Int.tmod a cap + cap).tmod cap

/-- `dataIndex(i) = modCap(m_pos + i)` -/
def phys (b : RB α) (i : Nat) : Nat := (b.pos + i) % b.cap

/-- `explicit RingBuffer(size_t capacity)` -/
def new (cap : Nat) : RB α := ⟨0, 0, cap, Mem.alloc cap⟩

/-- state of a default-initialised object (members `{0}`, `{nullptr}`); what a moved-from buffer is -/
def zombie : RB α := ⟨0, 0, 0, []⟩

/-- `new (&m_data[i++]) T(element)` for each element of `vs`, starting at index `i` -/
def constructAll (d : List (Slot α)) (i : Nat) : List α → M (List (Slot α))
  | [] => pure d
  | v :: vs => do
    let d' ← Mem.construct d i v
    constructAll d' (i + 1) vs

/-- `RingBuffer(std::initializer_list<T>, size_t capacity = -1)` (`capacity = none` is the default -1) -/
def ofList (vs : List α) (capacity : Option Nat) : M (RB α) := do
  let cap := match capacity with | none => vs.length | some c => c
  let d ← constructAll (Mem.alloc cap) 0 vs
  pure ⟨0, vs.length, cap, d⟩

/-- `operator[]` -/
def get (b : RB α) (i : Nat) : M α := Mem.read b.data (b.phys i)

/-- `(*this)[frm], …, (*this)[frm+n-1]` read in order -/
def readRange (b : RB α) (frm : Nat) : Nat → M (List α)
  | 0 => pure []
  | n + 1 => do
    let v ← b.get frm
    let rest ← readRange b (frm + 1) n
    pure (v :: rest)

/-- iteration `begin() .. end()` through `RandomAccessIndexIterator` (each step is `operator[]`) -/
def toList (b : RB α) : M (List α) := b.readRange 0 b.size

/-- `front()` -/
def front (b : RB α) : M α :=
  if b.size = 0 then throw .assertion else b.get 0

/-- `back()` -/
def back (b : RB α) : M α :=
  if b.size = 0 then throw .assertion else b.get (b.size - 1)

/-- `emplace_back` / `push_back`; returns the buffer and the value of the returned reference -/
def emplaceBack (ow : Bool) (b : RB α) (x : α) : M (RB α × α) := do
  if !ow && !(b.size < b.cap) then throw .assertion        -- overwriteCheck
  if b.size = b.cap then
    -- overwrite: size remains unchanged, 1st element gets discarded
    let d ← Mem.assign b.data b.pos x
    let b' : RB α := { b with data := d, pos := (b.pos + 1) % b.cap }
    let r ← b'.back
    pure (b', r)
  else
    let d ← Mem.construct b.data (b.phys b.size) x
    let b' : RB α := { b with data := d, size := b.size + 1 }
    let r ← b'.back
    pure (b', r)

/-- `emplace_front` / `push_front` -/
def emplaceFront (ow : Bool) (b : RB α) (x : α) : M (RB α × α) := do
  if !ow && !(b.size < b.cap) then throw .assertion
  let p := (b.pos + b.cap - 1) % b.cap                     -- modCap(m_pos - 1)
  if b.size = b.cap then
    let d ← Mem.assign b.data p x
    let b' : RB α := { b with data := d, pos := p }
    let r ← b'.front
    pure (b', r)
  else
    let d ← Mem.construct b.data p x
    let b' : RB α := { b with data := d, pos := p, size := b.size + 1 }
    let r ← b'.front
    pure (b', r)

/-- `pop_back` -/
def popBack (b : RB α) : M (RB α × α) := do
  if b.size = 0 then throw .assertion
  let b1 : RB α := { b with size := b.size - 1 }
  let (v, d) ← Mem.moveOut b1.data (b1.phys b1.size)
  pure ({ b1 with data := d }, v)

/-- `pop_front` -/
def popFront (b : RB α) : M (RB α × α) := do
  if b.size = 0 then throw .assertion
  let (v, d) ← Mem.moveOut b.data b.pos
  pure ({ b with data := d, pos := (b.pos + 1) % b.cap, size := b.size - 1 }, v)

/-- the lambda `silentCopy(dst, n)`: the first `n` logical elements as two `memcpy`s -/
def silentCopy (b : RB α) (n : Nat) : List (Slot α) :=
  let n1 := min n (b.cap - b.pos)
  (b.data.drop b.pos).take n1 ++ (b.data.drop ((b.pos + n1) % b.cap)).take (n - n1)

/-- `modCap(m_pos + (ssize_t) m_size - 1)` -/
def lastIndex (b : RB α) : Nat := (b.pos + b.size + b.cap - 1) % b.cap

/-- destructor calls on the logical elements `from .. from+n-1` (`(*this)[from + i].~T()`) -/
def destroyRange (b : RB α) (d : List (Slot α)) (frm : Nat) : Nat → M (List (Slot α))
  | 0 => pure d
  | n + 1 => do
    let d' ← Mem.destroy d (b.phys frm)
    destroyRange b d' (frm + 1) n

/-- `resize(newCapacity)`; the second component says which branch ran (0 = no-op, 1 = realloc in place,
    2 = shrink with linearisation, 3 = grow with linearisation) — reported by the driver for coverage only -/
def resize (b : RB α) (nc : Nat) : M (RB α × Nat) :=
  if nc = b.cap then pure (b, 0)
  else if b.pos ≤ b.lastIndex ∧ b.lastIndex < nc then
    pure ({ b with cap := nc, data := b.data.take nc ++ List.replicate (nc - b.cap) .raw }, 1)
  else if nc < b.cap then do
    let c := min b.size nc
    let newData := b.silentCopy c ++ List.replicate (nc - c) .raw
    -- delete extra: logical elements c .. size-1 of the old block, which is then freed
    let _ ← destroyRange b b.data c (b.size - c)
    pure (⟨0, c, nc, newData⟩, 2)
  else
    pure (⟨0, b.size, nc, b.silentCopy b.size ++ List.replicate (nc - b.size) .raw⟩, 3)

/-- the body shared by the copy constructor and copy assignment after the old contents are gone -/
def copyFrom (other : RB α) : M (RB α) := do
  let vs ← other.toList
  let d ← constructAll (Mem.alloc other.cap) 0 vs
  pure ⟨0, other.size, other.cap, d⟩

/-- `~RingBuffer()`: destroy every logical element, free the block; returns the block as it is freed -/
def destroyAll (b : RB α) : M (List (Slot α)) := destroyRange b b.data 0 b.size

/-- copy assignment between *distinct* objects (self-assignment returns early in the C++ and is
    handled by the store): destroy + free the old contents, then copy -/
def copyAssign (self other : RB α) : M (RB α) := do
  let _ ← self.destroyAll
  copyFrom other

/-- `operator==` : `std::equal(begin(), end(), other.begin(), other.end())` -/
def eq [DecidableEq α] (a b : RB α) : M Bool := do
  let xs ← a.toList
  let ys ← b.toList
  pure (decide (xs = ys))

end RB

/-! ### The specification: a bounded double-ended queue -/

structure Deque (α : Type) where
  cap : Nat
  items : List α
deriving Repr

namespace Deque
variable {α : Type}

def pushBack (d : Deque α) (x : α) : Deque α :=
  if d.items.length < d.cap then { d with items := d.items ++ [x] }
  else { d with items := d.items.tail ++ [x] }             -- full, overwriting: discard the front

def pushFront (d : Deque α) (x : α) : Deque α :=
  if d.items.length < d.cap then { d with items := x :: d.items }
  else { d with items := x :: d.items.dropLast }           -- full, overwriting: discard the back

def popBack (d : Deque α) : Deque α := { d with items := d.items.dropLast }
def popFront (d : Deque α) : Deque α := { d with items := d.items.tail }

def resize (d : Deque α) (nc : Nat) : Deque α := ⟨nc, d.items.take nc⟩

end Deque
end Tulz
