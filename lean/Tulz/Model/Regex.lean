/-
A small derivative-based regular-expression matcher (full match), used ONLY to instantiate the abstract
matcher parameter `rm` of the Router model in the line-protocol driver.  Supported syntax = the subset the
router harness generates for `std::regex` (ECMAScript) and the oracle feeds to Python `re.fullmatch`:
literal characters, `.`, applyPostfix `*` `+` `?`, character sets `[abc]` `[a-c]` `[^ab]`, alternation `|`,
grouping `( )`, `\c` for a literal `c`.  No theorem depends on this file: every Router theorem is stated for
an arbitrary matcher.
-/
namespace Tulz.Regex

inductive Re where
  | none                                   -- matches nothing
  | eps                                    -- matches ""
  | chr (c : Char)
  | any                                    -- `.`
  | set (neg : Bool) (rs : List (Char × Char))
  | cat (a b : Re)
  | alt (a b : Re)
  | star (a : Re)
deriving Repr, Inhabited

def mkCat : Re → Re → Re
  | .none, _ => .none
  | _, .none => .none
  | .eps, r => r
  | r, .eps => r
  | a, b => .cat a b

def mkAlt : Re → Re → Re
  | .none, r => r
  | r, .none => r
  | a, b => .alt a b

def nullable : Re → Bool
  | .none => false
  | .eps => true
  | .chr _ => false
  | .any => false
  | .set _ _ => false
  | .cat a b => nullable a && nullable b
  | .alt a b => nullable a || nullable b
  | .star _ => true

def inSet (c : Char) (rs : List (Char × Char)) : Bool := rs.any (fun r => r.1 ≤ c && c ≤ r.2)

def deriv (c : Char) : Re → Re
  | .none => .none
  | .eps => .none
  | .chr d => if c == d then .eps else .none
  | .any => if c == '\n' || c == '\r' then .none else .eps
  | .set neg rs => if inSet c rs != neg then .eps else .none
  | .cat a b => if nullable a then mkAlt (mkCat (deriv c a) b) (deriv c b) else mkCat (deriv c a) b
  | .alt a b => mkAlt (deriv c a) (deriv c b)
  | .star a => mkCat (deriv c a) (.star a)

/-- full match, as `std::regex_match` / `re.fullmatch` -/
def Re.matches (r : Re) (s : String) : Bool := nullable (s.toList.foldl (fun r c => deriv c r) r)

/-! ### parser: one left-to-right pass with an explicit stack (total, no recursion on the input) -/

structure Frame where
  alts : List Re := []      -- finished alternatives of this group, newest first
  cur : List Re := []       -- atoms of the alternative being read, newest first

def seqRe (cur : List Re) : Re := cur.foldl (fun acc a => mkCat a acc) .eps
def Frame.re (f : Frame) : Re := f.alts.foldl (fun acc a => mkAlt a acc) (seqRe f.cur)

inductive Mode where
  | normal
  | esc
  | inSet (acc : List Char)   -- characters after `[`, newest first

structure PSt where
  stack : List Frame := []
  top : Frame := {}
  mode : Mode := .normal
  err : Bool := false

def setItems : List Char → List (Char × Char)
  | a :: '-' :: b :: rest => (a, b) :: setItems rest
  | a :: rest => (a, a) :: setItems rest
  | [] => []

def mkSet (acc : List Char) : Re :=
  match acc.reverse with
  | '^' :: rest => .set true (setItems rest)
  | l => .set false (setItems l)

def pushAtom (st : PSt) (a : Re) : PSt := { st with top := { st.top with cur := a :: st.top.cur } }

def applyPostfix (st : PSt) (f : Re → Re) : PSt :=
  match st.top.cur with
  | a :: rest => { st with top := { st.top with cur := f a :: rest } }
  | [] => { st with err := true }

def pstep (st : PSt) (c : Char) : PSt :=
  match st.mode with
  | .esc => pushAtom { st with mode := .normal } (.chr c)
  | .inSet acc =>
    if c == ']' && !(acc.isEmpty || acc == ['^']) then pushAtom { st with mode := .normal } (mkSet acc)
    else { st with mode := .inSet (c :: acc) }
  | .normal =>
    if c == '(' then { st with stack := st.top :: st.stack, top := {} }
    else if c == ')' then
      match st.stack with
      | f :: rest => { st with stack := rest, top := { f with cur := st.top.re :: f.cur } }
      | [] => { st with err := true }
    else if c == '|' then { st with top := { alts := seqRe st.top.cur :: st.top.alts, cur := [] } }
    else if c == '*' then applyPostfix st .star
    else if c == '+' then applyPostfix st (fun a => .cat a (.star a))
    else if c == '?' then applyPostfix st (fun a => .alt a .eps)
    else if c == '[' then { st with mode := .inSet [] }
    else if c == '\\' then { st with mode := .esc }
    else if c == '.' then pushAtom st .any
    else pushAtom st (.chr c)

def parse (s : String) : Option Re :=
  let st := s.toList.foldl pstep {}
  match st.err, st.stack, st.mode with
  | false, [], .normal => some st.top.re
  | _, _, _ => none

end Tulz.Regex
