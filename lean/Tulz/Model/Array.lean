import Tulz.Model.MemExtra
/-
  Model of `tulz::Array<T>` (include/tulz/container/Array.h), member by member, as functions on
  the element storage.  `m_size` is the length of `data`; the block identity (`m_array` as a
  pointer) lives in the store (ArrayStore.lean).

  `cls` is `std::is_class_v<T>`: class types construct / destroy element-wise, the others are
  `memcpy`ed and a new tail stays raw (indeterminate).

  The model is the model of the *repaired* code:
    F8   pointer+length constructor, class branch: `size`, not `m_size`
    F8b  `resize(size, value)`: `value` may refer to an element of this array; it is copied
         before the storage is reallocated
    F8c  `memcpy` is not called with a null source for an empty array (no model difference)

  Excluded (DESIGN 6.2/C14): `Array(T*, n, copy=false)`; element types that may not be relocated
  bitwise (`realloc` is modelled as relocation).
-/
namespace Tulz

structure Arr (α : Type) where
  data : List (Slot α)
deriving Repr

namespace Arr
variable {α : Type} [Inhabited α]

/-- `size()` -/
def size (a : Arr α) : Nat := a.data.length

/-- what the container holds, element by element: `none` is an indeterminate (never written)
    element of a non-class type -/
def contents (a : Arr α) : List (Option α) := a.data.map Slot.val?

/-- `initialize(begin, end)` : `if constexpr (!is_class_v<T>) return; for … new (&m_array[i]) T();` -/
def initRange (cls : Bool) (d : List (Slot α)) (b e : Nat) : M (List (Slot α)) :=
  if cls then Mem.constructN d b (e - b) default else pure d

/-- `destroy(begin, end)` : `if constexpr (!is_class_v<T>) return; for … m_array[i].~T();` -/
def destroyRange (cls : Bool) (d : List (Slot α)) (b e : Nat) : M (List (Slot α)) :=
  if cls then Mem.destroyN d b (e - b) else pure d

/-- `Array(T *array, size_t size, bool copy = true)`; `src` are the objects `array` points to -/
def ofPtr (cls : Bool) (src : List α) (n : Nat) : AM (Arr α) :=
  if cls then do
    let d ← liftE (Mem.copyN (src.map .live) (Mem.alloc n) 0 n)
    pure ⟨d⟩
  else
    -- memcpy(m_array, array, size * sizeof(T))
    if n ≤ src.length then pure ⟨(src.map .live).take n⟩ else throw (.mem .oob)

/-- `Array(std::initializer_list<T>)` -/
def ofInit (vs : List α) : AM (Arr α) := do
  let d ← liftE (Mem.constructAll (Mem.alloc vs.length) 0 vs)
  pure ⟨d⟩

/-- `explicit Array(size_t size)` -/
def ofSize (cls : Bool) (n : Nat) : AM (Arr α) := do
  let d ← liftE (initRange cls (Mem.alloc n) 0 n)
  pure ⟨d⟩

/-- `Array(size_t size, const T &value)` -/
def ofFill (n : Nat) (v : α) : AM (Arr α) := do
  let d ← liftE (Mem.constructN (Mem.alloc n) 0 n v)
  pure ⟨d⟩

/-- `Array() = default` : `m_array = nullptr, m_size = 0` -/
def empty : Arr α := ⟨[]⟩

/-- the copy constructor: fresh storage, element-wise copy construction or `memcpy` -/
def copyOf (cls : Bool) (src : Arr α) : AM (Arr α) :=
  if cls then do
    let d ← liftE (Mem.copyN src.data (Mem.alloc src.size) 0 src.size)
    pure ⟨d⟩
  else pure ⟨src.data⟩

/-- the element part of `~Array()` : `destroy(0, m_size)`; returns the block as it is freed -/
def destroyAll (cls : Bool) (a : Arr α) : AM (List (Slot α)) :=
  liftE (destroyRange cls a.data 0 a.size)

/-- `operator[]` read -/
def get (a : Arr α) (i : Nat) : AM α := liftE (Mem.read a.data i)

/-- `operator[]` write, `a[i] = T(v)` -/
def set (cls : Bool) (a : Arr α) (i : Nat) (v : α) : AM (Arr α) := do
  let d ← liftE (if cls then Mem.assign a.data i v else Mem.write a.data i v)
  pure ⟨d⟩

/-- iteration `begin() .. end()` through `RandomAccessIndexIterator` (each step is `operator[]`) -/
def toList (a : Arr α) : AM (List α) := liftE (Mem.readN a.data 0 a.size)

/-- `front()` : `m_array[0]` -/
def front (a : Arr α) : AM α := a.get 0

/-- `back()` : `m_array[m_size - 1]` -/
def back (a : Arr α) : AM α := a.get (a.size - 1)

/-- the slots beyond `n` disappear in `realloc`: for a class type they must not hold live objects -/
def reallocA (cls : Bool) (d : List (Slot α)) (n : Nat) : AM (List (Slot α)) :=
  if cls && Mem.anyLive (d.drop n) then throw .leak else pure (Mem.realloc d n)

/-- `resize(size_t size)` : destroy tail, realloc, initialise new tail -/
def resize (cls : Bool) (a : Arr α) (n : Nat) : AM (Arr α) := do
  let d1 ← liftE (destroyRange cls a.data n a.size)
  let d2 ← reallocA cls d1 n
  let d3 ← if n > a.size then liftE (initRange cls d2 a.size n) else pure d2
  pure ⟨d3⟩

/-- `resize(size_t size, const T &value)` with a value that does not live in this array -/
def resizeFill (cls : Bool) (a : Arr α) (n : Nat) (v : α) : AM (Arr α) := do
  let d1 ← liftE (destroyRange cls a.data n a.size)
  let d2 ← reallocA cls d1 n
  let d3 ← if n > a.size then liftE (Mem.constructN d2 a.size (n - a.size) v) else pure d2
  pure ⟨d3⟩

/-- `a.resize(size, a[i])` : the value is copied out first (repair F8b), then as above -/
def resizeSelf (cls : Bool) (a : Arr α) (n i : Nat) : AM (Arr α) := do
  let v ← a.get i
  resizeFill cls a n v

end Arr
end Tulz
