import Tulz.Model.Stdio
/- tulz::File (src/File.cpp), member by member, over the stdio model of `Tulz/Model/Stdio.lean`.
   A member called on a File that is not open dereferences a null `FILE*` (undefined behaviour): `.error .nullFile`.
   Core Lean only. -/
namespace Tulz.FileM
open Tulz.Stdio

inductive Mode
  | none | readText | read | writeText | write | appendText | append
  deriving Repr, DecidableEq

inductive Origin
  | start | current | «end»
  deriving Repr, DecidableEq

inductive Err
  | notFound          -- tulz::Exception, type Path::NotFound
  | notFile           -- tulz::Exception, type Path::NotFile
  | invalidMode       -- std::invalid_argument("Invalid mode value: None")
  | nullFile          -- member called while `m_file == nullptr`
  | bufferOverrun     -- `write(data, size, elementSize)` with fewer than size*elementSize bytes behind `data`
  | hang              -- the `while (!isEOF())` loop of `read()` never terminates (stream not readable)
  deriving Repr, DecidableEq

structure File where
  m_file : Option Stream
  m_mode : Mode
  deriving Repr

/-- `File::File()` -/
def File.closed : File := { m_file := none, m_mode := .none }

/-- `Path::exists()` (Linux branch): `fopen(path, "r")` succeeded; the stream is closed again -/
def pathExists (d : Disk) (path : String) : Bool :=
  match (fopen d path "r").2 with
  | some st => let _ := fclose st; true
  | none => false

/-- `Path::isDirectory()`: `opendir(path)` succeeded -/
def pathIsDirectory (d : Disk) (path : String) : Bool := d.isDir path

/-- `File::isOpen` -/
def isOpen (f : File) : Bool := f.m_file.isSome

/-- `File::getMode` -/
def getMode (f : File) : Mode := f.m_mode

/-- `File::close`; the Bool says whether "Can't close file: file not opened" went to stderr -/
def close (f : File) : File × Bool :=
  match f.m_file with
  | none => (f, true)
  | some st => let _ := fclose st; ({ f with m_file := none }, false)

/-- the lambda `isWriteMode` of `File::open` -/
def isWriteMode (mode : Mode) : Bool :=
  mode == .writeText || mode == .write || mode == .appendText || mode == .append

/-- the lambda `getModeStr` of `File::open` -/
def getModeStr : Mode → Except Err String
  | .readText => .ok "r"
  | .read => .ok "rb"
  | .writeText => .ok "w"
  | .write => .ok "wb"
  | .appendText => .ok "a"
  | .append => .ok "ab"
  | .none => .error .invalidMode

/-- `File::open(path, mode)`.  The state is returned even when an exception leaves the function: the
    `invalid_argument` of `getModeStr()` is raised after the previous stream was closed. -/
def «open» (d : Disk) (f : File) (path : String) (mode : Mode) : Disk × File × Except Err Unit :=
  if !pathExists d path && !isWriteMode mode then (d, f, .error .notFound)
  else if pathExists d path && pathIsDirectory d path then (d, f, .error .notFile)
  else
    let f1 := if isOpen f then (close f).1 else f
    match getModeStr mode with
    | .error e => (d, f1, .error e)
    | .ok modeStr =>
      let (d', st) := fopen d path modeStr
      (d', { m_file := st, m_mode := mode }, .ok ())

/-- `File::write(const void *data, size_t size, size_t elementSize)`: `fwrite(data, elementSize, size, m_file)` -/
def write (d : Disk) (f : File) (data : Bytes) (size elementSize : Nat) : Except Err (Disk × File × Nat) :=
  match f.m_file with
  | none => .error .nullFile
  | some st =>
    if data.length < elementSize * size then .error .bufferOverrun
    else
      let (d', st', n) := fwrite d st data elementSize size
      .ok (d', { f with m_file := some st' }, n)

/-- `File::write(const Array<byte> &data)`: `write(data.array(), data.size())` -/
def writeArray (d : Disk) (f : File) (data : Bytes) : Except Err (Disk × File × Nat) :=
  write d f data data.length 1

/-- `File::write(const std::string &str)`: `write(str.c_str(), str.length())` -/
def writeString (d : Disk) (f : File) (str : Bytes) : Except Err (Disk × File × Nat) :=
  write d f str str.length 1

/-- `File::read(void *buffer, size_t size, size_t count)`: `fread(buffer, size, count, m_file)`;
    result = (file, bytes stored at the start of the buffer, return value) -/
def readBuf (d : Disk) (f : File) (size count : Nat) : Except Err (File × Bytes × Nat) :=
  match f.m_file with
  | none => .error .nullFile
  | some st =>
    let (st', got, n) := fread d st size count
    .ok ({ f with m_file := some st' }, got, n)

def whenceOf : Origin → Whence
  | .start => .set
  | .current => .cur
  | .end => .end

/-- `File::seek` -/
def seek (d : Disk) (f : File) (offset : Int) (origin : Origin) : Except Err (File × Int) :=
  match f.m_file with
  | none => .error .nullFile
  | some st =>
    let (st', r) := fseek d st offset (whenceOf origin)
    .ok ({ f with m_file := some st' }, r)

/-- `File::tell` -/
def tell (f : File) : Except Err Nat :=
  match f.m_file with
  | none => .error .nullFile
  | some st => .ok (ftell st)

/-- `File::size`: `prevPos = tell(); fseek(m_file, 0, SEEK_END); fileSize = tell(); fseek(m_file, prevPos, SEEK_SET);` -/
def size (d : Disk) (f : File) : Except Err (File × Nat) :=
  match f.m_file with
  | none => .error .nullFile
  | some st =>
    let prevPos := ftell st
    let st1 := (fseek d st 0 .end).1
    let fileSize := ftell st1
    let st2 := (fseek d st1 prevPos .set).1
    .ok ({ f with m_file := some st2 }, fileSize)

/-- the lambda `isEOF` of `File::read()`: `fgetc(m_file); return feof(m_file);` -/
def isEOF (d : Disk) (st : Stream) : Stream × Bool :=
  let st' := (fgetc d st).1
  (st', feof st')

/-- `while (!isEOF()) ++fileSize;` run for at most `fuel` evaluations of the condition;
    `none` = still running after `fuel` rounds -/
def countLoop (d : Disk) : Nat → Stream → Nat → Option (Stream × Nat)
  | 0, _, _ => none
  | fuel + 1, st, fileSize =>
    let (st', e) := isEOF d st
    if e then some (st', fileSize) else countLoop d fuel st' (fileSize + 1)

/-- a cell of `Array<byte>(n)`: `none` = never written (malloc'ed, uninitialised) -/
abbrev Cell := Option UInt8

/-- `File::read()`.  The counting loop needs `size + 1` rounds on a readable stream positioned at 0; when it
    has not finished by then it never will (`C17_count_loop_diverges`) and the model reports `.hang`. -/
def read (d : Disk) (f : File) : Except Err (File × List Cell) :=
  match f.m_file with
  | none => .error .nullFile
  | some st0 =>
    let st1 := (fseek d st0 0 .set).1                                  -- seek(0, Origin::Start)
    let sized : Except Err (Stream × Nat) :=
      if f.m_mode == .readText || f.m_mode == .appendText then
        match countLoop d ((d.content st1.path).length + 1) st1 0 with
        | none => .error .hang
        | some (st2, fileSize) => .ok ((fseek d st2 0 .set).1, fileSize)   -- seek(0, Origin::Start)
      else
        match size d { f with m_file := some st1 } with
        | .error e => .error e
        | .ok (f', fileSize) =>
          match f'.m_file with
          | some st2 => .ok (st2, fileSize)
          | none => .error .nullFile
    match sized with
    | .error e => .error e
    | .ok (st3, fileSize) =>
      -- Array<byte> result(fileSize); read(result.m_array, 1, fileSize);
      let (st4, got, _) := fread d st3 1 fileSize
      .ok ({ f with m_file := some st4 }, got.map some ++ List.replicate (fileSize - got.length) none)

/-- `File::readStr()`: the same bytes as a `std::string` -/
def readStr (d : Disk) (f : File) : Except Err (File × List Cell) := read d f

end Tulz.FileM
