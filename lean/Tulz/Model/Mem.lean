/-
  Shared vocabulary for the element-storage models (RingBuffer, Array): a block of
  storage is a list of slots; every primitive that the C++ performs on an element
  (placement new, destructor call, assignment, move-out, read) is a partial function
  that *fails* instead of silently succeeding when the C++ would be wrong:

    oob        index outside the allocation
    notObject  destructor / assignment on storage that holds no object (raw)
    overLive   placement-new over an element that still holds a value (abandons it)
    notLive    read / move-from of a slot that holds no value
    assertion  the precondition the C++ `assert`s is violated

  `shell` is a moved-from object: it is an object (may be destroyed or assigned) but
  holds no value.
-/
namespace Tulz

inductive Slot (α : Type) where
  | raw
  | live (v : α)
  | shell
deriving Repr, DecidableEq

inductive Err where
  | oob | notObject | overLive | notLive | assertion
deriving Repr, DecidableEq

def Err.toString : Err → String
  | .oob => "OOB" | .notObject => "NOT_OBJECT" | .overLive => "OVER_LIVE"
  | .notLive => "NOT_LIVE" | .assertion => "ASSERT"

abbrev M := Except Err

def Slot.isLive {α} : Slot α → Bool
  | .live _ => true
  | _ => false

def Slot.val? {α} : Slot α → Option α
  | .live v => some v
  | _ => none

namespace Mem
variable {α : Type}

/-- `m_data[i]` read as a value -/
def read (d : List (Slot α)) (i : Nat) : M α :=
  match d[i]? with
  | none => throw .oob
  | some (.live v) => pure v
  | some _ => throw .notLive

/-- `new (&m_data[i]) T(v)` -/
def construct (d : List (Slot α)) (i : Nat) (v : α) : M (List (Slot α)) :=
  match d[i]? with
  | none => throw .oob
  | some (.live _) => throw .overLive
  | some _ => pure (d.set i (.live v))

/-- `m_data[i] = T(v)` -/
def assign (d : List (Slot α)) (i : Nat) (v : α) : M (List (Slot α)) :=
  match d[i]? with
  | none => throw .oob
  | some .raw => throw .notObject
  | some _ => pure (d.set i (.live v))

/-- `std::move(m_data[i])` into a fresh object: the slot keeps a moved-from shell -/
def moveOut (d : List (Slot α)) (i : Nat) : M (α × List (Slot α)) :=
  match d[i]? with
  | none => throw .oob
  | some (.live v) => pure (v, d.set i .shell)
  | some _ => throw .notLive

/-- `m_data[i].~T()` -/
def destroy (d : List (Slot α)) (i : Nat) : M (List (Slot α)) :=
  match d[i]? with
  | none => throw .oob
  | some .raw => throw .notObject
  | some _ => pure (d.set i .raw)

/-- `malloc(n * sizeof(T))` -/
def alloc (n : Nat) : List (Slot α) := List.replicate n .raw

/-- the values held by a block -/
def liveVals (d : List (Slot α)) : List α := d.filterMap Slot.val?

end Mem
end Tulz
