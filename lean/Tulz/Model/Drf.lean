/-!
# Abstract executions, happens-before, data races, locking disciplines (C15)

Core Lean only.  Two layers live here:

* **trace layer** — an execution is a list of events `⟨tid, ev⟩`; `ev` is one of
  `acq m mode | rel m mode | rd x | wr x | fork u | join u`.  A plain `std::mutex` is a lock that is only ever taken in
  mode `excl`; the reader-writer `rwp::Resource` is a lock taken in mode `shared` (lockRead) or `excl` (lockWrite).
  Accesses to `std::atomic` objects and the operations on mutexes / condition variables themselves are *not* access
  events (they cannot take part in a data race).  `WF` = lock and thread semantics, `HB` = happens-before,
  `Race`, `Rule`, `Follows`.
* **table layer** — the vocabulary of the access table that `tools/translators/locksets.py` regenerates from the C++
  sources on every check (`Entry`, `Guard`, `Obj`, `Role`, `TRule`) and the *decidable* check `followsDiscipline`
  of one entry against a hand-written discipline (`Tulz.Model.Discipline`).
* **instantiation layer** — `World`, `concreteDiscipline`, `IsInstance`: what it means that an access event of an
  execution over concrete `(object, member)` locations is an execution of a table entry.

The theorems are in `Tulz/Proofs/Drf.lean` and `Tulz/Props/C15.lean`.
-/
namespace Tulz.Drf

/-! ## trace layer -/

/-- lock mode: `excl` = mutex / write lock, `shared` = read lock of a reader-writer resource -/
inductive Mode | excl | shared
deriving DecidableEq, Repr

/-- events; `L` = memory locations, `M` = lock objects, threads are `Nat` -/
inductive Ev (L M : Type)
  | acq (m : M) (mode : Mode)
  | rel (m : M) (mode : Mode)
  | acc (x : L) (write : Bool)
  | fork (u : Nat)
  | join (u : Nat)
deriving DecidableEq, Repr

/-- `rd x` -/
@[match_pattern] abbrev Ev.rd {L M : Type} (x : L) : Ev L M := .acc x false
/-- `wr x` -/
@[match_pattern] abbrev Ev.wr {L M : Type} (x : L) : Ev L M := .acc x true

structure E (L M : Type) where
  tid : Nat
  ev : Ev L M
deriving DecidableEq, Repr

abbrev Trace (L M : Type) := List (E L M)

variable {L M : Type} [DecidableEq M]

/-- exclusive holder of lock `m` after the first `k` events of `tr` -/
def exclOwner (tr : Trace L M) (m : M) : Nat → Option Nat
  | 0 => none
  | k+1 =>
    match tr[k]? with
    | some ⟨t, .acq m' .excl⟩ => if m' = m then some t else exclOwner tr m k
    | some ⟨_, .rel m' .excl⟩ => if m' = m then none else exclOwner tr m k
    | _ => exclOwner tr m k

/-- number of shared (read) holds of thread `t` on lock `m` after the first `k` events of `tr` -/
def sharedCount (tr : Trace L M) (m : M) (t : Nat) : Nat → Nat
  | 0 => 0
  | k+1 =>
    match tr[k]? with
    | some ⟨t', .acq m' .shared⟩ => if m' = m ∧ t' = t then sharedCount tr m t k + 1 else sharedCount tr m t k
    | some ⟨t', .rel m' .shared⟩ => if m' = m ∧ t' = t then sharedCount tr m t k - 1 else sharedCount tr m t k
    | _ => sharedCount tr m t k

/-- **Well-formedness** = semantics of the synchronisation primitives, as a hypothesis about the execution:

* a lock is granted exclusively only when nobody holds it in any mode, and in shared mode only when nobody holds it
  exclusively; it is released only by a holder.  For `std::mutex` (mode `excl` only) this is mutex semantics; for
  `rwp::Resource` it is exactly property **C01** ("a writer never shares the lock", proved for the Rwp model) plus
  the call protocol of the guards;
* every event of a forked thread comes after the fork, every event of a joined thread comes before the join. -/
structure WF (tr : Trace L M) : Prop where
  acqExcl : ∀ k t m, tr[k]? = some ⟨t, .acq m .excl⟩ → exclOwner tr m k = none ∧ ∀ u, sharedCount tr m u k = 0
  acqShared : ∀ k t m, tr[k]? = some ⟨t, .acq m .shared⟩ → exclOwner tr m k = none
  relExcl : ∀ k t m, tr[k]? = some ⟨t, .rel m .excl⟩ → exclOwner tr m k = some t
  relShared : ∀ k t m, tr[k]? = some ⟨t, .rel m .shared⟩ → 0 < sharedCount tr m t k
  forked : ∀ (f t u : Nat), tr[f]? = some ⟨t, .fork u⟩ → ∀ (k : Nat) (e : Ev L M), tr[k]? = some ⟨u, e⟩ → f < k
  joined : ∀ (n t u : Nat), tr[n]? = some ⟨t, .join u⟩ → ∀ (k : Nat) (e : Ev L M), tr[k]? = some ⟨u, e⟩ → k < n

/-- happens-before on event indices: program order, release → later acquire of the same lock (unless both are
shared: two read locks do not synchronise), fork → first event of the child, last event of the child → join,
transitivity -/
inductive HB (tr : Trace L M) : Nat → Nat → Prop
  | po {i j t e1 e2} : i < j → tr[i]? = some (E.mk t e1) → tr[j]? = some (E.mk t e2) → HB tr i j
  | sw {i j t1 t2 m md1 md2} : i < j → tr[i]? = some ⟨t1, .rel m md1⟩ → tr[j]? = some ⟨t2, .acq m md2⟩ →
      (md1 = .excl ∨ md2 = .excl) → HB tr i j
  | fork {i j t u e} : i < j → tr[i]? = some (E.mk t (.fork u)) → tr[j]? = some (E.mk u e) → HB tr i j
  | join {i j t u e} : i < j → tr[i]? = some (E.mk u e) → tr[j]? = some (E.mk t (.join u)) → HB tr i j
  | trans {i j k} : HB tr i j → HB tr j k → HB tr i k

/-- **data race**: two accesses of different threads to one location, at least one a write, not ordered by `HB` -/
def Race (tr : Trace L M) : Prop :=
  ∃ i j t1 t2 x w1 w2, i < j ∧ tr[i]? = some ⟨t1, .acc x w1⟩ ∧ tr[j]? = some ⟨t2, .acc x w2⟩ ∧ t1 ≠ t2 ∧
    (w1 = true ∨ w2 = true) ∧ ¬ HB tr i j

/-- thread `t` holds lock `m` in mode `md` after the first `k` events -/
def Holds (tr : Trace L M) (m : M) (t : Nat) : Mode → Nat → Prop
  | .excl, k => exclOwner tr m k = some t
  | .shared, k => 0 < sharedCount tr m t k

/-- what a discipline says about one location -/
inductive Rule (M : Type)
  /-- every access holds mutex `m` -/
  | guardedBy (m : M)
  /-- every access holds the reader-writer resource `r`; holders in read mode only read -/
  | guardedByRW (r : M)
  /-- `std::atomic`: no plain access events at all -/
  | atomic
  /-- only thread `t` accesses the location -/
  | confinedTo (t : Nat)
  /-- written only while no other accessor is alive (see `Quiescent`) -/
  | immutableAfterPublication
  /-- the mutex / condition-variable / resource objects themselves: no plain access events -/
  | selfSynchronised

/-- access `k` of thread `t` *precedes publication*: it happens before every access to `x` by any other thread
(writes of a constructor to the members of the object under construction).  An explicit hypothesis: an object is
handed to other threads only through a synchronising operation after its constructor has returned. -/
def PrePub (tr : Trace L M) (k t : Nat) (x : L) : Prop :=
  ∀ j u w, tr[j]? = some (E.mk u (.acc x w)) → u ≠ t → k < j ∧ HB tr k j

/-- at event `k`, thread `t` has no live companion that ever touches `x`: every other accessor `u` of `x` is forked
by `t` only later, or has already been joined by `t`.  This is the intended-use contract of the ThreadPool setters
("only on a pool without workers") as a property of the execution. -/
def Quiescent (tr : Trace L M) (k t : Nat) (x : L) : Prop :=
  ∀ (j u : Nat) (w : Bool), tr[j]? = some ⟨u, .acc x w⟩ → u ≠ t →
    (∃ f : Nat, k < f ∧ tr[f]? = some ⟨t, .fork u⟩) ∨ (∃ n : Nat, n < k ∧ tr[n]? = some ⟨t, .join u⟩)

/-- the access `⟨t, acc x w⟩` at index `k` obeys rule `r` -/
def Rule.okAt (tr : Trace L M) (k t : Nat) (x : L) (w : Bool) : Rule M → Prop
  | .guardedBy m => exclOwner tr m k = some t
  | .guardedByRW r => exclOwner tr r k = some t ∨ (0 < sharedCount tr r t k ∧ w = false)
  | .atomic => False
  | .selfSynchronised => False
  | .confinedTo t0 => t = t0
  | .immutableAfterPublication => w = true → Quiescent tr k t x

/-- the execution follows discipline `d`: every access either precedes publication or obeys the rule of its location -/
def Follows (tr : Trace L M) (d : L → Rule M) : Prop :=
  ∀ k t x w, tr[k]? = some ⟨t, .acc x w⟩ → PrePub tr k t x ∨ (d x).okAt tr k t x w

/-! ## table layer -/

/-- who executes an entry point.  `ctor` = the constructing thread, before the object is published;
`owner` = the one thread that owns the object (ThreadPool / Thread); `worker` = the pool thread that belongs to the
accessed PooledThread / PooledRunnable / task; `newThread` = the thread started by `Thread::start` for that Thread
object; `any` = any thread. -/
inductive Role | ctor | owner | worker | newThread | any
deriving DecidableEq, Repr

/-- symbolic object of an access or a guard, relative to the entry point's `this`.  `F` = enumerated members. -/
inductive Obj (F : Type)
  /-- `*this` of the entry point -/
  | self
  /-- the object a member designates: `o.f` (embedded), `*o.f` (pointer member) or the referent of a reference member -/
  | field (o : Obj F) (f : F)
  /-- some object owned by / reachable only through `o` (container element, pointee of an element, sub-member of those) -/
  | within (o : Obj F)
  /-- the object created by the `n`-th `new` expression of the entry point -/
  | fresh (n : Nat)
  /-- not resolved by the translator -/
  | unknown
deriving DecidableEq, Repr

/-- a lock lexically held at an access: lock member `lock` of object `obj`, in mode `mode` -/
structure Guard (F : Type) where
  obj : Obj F
  lock : F
  mode : Mode
deriving DecidableEq, Repr

/-- how the accessed member is declared -/
inductive Decl
  /-- an ordinary object -/
  | plain
  /-- `std::atomic<…>` -/
  | atomicTy
  /-- `std::mutex`, `std::condition_variable`, `rwp::Resource` (used through its lock interface) -/
  | syncTy
deriving DecidableEq, Repr

/-- one row of the access table.  `site` is for the reader; the checked content is the rest. -/
structure Entry (F Fn : Type) where
  /-- entry point (root of the inlined call tree) -/
  root : Fn
  /-- executed by the thread that a `std::thread` constructed in `root` starts (lambda body) -/
  spawned : Bool
  /-- member accessed (`undeclared` when `Model/Discipline.lean` does not know it) -/
  loc : F
  /-- object whose member is accessed -/
  obj : Obj F
  write : Bool
  decl : Decl
  /-- locks lexically held on every path to the access -/
  guards : List (Guard F)
  /-- the accessed object is under construction (a constructor of it, or of an object embedding it, is running) -/
  init : Bool
  /-- identifiers of the contract conditions the access is control-dependent on -/
  conds : List Nat
  /-- the translator could not analyse the construct: the entry never follows any discipline -/
  unknown : Bool
  /-- `R/W Class::member of <object> — call chain @file:line` -/
  site : String

/-- table-level rule of one member -/
inductive TRule (F Fn : Type)
  /-- every access holds mutex member `m` of the same object -/
  | guardedBy (m : F)
  /-- every access holds the reader-writer member `r` of the same object; read-mode holders only read -/
  | guardedByRW (r : F)
  | atomic
  /-- only entries executed in role `role` (`owner`, `worker` or `newThread`), reaching the object through one of the
      listed symbolic paths (empty list = any path) -/
  | confinedTo (role : Role) (paths : List (Obj F))
  /-- reads anywhere; writes only by the listed contract functions in role owner (and constructors) -/
  | immutableAfterPublication (writers : List Fn)
  | selfSynchronised
  /-- state owned through another member: judged by the rule of the nearest enclosing member that has one -/
  | ownedState
  /-- no rule: fails -/
  | none

variable {F Fn : Type} [DecidableEq F] [DecidableEq Fn]

def TRule.isOwned : TRule F Fn → Bool
  | .ownedState => true
  | _ => false

/-- the role in which an entry runs -/
def Entry.role (entryRole : Fn → Role) (e : Entry F Fn) : Role :=
  if e.spawned then .newThread else entryRole e.root

/-- nearest enclosing member with a rule of its own, walking outwards from object `o`: `(member, object holding it)` -/
def anchorObj (d : F → TRule F Fn) : Obj F → Option (F × Obj F)
  | .field o f => if (d f).isOwned then anchorObj d o else some (f, o)
  | .within o => anchorObj d o
  | .self => none
  | .fresh _ => none
  | .unknown => none

/-- the member whose rule governs an access to member `loc` of object `obj` -/
def anchor (d : F → TRule F Fn) (loc : F) (obj : Obj F) : Option (F × Obj F) :=
  if (d loc).isOwned then anchorObj d obj else some (loc, obj)

/-- a lock on member `m` of object `o` in a mode that permits the access -/
def guardOk (m : F) (o : Obj F) (rw write : Bool) (g : Guard F) : Bool :=
  g.lock == m && g.obj == o && (g.mode == .excl || (rw && g.mode == .shared && !write))

def Role.isThreadRole : Role → Bool
  | .owner => true
  | .worker => true
  | .newThread => true
  | _ => false

/-- entry `e` obeys rule `r`, which governs it through the anchor object `o` -/
def ruleOk (entryRole : Fn → Role) (e : Entry F Fn) (o : Obj F) : TRule F Fn → Bool
  | .guardedBy m => e.decl == .plain && o != .unknown && e.guards.any (guardOk m o false e.write)
  | .guardedByRW r => e.decl == .plain && o != .unknown && e.guards.any (guardOk r o true e.write)
  | .atomic => e.decl == .atomicTy
  | .selfSynchronised => e.decl == .syncTy
  | .confinedTo role paths =>
      e.decl == .plain && role.isThreadRole && e.role entryRole == role && (paths.isEmpty || paths.contains o)
  | .immutableAfterPublication writers =>
      e.decl == .plain && (!e.write || (writers.contains e.root && e.role entryRole == .owner))
  | .ownedState => false
  | .none => false

/-- **the decidable check of one table entry against a discipline.**  `excluded` = contract conditions the intended
use rules out (accesses control-dependent on them are never executed).  An access to an object under construction
obeys every rule (it precedes publication).  Otherwise the rule of the anchor member decides. -/
def followsDiscipline (d : F → TRule F Fn) (entryRole : Fn → Role) (excluded : List Nat) (e : Entry F Fn) : Bool :=
  !e.unknown &&
  (e.conds.any excluded.contains || e.init ||
   match anchor d e.loc e.obj with
   | some (f, o) => ruleOk entryRole e o (d f)
   | none => false)

/-! ## instantiation layer: from table entries to events of an execution

Concrete locations and locks are pairs `(object identity, member)`.  `World` carries what the table cannot know: which
thread plays which role for an object, and which member of which object *owns* a concrete location (tree-shaped
ownership).  `IsInstance` says that one access event of an execution is an execution of one table entry; it is the
precise list of what is ASSUMED about the relation between the C++ program and the table (see Props/C15.lean). -/

/-- concrete location / lock: member `f` of the object with identity `o` -/
abbrev CLoc (F : Type) := Nat × F

structure World (F : Type) where
  /-- role assignment: the thread that plays `role` for object `o` (its owner, its worker, the thread it started) -/
  thr : Nat → Role → Nat
  /-- ownership: the member (and the object holding it) whose rule governs a concrete location; the identity for
      members that have a rule of their own -/
  anchorOf : CLoc F → CLoc F

/-- the trace-level rule that table-level rule `r` of a member held by object `o` stands for -/
def TRule.toRule (thr : Nat → Role → Nat) (o : Nat) : TRule F Fn → Rule (CLoc F)
  | .guardedBy m => .guardedBy (o, m)
  | .guardedByRW r => .guardedByRW (o, r)
  | .atomic => .atomic
  | .selfSynchronised => .selfSynchronised
  | .confinedTo role _ => .confinedTo (thr o role)
  | .immutableAfterPublication _ => .immutableAfterPublication
  | .ownedState => .atomic
  | .none => .atomic

/-- the discipline of concrete locations induced by a table-level discipline in a world -/
def concreteDiscipline (d : F → TRule F Fn) (w : World F) (x : CLoc F) : Rule (CLoc F) :=
  (d (w.anchorOf x).2).toRule w.thr (w.anchorOf x).1

/-- the access event `⟨t, acc x wr⟩` at index `k` of `tr` is an execution of some table entry `e`, with `ρ` interpreting
the entry's symbolic objects:
1. it is the entry's member of the entry's object, a write only if the entry is a write, a plain (non-atomic) object;
2. none of the contract-excluded conditions holds on the way;
3. if the object is under construction, the access precedes publication;
4. every lock the entry lists is really held by `t` at `k` (semantics of scoped_lock / unique_lock / lock()…unlock() /
   ReadLock / WriteLock and of condition_variable::wait re-acquiring the mutex);
5. the symbolic anchor computed from the entry is the concrete owner of the location;
6. if the entry runs in a thread role (owner / worker / newThread), `t` is the thread playing that role for the owner
   of the location;
7. a write to an `immutableAfterPublication` member outside a constructor is made while no other accessor is alive. -/
def IsInstance (d : F → TRule F Fn) (entryRole : Fn → Role) (excluded : List Nat) (tbl : List (Entry F Fn)) (w : World F)
    (tr : Trace (CLoc F) (CLoc F)) (k t : Nat) (x : CLoc F) (wr : Bool) : Prop :=
  ∃ (e : Entry F Fn) (ρ : Obj F → Nat),
    e ∈ tbl ∧ e.loc = x.2 ∧ ρ e.obj = x.1 ∧ (wr = true → e.write = true) ∧ e.decl = .plain ∧
    (∀ c ∈ e.conds, c ∉ excluded) ∧
    (e.init = true → PrePub tr k t x) ∧
    (∀ g ∈ e.guards, Holds tr (ρ g.obj, g.lock) t g.mode k) ∧
    (∀ f o, anchor d e.loc e.obj = some (f, o) → w.anchorOf x = (ρ o, f)) ∧
    ((e.role entryRole).isThreadRole = true → t = w.thr (w.anchorOf x).1 (e.role entryRole)) ∧
    (∀ ws, d (w.anchorOf x).2 = .immutableAfterPublication ws → wr = true → e.init = false → Quiescent tr k t x)

end Tulz.Drf
