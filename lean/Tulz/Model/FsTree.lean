/- File-system part of tulz::Path (src/Path.cpp:33-71, 85-112, 147-200) over a finite tree of
   directories and regular files.  The OS is *specified* here, not verified:
     * `fopen(path, "r")` succeeds exactly when the path resolves (regular file or directory — glibc/Linux
       open a directory read-only without complaint), `opendir` exactly on directories;
     * `readdir` returns the entries of the directory plus "." and ".." in an order the OS chooses
       (`ReaddirSpec`: some permutation);
     * `fseek(0, SEEK_END); ftell` on a regular file yields its byte count.
   Paths are lists of segments below the root of the tree; `Path::join(*this, child)` for a bare child
   name is `p ++ [child]` (the string-level fact is C18_name_of_join / C18_parent_of_join).
   Core Lean only. -/
namespace Tulz.Fs

inductive FsNode
  | file (bytes : Nat)
  | dir (children : List (String × FsNode))

abbrev Entries := List (String × FsNode)

inductive FsErr
  | notFound | notDirectory | notFile     -- Path::Error
  | fuel                                   -- recursion budget of the model exhausted (never for fuel > depth)
  | os                                     -- the OS answered inconsistently (excluded by the spec)
  deriving Repr, DecidableEq

/-- directory lookup: the entry called `name` -/
def childOf (name : String) : Entries → Option FsNode
  | [] => none
  | (s, n) :: r => if s = name then some n else childOf name r

/-- path resolution (no symlinks, no "."/".." segments) -/
def resolve : FsNode → List String → Option FsNode
  | n, [] => some n
  | .file _, _ :: _ => none
  | .dir cs, s :: r =>
    match childOf s cs with
    | some c => resolve c r
    | none => none

/-! ### the specified OS calls -/

/-- `fopen(path, "r") != NULL` -/
def fopenR (fs : FsNode) (p : List String) : Bool := (resolve fs p).isSome

/-- `opendir(path)`: the entry list of a directory, `none` (NULL) otherwise -/
def opendir (fs : FsNode) (p : List String) : Option Entries :=
  match resolve fs p with
  | some (.dir cs) => some cs
  | _ => none

/-- what `readdir` may deliver for a directory: its entry names plus "." and "..", each once, in any order -/
def ReaddirSpec (rd : Entries → List String) : Prop :=
  ∀ cs, (rd cs).Perm ("." :: ".." :: cs.map Prod.fst)

/-- `fopen(path,"rb"); fseek(file,0,SEEK_END); ftell(file)` on a regular file -/
def ftellEnd (fs : FsNode) (p : List String) : Option Nat :=
  match resolve fs p with
  | some (.file b) => some b
  | _ => none

/-! ### Path.cpp -/

/-- `Path::exists` (Linux branch) -/
def pExists (fs : FsNode) (p : List String) : Bool := fopenR fs p

/-- `Path::isDirectory` -/
def pIsDirectory (fs : FsNode) (p : List String) : Bool := (opendir fs p).isSome

/-- `Path::isFile`: `exists() && !isDirectory()` -/
def pIsFile (fs : FsNode) (p : List String) : Bool := pExists fs p && !pIsDirectory fs p

/-- the `while ((ent = readdir(dir)))` loop of `listChildren`: skip "." and "..", `emplace_front` the rest -/
def listLoop : List String → List String → List String
  | [], acc => acc
  | name :: r, acc =>
    if name = "." || name = ".." then listLoop r acc
    else listLoop r (name :: acc)

/-- `Path::listChildren` -/
def listChildren (rd : Entries → List String) (fs : FsNode) (p : List String) : Except FsErr (List String) :=
  if !pExists fs p then .error .notFound
  else
    match opendir fs p with
    | none => .error .notDirectory
    | some cs => .ok (listLoop (rd cs) [])

/-- `for (child : children) size += Path::join(*this, child).size();` — the first exception propagates -/
def sumSizes : List (Except FsErr Nat) → Nat → Except FsErr Nat
  | [], acc => .ok acc
  | .ok n :: r, acc => sumSizes r (acc + n)
  | .error e :: _, _ => .error e

/-- `Path::size` (recursion depth bounded by `fuel`; `fuel > depth` always suffices, see `C18_size_dir`) -/
def pSize (rd : Entries → List String) (fs : FsNode) : Nat → List String → Except FsErr Nat
  | 0, _ => .error .fuel
  | f + 1, p =>
    if !pExists fs p then .error .notFound
    else if pIsFile fs p then
      match ftellEnd fs p with
      | some b => .ok b
      | none => .error .os
    else
      match listChildren rd fs p with
      | .error e => .error e
      | .ok children => sumSizes (children.map fun c => pSize rd fs f (p ++ [c])) 0

/-! ### the specification side -/

mutual
/-- total size of the regular files beneath a node -/
def FsNode.fileBytes : FsNode → Nat
  | .file b => b
  | .dir cs => entriesBytes cs
def entriesBytes : Entries → Nat
  | [] => 0
  | e :: r => e.2.fileBytes + entriesBytes r
end

mutual
/-- sizes of all regular files beneath a node, one entry per file -/
def FsNode.allFiles : FsNode → List Nat
  | .file b => [b]
  | .dir cs => entriesFiles cs
def entriesFiles : Entries → List Nat
  | [] => []
  | e :: r => e.2.allFiles ++ entriesFiles r
end

mutual
def FsNode.depth : FsNode → Nat
  | .file _ => 0
  | .dir cs => entriesDepth cs + 1
def entriesDepth : Entries → Nat
  | [] => 0
  | e :: r => max e.2.depth (entriesDepth r)
end

/-- a tree a real file system can hold: names unique within a directory, never "." or ".." -/
inductive WF : FsNode → Prop
  | file (b : Nat) : WF (.file b)
  | dir (cs : Entries) : (cs.map Prod.fst).Nodup → (∀ e ∈ cs, e.1 ≠ "." ∧ e.1 ≠ "..") →
      (∀ e ∈ cs, WF e.2) → WF (.dir cs)

end Tulz.Fs
