import Tulz.Model.Drf
/-!
# The locking discipline of the tulz threading components (hand-written, reviewed; C15)

This file is the *specification* side of C15: for every data member that the analysed code touches it says how the
member is protected, and for every entry point who may call it.  The *code* side is the access table
`Tulz.Generated.AccessTable.entries`, regenerated from the C++ sources by `tools/translators/locksets.py` on every
check; `Tulz.C15_table_follows` (Props/C15.lean) is the kernel-evaluated statement that every table entry follows this
discipline.

The translator reads the constructor lists of `Field` and `Fn` below: a member / entry point of the sources that is
not listed here is emitted as `undeclared` / `other`, whose rule is `none` / role `any` — the obligation then fails
(fail closed) and the entry names the offender.

This is the discipline of the REPAIRED code (findings F6, F7: `ThreadPool::m_isRunning` and `Thread::m_isFinished`
are `std::atomic<bool>`).
-/
namespace Tulz.Model
open Tulz.Drf

/-- data members (class_member; template arguments dropped) -/
inductive Field
  -- rwp::Resource
  | Resource_m_queue | Resource_m_activeOp | Resource_m_activeCount | Resource_m_idCounter | Resource_m_upperUnlockBound
  | Resource_m_mutex | Resource_m_cv
  | Operation_type | Operation_upperBound
  -- the guards (reference members: never accessed as objects, they only name the resource)
  | ReadLock_m_resource | WriteLock_m_resource
  -- ThreadPool, its private helpers
  | ThreadPool_m_pool | ThreadPool_m_queue | ThreadPool_m_condition | ThreadPool_m_expiryTimeout | ThreadPool_m_maxThreadCount
  | ThreadPool_m_isRunning | ThreadPool_m_poolMutex | ThreadPool_m_queueMutex
  | TRunnable_m_ptr | TRunnable_m_args
  | PooledThread_m_lastActiveTime
  | PooledRunnable_m_threadPool | PooledRunnable_m_pooledThread
  -- Thread
  | Thread_m_thread | Thread_m_isFinished
  -- ConcurrentSubjectRouter and the state reachable from its router
  | ConcurrentSubjectRouter_m_router | ConcurrentSubjectRouter_m_resource
  | ConcurrentInvoker_m_resource | DefaultInvoker_m_subscription
  | Subscription_m_id | Subscription_m_subject | Subscription_m_observer
  | SubjectRouter_m_rootNode | Node_m_name | Node_m_subject | Node_m_children
  | Subject_m_observers | Subject_m_removedObservers | Subject_m_notifyDepth | NotifyDepth_value
  | Subject_m_activeSubscriptions | Subject_m_subscriptionCounter
  | ObserverDetails_observer | ObserverDetails_subscriptionId
  | Observer_m_func | Observer_m_params | Params_mute | EternalObserver_m_isValid
  /-- a member the sources have and this file does not know -/
  | undeclared
deriving DecidableEq, Repr

/-- entry points (Class_function; `_T` = instantiated function template) -/
inductive Fn
  | Resource_Resource | Resource_lockRead | Resource_unlockRead | Resource_lockWrite | Resource_unlockWrite
  | ReadLock_ReadLock | ReadLock_dtor_ReadLock | WriteLock_WriteLock | WriteLock_dtor_WriteLock
  | ThreadPool_ThreadPool | ThreadPool_start | ThreadPool_start_T | ThreadPool_clear | ThreadPool_stop | ThreadPool_update
  | ThreadPool_setExpiryTimeout | ThreadPool_setMaxThreadCount | ThreadPool_getExpiryTimeout | ThreadPool_getMaxThreadCount
  | ThreadPool_getActiveThreadCount | ThreadPool_getThreadCount | ThreadPool_isRunning
  | TRunnable_TRunnable | TRunnable_run
  | PooledThread_PooledThread | PooledThread_setLastActiveTime | PooledThread_getLastActiveTime
  | PooledRunnable_PooledRunnable | PooledRunnable_run
  | Thread_Thread | Thread_Thread_T | Thread_start | Thread_start_T | Thread_join | Thread_isJoinable | Thread_isFinished
  | Thread_isRunning | Thread_std_thread | Thread_sleep | Thread_sleep_T
  | ConcurrentSubjectRouter_ConcurrentSubjectRouter | ConcurrentSubjectRouter_notify_T | ConcurrentSubjectRouter_subscribe_T
  | ConcurrentSubjectRouter_shrink | ConcurrentSubjectRouter_exists | ConcurrentSubjectRouter_depth
  | Subscription_Subscription_T | ConcurrentInvoker_ConcurrentInvoker | ConcurrentInvoker_unsubscribe
  /-- an entry point the sources have and this file does not know -/
  | other
deriving DecidableEq, Repr

open Field Fn

/-- **who calls what** (the intended use of the C15 statement): Resource, its guards and the router are called by any
thread; a ThreadPool and the Thread objects it creates by their one owner thread; `PooledRunnable::run`, the task
wrapper `TRunnable::run` and the PooledThread accessors by the pool thread they belong to; constructors by whoever
creates the object, before it is shared. -/
def entryRole : Fn → Role
  | Resource_Resource | ReadLock_ReadLock | WriteLock_WriteLock | ThreadPool_ThreadPool | TRunnable_TRunnable
  | PooledThread_PooledThread | PooledRunnable_PooledRunnable | Thread_Thread | Thread_Thread_T
  | ConcurrentSubjectRouter_ConcurrentSubjectRouter | Subscription_Subscription_T | ConcurrentInvoker_ConcurrentInvoker => .ctor
  | ThreadPool_start | ThreadPool_start_T | ThreadPool_clear | ThreadPool_stop | ThreadPool_update
  | ThreadPool_setExpiryTimeout | ThreadPool_setMaxThreadCount | ThreadPool_getExpiryTimeout | ThreadPool_getMaxThreadCount
  | ThreadPool_getActiveThreadCount | ThreadPool_getThreadCount | ThreadPool_isRunning => .owner
  | Thread_start | Thread_start_T | Thread_join | Thread_isJoinable | Thread_isFinished | Thread_isRunning | Thread_std_thread
  | Thread_sleep | Thread_sleep_T => .owner
  | PooledRunnable_run | TRunnable_run | PooledThread_setLastActiveTime | PooledThread_getLastActiveTime => .worker
  | Resource_lockRead | Resource_unlockRead | Resource_lockWrite | Resource_unlockWrite
  | ReadLock_dtor_ReadLock | WriteLock_dtor_WriteLock
  | ConcurrentSubjectRouter_notify_T | ConcurrentSubjectRouter_subscribe_T | ConcurrentSubjectRouter_shrink
  | ConcurrentSubjectRouter_exists | ConcurrentSubjectRouter_depth | ConcurrentInvoker_unsubscribe => .any
  | other => .any

abbrev O := Obj Field

/-- **the discipline** -/
def discipline : Field → TRule Field Fn
  -- Resource: every field under m_mutex; queue elements belong to the queue
  | Resource_m_queue | Resource_m_activeOp | Resource_m_activeCount | Resource_m_idCounter | Resource_m_upperUnlockBound =>
      .guardedBy Resource_m_mutex
  | Operation_type | Operation_upperBound => .ownedState
  | Resource_m_mutex | Resource_m_cv => .selfSynchronised
  | ReadLock_m_resource | WriteLock_m_resource | ConcurrentInvoker_m_resource => .none     -- references: never accessed
  -- ThreadPool
  | ThreadPool_m_queue => .guardedBy ThreadPool_m_queueMutex
  | ThreadPool_m_isRunning => .atomic
  | ThreadPool_m_pool => .confinedTo .owner [.self]
  | ThreadPool_m_expiryTimeout => .immutableAfterPublication [ThreadPool_setExpiryTimeout]
  | ThreadPool_m_maxThreadCount => .immutableAfterPublication [ThreadPool_setMaxThreadCount]
  | ThreadPool_m_condition | ThreadPool_m_poolMutex | ThreadPool_m_queueMutex => .selfSynchronised
  -- a task wrapper is built by the owner (constructor) and then used by the one worker that dequeued it
  | TRunnable_m_ptr | TRunnable_m_args => .confinedTo .worker [.self]
  -- a PooledThread's time stamp: after construction only its own worker, reached as `this` or through its PooledRunnable
  | PooledThread_m_lastActiveTime => .confinedTo .worker [.self, .field .self PooledRunnable_m_pooledThread]
  | PooledRunnable_m_threadPool | PooledRunnable_m_pooledThread => .confinedTo .worker [.self]
  -- Thread
  | Thread_m_thread => .confinedTo .owner []          -- `this`, an element of m_pool, or a Thread just created
  | Thread_m_isFinished => .atomic
  -- ConcurrentSubjectRouter: the router and everything reachable from it under the reader-writer resource
  | ConcurrentSubjectRouter_m_router => .guardedByRW ConcurrentSubjectRouter_m_resource
  | ConcurrentSubjectRouter_m_resource => .selfSynchronised
  -- a subscription handle's invoker reaches router state (its Subject) through `m_subscription`, under the resource
  -- it was given at construction (assumption A5: that is the router's `m_resource`)
  | DefaultInvoker_m_subscription => .guardedByRW ConcurrentInvoker_m_resource
  | Subscription_m_id | Subscription_m_subject | Subscription_m_observer
  | SubjectRouter_m_rootNode | Node_m_name | Node_m_subject | Node_m_children
  | Subject_m_observers | Subject_m_removedObservers | Subject_m_notifyDepth
  | Subject_m_activeSubscriptions | Subject_m_subscriptionCounter
  | ObserverDetails_observer | ObserverDetails_subscriptionId
  | Observer_m_func | Observer_m_params | Params_mute | EternalObserver_m_isValid => .ownedState
  -- number of notify() calls in progress on a Subject: concurrent notifiers hold only the READ lock (repair of F4)
  | NotifyDepth_value => .atomic
  | undeclared => .none

/-- contract conditions the intended use excludes:
`1` = "`!observer->isValid()`", i.e. an observer was invalidated (the statement's programs never invalidate observers;
with invalidation `Subject::notify` removes the observer lazily — a WRITE of the Subject under the router's READ lock, a
genuine race that is recorded as a finding, not repaired here);
`2` = "`!m_removedObservers.empty()`" at the end of a notification round, i.e. an observer was removed while a round was
in progress — this needs condition 1 or a callback that unsubscribes (callbacks of the statement's programs do not call
back into the router; `unsubscribe` through a handle takes the WRITE lock, so no round is in progress then). -/
def excludedConds : List Nat := [1, 2]

end Tulz.Model
