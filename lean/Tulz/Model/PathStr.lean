/- String part of tulz::Path (src/Path.cpp:73-83, 118-145, 221-237), transcribed over `List Char`.

   `size_t` is modelled as a natural number below `W = 2^64`; `a - b` on `size_t` is `usub` (wraps),
   `a + b` is `uadd`, `std::string::npos = 2^64 - 1`.  `find_last_of` follows libstdc++'s
   basic_string.tcc (clip the start position to `size()-1`, scan downwards); `erase(idx, n)` throws
   `out_of_range` when `idx > size()` and otherwise removes `min(n, size()-idx)` characters.
   Core Lean only. -/
namespace Tulz.PathStr

abbrev Str := List Char

/-- 2^64: `size_t` arithmetic is modulo `W` -/
def W : Nat := 18446744073709551616
/-- `std::string::npos` = `(size_t)-1` -/
def npos : Nat := 18446744073709551615

/-- unsigned `a - b` -/
def usub (a b : Nat) : Nat := (a + W - b % W) % W
/-- unsigned `a + b` -/
def uadd (a b : Nat) : Nat := (a + b) % W

inductive Err
  | outOfRange          -- std::out_of_range thrown by basic_string::erase / _M_check
  deriving Repr, DecidableEq

/-- `Path::Separator` and (on Linux) `Path::SystemSeparator` -/
def Separator : Char := '/'
def SystemSeparator : Char := '/'

/-- membership in the character set `"/\\"` used by `find_last_of` -/
def isSep (c : Char) : Bool := c == '/' || c == '\\'

/-- downward scan: the largest index `< k` that holds a character of `"/\\"` -/
def lastSepBelow (s : Str) : Nat → Option Nat
  | 0 => none
  | k + 1 =>
    match s[k]? with
    | some c => if isSep c then some k else lastSepBelow s k
    | none => lastSepBelow s k

/-- `s.find_last_of("/\\", pos)`:
    `size = this->size(); if (size && n) { if (--size > pos) size = pos; do { if (find(set, s[size])) return size; } while (size-- != 0); } return npos;` -/
def findLastOf (s : Str) (pos : Nat) : Nat :=
  if s.length = 0 then npos
  else
    match lastSepBelow s (min (s.length - 1) pos + 1) with
    | some i => i
    | none => npos

/-- `s.find(c)` scanning from index `i` -/
def findFrom (c : Char) : Str → Nat → Nat
  | [], _ => npos
  | x :: r, i => if x == c then i else findFrom c r (i + 1)

/-- `s.erase(idx, n)` -/
def erase (s : Str) (idx n : Nat) : Except Err Str :=
  if idx > s.length then .error .outOfRange
  else .ok (s.take idx ++ s.drop (idx + min n (s.length - idx)))

/-- `isAbsolutePath`: `path.find(Path::Separator) == 0` (Linux branch) -/
def isAbsolutePath (path : Str) : Bool := findFrom Separator path 0 == 0

/-- `Path::isAbsolute` -/
def isAbsolute (m_path : Str) : Bool := isAbsolutePath m_path

/-- second half of `Path::getParentDirectory` (after the optional removal of the last separator) -/
def parentTail (m_path path : Str) (separatorPos : Nat) : Except Err Str :=
  if separatorPos == npos then .ok []                         -- `return {}`
  else erase path separatorPos m_path.length                   -- `Path(path.erase(separatorPos, m_path.size()))`

/-- `Path::getParentDirectory` (Path.cpp:118-135) -/
def getParentDirectory (m_path : Str) : Except Err Str :=
  let path := m_path
  let separatorPos := findLastOf path npos
  if separatorPos != npos && separatorPos == usub path.length 1 then
    match erase path separatorPos path.length with
    | .error e => .error e
    | .ok path' => parentTail m_path path' (findLastOf path' npos)
  else parentTail m_path path separatorPos

/-- `Path::getPathName` (Path.cpp:137-145) -/
def getPathName (m_path : Str) : Except Err Str :=
  let index := findLastOf m_path npos
  let index := if index == usub m_path.length 1 then findLastOf m_path (usub m_path.length 2) else index
  erase m_path 0 (uadd index 1)

/-- `Path::join(const string&, const string&)` (Path.cpp:221-237) -/
def join (p1 p2 : Str) : Str :=
  if h : p1 = [] then p2
  else if isAbsolutePath p2 then p2
  else if p1.getLast h != Separator && p1.getLast h != SystemSeparator then p1 ++ [SystemSeparator] ++ p2
  else p1 ++ p2

end Tulz.PathStr
