/- tulz::DirectoryVisitor (src/DirectoryVisitor.cpp) over a specified OS: the only state is the process
   working directory.  `chdir` is a parameter (`Os.chdir cwd arg` = the working directory after
   `chdir(arg)` issued while in `cwd`; unchanged when the call fails — `Path::setWorkingDirectory`
   ignores the result); `getcwd` returns the working directory itself (paths shorter than FILENAME_MAX).
   Core Lean only. -/
namespace Tulz.Dv

structure Os where
  chdir : String → String → String

structure Visitor where
  m_dir : String
  m_oldDir : String
  deriving Repr, DecidableEq

/-- `Path::getWorkingDirectory()` -/
def getWorkingDirectory (cwd : String) : String := cwd

/-- `DirectoryVisitor::visit` -/
def visit (os : Os) (cwd : String) (v : Visitor) : String × Visitor :=
  if v.m_dir ≠ "" then
    let v' := { v with m_oldDir := getWorkingDirectory cwd }
    (os.chdir cwd v'.m_dir, v')
  else (cwd, v)

/-- `DirectoryVisitor::restore` -/
def restore (os : Os) (cwd : String) (v : Visitor) : String :=
  if v.m_oldDir ≠ "" then os.chdir cwd v.m_oldDir else cwd

/-- `DirectoryVisitor(const Path &dir)`: `set(dir); visit();` — with `dir = ""` this is also the default
    constructor (nothing visited, nothing to restore) -/
def ctor (os : Os) (cwd : String) (dir : String) : String × Visitor :=
  visit os cwd { m_dir := dir, m_oldDir := "" }

/-- `~DirectoryVisitor` -/
def dtor (os : Os) (cwd : String) (v : Visitor) : String := restore os cwd v

inductive Ev
  | ctor (dir : String)      -- a visitor is constructed (scope entry)
  | dtor                     -- the most recently constructed live visitor is destroyed (scope exit)
  deriving Repr

/-- state: working directory and the stack of live visitors (innermost first) -/
abbrev St := String × List Visitor

/-- one lifetime event; `none` = a destructor without a live visitor (not a program) -/
def step (os : Os) : St → Ev → Option St
  | (cwd, stack), .ctor dir => let (c, v) := ctor os cwd dir; some (c, v :: stack)
  | (cwd, v :: stack), .dtor => some (dtor os cwd v, stack)
  | (_, []), .dtor => none

def run (os : Os) : St → List Ev → Option St
  | s, [] => some s
  | s, e :: r => match step os s e with
    | some s' => run os s' r
    | none => none

end Tulz.Dv
