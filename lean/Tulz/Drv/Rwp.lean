/- line protocol stub for component `Rwp` (filled in by the component's owner) -/
namespace Tulz.Drv.Rwp

abbrev State := Unit
def init : State := ()

def step (s : State) (_args : List String) : State × String := (s, "bad-op")

end Tulz.Drv.Rwp
