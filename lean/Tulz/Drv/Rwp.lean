import Tulz.Model.Rwp
import Tulz.Drv.Util
/-
  Lock-step replay of an observed execution of rwp::Resource on the model (DESIGN.md 5.3).
  The harness reports one line per completed critical section (`cs t`: thread t released m_mutex,
  `park t`: thread t released it by blocking in m_cv.wait) and per notification (`notify t w…`).
  Given the thread, the model step is determined (`Rwp.xstep?`); after the step the driver checks that
  the model agrees with what was observed (parked or not, who was woken, who holds the lock, …).
-/
namespace Tulz.Drv.Rwp
open _root_.Rwp

abbrev State := Option XState
def init : State := none

def parseProg (s : String) : List Kind :=
  s.toList.filterMap fun c =>
    if c == 'R' || c == 'r' || c == 'N' || c == 'O' || c == 'L' then some Kind.read
    else if c == 'W' || c == 'w' || c == 'H' || c == 'M' || c == 'P' then some Kind.write
    else none

def pcStr : Pc → String
  | .idle => "idle"
  | .waiting k id n => s!"waiting({if k == .read then "R" else "W"},{id},{if n then "notified" else "asleep"})"
  | .holding k => s!"holding({if k == .read then "R" else "W"})"
  | .notifying => "notifying"

def isWaiting : Pc → Bool
  | .waiting _ _ _ => true
  | _ => false

/-- the threads a `notify_all` finds blocked: parked and not already woken by an earlier notification
    (an already notified thread is runnable — it is re-acquiring the mutex — and is not reported as woken again) -/
def isAsleep : Pc → Bool
  | .waiting _ _ false => true
  | _ => false

def waitingSet (x : XState) : List Nat :=
  (List.range x.base.ths.length).filter fun i => match x.base.ths[i]? with | some p => isAsleep p | none => false

def status (x : XState) : String :=
  " ".intercalate ((List.range x.base.ths.length).map fun i =>
    s!"{i}:{match x.base.ths[i]? with | some p => pcStr p | none => "?"}/{(x.progs[i]?.getD []).length}")

def step (st : State) (args : List String) : State × String :=
  match args with
  | ["init", progs] =>
    let ps := (progs.splitOn ",").map parseProg
    (some (xinit ps), "ok")
  | _ =>
  match st with
  | none => (none, "MISMATCH no-init")
  | some x =>
    match args with
    | ["call", t, k] =>
      match t.toNat? with
      | none => (st, "bad-op")
      | some i =>
        let want := if k == "R" then Kind.read else Kind.write
        match x.base.ths[i]?, x.progs[i]? with
        | some .idle, some (k' :: _) => if k' == want then (st, "ok") else (st, s!"MISMATCH call {i}: program says other kind")
        | p, _ => (st, s!"MISMATCH call {i}: model thread is {(p.map pcStr).getD "?"}")
    | [ev, t] =>
      match t.toNat? with
      | none => (st, "bad-op")
      | some i =>
        if ev == "cs" || ev == "park" then
          match x.base.ths[i]? with
          | some .notifying => (st, s!"MISMATCH {ev} {i}: model expects the pending notify_all first")
          | _ =>
          -- a parked thread that runs a critical section without having been notified woke up spuriously (or its timed
          -- wait timed out): the base relation `Step` allows it — it re-evaluates its predicate like any woken waiter
          let x := match x.base.ths[i]? with
            | some (.waiting k id false) => ({ x with base := { x.base with ths := x.base.ths.set i (.waiting k id true) } } : XState)
            | _ => x
          match xstep? x i with
          | none => (st, s!"MISMATCH {ev} {i}: no model step for thread in state {((x.base.ths[i]?).map pcStr).getD "?"} | {status x}")
          | some y =>
            let parked := match y.base.ths[i]? with | some p => isWaiting p | none => false
            if (ev == "park") == parked then (some y, "ok")
            else (some y, s!"MISMATCH {ev} {i}: model thread becomes {((y.base.ths[i]?).map pcStr).getD "?"} | {status y}")
        else if ev == "ret" then
          match x.base.ths[i]? with
          | some (.holding _) => (st, "ok")
          | p => (st, s!"MISMATCH ret {i}: model thread is {(p.map pcStr).getD "?"}")
        else if ev == "uret" then
          match x.base.ths[i]? with
          | some .idle => (st, "ok")
          | p => (st, s!"MISMATCH uret {i}: model thread is {(p.map pcStr).getD "?"}")
        else if ev == "notify" then
          -- notify with nobody woken
          match x.base.ths[i]? with
          | some .notifying =>
            if waitingSet x == [] then ((xstep? x i), "ok") else (xstep? x i, s!"MISMATCH notify {i}: model wakes {waitingSet x}, observed none")
          | p => (st, s!"MISMATCH notify {i}: model thread is {(p.map pcStr).getD "?"}")
        else (st, "bad-op")
    | "notify" :: t :: woken =>
      match t.toNat?, parseNats woken with
      | some i, some ws =>
        match x.base.ths[i]? with
        | some .notifying =>
          if sortNat ws == waitingSet x then (xstep? x i, "ok")
          else (xstep? x i, s!"MISMATCH notify {i}: model wakes {waitingSet x}, observed {sortNat ws}")
        | p => (st, s!"MISMATCH notify {i}: model thread is {(p.map pcStr).getD "?"}")
      | _, _ => (st, "bad-op")
    | ["end"] =>
      let done := (List.range x.base.ths.length).all fun i =>
        match x.base.ths[i]?, x.progs[i]? with
        | some .idle, some [] => true
        | _, _ => false
      let sh := x.base.sh
      let idle := sh.queue.isEmpty && sh.act == .none && sh.count == 0 && sh.idc == 0 && sh.bound == 0
      if done && idle then (st, "ok") else (st, s!"MISMATCH end: done={done} idle={idle} | {status x}")
    | ["stuck"] =>
      -- the implementation is deadlocked: can the model still move?
      let movable := (List.range x.base.ths.length).filter fun i => (xstep? x i).isSome
      (st, if movable.isEmpty then "ok model-stuck-too" else s!"MISMATCH stuck: model can still move threads {movable} | {status x}")
    | ["status"] => (st, status x)
    | _ => (st, "bad-op")

end Tulz.Drv.Rwp
