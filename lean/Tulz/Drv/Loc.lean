import Tulz.Model.Locale
/- line protocol for the LocaleInfo model:
     loc get <hex bytes | ->        ->  <code> | <name>,<name>… | <country> | <ccode> | err:0|1      (all strings in hex)
                                        or `!<error>` when the model performs an out-of-bounds / uninitialised access
     loc orig <hex bytes | ->       ->  the same for the code as found (finding F9); used by replays only
     loc spec <hex bytes | ->       ->  the specification `spec`
     loc table lang|country         ->  the regenerated table, `code:name` pairs in hex separated by blanks
   The empty string is written `-`. -/
namespace Tulz.Drv.Loc
open Tulz.Locale

abbrev State := Unit
def init : State := ()

def hexDigit (n : Nat) : Char := if n < 10 then Char.ofNat (48 + n) else Char.ofNat (87 + n)

def hexOf (bs : List Nat) : String :=
  if bs.isEmpty then "-" else String.ofList (bs.flatMap fun b => [hexDigit (b / 16 % 16), hexDigit (b % 16)])

def digitVal (c : Char) : Option Nat :=
  if '0' ≤ c ∧ c ≤ '9' then some (c.toNat - 48)
  else if 'a' ≤ c ∧ c ≤ 'f' then some (c.toNat - 87)
  else if 'A' ≤ c ∧ c ≤ 'F' then some (c.toNat - 55)
  else none

def parseHexChars : List Char → Option (List Nat)
  | [] => some []
  | [_] => none
  | a :: b :: rest => do
    let x ← digitVal a
    let y ← digitVal b
    let r ← parseHexChars rest
    pure ((16 * x + y) :: r)

def parseHex (s : String) : Option (List Nat) :=
  if s == "-" then some [] else parseHexChars s.toList

def showInfo (i : Info) : String :=
  hexOf i.languageCode ++ " | " ++ ",".intercalate (i.languages.map hexOf) ++ " | " ++ hexOf i.country ++ " | " ++
    hexOf i.countryCode ++ " | err:" ++ (if i.error then "1" else "0")

def showRes : Except Err Info → String
  | .ok i => showInfo i
  | .error e => "!" ++ e.toString

def showTable (t : Table) : String := " ".intercalate (t.map fun e => hexOf e.1 ++ ":" ++ hexOf e.2)

def step (s : State) (args : List String) : State × String :=
  match args with
  | ["reset"] => (s, "ok")
  | ["get", h] => match parseHex h with
    | some bs => (s, showRes (get bs))
    | none => (s, "bad-op")
  | ["orig", h] => match parseHex h with
    | some bs => (s, showRes (getAsFound bs))
    | none => (s, "bad-op")
  | ["spec", h] => match parseHex h with
    | some bs => (s, showInfo (spec bs))
    | none => (s, "bad-op")
  | ["table", "lang"] => (s, showTable languageTable)
  | ["table", "country"] => (s, showTable countryTable)
  | _ => (s, "bad-op")

end Tulz.Drv.Loc
