import Tulz.Model.ArrayStore
import Tulz.Drv.Util
import Tulz.Drv.IterDrv
/- line protocol for the Array model:
     arr cfg <cls 0|1> <number of variable slots>      start a history (also `arr reset`)
     arr <op> <args…>  ->  `<result> | d:<net live-value change>`   or   `!<error>`
   driver-only queries: `live`, `peek id` (contents with `?` for indeterminate elements),
   `alias a b` (do two variables point to the same block) -/
namespace Tulz.Drv.Arr
open Tulz

structure State where
  cls : Bool := true
  st : AStore Nat := AStore.init 0

def init : State := {}

def parseOp : List String → Option (AOp Nat)
  | "ptr" :: id :: n :: vs => do pure (.ptr (← id.toNat?) (← parseNats vs) (← n.toNat?))
  | "init" :: id :: vs => do pure (.init (← id.toNat?) (← parseNats vs))
  | ["size", id, n] => do pure (.size (← id.toNat?) (← n.toNat?))
  | ["fill", id, n, v] => do pure (.fill (← id.toNat?) (← n.toNat?) (← v.toNat?))
  | ["dflt", id] => do pure (.dflt (← id.toNat?))
  | ["copy", d, s] => do pure (.copy (← d.toNat?) (← s.toNat?))
  | ["mctor", d, s] => do pure (.mctor (← d.toNat?) (← s.toNat?))
  | ["cassign", d, s] => do pure (.cassign (← d.toNat?) (← s.toNat?))
  | ["massign", d, s] => do pure (.massign (← d.toNat?) (← s.toNat?))
  | ["swap", a, b] => do pure (.swap (← a.toNat?) (← b.toNat?))
  | ["resize", id, n] => do pure (.resize (← id.toNat?) (← n.toNat?))
  | ["resizev", id, n, v] => do pure (.resizeV (← id.toNat?) (← n.toNat?) (← v.toNat?))
  | ["resizeself", id, n, i] => do pure (.resizeSelf (← id.toNat?) (← n.toNat?) (← i.toNat?))
  | ["set", id, i, v] => do pure (.set (← id.toNat?) (← i.toNat?) (← v.toNat?))
  | ["get", id, i] => do pure (.get (← id.toNat?) (← i.toNat?))
  | ["iter", id] => do pure (.iter (← id.toNat?))
  | ["len", id] => do pure (.len (← id.toNat?))
  | ["front", id] => do pure (.front (← id.toNat?))
  | ["back", id] => do pure (.back (← id.toNat?))
  | ["drop", id] => do pure (.drop (← id.toNat?))
  | _ => none

def showOut : AOut Nat → String
  | .unit => "ok"
  | .val v => "v=" ++ toString v
  | .vals l => "l=" ++ joinNat l
  | .num n => "n=" ++ toString n

def showOpt : Option Nat → String
  | some v => toString v
  | none => "?"

def step (s : State) (args : List String) : State × String :=
  match args with
  | ["reset"] => ({}, "ok")
  | ["cfg", c, nv] =>
    match nv.toNat? with
    | some n => ({ cls := c == "1", st := AStore.init n }, "ok")
    | none => (s, "bad-op")
  | ["live"] => (s, "live=" ++ joinNat (sortNat s.st.liveVals))
  | ["peek", id] =>
    match id.toNat? >>= s.st.vars.find with
    | some v => (s, "l=" ++ " ".intercalate (v.arr.contents.map showOpt))
    | none => (s, "!BAD_VAR")
  | ["alias", a, b] =>
    match a.toNat? >>= s.st.vars.find, b.toNat? >>= s.st.vars.find with
    | some x, some y => (s, if x.blk.isSome && x.blk == y.blk then "b=1" else "b=0")
    | _, _ => (s, "!BAD_VAR")
  | "it" :: id :: start :: c :: cmds =>     -- iterator script over variable `id` (RandomAccessIndexIterator model)
    match id.toNat? >>= s.st.vars.find with
    | some v =>
      match IterDrv.run v.arr.get start (c :: cmds) with
      | some (.ok o) => (s, o ++ " | d:")
      | some (.error e) => (s, "!" ++ e.toString)
      | none => (s, "bad-op")
    | none => (s, "!BAD_VAR")
  | ["heap"] =>                          -- blocks currently allocated
    (s, s!"owned={s.st.heap.owned.length}")
  | _ =>
  match parseOp args with
  | none => (s, "bad-op")
  | some op =>
    match AStore.step s.cls s.st op with
    | .error e => (s, "!" ++ e.toString)
    | .ok (st', out) =>
      ({ s with st := st' }, showOut out ++ " | " ++ delta s.st.liveVals st'.liveVals)

end Tulz.Drv.Arr
