import Tulz.Model.Thread
import Tulz.Generated.ThreadCaptures
import Tulz.Drv.Util
/-
  Lock-step replay of an observed execution of tulz::Thread on the model (C20).
  The configuration is resolved from the GENERATED capture table, so the model that is replayed is the model of the source as
  it is now: on a tree that captures the callable parameter by reference the model itself predicts the access to the dead
  frame slot, at the same place where the real code traps.

    thr init callable <nargs> | thr init runnable      -> ok callable=… args=… this=…
    thr step <label>                                   -> ok <status>   |  MISMATCH <label> not enabled | <status>
    thr crash                                          -> ok model-predicts-dead-access <labels> | MISMATCH crash …
    thr end                                            -> ok <status>   |  MISMATCH end … (run complete, one invocation, nothing dead touched)
    thr status
-/
namespace Tulz.Drv.Thr
open _root_.Thread

structure DState where
  cfg : Cfg
  st : _root_.Thread.State

abbrev State := Option DState
def init : State := none

def parseLbl : String → Option Lbl
  | "evalArgs" => some .evalArgs | "buildClosure" => some .buildClosure | "spawn" => some .spawn
  | "returnFromStart" => some .returnFromStart | "clobberFrame" => some .clobberFrame | "poll" => some .poll
  | "join" => some .join | "scopeExit" => some .scopeExit | "begin" => some .begin | "readCallable" => some .readCallable
  | "invokeBegin" => some .invokeBegin | "useSelf" => some .useSelf | "useArgs" => some .useArgs
  | "invokeEnd" => some .invokeEnd | "delete" => some .delete | "setFinished" => some .setFinished | "exit" => some .exit
  | _ => none

def spcStr : SPc → String
  | .evalArgs => "evalArgs" | .buildClosure => "buildClosure" | .spawn => "spawn" | .returnFromStart => "returnFromStart"
  | .clobberFrame => "clobberFrame" | .working => "working" | .joined => "joined" | .done => "done"

def wpcStr : WPc → String
  | .unborn => "unborn" | .begin => "begin" | .readCallable => "readCallable" | .invokeBegin => "invokeBegin" | .inside => "inside"
  | .delete => "delete" | .setFinished => "setFinished" | .exit => "exit" | .ended => "ended"

def b (x : Bool) : String := if x then "1" else "0"

def status (s : _root_.Thread.State) : String :=
  s!"spc={spcStr s.spc} wpc={wpcStr s.wpc} fin={b s.finished} inv={s.invokes} ret={b s.returned} des={s.destroys} saw={b s.sawFinished} bad={b s.badTouch}"

def capStr : Cap → String
  | .byCopy => "copy"
  | .byRef .frameSlot => "ref:frameSlot"
  | .byRef .callerLvalue => "ref:callerLvalue"
  | .byRef .thisObj => "ref:thisObj"

def argsStr (cfg : Cfg) : String :=
  match cfg.args with
  | [] => "none"
  | a :: _ => capStr a

/-- candidate continuations of the new thread whose last step performs an access -/
def crashCandidates : List (List Lbl) :=
  [[.begin, .readCallable], [.readCallable], [.useSelf], [.useArgs], [.invokeBegin], [.delete], [.setFinished],
   [.begin, .readCallable, .invokeBegin], [.invokeEnd, .delete], [.invokeEnd, .setFinished]]

def lblStr (l : Lbl) : String := (reprStr l).replace "Thread.Lbl." ""

def step (st : State) (args : List String) : State × String :=
  match args with
  | ["init", "callable", n] =>
    match n.toNat? with
    | none => (st, "bad-op")
    | some k =>
      match Cfg.ofCaps .callable Tulz.Generated.ThreadCaptures.startTemplate k with
      | some cfg => (some ⟨cfg, _root_.Thread.init cfg⟩, s!"ok callable={capStr cfg.callable} args={argsStr cfg} this={capStr cfg.this}")
      | none => (none, "MISMATCH init: the generated table of the template start() does not resolve to closure fields")
  | ["init", "runnable"] =>
    match Cfg.ofCaps .runnable Tulz.Generated.ThreadCaptures.startRunnable 0 with
    | some cfg => (some ⟨cfg, _root_.Thread.init cfg⟩, s!"ok callable={capStr cfg.callable} args={argsStr cfg} this={capStr cfg.this}")
    | none => (none, "MISMATCH init: the generated table of start(Runnable*) does not resolve to closure fields")
  | _ =>
  match st with
  | none => (none, "MISMATCH no-init")
  | some d =>
    match args with
    | ["step", l] =>
      match parseLbl l with
      | none => (st, "bad-op")
      | some lbl =>
        match step? d.cfg d.st lbl with
        | some t => (some { d with st := t }, "ok " ++ status t)
        | none => (st, s!"MISMATCH {l} not enabled | {status d.st}")
    | ["crash"] =>
      let hits := crashCandidates.filter fun ls =>
        match run? d.cfg d.st ls with
        | some t => t.badTouch && !d.st.badTouch
        | none => false
      match hits with
      | ls :: _ => (st, "ok model-predicts-dead-access " ++ ",".intercalate (ls.map lblStr))
      | [] => (st, s!"MISMATCH crash: every object the new thread can access next is alive in the model | {status d.st}")
    | ["end"] =>
      let s := d.st
      if s.spc == .done && s.wpc == .ended && s.invokes == 1 && s.finished && !s.badTouch
          && (s.destroys == (if d.cfg.kind == .runnable then 1 else 0)) then (st, "ok " ++ status s)
      else (st, "MISMATCH end: " ++ status s)
    | ["status"] => (st, status d.st)
    | _ => (st, "bad-op")

end Tulz.Drv.Thr
