import Tulz.Model.IndexIter
/- line protocol for iterator scripts, shared by the RingBuffer and Array drivers:
     <comp> it <id> <start> <cmd>+      the iterator `begin() + start`, then one token per operator application
   tokens:  I `++it`   D `--it`   i `it++`   d `it--`   a<n> `it += n`   s<n> `it -= n`   P<n> `it = it + n`   M<n> `it = it - n`
            * `*it`    = `it - begin()`    c<j> the six comparisons with `begin() + j`
   answer:  `it=<obs>,<obs>,…` with  v<value>  n<difference>  b<eq ne lt gt le ge as 0/1>  s<postfix returned the old iterator> -/
namespace Tulz.Drv.IterDrv
open Tulz.Iter

def parseCmd (s : String) : Option Cmd :=
  match s.toList with
  | ['I'] => some .preInc
  | ['D'] => some .preDec
  | ['i'] => some .postInc
  | ['d'] => some .postDec
  | ['*'] => some .deref
  | ['='] => some .dist
  | 'a' :: r => (String.ofList r).toInt?.map .addEq
  | 's' :: r => (String.ofList r).toInt?.map .subEq
  | 'P' :: r => (String.ofList r).toInt?.map .plus
  | 'M' :: r => (String.ofList r).toInt?.map .minus
  | 'c' :: r => (String.ofList r).toNat?.map .cmp
  | _ => none

def bit (b : Bool) : String := if b then "1" else "0"

def showObs : Obs Nat → Option String
  | .none => none
  | .val v => some ("v" ++ toString v)
  | .num d => some ("n" ++ toString d)
  | .bits a b c d e f => some ("b" ++ bit a ++ bit b ++ bit c ++ bit d ++ bit e ++ bit f)
  | .same b => some ("s" ++ bit b)

/-- run a script on a container given by its `operator[]`; `none` = malformed line -/
def run {ε : Type} (get : Nat → Except ε Nat) (start : String) (cmds : List String) : Option (Except ε String) := do
  let st ← start.toNat?
  let cs ← cmds.mapM parseCmd
  pure (match runScript get (mk' st) cs with
    | .error e => .error e
    | .ok (_, os) => .ok ("it=" ++ ",".intercalate (os.filterMap showObs)))

end Tulz.Drv.IterDrv
