import Tulz.Model.Router
import Tulz.Model.Regex
import Tulz.Drv.Util
/- line protocol for the SubjectRouter model (tag `rt`).  Keys and patterns are written `/=name/~regex/…`
   (`/` alone is the root key); a concrete key has `=` levels only.

     reset                      -> ok
     init <S|C> <sig>           -> ok          (which router class / argument signature: harness only)
     sub <h> <key> <f|p>        -> ok          (observer and handle id h; f = lambda, p = observer pointer)
     unsub <h>                  -> ok | !inv | !dangling
     inval <h>                  -> ok | !gone
     notify <pattern> <arg>     -> n=<count> {<key>:<h>=<arg>}   (delivery order)
     shrink <pattern>           -> ok
     exists <pattern>           -> b=0|1
     depth                      -> n=<depth>
     snap <n1,n2,…> <d>         -> d=<depth> e=<exists bit for every concrete key over the names, length 1..d>
     dump                       -> stored keys with their observers (driver only, statistics)
-/
namespace Tulz.Drv.Router
open Tulz Tulz.Router

structure Handle where
  h : Nat
  key : List String
  dead : Bool          -- the node was erased by a shrink: the C++ handle dangles

structure State where
  tree : Node := emptyRouter
  handles : List Handle := []

def init : State := {}

/-- wire form of a level name: `^` stands for a line feed (`!` for `/`, which no regex of the generator distinguishes) -/
def decodeName (s : String) : String := String.ofList (s.toList.map (fun c => if c == '^' then '\n' else c))

def rm (r : Regex.Re) (s : String) : Bool := r.matches (decodeName s)

def parseLevel (tok : String) : Option (Level Regex.Re) :=
  match tok.toList with
  | '=' :: cs => some (.str (String.ofList cs))
  | '~' :: cs => (Regex.parse (String.ofList cs)).map .re
  | ['*'] => (Regex.parse ".*").map .re          -- `RoutingKeyBuilder::all()`
  | _ => none

def parsePattern (s : String) : Option (List (Level Regex.Re)) :=
  ((s.splitOn "/").filter (· ≠ "")).mapM parseLevel

def concreteKey : List (Level Regex.Re) → Option (List String)
  | [] => some []
  | .str s :: ls => (concreteKey ls).map (s :: ·)
  | .re _ :: _ => none

def parseKey (s : String) : Option (List String) := parsePattern s >>= concreteKey

def showKey (k : List String) : String := "/" ++ "/".intercalate k

def keyOf (st : State) (h : Nat) : String :=
  match st.handles.find? (·.h == h) with
  | some x => showKey x.key
  | none => "?"

/-- all concrete keys over `names` of length 1..d, by length, then lexicographic in the order given -/
def keysUpTo (names : List String) : Nat → List (List String) → List (List String)
  | 0, _ => []
  | d + 1, level =>
    let next := level.flatMap (fun p => names.map (fun n => p ++ [n]))
    next ++ keysUpTo names d next

def showSubj : Option Subj → String
  | none => "-"
  | some s => "[" ++ ",".intercalate (s.map (fun o => toString o.id ++ (if o.valid then "" else "!"))) ++ "]"

def step (st : State) (args : List String) : State × String :=
  match args with
  | ["reset"] => ({}, "ok")
  | ["init", _, _] => (st, "ok")
  | ["sub", h, key, _] =>
    match h.toNat?, parseKey key with
    | some h, some k => ({ tree := rSubscribe h k st.tree, handles := ⟨h, k, false⟩ :: st.handles }, "ok")
    | _, _ => (st, "bad-op")
  | ["unsub", h] =>
    match h.toNat? >>= fun h => st.handles.find? (·.h == h) with
    | none => (st, "bad-op")
    | some x =>
      if x.dead then (st, "!dangling") else
      match applyOp rm st.tree (.unsubscribe x.key x.h) with
      | .ok t => ({ st with tree := t }, "ok")
      | .error .invalidArg => (st, "!inv")
      | .error .dangling => (st, "!dangling")
  | ["inval", h] =>
    match h.toNat? >>= fun h => st.handles.find? (·.h == h) with
    | none => (st, "bad-op")
    | some x =>
      if x.dead then (st, "!gone") else
      match applyOp rm st.tree (.invalidate x.key x.h) with
      | .ok t => ({ st with tree := t }, "ok")
      | .error _ => (st, "!gone")
  | ["notify", pat, arg] =>
    match parsePattern pat with
    | none => (st, "bad-op")
    | some p =>
      let r := rNotify rm arg p st.tree
      let entries := r.log.map (fun e => " " ++ keyOf st e.1 ++ ":" ++ toString e.1 ++ "=" ++ e.2)
      ({ st with tree := r.node }, "n=" ++ toString r.count ++ String.join entries)
  | ["shrink", pat] =>
    match parsePattern pat with
    | none => (st, "bad-op")
    | some p =>
      let t := rShrink rm p st.tree
      let before := rKeys st.tree
      let after := rKeys t
      let gone := before.filter (fun k => !after.contains k)
      ({ tree := t, handles := st.handles.map (fun x => if gone.contains x.key then { x with dead := true } else x) }, "ok")
  | ["exists", pat] =>
    match parsePattern pat with
    | none => (st, "bad-op")
    | some p => (st, if rExists rm p st.tree then "b=1" else "b=0")
  | ["depth"] => (st, "n=" ++ toString (rDepth st.tree))
  | ["snap", names, d] =>
    match d.toNat? with
    | none => (st, "bad-op")
    | some d =>
      let ns := (names.splitOn ",").filter (· ≠ "")
      let keys := keysUpTo ns d [[]]
      let bits := keys.map (fun k => if rExists rm (k.map Level.str) st.tree then "1" else "0")
      (st, "d=" ++ toString (rDepth st.tree) ++ " e=" ++ String.join bits)
  | ["dump"] =>
    (st, " ".intercalate ((rFlat st.tree).map (fun e => showKey e.1 ++ showSubj e.2)))
  | _ => (st, "bad-op")

end Tulz.Drv.Router
