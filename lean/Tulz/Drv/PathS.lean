import Tulz.Model.PathStr
import Tulz.Model.FsTree
import Tulz.Model.DirVisitor
import Tulz.Drv.FileM
/- line protocol for the Path models: `ps <op> <args…>`; same lines and same output format as
   harness/path/path_harness.cpp.  Strings travel hex-encoded (`-` = empty), one byte = one `Char`. -/
namespace Tulz.Drv.PathS
open Tulz.PathStr Tulz.Fs Tulz.Dv
open Tulz.Drv.FileM (unhex hex)

structure State where
  tree : FsNode := .dir []
  cwd : String := "/"
  stack : List Visitor := []

def init : State := {}

def toStr (h : String) : Str := (unhex h).map fun b => Char.ofNat b.toNat
def ofStr (s : Str) : String := hex (s.map fun c => UInt8.ofNat c.toNat)

def showRes : Except PathStr.Err Str → String
  | .ok s => ofStr s
  | .error _ => "!OOR"

/-- bytes of a hex-encoded relative path, split at '/', empty segments dropped -/
def segsOfString (s : String) : List String := (s.splitOn "/").filter (· ≠ "")

def bytesToString (b : List UInt8) : String := String.ofList (b.map fun x => Char.ofNat x.toNat)
def stringToHex (s : String) : String := hex (s.toList.map fun c => UInt8.ofNat c.toNat)

def segs (h : String) : List String := segsOfString (bytesToString (unhex h))

/-- the segments a query string denotes in `tree`.  A string that ends in a separator and whose segments lead to a regular file
    names nothing (POSIX: ENOTDIR — the final separator asks for an entry *below* the file), which is what looking up the
    empty name below that file says in the model too (`resolve (.file _) (_ :: _) = none`) -/
def segsIn (tree : FsNode) (h : String) : List String :=
  let raw := bytesToString (unhex h)
  let base := segsOfString raw
  match base, resolve tree base with
  | _ :: _, some (.file _) => if raw.endsWith "/" then base ++ [""] else base
  | _, _ => base

/-- put `new` at `path` (parents must exist; an existing entry of that name is replaced) -/
def insertAt : List String → FsNode → FsNode → FsNode
  | [], _, new => new
  | _ :: _, .file b, _ => .file b
  | s :: r, .dir cs, new =>
    if cs.any (fun (e : String × FsNode) => e.1 = s) then
      .dir (cs.map fun (e : String × FsNode) => if e.1 = s then (e.1, insertAt r e.2 new) else e)
    else if r.isEmpty then .dir (cs ++ [(s, new)])
    else .dir cs

def insertStr (x : String) : List String → List String
  | [] => [x]
  | y :: ys => if x ≤ y then x :: y :: ys else y :: insertStr x ys
def sortStr (l : List String) : List String := l.foldr insertStr []

/-- the order `readdir` happens to use in the driver; results are printed sorted -/
def rd (cs : Entries) : List String := "." :: ".." :: cs.map Prod.fst

def fsErr : FsErr → String
  | .notFound => "!NotFound" | .notDirectory => "!NotDirectory" | .notFile => "!NotFile"
  | .fuel => "!Fuel" | .os => "!Os"

def showList (l : List String) : String := "l=" ++ ",".intercalate (sortStr (l.map stringToHex))

/-- normalise a path against the tree: absolute (`/…`) or relative to `cwd`; `..` pops, `.` stays -/
def normalise (cwd : String) (x : String) : List String :=
  let start := if x.startsWith "/" then [] else (segsOfString cwd).reverse
  ((segsOfString x).foldl (fun acc s => if s = ".." then acc.drop 1 else if s = "." then acc else s :: acc) start).reverse

/-- the specified `chdir` of the driver: succeeds exactly on directories of the tree -/
def os (tree : FsNode) : Os :=
  ⟨fun cwd x =>
    let p := normalise cwd x
    if pIsDirectory tree p then "/" ++ "/".intercalate p else cwd⟩

def showCwd (c : String) : String := "cwd=" ++ stringToHex c

def step (s : State) (args : List String) : State × String :=
  match args with
  | ["reset"] => (init, "ok")
  | ["root", _] => (init, "ok")
  -- strings
  | ["name", a] => (s, showRes (getPathName (toStr a)))
  | ["parent", a] => (s, showRes (getParentDirectory (toStr a)))
  | ["join", a, b] => (s, ofStr (join (toStr a) (toStr b)))
  | ["abs", a] => (s, if isAbsolute (toStr a) then "b=1" else "b=0")
  | ["nj", a, b] => (s, showRes (getPathName (join (toStr a) (toStr b))))
  | ["pj", a, b] => (s, showRes (getParentDirectory (join (toStr a) (toStr b))))
  -- tree
  | ["mkdir", p] => ({ s with tree := insertAt (segs p) s.tree (.dir []) }, "ok")
  | ["mkfile", p, n] => ({ s with tree := insertAt (segs p) s.tree (.file n.toNat!) }, "ok")
  | ["exists", p] => (s, if pExists s.tree (segsIn s.tree p) then "b=1" else "b=0")
  | ["isfile", p] => (s, if pIsFile s.tree (segsIn s.tree p) then "b=1" else "b=0")
  | ["isdir", p] => (s, if pIsDirectory s.tree (segsIn s.tree p) then "b=1" else "b=0")
  | ["size", p] =>
    match pSize rd s.tree (s.tree.depth + 1) (segsIn s.tree p) with
    | .ok n => (s, "n=" ++ toString n)
    | .error e => (s, fsErr e)
  | ["list", p] =>
    match listChildren rd s.tree (segsIn s.tree p) with
    | .ok l => (s, showList l)
    | .error e => (s, fsErr e)
  -- the specification side, compared with std::filesystem in the harness
  | ["sfs_size", p] =>
    match resolve s.tree (segsIn s.tree p) with
    | some n => (s, "n=" ++ toString n.fileBytes)
    | none => (s, "!NotFound")
  | ["sfs_list", p] =>
    match resolve s.tree (segsIn s.tree p) with
    | some (.dir cs) => (s, showList (cs.map Prod.fst))
    | some (.file _) => (s, "!NotDirectory")
    | none => (s, "!NotFound")
  -- DirectoryVisitor
  | ["dv_push", p] =>
    let dir := bytesToString (unhex p)
    let (c, v) := ctor (os s.tree) s.cwd dir
    ({ s with cwd := c, stack := v :: s.stack }, showCwd c)
  | ["dv_restore"] =>
    match s.stack with
    | [] => (s, "!no-visitor")
    | v :: _ => let c := restore (os s.tree) s.cwd v; ({ s with cwd := c }, showCwd c)
  | ["dv_visit", p] =>
    match s.stack with
    | [] => (s, "!no-visitor")
    | v :: r =>
      let dir := bytesToString (unhex p)
      let (c, v') := visit (os s.tree) s.cwd { v with m_dir := dir }     -- set(dir); visit();
      ({ s with cwd := c, stack := v' :: r }, showCwd c)
  | ["chdir", p] =>
    let c := (os s.tree).chdir s.cwd (bytesToString (unhex p))
    ({ s with cwd := c }, showCwd c)
  | ["dv_pop"] =>
    match s.stack with
    | [] => (s, "!no-visitor")
    | v :: r => let c := dtor (os s.tree) s.cwd v; ({ s with cwd := c, stack := r }, showCwd c)
  | ["cwd"] => (s, showCwd s.cwd)
  | _ => (s, "bad-op")

end Tulz.Drv.PathS
