/- line protocol stub for component `PathS` (filled in by the component's owner) -/
namespace Tulz.Drv.PathS

abbrev State := Unit
def init : State := ()

def step (s : State) (_args : List String) : State × String := (s, "bad-op")

end Tulz.Drv.PathS
