/- line protocol stub for component `Pool` (filled in by the component's owner) -/
namespace Tulz.Drv.Pool

abbrev State := Unit
def init : State := ()

def step (s : State) (_args : List String) : State × String := (s, "bad-op")

end Tulz.Drv.Pool
