import Tulz.Model.Pool
import Tulz.Drv.Util
import Tulz.Drv.PoolX
/-
  Lock-step replay of an observed execution of tulz::ThreadPool on the model (DESIGN.md 5.3 / 6.5).
  The harness + canonicaliser report one line per completed critical section of the owner (`ocs q …` for
  m_queueMutex with the tasks destroyed inside, `ocs p [spawn w]` for m_poolMutex) and of a worker (`wcs w`: released
  m_queueMutex by unlocking, `wpark w`: by blocking in m_condition.wait), per notification (`onotify one [w]`,
  `onotify all w…`), per join (`joined w`), per task event (`runBegin t w`, `runEnd t w`, `destroy t w`) and per owner
  observation (`submit t`, `stopReturned`, `threadCount n`).  Given the thread the model step is determined
  (`TPool.xstep?`); after the step the driver checks that the model agrees with what was observed.
-/
namespace Tulz.Drv.Pool
open _root_.TPool

abbrev BState := Option TPool.State

def parseOp (s : String) : Option OwnerOp :=
  match s.toList with
  | 's' :: r => (String.ofList r).toNat?.map OwnerOp.start
  | ['c'] => some .clear
  | ['x'] => some .stop
  | _ => none

def opStr : OwnerOp → String
  | .start t => s!"s{t}"
  | .clear => "c"
  | .stop => "x"

def todoStr (l : List OwnerOp) : String := ",".intercalate (l.map opStr)

def ownerStr : Owner → String
  | .idle todo => s!"idle[{todoStr todo}]"
  | .spawn todo => s!"spawn[{todoStr todo}]"
  | .notifyOne todo => s!"notifyOne[{todoStr todo}]"
  | .stopNotify todo => s!"stopNotify[{todoStr todo}]"
  | .join rem todo => s!"join({joinNat rem})[{todoStr todo}]"
  | .clearQ todo => s!"clearQ[{todoStr todo}]"

def workerStr : Worker → String
  | .check => "check"
  | .parked n => if n then "parked(notified)" else "parked"
  | .running t => s!"running({t})"
  | .ran t => s!"ran({t})"
  | .exited => "exited"

def wStr (x : TPool.State) (w : Nat) : String := ((x.ws[w]?).map workerStr).getD "?"

def status (x : TPool.State) : String :=
  s!"owner={ownerStr x.owner} running={x.running} queue=[{joinNat x.queue}] pool=[{joinNat x.pool}] ws=" ++
  " ".intercalate ((List.range x.ws.length).map fun i => s!"{i}:{wStr x i}")

def asleepSet (x : TPool.State) : List Nat :=
  (List.range x.ws.length).filter fun i => x.ws[i]? == some (.parked false)

/-- labels enabled in `x` -/
def enabled (x : TPool.State) : List String :=
  let ws := List.range x.ws.length
  (if (xstep? x (.owner none)).isSome then ["owner"] else []) ++
  (ws.filter fun w => (xstep? x (.owner (some w))).isSome).map (fun w => s!"owner-notify-{w}") ++
  (ws.filter fun w => (xstep? x (.worker w)).isSome).map (fun w => s!"worker-{w}")

def mism (st : BState) (x : TPool.State) (msg : String) : BState × String := (st, s!"MISMATCH {msg} | {status x}")

def ownerMove (st : BState) (x : TPool.State) (what : String) (woken : Option Nat) (ok : TPool.State → Option String) :
    BState × String :=
  match xstep? x (.owner woken) with
  | none => mism st x s!"{what}: no owner step"
  | some y =>
    match ok y with
    | none => (some y, "ok")
    | some m => (some y, s!"MISMATCH {what}: {m} | {status y}")

def stepBase (st : BState) (args : List String) : BState × String :=
  match args with
  | ["init", mx, prog] =>
    match mx.toNat?, (prog.splitOn ",").mapM parseOp with
    | some m, some p => (some (TPool.init m p), "ok")
    | _, _ => (st, "bad-op")
  | _ =>
  match st with
  | none => (none, "MISMATCH no-init")
  | some x =>
    match args with
    | ["submit", t] =>
      match t.toNat?, x.owner with
      | some t, .idle (.start t' :: _) => if t == t' then (st, "ok") else mism st x s!"submit {t}: program says {t'}"
      | some t, _ => mism st x s!"submit {t}: owner is not about to start"
      | none, _ => (st, "bad-op")
    | "ocs" :: "q" :: ds =>
      match parseNats ds with
      | none => (st, "bad-op")
      | some ds =>
        match x.owner with
        | .idle (.start _ :: _) | .idle (.stop :: _) =>
          if ds.isEmpty then ownerMove st x "ocs q" none (fun _ => none)
          else mism st x s!"ocs q: tasks {ds} destroyed inside a start/stop critical section"
        | .idle (.clear :: _) | .clearQ _ =>
          if ds == x.queue then ownerMove st x "ocs q" none (fun _ => none)
          else mism st x s!"ocs q: destroyed {ds}, the model's queue is {x.queue}"
        | _ => mism st x "ocs q: the owner has no queue critical section here"
    | ["ocs", "p"] =>
      match x.owner with
      | .spawn _ => ownerMove st x "ocs p" none (fun y => if y.ws.length == x.ws.length then none else some "model spawns a worker, none observed")
      | .join [] _ => ownerMove st x "ocs p" none (fun _ => none)
      | _ => mism st x "ocs p: the owner has no pool critical section here (or joins are pending)"
    | ["ocs", "p", "spawn", w] =>
      match w.toNat?, x.owner with
      | some w, .spawn _ =>
        ownerMove st x "ocs p spawn" none (fun y =>
          if y.ws.length == x.ws.length + 1 && w == x.ws.length then none
          else some s!"observed a spawn of worker {w}, model: pool {x.pool.length}/{x.max}, next index {x.ws.length}")
      | some _, _ => mism st x "ocs p spawn: the owner is not in start()"
      | none, _ => (st, "bad-op")
    | ["onotify", "one"] =>
      match x.owner with
      | .notifyOne _ => ownerMove st x "onotify one (nobody woken)" none (fun _ => none)
      | _ => mism st x "onotify one: no notify_one pending"
    | ["onotify", "one", w] =>
      match w.toNat?, x.owner with
      | some w, .notifyOne _ => ownerMove st x s!"onotify one {w}" (some w) (fun _ => none)
      | some _, _ => mism st x "onotify one: no notify_one pending"
      | none, _ => (st, "bad-op")
    | "onotify" :: "all" :: ws =>
      match parseNats ws, x.owner with
      | some ws, .stopNotify _ =>
        if sortNat ws == asleepSet x then ownerMove st x "onotify all" none (fun _ => none)
        else mism st x s!"onotify all: observed woken {sortNat ws}, model has asleep {asleepSet x}"
      | some _, _ => mism st x "onotify all: no notify_all pending"
      | none, _ => (st, "bad-op")
    | ["joined", w] =>
      match w.toNat?, x.owner with
      | some w, .join (w' :: _) _ =>
        if w == w' then ownerMove st x s!"joined {w}" none (fun _ => none)
        else mism st x s!"joined {w}: model joins {w'} next"
      | some w, _ => mism st x s!"joined {w}: the owner is not joining"
      | none, _ => (st, "bad-op")
    | [ev, w] =>
      if ev == "odestroy" then mism st x s!"task {w} destroyed by the owner outside a queue critical section"
      else if ev == "threadCount" || ev == "exit" then
        match w.toNat? with
        | none => (st, "bad-op")
        | some n =>
          if ev == "threadCount" then
            if x.pool.length == n then (st, "ok") else mism st x s!"threadCount {n}: model pool has {x.pool.length}"
          else if ev == "exit" then
            if x.ws[n]? == some .exited then (st, "ok") else mism st x s!"exit {n}: model worker is {wStr x n}"
          else (st, "bad-op")
      else
      match w.toNat? with
      | none => (st, "bad-op")
      | some w =>
        if ev == "wcs" || ev == "wpark" then
          match x.ws[w]? with
          | some wk =>
            if wk.awake then
              match xstep? x (.worker w) with
              | none => mism st x s!"{ev} {w}: no model step"
              | some y =>
                let parked := y.ws[w]? == some (.parked false)
                if (ev == "wpark") == parked then (some y, s!"ok {wStr y w}")
                else (some y, s!"MISMATCH {ev} {w}: model worker becomes {wStr y w} | {status y}")
            else mism st x s!"{ev} {w}: model worker is {workerStr wk}, not about to evaluate the predicate"
          | none => mism st x s!"{ev} {w}: no such worker"
        else (st, "bad-op")
    | [ev, t, w] =>
      match t.toNat?, w.toNat? with
      | some t, some w =>
        if ev == "runBegin" then
          if x.ws[w]? == some (.running t) then (st, "ok") else mism st x s!"runBegin {t} {w}: model worker is {wStr x w}"
        else if ev == "runEnd" then
          if x.ws[w]? == some (.running t) then ((xstep? x (.worker w)), "ok") else mism st x s!"runEnd {t} {w}: model worker is {wStr x w}"
        else if ev == "destroy" then
          if x.ws[w]? == some (.ran t) then ((xstep? x (.worker w)), "ok") else mism st x s!"destroy {t} by worker {w}: model worker is {wStr x w}"
        else (st, "bad-op")
      | _, _ => (st, "bad-op")
    | ["stopReturned"] =>
      match x.owner with
      | .idle _ => if x.stopped then (st, "ok") else mism st x "stopReturned: model has not completed a stop()"
      | _ => mism st x "stopReturned: model owner is still inside an operation"
    | ["end"] =>
      let done := x.owner == .idle [] && x.ws.all (fun w => w == .exited) && x.queue.isEmpty && x.pool.isEmpty
      if done && (enabled x).isEmpty then (st, "ok") else mism st x s!"end: model not finished (enabled: {enabled x})"
    | ["stuck"] =>
      if (enabled x).isEmpty then (st, "ok model-stuck-too") else mism st x s!"stuck: the model can still move: {enabled x}"
    | ["status"] => (st, status x)
    | _ => (st, "bad-op")

/-- the component state: the base protocol (`pool …`, model TPool: non-expiring workers) and the expiring-worker protocol
    (`pool x …`, model TPoolX, Tulz/Drv/PoolX.lean) keep separate model states -/
structure State where
  base : BState := none
  x : Tulz.Drv.PoolX.State := Tulz.Drv.PoolX.init

def init : State := {}

def step (st : State) (args : List String) : State × String :=
  match args with
  | "x" :: rest => let (s, o) := Tulz.Drv.PoolX.step st.x rest; ({ st with x := s }, o)
  | _ => let (s, o) := stepBase st.base args; ({ st with base := s }, o)

end Tulz.Drv.Pool
