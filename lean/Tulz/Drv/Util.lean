/- helpers shared by the line-protocol drivers -/
namespace Tulz.Drv

def joinNat (l : List Nat) : String := " ".intercalate (l.map toString)

def parseNats (l : List String) : Option (List Nat) := l.mapM String.toNat?

/-- insertion sort (tiny lists only) -/
def insertSorted (x : Nat) : List Nat → List Nat
  | [] => [x]
  | y :: ys => if x ≤ y then x :: y :: ys else y :: insertSorted x ys
def sortNat (l : List Nat) : List Nat := l.foldr insertSorted []

/-- multiset difference `a - b` on sorted lists -/
def msDiff : List Nat → List Nat → List Nat
  | [], _ => []
  | a, [] => a
  | x :: xs, y :: ys =>
    if x = y then msDiff xs ys
    else if x < y then x :: msDiff xs (y :: ys)
    else msDiff (x :: xs) ys
termination_by a b => a.length + b.length

/-- canonical net change of a multiset of live values: `+v` for every gained copy, `-v` for every lost one -/
def delta (before after : List Nat) : String :=
  let b := sortNat before
  let a := sortNat after
  let gained := msDiff a b
  let lost := msDiff b a
  let parts := lost.map (fun v => "-" ++ toString v) ++ gained.map (fun v => "+" ++ toString v)
  if parts.isEmpty then "d:" else "d:" ++ " ".intercalate parts

end Tulz.Drv
