import Tulz.Model.PoolX
import Tulz.Drv.Util
/-
  Lock-step replay of an observed execution of tulz::ThreadPool WITH expiring workers and update() on the model TPoolX
  (protocol prefix `pool x …`, dispatched by Tulz/Drv/Pool.lean).  Same lines as the base protocol, plus
    init <max> <timeout|-> <prog>      prog: sN | c | x | u | tD
    op u                                the owner enters update() (model: updNoop / updBegin)
    tick d                              the owner advanced the clock by d
    reap w                              update()'s loop reached the finished thread w (every entry before it was skipped: flag clear) and erases it;
                                        reported at the ENTRY of its join (what workers do while the owner waits there comes after)
    ocs p                               … also ends update()'s m_poolMutex section: the remaining entries were skipped
    onotify all w…                      also for update()'s notify_all
    exit w                              the thread function of worker w returned (m_isFinished = true): model step exited -> finished
    activeCount n                       getActiveThreadCount()
    quiescent                           the scheduler found no worker able to move: the model must agree
-/
namespace Tulz.Drv.PoolX
open _root_.TPoolX

abbrev State := Option TPoolX.State
def init : State := none

def parseOp (s : String) : Option OwnerOp :=
  match s.toList with
  | 's' :: r => (String.ofList r).toNat?.map OwnerOp.start
  | 't' :: r => (String.ofList r).toNat?.map OwnerOp.tick
  | ['c'] => some .clear
  | ['x'] => some .stop
  | ['u'] => some .update
  | _ => none

def opStr : OwnerOp → String
  | .start t => s!"s{t}"
  | .tick d => s!"t{d}"
  | .clear => "c"
  | .stop => "x"
  | .update => "u"

def todoStr (l : List OwnerOp) : String := ",".intercalate (l.map opStr)

def ownerStr : Owner → String
  | .idle todo => s!"idle[{todoStr todo}]"
  | .spawn todo => s!"spawn[{todoStr todo}]"
  | .notifyOne todo => s!"notifyOne[{todoStr todo}]"
  | .stopNotify todo => s!"stopNotify[{todoStr todo}]"
  | .join rem todo => s!"join({joinNat rem})[{todoStr todo}]"
  | .clearQ todo => s!"clearQ[{todoStr todo}]"
  | .updNotify todo => s!"updNotify[{todoStr todo}]"
  | .updReap rem todo => s!"updReap({joinNat rem})[{todoStr todo}]"

def pcStr : Pc → String
  | .check => "check"
  | .parked n => if n then "parked(notified)" else "parked"
  | .running t => s!"running({t})"
  | .ran t => s!"ran({t})"
  | .exited => "exited"
  | .finished => "finished"

def pcOf (x : TPoolX.State) (w : Nat) : Option Pc := (x.ws[w]?).map (·.pc)

def wStr (x : TPoolX.State) (w : Nat) : String :=
  match x.ws[w]? with
  | some wk => s!"{pcStr wk.pc}@{wk.last}"
  | none => "?"

def status (x : TPoolX.State) : String :=
  s!"owner={ownerStr x.owner} running={x.running} now={x.now} timeout={x.timeout} queue=[{joinNat x.queue}] pool=[{joinNat x.pool}] ws=" ++
  " ".intercalate ((List.range x.ws.length).map fun i => s!"{i}:{wStr x i}")

def asleepSet (x : TPoolX.State) : List Nat :=
  (List.range x.ws.length).filter fun i => pcOf x i == some (.parked false)

def enabledWorkers (x : TPoolX.State) : List Nat :=
  (List.range x.ws.length).filter fun w => (xstep? x (.worker w)).isSome

def enabled (x : TPoolX.State) : List String :=
  let ws := List.range x.ws.length
  (if (xstep? x (.owner none)).isSome then ["owner"] else []) ++
  (ws.filter fun w => (xstep? x (.owner (some w))).isSome).map (fun w => s!"owner-notify-{w}") ++
  (enabledWorkers x).map (fun w => s!"worker-{w}")

def mism (st : State) (x : TPoolX.State) (msg : String) : State × String := (st, s!"MISMATCH {msg} | {status x}")

def ownerMove (st : State) (x : TPoolX.State) (what : String) (woken : Option Nat) (ok : TPoolX.State → Option String) :
    State × String :=
  match xstep? x (.owner woken) with
  | none => mism st x s!"{what}: no owner step"
  | some y =>
    match ok y with
    | none => (some y, "ok")
    | some m => (some y, s!"MISMATCH {what}: {m} | {status y}")

/-- update()'s loop: skip the entries before `target` (their flag must be clear), erase `target` (flag set);
    `none`: skip every remaining entry and leave the section -/
def reapUntil (target : Option Nat) : Nat → TPoolX.State → Except String TPoolX.State
  | 0, _ => .error "reap: out of fuel"
  | fuel + 1, x =>
    match x.owner with
    | .updReap (i :: _) _ =>
      if some i == target then
        if isFin x.ws i then
          (match xstep? x (.owner none) with | some y => .ok y | none => .error "no owner step")
        else .error s!"update() erased thread {i}, whose completion flag is clear in the model"
      else
        if isFin x.ws i then .error s!"update() skipped thread {i}, which has completed in the model"
        else match xstep? x (.owner none) with | some y => reapUntil target fuel y | none => .error "no owner step"
    | .updReap [] _ =>
      match target with
      | none => (match xstep? x (.owner none) with | some y => .ok y | none => .error "no owner step")
      | some j => .error s!"update() erased thread {j}, which the model's loop has passed or does not list"
    | _ => .error "the owner is not in update()'s pool section"

def step (st : State) (args : List String) : State × String :=
  match args with
  | ["init", mx, to, prog] =>
    match mx.toNat?, (prog.splitOn ",").mapM parseOp with
    | some m, some p => (some (TPoolX.init m to.toNat? p), "ok")
    | _, _ => (st, "bad-op")
  | _ =>
  match st with
  | none => (none, "MISMATCH no-init")
  | some x =>
    match args with
    | ["submit", t] =>
      match t.toNat?, x.owner with
      | some t, .idle (.start t' :: _) => if t == t' then (st, "ok") else mism st x s!"submit {t}: program says {t'}"
      | some t, _ => mism st x s!"submit {t}: owner is not about to start"
      | none, _ => (st, "bad-op")
    | ["op", "u"] =>
      match x.owner with
      | .idle (.update :: _) => ownerMove st x "op u" none (fun _ => none)
      | _ => mism st x "op u: the owner is not about to call update()"
    | ["tick", d] =>
      match d.toNat?, x.owner with
      | some d, .idle (.tick d' :: _) =>
        if d == d' then ownerMove st x "tick" none (fun _ => none) else mism st x s!"tick {d}: program says {d'}"
      | some d, _ => mism st x s!"tick {d}: the owner is not about to advance the clock"
      | none, _ => (st, "bad-op")
    | "ocs" :: "q" :: ds =>
      match parseNats ds with
      | none => (st, "bad-op")
      | some ds =>
        match x.owner with
        | .idle (.start _ :: _) | .idle (.stop :: _) =>
          if ds.isEmpty then ownerMove st x "ocs q" none (fun _ => none)
          else mism st x s!"ocs q: tasks {ds} destroyed inside a start/stop critical section"
        | .idle (.clear :: _) | .clearQ _ =>
          if ds == x.queue then ownerMove st x "ocs q" none (fun _ => none)
          else mism st x s!"ocs q: destroyed {ds}, the model's queue is {x.queue}"
        | _ => mism st x "ocs q: the owner has no queue critical section here"
    | ["ocs", "p"] =>
      match x.owner with
      | .spawn _ => ownerMove st x "ocs p" none (fun y => if y.ws.length == x.ws.length then none else some "model spawns a worker, none observed")
      | .join [] _ => ownerMove st x "ocs p" none (fun _ => none)
      | .updReap _ _ =>
        match reapUntil none (x.pool.length + 2) x with
        | .ok y => (some y, "ok")
        | .error m => mism st x s!"ocs p: {m}"
      | _ => mism st x "ocs p: the owner has no pool critical section here (or joins are pending)"
    | ["ocs", "p", "spawn", w] =>
      match w.toNat?, x.owner with
      | some w, .spawn _ =>
        ownerMove st x "ocs p spawn" none (fun y =>
          if y.ws.length == x.ws.length + 1 && w == x.ws.length then none
          else some s!"observed a spawn of worker {w}, model: pool {x.pool.length}/{x.max}, active {activeCount x}, next index {x.ws.length}")
      | some _, _ => mism st x "ocs p spawn: the owner is not in start()"
      | none, _ => (st, "bad-op")
    | ["reap", w] =>
      match w.toNat? with
      | some w =>
        match reapUntil (some w) (x.pool.length + 2) x with
        | .ok y => (some y, "ok")
        | .error m => mism st x s!"reap {w}: {m}"
      | none => (st, "bad-op")
    | ["onotify", "one"] =>
      match x.owner with
      | .notifyOne _ => ownerMove st x "onotify one (nobody woken)" none (fun _ => none)
      | _ => mism st x "onotify one: no notify_one pending"
    | ["onotify", "one", w] =>
      match w.toNat?, x.owner with
      | some w, .notifyOne _ => ownerMove st x s!"onotify one {w}" (some w) (fun _ => none)
      | some _, _ => mism st x "onotify one: no notify_one pending"
      | none, _ => (st, "bad-op")
    | "onotify" :: "all" :: ws =>
      match parseNats ws with
      | none => (st, "bad-op")
      | some ws =>
        match x.owner with
        | .stopNotify _ | .updNotify _ =>
          if sortNat ws == asleepSet x then ownerMove st x "onotify all" none (fun _ => none)
          else mism st x s!"onotify all: observed woken {sortNat ws}, model has asleep {asleepSet x}"
        | _ => mism st x "onotify all: no notify_all pending"
    | ["joined", w] =>
      match w.toNat?, x.owner with
      | some w, .join (w' :: _) _ =>
        if w == w' then ownerMove st x s!"joined {w}" none (fun _ => none)
        else mism st x s!"joined {w}: model joins {w'} next"
      | some w, _ => mism st x s!"joined {w}: the owner is not joining"
      | none, _ => (st, "bad-op")
    | ["quiescent"] =>
      if (enabledWorkers x).isEmpty then (st, "ok") else mism st x s!"quiescent: model workers {enabledWorkers x} can still move"
    | [ev, w] =>
      if ev == "odestroy" then mism st x s!"task {w} destroyed by the owner outside a queue critical section"
      else
      match w.toNat? with
      | none => (st, "bad-op")
      | some n =>
        if ev == "threadCount" then
          if x.pool.length == n then (st, "ok") else mism st x s!"threadCount {n}: model pool has {x.pool.length}"
        else if ev == "activeCount" then
          if activeCount x == n then (st, "ok") else mism st x s!"activeCount {n}: model has {activeCount x}"
        else if ev == "exit" then
          if pcOf x n == some .exited then (xstep? x (.worker n), "ok") else mism st x s!"exit {n}: model worker is {wStr x n}"
        else if ev == "wcs" || ev == "wpark" then
          match x.ws[n]? with
          | some wk =>
            if wk.pc.awake then
              match xstep? x (.worker n) with
              | none => mism st x s!"{ev} {n}: no model step"
              | some y =>
                let parked := pcOf y n == some (.parked false)
                if (ev == "wpark") == parked then (some y, s!"ok {wStr y n}")
                else (some y, s!"MISMATCH {ev} {n}: model worker becomes {wStr y n} | {status y}")
            else mism st x s!"{ev} {n}: model worker is {pcStr wk.pc}, not about to evaluate the predicate"
          | none => mism st x s!"{ev} {n}: no such worker"
        else (st, "bad-op")
    | [ev, t, w] =>
      match t.toNat?, w.toNat? with
      | some t, some w =>
        if ev == "runBegin" then
          if pcOf x w == some (.running t) then (st, "ok") else mism st x s!"runBegin {t} {w}: model worker is {wStr x w}"
        else if ev == "runEnd" then
          if pcOf x w == some (.running t) then ((xstep? x (.worker w)), "ok") else mism st x s!"runEnd {t} {w}: model worker is {wStr x w}"
        else if ev == "destroy" then
          if pcOf x w == some (.ran t) then ((xstep? x (.worker w)), "ok") else mism st x s!"destroy {t} by worker {w}: model worker is {wStr x w}"
        else (st, "bad-op")
      | _, _ => (st, "bad-op")
    | ["stopReturned"] =>
      match x.owner with
      | .idle _ => if x.stopped then (st, "ok") else mism st x "stopReturned: model has not completed a stop()"
      | _ => mism st x "stopReturned: model owner is still inside an operation"
    | ["end"] =>
      let done := x.owner == .idle [] && x.ws.all (fun w => w.pc == .finished)
      if done && (enabled x).isEmpty then (st, "ok") else mism st x s!"end: model not finished (enabled: {enabled x})"
    | ["stuck"] =>
      if (enabled x).isEmpty then (st, "ok model-stuck-too") else mism st x s!"stuck: the model can still move: {enabled x}"
    | ["status"] => (st, status x)
    | _ => (st, "bad-op")

end Tulz.Drv.PoolX
