import Tulz.Model.FileSpec
import Tulz.Drv.Util
/- line protocol for the File model: `file <op> <args…>`; same lines and same output format as
   harness/file/file_harness.cpp -/
namespace Tulz.Drv.FileM
open Tulz.Stdio Tulz.FileM

structure State where
  disk : Disk := { files := [], dirs := [] }
  objs : List (String × File) := []

def init : State := {}

def hexVal (c : Char) : Nat :=
  if c.isDigit then c.toNat - 48 else (c.toNat ||| 32) - 97 + 10

def unhexGo : List Char → Array UInt8 → Array UInt8
  | a :: b :: r, acc => unhexGo r (acc.push (UInt8.ofNat (hexVal a * 16 + hexVal b)))
  | _, acc => acc

def unhex (s : String) : Bytes :=
  if s == "-" then [] else (unhexGo s.toList #[]).toList

def hexDigit (n : Nat) : Char := if n < 10 then Char.ofNat (48 + n) else Char.ofNat (87 + n)

def hexGo : List UInt8 → Array Char → Array Char
  | [], acc => acc
  | b :: r, acc => hexGo r ((acc.push (hexDigit (b.toNat / 16))).push (hexDigit (b.toNat % 16)))

def hex (b : Bytes) : String :=
  if b.isEmpty then "-" else String.ofList (hexGo b #[]).toList

def hex64 (x : UInt64) : String :=
  String.ofList ((List.range 16).map fun i => hexDigit ((x.toNat >>> (4 * (15 - i))) % 16))

/-- data longer than 64 bytes is reported as `#<length>:<FNV-1a 64>` -/
def showBytes (b : Bytes) : String :=
  if b.length ≤ 64 then hex b
  else
    let h := b.foldl (fun (h : UInt64) x => (h ^^^ x.toUInt64) * 1099511628211) 14695981039346656037
    "#" ++ toString b.length ++ ":" ++ hex64 h

def cellsGo : List Cell → Array UInt8 → Option (Array UInt8)
  | [], acc => some acc
  | some b :: r, acc => cellsGo r (acc.push b)
  | none :: _, _ => none

def showCells (c : List Cell) : String :=
  match cellsGo c #[] with
  | some a => showBytes a.toList
  | none => "?uninitialised:" ++ toString c.length

def parseMode : String → Mode
  | "rt" => .readText | "r" => .read | "wt" => .writeText | "w" => .write
  | "at" => .appendText | "a" => .append | _ => .none

def modeName : Mode → String
  | .readText => "rt" | .read => "r" | .writeText => "wt" | .write => "w"
  | .appendText => "at" | .append => "a" | .none => "none"

def errName : Err → String
  | .notFound => "!NotFound" | .notFile => "!NotFile" | .invalidMode => "!InvalidMode"
  | .nullFile => "!NotOpen" | .bufferOverrun => "!BufferOverrun" | .hang => "!Hang"

def findObj (n : String) : List (String × File) → Option File
  | [] => none
  | (k, f) :: r => if k = n then some f else findObj n r

def setObj (n : String) (f : File) : List (String × File) → List (String × File)
  | [] => [(n, f)]
  | (k, g) :: r => if k = n then (k, f) :: r else (k, g) :: setObj n f r

def tellStr (f : File) : String :=
  match tell f with
  | .ok n => toString n
  | .error _ => "?"

def origin (s : String) : Origin :=
  if s == "0" then .start else if s == "1" then .current else .end

def withObj (s : State) (n : String) (k : File → State × String) : State × String :=
  match findObj n s.objs with
  | none => (s, "!no-object")
  | some f => k f

def put (s : State) (n : String) (f : File) : State := { s with objs := setObj n f s.objs }

def step (s : State) (args : List String) : State × String :=
  match args with
  | ["reset"] => (init, "ok")
  | ["root", _] => (s, "ok")
  | ["mkfile", n, h] => ({ s with disk := s.disk.write n (unhex h) }, "ok")
  | ["mkdir", n] => ({ s with disk := { s.disk with dirs := n :: s.disk.dirs } }, "ok")
  | ["fsize", n] =>
    match s.disk.read n with
    | some b => (s, "n=" ++ toString b.length)
    | none => (s, "!NotFound")
  | ["cat", n] =>
    match s.disk.read n with
    | some b => (s, "data=" ++ showBytes b)
    | none => (s, "!NotFound")
  | ["open", n, p, m] =>
    match findObj n s.objs with
    | none =>
      -- constructor form: a throwing constructor leaves no object
      match «open» s.disk File.closed p (parseMode m) with
      | (d, f, .ok ()) => ({ disk := d, objs := setObj n f s.objs }, if isOpen f then "ok" else "null")
      | (d, _, .error e) => ({ s with disk := d }, errName e)
    | some f0 =>
      match «open» s.disk f0 p (parseMode m) with
      | (d, f, .ok ()) => ({ disk := d, objs := setObj n f s.objs }, if isOpen f then "ok" else "null")
      | (d, f, .error e) => ({ disk := d, objs := setObj n f s.objs }, errName e)
  | ["drop", n] => withObj s n fun _ => ({ s with objs := s.objs.filter (fun e => e.1 ≠ n) }, "ok")
  | ["isopen", n] => withObj s n fun f => (s, if isOpen f then "b=1" else "b=0")
  | ["mode", n] => withObj s n fun f => (s, "m=" ++ modeName (getMode f))
  | ["close", n] => withObj s n fun f =>
    match close f with
    | (_, true) => (s, "!NotOpen")
    | (f', false) => (put s n f', "ok")
  | ["write", n, h, esz] => withObj s n fun f =>
    match (WCall.raw (unhex h) esz.toNat!).run s.disk f with
    | .error e => (s, errName e)
    | .ok (d, f', r) => ({ put s n f' with disk := d }, "n=" ++ toString r ++ " tell=" ++ tellStr f')
  | ["writea", n, h] => withObj s n fun f =>
    match (WCall.array (unhex h)).run s.disk f with
    | .error e => (s, errName e)
    | .ok (d, f', r) => ({ put s n f' with disk := d }, "n=" ++ toString r ++ " tell=" ++ tellStr f')
  | ["writes", n, h] => withObj s n fun f =>
    match (WCall.string (unhex h)).run s.disk f with
    | .error e => (s, errName e)
    | .ok (d, f', r) => ({ put s n f' with disk := d }, "n=" ++ toString r ++ " tell=" ++ tellStr f')
  | ["read", n] => withObj s n fun f =>
    match read s.disk f with
    | .error e => (s, errName e)
    | .ok (f', c) => (put s n f', "data=" ++ showCells c ++ " tell=" ++ tellStr f')
  | ["readstr", n] => withObj s n fun f =>
    match readStr s.disk f with
    | .error e => (s, errName e)
    | .ok (f', c) => (put s n f', "data=" ++ showCells c ++ " tell=" ++ tellStr f')
  | ["readbuf", n, sz, cnt] => withObj s n fun f =>
    match readBuf s.disk f sz.toNat! cnt.toNat! with
    | .error e => (s, errName e)
    | .ok (f', got, r) => (put s n f', "n=" ++ toString r ++ " data=" ++ showBytes got ++ " tell=" ++ tellStr f')
  | ["seek", n, off, org] => withObj s n fun f =>
    match seek s.disk f off.toInt! (origin org) with
    | .error e => (s, errName e)
    | .ok (f', r) => (put s n f', "r=" ++ toString r ++ " tell=" ++ tellStr f')
  | ["tell", n] => withObj s n fun f =>
    match tell f with
    | .error e => (s, errName e)
    | .ok r => (s, "n=" ++ toString r)
  | ["size", n] => withObj s n fun f =>
    match size s.disk f with
    | .error e => (s, errName e)
    | .ok (f', r) => (put s n f', "n=" ++ toString r ++ " tell=" ++ tellStr f')
  | ["flush", n] => withObj s n fun f => (s, if isOpen f then "r=0" else "!NotOpen")
  | _ => (s, "bad-op")

end Tulz.Drv.FileM
