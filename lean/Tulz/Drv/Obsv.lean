import Tulz.Model.Observable
import Tulz.Drv.Util
/- line protocol for the Observable model: `obsv <op> <args…>`; one Observable per case.
   kinds: `long` (Observable<long>), `dy` (Observable<double, NearEq>; values are dyadic rationals
   written as integers scaled by 2^20, NearEq = |a-b| < 2^-4), `str` (Observable<std::string>; tokens `'text`). -/
namespace Tulz.Drv.Obsv
open Tulz Tulz.Subject Tulz.Observable

inductive V where
  | i (n : Int)
  | s (x : String)
deriving DecidableEq, Repr

inductive Kind where
  | long | dy | dc | str      -- dc = double with a COARSE tolerance (|a-b| < 2): a step of 1 is Eq-equal
deriving DecidableEq, Repr

def scale : Int := 1048576      -- 2^20
def eps : Int := 65536          -- 2^-4 scaled
def epsCoarse : Int := 2097152  -- 2 scaled

def veq : Kind → V → V → Bool
  | .dy, .i a, .i b => decide ((a - b).natAbs < eps.natAbs)
  | .dc, .i a, .i b => decide ((a - b).natAbs < epsCoarse.natAbs)
  | _, a, b => a == b

def showV : V → String
  | .i n => toString n
  | .s x => "'" ++ x

def parseV (k : Kind) (t : String) : Option V :=
  match k with
  | .str => if t.startsWith "'" then some (.s (t.drop 1).toString) else none
  | _ => V.i <$> t.toInt?

/-- the compound operators; `none` = outside the valid inputs (division by zero, inexact dyadic result) -/
def binop (k : Kind) (op : String) (a b : V) : Option V :=
  match k, a, b with
  | .str, .s x, .s y => if op == "add" then some (.s (x ++ y)) else none
  | .long, .i x, .i y =>
    if op == "add" then some (.i (x + y)) else if op == "sub" then some (.i (x - y))
    else if op == "mul" then some (.i (x * y))
    else if op == "div" then (if y == 0 then none else some (.i (x.tdiv y)))
    else none
  | .dy, .i x, .i y =>
    if op == "add" then some (.i (x + y)) else if op == "sub" then some (.i (x - y))
    else if op == "mul" then (if (x * y) % scale == 0 then some (.i ((x * y) / scale)) else none)
    else if op == "div" then (if y == 0 then none else if (x * scale) % y == 0 then some (.i ((x * scale).tdiv y)) else none)
    else none
  | .dc, .i x, .i y =>
    if op == "add" then some (.i (x + y)) else if op == "sub" then some (.i (x - y))
    else if op == "mul" then (if (x * y) % scale == 0 then some (.i ((x * y) / scale)) else none)
    else if op == "div" then (if y == 0 then none else if (x * scale) % y == 0 then some (.i ((x * scale).tdiv y)) else none)
    else none
  | _, _, _ => none

def one : Kind → Int
  | .dy => scale
  | .dc => scale
  | _ => 1

def unop (k : Kind) (fn : String) (a : V) : Option V :=
  match a with
  | .i x =>
    if fn == "inc" then some (.i (x + one k)) else if fn == "dec" then some (.i (x - one k))
    else if fn == "neg" then some (.i (-x)) else if fn == "id" then some a
    else if fn == "zero" then some (.i 0) else if fn == "dbl" then some (.i (x + x)) else none
  | .s x =>
    if fn == "id" then some a else if fn == "clr" then some (.s "") else if fn == "dup" then some (.s (x ++ x)) else none

structure State where
  cur : Option (Kind × Obsv V) := none

def init : State := {}

def noLib : Nat → List Action := fun _ => []

def showLog (tr : List (Ev V)) : String :=
  "log=" ++ " ".intercalate ((calls tr).map (fun p => toString p.1 ++ "(" ++ showV p.2 ++ ")"))

def finish (k : Kind) (o : Obsv V) (ret : Option V) : State × String :=
  let out := "ret=" ++ (match ret with | some v => showV v | none => "-") ++ " | val=" ++ showV o.val ++ " | " ++ showLog o.w.trace
  ({ cur := some (k, { o with w := { o.w with trace := [] } }) }, if o.w.ub then "!UB" else out)

def step (st : State) (args : List String) : State × String :=
  match args with
  | ["reset"] => ({}, "ok")
  | ["new", kind, v0] =>
    let k? : Option Kind := if kind == "long" then some .long else if kind == "dy" then some .dy else if kind == "dc" then some .dc else if kind == "str" then some .str else none
    match k? with
    | none => (st, "bad-op")
    | some k => match parseV k v0 with
      | none => (st, "bad-op")
      | some v => ({ cur := some (k, { val := v, w := { sid := 0 } }) }, "ok")
  | op :: rest =>
    match st.cur with
    | none => (st, "!PRECOND")
    | some (k, o) =>
      match op, rest with
      | "value", [] => (st, "val=" ++ showV o.val)
      | "subscribe", [] =>
        let o' := o.subscribe []
        ({ cur := some (k, o') }, s!"h={o.w.handles.length} id={o.w.counter}")
      | "unsub", [h] =>
        match h.toNat? >>= (o.w.handles[·]?) with
        | none => (st, "!PRECOND")
        | some hd =>
          if hd.subj.isNone then (st, "!PRECOND")
          else if o.w.isSubscriptionValid hd then ({ cur := some (k, o.unsubscribe (h.toNat?.getD 0)) }, "ok")
          else (st, "!INVALID_ARG")
      | "assign", [v] =>
        match parseV k v with
        | none => (st, "bad-op")
        | some v => finish k (o.assign noLib (veq k) v) none
      | "apply", [fn] =>
        match unop k fn o.val with
        | none => (st, "!PRECOND")
        | some r => finish k (o.apply noLib (veq k) (fun _ => r)) none
      | "preinc", [] => match unop k "inc" o.val with
        | none => (st, "!PRECOND")
        | some r => let p := o.pre noLib (fun _ => r); finish k p.1 (some p.2)
      | "predec", [] => match unop k "dec" o.val with
        | none => (st, "!PRECOND")
        | some r => let p := o.pre noLib (fun _ => r); finish k p.1 (some p.2)
      | "postinc", [] => match unop k "inc" o.val with
        | none => (st, "!PRECOND")
        | some r => let p := o.post noLib (fun _ => r); finish k p.1 (some p.2)
      | "postdec", [] => match unop k "dec" o.val with
        | none => (st, "!PRECOND")
        | some r => let p := o.post noLib (fun _ => r); finish k p.1 (some p.2)
      | bop, [v] =>
        match parseV k v with
        | none => (st, "bad-op")
        | some v =>
          match binop k bop o.val v with
          | none => (st, "!PRECOND")
          | some r => finish k (o.opAssign noLib (veq k) (fun _ _ => r) v) none
      | _, _ => (st, "bad-op")
  | _ => (st, "bad-op")

end Tulz.Drv.Obsv
