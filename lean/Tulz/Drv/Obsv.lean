/- line protocol stub for component `Obsv` (filled in by the component's owner) -/
namespace Tulz.Drv.Obsv

abbrev State := Unit
def init : State := ()

def step (s : State) (_args : List String) : State × String := (s, "bad-op")

end Tulz.Drv.Obsv
