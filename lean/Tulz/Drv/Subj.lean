import Tulz.Model.Subject
import Tulz.Drv.Util
/- line protocol for the Subject model: `subj <op> <args…>`.
   Several subjects (one `World` each, keyed by `sid`) share one table of handles; an operation runs
   `Subject.step` on the world of its subject with the shared handle table plugged in.
   script token: actions separated by `,` (`-` = empty): s<k>m<0|1> us<h> uh<h> mu<h> um<h> iv<h> ms is nt -/
namespace Tulz.Drv.Subj
open Tulz Tulz.Subject

structure State where
  subs : List (World String) := []
  handles : List Handle := []
  lib : List (Nat × List Action) := []

def init : State := {}

def parseAction (t : String) : Option Action :=
  if t == "ms" then some .muteSelf
  else if t == "is" then some .invalSelf
  else if t == "nt" then some .notify
  else if t.startsWith "us" then Action.unsubS <$> (t.drop 2).toNat?
  else if t.startsWith "uh" then Action.unsubH <$> (t.drop 2).toNat?
  else if t.startsWith "mu" then Action.mute <$> (t.drop 2).toNat?
  else if t.startsWith "um" then Action.unmute <$> (t.drop 2).toNat?
  else if t.startsWith "iv" then Action.inval <$> (t.drop 2).toNat?
  else if t.startsWith "s" then
    match (t.drop 1).toString.splitOn "m" with
    | [k, m] => do pure (Action.sub (← k.toNat?) (m == "1"))
    | _ => none
  else none

def parseScript (t : String) : Option (List Action) :=
  if t == "-" then some [] else (t.splitOn ",").mapM parseAction

def libFn (l : List (Nat × List Action)) (k : Nat) : List Action :=
  match l.find? (fun p => p.1 == k) with
  | some p => p.2
  | none => []

def showEv : Ev String → Option String
  | .enter i a => some (toString i ++ "(" ++ a ++ ")[")
  | .exit _ => some "]"
  | .caught => some "E"
  | _ => none

def freedOf (tr : List (Ev String)) : List Nat :=
  tr.filterMap (fun e => match e with | .free i => some i | _ => none)

def showTrace (tr : List (Ev String)) : String :=
  "log=" ++ " ".intercalate (tr.filterMap showEv) ++ " | freed=" ++ joinNat (sortNat (freedOf tr))

def findSub (st : State) (sid : Nat) : Option (World String) := st.subs.find? (fun w => w.sid == sid)

def putSub (st : State) (w : World String) : State :=
  { st with subs := st.subs.map (fun x => if x.sid == w.sid then { w with handles := [], trace := [] } else x),
            handles := w.handles }

/-- run one model operation on subject `sid` -/
def runOp (st : State) (sid : Nat) (op : Op String) (verbose : Bool := false) : State × String :=
  match findSub st sid with
  | none => (st, "!PRECOND")
  | some w0 =>
    let w : World String := { w0 with handles := st.handles, trace := [] }
    let r := step (libFn st.lib) w op
    match r.2 with
    | .precond => (st, "!PRECOND")
    | .invalidArg => (st, "!INVALID_ARG")
    | .ok =>
      let st' := putSub st r.1
      if r.1.ub then (st', "!UB")
      else (st', if verbose then showTrace r.1.trace else "ok | freed=" ++ joinNat (sortNat (freedOf r.1.trace)))

def handleSubj (st : State) (hi : Nat) : Option Nat := st.handles[hi]? >>= (·.subj)

def showOpt : Option Nat → String
  | some n => toString n
  | none => "-"

def step (st : State) (args : List String) : State × String :=
  match args with
  | ["reset"] => ({}, "ok")
  | ["sig", _] => (st, "ok")
  | ["uwrap", _] => (st, "ok")
  | ["lib", k, sc] =>
    match k.toNat?, parseScript sc with
    | some k, some s => ({ st with lib := (k, s) :: st.lib.filter (fun p => p.1 != k) }, "ok")
    | _, _ => (st, "bad-op")
  | ["new", s] =>
    match s.toNat? with
    | some sid => if (findSub st sid).isSome then (st, "bad-op") else ({ st with subs := st.subs ++ [{ sid := sid }] }, "ok")
    | none => (st, "bad-op")
  | ["sub", s, _route, m0, sc] =>
    match s.toNat?, parseScript sc with
    | some sid, some script =>
      match findSub st sid with
      | none => (st, "!PRECOND")
      | some w0 =>
        let r := runOp st sid (.sub script (m0 == "1"))
        (r.1, s!"h={st.handles.length} id={w0.counter}")
    | _, _ => (st, "bad-op")
  | ["unsubS", s, h] =>
    match s.toNat?, h.toNat? with
    | some sid, some hi => runOp st sid (.unsubS hi)
    | _, _ => (st, "bad-op")
  | ["unsubH", h] =>
    match h.toNat? with
    | some hi => match handleSubj st hi with
      | some sid => runOp st sid (.unsubH hi)
      | none => (st, "!PRECOND")
    | none => (st, "bad-op")
  | [op, h] =>
    match h.toNat? with
    | none => (st, "bad-op")
    | some hi =>
      let onSubj (f : Nat → State × String) : State × String :=
        match handleSubj st hi with
        | some sid => f sid
        | none => (st, "!PRECOND")
      if op == "mute" then onSubj (fun sid => runOp st sid (.mute hi))
      else if op == "unmute" then onSubj (fun sid => runOp st sid (.unmute hi))
      else if op == "inval" then onSubj (fun sid => runOp st sid (.inval hi))
      else if op == "hmovenew" then
        if hi < st.handles.length then ({ st with handles := moveHandleNew st.handles hi }, "ok") else (st, "!PRECOND")
      else if op == "isvalid" then
        match st.handles[hi]? with
        | none => (st, "!PRECOND")
        | some hd =>
          match hd.subj with
          | none => (st, "b=0")
          | some sid =>
            match findSub st sid with
            | none => (st, "!PRECOND")      -- dangling subject pointer
            | some w => (st, if w.handleValid hd then "b=1" else "b=0")
      else if op == "ismuted" then
        match st.handles[hi]? with
        | none => (st, "!PRECOND")
        | some hd =>
          match hd.subj >>= findSub st with
          | none => (st, "!PRECOND")
          | some w =>
            if w.handleValid hd then
              match w.handleMuted hd with
              | some b => (st, if b then "b=1" else "b=0")
              | none => (st, "!UB")
            else (st, "!PRECOND")
      else if op == "hinfo" then
        match st.handles[hi]? with
        | none => (st, "!PRECOND")
        | some hd => (st, s!"id={showOpt hd.id} s={showOpt hd.subj} o={if hd.obs.isSome then 1 else 0}")
      else if op == "hassubs" then
        match findSub st hi with
        | none => (st, "!PRECOND")
        | some w => (st, if w.obs.isEmpty then "b=0" else "b=1")
      else if op == "drop" then
        match findSub st hi with
        | none => (st, "!PRECOND")
        | some w =>
          let w' := ({ w with trace := [] } : World String).destroy
          ({ st with subs := st.subs.filter (fun x => x.sid != hi) }, "ok | freed=" ++ joinNat (sortNat (freedOf w'.trace)))
      else (st, "bad-op")
  | ["hmove", d, s] =>
    match d.toNat?, s.toNat? with
    | some d, some s =>
      if d < st.handles.length ∧ s < st.handles.length then ({ st with handles := moveHandle st.handles d s }, "ok")
      else (st, "!PRECOND")
    | _, _ => (st, "bad-op")
  | ["notify", s, fuel, a] =>
    match s.toNat?, fuel.toNat? with
    | some sid, some f => runOp st sid (.notify f a) true
    | _, _ => (st, "bad-op")
  | ["live"] =>
    (st, "live=" ++ " ".intercalate (st.subs.flatMap (fun w => (sortNat w.alive).map (fun i => s!"{w.sid}:{i}"))))
  | _ => (st, "bad-op")

end Tulz.Drv.Subj
