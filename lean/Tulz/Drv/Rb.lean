import Tulz.Model.RingBufferStore
import Tulz.Drv.Util
import Tulz.Drv.IterDrv
/- line protocol for the RingBuffer model: `rb <op> <args…>` -> `<result> | d:<net live-value change>` -/
namespace Tulz.Drv.Rb
open Tulz

abbrev State := RbStore Nat
def init : State := []

def parseOp : List String → Option (RbOp Nat)
  | ["new", id, cap, ow] => do pure (.new (← id.toNat?) (← cap.toNat?) (ow == "1"))
  | "init" :: id :: ow :: cap :: vs => do
      let c ← if cap == "-" then pure none else some <$> cap.toNat?
      pure (.init (← id.toNat?) (ow == "1") c (← parseNats vs))
  | ["pb", id, x] => do pure (.pushBack (← id.toNat?) (← x.toNat?))
  | ["pf", id, x] => do pure (.pushFront (← id.toNat?) (← x.toNat?))
  | ["eb", id, x] => do pure (.pushBack (← id.toNat?) (← x.toNat?))      -- emplace_* is the same member
  | ["ef", id, x] => do pure (.pushFront (← id.toNat?) (← x.toNat?))
  | ["popb", id] => do pure (.popBack (← id.toNat?))
  | ["popf", id] => do pure (.popFront (← id.toNat?))
  | ["front", id] => do pure (.front (← id.toNat?))
  | ["back", id] => do pure (.back (← id.toNat?))
  | ["get", id, i] => do pure (.get (← id.toNat?) (← i.toNat?))
  | ["iter", id] => do pure (.iter (← id.toNat?))
  | ["size", id] => do pure (.size (← id.toNat?))
  | ["cap", id] => do pure (.capacity (← id.toNat?))
  | ["resize", id, nc] => do pure (.resize (← id.toNat?) (← nc.toNat?))
  | ["copy", d, s] => do pure (.copy (← d.toNat?) (← s.toNat?))
  | ["cassign", d, s] => do pure (.cassign (← d.toNat?) (← s.toNat?))
  | ["mctor", d, s] => do pure (.mctor (← d.toNat?) (← s.toNat?))
  | ["massign", d, s] => do pure (.massign (← d.toNat?) (← s.toNat?))
  | ["eq", a, b] => do pure (.eq (← a.toNat?) (← b.toNat?))
  | ["drop", id] => do pure (.drop (← id.toNat?))
  | _ => none

def showOut : RbOut Nat → String
  | .unit => "ok"
  | .val v => "v=" ++ toString v
  | .vals l => "l=" ++ joinNat l
  | .num n => "n=" ++ toString n
  | .flag b => if b then "b=1" else "b=0"

def stepOp (s : State) (op : RbOp Nat) : State × String :=
  match RbStore.step s op with
  | .error e => (s, "!" ++ e.toString)
  | .ok (s', out) =>
    -- a value returned by pop has left the container; everything else is in the stores
    (s', showOut out ++ " | " ++ delta (RbStore.liveVals s) (RbStore.liveVals s'))

def stepParsed (s : State) (args : List String) : State × String :=
  match parseOp args with
  | none => (s, "bad-op")
  | some op => stepOp s op

def step (s : State) (args : List String) : State × String :=
  match args with
  | ["reset"] => ([], "ok")
  | ["live"] => (s, "live=" ++ joinNat (sortNat (RbStore.liveVals s)))
  | ["layout", id] =>                      -- driver-only query used for coverage statistics
    match id.toNat? >>= s.find with
    | some (_, b) => (s, s!"{b.pos},{b.size},{b.cap}")
    | none => (s, "-")
  | "it" :: id :: start :: c :: cmds =>     -- iterator script over buffer `id` (RandomAccessIndexIterator model)
    match id.toNat? >>= s.find with
    | some (_, b) =>
      match IterDrv.run b.get start (c :: cmds) with
      | some (.ok o) => (s, o ++ " | d:")
      | some (.error e) => (s, "!" ++ e.toString)
      | none => (s, "bad-op")
    | none => (s, "!" ++ Err.assertion.toString)
  | [op, id, i] =>
    -- aliasing pushes `rb.push_back(rb[i])` etc.: the argument is the current value of the buffer's own element i
    if op == "pbs" || op == "pfs" || op == "ebs" || op == "efs" then
      match id.toNat?, i.toNat? with
      | some idn, some inn =>
        match RbStore.step s (.get idn inn) with
        | .ok (_, .val v) => stepOp s (if op == "pbs" || op == "ebs" then .pushBack idn v else .pushFront idn v)
        | .ok _ => (s, "bad-op")
        | .error e => (s, "!" ++ e.toString)
      | _, _ => (s, "bad-op")
    else stepParsed s args
  | _ => stepParsed s args

end Tulz.Drv.Rb
