import Tulz.Model.Mem
import Tulz.Model.RingBuffer
import Tulz.Model.RingBufferStore
import Tulz.Drv.Util
import Tulz.Drv.Rb
