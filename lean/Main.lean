import Tulz.Drv.Rb
import Tulz.Drv.Arr
import Tulz.Drv.Subj
import Tulz.Drv.Obsv
import Tulz.Drv.Router
import Tulz.Drv.Loc
import Tulz.Drv.PathS
import Tulz.Drv.FileM
import Tulz.Drv.Rwp
import Tulz.Drv.Pool
import Tulz.Drv.Thr
/- `tulzdrv`: reads one operation per line, prints one canonical line per operation.
   The first token selects the component model; each component owns `Tulz/Drv/<X>.lean`
   (`State`, `init`, `step : State → List String → State × String`). -/
open Tulz.Drv

structure St where
  rb : Rb.State := Rb.init
  arr : Arr.State := Arr.init
  subj : Subj.State := Subj.init
  obsv : Obsv.State := Obsv.init
  router : Router.State := Router.init
  loc : Loc.State := Loc.init
  paths : PathS.State := PathS.init
  file : FileM.State := FileM.init
  rwp : Tulz.Drv.Rwp.State := Tulz.Drv.Rwp.init
  pool : Pool.State := Pool.init
  thr : Thr.State := Thr.init

def stepLine (st : St) (line : String) : St × String :=
  match (line.trimAscii.toString.splitOn " ").filter (· ≠ "") with
  | [] => (st, "")
  | "rb" :: args => let (s, o) := Rb.step st.rb args; ({ st with rb := s }, o)
  | "arr" :: args => let (s, o) := Arr.step st.arr args; ({ st with arr := s }, o)
  | "subj" :: args => let (s, o) := Subj.step st.subj args; ({ st with subj := s }, o)
  | "obsv" :: args => let (s, o) := Obsv.step st.obsv args; ({ st with obsv := s }, o)
  | "rt" :: args => let (s, o) := Router.step st.router args; ({ st with router := s }, o)
  | "loc" :: args => let (s, o) := Loc.step st.loc args; ({ st with loc := s }, o)
  | "ps" :: args => let (s, o) := PathS.step st.paths args; ({ st with paths := s }, o)
  | "file" :: args => let (s, o) := FileM.step st.file args; ({ st with file := s }, o)
  | "rwp" :: args => let (s, o) := Tulz.Drv.Rwp.step st.rwp args; ({ st with rwp := s }, o)
  | "pool" :: args => let (s, o) := Pool.step st.pool args; ({ st with pool := s }, o)
  | "thr" :: args => let (s, o) := Thr.step st.thr args; ({ st with thr := s }, o)
  | _ => (st, "bad-component")

partial def loop (h : IO.FS.Stream) (out : IO.FS.Stream) (st : St) : IO Unit := do
  let line ← h.getLine
  if line.isEmpty then return ()
  let (st', o) := stepLine st line
  out.putStrLn o
  loop h out st'

def main : IO Unit := do
  let out ← IO.getStdout
  loop (← IO.getStdin) out {}
