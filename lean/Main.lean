import Tulz.Drv.Rb
/- `tulzdrv`: reads one operation per line, prints one canonical line per operation.
   The first token selects the component model. -/
open Tulz.Drv

structure St where
  rb : Rb.State := Rb.init

def stepLine (st : St) (line : String) : St × String :=
  match (line.trimAscii.toString.splitOn " ").filter (· ≠ "") with
  | [] => (st, "")
  | "rb" :: args => let (s, o) := Rb.step st.rb args; ({ st with rb := s }, o)
  | _ => (st, "bad-component")

partial def loop (h : IO.FS.Stream) (out : IO.FS.Stream) (st : St) : IO Unit := do
  let line ← h.getLine
  if line.isEmpty then return ()
  let (st', o) := stepLine st line
  out.putStrLn o
  loop h out st'

def main : IO Unit := do
  let out ← IO.getStdout
  loop (← IO.getStdin) out {}
